(** Snapshot of the s1.Interval lemmas developed for C19 (Proofs/C19_S1.v, property C19), kept under a
    C10 name so that C10 builds on its own; when C19_S1.v lands, this file can become a re-export. *)
(** C19, s1.Interval: the generated functions of s1/interval.go against circle membership.
    Points of the circle are reals x in [-pi,pi] (in the rank space of Base/F64.v, which for
    finite floats is the real value), with -pi identified with pi.  [memR] is written
    independently of the code's Contains; it quantifies over ALL real points of the circle,
    not only over floats (ContainsInterval <-> subset is false over float points only:
    an inverted interval whose gap holds no float contains every float). *)
From Coq Require Import ZArith Reals Floats Lra Bool List.
From Flocq Require Import Core.Core IEEE754.BinarySingleNaN IEEE754.PrimFloat.
From Geo Require Import Base.GoPrim Base.F64 Gen.S1.
Local Open Scope R_scope.

(** * The two float constants the code compares against *)
Definition PI : PrimFloat.float := (0x1.921fb54442d18p+01)%float.
Definition NPI : PrimFloat.float := (-0x1.921fb54442d18p+01)%float.
Definition rpi : R := rank PI.

Lemma nonnan_PI : nonnan PI. Proof. reflexivity. Qed.
Lemma nonnan_NPI : nonnan NPI. Proof. reflexivity. Qed.

Lemma nonnan_opp x : nonnan x -> nonnan (PrimFloat.opp x).
Proof.
  unfold nonnan. rewrite !go_isnan_equiv, opp_equiv, is_nan_Bopp. auto.
Qed.
Lemma rank_opp x : rank (PrimFloat.opp x) = - rank x.
Proof.
  unfold rank. rewrite opp_equiv.
  destruct (Prim2B x) as [s|[|]| |s m e He]; simpl; try lra.
  rewrite <- F2R_Zopp. destruct s; reflexivity.
Qed.
Lemma nonnan_abs x : nonnan x -> nonnan (PrimFloat.abs x).
Proof.
  unfold nonnan. rewrite !go_isnan_equiv, abs_equiv, is_nan_Babs. auto.
Qed.
Lemma rank_abs x : rank (PrimFloat.abs x) = Rabs (rank x).
Proof.
  unfold rank. rewrite abs_equiv. pose proof top_pos.
  destruct (Prim2B x) as [s|[|]| |s m e He]; simpl.
  - rewrite Rabs_R0. reflexivity.
  - rewrite Rabs_Ropp, Rabs_pos_eq; lra.
  - rewrite Rabs_pos_eq; lra.
  - rewrite Rabs_R0. reflexivity.
  - change (B2R (Babs (B754_finite s m e He)) = Rabs (B2R (B754_finite s m e He))).
    apply B2R_Babs.
Qed.
Lemma isnan_abs x : go_isnan (PrimFloat.abs x) = go_isnan x.
Proof. rewrite !go_isnan_equiv, abs_equiv, is_nan_Babs. reflexivity. Qed.

Lemma rank_NPI : rank NPI = - rpi.
Proof. change NPI with (PrimFloat.opp PI). apply rank_opp. Qed.
Lemma rpi_pos : 0 < rpi.
Proof.
  assert (H : PrimFloat.ltb NPI PI = true) by reflexivity.
  apply ltb_true_iff in H; try reflexivity. rewrite rank_NPI in H. unfold rpi in *. lra.
Qed.
Lemma rank_zero : rank 0%float = 0.
Proof.
  assert (H : PrimFloat.eqb (PrimFloat.opp 0%float) 0%float = true) by reflexivity.
  apply eqb_true_iff in H; [|reflexivity|reflexivity]. rewrite rank_opp in H. lra.
Qed.
Lemma rpi_lt_top : rpi < top.
Proof.
  assert (H : PrimFloat.ltb PI infinity = true) by reflexivity.
  apply ltb_true_iff in H; try reflexivity. rewrite rank_infinity in H. exact H.
Qed.

(** a float comparison against NaN is false: lets IsValid imply non-NaN *)
Lemma leb_nan_l x y : go_isnan x = true -> PrimFloat.leb x y = false.
Proof.
  rewrite go_isnan_equiv, leb_equiv. destruct (Prim2B x); try discriminate. reflexivity.
Qed.

Lemma leb_abs_pi x :
  PrimFloat.leb (PrimFloat.abs x) PI = true <-> nonnan x /\ - rpi <= rank x <= rpi.
Proof.
  split.
  - intros H. destruct (go_isnan x) eqn:N.
    + rewrite leb_nan_l in H by (rewrite isnan_abs; exact N). discriminate.
    + split; [exact N|]. apply leb_true_iff in H; [|apply nonnan_abs; exact N|reflexivity].
      rewrite rank_abs in H. fold rpi in H. unfold Rabs in H.
      destruct (Rcase_abs (rank x)); lra.
  - intros [N H]. apply leb_true_iff; [apply nonnan_abs; exact N|reflexivity|].
    rewrite rank_abs. fold rpi. unfold Rabs. destruct (Rcase_abs (rank x)); lra.
Qed.

(** * Specification side: points, validity, membership (no reference to the code) *)
Definition inrange (x : R) : Prop := - rpi <= x <= rpi.
(** a float that denotes a point of the circle *)
Definition vpt (p : PrimFloat.float) : Prop := nonnan p /\ inrange (rank p).
(** -pi and pi are the same point; pi is the normal form *)
Definition normR (x : R) : R := if Req_EM_T x (- rpi) then rpi else x.
Lemma normR_cases x : (x = - rpi /\ normR x = rpi) \/ (x <> - rpi /\ normR x = x).
Proof. unfold normR. destruct (Req_EM_T x (- rpi)); [left|right]; auto. Qed.

(** membership of a normalised point x in the interval with endpoint values lo, hi *)
Definition memR (lo hi x : R) : Prop :=
  ~ (lo = rpi /\ hi = - rpi) /\
  ((lo <= hi /\ lo <= x <= hi) \/ (hi < lo /\ (lo <= x \/ x <= hi))).
Definition mem_s1 (i : s1_Interval) (x : R) : Prop :=
  memR (rank (s1_Interval_Lo i)) (rank (s1_Interval_Hi i)) (normR x).
(** membership of a float point *)
Definition mem_s1f (i : s1_Interval) (p : PrimFloat.float) : Prop := mem_s1 i (rank p).

Definition valid_s1 (i : s1_Interval) : Prop :=
  vpt (s1_Interval_Lo i) /\ vpt (s1_Interval_Hi i) /\
  (rank (s1_Interval_Lo i) = - rpi -> rank (s1_Interval_Hi i) = rpi) /\
  (rank (s1_Interval_Hi i) = - rpi -> rank (s1_Interval_Lo i) = rpi).

(** * Reflection of the code's elementary tests *)
Ltac bool_split :=
  repeat match goal with
  | H : andb _ _ = true |- _ => apply andb_true_iff in H; destruct H
  | H : andb _ _ = false |- _ => apply andb_false_iff in H; destruct H
  | H : orb _ _ = true |- _ => apply orb_true_iff in H; destruct H
  | H : orb _ _ = false |- _ => apply orb_false_iff in H; destruct H
  | H : negb _ = true |- _ => apply negb_true_iff in H
  | H : negb _ = false |- _ => apply negb_false_iff in H
  end.
Ltac if_split :=
  repeat match goal with
  | |- context [if ?c then _ else _] => destruct c eqn:?
  | H : context [if ?c then _ else _] |- _ => destruct c eqn:?
  end.
(** decide a boolean goal built from comparisons by cases on every comparison *)
Ltac cmp_cases :=
  repeat match goal with
  | |- context [PrimFloat.leb ?a ?b] => destruct (PrimFloat.leb a b) eqn:?
  | |- context [PrimFloat.ltb ?a ?b] => destruct (PrimFloat.ltb a b) eqn:?
  | |- context [PrimFloat.eqb ?a ?b] => destruct (PrimFloat.eqb a b) eqn:?
  end.
Ltac pi_consts :=
  change (0x1.921fb54442d18p+01)%float with PI in *;
  change (-0x1.921fb54442d18p+01)%float with NPI in *.
Ltac to_R :=
  float_cmp_to_R; rewrite ?rank_NPI in *; fold rpi in *.

Lemma valid_iff i : s1_Interval_IsValid i = true <-> valid_s1 i.
Proof.
  destruct i as [lo hi]. unfold s1_Interval_IsValid, valid_s1, vpt, inrange. simpl. pi_consts.
  split.
  - intros H. bool_split;
    repeat match goal with H : PrimFloat.leb (PrimFloat.abs _) PI = true |- _ =>
      apply leb_abs_pi in H; destruct H end;
    to_R; repeat split; try assumption; try lra; intros; lra.
  - intros [[Nl Rl] [[Nh Rh] [H1 H2]]].
    assert (A1 : PrimFloat.leb (PrimFloat.abs lo) PI = true) by (apply leb_abs_pi; split; auto).
    assert (A2 : PrimFloat.leb (PrimFloat.abs hi) PI = true) by (apply leb_abs_pi; split; auto).
    rewrite A1, A2. simpl.
    cmp_cases; simpl; try reflexivity; to_R; exfalso; lra.
Qed.

(** * Turning a boolean test (compound of float comparisons) into a formula over ranks *)
Lemma true_eq_true : (true = true) <-> True. Proof. tauto. Qed.
Lemma false_eq_true : (false = true) <-> False. Proof. split; [discriminate|tauto]. Qed.
Lemma true_eq_false : (true = false) <-> False. Proof. split; [discriminate|tauto]. Qed.
Lemma false_eq_false : (false = false) <-> True. Proof. tauto. Qed.

Ltac nn := assumption || reflexivity.
Ltac reflectR E :=
  repeat first
  [ rewrite andb_true_iff in E | rewrite andb_false_iff in E
  | rewrite orb_true_iff in E | rewrite orb_false_iff in E
  | rewrite negb_true_iff in E | rewrite negb_false_iff in E
  | match type of E with
    | context [PrimFloat.leb ?a ?b = true] => rewrite (leb_true_iff a b ltac:(nn) ltac:(nn)) in E
    | context [PrimFloat.leb ?a ?b = false] => rewrite (leb_false_iff a b ltac:(nn) ltac:(nn)) in E
    | context [PrimFloat.ltb ?a ?b = true] => rewrite (ltb_true_iff a b ltac:(nn) ltac:(nn)) in E
    | context [PrimFloat.ltb ?a ?b = false] => rewrite (ltb_false_iff a b ltac:(nn) ltac:(nn)) in E
    | context [PrimFloat.eqb ?a ?b = true] => rewrite (eqb_true_iff a b ltac:(nn) ltac:(nn)) in E
    | context [PrimFloat.eqb ?a ?b = false] => rewrite (eqb_false_iff a b ltac:(nn) ltac:(nn)) in E
    end ];
  rewrite ?rank_NPI in E; fold rpi in E.
Ltac reflectG :=
  repeat first
  [ rewrite andb_true_iff | rewrite andb_false_iff
  | rewrite orb_true_iff | rewrite orb_false_iff
  | rewrite negb_true_iff | rewrite negb_false_iff
  | match goal with
    | |- context [PrimFloat.leb ?a ?b = true] => rewrite (leb_true_iff a b ltac:(nn) ltac:(nn))
    | |- context [PrimFloat.leb ?a ?b = false] => rewrite (leb_false_iff a b ltac:(nn) ltac:(nn))
    | |- context [PrimFloat.ltb ?a ?b = true] => rewrite (ltb_true_iff a b ltac:(nn) ltac:(nn))
    | |- context [PrimFloat.ltb ?a ?b = false] => rewrite (ltb_false_iff a b ltac:(nn) ltac:(nn))
    | |- context [PrimFloat.eqb ?a ?b = true] => rewrite (eqb_true_iff a b ltac:(nn) ltac:(nn))
    | |- context [PrimFloat.eqb ?a ?b = false] => rewrite (eqb_false_iff a b ltac:(nn) ltac:(nn))
    end ];
  rewrite ?rank_NPI; fold rpi.
(** one [destruct ... eqn] per [if], each condition reflected at once *)
Ltac if_reflect :=
  repeat match goal with
  | |- context [if ?c then _ else _] =>
      let E := fresh "E" in destruct c eqn:E
  | H : context [if ?c then _ else _] |- _ =>
      let E := fresh "E" in destruct c eqn:E
  end;
  repeat match goal with
  | H : ?T |- _ => match T with context [@eq bool _ _] => progress reflectR H end
  end.

Ltac s1_unfold :=
  unfold s1_Interval_Union, s1_Interval_Intersection, s1_Interval_Contains,
    s1_Interval_ContainsInterval, s1_Interval_Intersects, s1_Interval_AddPoint,
    s1_Interval_Project, s1_Interval_Complement, s1_IntervalFromPointPair,
    s1_IntervalFromEndpoints, s1_Interval_InteriorContains, s1_Interval_InteriorIntersects,
    s1_Interval_InteriorContainsInterval, s1_Interval_Invert,
    s1_Interval_fastContains, s1_Interval_IsInverted, s1_Interval_IsEmpty, s1_Interval_IsFull,
    s1_EmptyInterval, s1_FullInterval, set_s1_Interval_Lo, set_s1_Interval_Hi in *;
  cbn [s1_Interval_Lo s1_Interval_Hi] in *; pi_consts.

(** open a validity hypothesis into facts about ranks *)
Ltac open_valid :=
  repeat match goal with
  | H : valid_s1 (mk_s1_Interval _ _) |- _ =>
      let N1 := fresh "N" in let R1 := fresh "R" in let N2 := fresh "N" in let R2 := fresh "R" in
      let V1 := fresh "V" in let V2 := fresh "V" in
      destruct H as [[N1 R1] [[N2 R2] [V1 V2]]]; cbn [s1_Interval_Lo s1_Interval_Hi] in *
  | H : vpt _ |- _ => let N1 := fresh "N" in let R1 := fresh "R" in destruct H as [N1 R1]
  end; unfold inrange in *; let P := fresh "Ppos" in pose proof rpi_pos as P.
Ltac spec_unfold := unfold mem_s1f, mem_s1, memR, valid_s1, vpt, inrange in *; cbn [s1_Interval_Lo s1_Interval_Hi] in *.

Lemma normR_range x : inrange x -> - rpi < normR x <= rpi.
Proof. unfold inrange. pose proof rpi_pos. destruct (normR_cases x) as [[? ->]|[? ->]]; lra. Qed.
Lemma normR_idem x : - rpi < x <= rpi -> normR x = x.
Proof. intros. destruct (normR_cases x) as [[? ?]|[? ->]]; lra. Qed.

(** the code's normalisation of a float point is [normR] *)
Lemma norm_float p : nonnan p ->
  let p' := if PrimFloat.eqb p NPI then PI else p in
  nonnan p' /\ rank p' = normR (rank p).
Proof.
  intros N. simpl. destruct (PrimFloat.eqb p NPI) eqn:E; reflectR E.
  - split; [reflexivity|]. destruct (normR_cases (rank p)) as [[? ->]|[? ?]]; [reflexivity|lra].
  - split; [assumption|]. destruct (normR_cases (rank p)) as [[? ?]|[? ->]]; [lra|reflexivity].
Qed.

(** * Contains is membership *)
Lemma s1_contains_mem i p : valid_s1 i -> vpt p ->
  (s1_Interval_Contains i p = true <-> mem_s1f i p).
Proof.
  destruct i as [lo hi]. intros Hv [Np Rp]. open_valid.
  unfold s1_Interval_Contains. pi_consts.
  destruct (norm_float p Np) as [N' E']. simpl in N', E'.
  set (p' := if PrimFloat.eqb p NPI then PI else p) in *. clearbody p'.
  spec_unfold. rewrite <- E'. s1_unfold.
  split.
  - intros H. if_reflect; reflectR H; lra.
  - intros H. if_reflect; reflectG; lra.
Qed.

(** common opening: two valid operands, a real point of the circle replaced by its
    normal form y in (-pi,pi] *)
Ltac open2 a b :=
  destruct a as [al ah], b as [bl bh]; intros Ha Hb; open_valid.
Ltac norm_point x Hx :=
  let Hy := fresh "Hy" in
  pose proof (normR_range x Hx) as Hy; unfold mem_s1 in *;
  generalize dependent (normR x); clear Hx; intros y Hy.
Ltac finish := spec_unfold; cbn [s1_Interval_Lo s1_Interval_Hi] in *; rewrite ?rank_NPI in *; fold rpi in *;
  repeat split; try assumption; try reflexivity; try lra.

(** * IsEmpty / IsFull *)
Lemma s1_isempty_spec i : valid_s1 i ->
  (s1_Interval_IsEmpty i = true <-> forall x, inrange x -> ~ mem_s1 i x).
Proof.
  destruct i as [lo hi]. intros Hv. open_valid. s1_unfold. split.
  - intros E x Hx. reflectR E. norm_point x Hx. spec_unfold. lra.
  - intros Hall. reflectG.
    assert (A : inrange (rank lo)) by (unfold inrange; lra).
    pose proof (Hall (rank lo) A) as B. unfold mem_s1, memR in B.
    cbn [s1_Interval_Lo s1_Interval_Hi] in B.
    destruct (normR_cases (rank lo)) as [[? Hn]|[? Hn]]; rewrite Hn in B; lra.
Qed.

Lemma s1_isfull_spec i : valid_s1 i ->
  (s1_Interval_IsFull i = true <-> forall x, inrange x -> mem_s1 i x).
Proof.
  destruct i as [lo hi]. intros Hv. open_valid. s1_unfold. split.
  - intros E x Hx. reflectR E. norm_point x Hx. spec_unfold. lra.
  - intros Hall. reflectG.
    (* a non-full valid interval misses a point: probe pi and the midpoint of the gap *)
    assert (A : inrange rpi) by (unfold inrange; lra).
    pose proof (Hall rpi A) as B. unfold mem_s1, memR in B.
    cbn [s1_Interval_Lo s1_Interval_Hi] in B. rewrite (normR_idem rpi) in B by lra.
    destruct (Rle_dec (rank lo) (rank hi)) as [L|L].
    + (* not inverted and contains pi: hi = pi; probe a point below lo *)
      assert (A2 : inrange ((rank lo + - rpi) / 2)) by (unfold inrange; lra).
      pose proof (Hall _ A2) as B2. unfold mem_s1, memR in B2.
      cbn [s1_Interval_Lo s1_Interval_Hi] in B2.
      destruct (normR_cases ((rank lo + - rpi) / 2)) as [[? Hn]|[? Hn]]; rewrite Hn in B2; lra.
    + assert (A2 : inrange ((rank lo + rank hi) / 2)) by (unfold inrange; lra).
      pose proof (Hall _ A2) as B2. unfold mem_s1, memR in B2.
      cbn [s1_Interval_Lo s1_Interval_Hi] in B2.
      destruct (normR_cases ((rank lo + rank hi) / 2)) as [[? Hn]|[? Hn]]; rewrite Hn in B2; lra.
Qed.

Lemma s1_empty_valid : valid_s1 s1_EmptyInterval.
Proof. apply valid_iff. reflexivity. Qed.
Lemma s1_full_valid : valid_s1 s1_FullInterval.
Proof. apply valid_iff. reflexivity. Qed.
Lemma s1_empty_isempty : s1_Interval_IsEmpty s1_EmptyInterval = true.
Proof. reflexivity. Qed.
Lemma s1_full_isfull : s1_Interval_IsFull s1_FullInterval = true.
Proof. reflexivity. Qed.

(** * Union *)
Lemma s1_union_valid a b : valid_s1 a -> valid_s1 b -> valid_s1 (s1_Interval_Union a b).
Proof.
  open2 a b. s1_unfold. if_reflect; finish.
Qed.

Lemma s1_union_sound a b x : valid_s1 a -> valid_s1 b -> inrange x ->
  mem_s1 a x \/ mem_s1 b x -> mem_s1 (s1_Interval_Union a b) x.
Proof.
  open2 a b. intros Hx. norm_point x Hx. intros Hm. s1_unfold. if_reflect; (spec_unfold; destruct Hm as [[Hm1 [Hm|Hm]]|[Hm1 [Hm|Hm]]]; finish).
Qed.

