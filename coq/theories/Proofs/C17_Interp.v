(** C17: interpolation end cases, polyline walk (index range, end cases), Uninterpolate range,
    and the pruning test over the reals. *)
From Coq Require Import ZArith Reals Floats Lra Lia Bool List Psatz.
From Flocq Require Import Core.Core IEEE754.BinarySingleNaN IEEE754.PrimFloat.
From Geo Require Import Base.GoPrim Base.F64 Gen.EdgeDist Model.PolylineOps Proofs.C17_FloatFacts Proofs.C17_Threshold.
Import ListNotations.
Local Open Scope R_scope.

(** ** s2.Interpolate at the ends: exact *)
Lemma interpolate_zero t a b : PrimFloat.eqb t 0%float = true -> s2_Interpolate t a b = a.
Proof. intros H. unfold s2_Interpolate. rewrite H. reflexivity. Qed.

Lemma interpolate_pos_zero a b : s2_Interpolate 0%float a b = a.
Proof. apply interpolate_zero. reflexivity. Qed.
Lemma interpolate_neg_zero a b : s2_Interpolate (-0)%float a b = a.
Proof. apply interpolate_zero. reflexivity. Qed.
Lemma interpolate_one a b : s2_Interpolate 1%float a b = b.
Proof. reflexivity. Qed.

(** ** Polyline.Interpolate *)
Lemma interp_walk_next prev rest i t :
  (i <= snd (interp_walk prev rest i t) <= i + Z.of_nat (length rest))%Z.
Proof.
  revert prev i t. induction rest as [|v rest IH]; intros prev i t; simpl.
  - lia.
  - destruct (PrimFloat.ltb t (s2_Point_Distance prev v)).
    + destruct (s2_Point_eqb _ v); simpl; lia.
    + specialize (IH v (i + 1)%Z (PrimFloat.sub t (s2_Point_Distance prev v))). lia.
Qed.

Lemma polyline_interpolate_next p f : p <> [] ->
  (1 <= snd (m_Polyline_Interpolate p f) <= pl_len p)%Z.
Proof.
  destruct p as [|v0 rest]; [congruence|]. intros _. unfold m_Polyline_Interpolate, pl_len.
  destruct (PrimFloat.leb f 0%float); simpl length.
  - simpl. lia.
  - pose proof (interp_walk_next v0 rest 1 (PrimFloat.mul f (m_Polyline_Length (v0 :: rest)))). lia.
Qed.

Lemma polyline_interpolate_first v0 rest f : PrimFloat.leb f 0%float = true ->
  m_Polyline_Interpolate (v0 :: rest) f = (v0, 1%Z).
Proof. intros H. unfold m_Polyline_Interpolate. rewrite H. reflexivity. Qed.

Lemma last_cons_default {A} (l : list A) a d : last (a :: l) d = last l a.
Proof.
  revert a d. induction l as [|s r IH]; intros a d; [reflexivity|].
  change (last (a :: s :: r) d) with (last (s :: r) d). rewrite !IH. reflexivity.
Qed.

(** the walk returns the last vertex with next = len, or a point interpolated on segment [j-1, j]
    with next = j, or next = j+1 when that point equals vertex j *)
Lemma interp_walk_result prev rest i t :
  let r := interp_walk prev rest i t in
  (fst r = last rest prev /\ snd r = (i + Z.of_nat (length rest))%Z) \/
  (exists u v d, In v rest /\ fst r = s2_InterpolateAtDistance d u v /\
     (s2_Point_eqb (fst r) v = true \/ (snd r < i + Z.of_nat (length rest))%Z)).
Proof.
  revert prev i t. induction rest as [|v rest IH]; intros prev i t; simpl.
  - left. split; [reflexivity | lia].
  - destruct (PrimFloat.ltb t (s2_Point_Distance prev v)) eqn:E.
    + right. exists prev, v, t.
      destruct (s2_Point_eqb (s2_InterpolateAtDistance t prev v) v) eqn:Q; simpl; repeat split; auto.
      right. lia.
    + destruct (IH v (i + 1)%Z (PrimFloat.sub t (s2_Point_Distance prev v))) as [[H1 H2] | [u [w [d [Hin [H1 H2]]]]]].
      * left. split.
        -- rewrite H1. symmetry. apply last_cons_default.
        -- rewrite H2. lia.
      * right. exists u, w, d. repeat split; auto. destruct H2 as [H2|H2]; [left; exact H2 | right; lia].
Qed.

(** the documented sentence "fraction >= 1 returns (last vertex, len)" is false of the code *)
Definition wp : list s2_Point :=
  [ mk_s2_Point (mk_r3_Vector (-0x1.5ebbecff5cd56p-1)%float (0x1.74168d3d0dc92p-2)%float (0x1.434a8d8b7eacep-1)%float);
    mk_s2_Point (mk_r3_Vector (-0x1.5ebdb28ea82efp-1)%float (0x1.740dd892a15f7p-2)%float (0x1.434b22b6ac27cp-1)%float);
    mk_s2_Point (mk_r3_Vector (-0x1.5ec05c0dd1371p-1)%float (0x1.7400bdaecaee8p-2)%float (0x1.434c048079b92p-1)%float) ].

Lemma polyline_interpolate_one_refuted :
  exists p, p <> [] /\ snd (m_Polyline_Interpolate p 1%float) <> pl_len p /\
            s2_Point_eqb (fst (m_Polyline_Interpolate p 1%float)) (last p pt0) = false.
Proof.
  exists wp. split; [discriminate|]. split.
  - vm_compute. discriminate.
  - vm_compute. reflexivity.
Qed.

(** ** Polyline.Uninterpolate *)
Lemma minFloat64_one q :
  s2_minFloat64 1%float [q] = if PrimFloat.ltb q 1%float then q else 1%float.
Proof. reflexivity. Qed.

Lemma rank_one : rank 1%float = 1.
Proof.
  unfold rank. change 1%float with one. rewrite one_equiv, Prim2B_B2Prim.
  unfold rankB. simpl. unfold F2R, Defs.F2R. simpl. lra.
Qed.

Lemma rank_zero : rank 0%float = 0.
Proof. unfold rank. change 0%float with zero. rewrite zero_equiv, Prim2B_B2Prim. reflexivity. Qed.

(** never above 1 and never NaN, for every input (also NaN distances, empty sums, 0/0) *)
Lemma uninterpolate_le_one p q next :
  nonnan (m_Polyline_Uninterpolate p q next) /\ rank (m_Polyline_Uninterpolate p q next) <= 1.
Proof.
  unfold m_Polyline_Uninterpolate. destruct (pl_len p <? 2)%Z.
  - split; [reflexivity | rewrite rank_zero; lra].
  - rewrite minFloat64_one.
    match goal with |- context [PrimFloat.ltb ?r 1%float] => set (ratio := r) end.
    destruct (PrimFloat.ltb ratio 1%float) eqn:E.
    + destruct (ltb_true_nonnan _ _ E) as [Hn _]. split; [exact Hn|].
      apply ltb_true_iff in E; auto; [|reflexivity]. rewrite rank_one in E. lra.
    + split; [reflexivity | rewrite rank_one; lra].
Qed.

(** H_LIBM (the part used here): the Go atan2 of a sign-clear first argument is sign-clear or NaN *)
Definition H_LIBM_atan2_sign : Prop := forall y x, sp y -> sp (math_Atan2 y x).

Lemma sp_norm2 v : sp (r3_Vector_Norm2 v).
Proof.
  unfold r3_Vector_Norm2, r3_Vector_Dot. repeat apply sp_add; apply sp_square.
Qed.

Lemma sp_angle (H : H_LIBM_atan2_sign) u v : sp (r3_Vector_Angle u v).
Proof.
  unfold r3_Vector_Angle. apply sp_mul.
  assert (K : sp (math_Atan2 (r3_Vector_Norm (r3_Vector_Cross u v)) (r3_Vector_Dot u v))).
  { apply H. unfold r3_Vector_Norm. apply sp_sqrt. apply (sp_norm2 (r3_Vector_Cross u v)). }
  unfold sp in K. rewrite K. reflexivity.
Qed.

Lemma sp_seg_sum (H : H_LIBM_atan2_sign) p lo hi acc : sp acc -> sp (seg_sum p lo hi acc).
Proof.
  unfold seg_sum. generalize (zrange_up lo hi). intros l. revert acc.
  induction l as [|i l IH]; intros acc Ha; simpl; [exact Ha|].
  apply IH. apply sp_add; [exact Ha | apply sp_angle; exact H].
Qed.

Lemma uninterpolate_range (H : H_LIBM_atan2_sign) p q next :
  nonnan (m_Polyline_Uninterpolate p q next) /\
  0 <= rank (m_Polyline_Uninterpolate p q next) <= 1.
Proof.
  destruct (uninterpolate_le_one p q next) as [Hn Hle]. split; [exact Hn|]. split; [|exact Hle].
  apply sp_rank; [|exact Hn].
  unfold m_Polyline_Uninterpolate. destruct (pl_len p <? 2)%Z; [apply sp_zero|].
  rewrite minFloat64_one.
  match goal with |- context [PrimFloat.ltb ?r 1%float] => set (ratio := r) end.
  destruct (PrimFloat.ltb ratio 1%float); [|apply sp_one].
  unfold ratio. apply sp_div.
  - apply sp_add; [apply sp_seg_sum; [exact H | apply sp_zero] | apply sp_angle; exact H].
  - apply sp_seg_sum; [exact H|]. apply sp_seg_sum; [exact H | apply sp_zero].
Qed.

(** ** Polyline.Project: index range *)
Lemma project_scan_index p x :
  let k := snd (project_scan p x) in (k = -1 \/ 1 <= k < pl_len p)%Z.
Proof.
  unfold project_scan.
  assert (G : forall l acc, (forall i, In i l -> 1 <= i < pl_len p)%Z ->
            (snd acc = -1 \/ 1 <= snd acc < pl_len p)%Z ->
            let k := snd (fold_left (fun '(minDist, minIndex) i =>
               let dist := s2_DistanceFromSegment x (pl_at p (i - 1)) (pl_at p i) in
               if PrimFloat.ltb dist minDist then (dist, i) else (minDist, minIndex)) l acc) in
            (k = -1 \/ 1 <= k < pl_len p)%Z).
  { induction l as [|i l IH]; intros [md mi] Hl Hacc; simpl; [exact Hacc|].
    apply IH; [intros j Hj; apply Hl; right; exact Hj|].
    destruct (PrimFloat.ltb _ md); simpl; [right; apply Hl; left; reflexivity | exact Hacc]. }
  apply G; [|left; reflexivity].
  intros i Hi. unfold zrange_up in Hi. apply in_map_iff in Hi. destruct Hi as [k [Hk Hin]].
  apply in_seq in Hin. lia.
Qed.

Lemma polyline_project_next p x :
  (2 <= pl_len p)%Z -> snd (project_scan p x) <> (-1)%Z ->
  (1 <= snd (m_Polyline_Project p x) <= pl_len p)%Z.
Proof.
  intros Hlen Hk. unfold m_Polyline_Project.
  destruct (pl_len p =? 1)%Z eqn:E; [lia|].
  pose proof (project_scan_index p x) as H. simpl in H.
  destruct (s2_Point_eqb _ _); simpl; lia.
Qed.

Lemma polyline_project_single v x : m_Polyline_Project [v] x = (v, 1%Z).
Proof. reflexivity. Qed.

(** ** the pruning test over the reals: the skipped value is >= the threshold *)
Lemma pruning_sound_R (xDotC2 c2 m qr : R) :
  0 < c2 -> xDotC2 > c2 * m -> xDotC2 / c2 + qr * qr >= m.
Proof.
  intros Hc H.
  assert (m < xDotC2 / c2).
  { apply Rmult_lt_reg_l with c2; [exact Hc|]. unfold Rdiv. rewrite (Rmult_comm xDotC2), <- Rmult_assoc, Rinv_r, Rmult_1_l by lra. lra. }
  pose proof (Rle_0_sqr qr) as Hq. unfold Rsqr in Hq. lra.
Qed.
