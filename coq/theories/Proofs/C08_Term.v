(** C08 — [Terminates] discharged: the loop of findEdgesOptimized empties its queue within the
    modelled fuel. Measure: the sum over the queue of 1 for an index-cell entry and
    W(level) = 2*4^(31-level) - 1 for a cell still to be split; popping an entry removes its
    weight and adds at most four children one level deeper (4*W(l+1) = W(l) - 3). *)
From Coq Require Import ZArith List Bool Lia Sorted.
From Geo Require Import Model.EdgeQuery Proofs.C05_CellFacts Proofs.C08_Post Proofs.C08_Opt Proofs.C08_Heap Proofs.C08_Main Proofs.C08_Cells Proofs.C08_Split.
Import ListNotations.
Local Open Scope Z_scope.

Definition lvl (q : Z) : Z := 30 - Z.log2 (cid_lsb q) / 2.
Lemma lvl_valid q L : valid_at q L -> lvl q = L.
Proof.
  intros V. unfold lvl. rewrite (cid_lsb_valid q L V). destruct V as (HL & _).
  rewrite (lsbL_pow2 L HL). rewrite Z.log2_pow2 by lia.
  replace (2 * (30 - L)) with ((30 - L) * 2) by lia. rewrite Z.div_mul by lia. lia.
Qed.

Definition W (L : Z) : Z := 2 * 4 ^ (31 - L) - 1.
Lemma W_step L : 0 <= L < 30 -> W L = 4 * W (L + 1) + 3.
Proof.
  intros H. unfold W. replace (31 - L) with ((31 - (L + 1)) + 1) by lia.
  rewrite Z.pow_add_r by lia. change (4 ^ 1) with 4. lia.
Qed.
Lemma W_bounds L : 0 <= L <= 30 -> 1 <= W L < 2 ^ 63.
Proof.
  intros H. unfold W.
  assert (4 ^ 1 <= 4 ^ (31 - L) <= 4 ^ 31) by (split; apply Z.pow_le_mono_r; lia).
  change (4 ^ 1) with 4 in H0. change (4 ^ 31) with 4611686018427387904 in H0. change (2 ^ 63) with 9223372036854775808. lia.
Qed.

Section Term.
  Variable D : Type.
  Variable ops : dist_ops D.
  Hypothesis OK : DistOK ops.
  Variable o : options D.
  Variable t : target D.
  Variable x : index.
  Hypothesis WF : IndexWF x.
  Notation rep := C08_Opt.rep.

  Definition wce (ce : centry) : Z := match snd ce with Some _ => 1 | None => W (lvl (fst ce)) end.
  Definition w (en : qentry D) : Z := wce (q_id en, q_cell en).
  Definition mu (st : state D) : Z := sumw D w (s_queue st).
  Definition centry_good (ce : centry) : Prop := valid (fst ce) /\ centry_ok x ce.
  Definition Tinv (st : state D) : Prop :=
    HI D ops (s_queue st) /\ forall en, In en (s_queue st) -> centry_good (q_id en, q_cell en).

  Lemma wce_bounds ce : centry_good ce -> 1 <= wce ce < 2 ^ 63.
  Proof.
    intros [(L & V) _]. unfold wce. destruct (snd ce); [split; [lia|reflexivity]|].
    rewrite (lvl_valid _ _ V). apply W_bounds. apply V.
  Qed.

  Lemma sumw_nonneg l : (forall en, In en l -> centry_good (q_id en, q_cell en)) -> 0 <= sumw D w l /\ (sumw D w l = 0 -> l = []).
  Proof.
    induction l as [|a l IH]; intros H; cbn; [split; [lia|reflexivity]|].
    destruct (IH (fun en He => H en (or_intror He))) as [P _].
    pose proof (wce_bounds _ (H a (or_introl eq_refl))). change (w a) with (wce (q_id a, q_cell a)). split; [lia|intros; lia].
  Qed.

  (** queue effects of the edge-level functions (no assumption on the target) *)
  Lemma madd_queue' old avoid st e : s_queue (maybe_add_result D ops o t old avoid st e) = s_queue st.
  Proof.
    unfold maybe_add_result, add_result.
    destruct old.
    - destruct (avoid && negb (mem_eid e (s_tested st))); [reflexivity|].
      destruct (t_upd_edge t e (s_limit st)); [|reflexivity]. destruct (o_max_results o =? 1); reflexivity.
    - destruct (avoid && mem_eid e (s_tested st)); [reflexivity|].
      destruct avoid; cbn; (destruct (t_upd_edge t e (s_limit st)); [|reflexivity]); destruct (o_max_results o =? 1); reflexivity.
  Qed.
  Lemma pedges_queue' old avoid es : forall st, s_queue (process_edges D ops o t old avoid st es) = s_queue st.
  Proof.
    unfold process_edges. induction es as [|e es IH]; intros st; cbn; [reflexivity|]. rewrite IH. apply madd_queue'.
  Qed.

  Lemma enqueue_measure cons st ce : centry_good ce -> Tinv st ->
    Tinv (enqueue D ops o t cons st ce) /\ mu (enqueue D ops o t cons st ce) <= mu st + wce ce.
  Proof.
    intros G [H Q]. pose proof (wce_bounds ce G) as B. unfold enqueue.
    destruct (t_upd_cell t (fst ce) (s_limit st)) as [d|]; [|split; [split; assumption|lia]].
    set (en := mkQ _ (fst ce) (snd ce)).
    destruct (heap_push_spec D ops OK (s_queue st) en H) as [H' M]. split.
    - split; [exact H'|]. cbn. intros b Hb. apply M in Hb. destruct Hb as [->|Hb]; [|apply Q; exact Hb].
      subst en. cbn. destruct ce; exact G.
    - unfold mu. cbn. rewrite sumw_push. subst en. unfold w at 1. cbn. destruct ce; cbn. lia.
  Qed.

  Lemma poe_measure old cons avoid st ce : centry_good ce -> Tinv st ->
    Tinv (process_or_enqueue D ops o t old cons avoid st ce) /\
    mu (process_or_enqueue D ops o t old cons avoid st ce) <= mu st + wce ce.
  Proof.
    intros G Ti. pose proof (wce_bounds ce G) as B. unfold process_or_enqueue.
    destruct (snd ce) as [es|] eqn:Es; [|apply enqueue_measure; assumption].
    destruct (Nat.eqb (length es) 0); [split; [exact Ti|lia]|].
    destruct (Nat.ltb (length es) min_edges_to_enqueue); [|apply enqueue_measure; assumption].
    unfold Tinv, mu. rewrite pedges_queue'. split; [exact Ti|]. fold (mu st). lia.
  Qed.

  Lemma poe_fold_measure old cons avoid B l : forall st,
    (forall ce, In ce l -> centry_good ce /\ wce ce <= B) -> Tinv st ->
    let st' := fold_left (process_or_enqueue D ops o t old cons avoid) l st in
    Tinv st' /\ mu st' <= mu st + Z.of_nat (length l) * B.
  Proof.
    induction l as [|ce l IH]; intros st Hl Ti; cbn [fold_left length]; [split; [exact Ti|lia]|].
    destruct (Hl ce (or_introl eq_refl)) as [G Bc].
    destruct (poe_measure old cons avoid st ce G Ti) as [T1 M1].
    destruct (IH _ (fun c H => Hl c (or_intror H)) T1) as [T2 M2]. split; [exact T2|]. cbn zeta in M2. lia.
  Qed.

  Lemma split_length q : (length (split_cell x q) <= 4)%nat.
  Proof.
    unfold split_cell. destruct (cid_children q) as [|c0 [|c1 [|c2 [|c3 [|? ?]]]]]; cbn; try lia.
    rewrite !app_length.
    repeat match goal with
    | |- context [if ?c then _ else _] => destruct c
    | |- context [match ?p with O => _ | S _ => _ end] => destruct p
    end; cbn; lia.
  Qed.

  (** one iteration: the queue empties or the measure drops *)
  Lemma step_measure cons avoid st : Tinv st ->
    let st' := step D ops o t x false cons avoid st in
    Tinv st' /\ (s_queue st' = [] \/ mu st' + 1 <= mu st).
  Proof.
    intros [H Q]. cbn. unfold step.
    destruct (heap_pop D ops (s_queue st)) as [[en q']|] eqn:Ep.
    2:{ split; [split; assumption|]. left. unfold heap_pop in Ep. destruct (s_queue st); [reflexivity|discriminate]. }
    destruct (heap_pop_spec D ops OK _ _ _ H Ep) as (H' & Hen & _ & Sub & _).
    pose proof (sumw_pop D ops w _ _ _ Ep) as Sm.
    destruct (negb (d_less ops (q_dist en) (s_limit st))).
    { split; [split; [intros k Hk; cbn in Hk; lia|intros ? []]|left; reflexivity]. }
    set (st1 := set_queue D st q').
    assert (T1 : Tinv st1) by (split; [exact H'|intros b Hb; apply Q, Sub; exact Hb]).
    destruct (Q en Hen) as [(L & V) Cok]. cbn [fst] in V.
    destruct (q_cell en) as [es|] eqn:Ec.
    - unfold Tinv, mu. rewrite pedges_queue'. split; [exact T1|]. right. cbn [s_queue set_queue st1].
      rewrite Sm. change (w en) with (wce (q_id en, q_cell en)). unfold wce. cbn [snd]. rewrite Ec. lia.
    - destruct (split_strong x WF (q_id en) L V (proj2 Cok eq_refl)) as [Sok _].
      assert (HL : L < 30).
      { destruct (proj2 Cok eq_refl) as (c & Hc & [[_ R]|(_ & R & N)]); [cbn in R; discriminate|].
        cbn [fst] in R, N. apply contains_iff in R.
        rewrite (cid_range_min_valid _ _ V), (cid_range_max_valid _ _ V) in R.
        destruct (proj1 WF c Hc) as (Lc & Vc).
        apply (in_some_child _ _ _ _ V Vc R). congruence. }
      destruct (poe_fold_measure false cons avoid (W (L + 1)) (split_cell x (q_id en)) st1) as [T2 M2].
      + intros ce Hce. destruct (Sok ce Hce) as [Vc Cc]. split; [split; [exists (L + 1); exact Vc|exact Cc]|].
        unfold wce. destruct (snd ce); [pose proof (W_bounds (L + 1) ltac:(destruct V; lia)); lia|].
        rewrite (lvl_valid _ _ Vc). lia.
      + exact T1.
      + split; [exact T2|]. right. cbn zeta in M2.
        pose proof (split_length (q_id en)) as Sl. pose proof (W_bounds (L + 1) ltac:(destruct V; lia)) as Wb.
        assert (Z.of_nat (length (split_cell x (q_id en))) * W (L + 1) <= 4 * W (L + 1)) by nia.
        unfold mu in M2 |- *. change (s_queue st1) with q' in M2. rewrite Sm.
        change (w en) with (wce (q_id en, q_cell en)). unfold wce. cbn [fst snd]. rewrite Ec.
        rewrite (lvl_valid _ _ V). rewrite (W_step L) by (destruct V; lia). lia.
  Qed.

  (** [run n] performs up to 2^n iterations *)
  Lemma run_measure cons avoid n : forall st, Tinv st ->
    let st' := run D ops o t x false n cons avoid st in
    Tinv st' /\ (s_queue st' = [] \/ mu st' + 2 ^ Z.of_nat n <= mu st).
  Proof.
    induction n as [|n IH]; intros st Ti.
    - cbn [run]. change (2 ^ Z.of_nat 0) with 1. apply step_measure. exact Ti.
    - cbn [run]. destruct (IH st Ti) as [T1 M1]. cbn zeta in T1, M1.
      destruct (s_queue (run D ops o t x false n cons avoid st)) eqn:Eq.
      + split; [exact T1|left; exact Eq].
      + destruct M1 as [M1|M1]; [congruence|].
        destruct (IH _ T1) as [T2 M2]. cbn zeta in T2, M2. split; [exact T2|].
        destruct M2 as [M2|M2]; [left; exact M2|right].
        rewrite Nat2Z.inj_succ, Z.pow_succ_r by lia. lia.
  Qed.

  Lemma run_empties cons avoid n st : Tinv st -> mu st < 2 ^ Z.of_nat n ->
    s_queue (run D ops o t x false n cons avoid st) = [].
  Proof.
    intros Ti M. destruct (run_measure cons avoid n st Ti) as [T3 [E|M3]]; [exact E|]. cbn zeta in M3.
    destruct (sumw_nonneg _ (proj2 T3)) as [P _]. unfold mu in M3, M. lia.
  Qed.

  Variable brk : bool.
  (** the entries of initQueue are sound and not absurdly many (the index covering has at most
      six cells; FastCovering returns a handful) *)
  Hypothesis InitOK : forall lim, (forall ce, In ce (init_entries D ops t x brk lim) -> centry_good ce) /\
    Z.of_nat (length (init_entries D ops t x brk lim)) < 2 ^ 17.

  Lemma optimized_terminates cons avoid st : s_queue st = [] ->
    s_queue (find_edges_optimized D ops o t x false brk cons avoid st) = [].
  Proof.
    intros Eq. unfold find_edges_optimized. destruct (t_cap_empty t); [exact Eq|].
    set (p := if o_max_results o =? 1 then _ else _).
    assert (Hp : s_queue (fst p) = []).
    { subst p. destruct (o_max_results o =? 1); [|exact Eq].
      destruct (locate_leaf x (t_center_leaf t)); cbn; [rewrite pedges_queue'|]; exact Eq. }
    destruct p as [st1 stop]. cbn in Hp. destruct stop; [exact Hp|].
    destruct (InitOK (s_limit st1)) as [G Len].
    assert (T1 : Tinv st1) by (split; [rewrite Hp; intros k Hk; cbn in Hk; lia|rewrite Hp; intros ? []]).
    destruct (poe_fold_measure false cons avoid (2 ^ 63) _ st1
                (fun ce H => conj (G ce H) (Z.lt_le_incl _ _ (proj2 (wce_bounds ce (G ce H))))) T1) as [T2 M2].
    cbn zeta in M2. set (st2 := fold_left _ _ st1) in *.
    assert (M0 : mu st1 = 0) by (unfold mu; rewrite Hp; reflexivity).
    apply run_empties; [exact T2|].
    assert (E80 : 2 ^ Z.of_nat run_fuel = 2 ^ 17 * 2 ^ 63) by (vm_compute; reflexivity). rewrite E80.
    assert (Z.of_nat (length (init_entries D ops t x brk (s_limit st1))) * 2 ^ 63 < 2 ^ 17 * 2 ^ 63) by (apply Z.mul_lt_mono_pos_r; [reflexivity|exact Len]).
    lia.
  Qed.

  Theorem terminates : Terminates D ops o t x brk.
  Proof.
    unfold Terminates.
    destruct (interiors_state_props D ops o t) as (Q1 & _ & _).
    destruct (fei_shape D ops o t x brk) as [[-> _]|[(-> & _)|(_ & _ & [->|(_ & cons & avoid & ->)])]].
    - reflexivity.
    - exact Q1.
    - unfold find_edges_brute. rewrite pedges_queue'. exact Q1.
    - apply optimized_terminates. exact Q1.
  Qed.
End Term.
