(** C16: the exact part of intersectionExact.  [bigf] arithmetic is exact (value lemmas over R),
    hence the vector computed by the model, xP = (a0 x a1) x (b0 x b1), is orthogonal to both
    edge normals: it is +- the direction in which the two great circles meet; and it is the
    combination  det(b0,b1,a0) a1 - det(b0,b1,a1) a0  =  det(a0,a1,b1) b0 - det(a0,a1,b0) b1,
    which for crossing edges (all four orientations equal to s) makes  s * xP  a positive
    combination of a0, a1 and of b0, b1: the crossing point itself, not its antipode. *)
From Coq Require Import ZArith Reals Floats Lra Bool List Psatz.
From Flocq Require Import Core.Core.
From Geo Require Import Base.GoPrim Gen.R3 Gen.S2Point Gen.Isect Model.IsectExact.
Local Open Scope R_scope.

Definition bigf_val (x : bigf) : R :=
  (if bf_neg x then -1 else 1) * IZR (bf_mag x) * bpow radix2 (bf_exp x).
Definition bigf_wf (x : bigf) : Prop := (0 <= bf_mag x)%Z.

Lemma bigf_of_float_wf x : bigf_wf (bigf_of_float x).
Proof. unfold bigf_of_float, bigf_wf. destruct (Prim2SF x); simpl; lia. Qed.

Lemma bigf_mul_wf x y : bigf_wf x -> bigf_wf y -> bigf_wf (bigf_mul x y).
Proof. unfold bigf_wf, bigf_mul. simpl. nia. Qed.

Lemma bigf_mul_val x y : bigf_val (bigf_mul x y) = bigf_val x * bigf_val y.
Proof.
  unfold bigf_val, bigf_mul. simpl. rewrite mult_IZR, bpow_plus.
  destruct (bf_neg x), (bf_neg y); simpl; ring.
Qed.

Lemma bigf_opp_val x : bigf_val (bigf_opp x) = - bigf_val x.
Proof. unfold bigf_val, bigf_opp. simpl. destruct (bf_neg x); simpl; ring. Qed.

Lemma bigf_opp_wf x : bigf_wf x -> bigf_wf (bigf_opp x).
Proof. auto. Qed.

Lemma zero_val x : bigf_is_zero x = true -> bigf_val x = 0.
Proof. unfold bigf_is_zero, bigf_val. intros H. apply Z.eqb_eq in H. rewrite H. simpl. ring. Qed.

Lemma align_val m e e' : (e' <= e)%Z -> IZR (m * 2 ^ (e - e')) * bpow radix2 e' = IZR m * bpow radix2 e.
Proof.
  intros H. rewrite mult_IZR. change 2%Z with (radix_val radix2).
  rewrite IZR_Zpower by lia. rewrite Rmult_assoc, <- bpow_plus. f_equal. f_equal. lia.
Qed.

Lemma bigf_sub_val x y : bigf_val (bigf_sub x y) = bigf_val x - bigf_val y.
Proof.
  unfold bigf_sub.
  destruct (bigf_is_zero x) eqn:Zx.
  { destruct (bigf_is_zero y) eqn:Zy.
    - rewrite (zero_val x Zx), (zero_val y Zy). unfold bigf_val. simpl. ring.
    - rewrite bigf_opp_val, (zero_val x Zx). ring. }
  destruct (bigf_is_zero y) eqn:Zy.
  { rewrite (zero_val y Zy). ring. }
  set (e := Z.min (bf_exp x) (bf_exp y)).
  assert (Ex : (e <= bf_exp x)%Z) by (unfold e; lia).
  assert (Ey : (e <= bf_exp y)%Z) by (unfold e; lia).
  pose proof (align_val (bf_mag x) (bf_exp x) e Ex) as Ax.
  pose proof (align_val (bf_mag y) (bf_exp y) e Ey) as Ay.
  set (mx := (bf_mag x * 2 ^ (bf_exp x - e))%Z) in *.
  set (my := (bf_mag y * 2 ^ (bf_exp y - e))%Z) in *.
  assert (Vx : bigf_val x = (if bf_neg x then -1 else 1) * (IZR mx * bpow radix2 e)).
  { unfold bigf_val. rewrite Ax. ring. }
  assert (Vy : bigf_val y = (if bf_neg y then -1 else 1) * (IZR my * bpow radix2 e)).
  { unfold bigf_val. rewrite Ay. ring. }
  rewrite Vx, Vy.
  destruct (negb (Bool.eqb (bf_neg x) (bf_neg y))) eqn:S.
  { unfold bigf_val; simpl. rewrite plus_IZR. destruct (bf_neg x), (bf_neg y); try discriminate; ring. }
  assert (Sxy : bf_neg x = bf_neg y) by (destruct (bf_neg x), (bf_neg y); auto; discriminate).
  rewrite <- Sxy.
  destruct (my <? mx)%Z.
  { unfold bigf_val; simpl. rewrite minus_IZR. destruct (bf_neg x); ring. }
  destruct (Z.eqb_spec mx my) as [E|E].
  { unfold bigf_val; simpl. rewrite E. destruct (bf_neg x); ring. }
  unfold bigf_val; simpl. rewrite minus_IZR. destruct (bf_neg x); simpl; ring.
Qed.

Lemma bigf_add_val x y : bigf_val (bigf_add x y) = bigf_val x + bigf_val y.
Proof. unfold bigf_add. rewrite bigf_sub_val, bigf_opp_val. ring. Qed.

(** the value of a finite float64 as a [bigf] is its real value *)
Lemma bigf_of_float_val x :
  bigf_val (bigf_of_float x) =
  match Prim2SF x with
  | S754_finite s m e => F2R (Float radix2 (cond_Zopp s (Z.pos m)) e)
  | _ => 0
  end.
Proof.
  unfold bigf_of_float, bigf_val. destruct (Prim2SF x) as [s|s| |s m e]; simpl; try ring.
  unfold F2R. destruct s; simpl Fnum; simpl Fexp; simpl cond_Zopp;
    [change (Z.neg m) with (- Z.pos m)%Z; rewrite opp_IZR|]; simpl; ring.
Qed.

(** ** vectors *)
Definition vR := (R * R * R)%type.
Definition pvec_val (p : pvec) : vR := (bigf_val (pv_X p), bigf_val (pv_Y p), bigf_val (pv_Z p)).
Definition crossR (a b : vR) : vR :=
  let '(ax, ay, az) := a in let '(bx, by_, bz) := b in
  (ay * bz - az * by_, az * bx - ax * bz, ax * by_ - ay * bx).
Definition dotR (a b : vR) : R :=
  let '(ax, ay, az) := a in let '(bx, by_, bz) := b in ax * bx + ay * by_ + az * bz.
Definition detR (a b c : vR) : R := dotR (crossR a b) c.
Definition scaleR (k : R) (a : vR) : vR := let '(ax, ay, az) := a in (k * ax, k * ay, k * az).
Definition subR (a b : vR) : vR :=
  let '(ax, ay, az) := a in let '(bx, by_, bz) := b in (ax - bx, ay - by_, az - bz).
Definition ptR (p : s2_Point) : vR := pvec_val (pvec_of_vector (s2_Point_Vector p)).

Lemma pvec_cross_val a b : pvec_val (pvec_cross a b) = crossR (pvec_val a) (pvec_val b).
Proof.
  unfold pvec_val, pvec_cross, crossR. simpl. rewrite !bigf_sub_val, !bigf_mul_val. reflexivity.
Qed.

Lemma pvec_dot_val a b : bigf_val (pvec_dot a b) = dotR (pvec_val a) (pvec_val b).
Proof.
  unfold pvec_val, pvec_dot, dotR. rewrite !bigf_add_val, !bigf_mul_val. ring.
Qed.

(** the model's exact vector is the cross product of the two exact edge normals *)
Theorem exact_xP_value a0 a1 b0 b1 :
  pvec_val (isect_xP a0 a1 b0 b1) = crossR (crossR (ptR a0) (ptR a1)) (crossR (ptR b0) (ptR b1)).
Proof. unfold isect_xP, isect_aNormP, ptR. now rewrite !pvec_cross_val. Qed.

(** it lies in both planes: it is + or - the direction where the two great circles meet *)
Theorem exact_dir a0 a1 b0 b1 :
  let x := pvec_val (isect_xP a0 a1 b0 b1) in
  dotR x (crossR (ptR a0) (ptR a1)) = 0 /\ dotR x (crossR (ptR b0) (ptR b1)) = 0.
Proof.
  intros x. unfold x. rewrite exact_xP_value.
  destruct (ptR a0) as [[? ?] ?], (ptR a1) as [[? ?] ?], (ptR b0) as [[? ?] ?], (ptR b1) as [[? ?] ?].
  unfold dotR, crossR. split; ring.
Qed.

(** and it is this combination of the endpoints of either edge *)
Theorem exact_dir_combination a0 a1 b0 b1 :
  let x := pvec_val (isect_xP a0 a1 b0 b1) in
  let A := ptR a0 in let B := ptR a1 in let C := ptR b0 in let D := ptR b1 in
  x = subR (scaleR (detR C D A) B) (scaleR (detR C D B) A) /\
  x = subR (scaleR (detR A B D) C) (scaleR (detR A B C) D).
Proof.
  intros x A B C D. unfold x. rewrite exact_xP_value. fold A B C D.
  destruct A as [[? ?] ?], B as [[? ?] ?], C as [[? ?] ?], D as [[? ?] ?].
  unfold subR, scaleR, detR, dotR, crossR.
  split; (apply pair_equal_spec; split; [apply pair_equal_spec; split|]); ring.
Qed.

(** the signs the model computes are the signs of these reals *)
Lemma bigf_sgn_val x : bigf_wf x ->
  (bigf_sgn x = 1%Z <-> 0 < bigf_val x) /\ (bigf_sgn x = (-1)%Z <-> bigf_val x < 0) /\
  (bigf_sgn x = 0%Z <-> bigf_val x = 0).
Proof.
  unfold bigf_wf, bigf_sgn, bigf_val, bigf_is_zero. intros W.
  pose proof (bpow_gt_0 radix2 (bf_exp x)) as Hb.
  destruct (Z.eqb_spec (bf_mag x) 0) as [E|E].
  - rewrite E. simpl. repeat split; intros; try lra; try discriminate; try reflexivity; nra.
  - assert (0 < IZR (bf_mag x)) by (apply IZR_lt; lia).
    destruct (bf_neg x); repeat split; intros; try discriminate; try reflexivity; try nra.
Qed.
