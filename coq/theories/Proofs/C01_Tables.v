(** C01 — the Hilbert lookup tables built by initLookupCell are mutually inverse. *)
From Coq Require Import ZArith List Bool Lia.
From Geo Require Import Base.GoPrim Gen.CellIDTab Model.CellIDTables.
Import ListNotations.
Local Open Scope Z_scope.

Definition keys1024 : list Z := zrange_up 0 1024.

Lemma in_keys1024 : forall k, 0 <= k < 1024 -> In k keys1024.
Proof.
  intros k Hk. unfold keys1024, zrange_up. apply in_map_iff.
  exists (Z.to_nat k). split; [lia|]. apply in_seq. lia.
Qed.

(** key = (ij<<2)+o  |->  (pos<<2)+o' ; the inverse table maps (pos<<2)+o |-> (ij<<2)+o' *)
Definition pos_ij_inverse_at (k : Z) : bool :=
  let v := nthZ s2_lookupPos k 0 in
  (0 <=? v) && (v <? 1024) &&
  (nthZ s2_lookupIJ (Z.shiftl (Z.shiftr v 2) 2 + Z.land k 3) 0 =? Z.shiftl (Z.shiftr k 2) 2 + Z.land v 3).
Definition ij_pos_inverse_at (k : Z) : bool :=
  let v := nthZ s2_lookupIJ k 0 in
  (0 <=? v) && (v <? 1024) &&
  (nthZ s2_lookupPos (Z.shiftl (Z.shiftr v 2) 2 + Z.land k 3) 0 =? Z.shiftl (Z.shiftr k 2) 2 + Z.land v 3).

Lemma tables_inverse_all :
  forallb (fun k => pos_ij_inverse_at k && ij_pos_inverse_at k) keys1024 = true.
Proof. vm_compute. reflexivity. Qed.

Lemma lookup_tables_inverse : forall k, 0 <= k < 1024 ->
  pos_ij_inverse_at k = true /\ ij_pos_inverse_at k = true.
Proof.
  intros k Hk. pose proof tables_inverse_all as H.
  rewrite forallb_forall in H. specialize (H k (in_keys1024 k Hk)).
  apply andb_true_iff in H. exact H.
Qed.

Lemma lookup_tables_length : length s2_lookupPos = 1024%nat /\ length s2_lookupIJ = 1024%nat.
Proof. split; vm_compute; reflexivity. Qed.
