(** First step towards discharging H_TRIAGE_DET / H_TRIAGE_DOT with Flocq: the standard model
    of one float64 multiplication / addition / subtraction on PRIMITIVE floats,
        fl(x op y) = (x op y)(1 + d) + h,  |d| <= 2^-53, |h| <= 2^-1075,
    with the no-overflow side condition stated on the exact result. Closed lemmas. On top of them
    H_TRIAGE_DOT is DISCHARGED here ([triage_dot_holds]: the float dot product of two vectors of
    squared length <= 2 is within 3.046875 * 2^-52 of the exact one, underflow included), so
    SignDotProd is exact with no hypothesis ([sign_dot_prod_exact]). The determinant (H_TRIAGE_DET)
    is discharged on top of these lemmas in Proofs/C02_TriageDet.v. *)
From Coq Require Import ZArith Reals Floats Lra Lia Bool Psatz.
From Flocq Require Import Core.Core Relative IEEE754.BinarySingleNaN IEEE754.PrimFloat.
From Geo Require Import Base.GoPrim Base.F64 Base.Exact Gen.R3 Gen.S2Pred Model.Pred Proofs.C02_Exact Proofs.C02_Float.
Local Open Scope R_scope.

Notation fexp64 := (FLT_exp (3 - emax - prec) prec).
Notation rnd64 := (round radix2 fexp64 ZnearestE).

Lemma round_err z : exists d h, Rabs d <= bpow radix2 (-53) /\ Rabs h <= bpow radix2 (-1075) /\
  rnd64 z = z * (1 + d) + h.
Proof.
  destruct (error_N_FLT radix2 (3 - emax - prec) prec ltac:(reflexivity) (fun x => negb (Z.even x)) z)
    as (d & h & Hd & Hh & _ & E).
  exists d, h. repeat split; try exact E.
  - eapply Rle_trans; [exact Hd|]. change (- prec + 1)%Z with (-52)%Z.
    replace (-52)%Z with (1 + -53)%Z by lia. rewrite bpow_plus. simpl (bpow radix2 1). lra.
  - eapply Rle_trans; [exact Hh|]. change (3 - emax - prec)%Z with (-1074)%Z.
    replace (-1074)%Z with (1 + -1075)%Z by lia. rewrite bpow_plus. simpl (bpow radix2 1). lra.
Qed.

Lemma round_no_overflow z : Rabs z <= bpow radix2 1023 -> Rabs (rnd64 z) < bpow radix2 emax.
Proof.
  intros H. apply Rle_lt_trans with (bpow radix2 1023).
  - apply abs_round_le_generic; auto with typeclass_instances.
    + apply FLT_exp_valid. reflexivity.
    + apply generic_format_bpow. unfold FLT_exp. simpl. lia.
  - apply bpow_lt. reflexivity.
Qed.

Lemma fmul_err x y : ffinite x = true -> ffinite y = true -> Rabs (FR x * FR y) <= bpow radix2 1023 ->
  ffinite (x * y)%float = true /\
  exists d h, Rabs d <= bpow radix2 (-53) /\ Rabs h <= bpow radix2 (-1075) /\
    FR (x * y)%float = FR x * FR y * (1 + d) + h.
Proof.
  rewrite !ffinite_equiv. unfold FR. rewrite mul_equiv. intros Fx Fy Hb.
  pose proof (Bmult_correct prec emax ltac:(reflexivity) ltac:(reflexivity) mode_NE (Prim2B x) (Prim2B y)) as H.
  rewrite Rlt_bool_true in H by (apply round_no_overflow; exact Hb).
  destruct H as (E & F & _). split.
  - transitivity (is_finite (Prim2B x) && is_finite (Prim2B y))%bool; [exact F|]. rewrite Fx, Fy. reflexivity.
  - destruct (round_err (B2R (Prim2B x) * B2R (Prim2B y))) as (d & h & Hd & Hh & Er).
    exists d, h. repeat split; auto. etransitivity; [exact E|exact Er].
Qed.

Lemma fadd_err x y : ffinite x = true -> ffinite y = true -> Rabs (FR x + FR y) <= bpow radix2 1023 ->
  ffinite (x + y)%float = true /\
  exists d h, Rabs d <= bpow radix2 (-53) /\ Rabs h <= bpow radix2 (-1075) /\
    FR (x + y)%float = (FR x + FR y) * (1 + d) + h.
Proof.
  rewrite !ffinite_equiv. unfold FR. rewrite add_equiv. intros Fx Fy Hb.
  pose proof (Bplus_correct prec emax ltac:(reflexivity) ltac:(reflexivity) mode_NE (Prim2B x) (Prim2B y) Fx Fy) as H.
  rewrite Rlt_bool_true in H by (apply round_no_overflow; exact Hb).
  destruct H as (E & F & _). split; [exact F|].
  destruct (round_err (B2R (Prim2B x) + B2R (Prim2B y))) as (d & h & Hd & Hh & Er).
  exists d, h. repeat split; auto. etransitivity; [exact E|exact Er].
Qed.

Lemma fsub_err x y : ffinite x = true -> ffinite y = true -> Rabs (FR x - FR y) <= bpow radix2 1023 ->
  ffinite (x - y)%float = true /\
  exists d h, Rabs d <= bpow radix2 (-53) /\ Rabs h <= bpow radix2 (-1075) /\
    FR (x - y)%float = (FR x - FR y) * (1 + d) + h.
Proof.
  rewrite !ffinite_equiv. unfold FR. rewrite sub_equiv. intros Fx Fy Hb.
  pose proof (Bminus_correct prec emax ltac:(reflexivity) ltac:(reflexivity) mode_NE (Prim2B x) (Prim2B y) Fx Fy) as H.
  rewrite Rlt_bool_true in H by (apply round_no_overflow; exact Hb).
  destruct H as (E & F & _). split; [exact F|].
  destruct (round_err (B2R (Prim2B x) - B2R (Prim2B y))) as (d & h & Hd & Hh & Er).
  exists d, h. repeat split; auto. etransitivity; [exact E|exact Er].
Qed.

(** * H_TRIAGE_DOT discharged *)
Definition u := bpow radix2 (-53).
Lemma u_val : u = / 9007199254740992.
Proof. unfold u. simpl. reflexivity. Qed.
Lemma g3_bound u d1 d2 d3 : 0 <= u <= 1/2 -> Rabs d1 <= u -> Rabs d2 <= u -> Rabs d3 <= u ->
  Rabs ((1 + d1) * (1 + d2) * (1 + d3) - 1) <= (1 + u) * (1 + u) * (1 + u) - 1.
Proof.
  intros Hu H1 H2 H3. apply Rabs_le_inv in H1, H2, H3. apply Rabs_le.
  assert (0 <= (1+d1)) by lra. assert (0 <= 1 + d2) by lra. assert (0 <= 1 + d3) by lra.
  assert (A: (1 + d1) * (1 + d2) <= (1+u)*(1+u)) by (apply Rmult_le_compat; lra).
  assert (B: (1 - u) * (1 - u) <= (1 + d1) * (1 + d2)) by (apply Rmult_le_compat; lra).
  assert (A3: (1 + d1) * (1 + d2) * (1 + d3) <= (1+u)*(1+u)*(1+u)).
  { apply Rmult_le_compat; try lra. apply Rmult_le_pos; lra. }
  assert (B3: (1 - u) * (1 - u) * (1 - u) <= (1 + d1) * (1 + d2) * (1 + d3)).
  { apply Rmult_le_compat; try lra. apply Rmult_le_pos; lra. }
  split; [|lra]. nra.
Qed.
Lemma cs3 a1 a2 a3 b1 b2 b3 : a1*a1+a2*a2+a3*a3 <= 2 -> b1*b1+b2*b2+b3*b3 <= 2 ->
  Rabs (a1*b1) + Rabs (a2*b2) + Rabs (a3*b3) <= 2.
Proof.
  intros Ha Hb. rewrite !Rabs_mult.
  pose proof (Rabs_pos a1). pose proof (Rabs_pos a2). pose proof (Rabs_pos a3).
  pose proof (Rabs_pos b1). pose proof (Rabs_pos b2). pose proof (Rabs_pos b3).
  assert (Ea1 : Rabs a1 * Rabs a1 = a1 * a1) by (rewrite <- Rabs_mult; apply Rabs_pos_eq; nra).
  assert (Ea2 : Rabs a2 * Rabs a2 = a2 * a2) by (rewrite <- Rabs_mult; apply Rabs_pos_eq; nra).
  assert (Ea3 : Rabs a3 * Rabs a3 = a3 * a3) by (rewrite <- Rabs_mult; apply Rabs_pos_eq; nra).
  assert (Eb1 : Rabs b1 * Rabs b1 = b1 * b1) by (rewrite <- Rabs_mult; apply Rabs_pos_eq; nra).
  assert (Eb2 : Rabs b2 * Rabs b2 = b2 * b2) by (rewrite <- Rabs_mult; apply Rabs_pos_eq; nra).
  assert (Eb3 : Rabs b3 * Rabs b3 = b3 * b3) by (rewrite <- Rabs_mult; apply Rabs_pos_eq; nra).
  remember (Rabs a1) as A1. remember (Rabs a2) as A2. remember (Rabs a3) as A3.
  remember (Rabs b1) as B1. remember (Rabs b2) as B2. remember (Rabs b3) as B3.
  set (S := A1*B1 + A2*B2 + A3*B3).
  assert (S * S <= 4).
  { assert (L : (A1*A1+A2*A2+A3*A3)*(B1*B1+B2*B2+B3*B3) - S*S
       = (A1*B2-A2*B1)*(A1*B2-A2*B1) + (A1*B3-A3*B1)*(A1*B3-A3*B1) + (A2*B3-A3*B2)*(A2*B3-A3*B2)) by (unfold S; ring).
    assert ((A1*A1+A2*A2+A3*A3)*(B1*B1+B2*B2+B3*B3) <= 4).
    { rewrite Ea1, Ea2, Ea3, Eb1, Eb2, Eb3.
      assert (0 <= a1*a1+a2*a2+a3*a3) by nra. assert (0 <= b1*b1+b2*b2+b3*b3) by nra.
      replace 4 with (2 * 2) by ring. apply Rmult_le_compat; lra. }
    pose proof (Rle_0_sqr (A1*B2-A2*B1)) as Q1. pose proof (Rle_0_sqr (A1*B3-A3*B1)) as Q2.
    pose proof (Rle_0_sqr (A2*B3-A3*B2)) as Q3. unfold Rsqr in *. lra. }
  assert (0 <= S) by (unfold S; nra). nra.
Qed.

Lemma u_half : 0 <= u <= 1 / 2.
Proof. rewrite u_val. lra. Qed.
Lemma u_small : 0 <= u <= 1 / 1024.
Proof. rewrite u_val. lra. Qed.
Lemma eta_le_uu : bpow radix2 (-1075) <= u * u.
Proof.
  unfold u. rewrite <- bpow_plus. apply bpow_le. lia.
Qed.
Lemma small_ok z : Rabs z <= 16 -> Rabs z <= bpow radix2 1023.
Proof.
  intros H. eapply Rle_trans; [exact H|]. change 16 with (bpow radix2 4). apply bpow_le. lia.
Qed.
Lemma sq_bound x y z : x * x + y * y + z * z <= 2 -> Rabs x <= 3 / 2 /\ Rabs y <= 3 / 2 /\ Rabs z <= 3 / 2.
Proof. intros H. repeat split; apply Rabs_le; nra. Qed.

Theorem triage_dot_holds : H_TRIAGE_DOT.
Proof.
  intros [[ax ay az]] [[bx by_ bz]] Fa Fb Na Nb.
  unfold finite, finite_pt, finite_vec in Fa, Fb. unfold norm2R, dotR, PX, PY, PZ in *.
  unfold fdot, r3_Vector_Dot. cbn [s2_Point_Vector r3_Vector_X r3_Vector_Y r3_Vector_Z] in *.
  apply andb_true_iff in Fa. destruct Fa as [Fa Faz]. apply andb_true_iff in Fa. destruct Fa as [Fax Fay].
  apply andb_true_iff in Fb. destruct Fb as [Fb Fbz]. apply andb_true_iff in Fb. destruct Fb as [Fbx Fby].
  set (x1 := FR ax) in *. set (x2 := FR ay) in *. set (x3 := FR az) in *.
  set (y1 := FR bx) in *. set (y2 := FR by_) in *. set (y3 := FR bz) in *.
  destruct (sq_bound x1 x2 x3 Na) as (X1 & X2 & X3). destruct (sq_bound y1 y2 y3 Nb) as (Y1 & Y2 & Y3).
  pose proof u_half as Hu. pose proof u_small as Hus. pose proof eta_le_uu as Heta. fold u in *.
  assert (Heta' : bpow radix2 (-1075) <= 1 / 1024) by nra.
  assert (Hprod : forall x y, Rabs x <= 3 / 2 -> Rabs y <= 3 / 2 -> Rabs (x * y) <= 9 / 4).
  { intros x y Hx Hy. rewrite Rabs_mult. pose proof (Rabs_pos x). pose proof (Rabs_pos y). nra. }
  assert (Hp : forall x y d h, Rabs (x * y) <= 9 / 4 -> Rabs d <= u -> Rabs h <= bpow radix2 (-1075) ->
            Rabs (x * y * (1 + d) + h) <= 3).
  { intros x y d h Hxy Hd Hh. apply Rabs_le_inv in Hxy, Hd, Hh. apply Rabs_le.
    generalize dependent (x * y). intros w Hw. nra. }
  destruct (fmul_err ax bx Fax Fbx) as (F1 & d1 & h1 & D1 & H1 & E1); [apply small_ok; fold x1 y1; pose proof (Hprod x1 y1 X1 Y1); lra|].
  destruct (fmul_err ay by_ Fay Fby) as (F2 & d2 & h2 & D2 & H2 & E2); [apply small_ok; fold x2 y2; pose proof (Hprod x2 y2 X2 Y2); lra|].
  destruct (fmul_err az bz Faz Fbz) as (F3 & d3 & h3 & D3 & H3 & E3); [apply small_ok; fold x3 y3; pose proof (Hprod x3 y3 X3 Y3); lra|].
  fold x1 y1 in E1. fold x2 y2 in E2. fold x3 y3 in E3. fold u in D1, D2, D3.
  pose proof (Hp x1 y1 d1 h1 (Hprod _ _ X1 Y1) D1 H1) as P1. rewrite <- E1 in P1.
  pose proof (Hp x2 y2 d2 h2 (Hprod _ _ X2 Y2) D2 H2) as P2. rewrite <- E2 in P2.
  pose proof (Hp x3 y3 d3 h3 (Hprod _ _ X3 Y3) D3 H3) as P3. rewrite <- E3 in P3.
  destruct (fadd_err _ _ F1 F2) as (F4 & d4 & h4 & D4 & H4 & E4).
  { apply small_ok. eapply Rle_trans; [apply Rabs_triang|]. lra. }
  fold u in D4.
  assert (P4 : Rabs (FR (ax * bx + ay * by_)%float) <= 7).
  { rewrite E4. apply Rabs_le_inv in P1, P2, D4, H4. apply Rabs_le. nra. }
  destruct (fadd_err _ _ F4 F3) as (F5 & d5 & h5 & D5 & H5 & E5).
  { apply small_ok. eapply Rle_trans; [apply Rabs_triang|]. lra. }
  fold u in D5.
  split; [exact F5|].
  (* the error, term by term *)
  set (g := (1 + u) * (1 + u) * (1 + u) - 1).
  assert (Z0 : Rabs 0 <= u) by (rewrite Rabs_R0; lra).
  pose proof (g3_bound u d1 d4 d5 Hu D1 D4 D5) as G1. fold g in G1.
  pose proof (g3_bound u d2 d4 d5 Hu D2 D4 D5) as G2. fold g in G2.
  pose proof (g3_bound u d3 d5 0 Hu D3 D5 Z0) as G3. fold g in G3.
  set (R_ := (h1 + h2) * (1 + d4) * (1 + d5) + (h4 + h3) * (1 + d5) + h5).
  assert (Eerr : FR (ax * bx + ay * by_ + az * bz)%float - (x1 * y1 + x2 * y2 + x3 * y3)
     = x1 * y1 * ((1 + d1) * (1 + d4) * (1 + d5) - 1) + x2 * y2 * ((1 + d2) * (1 + d4) * (1 + d5) - 1)
       + x3 * y3 * ((1 + d3) * (1 + d5) * (1 + 0) - 1) + R_).
  { rewrite E5, E4, E1, E2, E3. unfold R_. ring. }
  rewrite Eerr.
  assert (HR : Rabs R_ <= 9 * (u * u)).
  { unfold R_. apply Rabs_le_inv in D4, D5, H1, H2, H3, H4, H5.
    assert (Het0 : 0 <= bpow radix2 (-1075)) by apply bpow_ge_0.
    remember (bpow radix2 (-1075)) as et.
    assert (HA : 0 <= (1 + d4) * (1 + d5) <= 2) by nra.
    assert (HB : 0 <= 1 + d5 <= 2) by lra.
    remember ((1 + d4) * (1 + d5)) as A_. remember (1 + d5) as B_.
    assert (T1 : - (4 * et) <= (h1 + h2) * A_ <= 4 * et).
    { assert (- (2 * et) <= h1 + h2 <= 2 * et) by lra. remember (h1 + h2) as s_. nra. }
    assert (T2 : - (4 * et) <= (h4 + h3) * B_ <= 4 * et).
    { assert (- (2 * et) <= h4 + h3 <= 2 * et) by lra. remember (h4 + h3) as s_. nra. }
    apply Rabs_le. rewrite Rmult_assoc, <- HeqA_. lra. }
  pose proof (cs3 x1 x2 x3 y1 y2 y3 Na Nb) as CS.
  assert (Hg : 0 <= g) by (unfold g; nra).
  eapply Rle_trans.
  { eapply Rle_trans; [apply Rabs_triang|]. apply Rplus_le_compat; [|exact HR].
    eapply Rle_trans; [apply Rabs_triang|]. apply Rplus_le_compat.
    - eapply Rle_trans; [apply Rabs_triang|]. apply Rplus_le_compat.
      + rewrite Rabs_mult. apply Rmult_le_compat_l; [apply Rabs_pos|exact G1].
      + rewrite Rabs_mult. apply Rmult_le_compat_l; [apply Rabs_pos|exact G2].
    - rewrite Rabs_mult. apply Rmult_le_compat_l; [apply Rabs_pos|exact G3]. }
  assert (Hk : D2R K_DOT = 195 / 32 * u).
  { unfold D2R, K_DOT, u. cbn [dm de]. replace (-58)%Z with (-53 + -5)%Z by lia. rewrite bpow_plus.
    simpl (bpow radix2 (-5)). lra. }
  rewrite Hk.
  assert (Hsum : (Rabs (x1 * y1) + Rabs (x2 * y2) + Rabs (x3 * y3)) * g <= 2 * g) by (apply Rmult_le_compat_r; lra).
  assert (Hfin : 2 * g + 9 * (u * u) <= 195 / 32 * u).
  { unfold g. rewrite u_val. lra. }
  lra.
Qed.

(** SignDotProd is exact, no hypothesis left *)
Theorem sign_dot_prod_exact a b : finite a -> finite b -> norm2R a <= 2 -> norm2R b <= 2 ->
  sign_dot_prod a b = sgnR (dotR a b).
Proof. apply sign_dot_prod_spec. exact triage_dot_holds. Qed.

(** the value of a float addition is the rounding of the exact sum (used for the sign-preserving
    last step of the determinant) *)
Lemma fadd_rnd x y : ffinite x = true -> ffinite y = true -> Rabs (FR x + FR y) <= bpow radix2 1023 ->
  ffinite (x + y)%float = true /\ FR (x + y)%float = rnd64 (FR x + FR y).
Proof.
  rewrite !ffinite_equiv. unfold FR. rewrite add_equiv. intros Fx Fy Hb.
  pose proof (Bplus_correct prec emax ltac:(reflexivity) ltac:(reflexivity) mode_NE (Prim2B x) (Prim2B y) Fx Fy) as H.
  rewrite Rlt_bool_true in H by (apply round_no_overflow; exact Hb).
  destruct H as (E & F & _). split; [exact F|exact E].
Qed.

Lemma FR_generic x : generic_format radix2 fexp64 (FR x).
Proof. unfold FR. apply generic_format_B2R. Qed.

(** comparing a float sum with a float constant decides the comparison of the EXACT sum *)
Lemma fadd_gt K x y : ffinite K = true -> ffinite x = true -> ffinite y = true ->
  Rabs (FR x + FR y) <= bpow radix2 1023 -> PrimFloat.ltb K (x + y)%float = true -> FR K < FR x + FR y.
Proof.
  intros FK Fx Fy Hb L. destruct (fadd_rnd x y Fx Fy Hb) as [Fs Es].
  apply ltb_true_R in L. destruct (ffinite_rank _ FK) as [_ RK]. destruct (ffinite_rank _ Fs) as [_ RS].
  rewrite RK, RS, Es in L.
  destruct (Rlt_or_le (FR K) (FR x + FR y)) as [H|H]; [exact H|]. exfalso.
  assert (rnd64 (FR x + FR y) <= rnd64 (FR K)).
  { apply round_le; auto with typeclass_instances. apply FLT_exp_valid. reflexivity. }
  rewrite (round_generic radix2 fexp64 ZnearestE (FR K)) in H0 by apply FR_generic. lra.
Qed.
Lemma fadd_lt K x y : ffinite K = true -> ffinite x = true -> ffinite y = true ->
  Rabs (FR x + FR y) <= bpow radix2 1023 -> PrimFloat.ltb (x + y)%float K = true -> FR x + FR y < FR K.
Proof.
  intros FK Fx Fy Hb L. destruct (fadd_rnd x y Fx Fy Hb) as [Fs Es].
  apply ltb_true_R in L. destruct (ffinite_rank _ FK) as [_ RK]. destruct (ffinite_rank _ Fs) as [_ RS].
  rewrite RK, RS, Es in L.
  destruct (Rlt_or_le (FR x + FR y) (FR K)) as [H|H]; [exact H|]. exfalso.
  assert (rnd64 (FR K) <= rnd64 (FR x + FR y)).
  { apply round_le; auto with typeclass_instances. apply FLT_exp_valid. reflexivity. }
  rewrite (round_generic radix2 fexp64 ZnearestE (FR K)) in H0 by apply FR_generic. lra.
Qed.

(** * More operations: exact-relative subtraction, sqrt, opp, rounding facts *)
From Flocq Require Import Plus_error.

Lemma rnd_nonneg t : 0 <= t -> 0 <= rnd64 t.
Proof.
  intros H. rewrite <- (round_0 radix2 fexp64 ZnearestE).
  apply round_le; auto with typeclass_instances. apply FLT_exp_valid. reflexivity.
Qed.
Lemma rnd_lt_inv t K : generic_format radix2 fexp64 K -> rnd64 t < K -> t < K.
Proof.
  intros G H. destruct (Rlt_or_le t K) as [L|L]; [exact L|]. exfalso.
  assert (rnd64 K <= rnd64 t) by (apply round_le; auto with typeclass_instances; apply FLT_exp_valid; reflexivity).
  rewrite (round_generic radix2 fexp64 ZnearestE K G) in H0. lra.
Qed.
Lemma rnd_gt_inv t K : generic_format radix2 fexp64 K -> K < rnd64 t -> K < t.
Proof.
  intros G H. destruct (Rlt_or_le K t) as [L|L]; [exact L|]. exfalso.
  assert (rnd64 t <= rnd64 K) by (apply round_le; auto with typeclass_instances; apply FLT_exp_valid; reflexivity).
  rewrite (round_generic radix2 fexp64 ZnearestE K G) in H0. lra.
Qed.

Lemma fmul_rnd x y : ffinite x = true -> ffinite y = true -> Rabs (FR x * FR y) <= bpow radix2 1023 ->
  ffinite (x * y)%float = true /\ FR (x * y)%float = rnd64 (FR x * FR y).
Proof.
  rewrite !ffinite_equiv. unfold FR. rewrite mul_equiv. intros Fx Fy Hb.
  pose proof (Bmult_correct prec emax ltac:(reflexivity) ltac:(reflexivity) mode_NE (Prim2B x) (Prim2B y)) as H.
  rewrite Rlt_bool_true in H by (apply round_no_overflow; exact Hb).
  destruct H as (E & F & _). split; [|exact E].
  transitivity (is_finite (Prim2B x) && is_finite (Prim2B y))%bool; [exact F|]. rewrite Fx, Fy. reflexivity.
Qed.

(** float subtraction: the EXACT difference is the float result times (1 + eps), no absolute term *)
Lemma fsub_exact_rel x y : ffinite x = true -> ffinite y = true -> Rabs (FR x - FR y) <= bpow radix2 1023 ->
  ffinite (x - y)%float = true /\
  exists e, Rabs e <= bpow radix2 (-53) /\ FR x - FR y = FR (x - y)%float * (1 + e).
Proof.
  intros Fx Fy Hb.
  assert (Fx' := Fx). assert (Fy' := Fy). rewrite ffinite_equiv in Fx', Fy'.
  pose proof (Bminus_correct prec emax ltac:(reflexivity) ltac:(reflexivity) mode_NE (Prim2B x) (Prim2B y) Fx' Fy') as H.
  unfold FR in Hb. rewrite Rlt_bool_true in H by (apply round_no_overflow; exact Hb).
  destruct H as (E & F & _). split.
  - rewrite ffinite_equiv, sub_equiv. exact F.
  - destruct (@FLT_plus_error_N_round_ex radix2 (3 - emax - prec) prec (eq_refl : Prec_gt_0 prec) (fun z => negb (Z.even z))
               (FR x) (- FR y) (FR_generic x) (generic_format_opp _ _ _ (FR_generic y))) as (e & He & Ee).
    exists e. split.
    + eapply Rle_trans; [exact He|]. unfold u_ro. change (- prec + 1)%Z with (-52)%Z.
      replace (-52)%Z with (1 + -53)%Z by lia. rewrite bpow_plus. simpl (bpow radix2 1). lra.
    + unfold FR at 3. rewrite sub_equiv. etransitivity; [exact Ee|]. f_equal. symmetry. exact E.
Qed.

Lemma fopp_fin x : ffinite x = true -> ffinite (- x)%float = true /\ FR (- x)%float = - FR x.
Proof.
  rewrite !ffinite_equiv. unfold FR. rewrite opp_equiv. intros F. split.
  - rewrite is_finite_Bopp. exact F.
  - apply B2R_Bopp.
Qed.

Lemma fsqrt_err x : ffinite x = true -> 0 <= FR x ->
  ffinite (PrimFloat.sqrt x) = true /\ 0 <= FR (PrimFloat.sqrt x) /\
  exists d h, Rabs d <= bpow radix2 (-53) /\ Rabs h <= bpow radix2 (-1075) /\
    FR (PrimFloat.sqrt x) = R_sqrt.sqrt (FR x) * (1 + d) + h.
Proof.
  rewrite !ffinite_equiv. unfold FR. rewrite sqrt_equiv. intros F Hx.
  pose proof (Bsqrt_correct prec emax ltac:(reflexivity) ltac:(reflexivity) mode_NE (Prim2B x)) as (E & Fi & _).
  assert (Hm : match Prim2B x with B754_zero _ | B754_finite false _ _ _ => true | _ => false end = true).
  { destruct (Prim2B x) as [s|s| |s m e He]; try discriminate; auto.
    destruct s; auto. exfalso. simpl in Hx. unfold F2R in Hx. simpl in Hx.
    assert (IZR (Z.neg m) < 0) by (apply IZR_lt; lia). pose proof (bpow_gt_0 radix2 e). nra. }
  rewrite Hm in Fi.
  split; [exact Fi|]. split.
  - eapply Rle_trans; [|right; symmetry; exact E]. apply rnd_nonneg. apply sqrt_pos.
  - destruct (round_err (R_sqrt.sqrt (B2R (Prim2B x)))) as (d & h & Hd & Hh & Er).
    exists d, h. repeat split; auto. etransitivity; [exact E|exact Er].
Qed.

Lemma fsub_rnd x y : ffinite x = true -> ffinite y = true -> Rabs (FR x - FR y) <= bpow radix2 1023 ->
  ffinite (x - y)%float = true /\ FR (x - y)%float = rnd64 (FR x - FR y).
Proof.
  rewrite !ffinite_equiv. unfold FR. rewrite sub_equiv. intros Fx Fy Hb.
  pose proof (Bminus_correct prec emax ltac:(reflexivity) ltac:(reflexivity) mode_NE (Prim2B x) (Prim2B y) Fx Fy) as H.
  rewrite Rlt_bool_true in H by (apply round_no_overflow; exact Hb).
  destruct H as (E & F & _). split; [exact F|exact E].
Qed.

Lemma fabs_fin x : ffinite x = true -> ffinite (PrimFloat.abs x) = true /\ FR (PrimFloat.abs x) = Rabs (FR x).
Proof.
  rewrite !ffinite_equiv. unfold FR. rewrite abs_equiv. intros F. split.
  - rewrite is_finite_Babs. exact F.
  - apply B2R_Babs.
Qed.
