(** C13, index machine: for every finite history of Add / Build / Query / Reset the repaired
    ShapeIndex never hangs or panics and every Query observes exactly what a fresh index over
    the currently held shapes shows. The two unrepaired variants are refuted by witnesses. *)
From Coq Require Import List Bool Arith Lia.
From Geo Require Import Model.Lazy.
Import ListNotations.

Lemma flat_map_ext_in' {A B} (f g : A -> list B) (l : list A) :
  (forall a, In a l -> f a = g a) -> flat_map f l = flat_map g l.
Proof.
  induction l as [|x l IH]; intros H; [reflexivity|]. cbn [flat_map].
  rewrite (H x (or_introl eq_refl)), IH; [reflexivity|]. intros a Ha. apply H. right. exact Ha.
Qed.

Section IndexProofs.
  Context {S G : Type}.
  Variable snap : S -> G.

  (** ** the shapes map over dense ids *)
  Definition enum_from (a : nat) (l : list S) : list (nat * S) := combine (seq a (length l)) l.

  Lemma enumerate_enum_from (l : list S) : enumerate l = enum_from 0 l.
  Proof. reflexivity. Qed.

  Lemma lookup_enum_from (l : list S) : forall a i,
    m_lookup i (enum_from a l) = if a <=? i then nth_error l (i - a) else None.
  Proof.
    unfold enum_from. induction l as [|x l IH]; intros a i; cbn [length seq combine m_lookup].
    - destruct (a <=? i); [destruct (i - a)|]; reflexivity.
    - destruct (i =? a) eqn:E.
      + apply Nat.eqb_eq in E. subst. rewrite Nat.leb_refl, Nat.sub_diag. reflexivity.
      + apply Nat.eqb_neq in E. rewrite IH.
        destruct (Nat.leb_spec a i); destruct (Nat.leb_spec (Datatypes.S a) i); try lia.
        * replace (i - a) with (Datatypes.S (i - Datatypes.S a)) by lia. reflexivity.
        * reflexivity.
  Qed.

  Lemma insert_enum_from (l : list S) : forall a s,
    m_insert (a + length l) s (enum_from a l) = enum_from a (l ++ [s]).
  Proof.
    unfold enum_from. induction l as [|x l IH]; intros a s; cbn [length app seq combine m_insert].
    - rewrite Nat.add_0_r. reflexivity.
    - destruct (a + Datatypes.S (length l) =? a) eqn:E; [apply Nat.eqb_eq in E; lia|].
      f_equal. replace (a + Datatypes.S (length l)) with (Datatypes.S a + length l) by lia.
      rewrite IH. reflexivity.
  Qed.

  Lemma enum_from_app (l : list S) : forall a s,
    enum_from a (l ++ [s]) = enum_from a l ++ [(a + length l, s)].
  Proof.
    unfold enum_from. induction l as [|x l IH]; intros a s; cbn [length app seq combine].
    - rewrite Nat.add_0_r. reflexivity.
    - f_equal. rewrite IH. rewrite Nat.add_succ_r. reflexivity.
  Qed.

  Lemma length_enumerate (l : list S) : length (enumerate l) = length l.
  Proof. unfold enumerate. rewrite combine_length, seq_length. lia. Qed.

  (** ** the cells a build produces *)
  Definition cells_upto (k : nat) (l : list S) : list (nat * G) :=
    index_ids snap (enumerate l) (seq 0 k).

  Lemma cells_upto_snoc k l s : k <= length l -> cells_upto k (l ++ [s]) = cells_upto k l.
  Proof.
    intros Hk. unfold cells_upto, index_ids.
    apply flat_map_ext_in'. intros i Hi. apply in_seq in Hi.
    rewrite !enumerate_enum_from, !lookup_enum_from. cbn [Nat.leb]. rewrite Nat.sub_0_r.
    rewrite nth_error_app1 by lia. reflexivity.
  Qed.

  Lemma cells_upto_all l :
    cells_upto (length l) l = map (fun p => (fst p, snap (snd p))) (enumerate l).
  Proof.
    induction l as [|s l IH] using rev_ind; [reflexivity|].
    rewrite app_length. cbn [length]. rewrite Nat.add_1_r.
    unfold cells_upto. rewrite seq_S. cbn [Nat.add]. unfold index_ids. rewrite flat_map_app.
    fold (index_ids snap (enumerate (l ++ [s])) (seq 0 (length l))).
    fold (cells_upto (length l) (l ++ [s])). rewrite cells_upto_snoc by lia. rewrite IH.
    rewrite !enumerate_enum_from. cbn [flat_map app]. rewrite lookup_enum_from. cbn [Nat.leb].
    rewrite Nat.sub_0_r, nth_error_app2, Nat.sub_diag by lia. cbn [nth_error].
    rewrite enum_from_app, map_app. reflexivity.
  Qed.

  Lemma canonical_cells l : canonical snap l = (cells_upto (length l) l, enumerate l).
  Proof. unfold canonical. rewrite cells_upto_all. reflexivity. Qed.

  (** ** the invariant: bookkeeping consistent with the shapes currently held *)
  Record iinv (ix : index S G) (l : list S) : Prop := {
    inv_shapes : shapes ix = enumerate l;
    inv_next   : nextID ix = length l;
    inv_rem    : removals ix = 0;
    inv_pos    : pendingPos ix <= length l;
    inv_cells  : cells ix = cells_upto (pendingPos ix) l;
    inv_fresh  : st ix = Fresh -> pendingPos ix = length l
  }.

  Lemma iinv_new : iinv index_new [].
  Proof. constructor; reflexivity || (cbn; lia). Qed.

  Lemma iinv_add ix l s : iinv ix l -> iinv (index_add s ix) (l ++ [s]).
  Proof.
    intros [H1 H2 H3 H4 H5 H6]. constructor; cbn [index_add shapes nextID removals pendingPos cells st].
    - rewrite H1, H2, !enumerate_enum_from. exact (insert_enum_from l 0 s).
    - rewrite H2, app_length. cbn. lia.
    - exact H3.
    - rewrite app_length. lia.
    - rewrite cells_upto_snoc by exact H4. exact H5.
    - discriminate.
  Qed.

  Lemma iinv_reset (ix : index S G) : iinv (index_reset ix) [].
  Proof. exact iinv_new. Qed.

  (** the repaired applyUpdatesInternal always succeeds and leaves everything indexed *)
  Lemma apply_ok ix l : iinv ix l ->
    exists ix', apply snap ix = Ok ix' /\ iinv ix' l /\ pendingPos ix' = length l /\ st ix' = st ix.
  Proof.
    intros [H1 H2 H3 H4 H5 H6]. unfold apply.
    rewrite H1, length_enumerate.
    destruct (pendingPos ix =? 0) eqn:E0.
    - apply Nat.eqb_eq in E0. eexists. split; [reflexivity|].
      split; [|split; reflexivity].
      constructor; cbn [shapes nextID removals pendingPos cells st]; auto.
      rewrite H5, E0. unfold ids_from. rewrite Nat.sub_0_r. reflexivity.
    - destruct ((length l <=? pendingPos ix) && (removals ix =? 0)) eqn:E1.
      + apply andb_true_iff in E1. destruct E1 as [E1 _]. apply Nat.leb_le in E1.
        exists ix. split; [reflexivity|]. split; [constructor; auto|]. split; [lia|reflexivity].
      + eexists. split; [reflexivity|]. split; [|split; reflexivity].
        constructor; cbn [shapes nextID removals pendingPos cells st]; auto.
        unfold ids_from. rewrite Nat.sub_0_r. reflexivity.
  Qed.

  Lemma maybe_apply_ok ix l : iinv ix l ->
    exists ix', maybe_apply (apply snap) ix = Ok ix' /\ iinv ix' l /\ st ix' = Fresh.
  Proof.
    intros Hi. unfold maybe_apply. destruct (st ix) eqn:Es.
    - destruct (apply_ok ix l Hi) as (ix' & Ha & [H1 H2 H3 H4 H5 H6] & Hp & _). rewrite Ha. cbn [obind].
      eexists. split; [reflexivity|]. split; [|reflexivity].
      constructor; cbn [shapes nextID removals pendingPos cells st]; auto.
    - exists ix. split; [reflexivity|]. split; assumption.
  Qed.

  Lemma fresh_observe ix l : iinv ix l -> st ix = Fresh -> observe ix = canonical snap l.
  Proof.
    intros [H1 H2 H3 H4 H5 H6] Hf. unfold observe. rewrite canonical_cells, H5, H6, H1 by exact Hf.
    reflexivity.
  Qed.

  (** ** the history theorem *)
  Lemma index_history_from (h : list (iop S)) : forall ix l, iinv ix l ->
    exists ix', run (istep (apply snap) index_reset) ix h = Ok (ix', spec_obs snap l h) /\ iinv ix' (held l h).
  Proof.
    induction h as [|o h IH]; intros ix l Hi; cbn [run spec_obs held].
    - exists ix. split; [reflexivity|exact Hi].
    - destruct o as [s| | |]; cbn [istep obind].
      + destruct (IH _ _ (iinv_add ix l s Hi)) as (ix' & Hr & Hi'). rewrite Hr. cbn. eauto.
      + destruct (maybe_apply_ok ix l Hi) as (ix1 & Hm & Hi1 & _). rewrite Hm. cbn [obind].
        destruct (IH _ _ Hi1) as (ix' & Hr & Hi'). rewrite Hr. cbn. eauto.
      + destruct (maybe_apply_ok ix l Hi) as (ix1 & Hm & Hi1 & Hf). rewrite Hm. cbn [obind].
        destruct (IH _ _ Hi1) as (ix' & Hr & Hi'). rewrite Hr. cbn [obind app].
        rewrite (fresh_observe ix1 l Hi1 Hf). eauto.
      + destruct (IH _ _ (iinv_reset ix)) as (ix' & Hr & Hi'). rewrite Hr. cbn. eauto.
  Qed.

  (** For EVERY finite history: no Hang, no Panic, and the observations are exactly those a
      fresh index over the currently held shapes gives ([spec_obs] is a function of the
      history's Add/Reset operations only — not of where the Builds and Queries fall). *)
  Theorem index_history (h : list (iop S)) :
    exists ix, irun snap h = Ok (ix, spec_obs snap [] h) /\ iinv ix (held [] h).
  Proof. exact (index_history_from h index_new [] iinv_new). Qed.

  Lemma run_build_fresh (h : list (iop S)) : forall i0 ix outs,
    run (istep (apply snap) index_reset) i0 (h ++ [IBuild]) = Ok (ix, outs) -> st ix = Fresh.
  Proof.
    induction h as [|o h IH]; intros i0 ix outs.
    - cbn [app run istep]. unfold maybe_apply. destruct (st i0) eqn:E.
      + destruct (apply snap i0); cbn; try discriminate. intros H. inversion H. reflexivity.
      + cbn. intros H. inversion H; subst. exact E.
    - cbn [app run]. destruct (istep (apply snap) index_reset i0 o) as [[i1 o1]| |]; cbn [obind]; try discriminate.
      destruct (run (istep (apply snap) index_reset) i1 (h ++ [IBuild])) as [[i2 o2]| |] eqn:E2; cbn [obind]; try discriminate.
      intros H. inversion H; subst. exact (IH _ _ _ E2).
  Qed.

  (** after any history, once built, the cell map holds exactly the ids of the shapes map *)
  Corollary indexed_is_dom (h : list (iop S)) ix outs :
    irun snap (h ++ [IBuild]) = Ok (ix, outs) ->
    map fst (cells ix) = map fst (shapes ix) /\ st ix = Fresh.
  Proof.
    intros Hr. pose proof (run_build_fresh h _ _ _ Hr) as Hf.
    destruct (index_history (h ++ [IBuild])) as (ix' & Hr' & Hi).
    rewrite Hr in Hr'. inversion Hr'; subst ix'. clear Hr'.
    split; [|exact Hf].
    pose proof (fresh_observe ix _ Hi Hf) as Ho. unfold observe, canonical in Ho.
    inversion Ho as [[Hc Hs]]. rewrite Hc, Hs, map_map. cbn [fst]. reflexivity.
  Qed.

  (** the canonical observation IS the one of the shortest history on a fresh index *)
  Theorem canonical_is_fresh (l : list S) :
    exists ix, irun snap (map IAdd l ++ [IQuery]) = Ok (ix, [canonical snap l]).
  Proof.
    assert (forall acc, spec_obs snap acc (map IAdd l ++ [IQuery]) = [canonical snap (acc ++ l)]) as H.
    { induction l as [|s l IH]; intros acc; cbn [map app spec_obs].
      - rewrite app_nil_r. reflexivity.
      - rewrite IH, <- app_assoc. reflexivity. }
    destruct (index_history (map IAdd l ++ [IQuery])) as (ix & Hr & _). exists ix. rewrite Hr, (H []).
    reflexivity.
  Qed.

  (** build position is irrelevant: two histories with the same Add/Reset skeleton that both
      end in a Query end with the same observation *)
  Corollary build_position_irrelevant (h1 h2 : list (iop S)) :
    held [] h1 = held [] h2 ->
    forall ix1 ix2 o1 o2, irun snap (h1 ++ [IQuery]) = Ok (ix1, o1) -> irun snap (h2 ++ [IQuery]) = Ok (ix2, o2) ->
    last o1 (canonical snap []) = last o2 (canonical snap []).
  Proof.
    intros Hh ix1 ix2 o1 o2 H1 H2.
    destruct (index_history (h1 ++ [IQuery])) as (? & Hr1 & _).
    destruct (index_history (h2 ++ [IQuery])) as (? & Hr2 & _).
    rewrite H1 in Hr1. rewrite H2 in Hr2. inversion Hr1. inversion Hr2. subst.
    assert (forall h acc, spec_obs snap acc (h ++ [IQuery]) <> []) as HN.
    { induction h as [|o h IH]; intros acc; [discriminate|].
      destruct o; cbn [app spec_obs]; try apply IH. discriminate. }
    assert (forall h acc, last (spec_obs snap acc (h ++ [IQuery])) (canonical snap []) = canonical snap (held acc h)) as HL.
    { induction h as [|o h IH]; intros acc; [reflexivity|].
      destruct o; cbn [app spec_obs held]; try apply IH.
      specialize (IH acc). specialize (HN h acc). destruct (spec_obs snap acc (h ++ [IQuery])) eqn:E.
      - congruence.
      - cbn [last]. exact IH. }
    rewrite !HL, Hh. reflexivity.
  Qed.
End IndexProofs.

(** ** What the repairs changed: the unrepaired variants violate the theorem. *)

(** 5701870: Add; Build; Add; Build on the old applyUpdatesInternal self-deadlocks. *)
Theorem index_history_old_refuted :
  exists h : list (iop nat), irun_old (fun _ => true) (fun s => s) h = Hang.
Proof. exists [IAdd 7; IBuild; IAdd 8; IBuild]. vm_compute. reflexivity. Qed.

(** c417920: Add; Build; Reset; Add; Query with the old Reset shows an EMPTY cell map although
    the index holds a shape (Loop.Invert after a build: ContainsPoint false everywhere). *)
Theorem reset_old_refuted :
  exists (h : list (iop nat)) ix, irun_reset_old (fun s => s) h = Ok (ix, [([], [(0, 8)])]) /\
                                  spec_obs (fun s => s) [] h = [([(0, 8)], [(0, 8)])].
Proof. exists [IAdd 7; IBuild; IReset; IAdd 8; IQuery]. eexists. vm_compute. split; reflexivity. Qed.

Example index_history_example :
  exists ix, irun (fun s : nat => s) [IAdd 7; IBuild; IAdd 8; IBuild; IReset; IAdd 9; IQuery; IAdd 4; IQuery]
    = Ok (ix, [([(0, 9)], [(0, 9)]); ([(0, 9); (1, 4)], [(0, 9); (1, 4)])]).
Proof. eexists. vm_compute. reflexivity. Qed.

(** ** Executable check used by the correspondence files: the model's outcome class and the
    ids in the cell map after every Query, against what the real index showed. *)
Definition outcome_class {A} (o : outcome A) : nat := match o with Ok _ => 0 | Hang => 1 | Panic => 2 end.
Fixpoint list_nat_eqb (a b : list nat) : bool :=
  match a, b with
  | [], [] => true
  | x :: a', y :: b' => (x =? y) && list_nat_eqb a' b'
  | _, _ => false
  end.
Fixpoint list_list_nat_eqb (a b : list (list nat)) : bool :=
  match a, b with
  | [], [] => true
  | x :: a', y :: b' => list_nat_eqb x y && list_list_nat_eqb a' b'
  | _, _ => false
  end.
(** [observed]: per Query, the sorted shape ids found in the real cell map; [cls]: 0 ok / 1 hang / 2 panic *)
Definition index_case (h : list (iop nat)) (cls : nat) (observed : list (list nat)) : bool :=
  match irun (fun s => s) h with
  | Ok (_, outs) => (cls =? 0) && list_list_nat_eqb (map (fun o => map fst (fst o)) outs) observed
  | Hang => cls =? 1
  | Panic => cls =? 2
  end.

(** the whole bookkeeping after every operation: (nextID, pendingAdditionsPos, status = fresh,
    len(shapes), ids in the cell map), against VerifC13IndexState on the real index *)
Definition istate_obs (ix : index nat nat) : nat * nat * bool * nat * list nat :=
  (nextID ix, pendingPos ix, status_eqb (st ix) Fresh, length (shapes ix), map fst (cells ix)).
Fixpoint itrace (ix : index nat nat) (h : list (iop nat)) : list (nat * nat * bool * nat * list nat) :=
  match h with
  | [] => []
  | o :: r => match istep (apply (fun s => s)) index_reset ix o with
              | Ok (ix', _) => istate_obs ix' :: itrace ix' r
              | _ => []
              end
  end.
Definition istate_eqb (a b : nat * nat * bool * nat * list nat) : bool :=
  let '(n1, p1, f1, l1, c1) := a in let '(n2, p2, f2, l2, c2) := b in
  (n1 =? n2) && (p1 =? p2) && Bool.eqb f1 f2 && (l1 =? l2) && list_nat_eqb c1 c2.
Fixpoint istates_eqb (a b : list (nat * nat * bool * nat * list nat)) : bool :=
  match a, b with
  | [], [] => true
  | x :: a', y :: b' => istate_eqb x y && istates_eqb a' b'
  | _, _ => false
  end.
Definition index_trace_case (h : list (iop nat)) (observed : list (nat * nat * bool * nat * list nat)) : bool :=
  istates_eqb (itrace index_new h) observed.
