(** C12: Cell.CapBound.  Closed: the cap's centre is the normalised uv-centre of the cell and
    its radius is, in float order, at least the chord distance computed to each of the four
    vertices (so a vertex forgotten by the loop breaks this file).  With H_CAPARITH (the
    computed chord distance is not below the true one by more than cap_err) and the geometric
    fact H_VERTEX_EXTREME (on a cell, the distance to the cap axis is maximal at a vertex) every
    point of the exact cell lies in the cap. *)
From Coq Require Import ZArith Reals List Bool Lia Lra Floats.
From Geo Require Import Base.GoPrim Base.F64 Base.F64Arith Gen.CellGeom Gen.CellRect Proofs.C12_Acc.
Import ListNotations.
Local Open Scope R_scope.

Definition cap_axis (c : s2_Cell) : s2_Point :=
  mk_s2_Point (r3_Vector_Normalize (s2_faceUVToXYZ (wrap_i64 (s2_Cell_face c))
    (r2_Point_X (r2_Rect_Center (s2_Cell_uv c))) (r2_Point_Y (r2_Rect_Center (s2_Cell_uv c))))).
Definition vdist (c : s2_Cell) (k : Z) : PrimFloat.float := s2_ChordAngleBetweenPoints (cap_axis c) (s2_Cell_Vertex c k).

Definition cap_inv (ctr : s2_Point) (cap : s2_Cap) : Prop :=
  s2_Cap_center cap = ctr /\ nonnan (s2_Cap_radius cap) /\ 0 <= rank (s2_Cap_radius cap).

Lemma rank_zero : rank 0%float = 0.
Proof. rewrite rank_fin by exact zero_fin. exact zero_RV. Qed.

Lemma addpoint_step ctr cap p : cap_inv ctr cap -> nonnan (s2_ChordAngleBetweenPoints ctr p) ->
  cap_inv ctr (s2_Cap_AddPoint cap p) /\
  rank (s2_Cap_radius cap) <= rank (s2_Cap_radius (s2_Cap_AddPoint cap p)) /\
  rank (s2_ChordAngleBetweenPoints ctr p) <= rank (s2_Cap_radius (s2_Cap_AddPoint cap p)).
Proof.
  intros (Ec & Nr & Pr) Nd. destruct cap as [cc r]. cbn [s2_Cap_center s2_Cap_radius] in *. subst cc.
  unfold s2_Cap_AddPoint, s2_Cap_IsEmpty. cbn [s2_Cap_center s2_Cap_radius].
  assert (E0 : PrimFloat.ltb r 0 = false).
  { apply (proj2 (ltb_false_iff r 0%float Nr ltac:(reflexivity))). rewrite rank_zero. exact Pr. }
  rewrite E0. set (d := s2_ChordAngleBetweenPoints ctr p) in *. clearbody d.
  destruct (PrimFloat.ltb r d) eqn:E; cbn [set_s2_Cap_radius s2_Cap_center s2_Cap_radius].
  - apply (proj1 (ltb_true_iff r d Nr Nd)) in E. unfold cap_inv, set_s2_Cap_radius. cbn [s2_Cap_center s2_Cap_radius].
    split; [split; [reflexivity | split; [exact Nd | lra]] | split; lra].
  - apply (proj1 (ltb_false_iff r d Nr Nd)) in E. unfold cap_inv, set_s2_Cap_radius. cbn [s2_Cap_center s2_Cap_radius].
    split; [split; [reflexivity | split; [exact Nr | lra]] | split; lra].
Qed.

Theorem capbound_covers_vertices c :
  nonnan (vdist c 0) -> nonnan (vdist c 1) -> nonnan (vdist c 2) -> nonnan (vdist c 3) ->
  s2_Cap_center (s2_Cell_CapBound c) = cap_axis c /\
  nonnan (s2_Cap_radius (s2_Cell_CapBound c)) /\
  forall k, (0 <= k < 4)%Z -> PrimFloat.ltb (s2_Cap_radius (s2_Cell_CapBound c)) (vdist c k) = false.
Proof.
  intros N0 N1 N2 N3. unfold s2_Cell_CapBound. fold (cap_axis c). cbv zeta.
  change (zrange_up 0 4) with [0%Z; 1%Z; 2%Z; 3%Z]. cbn [fold_left].
  assert (I0 : cap_inv (cap_axis c) (s2_CapFromPoint (cap_axis c))).
  { unfold cap_inv, s2_CapFromPoint, s2_CapFromCenterChordAngle. cbn [s2_Cap_center s2_Cap_radius].
    repeat split. rewrite rank_zero. lra. }
  destruct (addpoint_step _ _ (s2_Cell_Vertex c 0) I0 N0) as (I1 & _ & D0).
  destruct (addpoint_step _ _ (s2_Cell_Vertex c 1) I1 N1) as (I2 & M1 & D1).
  destruct (addpoint_step _ _ (s2_Cell_Vertex c 2) I2 N2) as (I3 & M2 & D2).
  destruct (addpoint_step _ _ (s2_Cell_Vertex c 3) I3 N3) as (I4 & M3 & D3).
  destruct I4 as (Ec & Nr & _). split; [exact Ec|]. split; [exact Nr|].
  intros k Hk. assert (Ck : (k = 0 \/ k = 1 \/ k = 2 \/ k = 3)%Z) by lia.
  destruct Ck as [Ek|[Ek|[Ek|Ek]]]; subst k; apply ltb_false_iff; auto; unfold vdist; lra.
Qed.

Section CapContains.
  Variable cap_err vert_err : R.
  (** H_CAPARITH: the computed squared chord length between the axis and a vertex is finite and not
      below the true one (between their exact directions) by more than cap_err *)
  Definition H_CAPARITH : Prop := forall c k ua uv, (0 <= k < 4)%Z ->
    dir (cap_axis c) ua -> dir (s2_Cell_Vertex c k) uv ->
    fin (vdist c k) /\ chord2 uv ua <= RV (vdist c k) + cap_err.
  (** geometric: over the exact cell the distance to the axis is largest at (the direction of) a vertex *)
  Definition H_VERTEX_EXTREME : Prop := forall c q ua, in_cell c q -> dir (cap_axis c) ua ->
    exists k uv, (0 <= k < 4)%Z /\ dir (s2_Cell_Vertex c k) uv /\ chord2 q ua <= chord2 uv ua + vert_err.
  Hypothesis HA : H_CAPARITH.
  Hypothesis HV : H_VERTEX_EXTREME.

  Theorem capbound_contains_cell c q ua :
    (forall k, (0 <= k < 4)%Z -> exists uv, dir (s2_Cell_Vertex c k) uv) ->
    in_cell c q -> dir (cap_axis c) ua ->
    s2_Cap_center (s2_Cell_CapBound c) = cap_axis c /\
    chord2 q ua <= rank (s2_Cap_radius (s2_Cell_CapBound c)) + cap_err + vert_err.
  Proof.
    intros Hdirs Hq Ha.
    assert (F : forall k, (0 <= k < 4)%Z -> fin (vdist c k)).
    { intros k Hk. destruct (Hdirs k Hk) as [uv Huv]. exact (proj1 (HA c k ua uv Hk Ha Huv)). }
    destruct (capbound_covers_vertices c) as (Ec & Nr & Hr); try (apply fin_nonnan; apply F; lia).
    split; [exact Ec|].
    destruct (HV c q ua Hq Ha) as (k & uv & Hk & Huv & Le).
    destruct (HA c k ua uv Hk Ha Huv) as [Fk Lk].
    specialize (Hr k Hk). apply ltb_false_iff in Hr; auto using fin_nonnan.
    rewrite (rank_fin (vdist c k)) in Hr by exact Fk. lra.
  Qed.
End CapContains.
