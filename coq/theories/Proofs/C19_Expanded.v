(** C19: expansion by a non-negative margin keeps every original point (r1.Interval, r2.Rect).
    Float subtraction/addition of a non-negative margin are monotone (Proofs/C19_Arith.v);
    the only guard is that the computed endpoints are not NaN (inf - inf). *)
From Coq Require Import ZArith Reals Floats Lra Bool List.
From Geo Require Import Base.GoPrim Base.F64 Gen.R1 Gen.R2 Proofs.C19_R1 Proofs.C19_R2 Proofs.C19_Arith.
Local Open Scope R_scope.

Lemma r1_expanded_sound i m p : wf1 i -> nonnan m -> 0 <= rank m -> nonnan p ->
  wf1 (r1_Interval_Expanded i m) ->
  mem1 i p -> mem1 (r1_Interval_Expanded i m) p.
Proof.
  destruct i as [lo hi]. unfold r1_Interval_Expanded, r1_Interval_IsEmpty, wf1, mem1.
  cbn [r1_Interval_Lo r1_Interval_Hi]. intros [Nl Nh] Nm Hm Np.
  destruct (PrimFloat.ltb hi lo) eqn:E; cbn [r1_Interval_Lo r1_Interval_Hi]; [tauto|].
  intros [N1 N2] [H1 H2].
  pose proof (rank_sub_le lo m Nl Nm Hm N1). pose proof (rank_add_ge hi m Nh Nm Hm N2). lra.
Qed.

(** a finite interval and a finite margin never produce NaN: the guard is satisfiable *)
Example r1_expanded_guard_example :
  wf1 (r1_Interval_Expanded (mk_r1_Interval 1%float 2%float) (0.25)%float).
Proof. split; reflexivity. Qed.

Lemma r1_expanded_nonempty i m : wf1 i -> nonnan m -> 0 <= rank m ->
  wf1 (r1_Interval_Expanded i m) ->
  r1_Interval_IsEmpty (r1_Interval_Expanded i m) = r1_Interval_IsEmpty i.
Proof.
  intros W Nm Hm W'. destruct (r1_Interval_IsEmpty i) eqn:E.
  - unfold r1_Interval_Expanded. rewrite E. exact E.
  - destruct (r1_nonempty_witness i W E) as [N M].
    apply (r1_mem_nonempty _ (r1_Interval_Lo i) W' N).
    apply r1_expanded_sound; assumption.
Qed.

Lemma r2_expanded_sound r m px py : wf_r2 r ->
  nonnan (r2_Point_X m) -> nonnan (r2_Point_Y m) -> 0 <= rank (r2_Point_X m) -> 0 <= rank (r2_Point_Y m) ->
  nonnan px -> nonnan py ->
  wf1 (r1_Interval_Expanded (r2_Rect_X r) (r2_Point_X m)) ->
  wf1 (r1_Interval_Expanded (r2_Rect_Y r) (r2_Point_Y m)) ->
  mem_r2 r px py -> mem_r2 (r2_Rect_Expanded r m) px py.
Proof.
  intros [Wx Wy] Nmx Nmy Hmx Hmy Npx Npy Wx' Wy' [Mx My].
  pose proof (r1_expanded_sound _ _ _ Wx Nmx Hmx Npx Wx' Mx) as Ex.
  pose proof (r1_expanded_sound _ _ _ Wy Nmy Hmy Npy Wy' My) as Ey.
  unfold r2_Rect_Expanded.
  rewrite (r1_mem_nonempty _ px Wx' Npx Ex), (r1_mem_nonempty _ py Wy' Npy Ey).
  cbn [orb]. split; assumption.
Qed.

(** exactly the premise C19_r1_expanded_sound of Proofs/C10_Rect.v: a finite non-negative margin
    never produces NaN (inf - inf needs an infinite margin) *)
From Geo Require Proofs.C19_Arith.
Lemma C19_r1_expanded_sound : forall i m, wf1 i -> nonnan m -> (0 <= rank m < top) ->
  wf1 (r1_Interval_Expanded i m) /\
  forall p, nonnan p -> mem1 i p -> mem1 (r1_Interval_Expanded i m) p.
Proof.
  intros i m W Nm [H0 Ht].
  assert (Fm : C19_Arith.fin m) by (apply C19_Arith.rank_fin; [exact Nm|pose proof top_pos; lra]).
  assert (W' : wf1 (r1_Interval_Expanded i m)).
  { destruct i as [lo hi]. destruct W as [Nl Nh]. unfold r1_Interval_Expanded.
    cbn [r1_Interval_Lo r1_Interval_Hi] in *.
    destruct (r1_Interval_IsEmpty _); [split; assumption|]. split; cbn [r1_Interval_Lo r1_Interval_Hi].
    - apply C19_Arith.nonnan_B in Nl. unfold C19_Arith.fin in Fm. apply C19_Arith.nonnan_B.
      rewrite Flocq.IEEE754.PrimFloat.sub_equiv.
      destruct (Flocq.IEEE754.BinarySingleNaN.is_finite (Flocq.IEEE754.PrimFloat.Prim2B lo)) eqn:Fl.
      + apply C19_Arith.Bminus_nonnan_fin; assumption.
      + destruct (Flocq.IEEE754.PrimFloat.Prim2B lo); try discriminate;
        destruct (Flocq.IEEE754.PrimFloat.Prim2B m); try discriminate; reflexivity.
    - apply C19_Arith.nonnan_B in Nh. unfold C19_Arith.fin in Fm. apply C19_Arith.nonnan_B.
      rewrite Flocq.IEEE754.PrimFloat.add_equiv.
      destruct (Flocq.IEEE754.BinarySingleNaN.is_finite (Flocq.IEEE754.PrimFloat.Prim2B hi)) eqn:Fh.
      + apply C19_Arith.Bplus_nonnan_fin; assumption.
      + destruct (Flocq.IEEE754.PrimFloat.Prim2B hi); try discriminate;
        destruct (Flocq.IEEE754.PrimFloat.Prim2B m); try discriminate; reflexivity. }
  split; [exact W'|]. intros p Np Hm. apply r1_expanded_sound; assumption.
Qed.
