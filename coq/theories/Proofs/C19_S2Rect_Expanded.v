(** C19, s2.Rect.expanded by non-negative margins keeps every point: latitude side closed
    (monotone float arithmetic, then clamped to [-pi/2,pi/2]); longitude side from Proofs/C19_S1_Expanded.v (closed). *)
From Coq Require Import ZArith Reals Floats Lra Bool List.
From Geo Require Import Base.GoPrim Base.F64 Gen.R1 Gen.S1 Gen.S2Rect.
From Geo Require Import Proofs.C19_R1 Proofs.C19_R2 Proofs.C19_S1 Proofs.C19_S2Rect Proofs.C19_Expanded
  Proofs.C19_S1_Expanded Proofs.C19_Remainder.
Local Open Scope R_scope.

Theorem s2rect_expanded_sound : forall r mg lat x,
  valid_s2rect r -> vlat lat -> inrange x ->
  nonnan (s2_LatLng_Lat mg) -> 0 <= rank (s2_LatLng_Lat mg) ->
  nonnan (s2_LatLng_Lng mg) -> 0 <= rank (s2_LatLng_Lng mg) ->
  wf1 (r1_Interval_Expanded (s2_Rect_Lat r) (s2_LatLng_Lat mg)) ->
  mem_s2rect r lat x -> mem_s2rect (s2_Rect_expanded r mg) lat x.
Proof.
  intros r mg lat x V [Nlat Rlat] Hx Nm1 Hm1 Nm2 Hm2 W' [M1 M2].
  pose proof (valid_lat_wf r V) as W. destruct V as [_ [_ [Vl _]]].
  unfold s2_Rect_expanded, s1_Angle_Radians.
  pose proof (r1_expanded_sound _ _ _ W Nm1 Hm1 Nlat W' M1) as E1.
  pose proof (s1_expanded_sound _ _ x Vl Nm2 Hm2 Hx M2) as E2.
  pose proof (s1_expanded_valid _ _ Vl Nm2 Hm2) as V2.
  rewrite (r1_mem_nonempty _ lat W' Nlat E1), (s1_mem_nonempty _ x V2 Hx E2). cbn [orb].
  split; [|exact E2]. cbn [s2_Rect_Lat].
  assert (Wf : wf1 s2_validRectLatRange) by (split; reflexivity).
  apply intersection_exact; auto. split; [exact E1|].
  unfold mem1, s2_validRectLatRange. cbn [r1_Interval_Lo r1_Interval_Hi].
  change (-0x1.921fb54442d18p+00)%float with NHPI. change (0x1.921fb54442d18p+00)%float with HPI.
  rewrite rank_NHPI. fold rhp. exact Rlat.
Qed.
