(** C07 — the edge-free-cell branch of loopCrosser.hasCrossingRelation.
    Intended contract (comment of hasCrossingRelation): it may answer "crossing" only if there
    is a point P (a cell centre) that matches both crossing targets, i.e. the cell of A matches
    A's target and some covered cell of B matches B's target. The branch as written has the
    test on A exchanged; the contract is refuted, the repaired branch satisfies it. *)
From Coq Require Import List Bool.
From Geo Require Import Model.RelWalk.
Import ListNotations.

Definition branch_contract (f : bool -> ctarget -> ctarget -> list bool -> bool) : Prop :=
  forall a_cc ta tb b_ccs, f a_cc ta tb b_ccs = true ->
    cc_matches a_cc ta = true /\ exists b, In b b_ccs /\ cc_matches b tb = true.

Lemma edge_free_branch_contract_refuted : ~ branch_contract edge_free_branch.
Proof.
  intro H. (* containsRelation: A's target DontCross, B's target Cross; A's cell is interior *)
  destruct (H true TDontCross TCross [true] eq_refl) as [E _]. discriminate E.
Qed.

Lemma edge_free_branch_refuted :
  exists a_cc ta tb b_ccs, edge_free_branch a_cc ta tb b_ccs = true /\ cc_matches a_cc ta = false.
Proof. exists true, TDontCross, TCross, [true]. split; reflexivity. Qed.

Lemma edge_free_branch_repaired_contract : branch_contract edge_free_branch_repaired.
Proof.
  intros a ta tb bs H. unfold edge_free_branch_repaired in H.
  destruct (cc_matches a ta) eqn:E; simpl in H; [|discriminate].
  split; [reflexivity|]. apply existsb_exists in H. destruct H as [b [Hb Hm]]. now exists b.
Qed.

(** an index never holds an edge-free cell that is outside the loop, so on reachable inputs
    ([a_cc = true]) the branch as written: never fires for Intersects (a missed shortcut only),
    and for Contains fires exactly when some covered cell centre of B is inside B — although
    that centre is inside A as well. *)
Lemma edge_free_branch_interior_contains b_ccs :
  edge_free_branch true TDontCross TCross b_ccs = existsb (fun b => b) b_ccs.
Proof. reflexivity. Qed.
Lemma edge_free_branch_interior_intersects b_ccs :
  edge_free_branch true TCross TCross b_ccs = false.
Proof. reflexivity. Qed.
