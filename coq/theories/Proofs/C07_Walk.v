(** C07 — the edge-free-cell branch of loopCrosser.hasCrossingRelation.
    Contract (comment of hasCrossingRelation): it may answer "crossing" only if there is a point
    P (a cell centre) that matches both crossing targets, i.e. the cell of A matches A's target
    and some covered cell of B matches B's target. The branch as it stood before /repo commit
    42e42d2 had the test on A exchanged and refutes the contract (finding
    Loop.Contains.edgeless-cell-target, fixed); the current branch satisfies it. *)
From Coq Require Import List Bool.
From Geo Require Import Model.RelWalk.
Import ListNotations.

Definition branch_contract (f : bool -> ctarget -> ctarget -> list bool -> bool) : Prop :=
  forall a_cc ta tb b_ccs, f a_cc ta tb b_ccs = true ->
    cc_matches a_cc ta = true /\ exists b, In b b_ccs /\ cc_matches b tb = true.

Lemma edge_free_branch_contract : branch_contract edge_free_branch.
Proof.
  intros a ta tb bs H. unfold edge_free_branch in H.
  destruct (cc_matches a ta) eqn:E; simpl in H; [|discriminate].
  split; [reflexivity|]. apply existsb_exists in H. destruct H as [b [Hb Hm]]. now exists b.
Qed.

(** and it takes the shortcut whenever such a centre exists *)
Lemma edge_free_branch_complete a ta tb bs b :
  cc_matches a ta = true -> In b bs -> cc_matches b tb = true -> edge_free_branch a ta tb bs = true.
Proof.
  intros Ha Hb Hm. unfold edge_free_branch. rewrite Ha. simpl. apply existsb_exists. now exists b.
Qed.

Lemma before_fix_contract_refuted : ~ branch_contract edge_free_branch_before_42e42d2.
Proof.
  intro H. (* containsRelation: A's target DontCross, B's target Cross; A's cell is interior *)
  destruct (H true TDontCross TCross [true] eq_refl) as [E _]. discriminate E.
Qed.

Lemma before_fix_refuted :
  exists a_cc ta tb b_ccs,
    edge_free_branch_before_42e42d2 a_cc ta tb b_ccs = true /\ cc_matches a_cc ta = false.
Proof. exists true, TDontCross, TCross, [true]. split; reflexivity. Qed.
