(** C01 — towards H-WRAP (cross-face part): numeric core.  When one coordinate is one step outside
    the face, the clamp makes it +-L (L = nextafter(1,2)) and the other coordinate w = Ucoord j is
    divided by L on the neighbouring face.  [back_after_div]: stToIJ(0.5*(q+1)) = j for
    q = rnd(w / L): the division moves w by less than 2^-51, far less than the half cell that
    separates 2^30*0.5*(w+1) = j + 1/2 from the next integer.  Only monotonicity of rounding and
    representability of the bracketing dyadics are used (no error analysis). *)
From Coq Require Import ZArith Reals Floats Lia Lra Bool Psatz.
From Flocq Require Import Core.Core IEEE754.BinarySingleNaN IEEE754.PrimFloat.
From Geo Require Import Base.GoPrim Base.F64 Base.F64Arith Gen.CellIDFull
  Proofs.C01_Bits Proofs.C01_FloatInt Proofs.C01_WrapInside Proofs.StUV_Mono.
Local Open Scope Z_scope.

(** floor of a finite float strictly between two consecutive integers *)
Lemma go_floor_between x n : fin x -> 0 <= n < 2 ^ 52 -> (IZR n < RV x < IZR (n + 1))%R ->
  go_floor x = float_of_Z n.
Proof.
  intros F Hn (Hlo & Hhi).
  assert (Epos : (0 < RV x)%R) by (assert (0 <= IZR n)%R by (apply IZR_le; lia); lra).
  destruct (fin_decomp _ F ltac:(lra)) as (s & m & e & EP & ER).
  assert (Hs : s = false).
  { destruct s; [|reflexivity]. exfalso. rewrite ER in Epos. unfold F2R in Epos. cbn [Fnum Fexp] in Epos.
    pose proof (bpow_gt_0 radix2 e). assert (IZR (cond_Zopp true (Z.pos m)) < 0)%R by (apply IZR_lt; reflexivity). nra. }
  subst s. cbn [cond_Zopp] in ER. unfold F2R in ER. cbn [Fnum Fexp] in ER.
  assert (He : e < 0).
  { destruct (Z_lt_le_dec e 0) as [?|Hge]; [assumption|exfalso].
    rewrite bpow_IZR in ER by lia. rewrite <- mult_IZR in ER. rewrite ER in Hlo, Hhi.
    apply lt_IZR in Hlo. apply lt_IZR in Hhi. lia. }
  unfold go_floor. rewrite EP. replace (0 <=? e) with false by (symmetry; apply Z.leb_gt; exact He).
  f_equal. rewrite Z.shiftr_div_pow2 by lia.
  (* n * 2^k < m < (n+1) * 2^k with k = -e *)
  assert (Hp : 0 < 2 ^ (- e)) by (apply Z.pow_pos_nonneg; lia).
  assert (Eb : (bpow radix2 e * IZR (2 ^ (- e)) = 1)%R).
  { rewrite <- bpow_IZR by lia. rewrite <- bpow_plus. replace (e + - e) with 0 by lia. reflexivity. }
  assert (Pk : (0 < IZR (2 ^ (- e)))%R) by (apply IZR_lt; lia).
  assert (L1 : n * 2 ^ (- e) < Z.pos m).
  { apply lt_IZR. rewrite mult_IZR. rewrite ER in Hlo.
    replace (IZR (Z.pos m)) with (IZR (Z.pos m) * bpow radix2 e * IZR (2 ^ (- e)))%R by (rewrite Rmult_assoc, Eb; ring).
    apply Rmult_lt_compat_r; assumption. }
  assert (L2 : Z.pos m < (n + 1) * 2 ^ (- e)).
  { apply lt_IZR. rewrite mult_IZR. rewrite ER in Hhi.
    replace (IZR (Z.pos m)) with (IZR (Z.pos m) * bpow radix2 e * IZR (2 ^ (- e)))%R by (rewrite Rmult_assoc, Eb; ring).
    apply Rmult_lt_compat_r; assumption. }
  symmetry. apply (Z.div_unique (Z.pos m) (2 ^ (- e)) n (Z.pos m - n * 2 ^ (- e))); [left; lia|ring].
Qed.

(** rounding keeps a value between representable bounds *)
Lemma rnd_between lo hi x : repr lo -> repr hi -> (lo <= x <= hi)%R -> (lo <= rnd x <= hi)%R.
Proof.
  intros Rl Rh (A & B). split.
  - rewrite <- (rnd_repr lo Rl). apply rnd_le. exact A.
  - rewrite <- (rnd_repr hi Rh). apply rnd_le. exact B.
Qed.

Lemma okP32 : okbound 4294967296. Proof. apply (okbound_IZR 4294967296). lia. Qed.

(** from a float within 2^-51 of Ucoord j back to j *)
Lemma stToIJ_near q j : 0 <= j < 2 ^ 30 -> fin q ->
  (IZR (2 * j + 1 - 1073741824) / 1073741824 - 1 / 2251799813685248 <= RV q
     <= IZR (2 * j + 1 - 1073741824) / 1073741824 + 1 / 2251799813685248)%R ->
  s2_stToIJ (PrimFloat.mul (0x1p-01)%float (PrimFloat.add q (0x1p+00)%float)) = j.
Proof.
  intros Hj Fq Bq. change (2 ^ 30) with 1073741824 in Hj.
  set (N := 2 * j + 1). assert (HN : 1 <= N <= 2147483647) by (unfold N; lia).
  assert (HNr : (1 <= IZR N <= 2147483647)%R) by (split; apply IZR_le; lia).
  (* bounds  (N*2^21 -+ 1) / 2^51  for q + 1 *)
  set (lo := (IZR (N * 2097152 - 1) / 2251799813685248)%R).
  set (hi := (IZR (N * 2097152 + 1) / 2251799813685248)%R).
  assert (Elo : lo = (IZR N / 1073741824 - 1 / 2251799813685248)%R) by (unfold lo; rewrite minus_IZR, mult_IZR; field).
  assert (Ehi : hi = (IZR N / 1073741824 + 1 / 2251799813685248)%R) by (unfold hi; rewrite plus_IZR, mult_IZR; field).
  assert (Rlo : repr lo) by (apply (repr_dyadic (N * 2097152 - 1) 51); [change (2 ^ 53) with 9007199254740992; lia|lia|reflexivity]).
  assert (Rhi : repr hi) by (apply (repr_dyadic (N * 2097152 + 1) 51); [change (2 ^ 53) with 9007199254740992; lia|lia|reflexivity]).
  assert (EN : (IZR (2 * j + 1 - 1073741824) / 1073741824 = IZR N / 1073741824 - 1)%R) by (unfold N; rewrite minus_IZR; field).
  rewrite EN in Bq.
  (* q + 1 *)
  assert (B1 : (lo <= rnd (RV q + RV 1%float) <= hi)%R).
  { apply rnd_between; try assumption. rewrite one_RV, Elo, Ehi. lra. }
  destruct (add_fin q 1%float Fq one_fin) as (F1 & V1).
  { apply Rlt_trans with 4%R; [apply Rabs_def1; rewrite ?Elo, ?Ehi in B1; lra|apply (proj2 ok4)]. }
  rewrite <- V1 in B1.
  (* * 0.5 *)
  assert (Rlo2 : repr (lo / 2)).
  { apply (repr_dyadic (N * 2097152 - 1) 52); [change (2 ^ 53) with 9007199254740992; lia|lia|unfold lo; change (2 ^ 52) with 4503599627370496; field]. }
  assert (Rhi2 : repr (hi / 2)).
  { apply (repr_dyadic (N * 2097152 + 1) 52); [change (2 ^ 53) with 9007199254740992; lia|lia|unfold hi; change (2 ^ 52) with 4503599627370496; field]. }
  assert (B2 : (lo / 2 <= rnd (RV (0x1p-01)%float * RV (PrimFloat.add q 1)) <= hi / 2)%R).
  { apply rnd_between; try assumption. rewrite half_RV. lra. }
  destruct (mul_fin _ _ half_fin F1) as (F2 & V2).
  { apply Rlt_trans with 4%R; [apply Rabs_def1; rewrite ?Elo, ?Ehi in B2; lra|apply (proj2 ok4)]. }
  rewrite <- V2 in B2.
  (* * 2^30 *)
  unfold s2_stToIJ. set (s := PrimFloat.mul (0x1p-01)%float (PrimFloat.add q 1)) in *.
  assert (Rlo3 : repr (lo * 536870912)).
  { apply (repr_dyadic (N * 2097152 - 1) 22); [change (2 ^ 53) with 9007199254740992; lia|lia|unfold lo; change (2 ^ 22) with 4194304; field]. }
  assert (Rhi3 : repr (hi * 536870912)).
  { apply (repr_dyadic (N * 2097152 + 1) 22); [change (2 ^ 53) with 9007199254740992; lia|lia|unfold hi; change (2 ^ 22) with 4194304; field]. }
  assert (B3 : (lo * 536870912 <= rnd (RV (0x1p+30)%float * RV s) <= hi * 536870912)%R).
  { apply rnd_between; try assumption. rewrite p30_RV. lra. }
  destruct (mul_fin _ _ p30_fin F2) as (F3 & V3).
  { apply Rlt_trans with 4294967296%R; [apply Rabs_def1; rewrite ?Elo, ?Ehi in B3; lra|apply (proj2 okP32)]. }
  rewrite <- V3 in B3.
  assert (Bj : (IZR j < RV (PrimFloat.mul (0x1p+30)%float s) < IZR (j + 1))%R).
  { rewrite Elo, Ehi in B3. assert (IZR N = 2 * IZR j + 1)%R by (unfold N; rewrite plus_IZR, mult_IZR; ring).
    rewrite plus_IZR. lra. }
  rewrite (go_floor_between _ j F3 ltac:(change (2 ^ 52) with 4503599627370496; lia) Bj).
  rewrite trunc_float_of_Z by (change (2 ^ 53) with 9007199254740992; lia).
  rewrite wrap_i64_small by (change (2 ^ 63) with 9223372036854775808; lia).
  unfold s2_clampInt. replace (j <? 0) with false by (symmetry; apply Z.ltb_ge; lia).
  replace (1073741823 <? j) with false by (symmetry; apply Z.ltb_ge; lia). reflexivity.
Qed.

(** division of w = Ucoord j by L stays within 2^-51 of w *)
Lemma div_Lim_near j : 0 <= j < 2 ^ 30 ->
  fin (PrimFloat.div (Ucoord j) Lim) /\
  (RV (Ucoord j) - 1 / 2251799813685248 <= RV (PrimFloat.div (Ucoord j) Lim)
     <= RV (Ucoord j) + 1 / 2251799813685248)%R.
Proof.
  intros Hj. destruct (Ucoord_val j Hj) as (F & E & B). change (2 ^ 30) with 1073741824 in Hj.
  set (m := 2 * j + 1 - 1073741824) in *. assert (Hm : - 1073741823 <= m <= 1073741823) by (unfold m; lia).
  set (w := RV (Ucoord j)) in *.
  assert (EL : RV Lim = (1 + 1 / 4503599627370496)%R) by (rewrite Lim_RV; field).
  set (e := (1 / 4503599627370496)%R) in *. assert (He : (0 < e < 1 / 1024)%R) by (unfold e; lra).
  set (d := (w / RV Lim)%R).
  assert (Ed : (d * (1 + e) = w)%R) by (unfold d; rewrite EL; field; lra).
  assert (Bd : (-1 < d < 1)%R) by (split; nra).
  assert (Q : (w - e <= d <= w + e)%R) by (split; nra).
  set (lo := (IZR (m * 2097152 - 1) / 2251799813685248)%R).
  set (hi := (IZR (m * 2097152 + 1) / 2251799813685248)%R).
  assert (Elo : lo = (w - 1 / 2251799813685248)%R) by (unfold lo; rewrite E, minus_IZR, mult_IZR; field).
  assert (Ehi : hi = (w + 1 / 2251799813685248)%R) by (unfold hi; rewrite E, plus_IZR, mult_IZR; field).
  assert (Rlo : repr lo) by (apply (repr_dyadic (m * 2097152 - 1) 51); [change (2 ^ 53) with 9007199254740992; lia|lia|reflexivity]).
  assert (Rhi : repr hi) by (apply (repr_dyadic (m * 2097152 + 1) 51); [change (2 ^ 53) with 9007199254740992; lia|lia|reflexivity]).
  assert (Bq : (lo <= rnd d <= hi)%R).
  { apply rnd_between; try assumption. rewrite Elo, Ehi. unfold e in Q. lra. }
  destruct (div_fin (Ucoord j) Lim F Lim_fin) as (F' & V).
  - rewrite EL. lra.
  - fold w d. apply Rlt_trans with 4%R; [apply Rabs_def1; rewrite Elo, Ehi in Bq; lra|apply (proj2 ok4)].
  - split; [exact F'|]. rewrite V. fold w d. rewrite <- Elo, <- Ehi. exact Bq.
Qed.

(** KEY: dividing Ucoord j by L and mapping back gives j *)
Lemma back_after_div q j : 0 <= j < 2 ^ 30 -> fin q -> RV q = RV (PrimFloat.div (Ucoord j) Lim) ->
  s2_stToIJ (PrimFloat.mul (0x1p-01)%float (PrimFloat.add q (0x1p+00)%float)) = j.
Proof.
  intros Hj Fq Eq. destruct (div_Lim_near j Hj) as (_ & B). destruct (Ucoord_val j Hj) as (_ & E & _).
  apply (stToIJ_near q j Hj Fq). rewrite Eq, <- E. exact B.
Qed.

(** ** xyzToFaceUV when one component is strictly largest in magnitude *)
Section XYZ.
  Variables X Y Z : PrimFloat.float.
  Hypotheses (FX : fin X) (FY : fin Y) (FZ : fin Z).
  Let r := mk_r3_Vector X Y Z.

  Lemma abs3 : fin (abs X) /\ RV (abs X) = Rabs (RV X) /\ fin (abs Y) /\ RV (abs Y) = Rabs (RV Y) /\
               fin (abs Z) /\ RV (abs Z) = Rabs (RV Z).
  Proof.
    destruct (abs_fin X FX) as (A & B). destruct (abs_fin Y FY) as (C & D). destruct (abs_fin Z FZ) as (E & F).
    repeat split; assumption.
  Qed.

  Lemma largest_X : (Rabs (RV Y) < Rabs (RV X))%R -> (Rabs (RV Z) < Rabs (RV X))%R -> r3_Vector_LargestComponent r = 0.
  Proof.
    intros H1 H2. destruct abs3 as (AX & EX & AY & EY & AZ & EZ).
    unfold r3_Vector_LargestComponent, r3_Vector_Abs, r. cbv zeta. cbn [r3_Vector_X r3_Vector_Y r3_Vector_Z].
    rewrite (ltb_true_RV _ _ AY AX) by lra. rewrite (ltb_true_RV _ _ AZ AX) by lra. reflexivity.
  Qed.
  Lemma largest_Y : (Rabs (RV X) < Rabs (RV Y))%R -> (Rabs (RV Z) < Rabs (RV Y))%R -> r3_Vector_LargestComponent r = 1.
  Proof.
    intros H1 H2. destruct abs3 as (AX & EX & AY & EY & AZ & EZ).
    unfold r3_Vector_LargestComponent, r3_Vector_Abs, r. cbv zeta. cbn [r3_Vector_X r3_Vector_Y r3_Vector_Z].
    rewrite (ltb_false_RV _ _ AY AX) by lra. rewrite (ltb_true_RV _ _ AZ AY) by lra. reflexivity.
  Qed.
  Lemma largest_Z : (Rabs (RV X) < Rabs (RV Z))%R -> (Rabs (RV Y) < Rabs (RV Z))%R -> r3_Vector_LargestComponent r = 2.
  Proof.
    intros H1 H2. destruct abs3 as (AX & EX & AY & EY & AZ & EZ).
    unfold r3_Vector_LargestComponent, r3_Vector_Abs, r. cbv zeta. cbn [r3_Vector_X r3_Vector_Y r3_Vector_Z].
    rewrite (ltb_false_RV _ _ AZ AX) by lra. rewrite (ltb_false_RV _ _ AZ AY) by lra.
    destruct (PrimFloat.ltb (abs Y) (abs X)); reflexivity.
  Qed.

  Lemma sign_test c : fin c -> PrimFloat.ltb c 0 = (if Rlt_dec (RV c) 0 then true else false).
  Proof.
    intros F. destruct (Rlt_dec (RV c) 0).
    - apply ltb_true_RV; [exact F|exact zero_fin|rewrite zero_RV; assumption].
    - apply ltb_false_RV; [exact F|exact zero_fin|rewrite zero_RV; lra].
  Qed.

  Lemma xyz_Xpos : (Rabs (RV Y) < RV X)%R -> (Rabs (RV Z) < RV X)%R ->
    s2_xyzToFaceUV r = (0, PrimFloat.div Y X, PrimFloat.div Z X).
  Proof.
    intros H1 H2. assert (P : (0 < RV X)%R) by (pose proof (Rabs_pos (RV Y)); lra).
    unfold s2_xyzToFaceUV, s2_face. cbv zeta. rewrite largest_X by (rewrite (Rabs_pos_eq (RV X)) by lra; assumption).
    unfold r. cbn [r3_Vector_X r3_Vector_Y r3_Vector_Z Z.eqb andb]. rewrite (sign_test X FX).
    destruct (Rlt_dec (RV X) 0); [lra|]. cbn [Z.eqb Pos.eqb andb]. reflexivity.
  Qed.
  Lemma xyz_Xneg : (Rabs (RV Y) < - RV X)%R -> (Rabs (RV Z) < - RV X)%R ->
    s2_xyzToFaceUV r = (3, PrimFloat.div Z X, PrimFloat.div Y X).
  Proof.
    intros H1 H2. assert (P : (RV X < 0)%R) by (pose proof (Rabs_pos (RV Y)); lra).
    unfold s2_xyzToFaceUV, s2_face. cbv zeta. rewrite largest_X by (rewrite (Rabs_left (RV X)) by lra; assumption).
    unfold r. cbn [r3_Vector_X r3_Vector_Y r3_Vector_Z Z.eqb andb]. rewrite (sign_test X FX).
    destruct (Rlt_dec (RV X) 0); [|lra]. reflexivity.
  Qed.
  Lemma xyz_Ypos : (Rabs (RV X) < RV Y)%R -> (Rabs (RV Z) < RV Y)%R ->
    s2_xyzToFaceUV r = (1, PrimFloat.div (PrimFloat.opp X) Y, PrimFloat.div Z Y).
  Proof.
    intros H1 H2. assert (P : (0 < RV Y)%R) by (pose proof (Rabs_pos (RV X)); lra).
    unfold s2_xyzToFaceUV, s2_face. cbv zeta. rewrite largest_Y by (rewrite (Rabs_pos_eq (RV Y)) by lra; assumption).
    unfold r. cbn [r3_Vector_X r3_Vector_Y r3_Vector_Z Z.eqb Pos.eqb andb]. rewrite (sign_test Y FY).
    destruct (Rlt_dec (RV Y) 0); [lra|]. cbn [Z.eqb Pos.eqb andb]. reflexivity.
  Qed.
  Lemma xyz_Yneg : (Rabs (RV X) < - RV Y)%R -> (Rabs (RV Z) < - RV Y)%R ->
    s2_xyzToFaceUV r = (4, PrimFloat.div Z Y, PrimFloat.div (PrimFloat.opp X) Y).
  Proof.
    intros H1 H2. assert (P : (RV Y < 0)%R) by (pose proof (Rabs_pos (RV X)); lra).
    unfold s2_xyzToFaceUV, s2_face. cbv zeta. rewrite largest_Y by (rewrite (Rabs_left (RV Y)) by lra; assumption).
    unfold r. cbn [r3_Vector_X r3_Vector_Y r3_Vector_Z Z.eqb Pos.eqb andb]. rewrite (sign_test Y FY).
    destruct (Rlt_dec (RV Y) 0); [|lra]. reflexivity.
  Qed.
  Lemma xyz_Zpos : (Rabs (RV X) < RV Z)%R -> (Rabs (RV Y) < RV Z)%R ->
    s2_xyzToFaceUV r = (2, PrimFloat.div (PrimFloat.opp X) Z, PrimFloat.div (PrimFloat.opp Y) Z).
  Proof.
    intros H1 H2. assert (P : (0 < RV Z)%R) by (pose proof (Rabs_pos (RV X)); lra).
    unfold s2_xyzToFaceUV, s2_face. cbv zeta. rewrite largest_Z by (rewrite (Rabs_pos_eq (RV Z)) by lra; assumption).
    unfold r. cbn [r3_Vector_X r3_Vector_Y r3_Vector_Z Z.eqb Pos.eqb andb]. rewrite (sign_test Z FZ).
    destruct (Rlt_dec (RV Z) 0); [lra|]. cbn [Z.eqb Pos.eqb andb]. reflexivity.
  Qed.
  Lemma xyz_Zneg : (Rabs (RV X) < - RV Z)%R -> (Rabs (RV Y) < - RV Z)%R ->
    s2_xyzToFaceUV r = (5, PrimFloat.div (PrimFloat.opp Y) Z, PrimFloat.div (PrimFloat.opp X) Z).
  Proof.
    intros H1 H2. assert (P : (RV Z < 0)%R) by (pose proof (Rabs_pos (RV X)); lra).
    unfold s2_xyzToFaceUV, s2_face. cbv zeta. rewrite largest_Z by (rewrite (Rabs_left (RV Z)) by lra; assumption).
    unfold r. cbn [r3_Vector_X r3_Vector_Y r3_Vector_Z Z.eqb Pos.eqb andb]. rewrite (sign_test Z FZ).
    destruct (Rlt_dec (RV Z) 0); [|lra]. reflexivity.
  Qed.
End XYZ.

(** ** pieces for the 24 face sides *)
Definition NLim : PrimFloat.float := (-0x1.0000000000001p+0)%float.
Lemma NLim_fin : fin NLim. Proof. exact (lit_fin NLim _ _ _ eq_refl). Qed.
Lemma NLim_RV : RV NLim = (- RV Lim)%R.
Proof. change NLim with (PrimFloat.opp Lim). exact (proj2 (opp_fin Lim Lim_fin)). Qed.
Lemma Lim_bounds : (1 < RV Lim < 2)%R. Proof. rewrite Lim_RV. lra. Qed.

(** the clamped coordinate one step outside the face *)
Definition coord_of (i : Z) : PrimFloat.float :=
  go_fmax (PrimFloat.opp (go_nextafter (0x1p+00)%float (0x1p+01)%float))
    (go_fmin (go_nextafter (0x1p+00)%float (0x1p+01)%float)
       (PrimFloat.mul (0x1p-30)%float
          (float_of_Z (wrap_i64 (wrap_i64 (wrap_i64 (go_shl (s2_clampInt i (-1) 1073741824) 1) + 1) - 1073741824))))).
Lemma coord_lo : coord_of (-1) = NLim. Proof. vm_compute. reflexivity. Qed.
Lemma coord_hi : coord_of 1073741824 = Lim. Proof. vm_compute. reflexivity. Qed.
Lemma coord_in i : 0 <= i < 2 ^ 30 -> coord_of i = Ucoord i. Proof. exact (coord_expr i). Qed.

Lemma wrap_unfold f i j : s2_cellIDFromFaceIJWrap f i j =
  (let '(g, u', v') := s2_xyzToFaceUV (s2_faceUVToXYZ f (coord_of i) (coord_of j)) in
   s2_cellIDFromFaceIJ g (s2_stToIJ (PrimFloat.mul (0x1p-01)%float (PrimFloat.add u' (0x1p+00)%float)))
                         (s2_stToIJ (PrimFloat.mul (0x1p-01)%float (PrimFloat.add v' (0x1p+00)%float)))).
Proof. unfold s2_cellIDFromFaceIJWrap, coord_of. reflexivity. Qed.

(** sign bookkeeping for the division of +-w by +-L *)
Lemma div_pm a b (sa sb : R) j : 0 <= j < 2 ^ 30 -> fin a -> fin b ->
  RV a = (sa * RV (Ucoord j))%R -> RV b = (sb * RV Lim)%R -> (sa = 1 \/ sa = -1)%R -> (sb = 1 \/ sb = -1)%R ->
  fin (PrimFloat.div a b) /\ RV (PrimFloat.div a b) = (sa * sb * RV (PrimFloat.div (Ucoord j) Lim))%R.
Proof.
  intros Hj Fa Fb Ea Eb Sa Sb. destruct (Ucoord_val j Hj) as (Fw & _ & Bw). pose proof Lim_bounds as BL.
  destruct (div_Lim_near j Hj) as (Fd & Bd).
  assert (Vd : RV (PrimFloat.div (Ucoord j) Lim) = rnd (RV (Ucoord j) / RV Lim)).
  { assert (N0 : RV Lim <> 0%R) by lra.
    assert (Bq : (Rabs (rnd (RV (Ucoord j) / RV Lim)) < bpow radix2 emax)%R).
    { apply Rlt_trans with 4%R; [|apply (proj2 ok4)].
      assert (Q : (-2 <= RV (Ucoord j) / RV Lim <= 2)%R).
      { split; [apply Rmult_le_reg_r with (RV Lim); [lra|]|apply Rmult_le_reg_r with (RV Lim); [lra|]];
          unfold Rdiv; rewrite Rmult_assoc, Rinv_l, Rmult_1_r by lra; nra. }
      apply Rabs_def1.
      - apply Rle_lt_trans with 2%R; [|lra]. rewrite <- (rnd_repr 2) by (apply (repr_IZR 2); lia). apply rnd_le. lra.
      - apply Rlt_le_trans with (-2)%R; [lra|]. rewrite <- (rnd_repr (-2)) by (apply (repr_IZR (-2)); simpl; lia). apply rnd_le. lra. }
    exact (proj2 (div_fin _ _ Fw Lim_fin N0 Bq)). }
  assert (Er : rnd (RV a / RV b) = (sa * sb * RV (PrimFloat.div (Ucoord j) Lim))%R).
  { rewrite Vd, Ea, Eb. set (x := (RV (Ucoord j) / RV Lim)%R).
    destruct Sa as [-> | ->]; destruct Sb as [-> | ->].
    - replace (1 * RV (Ucoord j) / (1 * RV Lim))%R with x by (unfold x; field; lra). ring.
    - replace (1 * RV (Ucoord j) / (-1 * RV Lim))%R with (- x)%R by (unfold x; field; lra). rewrite rnd_opp. ring.
    - replace (-1 * RV (Ucoord j) / (1 * RV Lim))%R with (- x)%R by (unfold x; field; lra). rewrite rnd_opp. ring.
    - replace (-1 * RV (Ucoord j) / (-1 * RV Lim))%R with x by (unfold x; field; lra). ring. }
  destruct (div_fin a b Fa Fb) as (F & V).
  - rewrite Eb. destruct Sb as [-> | ->]; lra.
  - rewrite Er. apply Rlt_trans with 4%R; [|apply (proj2 ok4)].
    apply Rabs_def1; destruct Sa as [-> | ->]; destruct Sb as [-> | ->]; lra.
  - split; [exact F|]. rewrite V. exact Er.
Qed.

Lemma back_pos q j : 0 <= j < 2 ^ 30 -> fin q -> RV q = (1 * 1 * RV (PrimFloat.div (Ucoord j) Lim))%R \/
                                             RV q = (-1 * -1 * RV (PrimFloat.div (Ucoord j) Lim))%R ->
  s2_stToIJ (PrimFloat.mul (0x1p-01)%float (PrimFloat.add q (0x1p+00)%float)) = j.
Proof. intros Hj F E. apply (back_after_div q j Hj F). destruct E as [-> | ->]; ring. Qed.

Lemma back_neg q j : 0 <= j < 2 ^ 30 -> fin q -> RV q = (1 * -1 * RV (PrimFloat.div (Ucoord j) Lim))%R \/
                                             RV q = (-1 * 1 * RV (PrimFloat.div (Ucoord j) Lim))%R ->
  s2_stToIJ (PrimFloat.mul (0x1p-01)%float (PrimFloat.add q (0x1p+00)%float)) = 1073741823 - j.
Proof.
  intros Hj F E. change (2 ^ 30) with 1073741824 in Hj.
  assert (Hj' : 0 <= 1073741823 - j < 2 ^ 30) by (change (2 ^ 30) with 1073741824; lia).
  destruct (div_Lim_near j ltac:(change (2 ^ 30) with 1073741824; lia)) as (_ & B).
  destruct (Ucoord_val j ltac:(change (2 ^ 30) with 1073741824; lia)) as (_ & Ew & _).
  apply (stToIJ_near q _ Hj' F).
  replace (IZR (2 * (1073741823 - j) + 1 - 1073741824) / 1073741824)%R with (- RV (Ucoord j))%R
    by (rewrite Ew, !minus_IZR, !plus_IZR, !mult_IZR, minus_IZR; field).
  destruct E as [-> | ->]; lra.
Qed.

(** ** the 24 face sides *)
Definition M1 : Z := 1073741823.
Definition target (side f t : Z) : Z * Z * Z :=
  let tb := M1 - t in
  if side =? 0 then (* i = -1 *)
    (if f =? 0 then (4, tb, M1) else if f =? 1 then (0, M1, t) else if f =? 2 then (0, tb, M1)
     else if f =? 3 then (2, M1, t) else if f =? 4 then (2, tb, M1) else (4, M1, t))
  else if side =? 1 then (* i = 2^30 *)
    (if f =? 0 then (1, 0, t) else if f =? 1 then (3, tb, 0) else if f =? 2 then (3, 0, t)
     else if f =? 3 then (5, tb, 0) else if f =? 4 then (5, 0, t) else (1, tb, 0))
  else if side =? 2 then (* j = -1 *)
    (if f =? 0 then (5, t, M1) else if f =? 1 then (5, M1, tb) else if f =? 2 then (1, t, M1)
     else if f =? 3 then (1, M1, tb) else if f =? 4 then (3, t, M1) else (3, M1, tb))
  else (* j = 2^30 *)
    (if f =? 0 then (2, 0, tb) else if f =? 1 then (2, t, 0) else if f =? 2 then (4, 0, tb)
     else if f =? 3 then (4, t, 0) else if f =? 4 then (0, 0, tb) else (0, t, 0)).

Ltac fin_s := first [assumption | exact one_fin | exact mone_fin | exact Lim_fin | exact NLim_fin].
Global Opaque Ucoord.

Section Sides.
  Variable t : Z.
  Hypothesis Ht : 0 <= t < 2 ^ 30.
  Let w := Ucoord t.

  Lemma w_facts : fin w /\ (-1 < RV w < 1)%R /\ fin (PrimFloat.opp w) /\ RV (PrimFloat.opp w) = (- RV w)%R /\
    fin (PrimFloat.opp (PrimFloat.opp w)) /\ RV (PrimFloat.opp (PrimFloat.opp w)) = RV w.
  Proof.
    destruct (Ucoord_val t Ht) as (F & _ & B). destruct (opp_fin w F) as (F1 & E1). destruct (opp_fin _ F1) as (F2 & E2).
    split; [exact F|]. split; [exact B|]. split; [exact F1|]. split; [exact E1|]. split; [exact F2|]. rewrite E2, E1. ring.
  Qed.

  Ltac rv_s Eow Eoow := apply Rabs_def1; rewrite ?one_RV, ?mone_RV, ?NLim_RV, ?Eoow, ?Eow; lra.

  Ltac pick_face Eow Eoow :=
    match goal with |- context [s2_xyzToFaceUV (mk_r3_Vector ?X ?Y ?Z)] =>
      first [ rewrite (xyz_Xpos X Y Z) by (first [fin_s | rv_s Eow Eoow])
            | rewrite (xyz_Xneg X Y Z) by (first [fin_s | rv_s Eow Eoow])
            | rewrite (xyz_Ypos X Y Z) by (first [fin_s | rv_s Eow Eoow])
            | rewrite (xyz_Yneg X Y Z) by (first [fin_s | rv_s Eow Eoow])
            | rewrite (xyz_Zpos X Y Z) by (first [fin_s | rv_s Eow Eoow])
            | rewrite (xyz_Zneg X Y Z) by (first [fin_s | rv_s Eow Eoow]) ] end.

  Ltac try_signs a b sa sb Eow Eoow :=
    let F := fresh "F" in let V := fresh "V" in
    destruct (div_pm a b sa sb t Ht ltac:(fin_s) ltac:(fin_s)
                ltac:(fold w; rewrite ?Eoow, ?Eow; ring) ltac:(rewrite ?NLim_RV; ring)
                ltac:(first [left; reflexivity | right; reflexivity]) ltac:(first [left; reflexivity | right; reflexivity])) as (F & V);
    first [ apply (back_pos _ t Ht F); first [left; exact V | right; exact V]
          | apply (back_neg _ t Ht F); first [left; exact V | right; exact V] ].

  Ltac solve_coord Eow Eoow :=
    match goal with
    | |- s2_stToIJ (PrimFloat.mul _ (PrimFloat.add (PrimFloat.div ?a ?b) _)) = _ =>
        first [ try_signs a b 1%R 1%R Eow Eoow | try_signs a b 1%R (-1)%R Eow Eoow
              | try_signs a b (-1)%R 1%R Eow Eoow | try_signs a b (-1)%R (-1)%R Eow Eoow
              | (vm_compute; reflexivity) ]
    end.

  Ltac side_case Eow Eoow :=
    unfold s2_faceUVToXYZ; cbn [Z.eqb Pos.eqb];
    change (PrimFloat.opp Lim) with NLim; change (PrimFloat.opp NLim) with Lim;
    pick_face Eow Eoow; unfold target, M1; cbn [Z.eqb Pos.eqb];
    f_equal; solve_coord Eow Eoow.

  Theorem wrap_side_i_hi : forall f, 0 <= f < 6 ->
    s2_cellIDFromFaceIJWrap f 1073741824 t = (let '(g, i', j') := target 1 f t in s2_cellIDFromFaceIJ g i' j').
  Proof.
    intros f Hf. destruct w_facts as (Fw & Bw & Fow & Eow & Foow & Eoow). pose proof Lim_bounds as BL.
    rewrite wrap_unfold, coord_hi, (coord_in t Ht). fold w.
    assert (C : f = 0 \/ f = 1 \/ f = 2 \/ f = 3 \/ f = 4 \/ f = 5) by lia.
    destruct C as [-> | [-> | [-> | [-> | [-> | ->]]]]]; side_case Eow Eoow.
  Qed.

  Theorem wrap_side_i_lo : forall f, 0 <= f < 6 ->
    s2_cellIDFromFaceIJWrap f (-1) t = (let '(g, i', j') := target 0 f t in s2_cellIDFromFaceIJ g i' j').
  Proof.
    intros f Hf. destruct w_facts as (Fw & Bw & Fow & Eow & Foow & Eoow). pose proof Lim_bounds as BL.
    rewrite wrap_unfold, coord_lo, (coord_in t Ht). fold w.
    assert (C : f = 0 \/ f = 1 \/ f = 2 \/ f = 3 \/ f = 4 \/ f = 5) by lia.
    destruct C as [-> | [-> | [-> | [-> | [-> | ->]]]]]; side_case Eow Eoow.
  Qed.

  Theorem wrap_side_j_lo : forall f, 0 <= f < 6 ->
    s2_cellIDFromFaceIJWrap f t (-1) = (let '(g, i', j') := target 2 f t in s2_cellIDFromFaceIJ g i' j').
  Proof.
    intros f Hf. destruct w_facts as (Fw & Bw & Fow & Eow & Foow & Eoow). pose proof Lim_bounds as BL.
    rewrite wrap_unfold, coord_lo, (coord_in t Ht). fold w.
    assert (C : f = 0 \/ f = 1 \/ f = 2 \/ f = 3 \/ f = 4 \/ f = 5) by lia.
    destruct C as [-> | [-> | [-> | [-> | [-> | ->]]]]]; side_case Eow Eoow.
  Qed.

  Theorem wrap_side_j_hi : forall f, 0 <= f < 6 ->
    s2_cellIDFromFaceIJWrap f t 1073741824 = (let '(g, i', j') := target 3 f t in s2_cellIDFromFaceIJ g i' j').
  Proof.
    intros f Hf. destruct w_facts as (Fw & Bw & Fow & Eow & Foow & Eoow). pose proof Lim_bounds as BL.
    rewrite wrap_unfold, coord_hi, (coord_in t Ht). fold w.
    assert (C : f = 0 \/ f = 1 \/ f = 2 \/ f = 3 \/ f = 4 \/ f = 5) by lia.
    destruct C as [-> | [-> | [-> | [-> | [-> | ->]]]]]; side_case Eow Eoow.
  Qed.
End Sides.
