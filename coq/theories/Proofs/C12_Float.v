(** C12: the float exactness fact behind [children_direct]:
    float64(2x) / 2^31 and float64(x) / 2^30 are the same float for every integer
    0 <= x <= 2^30 — both operands are exact and both quotients are the correctly
    rounded value of the same real number x/2^30 (which is itself representable). *)
From Coq Require Import ZArith Reals Floats Lia Lra Psatz.
From Flocq Require Import Core.Core IEEE754.BinarySingleNaN IEEE754.PrimFloat.
From Geo Require Import Base.GoPrim.
Local Open Scope Z_scope.

Definition BN (z : Z) : binary_float prec emax :=
  binary_normalize prec emax Hprec Hmax mode_NE z 0 false.

Lemma Prim2B_float_of_Z z : Prim2B (float_of_Z z) = BN z.
Proof.
  unfold float_of_Z, float_of_Z_scaled, BN.
  rewrite binary_normalize_equiv.
  change (SF2Prim (B2SF ?b)) with (B2Prim b).
  apply Prim2B_B2Prim.
Qed.

Lemma generic_small_int z : Z.abs z < 2 ^ 53 ->
  generic_format radix2 (fexp prec emax) (IZR z).
Proof.
  intros H.
  change (fexp prec emax) with (FLT_exp (3 - emax - prec) prec).
  apply generic_format_FLT.
  apply (FLT_spec radix2 _ prec (IZR z) (Float radix2 z 0)).
  - unfold F2R. simpl. ring.
  - simpl. unfold prec. exact H.
  - simpl. unfold emax, prec. simpl. lia.
Qed.

Lemma BN_exact z : Z.abs z < 2 ^ 53 ->
  B2R (BN z) = IZR z /\ is_finite (BN z) = true /\ Bsign (BN z) = (z <? 0).
Proof.
  intros H.
  pose proof (binary_normalize_correct prec emax Hprec Hmax mode_NE z 0 false) as C.
  cbv zeta in C.
  assert (EF : F2R (Float radix2 z 0) = IZR z) by (unfold F2R; simpl; ring).
  rewrite EF in C.
  rewrite round_generic in C; [|apply valid_rnd_N|apply generic_small_int; assumption].
  rewrite Rlt_bool_true in C.
  - destruct C as (C1 & C2 & C3). fold (BN z) in *. repeat split; try assumption.
    rewrite C3. destruct (Z.ltb_spec z 0) as [L|L].
    + rewrite Rcompare_Lt; [reflexivity | apply IZR_lt; assumption].
    + destruct (Z.eq_dec z 0) as [->|N0].
      * rewrite Rcompare_Eq; reflexivity.
      * rewrite Rcompare_Gt; [reflexivity | apply IZR_lt; lia].
  - rewrite <- abs_IZR. apply Rle_lt_trans with (IZR (2 ^ 53)).
    + apply IZR_le. lia.
    + change (2 ^ 53) with (Zpower 2 53). rewrite (IZR_Zpower radix2) by lia.
      apply bpow_lt. unfold emax. lia.
Qed.

Lemma lit31 : (0x1p+31)%float = float_of_Z (2 ^ 31).
Proof. vm_compute. reflexivity. Qed.
Lemma lit30 : (0x1p+30)%float = float_of_Z (2 ^ 30).
Proof. vm_compute. reflexivity. Qed.

(** quotient of two exact small integers: correctly rounded value of the real quotient *)
Lemma div_int_correct a b : 0 <= a <= b -> 0 < b < 2 ^ 53 ->
  let q := @Bdiv prec emax Hprec Hmax mode_NE (BN a) (BN b) in
  B2R q = round radix2 (fexp prec emax) (round_mode mode_NE) (IZR a / IZR b)
  /\ is_finite q = true /\ Bsign q = false.
Proof.
  intros Ha Hb q.
  destruct (BN_exact a) as (Ra & Fa & Sa); [lia|].
  destruct (BN_exact b) as (Rb & Fb & Sb); [lia|].
  assert (Hb0 : B2R (BN b) <> 0%R).
  { rewrite Rb. apply not_0_IZR. lia. }
  pose proof (Bdiv_correct prec emax Hprec Hmax mode_NE (BN a) (BN b) Hb0) as C.
  rewrite Ra, Rb in C.
  assert (Hq : (0 <= IZR a / IZR b <= 1)%R).
  { assert (0 < IZR b)%R by (apply IZR_lt; lia).
    assert (0 <= IZR a)%R by (apply IZR_le; lia).
    assert (IZR a <= IZR b)%R by (apply IZR_le; lia).
    split.
    - apply Rmult_le_pos; [assumption|]. left. apply Rinv_0_lt_compat. assumption.
    - apply Rmult_le_reg_r with (IZR b); [assumption|].
      unfold Rdiv. rewrite Rmult_assoc, Rinv_l by lra. lra. }
  set (rq := round radix2 (fexp prec emax) (round_mode mode_NE) (IZR a / IZR b)) in *.
  assert (Hr : (0 <= rq <= 1)%R).
  { unfold rq. split.
    - rewrite <- (round_0 radix2 (fexp prec emax) (round_mode mode_NE)).
      apply round_le; [apply FLT_exp_valid; reflexivity | apply valid_rnd_N | lra].
    - replace 1%R with (round radix2 (fexp prec emax) (round_mode mode_NE) 1).
      + apply round_le; [apply FLT_exp_valid; reflexivity | apply valid_rnd_N | lra].
      + apply round_generic; [apply valid_rnd_N|].
        change 1%R with (bpow radix2 0). apply generic_format_bpow.
        vm_compute. discriminate. }
  rewrite Rlt_bool_true in C.
  - destruct C as (C1 & C2 & C3). fold q in C1, C2, C3.
    split; [exact C1|]. split; [rewrite C2; exact Fa|].
    rewrite C3.
    + rewrite Sa, Sb. destruct (Z.ltb_spec a 0); [lia|]. destruct (Z.ltb_spec b 0); [lia|]. reflexivity.
    + assert (Fq : is_finite q = true) by (rewrite C2; exact Fa).
      clear -Fq. clearbody q. destruct q; try reflexivity; discriminate.
  - rewrite Rabs_pos_eq by lra. apply Rle_lt_trans with 1%R; [lra|].
    change 1%R with (bpow radix2 0). apply bpow_lt. unfold emax. lia.
Qed.

Lemma Bdiv_same_quotient a b a' b' :
  0 <= a <= b -> 0 < b < 2 ^ 53 -> 0 <= a' <= b' -> 0 < b' < 2 ^ 53 ->
  a * b' = a' * b ->
  @Bdiv prec emax Hprec Hmax mode_NE (BN a) (BN b) = @Bdiv prec emax Hprec Hmax mode_NE (BN a') (BN b').
Proof.
  intros Ha Hb Ha' Hb' E.
  destruct (div_int_correct a b Ha Hb) as (R1 & F1 & S1).
  destruct (div_int_correct a' b' Ha' Hb') as (R2 & F2 & S2).
  apply B2R_Bsign_inj; try assumption; [|congruence].
  rewrite R1, R2. f_equal.
  assert (IZR b <> 0)%R by (apply not_0_IZR; lia).
  assert (IZR b' <> 0)%R by (apply not_0_IZR; lia).
  apply (f_equal IZR) in E. rewrite !mult_IZR in E.
  field_simplify_eq; [|split; assumption]. lra.
Qed.

(** the fact used by children_direct: siTiToST(2x) and ijToSTMin(x) are the same float *)
Theorem pow2_div_exact x : 0 <= x <= 2 ^ 30 ->
  PrimFloat.div (float_of_Z (2 * x)) (0x1p+31)%float = PrimFloat.div (float_of_Z x) (0x1p+30)%float.
Proof.
  intros H. rewrite lit31, lit30. apply Prim2B_inj.
  rewrite !div_equiv, !Prim2B_float_of_Z.
  apply Bdiv_same_quotient; lia.
Qed.
