(** C11 — s2intersect.Find, part B: collapseLimits.  The result is strictly sorted by
    (leaf, typ), has exactly the keys of the input, and the indices of an entry are the indices
    of all input limits with that key. *)
From Coq Require Import ZArith List Bool Lia ZifyBool Sorted Permutation.
From Geo Require Import Base.GoPrim Gen.CellID Model.CellUnion Model.Intersect Proofs.C11_Normalize.
Import ListNotations.
Local Open Scope Z_scope.

(** the key (leaf, typ) as one integer; start (false) sorts before end (true) *)
Definition pos2 (l : limit) : Z := 2 * l_leaf l + (if l_typ l then 1 else 0).
Definition le2 (a b : limit) : Prop := pos2 a <= pos2 b.
Definition lt2 (a b : limit) : Prop := pos2 a < pos2 b.

Lemma pos2_key a b : pos2 a = pos2 b <-> l_leaf a = l_leaf b /\ l_typ a = l_typ b.
Proof.
  unfold pos2. split.
  - destruct (l_typ a), (l_typ b); intros H; split; try reflexivity; lia.
  - intros [-> ->]. reflexivity.
Qed.

Lemma limit_before_pos2 a b : limit_before a b = true <-> pos2 a < pos2 b.
Proof.
  unfold limit_before, pos2.
  destruct (l_leaf a =? l_leaf b) eqn:E; cbn [negb]; destruct (l_typ a), (l_typ b); cbn [negb andb]; lia.
Qed.

Lemma same_key_pos2 a b : same_key a b = true <-> pos2 a = pos2 b.
Proof.
  unfold same_key, pos2. destruct (l_typ a), (l_typ b); cbn [Bool.eqb]; lia.
Qed.

(** * sort_limits *)
Lemma insert_limit_perm x l : Permutation (x :: l) (insert_limit x l).
Proof.
  induction l as [|y t IH]; cbn [insert_limit]; [reflexivity|].
  destruct (limit_before x y); [reflexivity|]. rewrite perm_swap. apply perm_skip. exact IH.
Qed.
Lemma sort_limits_perm l : Permutation l (sort_limits l).
Proof.
  induction l as [|x t IH]; cbn [sort_limits fold_right]; [constructor|].
  rewrite <- insert_limit_perm. apply perm_skip. exact IH.
Qed.
Lemma insert_limit_sorted x l : StronglySorted le2 l -> StronglySorted le2 (insert_limit x l).
Proof.
  induction l as [|y t IH]; intros HS; cbn [insert_limit].
  - repeat constructor.
  - inversion HS as [|? ? HS' HF]; subst. destruct (limit_before x y) eqn:E.
    + apply limit_before_pos2 in E. constructor; [exact HS|]. constructor; [unfold le2; lia|].
      eapply Forall_impl; [|exact HF]. unfold le2; intros; lia.
    + assert (Hyx : pos2 y <= pos2 x).
      { destruct (Z_lt_le_dec (pos2 x) (pos2 y)) as [Hlt|Hle]; [|exact Hle].
        apply limit_before_pos2 in Hlt. congruence. }
      constructor; [apply IH; exact HS'|].
      rewrite Forall_forall in *. intros z Hz.
      apply (Permutation_in _ (Permutation_sym (insert_limit_perm x t))) in Hz.
      destruct Hz as [<-|Hz]; [exact Hyx|auto].
Qed.
Lemma sort_limits_sorted l : StronglySorted le2 (sort_limits l).
Proof. induction l; cbn [sort_limits fold_right]; [constructor|apply insert_limit_sorted; assumption]. Qed.

(** * merge_limits *)
Lemma In_sort_ids i l : In i (sort_ids l) <-> In i l.
Proof.
  split; intros H.
  - exact (Permutation_in _ (Permutation_sym (sort_perm l)) H).
  - exact (Permutation_in _ (sort_perm l) H).
Qed.

Lemma merge_limits_spec : forall t cur, StronglySorted le2 (cur :: t) ->
  let L := merge_limits cur t in
  StronglySorted lt2 L /\
  (forall l, In l L -> pos2 cur <= pos2 l) /\
  (forall l, In l L -> forall i,
      In i (l_idx l) <-> exists r, In r (cur :: t) /\ pos2 r = pos2 l /\ In i (l_idx r)) /\
  (forall l, In l L -> exists r, In r (cur :: t) /\ pos2 r = pos2 l) /\
  (forall r, In r (cur :: t) -> exists l, In l L /\ pos2 l = pos2 r).
Proof.
  induction t as [|x t IH]; intros cur SS; cbn zeta.
  - cbn [merge_limits].
    set (l0 := (l_leaf cur, l_typ cur, sort_ids (l_idx cur))).
    assert (P0 : pos2 l0 = pos2 cur) by reflexivity.
    split; [constructor; [constructor|constructor]|].
    split; [intros l [<-|[]]; lia|].
    split.
    { intros l [<-|[]] i. change (l_idx l0) with (sort_ids (l_idx cur)). rewrite In_sort_ids. split.
      - intros Hi. exists cur. split; [left; reflexivity|]. split; [symmetry; exact P0|exact Hi].
      - intros (r & [<-|[]] & _ & Hi). exact Hi. }
    split.
    { intros l [<-|[]]. exists cur. split; [left; reflexivity|symmetry; exact P0]. }
    intros r [<-|[]]. exists l0. split; [left; reflexivity|exact P0].
  - inversion SS as [|? ? SSx Fcur]; subst. inversion SSx as [|? ? SSt Fx]; subst.
    inversion Fcur as [|? ? Hcx Fcur_t]; subst. unfold le2 in Hcx.
    cbn [merge_limits]. destruct (same_key x cur) eqn:E.
    + apply same_key_pos2 in E.
      set (cur' := (l_leaf cur, l_typ cur, l_idx cur ++ l_idx x)).
      assert (P' : pos2 cur' = pos2 cur) by reflexivity.
      assert (I' : l_idx cur' = l_idx cur ++ l_idx x) by reflexivity.
      destruct (IH cur') as (S1 & S2 & S3 & S4 & S5).
      { constructor; [exact SSt|]. eapply Forall_impl; [|exact Fcur_t]. unfold le2. intros; lia. }
      split; [exact S1|].
      split; [intros l Hl; pose proof (S2 l Hl); lia|].
      split.
      { intros l Hl i. rewrite (S3 l Hl i). split.
        - intros (r & [<-|Hr] & Hp & Hi).
          + rewrite I' in Hi. apply in_app_or in Hi. destruct Hi as [Hi|Hi].
            * exists cur. split; [left; reflexivity|]. split; [lia|exact Hi].
            * exists x. split; [right; left; reflexivity|]. split; [lia|exact Hi].
          + exists r. split; [right; right; exact Hr|]. split; assumption.
        - intros (r & [<-|[<-|Hr]] & Hp & Hi).
          + exists cur'. split; [left; reflexivity|]. split; [lia|]. rewrite I'. apply in_or_app. left; exact Hi.
          + exists cur'. split; [left; reflexivity|]. split; [lia|]. rewrite I'. apply in_or_app. right; exact Hi.
          + exists r. split; [right; exact Hr|]. split; assumption. }
      split.
      { intros l Hl. destruct (S4 l Hl) as (r & [<-|Hr] & Hp).
        - exists cur. split; [left; reflexivity|lia].
        - exists r. split; [right; right; exact Hr|exact Hp]. }
      intros r [<-|[<-|Hr]].
      * destruct (S5 cur' (or_introl eq_refl)) as (l & Hl & Hp). exists l. split; [exact Hl|lia].
      * destruct (S5 cur' (or_introl eq_refl)) as (l & Hl & Hp). exists l. split; [exact Hl|lia].
      * exact (S5 r (or_intror Hr)).
    + assert (Hlt : pos2 cur < pos2 x).
      { destruct (Z.eq_dec (pos2 x) (pos2 cur)) as [Heq|Hne]; [|lia].
        apply same_key_pos2 in Heq. congruence. }
      set (l0 := (l_leaf cur, l_typ cur, sort_ids (l_idx cur))).
      assert (P0 : pos2 l0 = pos2 cur) by reflexivity.
      destruct (IH x SSx) as (S1 & S2 & S3 & S4 & S5).
      assert (Hxt : forall r, In r (x :: t) -> pos2 x <= pos2 r).
      { intros r [<-|Hr]; [lia|]. rewrite Forall_forall in Fx. exact (Fx r Hr). }
      split.
      { constructor; [exact S1|]. apply Forall_forall. intros l Hl. unfold lt2. pose proof (S2 l Hl). lia. }
      split; [intros l [<-|Hl]; [lia|pose proof (S2 l Hl); lia]|].
      split.
      { intros l [<-|Hl] i.
        - change (l_idx l0) with (sort_ids (l_idx cur)). rewrite In_sort_ids. split.
          + intros Hi. exists cur. split; [left; reflexivity|]. split; [symmetry; exact P0|exact Hi].
          + intros (r & [<-|Hr] & Hp & Hi); [exact Hi|]. pose proof (Hxt r Hr). lia.
        - rewrite (S3 l Hl i). pose proof (S2 l Hl). split.
          + intros (r & Hr & Hp & Hi). exists r. split; [right; exact Hr|]. split; assumption.
          + intros (r & [<-|Hr] & Hp & Hi); [lia|]. exists r. split; [exact Hr|]. split; assumption. }
      split.
      { intros l [<-|Hl].
        - exists cur. split; [left; reflexivity|symmetry; exact P0].
        - destruct (S4 l Hl) as (r & Hr & Hp). exists r. split; [right; exact Hr|exact Hp]. }
      intros r [<-|Hr].
      * exists l0. split; [left; reflexivity|exact P0].
      * destruct (S5 r Hr) as (l & Hl & Hp). exists l. split; [right; exact Hl|exact Hp].
Qed.

(** * collapse_limits *)
Theorem collapse_spec raw :
  let L := collapse_limits raw in
  StronglySorted lt2 L /\
  (forall l, In l L -> forall i,
      In i (l_idx l) <-> exists r, In r raw /\ pos2 r = pos2 l /\ In i (l_idx r)) /\
  (forall l, In l L -> exists r, In r raw /\ pos2 r = pos2 l) /\
  (forall r, In r raw -> exists l, In l L /\ pos2 l = pos2 r).
Proof.
  cbn zeta. unfold collapse_limits.
  pose proof (sort_limits_perm raw) as P. pose proof (sort_limits_sorted raw) as S.
  destruct (sort_limits raw) as [|x t].
  - apply Permutation_sym, Permutation_nil in P. subst raw.
    split; [constructor|]. split; [intros l []|]. split; [intros l []|intros r []].
  - destruct (merge_limits_spec t x S) as (S1 & _ & S3 & S4 & S5).
    assert (Q : forall r, In r raw <-> In r (x :: t)).
    { intros r; split; intros H; [exact (Permutation_in _ P H)|exact (Permutation_in _ (Permutation_sym P) H)]. }
    split; [exact S1|].
    split.
    { intros l Hl i. rewrite (S3 l Hl i). split; intros (r & Hr & H); exists r; (split; [apply Q; exact Hr|exact H]). }
    split.
    { intros l Hl. destruct (S4 l Hl) as (r & Hr & H). exists r. split; [apply Q; exact Hr|exact H]. }
    intros r Hr. apply S5. apply Q. exact Hr.
Qed.
