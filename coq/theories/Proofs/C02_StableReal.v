(** C02. Real-number core of H-STABLE-DET (stableSign after the repair bfbf523).
    x, y are the two (float) edge vectors e1, e2 and z the common vertex; the exact edges are
    x.(1+eps), y.(1+eps') componentwise (float subtraction has a pure relative error).
      [triple_le]      |(v x w) . z| <= |v| |w| |z|
      [pert_real]      replacing the exact edges by the float ones moves the determinant by at
                       most (2u + u^2) |x| |y| |z|
      [det_scaled]     [triage_real] for edges of arbitrary length, by scaling
      [maxerr_lower]   the float  M * sqrt(|x|^2 * |y|^2)  is at least 5.7 u |x||y| + 31 eta
                       whenever it passed the no-underflow test
      [stable_sign_real] the decision. *)
From Coq Require Import ZArith Reals Lra Lia Psatz.
From Flocq Require Import Core.Core.
From Geo Require Import Base.Exact Proofs.C02_RelErr Proofs.C02_TriageReal Proofs.C02_TriageDet.
Local Open Scope R_scope.

(** * Euclidean norm of a 3-vector *)
Definition sq3 (a b c : R) : R := a * a + b * b + c * c.
Definition nrm (a b c : R) : R := sqrt (sq3 a b c).
Lemma sq3_nonneg a b c : 0 <= sq3 a b c.
Proof. unfold sq3. nra. Qed.
Lemma nrm_nonneg a b c : 0 <= nrm a b c.
Proof. apply sqrt_pos. Qed.
Lemma nrm_sq a b c : nrm a b c * nrm a b c = sq3 a b c.
Proof. apply sqrt_sqrt, sq3_nonneg. Qed.

Lemma abs_le_of_sq t T : 0 <= T -> t * t <= T * T -> Rabs t <= T.
Proof. intros H0 H. apply Rabs_le. split; nra. Qed.

Lemma cross_sq v1 v2 v3 w1 w2 w3 :
  sq3 (v2 * w3 - v3 * w2) (v3 * w1 - v1 * w3) (v1 * w2 - v2 * w1) <= sq3 v1 v2 v3 * sq3 w1 w2 w3.
Proof.
  assert (E : sq3 v1 v2 v3 * sq3 w1 w2 w3 - sq3 (v2 * w3 - v3 * w2) (v3 * w1 - v1 * w3) (v1 * w2 - v2 * w1)
            = (v1 * w1 + v2 * w2 + v3 * w3) * (v1 * w1 + v2 * w2 + v3 * w3)) by (unfold sq3; ring).
  pose proof (Rle_0_sqr (v1 * w1 + v2 * w2 + v3 * w3)) as Q. unfold Rsqr in Q. lra.
Qed.
Lemma dot_sq p1 p2 p3 z1 z2 z3 :
  (p1 * z1 + p2 * z2 + p3 * z3) * (p1 * z1 + p2 * z2 + p3 * z3) <= sq3 p1 p2 p3 * sq3 z1 z2 z3.
Proof.
  assert (E : sq3 p1 p2 p3 * sq3 z1 z2 z3 - (p1 * z1 + p2 * z2 + p3 * z3) * (p1 * z1 + p2 * z2 + p3 * z3)
            = (p1 * z2 - p2 * z1) * (p1 * z2 - p2 * z1) + (p1 * z3 - p3 * z1) * (p1 * z3 - p3 * z1)
              + (p2 * z3 - p3 * z2) * (p2 * z3 - p3 * z2)) by (unfold sq3; ring).
  pose proof (Rle_0_sqr (p1 * z2 - p2 * z1)) as Q1. pose proof (Rle_0_sqr (p1 * z3 - p3 * z1)) as Q2.
  pose proof (Rle_0_sqr (p2 * z3 - p3 * z2)) as Q3. unfold Rsqr in *. lra.
Qed.

Definition triple (v1 v2 v3 w1 w2 w3 z1 z2 z3 : R) : R :=
  (v2 * w3 - v3 * w2) * z1 + (v3 * w1 - v1 * w3) * z2 + (v1 * w2 - v2 * w1) * z3.

Lemma triple_le v1 v2 v3 w1 w2 w3 z1 z2 z3 :
  Rabs (triple v1 v2 v3 w1 w2 w3 z1 z2 z3) <= nrm v1 v2 v3 * nrm w1 w2 w3 * nrm z1 z2 z3.
Proof.
  pose proof (nrm_nonneg v1 v2 v3) as V. pose proof (nrm_nonneg w1 w2 w3) as W. pose proof (nrm_nonneg z1 z2 z3) as Z.
  apply abs_le_of_sq.
  - apply Rmult_le_pos; [apply Rmult_le_pos|]; assumption.
  - replace (nrm v1 v2 v3 * nrm w1 w2 w3 * nrm z1 z2 z3 * (nrm v1 v2 v3 * nrm w1 w2 w3 * nrm z1 z2 z3))
      with ((nrm v1 v2 v3 * nrm v1 v2 v3) * (nrm w1 w2 w3 * nrm w1 w2 w3) * (nrm z1 z2 z3 * nrm z1 z2 z3)) by ring.
    rewrite !nrm_sq. unfold triple.
    eapply Rle_trans; [apply dot_sq|].
    apply Rmult_le_compat_r; [apply sq3_nonneg|apply cross_sq].
Qed.

Lemma nrm_scaled e1 e2 e3 x1 x2 x3 k : 0 <= k ->
  Rabs e1 <= k -> Rabs e2 <= k -> Rabs e3 <= k ->
  nrm (e1 * x1) (e2 * x2) (e3 * x3) <= k * nrm x1 x2 x3.
Proof.
  intros Hk H1 H2 H3. pose proof (nrm_nonneg x1 x2 x3) as X.
  unfold nrm at 1. rewrite <- (sqrt_Rsqr (k * nrm x1 x2 x3)) by (apply Rmult_le_pos; assumption).
  apply sqrt_le_1_alt. unfold Rsqr.
  replace (k * nrm x1 x2 x3 * (k * nrm x1 x2 x3)) with (k * k * (nrm x1 x2 x3 * nrm x1 x2 x3)) by ring.
  rewrite nrm_sq. unfold sq3.
  assert (Q : forall e x, Rabs e <= k -> e * x * (e * x) <= k * k * (x * x)).
  { intros e x He. apply Rabs_le_inv in He. assert (e * e <= k * k) by nra.
    replace (e * x * (e * x)) with (e * e * (x * x)) by ring. apply Rmult_le_compat_r; nra. }
  pose proof (Q e1 x1 H1). pose proof (Q e2 x2 H2). pose proof (Q e3 x3 H3). lra.
Qed.

(** * Perturbation of the edges *)
Lemma pert_real x1 x2 x3 y1 y2 y3 z1 z2 z3 a1 a2 a3 b1 b2 b3 :
  Rabs a1 <= u -> Rabs a2 <= u -> Rabs a3 <= u -> Rabs b1 <= u -> Rabs b2 <= u -> Rabs b3 <= u ->
  Rabs (triple (x1 * (1 + a1)) (x2 * (1 + a2)) (x3 * (1 + a3)) (y1 * (1 + b1)) (y2 * (1 + b2)) (y3 * (1 + b3)) z1 z2 z3
        - triple x1 x2 x3 y1 y2 y3 z1 z2 z3)
  <= (2 * u + u * u) * (nrm x1 x2 x3 * nrm y1 y2 y3 * nrm z1 z2 z3).
Proof.
  intros A1 A2 A3 B1 B2 B3. pose proof u_small as [U0 _].
  set (X := nrm x1 x2 x3). set (Y := nrm y1 y2 y3). set (Z := nrm z1 z2 z3).
  pose proof (nrm_nonneg x1 x2 x3) as X0. pose proof (nrm_nonneg y1 y2 y3) as Y0. pose proof (nrm_nonneg z1 z2 z3) as Z0.
  fold X in X0. fold Y in Y0. fold Z in Z0.
  replace (triple (x1 * (1 + a1)) (x2 * (1 + a2)) (x3 * (1 + a3)) (y1 * (1 + b1)) (y2 * (1 + b2)) (y3 * (1 + b3)) z1 z2 z3
        - triple x1 x2 x3 y1 y2 y3 z1 z2 z3)
    with (triple (a1 * x1) (a2 * x2) (a3 * x3) y1 y2 y3 z1 z2 z3
          + triple x1 x2 x3 (b1 * y1) (b2 * y2) (b3 * y3) z1 z2 z3
          + triple (a1 * x1) (a2 * x2) (a3 * x3) (b1 * y1) (b2 * y2) (b3 * y3) z1 z2 z3) by (unfold triple; ring).
  pose proof (nrm_scaled a1 a2 a3 x1 x2 x3 u U0 A1 A2 A3) as NA. fold X in NA.
  pose proof (nrm_scaled b1 b2 b3 y1 y2 y3 u U0 B1 B2 B3) as NB. fold Y in NB.
  pose proof (nrm_nonneg (a1 * x1) (a2 * x2) (a3 * x3)) as NA0.
  pose proof (nrm_nonneg (b1 * y1) (b2 * y2) (b3 * y3)) as NB0.
  pose proof (triple_le (a1 * x1) (a2 * x2) (a3 * x3) y1 y2 y3 z1 z2 z3) as T1. fold Y Z in T1.
  pose proof (triple_le x1 x2 x3 (b1 * y1) (b2 * y2) (b3 * y3) z1 z2 z3) as T2. fold X Z in T2.
  pose proof (triple_le (a1 * x1) (a2 * x2) (a3 * x3) (b1 * y1) (b2 * y2) (b3 * y3) z1 z2 z3) as T3. fold Z in T3.
  set (na := nrm (a1 * x1) (a2 * x2) (a3 * x3)) in *. set (nb := nrm (b1 * y1) (b2 * y2) (b3 * y3)) in *.
  assert (P1 : na * Y * Z <= u * X * Y * Z).
  { apply Rmult_le_compat_r; [assumption|]. apply Rmult_le_compat_r; assumption. }
  assert (P2 : X * nb * Z <= X * (u * Y) * Z).
  { apply Rmult_le_compat_r; [assumption|]. apply Rmult_le_compat_l; assumption. }
  assert (P3 : na * nb * Z <= (u * X) * (u * Y) * Z).
  { apply Rmult_le_compat_r; [assumption|]. apply Rmult_le_compat; assumption. }
  eapply Rle_trans; [apply Rabs_triang|]. eapply Rle_trans; [apply Rplus_le_compat_r, Rabs_triang|]. nra.
Qed.

(** * The determinant error for edges of arbitrary length, by scaling [triage_real] *)
Lemma near_scale eta0 v e k : 0 <= k -> near u eta0 v e -> near u (eta0 * k) (v * k) (e * k).
Proof.
  unfold near. intros Hk H. replace (v * k - e * k) with ((v - e) * k) by ring.
  rewrite !Rabs_mult, (Rabs_pos_eq k Hk).
  replace (u * (Rabs e * k) + eta0 * k) with ((u * Rabs e + eta0) * k) by ring.
  apply Rmult_le_compat_r; assumption.
Qed.

Lemma det_scaled x1 x2 x3 y1 y2 y3 z1 z2 z3 m23 m32 m31 m13 m12 m21 p1 p2 p3 q1 q2 q3 sm :
  0 < sq3 x1 x2 x3 -> 0 < sq3 y1 y2 y3 -> z1 ^ 2 + z2 ^ 2 + z3 ^ 2 <= 1 + theta ->
  eta <= nrm x1 x2 x3 * nrm y1 y2 y3 * / 1000000 ->
  near u eta m23 (x2 * y3) -> near u eta m32 (x3 * y2) -> near u eta m31 (x3 * y1) ->
  near u eta m13 (x1 * y3) -> near u eta m12 (x1 * y2) -> near u eta m21 (x2 * y1) ->
  near u eta p1 (m23 - m32) -> near u eta p2 (m31 - m13) -> near u eta p3 (m12 - m21) ->
  near u eta q1 (p1 * z1) -> near u eta q2 (p2 * z2) -> near u eta q3 (p3 * z3) ->
  near u eta sm (q1 + q2) ->
  Rabs (sm + q3 - triple x1 x2 x3 y1 y2 y3 z1 z2 z3)
  <= nrm x1 x2 x3 * nrm y1 y2 y3 * (u * (S3 + 5 / 2 * N3) + 60 * (u * u))
     + u / 2 * Rabs (triple x1 x2 x3 y1 y2 y3 z1 z2 z3) + 30 * eta.
Proof.
  intros HX HY NZ Heta H23 H32 H31 H13 H12 H21 Hp1 Hp2 Hp3 Hq1 Hq2 Hq3 Hs.
  assert (X0 : 0 < nrm x1 x2 x3) by (apply sqrt_lt_R0; exact HX).
  assert (Y0 : 0 < nrm y1 y2 y3) by (apply sqrt_lt_R0; exact HY).
  pose proof (nrm_sq x1 x2 x3) as XX. pose proof (nrm_sq y1 y2 y3) as YY.
  remember (nrm x1 x2 x3) as X eqn:EX. remember (nrm y1 y2 y3) as Y eqn:EY. clear EX EY.
  assert (K0 : 0 < / (X * Y)) by (apply Rinv_0_lt_compat, Rmult_lt_0_compat; assumption).
  assert (Kk : X * Y * / (X * Y) = 1) by (field; lra).
  remember (/ (X * Y)) as k eqn:Ek_. 
  pose proof theta_ok as [T0 T1]. pose proof u_small as [U0 _]. pose proof u_tiny as Ut.
  destruct eta_bounds as [Et0 _].
  assert (Ek : eta * k <= / 1000000).
  { apply Rmult_le_reg_r with (X * Y); [apply Rmult_lt_0_compat; assumption|].
    replace (eta * k * (X * Y)) with (eta * (X * Y * k)) by ring. rewrite Kk, Rmult_1_r.
    eapply Rle_trans; [exact Heta|]. right. ring. }
  assert (Ek0 : 0 <= eta * k) by (apply Rmult_le_pos; lra).
  assert (NA : (x1 / X) ^ 2 + (x2 / X) ^ 2 + (x3 / X) ^ 2 <= 1 + theta).
  { replace ((x1 / X) ^ 2 + (x2 / X) ^ 2 + (x3 / X) ^ 2) with (sq3 x1 x2 x3 / (X * X)) by (unfold sq3; field; lra).
    rewrite XX. unfold Rdiv. rewrite Rinv_r by lra. lra. }
  assert (NB : (y1 / Y) ^ 2 + (y2 / Y) ^ 2 + (y3 / Y) ^ 2 <= 1 + theta).
  { replace ((y1 / Y) ^ 2 + (y2 / Y) ^ 2 + (y3 / Y) ^ 2) with (sq3 y1 y2 y3 / (Y * Y)) by (unfold sq3; field; lra).
    rewrite YY. unfold Rdiv. rewrite Rinv_r by lra. lra. }
  assert (Sc : forall v a b, near u eta v (a * b) -> near u (eta * k) (v * k) (a / X * (b / Y))).
  { intros v a b H. replace (a / X * (b / Y)) with (a * b * k) by (rewrite Ek_; field; lra).
    apply near_scale; [lra|assumption]. }
  assert (Sd : forall v a b, near u eta v (a - b) -> near u (eta * k) (v * k) (a * k - b * k)).
  { intros v a b H. replace (a * k - b * k) with ((a - b) * k) by ring. apply near_scale; [lra|assumption]. }
  assert (Sm : forall v a b, near u eta v (a * b) -> near u (eta * k) (v * k) (a * k * b)).
  { intros v a b H. replace (a * k * b) with (a * b * k) by ring. apply near_scale; [lra|assumption]. }
  assert (Sa : near u (eta * k) (sm * k) (q1 * k + q2 * k)).
  { replace (q1 * k + q2 * k) with ((q1 + q2) * k) by ring. apply near_scale; [lra|assumption]. }
  pose proof (triage_real u (eta * k) theta U0 Ut Ek0 Ek T0 T1
    (x1 / X) (x2 / X) (x3 / X) (y1 / Y) (y2 / Y) (y3 / Y) z1 z2 z3 NA NB NZ
    S3 N3 S3_ok N3_ok (proj1 SN_le2) (proj2 SN_le2)
    _ _ _ _ _ _ _ _ _ _ _ _ _
    (Sc _ _ _ H23) (Sc _ _ _ H32) (Sc _ _ _ H31) (Sc _ _ _ H13) (Sc _ _ _ H12) (Sc _ _ _ H21)
    (Sd _ _ _ Hp1) (Sd _ _ _ Hp2) (Sd _ _ _ Hp3) (Sm _ _ _ Hq1) (Sm _ _ _ Hq2) (Sm _ _ _ Hq3) Sa) as H.
  unfold T, det, P1, P2, P3 in H.
  set (D := triple x1 x2 x3 y1 y2 y3 z1 z2 z3).
  assert (ED : (x2 / X * (y3 / Y) - x3 / X * (y2 / Y)) * z1 + (x3 / X * (y1 / Y) - x1 / X * (y3 / Y)) * z2 +
               (x1 / X * (y2 / Y) - x2 / X * (y1 / Y)) * z3 = D * k) by (unfold D, triple; rewrite Ek_; field; lra).
  rewrite ED in H.
  replace (sm * k + q3 * k - D * k) with ((sm + q3 - D) * k) in H by ring.
  rewrite !Rabs_mult, (Rabs_pos_eq k (Rlt_le _ _ K0)) in H.
  (* multiply by X*Y *)
  apply Rmult_le_reg_r with k; [exact K0|].
  eapply Rle_trans; [exact H|].
  replace ((X * Y * (u * (S3 + 5 / 2 * N3) + 60 * (u * u)) + u / 2 * Rabs D + 30 * eta) * k)
    with ((X * Y * k) * (u * (S3 + 5 / 2 * N3) + 60 * (u * u)) + u / 2 * (Rabs D * k) + 30 * (eta * k)) by ring.
  rewrite Kk. lra.
Qed.

(** * Lower bound for the float  maxErr = fl(M * fl(sqrt(fl(n1 * n2))))  that passed the guard *)
Lemma eta_val : eta = u * / 2 ^ 1022.
Proof.
  unfold eta, u. replace (-1075)%Z with (-53 + -1022)%Z by lia. rewrite bpow_plus. f_equal.
  change (-1022)%Z with (- (1022))%Z. rewrite (bpow_opp radix2 1022). f_equal.
  rewrite <- (IZR_Zpower radix2 1022) by lia. rewrite pow_IZR. reflexivity.
Qed.

Lemma sqrt_ge_of_sq a b : 0 <= a -> a * a <= b -> a <= sqrt b.
Proof.
  intros Ha H. rewrite <- (sqrt_Rsqr a Ha). apply sqrt_le_1_alt. exact H.
Qed.

Lemma maxerr_lower X2 Y2 n1 n2 pr sq E M Mmin :
  0 <= X2 <= 50 -> 0 <= Y2 <= 50 -> 0 <= n1 -> 0 <= n2 -> 0 <= pr -> 0 <= sq ->
  Rabs (n1 - X2) <= X2 * (4 * u) + 9 * eta ->
  Rabs (n2 - Y2) <= Y2 * (4 * u) + 9 * eta ->
  Rabs (pr - n1 * n2) <= u * (n1 * n2) + eta ->
  Rabs (sq - sqrt pr) <= u * sqrt pr + eta ->
  Rabs (E - M * sq) <= u * (M * sq) + eta ->
  847275 / 2 ^ 17 * u <= M <= 1 -> M <= 2 ^ 501 * Mmin -> Mmin <= E ->
  / 2 ^ 504 <= sqrt (X2 * Y2) /\ 57 / 10 * u * sqrt (X2 * Y2) + 31 * eta <= E.
Proof.
  intros HX HY N1 N2 PR SQ Hn1 Hn2 Hpr Hsq HE HM HMm HEm.
  rewrite eta_val, u_val in *.
  apply Rabs_le_inv in Hn1, Hn2, Hpr, Hsq, HE.
  set (s := sqrt pr) in *. assert (S0 : 0 <= s) by apply sqrt_pos.
  assert (Ss : s * s = pr) by (apply sqrt_sqrt; exact PR).
  assert (M0 : 0 < M) by lra.
  (* S1: sq >= 2^-502 *)
  set (Q := M * sq) in *.
  assert (Q1 : M * (/ 2 ^ 501 - / 2 ^ 1021) <= Q * (1 + / 9007199254740992)).
  { assert (M * / 2 ^ 501 <= Mmin) by lra. lra. }
  assert (S1 : / 2 ^ 502 <= sq).
  { apply Rmult_le_reg_l with M; [exact M0|]. fold Q.
    assert (M * / 2 ^ 502 <= M * ((/ 2 ^ 501 - / 2 ^ 1021) * / (1 + / 9007199254740992)))
      by (apply Rmult_le_compat_l; lra).
    assert (M * ((/ 2 ^ 501 - / 2 ^ 1021) * / (1 + / 9007199254740992)) <= Q).
    { apply Rmult_le_reg_r with (1 + / 9007199254740992); [lra|].
      replace (M * ((/ 2 ^ 501 - / 2 ^ 1021) * / (1 + / 9007199254740992)) * (1 + / 9007199254740992))
        with (M * (/ 2 ^ 501 - / 2 ^ 1021)) by (field; lra). exact Q1. }
    lra. }
  (* S2, S3: sqrt pr >= 2^-503, pr >= 2^-1006 *)
  assert (S2 : / 2 ^ 503 <= s) by lra.
  assert (S3 : / 2 ^ 1006 <= pr).
  { rewrite <- Ss. replace (/ 2 ^ 1006) with (/ 2 ^ 503 * / 2 ^ 503) by lra. apply Rmult_le_compat; lra. }
  (* S4: n1 n2 >= 2^-1007 *)
  set (P := n1 * n2) in *. assert (P0 : 0 <= P) by (apply Rmult_le_pos; assumption).
  assert (S4 : / 2 ^ 1007 <= P) by lra.
  (* S5, S6: each norm is at least 2^-1013 *)
  assert (n1u : n1 <= 51) by lra. assert (n2u : n2 <= 51) by lra.
  assert (S5a : / 2 ^ 1013 <= n1).
  { assert (P <= n1 * 51) by (apply Rmult_le_compat_l; lra). lra. }
  assert (S5b : / 2 ^ 1013 <= n2).
  { assert (P <= 51 * n2) by (apply Rmult_le_compat_r; lra). lra. }
  assert (S6a : / 2 ^ 1014 <= X2) by lra. assert (S6b : / 2 ^ 1014 <= Y2) by lra.
  (* S7: relative bounds on the norms *)
  assert (S7a : X2 * (1 - 5 * / 9007199254740992) <= n1 <= X2 * (1 + 5 * / 9007199254740992)) by lra.
  assert (S7b : Y2 * (1 - 5 * / 9007199254740992) <= n2 <= Y2 * (1 + 5 * / 9007199254740992)) by lra.
  set (W := X2 * Y2) in *. assert (W0 : 0 <= W) by (apply Rmult_le_pos; lra).
  assert (S8 : W * (1 - 10 * / 9007199254740992) <= P <= W * (1 + 11 * / 9007199254740992)).
  { split.
    - assert ((X2 * (1 - 5 * / 9007199254740992)) * (Y2 * (1 - 5 * / 9007199254740992)) <= P)
        by (apply Rmult_le_compat; try lra; apply Rmult_le_pos; lra).
      replace ((X2 * (1 - 5 * / 9007199254740992)) * (Y2 * (1 - 5 * / 9007199254740992)))
        with (W * ((1 - 5 * / 9007199254740992) * (1 - 5 * / 9007199254740992))) in H by (unfold W; ring).
      lra.
    - assert (P <= (X2 * (1 + 5 * / 9007199254740992)) * (Y2 * (1 + 5 * / 9007199254740992)))
        by (apply Rmult_le_compat; lra).
      replace ((X2 * (1 + 5 * / 9007199254740992)) * (Y2 * (1 + 5 * / 9007199254740992)))
        with (W * ((1 + 5 * / 9007199254740992) * (1 + 5 * / 9007199254740992))) in H by (unfold W; ring).
      lra. }
  assert (Wl : / 2 ^ 1008 <= W) by lra.
  assert (S9 : W * (1 - 12 * / 9007199254740992) <= pr) by lra.
  (* S10: square roots *)
  set (R := sqrt W). assert (R0 : 0 <= R) by apply sqrt_pos.
  assert (RR : R * R = W) by (apply sqrt_sqrt; exact W0).
  assert (Rl : / 2 ^ 504 <= R).
  { apply sqrt_ge_of_sq; [lra|]. replace (/ 2 ^ 504 * / 2 ^ 504) with (/ 2 ^ 1008) by lra. exact Wl. }
  assert (S10 : R * (1 - 12 * / 9007199254740992) <= s).
  { apply sqrt_ge_of_sq; [apply Rmult_le_pos; lra|].
    replace (R * (1 - 12 * / 9007199254740992) * (R * (1 - 12 * / 9007199254740992)))
      with (W * ((1 - 12 * / 9007199254740992) * (1 - 12 * / 9007199254740992))) by (rewrite <- RR; ring).
    lra. }
  split; [exact Rl|].
  (* S11, S12 *)
  assert (S11 : R * (1 - 14 * / 9007199254740992) <= sq) by lra.
  assert (S12 : 847275 / 2 ^ 17 * / 9007199254740992 * (R * (1 - 14 * / 9007199254740992)) <= Q).
  { unfold Q. apply Rmult_le_compat; try lra; apply Rmult_le_pos; lra. }
  lra.
Qed.

(** * The decision *)
Lemma stable_sign_real R_ Z T Dx D0 E :
  0 <= R_ -> 0 <= Z <= 1 + / 1000000 ->
  Rabs (T - Dx) <= R_ * (u * (S3 + 5 / 2 * N3) + 60 * (u * u)) + u / 2 * Rabs Dx + 30 * eta ->
  Rabs (D0 - Dx) <= (2 * u + u * u) * (R_ * Z) ->
  57 / 10 * u * R_ + 31 * eta <= E ->
  (T < - E -> D0 < 0) /\ (E < T -> 0 < D0).
Proof.
  intros R0 HZ HT HD HE.
  assert (Et : 0 < eta) by (unfold eta; apply bpow_gt_0).
  assert (RZ : R_ * Z <= R_ * (1 + / 1000000)) by (apply Rmult_le_compat_l; lra).
  assert (RZ0 : 0 <= R_ * Z) by (apply Rmult_le_pos; lra).
  unfold S3, N3 in HT. rewrite u_val in *.
  apply Rabs_le_inv in HT, HD.
  split; intros HTE.
  - destruct (Rle_or_lt 0 D0) as [Hp|Hn]; [exfalso|exact Hn].
    destruct (Rle_or_lt 0 Dx) as [Hx|Hx].
    + rewrite (Rabs_pos_eq Dx Hx) in HT. lra.
    + rewrite (Rabs_left Dx Hx) in HT. lra.
  - destruct (Rle_or_lt D0 0) as [Hp|Hn]; [exfalso|exact Hn].
    destruct (Rle_or_lt 0 Dx) as [Hx|Hx].
    + rewrite (Rabs_pos_eq Dx Hx) in HT. lra.
    + rewrite (Rabs_left Dx Hx) in HT. lra.
Qed.
