(** C11 — bit-level facts about the translated leaf functions of s2/cellid.go
    (Gen/CellID.v): on valid cell ids they are plain integer arithmetic on
    c = (2q+1) * 4^s  (s = 30 - level). *)
From Coq Require Import ZArith List Bool Lia ZifyBool.
From Geo Require Import Base.GoPrim Gen.CellID.
Import ListNotations.
Local Open Scope Z_scope.

(** * Generic bit lemmas *)
Lemma land_double a b : Z.land (2 * a) (2 * b) = 2 * Z.land a b.
Proof.
  apply Z.bits_inj'; intros i Hi.
  destruct (Z.eq_dec i 0) as [->|Hn].
  - rewrite Z.land_spec, !Z.testbit_even_0; reflexivity.
  - replace i with (Z.succ (i - 1)) by lia.
    rewrite Z.land_spec, !Z.testbit_even_succ, Z.land_spec by lia. reflexivity.
Qed.

Lemma land_odd_odd a b : Z.land (2 * a + 1) (2 * b + 1) = 2 * Z.land a b + 1.
Proof.
  apply Z.bits_inj'; intros i Hi.
  destruct (Z.eq_dec i 0) as [->|Hn].
  - rewrite Z.land_spec, !Z.testbit_odd_0; reflexivity.
  - replace i with (Z.succ (i - 1)) by lia.
    rewrite Z.land_spec, !Z.testbit_odd_succ, Z.land_spec by lia. reflexivity.
Qed.

Lemma land_opp_odd k : Z.land (2 * k + 1) (- (2 * k + 1)) = 1.
Proof.
  replace (- (2 * k + 1)) with (2 * Z.lnot k + 1) by (unfold Z.lnot; lia).
  rewrite land_odd_odd, Z.land_lnot_diag. reflexivity.
Qed.

Lemma land_opp_shift (j : nat) k :
  Z.land ((2 * k + 1) * 2 ^ Z.of_nat j) (- ((2 * k + 1) * 2 ^ Z.of_nat j)) = 2 ^ Z.of_nat j.
Proof.
  induction j as [|j IH].
  - cbn [Z.of_nat]. rewrite Z.pow_0_r, Z.mul_1_r. apply land_opp_odd.
  - rewrite Nat2Z.inj_succ, Z.pow_succ_r by lia.
    replace ((2 * k + 1) * (2 * 2 ^ Z.of_nat j)) with (2 * ((2 * k + 1) * 2 ^ Z.of_nat j)) by ring.
    replace (- (2 * ((2 * k + 1) * 2 ^ Z.of_nat j))) with (2 * (- ((2 * k + 1) * 2 ^ Z.of_nat j))) by ring.
    rewrite land_double, IH. reflexivity.
Qed.

Lemma land_wrap_r c m : 0 <= c < 2 ^ 64 -> Z.land c (wrap_u64 m) = Z.land c m.
Proof.
  intros Hc. unfold wrap_u64, wrap_u.
  rewrite <- (Z.land_ones m 64) by lia.
  rewrite (Z.land_comm m), Z.land_assoc, (Z.land_ones c 64), Z.mod_small by lia. reflexivity.
Qed.

Lemma wrap_small c : 0 <= c < 2 ^ 64 -> wrap_u64 c = c.
Proof. intros. unfold wrap_u64, wrap_u. apply Z.mod_small; lia. Qed.

(** every positive number has a lowest set bit *)
Lemma ctz_exists (n : nat) : forall c, 0 < c < 2 ^ Z.of_nat n ->
  exists j k, 0 <= j < Z.of_nat n /\ c = (2 * k + 1) * 2 ^ j /\ 0 <= k.
Proof.
  induction n as [|n IH]; intros c Hc.
  - cbn in Hc. lia.
  - rewrite Nat2Z.inj_succ, Z.pow_succ_r in Hc by lia.
    destruct (Z.eq_dec (c mod 2) 1) as [Hodd|Heven].
    + exists 0, (c / 2). rewrite Z.pow_0_r. pose proof (Z.div_mod c 2). lia.
    + assert (Hc2 : c = 2 * (c / 2)) by (pose proof (Z.div_mod c 2); pose proof (Z.mod_pos_bound c 2); lia).
      destruct (IH (c / 2)) as (j & k & Hj & Hk & Hk0); [lia|].
      exists (j + 1), k. rewrite Z.pow_add_r, Z.pow_1_r by lia. split; [lia|]. split; [|lia].
      rewrite Hc2 at 1. rewrite Hk. ring.
Qed.

Lemma forall_below_64 (P : Z -> bool) :
  forallb P (map Z.of_nat (seq 0 64)) = true -> forall j, 0 <= j < 64 -> P j = true.
Proof.
  intros H j Hj. rewrite forallb_forall in H. apply H.
  apply in_map_iff. exists (Z.to_nat j). split; [lia|]. apply in_seq. lia.
Qed.

(** * lsb *)
Lemma lsb_raw c : 0 <= c < 2 ^ 64 -> s2_CellID_lsb c = Z.land c (- c).
Proof.
  intros Hc. unfold s2_CellID_lsb. rewrite (wrap_small c Hc). apply land_wrap_r; exact Hc.
Qed.

Lemma lsb_shape c j k : 0 <= c < 2 ^ 64 -> 0 <= j -> c = (2 * k + 1) * 2 ^ j -> s2_CellID_lsb c = 2 ^ j.
Proof.
  intros Hc Hj ->. rewrite lsb_raw by exact Hc.
  rewrite <- (Z2Nat.id j Hj). apply land_opp_shift.
Qed.

Lemma lsb_zero : s2_CellID_lsb 0 = 0.
Proof. reflexivity. Qed.

(** * Valid ids: c = (2q+1) * 4^s below 6 * 2^61 *)
Definition u64 (c : Z) : Prop := 0 <= c < 2 ^ 64.
Definition valid (c : Z) : Prop := u64 c /\ s2_CellID_IsValid c = true.
(** [cellform c s]: c is the id of a cell whose lsb is 4^s (level 30 - s) *)
Definition cellform (c s : Z) : Prop :=
  0 <= s <= 30 /\ c mod (2 * 4 ^ s) = 4 ^ s /\ 0 <= c < 6 * 2 ^ 61.

Lemma pow4 s : 0 <= s -> 4 ^ s = 2 ^ (2 * s).
Proof. intros. rewrite Z.pow_mul_r by lia. reflexivity. Qed.

Lemma pow4_pos s : 0 <= s -> 0 < 4 ^ s.
Proof. intros. apply Z.pow_pos_nonneg; lia. Qed.

Lemma pow4_le s t : 0 <= s <= t -> 4 ^ s <= 4 ^ t.
Proof. intros. apply Z.pow_le_mono_r; lia. Qed.

Lemma pow4_succ s : 0 <= s -> 4 ^ (s + 1) = 4 * 4 ^ s.
Proof. intros. rewrite Z.pow_add_r by lia. lia. Qed.

Lemma pow4_30 : 4 ^ 30 = 2 ^ 60.
Proof. reflexivity. Qed.

Lemma cellform_u64 c s : cellform c s -> u64 c.
Proof. intros (_ & _ & H). unfold u64. change (2 ^ 64) with (8 * 2 ^ 61). lia. Qed.

Lemma cellform_split c s : cellform c s -> c = (2 * (c / (2 * 4 ^ s)) + 1) * 4 ^ s /\ 0 <= c / (2 * 4 ^ s).
Proof.
  intros (Hs & Hm & Hc). pose proof (pow4_pos s ltac:(lia)).
  pose proof (Z.div_mod c (2 * 4 ^ s) ltac:(lia)).
  split; [lia|]. apply Z.div_pos; lia.
Qed.

Lemma cellform_lsb c s : cellform c s -> s2_CellID_lsb c = 4 ^ s.
Proof.
  intros H. pose proof (cellform_u64 _ _ H) as Hu. destruct (cellform_split _ _ H) as [Hc _].
  destruct H as (Hs & _). rewrite pow4 in * by lia.
  eapply lsb_shape; [exact Hu | lia | exact Hc].
Qed.

Lemma face_raw c : u64 c -> s2_CellID_Face c = c / 2 ^ 61.
Proof.
  intros Hc. unfold s2_CellID_Face, go_shr. cbn [Z.ltb Z.compare]. rewrite wrap_small by exact Hc.
  rewrite Z.shiftr_div_pow2 by lia. unfold wrap_i64, wrap_i, u64 in *.
  assert (0 <= c / 2 ^ 61 < 8) by (split; [apply Z.div_pos; lia | apply Z.div_lt_upper_bound; lia]).
  rewrite Z.mod_small by lia. destruct (c / 2 ^ 61 <? 2 ^ (64 - 1)) eqn:E; lia.
Qed.

Lemma lsbmask_even :
  forall j, 0 <= j < 64 -> Z.land (2 ^ j) 1537228672809129301 <> 0 -> j mod 2 = 0 /\ j <= 60.
Proof.
  intros j Hj.
  pose (P := fun j => implb (negb (Z.land (2 ^ j) 1537228672809129301 =? 0)) ((j mod 2 =? 0) && (j <=? 60))).
  assert (HP : P j = true) by (apply forall_below_64; [vm_compute; reflexivity | exact Hj]).
  unfold P in HP. intros Hne. destruct (Z.land (2 ^ j) 1537228672809129301 =? 0) eqn:E; [lia|].
  cbn in HP. lia.
Qed.

Lemma lsbmask_even_conv :
  forall s, 0 <= s <= 30 -> Z.land (4 ^ s) 1537228672809129301 <> 0.
Proof.
  intros s Hs.
  pose (P := fun s => (30 <? s) || negb (Z.land (4 ^ s) 1537228672809129301 =? 0)).
  assert (HP : P s = true) by (apply forall_below_64; [vm_compute; reflexivity | lia]).
  unfold P in HP. lia.
Qed.

Theorem valid_cellform c : valid c -> exists s, cellform c s.
Proof.
  intros [Hu Hv]. unfold s2_CellID_IsValid in Hv. apply andb_prop in Hv. destruct Hv as [Hf Hm].
  rewrite face_raw in Hf by exact Hu.
  destruct (Z.eq_dec c 0) as [->|Hnz]; [rewrite lsb_zero in Hm; cbn in Hm; discriminate|].
  destruct (ctz_exists 64 c) as (j & k & Hj & Hc & Hk); [unfold u64 in Hu; cbn; lia|].
  rewrite (lsb_shape c j k Hu ltac:(lia) Hc) in Hm.
  destruct (lsbmask_even j ltac:(cbn in Hj; lia)) as [Hev Hle]; [lia|].
  exists (j / 2). unfold cellform.
  assert (Hj2 : j = 2 * (j / 2)) by (pose proof (Z.div_mod j 2); lia).
  rewrite pow4 by lia. rewrite <- Hj2.
  assert (0 < 2 ^ j) by (apply Z.pow_pos_nonneg; lia).
  split; [lia|]. split.
  - rewrite Hc. replace ((2 * k + 1) * 2 ^ j) with (2 ^ j + k * (2 * 2 ^ j)) by ring.
    rewrite Z.mod_add by lia. apply Z.mod_small. lia.
  - unfold u64 in Hu. split; [lia|].
    assert (c / 2 ^ 61 < 6) by lia.
    pose proof (Z.div_mod c (2 ^ 61) ltac:(lia)). pose proof (Z.mod_pos_bound c (2 ^ 61) ltac:(lia)). lia.
Qed.

Theorem cellform_valid c s : cellform c s -> valid c.
Proof.
  intros H. pose proof (cellform_u64 _ _ H) as Hu. split; [exact Hu|].
  unfold s2_CellID_IsValid. rewrite (cellform_lsb _ _ H), face_raw by exact Hu.
  destruct H as (Hs & Hm & Hc).
  apply andb_true_intro. split.
  - assert (c / 2 ^ 61 < 6) by (apply Z.div_lt_upper_bound; lia). lia.
  - pose proof (lsbmask_even_conv s Hs). lia.
Qed.

(** the exponent is unique *)
Lemma cellform_inj c s t : cellform c s -> cellform c t -> s = t.
Proof.
  intros Hs Ht. pose proof (cellform_lsb _ _ Hs) as E1. pose proof (cellform_lsb _ _ Ht) as E2.
  rewrite E1 in E2. destruct Hs as (Hs & _), Ht as (Ht & _).
  apply (Z.pow_inj_r 4); lia.
Qed.

(** * RangeMin / RangeMax / Contains / Intersects *)
Lemma pow4_bound s : 0 <= s <= 30 -> 1 <= 4 ^ s <= 2 ^ 60.
Proof. intros. pose proof (pow4_le s 30 ltac:(lia)). pose proof (pow4_pos s ltac:(lia)). rewrite pow4_30 in *. lia. Qed.

Lemma cellform_bounds c s : cellform c s -> 4 ^ s <= c /\ c + 4 ^ s <= 6 * 2 ^ 61.
Proof.
  intros H. destruct (cellform_split _ _ H) as [Hc Hq]. destruct H as (Hs & Hm & Hb).
  pose proof (pow4_bound s Hs).
  set (q := c / (2 * 4 ^ s)) in *. set (w := 4 ^ s) in *.
  assert (0 <= q * w) by (apply Z.mul_nonneg_nonneg; lia).
  split; [lia|].
  (* c + 4^s = (2q+2) 4^s is a multiple of 2*4^s, and 6*2^61 is one too *)
  assert (E : 6 * 2 ^ 61 = (6 * 4 ^ (30 - s)) * (2 * w)).
  { replace (2 ^ 61) with (2 * 4 ^ 30) by reflexivity. unfold w.
    replace 30 with ((30 - s) + s) at 1 by lia. rewrite Z.pow_add_r by lia. ring. }
  set (t := 6 * 4 ^ (30 - s)) in *.
  assert (q < t).
  { destruct (Z_lt_le_dec q t); [assumption|]. assert (t * w <= q * w) by (apply Z.mul_le_mono_nonneg_r; lia). lia. }
  assert ((q + 1) * w <= t * w) by (apply Z.mul_le_mono_nonneg_r; lia). lia.
Qed.

Lemma rangemin_form c s : cellform c s -> s2_CellID_RangeMin c = c - 4 ^ s + 1.
Proof.
  intros H. unfold s2_CellID_RangeMin. rewrite (cellform_lsb _ _ H).
  pose proof (cellform_bounds _ _ H). destruct H as (Hs & _ & Hb). pose proof (pow4_bound s Hs).
  rewrite (wrap_small c) by (unfold u64; lia).
  rewrite (wrap_small (4 ^ s - 1)) by lia.
  rewrite !(wrap_small (c - (4 ^ s - 1))) by lia. lia.
Qed.

Lemma rangemax_form c s : cellform c s -> s2_CellID_RangeMax c = c + 4 ^ s - 1.
Proof.
  intros H. unfold s2_CellID_RangeMax. rewrite (cellform_lsb _ _ H).
  pose proof (cellform_bounds _ _ H). destruct H as (Hs & _ & Hb). pose proof (pow4_bound s Hs).
  rewrite (wrap_small c) by lia.
  rewrite (wrap_small (4 ^ s - 1)) by lia.
  rewrite !(wrap_small (c + (4 ^ s - 1))) by lia. lia.
Qed.

Lemma range_u64 c s : cellform c s -> 0 < s2_CellID_RangeMin c <= c /\ c <= s2_CellID_RangeMax c < 2 ^ 64.
Proof.
  intros H. rewrite (rangemin_form _ _ H), (rangemax_form _ _ H).
  pose proof (cellform_bounds _ _ H). destruct H as (Hs & _ & Hb). pose proof (pow4_bound s Hs). lia.
Qed.

Lemma contains_form c s o : cellform c s -> u64 o ->
  s2_CellID_Contains c o = (s2_CellID_RangeMin c <=? o) && (o <=? s2_CellID_RangeMax c).
Proof.
  intros H Ho. unfold s2_CellID_Contains. pose proof (range_u64 _ _ H).
  rewrite !wrap_small by (unfold u64 in *; lia). reflexivity.
Qed.

(** * isFace *)
Lemma isface_form c s : cellform c s -> s2_CellID_isFace c = (s =? 30).
Proof.
  intros H. pose proof (cellform_u64 _ _ H) as Hu.
  destruct (cellform_split _ _ H) as [Hc Hq]. destruct H as (Hs & Hm & Hb).
  unfold s2_CellID_isFace. rewrite wrap_small by exact Hu.
  change (wrap_u64 (s2_lsbForLevel 0 - 1)) with (Z.ones 60).
  rewrite Z.land_ones by lia. change (2 ^ 60) with (4 ^ 30).
  pose proof (pow4_bound s Hs).
  destruct (Z.eq_dec s 30) as [->|Hne].
  - replace (c mod 4 ^ 30) with 0; [reflexivity|].
    symmetry. rewrite Hc. apply Z.mod_mul. lia.
  - assert (E : 4 ^ 30 = 4 ^ (30 - s - 1) * 2 * (2 * 4 ^ s)).
    { replace 30 with ((30 - s - 1) + 1 + s) at 1 by lia. rewrite !Z.pow_add_r by lia. ring. }
    assert (c mod 4 ^ 30 <> 0).
    { intro Hz. apply Z.mod_divide in Hz; [|lia]. destruct Hz as [z Hz].
      assert (c mod (2 * 4 ^ s) = 0).
      { rewrite Hz, E. replace (z * (4 ^ (30 - s - 1) * 2 * (2 * 4 ^ s))) with ((z * 4 ^ (30 - s - 1) * 2) * (2 * 4 ^ s)) by ring.
        apply Z.mod_mul. lia. }
      lia. }
    lia.
Qed.

(** * immediateParent *)
Lemma lor_1 x : Z.lor x 1 = 2 * (x / 2) + 1.
Proof.
  pose proof (Z.div_mod x 2 ltac:(lia)) as E. pose proof (Z.mod_pos_bound x 2 ltac:(lia)).
  set (h := x / 2) in *. rewrite E.
  apply Z.bits_inj'; intros i Hi. change 1 with (2 * 0 + 1) at 1.
  assert (Hc : x mod 2 = 0 \/ x mod 2 = 1) by lia. destruct Hc as [-> | ->].
  - rewrite Z.add_0_r. destruct (Z.eq_dec i 0) as [->|Hn].
    + rewrite Z.lor_spec, Z.testbit_even_0, !Z.testbit_odd_0. reflexivity.
    + replace i with (Z.succ (i - 1)) by lia.
      rewrite Z.lor_spec, Z.testbit_even_succ, !Z.testbit_odd_succ, Z.testbit_0_l by lia.
      apply orb_false_r.
  - destruct (Z.eq_dec i 0) as [->|Hn].
    + rewrite Z.lor_spec, !Z.testbit_odd_0. reflexivity.
    + replace i with (Z.succ (i - 1)) by lia.
      rewrite Z.lor_spec, !Z.testbit_odd_succ, Z.testbit_0_l by lia.
      apply orb_false_r.
Qed.

Lemma land_opp_pow2 c n : 0 <= n -> Z.land c (- 2 ^ n) = 2 ^ n * (c / 2 ^ n).
Proof.
  intros Hn. replace (- 2 ^ n) with (Z.lnot (Z.ones n)) by (unfold Z.lnot; rewrite Z.ones_equiv; lia).
  rewrite <- Z.ldiff_land, Z.ldiff_ones_r by lia.
  rewrite Z.shiftl_mul_pow2, Z.shiftr_div_pow2 by lia. ring.
Qed.

Lemma parent_raw c s : cellform c s -> s < 30 ->
  s2_CellID_immediateParent c = 2 * 4 ^ (s + 1) * (c / (2 * 4 ^ (s + 1))) + 4 ^ (s + 1).
Proof.
  intros H Hlt. pose proof (cellform_u64 _ _ H) as Hu. unfold s2_CellID_immediateParent.
  rewrite (cellform_lsb _ _ H). destruct H as (Hs & Hm & Hb).
  pose proof (pow4_bound s Hs). pose proof (pow4_bound (s + 1) ltac:(lia)) as Hb1.
  unfold go_shl. cbn [Z.ltb Z.compare]. rewrite Z.shiftl_mul_pow2 by lia.
  replace (4 ^ s * 2 ^ 2) with (4 ^ (s + 1)) by (rewrite pow4_succ; lia).
  rewrite !(wrap_small (4 ^ (s + 1))) by lia.
  rewrite land_wrap_r by exact Hu.
  rewrite (pow4 (s + 1)) by lia. set (n := 2 * (s + 1)).
  rewrite land_opp_pow2 by lia.
  replace (2 ^ n * (c / 2 ^ n)) with (Z.shiftl (c / 2 ^ n) n) by (rewrite Z.shiftl_mul_pow2; lia).
  replace (2 ^ n) with (Z.shiftl 1 n) at 2 by (rewrite Z.shiftl_mul_pow2; lia).
  rewrite <- Z.shiftl_lor, lor_1, Z.shiftl_mul_pow2 by lia.
  assert (0 < 2 ^ n) by (apply Z.pow_pos_nonneg; lia).
  rewrite Z.div_div by lia. rewrite (Z.mul_comm (2 ^ n) 2). ring.
Qed.

Lemma parent_form c s : cellform c s -> s < 30 -> cellform (s2_CellID_immediateParent c) (s + 1).
Proof.
  intros H Hlt. rewrite (parent_raw _ _ H Hlt). destruct H as (Hs & Hm & Hb).
  pose proof (pow4_bound (s + 1) ltac:(lia)) as Hb1. set (N := 4 ^ (s + 1)) in *.
  pose proof (Z.div_mod c (2 * N) ltac:(lia)) as E. pose proof (Z.mod_pos_bound c (2 * N) ltac:(lia)).
  set (k := c / (2 * N)) in *.
  split; [lia|]. split.
  - rewrite Z.add_comm, Z.mul_comm, Z.mod_add by lia. apply Z.mod_small; lia.
  - assert (0 <= k) by (apply Z.div_pos; lia).
    assert (0 <= 2 * N * k) by (apply Z.mul_nonneg_nonneg; lia).
    split; [lia|].
    assert (E6 : 6 * 2 ^ 61 = (6 * 4 ^ (30 - (s + 1))) * (2 * N)).
    { replace (2 ^ 61) with (2 * 4 ^ 30) by reflexivity. unfold N.
      replace 30 with ((30 - (s + 1)) + (s + 1)) at 1 by lia. rewrite Z.pow_add_r by lia. ring. }
    set (t := 6 * 4 ^ (30 - (s + 1))) in *.
    assert (k < t).
    { destruct (Z_lt_le_dec k t); [assumption|].
      assert (t * (2 * N) <= k * (2 * N)) by (apply Z.mul_le_mono_nonneg_r; lia). lia. }
    assert ((k + 1) * (2 * N) <= t * (2 * N)) by (apply Z.mul_le_mono_nonneg_r; lia). lia.
Qed.

(** * areSiblings *)
Lemma sub_land_ldiff a m : a - Z.land a m = Z.ldiff a m.
Proof.
  rewrite Z.sub_nocarry_ldiff.
  - apply Z.bits_inj'; intros i Hi. rewrite !Z.ldiff_spec, Z.land_spec.
    destruct (Z.testbit a i), (Z.testbit m i); reflexivity.
  - apply Z.bits_inj'; intros i Hi. rewrite Z.ldiff_spec, Z.land_spec, Z.bits_0.
    destruct (Z.testbit a i), (Z.testbit m i); reflexivity.
Qed.

Lemma land_shiftl_3 a n : 0 <= n -> Z.land a (3 * 2 ^ n) = ((a / 2 ^ n) mod 4) * 2 ^ n.
Proof.
  intros Hn. rewrite <- (Z.shiftl_mul_pow2 3 n) by lia.
  change 4 with (2 ^ 2). rewrite <- Z.land_ones by lia. change (Z.ones 2) with 3.
  rewrite <- Z.shiftl_mul_pow2, <- Z.shiftr_div_pow2 by lia.
  apply Z.bits_inj'; intros i Hi.
  rewrite Z.land_spec, !Z.shiftl_spec, Z.land_spec by lia.
  destruct (Z_lt_le_dec i n).
  - rewrite (Z.testbit_neg_r 3), (Z.testbit_neg_r (Z.shiftr a n)) by lia. apply andb_false_r.
  - rewrite Z.shiftr_spec by lia. replace (i - n + n) with i by lia. reflexivity.
Qed.

Lemma mask3_spec a n : u64 a -> 0 <= n ->
  Z.land a (wrap_u64 (Z.lnot (3 * 2 ^ n))) = a - ((a / 2 ^ n) mod 4) * 2 ^ n.
Proof.
  intros Ha Hn. rewrite land_wrap_r by exact Ha.
  rewrite <- Z.ldiff_land, <- sub_land_ldiff, land_shiftl_3 by lia. reflexivity.
Qed.

Lemma siblings_unfold a b c d s : cellform d s -> u64 a -> u64 b -> u64 c ->
  s2_areSiblings a b c d =
  (Z.lxor (Z.lxor a b) c =? d) &&
  ((((a - ((a / (2 * 4 ^ s)) mod 4) * (2 * 4 ^ s) =? d - ((d / (2 * 4 ^ s)) mod 4) * (2 * 4 ^ s)) &&
     (b - ((b / (2 * 4 ^ s)) mod 4) * (2 * 4 ^ s) =? d - ((d / (2 * 4 ^ s)) mod 4) * (2 * 4 ^ s))) &&
     (c - ((c / (2 * 4 ^ s)) mod 4) * (2 * 4 ^ s) =? d - ((d / (2 * 4 ^ s)) mod 4) * (2 * 4 ^ s))) &&
     negb (s =? 30)).
Proof.
  intros H Ha Hb Hc. pose proof (cellform_u64 _ _ H) as Hd.
  unfold s2_areSiblings. cbv zeta. rewrite (cellform_lsb _ _ H), (isface_form _ _ H).
  destruct H as (Hs & Hm & Hbd). pose proof (pow4_bound s Hs).
  unfold go_shl. cbn [Z.ltb Z.compare]. rewrite !Z.shiftl_mul_pow2 by lia.
  rewrite (wrap_small (4 ^ s * 2 ^ 1)) by lia.
  rewrite (wrap_small (4 ^ s * 2 ^ 1 * 2 ^ 1)) by lia.
  rewrite (wrap_small (4 ^ s * 2 ^ 1 + 4 ^ s * 2 ^ 1 * 2 ^ 1)) by lia.
  replace (4 ^ s * 2 ^ 1 + 4 ^ s * 2 ^ 1 * 2 ^ 1) with (3 * 2 ^ (2 * s + 1))
    by (rewrite Z.pow_add_r, <- pow4 by lia; lia).
  rewrite (wrap_small a), (wrap_small b), (wrap_small c), (wrap_small d) by assumption.
  rewrite (mask3_spec a), (mask3_spec b), (mask3_spec c), (mask3_spec d) by (assumption || lia).
  replace (2 ^ (2 * s + 1)) with (2 * 4 ^ s) by (rewrite Z.pow_add_r, <- pow4 by lia; lia).
  destruct (Z.lxor (Z.lxor a b) c =? d); reflexivity.
Qed.

Lemma div_lin m q r : 0 <= r < m -> (m * q + r) / m = q.
Proof. intros. symmetry. apply (Z.div_unique_pos _ _ q r); lia. Qed.

(** four distinct sorted ids accepted by areSiblings are the four children of one parent *)
Lemma siblings_true a b c d s : cellform d s -> u64 a -> u64 b -> u64 c ->
  a < b -> b < c -> c < d -> s2_areSiblings a b c d = true ->
  s < 30 /\
  let w := 4 ^ s in let base := 8 * w * (d / (8 * w)) in
  a = base + w /\ b = base + 3 * w /\ c = base + 5 * w /\ d = base + 7 * w.
Proof.
  intros H Ha Hb Hc Hab Hbc Hcd Hsib. rewrite (siblings_unfold _ _ _ _ _ H Ha Hb Hc) in Hsib.
  destruct H as (Hs & Hm & Hbd). pose proof (pow4_bound s Hs) as Hw.
  set (w := 4 ^ s) in *. cbv zeta.
  apply andb_prop in Hsib. destruct Hsib as [_ Hsib].
  apply andb_prop in Hsib. destruct Hsib as [Hsib Hnf].
  apply andb_prop in Hsib. destruct Hsib as [Hsib Ec].
  apply andb_prop in Hsib. destruct Hsib as [Ea Eb].
  split; [lia|].
  pose proof (Z.mod_pos_bound (a / (2 * w)) 4 ltac:(lia)).
  pose proof (Z.mod_pos_bound (b / (2 * w)) 4 ltac:(lia)).
  pose proof (Z.mod_pos_bound (c / (2 * w)) 4 ltac:(lia)).
  pose proof (Z.mod_pos_bound (d / (2 * w)) 4 ltac:(lia)).
  set (xa := (a / (2 * w)) mod 4) in *. set (xb := (b / (2 * w)) mod 4) in *.
  set (xc := (c / (2 * w)) mod 4) in *. set (xd := (d / (2 * w)) mod 4) in *.
  assert (xa < xb) by nia. assert (xb < xc) by nia. assert (xc < xd) by nia.
  assert (xa = 0 /\ xb = 1 /\ xc = 2 /\ xd = 3) as (E0 & E1 & E2 & E3) by lia.
  (* d = q * 2w + w with q mod 4 = 3 *)
  pose proof (Z.div_mod d (2 * w) ltac:(lia)) as Ed. rewrite Hm in Ed.
  set (q := d / (2 * w)) in *.
  pose proof (Z.div_mod q 4 ltac:(lia)) as Eq. fold xd in Eq. rewrite E3 in Eq.
  replace (8 * w) with (2 * w * 4) by ring. rewrite <- Z.div_div by lia. fold q.
  set (k := q / 4) in *.
  rewrite E0 in Ea. rewrite E1 in Eb. rewrite E2 in Ec. rewrite E3 in *.
  nia.
Qed.

Lemma land_pow2_0 a n : 0 <= n -> (a / 2 ^ n) mod 2 = 0 -> Z.land a (2 ^ n) = 0.
Proof.
  intros Hn Hb. apply Z.bits_inj'; intros i Hi.
  rewrite Z.land_spec, Z.pow2_bits_eqb, Z.bits_0 by lia.
  destruct (Z.eqb_spec n i) as [->|Hne]; [|apply andb_false_r].
  destruct (Z.testbit a i) eqn:E; [|reflexivity].
  apply Z.testbit_true in E; lia.
Qed.

Lemma add_pow2_lxor a n : 0 <= n -> (a / 2 ^ n) mod 2 = 0 -> a + 2 ^ n = Z.lxor a (2 ^ n).
Proof. intros. apply Z.add_nocarry_lxor. apply land_pow2_0; assumption. Qed.

(** a block of 8 * 4^s ids aligned to its size, inside the six faces *)
Definition block (base s : Z) : Prop :=
  0 <= s < 30 /\ 0 <= base /\ base mod (8 * 4 ^ s) = 0 /\ base + 8 * 4 ^ s <= 6 * 2 ^ 61.

Lemma block_child base s x : block base s -> 0 <= x < 4 -> cellform (base + (2 * x + 1) * 4 ^ s) s.
Proof.
  intros (Hs & Hb0 & Hbm & Hbt) Hx. pose proof (pow4_bound s ltac:(lia)) as Hw. set (w := 4 ^ s) in *.
  split; [lia|]. split; [|nia].
  apply Z.mod_divide in Hbm; [|lia]. destruct Hbm as [k Hk]. subst base.
  replace (k * (8 * w) + (2 * x + 1) * w) with (w + (4 * k + x) * (2 * w)) by ring.
  rewrite Z.mod_add by lia. apply Z.mod_small; lia.
Qed.

Lemma siblings_children base s : block base s ->
  s2_areSiblings (base + 4 ^ s) (base + 3 * 4 ^ s) (base + 5 * 4 ^ s) (base + 7 * 4 ^ s) = true.
Proof.
  intros B.
  pose proof (block_child base s 0 B ltac:(lia)) as F0. pose proof (block_child base s 1 B ltac:(lia)) as F1.
  pose proof (block_child base s 2 B ltac:(lia)) as F2. pose proof (block_child base s 3 B ltac:(lia)) as F3.
  replace ((2 * 0 + 1) * 4 ^ s) with (4 ^ s) in F0 by ring.
  replace (2 * 1 + 1) with 3 in F1 by ring. replace (2 * 2 + 1) with 5 in F2 by ring. replace (2 * 3 + 1) with 7 in F3 by ring.
  rewrite (siblings_unfold _ _ _ _ _ F3 (cellform_u64 _ _ F0) (cellform_u64 _ _ F1) (cellform_u64 _ _ F2)).
  destruct B as (Hs & Hb0 & Hbm & Hbt). pose proof (pow4_bound s ltac:(lia)) as Hw.
  assert (Hn : 2 * 4 ^ s = 2 ^ (2 * s + 1)) by (rewrite Z.pow_add_r, <- pow4 by lia; lia).
  set (w := 4 ^ s) in *.
  apply Z.mod_divide in Hbm; [|lia]. destruct Hbm as [k Hk]. subst base.
  assert (D0 : (k * (8 * w) + w) / (2 * w) = 4 * k).
  { replace (k * (8 * w) + w) with (2 * w * (4 * k) + w) by ring. apply div_lin; lia. }
  assert (D1 : (k * (8 * w) + 3 * w) / (2 * w) = 4 * k + 1).
  { replace (k * (8 * w) + 3 * w) with (2 * w * (4 * k + 1) + w) by ring. apply div_lin; lia. }
  assert (D2 : (k * (8 * w) + 5 * w) / (2 * w) = 4 * k + 2).
  { replace (k * (8 * w) + 5 * w) with (2 * w * (4 * k + 2) + w) by ring. apply div_lin; lia. }
  assert (D3 : (k * (8 * w) + 7 * w) / (2 * w) = 4 * k + 3).
  { replace (k * (8 * w) + 7 * w) with (2 * w * (4 * k + 3) + w) by ring. apply div_lin; lia. }
  rewrite D0, D1, D2, D3.
  replace ((4 * k) mod 4) with 0 by (symmetry; rewrite Z.mul_comm; apply Z.mod_mul; lia).
  replace ((4 * k + 1) mod 4) with 1 by (symmetry; rewrite Z.add_comm, Z.mul_comm, Z.mod_add by lia; reflexivity).
  replace ((4 * k + 2) mod 4) with 2 by (symmetry; rewrite Z.add_comm, Z.mul_comm, Z.mod_add by lia; reflexivity).
  replace ((4 * k + 3) mod 4) with 3 by (symmetry; rewrite Z.add_comm, Z.mul_comm, Z.mod_add by lia; reflexivity).
  assert (X : Z.lxor (Z.lxor (k * (8 * w) + w) (k * (8 * w) + 3 * w)) (k * (8 * w) + 5 * w) = k * (8 * w) + 7 * w).
  { replace (k * (8 * w) + 3 * w) with ((k * (8 * w) + w) + 2 * w) by ring.
    replace (k * (8 * w) + 7 * w) with ((k * (8 * w) + 5 * w) + 2 * w) by ring.
    rewrite Hn. rewrite (add_pow2_lxor (k * (8 * w) + w)), (add_pow2_lxor (k * (8 * w) + 5 * w)).
    - rewrite <- Z.lxor_assoc, Z.lxor_nilpotent, Z.lxor_0_l. apply Z.lxor_comm.
    - lia.
    - rewrite <- Hn, D2. replace (4 * k + 2) with (0 + (2 * k + 1) * 2) by ring. rewrite Z.mod_add by lia. reflexivity.
    - lia.
    - rewrite <- Hn, D0. replace (4 * k) with ((2 * k) * 2) by ring. apply Z.mod_mul. lia. }
  rewrite X. assert (s =? 30 = false) by lia. rewrite H.
  repeat (apply andb_true_intro; split); lia.
Qed.

(** * Children, Next *)
Lemma children_raw c : s2_CellID_Children c =
  let l := wrap_u64 (s2_CellID_lsb c) in
  let c0 := wrap_u64 (wrap_u64 (c - l) + go_shr l 2) in
  let h := go_shr l 1 in
  [c0; wrap_u64 (c0 + h); wrap_u64 (wrap_u64 (c0 + h) + h); wrap_u64 (wrap_u64 (wrap_u64 (c0 + h) + h) + h)].
Proof. reflexivity. Qed.

Lemma children_form c s : cellform c s -> 0 < s ->
  s2_CellID_Children c =
    [c - 4 ^ s + 4 ^ (s - 1); c - 4 ^ s + 3 * 4 ^ (s - 1); c - 4 ^ s + 5 * 4 ^ (s - 1); c - 4 ^ s + 7 * 4 ^ (s - 1)].
Proof.
  intros H Hpos. pose proof (cellform_u64 _ _ H) as Hu. pose proof (cellform_bounds _ _ H) as Hcb.
  rewrite children_raw. cbv zeta. rewrite (cellform_lsb _ _ H).
  destruct H as (Hs & Hm & Hb). pose proof (pow4_bound (s - 1) ltac:(lia)) as Hw.
  replace (4 ^ s) with (4 * 4 ^ (s - 1)) in * by (rewrite <- pow4_succ by lia; f_equal; lia).
  set (w := 4 ^ (s - 1)) in *.
  rewrite (wrap_small (4 * w)) by lia.
  unfold go_shr. cbn [Z.ltb Z.compare]. rewrite !Z.shiftr_div_pow2 by lia.
  replace (4 * w / 2 ^ 2) with w by (change (2 ^ 2) with 4; rewrite Z.mul_comm, Z.div_mul; lia).
  replace (4 * w / 2 ^ 1) with (2 * w) by (change (2 ^ 1) with 2; replace (4 * w) with (2 * w * 2) by ring; rewrite Z.div_mul; lia).
  unfold u64 in Hu.
  rewrite (wrap_small (c - 4 * w)) by lia.
  rewrite (wrap_small (c - 4 * w + w)) by lia.
  rewrite (wrap_small (c - 4 * w + w + 2 * w)) by lia.
  rewrite (wrap_small (c - 4 * w + w + 2 * w + 2 * w)) by lia.
  rewrite (wrap_small (c - 4 * w + w + 2 * w + 2 * w + 2 * w)) by lia.
  repeat (apply f_equal2; [ring|]). reflexivity.
Qed.

Lemma next_form c s : cellform c s -> s2_CellID_Next c = c + 2 * 4 ^ s.
Proof.
  intros H. pose proof (cellform_u64 _ _ H) as Hu. pose proof (cellform_bounds _ _ H) as Hcb.
  unfold s2_CellID_Next. rewrite (cellform_lsb _ _ H). destruct H as (Hs & Hm & Hb).
  pose proof (pow4_bound s Hs) as Hw. unfold go_shl. cbn [Z.ltb Z.compare].
  rewrite Z.shiftl_mul_pow2 by lia. change (2 ^ 1) with 2. unfold u64 in Hu.
  rewrite (wrap_small c), (wrap_small (4 ^ s * 2)) by lia.
  rewrite !(wrap_small (c + 4 ^ s * 2)) by lia. ring.
Qed.
