(** C08 — the CellID arithmetic of the model (the cid functions) on valid cell ids, in the terms of
    Proofs/C05_CellFacts.v ([valid_at c L]: c is a cell id of level L), and the iterator
    over a well-formed index (cells sorted, pairwise disjoint, valid ids). *)
From Coq Require Import ZArith List Bool Lia Sorted.
From Geo Require Import Model.EdgeQuery Proofs.C05_CellFacts.
From Geo Require Proofs.C11_Bits.
Import ListNotations.
Local Open Scope Z_scope.

Lemma lsbL_pow2' L : 0 <= L <= 30 -> lsbL L = 2 ^ Z.of_nat (Z.to_nat (2 * (30 - L))).
Proof. intros H. rewrite Z2Nat.id by lia. apply lsbL_pow2. exact H. Qed.

Lemma valid_at_odd_mult c L : valid_at c L -> exists k, 0 <= k /\ c = (2 * k + 1) * lsbL L.
Proof.
  intros (HL & Hc & Hm). pose proof (lsbL_pos L HL) as P.
  exists (c / (2 * lsbL L)). split; [apply Z.div_pos; lia|].
  pose proof (Z.div_mod c (2 * lsbL L)) as E. rewrite Hm in E. lia.
Qed.

Lemma cid_lsb_valid c L : valid_at c L -> cid_lsb c = lsbL L.
Proof.
  intros H. destruct (valid_at_odd_mult c L H) as (k & _ & ->). destruct H as (HL & _).
  unfold cid_lsb. rewrite (lsbL_pow2' L HL). apply C11_Bits.land_opp_shift.
Qed.

Lemma cid_range_min_valid c L : valid_at c L -> cid_range_min c = c - lsbL L + 1.
Proof. intros H. unfold cid_range_min. rewrite (cid_lsb_valid c L H). lia. Qed.
Lemma cid_range_max_valid c L : valid_at c L -> cid_range_max c = c + lsbL L - 1.
Proof. intros H. unfold cid_range_max. rewrite (cid_lsb_valid c L H). lia. Qed.

Lemma cid_children_valid c L : valid_at c L -> L < 30 ->
  cid_children c = [child c L 0; child c L 1; child c L 2; child c L 3].
Proof.
  intros H HL. unfold cid_children. rewrite (cid_lsb_valid c L H).
  destruct H as (HL0 & _). rewrite (lsbL_step L) by lia.
  pose proof (lsbL_pos (L + 1)) as P.
  rewrite !Z.shiftr_div_pow2 by lia.
  replace (4 * lsbL (L + 1) / 2 ^ 2) with (lsbL (L + 1)) by (change (2 ^ 2) with 4; rewrite Z.mul_comm, Z.div_mul; lia).
  replace (4 * lsbL (L + 1) / 2 ^ 1) with (2 * lsbL (L + 1))
    by (change (2 ^ 1) with 2; replace (4 * lsbL (L + 1)) with (2 * lsbL (L + 1) * 2) by lia; rewrite Z.div_mul; lia).
  assert (L4 : forall a b c d a' b' c' d' : Z, a = a' -> b = b' -> c = c' -> d = d' -> [a; b; c; d] = [a'; b'; c'; d'])
    by (intros; subst; reflexivity).
  unfold child. apply L4; lia.
Qed.

Lemma valid_lt_sentinel c L : valid_at c L -> c < cid_sentinel.
Proof. intros (_ & H & _). unfold cid_sentinel. pose proof pow_facts. lia. Qed.

Lemma lsbL_1_30 L : 0 <= L <= 30 -> lsbL L = 1 -> L = 30.
Proof.
  intros H E. destruct (Z.eq_dec L 30) as [|N]; [assumption|].
  rewrite (lsbL_step L) in E by lia. pose proof (lsbL_pos (L + 1)). lia.
Qed.

(** a valid cell strictly inside another lies in exactly one of its children *)
Lemma in_some_child q Lq d Ld : valid_at q Lq -> valid_at d Ld ->
  q - lsbL Lq + 1 <= d <= q + lsbL Lq - 1 -> d <> q ->
  Lq < 30 /\ exists i, 0 <= i <= 3 /\
    child q Lq i - lsbL (Lq + 1) + 1 <= d - lsbL Ld + 1 /\ d + lsbL Ld - 1 <= child q Lq i + lsbL (Lq + 1) - 1.
Proof.
  intros Hq Hd Hin Hne.
  destruct (id_in_range_nested q Lq d Ld Hq Hd Hin) as (HL & N1 & N2).
  assert (HLd : 0 <= Ld <= 30) by apply Hd. assert (HLq : 0 <= Lq <= 30) by apply Hq.
  pose proof (lsbL_pos Lq HLq) as Pq. pose proof (lsbL_pos Ld HLd) as Pd.
  assert (Lt : Lq < Ld).
  { destruct (Z.eq_dec Lq Ld) as [E|]; [|lia]. subst Ld. exfalso. apply Hne. lia. }
  split; [lia|].
  pose proof (lsbL_step Lq ltac:(lia)) as St. pose proof (lsbL_pos (Lq + 1) ltac:(lia)) as Pu.
  set (u := lsbL (Lq + 1)) in *.
  assert (Ch : forall i, 0 <= i <= 3 -> valid_at (child q Lq i) (Lq + 1)) by (intros; apply child_valid; auto; lia).
  assert (Lam : forall i, 0 <= i <= 3 ->
            d + lsbL Ld - 1 < child q Lq i - u + 1 \/ child q Lq i + u - 1 < d - lsbL Ld + 1 \/
            (child q Lq i - u + 1 <= d - lsbL Ld + 1 /\ d + lsbL Ld - 1 <= child q Lq i + u - 1)).
  { intros i Hi. apply (laminar_aux d Ld (child q Lq i) (Lq + 1) Hd (Ch i Hi)). lia. }
  unfold child in *. fold u in Lam |- *.
  destruct (Lam 0 ltac:(lia)) as [A0|[A0|A0]]; [| |exists 0; lia];
  destruct (Lam 1 ltac:(lia)) as [A1|[A1|A1]]; try (exists 1; lia);
  destruct (Lam 2 ltac:(lia)) as [A2|[A2|A2]]; try (exists 2; lia);
  destruct (Lam 3 ltac:(lia)) as [A3|[A3|A3]]; try (exists 3; lia); exfalso; try lia.
  (* the range of d would have to sit in one of the one-id gaps q-2u, q, q+2u: then d is a leaf, hence odd, but the gaps are even *)
  all: assert (E1 : lsbL Ld = 1) by lia; pose proof (lsbL_1_30 Ld HLd E1); subst Ld;
       destruct Hd as (_ & _ & Hm); rewrite E1 in Hm;
       destruct (valid_at_odd_mult q Lq Hq) as (k & _ & Ek); rewrite St in Ek;
       assert (Eq : q = 2 * ((2 * k + 1) * (2 * u))) by lia;
       assert (Ed : d = q - 2 * u \/ d = q \/ d = q + 2 * u) by lia;
       assert (Ev : exists v, d = 2 * v) by (destruct Ed as [ -> | [ -> | -> ] ]; [exists ((2 * k + 1) * (2 * u) - u)|exists ((2 * k + 1) * (2 * u))|exists ((2 * k + 1) * (2 * u) + u)]; lia);
       destruct Ev as (v & Ev); rewrite Ev in Hm; replace (2 * 1) with 2 in Hm by lia;
       rewrite Z.mul_comm, Z.mod_mul in Hm by lia; discriminate.
Qed.

(** ** well-formed index: valid ids, sorted, pairwise disjoint *)
Definition idx_valid (x : index) : Prop := forall c, In c (x_cells x) -> valid (fst c).
Definition idx_sorted (x : index) : Prop :=
  StronglySorted (fun a b => cid_range_max a < cid_range_min b) (ids x).
Definition IndexWF (x : index) : Prop := idx_valid x /\ idx_sorted x.

Lemma sorted_nth {A} (R : A -> A -> Prop) (l : list A) d : StronglySorted R l ->
  forall i j, (i < j < length l)%nat -> R (nth i l d) (nth j l d).
Proof.
  induction 1 as [|a l S IH F]; intros i j H; cbn in H; [lia|].
  destruct j as [|j]; [lia|]. destruct i as [|i]; cbn.
  - rewrite Forall_forall in F. apply F. apply nth_In. lia.
  - apply IH. lia.
Qed.

Section Iter.
  Variable x : index.
  Hypothesis WF : IndexWF x.
  Notation len := (length (x_cells x)).
  Definition cell_at (pos : nat) : icell := nth pos (x_cells x) (cid_sentinel, []).

  Lemma ids_length : length (ids x) = len.
  Proof. unfold ids. apply map_length. Qed.
  Lemma it_id_at pos : it_id x pos = fst (cell_at pos).
  Proof. unfold it_id, ids, cell_at. change cid_sentinel with (fst (cid_sentinel, @nil eid)). apply map_nth. Qed.
  Lemma it_cell_at pos : it_cell x pos = snd (cell_at pos).
  Proof. unfold it_cell, cell_at. change (@nil eid) with (snd (cid_sentinel, @nil eid)). apply map_nth. Qed.
  Lemma cell_at_in pos : (pos < len)%nat -> In (cell_at pos) (x_cells x).
  Proof. intros H. apply nth_In. exact H. Qed.
  Lemma in_cell_at c : In c (x_cells x) -> exists j, (j < len)%nat /\ cell_at j = c.
  Proof. intros H. destruct (In_nth _ _ (cid_sentinel, []) H) as (j & Hj & E). exists j. auto. Qed.

  Lemma id_valid pos : (pos < len)%nat -> exists L, valid_at (it_id x pos) L.
  Proof. intros H. rewrite it_id_at. apply (proj1 WF). apply cell_at_in. exact H. Qed.

  Lemma it_id_beyond pos : (len <= pos)%nat -> it_id x pos = cid_sentinel.
  Proof. intros H. unfold it_id. apply nth_overflow. rewrite ids_length. exact H. Qed.

  Lemma not_done_lt pos : it_done x pos = false -> (pos < len)%nat.
  Proof.
    unfold it_done. intros H. destruct (Nat.lt_ge_cases pos len) as [|G]; [assumption|].
    rewrite (it_id_beyond pos G), Z.eqb_refl in H. discriminate.
  Qed.
  Lemma lt_not_done pos : (pos < len)%nat -> it_done x pos = false.
  Proof.
    intros H. unfold it_done. destruct (id_valid pos H) as (L & V). pose proof (valid_lt_sentinel _ _ V).
    apply Z.eqb_neq. lia.
  Qed.

  (** ranges of distinct positions are disjoint and ordered *)
  Lemma ranges_ordered i j : (i < j < len)%nat -> cid_range_max (it_id x i) < cid_range_min (it_id x j).
  Proof. intros H. unfold it_id. apply (sorted_nth _ _ cid_sentinel (proj2 WF)). rewrite ids_length. exact H. Qed.

  Lemma range_of_valid c L : valid_at c L -> cid_range_min c <= c <= cid_range_max c.
  Proof.
    intros V. rewrite (cid_range_min_valid c L V), (cid_range_max_valid c L V).
    pose proof (lsbL_pos L (proj1 V)). lia.
  Qed.

  Lemma ids_increasing i j : (i < j < len)%nat -> it_id x i < it_id x j.
  Proof.
    intros H. pose proof (ranges_ordered i j H).
    destruct (id_valid i ltac:(lia)) as (Li & Vi). destruct (id_valid j ltac:(lia)) as (Lj & Vj).
    pose proof (range_of_valid _ _ Vi). pose proof (range_of_valid _ _ Vj). lia.
  Qed.
  Lemma ids_monotone i j : (i <= j)%nat -> (j < len)%nat -> it_id x i <= it_id x j.
  Proof.
    intros H Hj. destruct (Nat.eq_dec i j) as [->|N]; [lia|]. pose proof (ids_increasing i j ltac:(lia)). lia.
  Qed.

  (** an index cell id inside the range of another index cell is that cell *)
  Lemma same_position i j : (i < len)%nat -> (j < len)%nat ->
    cid_range_min (it_id x j) <= it_id x i <= cid_range_max (it_id x j) -> i = j.
  Proof.
    intros Hi Hj H. destruct (id_valid i Hi) as (Li & Vi). pose proof (range_of_valid _ _ Vi).
    destruct (Nat.lt_trichotomy i j) as [L|[E|G]]; [|exact E|].
    - pose proof (ranges_ordered i j ltac:(lia)). lia.
    - pose proof (ranges_ordered j i ltac:(lia)). lia.
  Qed.

  (** seek *)
  Lemma seek_pos_spec l t : (seek_pos l t <= length l)%nat /\
    (forall k, (k < seek_pos l t)%nat -> nth k l cid_sentinel < t) /\
    ((seek_pos l t < length l)%nat -> nth (seek_pos l t) l cid_sentinel >= t).
  Proof.
    induction l as [|a l IH]; cbn; [repeat split; intros; lia|].
    destruct (a >=? t) eqn:E; cbn.
    - repeat split; intros; try lia.
    - destruct IH as (I1 & I2 & I3). repeat split; [lia| |].
      + intros [|k] Hk; [lia|]. apply I2. lia.
      + intros H. apply I3. lia.
  Qed.
  Lemma seek_le t : (it_seek x t <= len)%nat.
  Proof. unfold it_seek. rewrite <- ids_length. apply seek_pos_spec. Qed.
  Lemma seek_before t k : (k < it_seek x t)%nat -> it_id x k < t.
  Proof. unfold it_seek, it_id. apply seek_pos_spec. Qed.
  Lemma seek_at t : (it_seek x t < len)%nat -> it_id x (it_seek x t) >= t.
  Proof. unfold it_seek, it_id. rewrite <- ids_length. apply seek_pos_spec. Qed.
  Lemma seek_le_pos t j : (j < len)%nat -> it_id x j >= t -> (it_seek x t <= j)%nat.
  Proof.
    intros Hj H. destruct (Nat.le_gt_cases (it_seek x t) j) as [|G]; [assumption|].
    pose proof (seek_before t j G). lia.
  Qed.
  Lemma seek_gt_pos t j : (j < len)%nat -> it_id x j < t -> (j < it_seek x t)%nat.
  Proof.
    intros Hj H. destruct (Nat.le_gt_cases (it_seek x t) j) as [L|]; [|assumption].
    assert (Hs : (it_seek x t < len)%nat) by lia.
    pose proof (seek_at t Hs). pose proof (ids_monotone _ _ L Hj). lia.
  Qed.
End Iter.
