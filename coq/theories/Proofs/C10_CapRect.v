(** C10: Cap.RectBound (since /repo bc3af1c the longitude interval is built by
    s1.IntervalFromEndpoints) always returns a VALID longitude interval, provided the two
    math.Remainder results are numbers in [-pi, pi]. *)
From Coq Require Import ZArith Reals Floats Lra Bool List.
From Geo Require Import Base.GoPrim Base.F64 Gen.Bounds Proofs.C10_S1.
From Geo Require Proofs.C19_S1_Ops.
Local Open Scope R_scope.

Definition TWO_PI : PrimFloat.float := (0x1.921fb54442d18p+02)%float.
Definition cap_lng (c : s2_Cap) : PrimFloat.float := s1_Angle_Radians (s2_longitude (s2_Cap_center c)).

Theorem cap_rectbound_lng_valid c :
  (forall a, vpt (go_remainder (PrimFloat.sub (cap_lng c) a) TWO_PI) /\
             vpt (go_remainder (PrimFloat.add (cap_lng c) a) TWO_PI)) ->
  valid_s1 (s2_Rect_Lng (s2_Cap_RectBound c)).
Proof.
  intros H. unfold s2_Cap_RectBound.
  destruct (s2_Cap_IsEmpty c); [apply s1_empty_valid|].
  cbv zeta.
  repeat match goal with
  | |- context [if ?b then _ else _] => destruct b
  end; cbn [s2_Rect_Lng negb]; try apply s1_full_valid;
  apply C19_S1_Ops.s1_from_endpoints_valid; apply (H _).
Qed.

(** the regression cap of the former finding: centre (0,-1,0), chord^2 radius 1.9999999999999996 *)
Example cap_rectbound_regression :
  s1_Interval_IsValid (s2_Rect_Lng (s2_Cap_RectBound
    (mk_s2_Cap (mk_s2_Point (mk_r3_Vector 0 (-1) 0)) (0x1.ffffffffffffep+00)%float))) = true.
Proof. vm_compute. reflexivity. Qed.
