(** C03 / H-TANGENT reduced to a statement about float arithmetic only.

    [H_TANGENT] (Proofs/Link_C02_C03.v) speaks about the orientation predicate with its symbolic
    perturbation. By the geometric core (Proofs/C03_TangentGeom.v, closed) it follows from
    [H_TANGENT_SEP]: whenever the float tangent test of crossingSign fires, SOME real linear
    functional is non-positive on a, b and strictly positive on c, d, and a, b are not antiparallel.
    H_TANGENT_SEP mentions no orientation, no perturbation, no crossing: it is a rounding-error
    statement about  x = fl((a+b) x (b-a)),  aT = fl(a x x),  fl(c . aT) > maxError  (and the same
    with bT = fl(x x b)), of the same kind as H-TRIAGE-DET.

    WHY IT IS NOT DISCHARGED HERE (first-order analysis; u = 2^-53):
    the natural functional is T = aT - (a.aT / |a|^2) a  (exactly orthogonal to a). Then
      c.T >= fl(c.aT) - 3/2 u |c||aT| - |a.aT| (1+..),   |a.aT| <= (1 + 2/sqrt 3) u |a||x|
    so the test proves c.T > 0 iff  maxError >= (5/2 + 2/sqrt 3) u |x| = 3.6547 u |x|  — the constant
    of triageSign. maxError = (1.5 + 1/sqrt 3) dblEpsilon = (3 + 2/sqrt 3) u = 4.1547 u is exactly the
    budget for |x| = 1: in C++ the normal is NORMALIZED (S2::RobustCrossProd(a,b).Normalize()) before
    the tangents are formed. golang/geo's NewEdgeCrosser uses a.PointCross(b) un-normalized:
    |x| = 2 |a x b| reaches 2, and the budget is insufficient at FIRST order as soon as
    |x| > 1.1368, i.e. for edges AB longer than 34.6 degrees (and shorter than 145.4).
    No failing input is known: over 2.4e9 random edges the computed a.aT never exceeded
    0.963 maxError (= 4u), but a proof by error analysis does not exist for the code as it is.
    With  norm := a.PointCross(b).Normalize()  in NewEdgeCrosser the budget has 1/2 u of slack and
    H_TANGENT_SEP becomes provable with the lemmas of Proofs/C02_TriageReal.v / C02_RelErr.v. *)
From Coq Require Import ZArith Reals Floats Lra Lia Bool List.
From Geo Require Import Base.GoPrim Base.F64 Base.Exact Gen.R3 Gen.S2Pred Model.Pred Model.Crosser
  Model.CrosserExec Proofs.C02_Exact Proofs.C02_Float Proofs.C02_Robust
  Proofs.C03_TangentGeom Proofs.Link_C02_C03.
Local Open Scope R_scope.

(** The fixed edge must be a geodesic edge: for b == -a exactly (s2_antipodal) no w is positive on
    both, PointCross(a,-a) is the zero vector and the test is meaningless
    (Link_C02_C03.H_TANGENT_unguarded_refuted). *)
Definition H_TANGENT_SEP : Prop := forall a b c d,
  unit_pt a -> unit_pt b -> unit_pt c -> unit_pt d -> s2_antipodal a b = false ->
  x_tangent a b c d = true ->
  exists t1 t2 t3 w1 w2 w3,
    dotv a t1 t2 t3 <= 0 /\ dotv b t1 t2 t3 <= 0 /\ 0 < dotv c t1 t2 t3 /\ 0 < dotv d t1 t2 t3 /\
    0 < dotv a w1 w2 w3 /\ 0 < dotv b w1 w2 w3.

Theorem tangent_sound_from_sep : H_TANGENT_SEP -> H_TANGENT.
Proof.
  intros H a b c d Ht. unfold u_tangent in Ht. apply andb_true_iff in Ht. destruct Ht as [G Ht].
  apply negb_true_iff in G. unfold u_antipodal in G. unfold u_tangent_raw in Ht.
  destruct (H (upt a) (upt b) (upt c) (upt d) (upt_unit a) (upt_unit b) (upt_unit c) (upt_unit d) G Ht)
    as (t1 & t2 & t3 & w1 & w2 & w3 & TA & TB & TC & TD & WA & WB).
  exact (separation_no_crossing (upt a) (upt b) (upt c) (upt d) t1 t2 t3 w1 w2 w3
           (upt_unit a) (upt_unit b) (upt_unit c) (upt_unit d) TA TB TC TD WA WB).
Qed.

(** the premise is satisfiable and the geometric core is not vacuous: a separated configuration *)
Example separation_example :
  let a := ex_x in let b := ex_y in let c := ex_mx in
  let d := mk_s2_Point (mk_r3_Vector 0 (-1) 0) in
  shared s2_Point s2_Point_eqb a b c d = false /\ four_agree s2_Point robust_sign a b c d = false.
Proof. vm_compute. split; reflexivity. Qed.
