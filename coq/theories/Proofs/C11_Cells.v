(** C11 — the interface between the bit level and the set algebra: valid cells are
    intervals [RangeMin, RangeMax] of odd leaf ids that are nested or disjoint (laminar),
    a cell is tiled by its four children, and areSiblings recognises exactly those. *)
From Coq Require Import ZArith List Bool Lia ZifyBool.
From Geo Require Import Base.GoPrim Gen.CellID Proofs.C11_Bits.
Import ListNotations.
Local Open Scope Z_scope.

Notation rmin := s2_CellID_RangeMin.
Notation rmax := s2_CellID_RangeMax.

(** leaf ids are the odd ids *)
Definition leaf (x : Z) : Prop := x mod 2 = 1.
Definition covers (c x : Z) : Prop := rmin c <= x <= rmax c.

Lemma pow4_even s : 0 < s -> 4 ^ s mod 2 = 0.
Proof.
  intros. replace s with ((s - 1) + 1) by lia. rewrite pow4_succ by lia.
  replace (4 * 4 ^ (s - 1 + 1 - 1)) with ((2 * 4 ^ (s - 1 + 1 - 1)) * 2) by ring.
  replace (s - 1 + 1 - 1) with (s - 1) by lia.
  replace (4 * 4 ^ (s - 1)) with ((2 * 4 ^ (s - 1)) * 2) by ring. apply Z.mod_mul. lia.
Qed.

Lemma cellform_parity c s : cellform c s -> (c - 4 ^ s) mod 2 = 0.
Proof.
  intros H. destruct (cellform_split _ _ H) as [Hc Hq]. destruct H as (Hs & Hm & Hb).
  set (q := c / (2 * 4 ^ s)) in *.
  replace (c - 4 ^ s) with ((q * 4 ^ s) * 2) by lia. apply Z.mod_mul. lia.
Qed.

Lemma valid_range c : valid c ->
  0 < rmin c /\ rmin c <= c <= rmax c /\ rmax c < 6 * 2 ^ 61 /\ leaf (rmin c) /\ leaf (rmax c).
Proof.
  intros V. destruct (valid_cellform _ V) as [s H].
  rewrite (rangemin_form _ _ H), (rangemax_form _ _ H).
  pose proof (cellform_bounds _ _ H). pose proof (cellform_parity _ _ H) as Hp.
  destruct H as (Hs & Hm & Hb). pose proof (pow4_bound s Hs). unfold leaf.
  set (w := 4 ^ s) in *.
  repeat split; try lia; Z.div_mod_to_equations; lia.
Qed.

Lemma valid_u64 c : valid c -> u64 c.
Proof. intros [H _]; exact H. Qed.

(** ** Laminarity *)
Lemma laminar_form c s d t : cellform c s -> cellform d t -> s <= t ->
  (d - 4 ^ t <= c - 4 ^ s /\ c + 4 ^ s <= d + 4 ^ t) \/ c + 4 ^ s <= d - 4 ^ t \/ d + 4 ^ t <= c - 4 ^ s.
Proof.
  intros Hc Hd Hst.
  destruct (cellform_split _ _ Hc) as [Ec Hq]. destruct (cellform_split _ _ Hd) as [Ed Hr].
  destruct Hc as (Hs & _ & _), Hd as (Ht & _ & _).
  set (q := c / (2 * 4 ^ s)) in *. set (r := d / (2 * 4 ^ t)) in *.
  assert (Em : 4 ^ t = 4 ^ s * 4 ^ (t - s)).
  { rewrite <- Z.pow_add_r by lia. f_equal. lia. }
  pose proof (pow4_pos s ltac:(lia)) as Hw. pose proof (pow4_pos (t - s) ltac:(lia)) as Hm.
  set (w := 4 ^ s) in *. set (m := 4 ^ (t - s)) in *. rewrite Em in *. clear Em.
  replace (c - w) with (w * (2 * q)) by lia. replace (c + w) with (w * (2 * q + 2)) by lia.
  replace (d - w * m) with (w * (2 * r * m)) by lia. replace (d + w * m) with (w * ((2 * r + 2) * m)) by lia.
  destruct (Z_lt_le_dec q (r * m)) as [L1|L1].
  - right; left. apply Z.mul_le_mono_nonneg_l; lia.
  - destruct (Z_lt_le_dec q ((r + 1) * m)) as [L2|L2].
    + left. split; apply Z.mul_le_mono_nonneg_l; lia.
    + right; right. apply Z.mul_le_mono_nonneg_l; lia.
Qed.

Definition nested_in (c d : Z) : Prop := rmin d <= rmin c /\ rmax c <= rmax d.

Lemma laminar c d : valid c -> valid d ->
  nested_in c d \/ nested_in d c \/ rmax c < rmin d \/ rmax d < rmin c.
Proof.
  intros Vc Vd. destruct (valid_cellform _ Vc) as [s Hc]. destruct (valid_cellform _ Vd) as [t Hd].
  unfold nested_in.
  rewrite (rangemin_form _ _ Hc), (rangemax_form _ _ Hc), (rangemin_form _ _ Hd), (rangemax_form _ _ Hd).
  destruct (Z_le_gt_dec s t).
  - pose proof (laminar_form c s d t Hc Hd ltac:(lia)). lia.
  - pose proof (laminar_form d t c s Hd Hc ltac:(lia)). lia.
Qed.

Lemma same_range c d : valid c -> valid d -> rmin c = rmin d -> rmax c = rmax d -> c = d.
Proof.
  intros Vc Vd. destruct (valid_cellform _ Vc) as [s Hc]. destruct (valid_cellform _ Vd) as [t Hd].
  rewrite (rangemin_form _ _ Hc), (rangemax_form _ _ Hc), (rangemin_form _ _ Hd), (rangemax_form _ _ Hd). lia.
Qed.

(** ** Contains *)
Lemma contains_spec c o : valid c -> u64 o ->
  (s2_CellID_Contains c o = true <-> rmin c <= o <= rmax c).
Proof.
  intros V Ho. destruct (valid_cellform _ V) as [s H]. rewrite (contains_form _ _ _ H Ho). lia.
Qed.

Lemma contains_nested c o : valid c -> valid o -> (s2_CellID_Contains c o = true <-> nested_in o c).
Proof.
  intros Vc Vo. rewrite (contains_spec c o Vc (valid_u64 _ Vo)).
  pose proof (valid_range _ Vc). pose proof (valid_range _ Vo). pose proof (laminar c o Vc Vo).
  unfold nested_in in *. split; [|lia]. intros Hin.
  destruct H1 as [H1|[H1|[H1|H1]]]; try lia.
  (* c nested in o and o's id inside c: the ranges coincide *)
  assert (c = o); [|subst; lia].
  destruct (valid_cellform _ Vc) as [s Hc]. destruct (valid_cellform _ Vo) as [t Ho].
  rewrite (rangemin_form _ _ Hc), (rangemax_form _ _ Hc), (rangemin_form _ _ Ho), (rangemax_form _ _ Ho) in *.
  destruct (Z_le_gt_dec t s) as [L|L].
  - pose proof (pow4_le t s ltac:(destruct Ho; lia)). lia.
  - (* 4^s < 4^t but |o - c| < 4^s while both are odd multiples: o - 4^t <= c - 4^s, c + 4^s <= o + 4^t, c-4^s < o < c+4^s *)
    exfalso. destruct (cellform_split _ _ Hc) as [Ec Hq]. destruct Hc as (Hs & Hmc & _), Ho as (Ht & Hmo & _).
    assert (Em : 4 ^ t = 4 ^ s * 4 ^ (t - s)) by (rewrite <- Z.pow_add_r by lia; f_equal; lia).
    assert (Hm4 : 4 ^ (t - s) = 4 * 4 ^ (t - s - 1)) by (rewrite <- pow4_succ by lia; f_equal; lia).
    pose proof (pow4_pos s ltac:(lia)) as Hw. pose proof (pow4_pos (t - s - 1) ltac:(lia)) as Hm.
    set (w := 4 ^ s) in *. set (m := 4 ^ (t - s - 1)) in *. rewrite Hm4 in Em. rewrite Em in *.
    (* o mod (2 w) : o = w*4m mod (8 w m) so o is a multiple of 2w; but c - w < o < c + w, c = (2q+1) w *)
    pose proof (Z.div_mod o (2 * (w * (4 * m))) ltac:(lia)) as Eo. rewrite Hmo in Eo.
    set (k := o / (2 * (w * (4 * m)))) in *. set (q := c / (2 * w)) in *.
    assert (o = w * (2 * (4 * m * k + 2 * m))) by lia.
    assert (w * (2 * q) < w * (2 * (4 * m * k + 2 * m)) < w * (2 * q + 2)) by lia.
    assert (2 * q < 2 * (4 * m * k + 2 * m) < 2 * q + 2) by (split; apply (Z.mul_lt_mono_pos_l w); lia).
    lia.
Qed.

(** ** Leaves *)
Lemma isleaf_spec x : u64 x -> (s2_CellID_IsLeaf x = true <-> leaf x).
Proof.
  intros Hx. unfold s2_CellID_IsLeaf, leaf. rewrite wrap_small by exact Hx.
  change 1 with (Z.ones 1) at 1. rewrite Z.land_ones by lia. change (2 ^ 1) with 2.
  pose proof (Z.mod_pos_bound x 2 ltac:(lia)). lia.
Qed.

Lemma leaf_cell c : valid c -> leaf c -> rmin c = c /\ rmax c = c.
Proof.
  intros V L. destruct (valid_cellform _ V) as [s H].
  rewrite (rangemin_form _ _ H), (rangemax_form _ _ H).
  destruct (Z.eq_dec s 0) as [->|Hne]; [cbn; lia|].
  exfalso. destruct (cellform_split _ _ H) as [Ec _]. destruct H as (Hs & _ & _).
  pose proof (pow4_even s ltac:(lia)) as He. unfold leaf in L.
  rewrite Ec, Z.mul_mod, He, Z.mul_0_r in L by lia. cbn in L. lia.
Qed.

Lemma leaf_valid x : leaf x -> 0 < x < 6 * 2 ^ 61 -> valid x.
Proof.
  intros L Hx. apply (cellform_valid x 0). unfold cellform, leaf in *. cbn. lia.
Qed.

(** a cell whose range is a single id is that leaf *)
Lemma single_leaf c : valid c -> rmin c = rmax c -> leaf c.
Proof.
  intros V E. pose proof (valid_range _ V) as (_ & Hc & _ & L & _). replace c with (rmin c) by lia. exact L.
Qed.

(** ** Parent *)
Lemma parent_spec c : valid c -> s2_CellID_isFace c = false ->
  let p := s2_CellID_immediateParent c in
  valid p /\ nested_in c p /\ p <> c /\
  (forall d, valid d -> nested_in c d -> d <> c -> nested_in p d).
Proof.
  intros V NF. destruct (valid_cellform _ V) as [s H]. rewrite (isface_form _ _ H) in NF.
  assert (Hlt : s < 30) by (destruct H; lia).
  pose proof (parent_form _ _ H Hlt) as HP. pose proof (parent_raw _ _ H Hlt) as EP.
  cbv zeta. set (p := s2_CellID_immediateParent c) in *.
  assert (VP : valid p) by (eapply cellform_valid; exact HP).
  assert (NP : nested_in c p).
  { unfold nested_in. rewrite (rangemin_form _ _ H), (rangemax_form _ _ H), (rangemin_form _ _ HP), (rangemax_form _ _ HP).
    destruct (cellform_split _ _ H) as [Ec Hq]. destruct H as (Hs & Hm & Hb).
    rewrite pow4_succ in * by lia. pose proof (pow4_pos s ltac:(lia)) as Hw. set (w := 4 ^ s) in *.
    pose proof (Z.div_mod c (2 * (4 * w)) ltac:(lia)) as E. pose proof (Z.mod_pos_bound c (2 * (4 * w)) ltac:(lia)) as B.
    set (k := c / (2 * (4 * w))) in *. set (q := c / (2 * w)) in *.
    (* c mod 8w = (2 (q mod 4) + 1) w: between w and 7w *)
    assert (w * (8 * k) <= w * (2 * q + 1) < w * (8 * k + 8)) by lia.
    assert (8 * k <= 2 * q + 1 < 8 * k + 8) by (split; [apply (Z.mul_le_mono_pos_l _ _ w)|apply (Z.mul_lt_mono_pos_l w)]; lia).
    assert (w * (8 * k + 1) <= w * (2 * q + 1)) by (apply Z.mul_le_mono_nonneg_l; lia).
    assert (w * (2 * q + 1) <= w * (8 * k + 7)) by (apply Z.mul_le_mono_nonneg_l; lia).
    lia. }
  split; [exact VP|]. split; [exact NP|]. split.
  - intro E. rewrite E in HP. pose proof (cellform_inj _ _ _ H HP). lia.
  - intros d Vd Nd Hne. destruct (valid_cellform _ Vd) as [t Hd].
    unfold nested_in in *.
    rewrite (rangemin_form _ _ H), (rangemax_form _ _ H), (rangemin_form _ _ HP), (rangemax_form _ _ HP),
      (rangemin_form _ _ Hd), (rangemax_form _ _ Hd) in *.
    assert (Hst : s <= t).
    { destruct (Z_le_gt_dec s t); [assumption|]. exfalso.
      assert (4 ^ t < 4 ^ s) by (apply Z.pow_lt_mono_r; destruct Hd; lia). lia. }
    assert (t <> s).
    { intro; subst t. lia. }
    assert (Hst1 : s + 1 <= t) by lia.
    pose proof (laminar_form p (s + 1) d t HP Hd Hst1). pose proof (pow4_pos s ltac:(destruct H; lia)). lia.
Qed.

Lemma face_top c d : valid c -> s2_CellID_isFace c = true -> valid d -> nested_in c d -> d = c.
Proof.
  intros V F Vd N. destruct (valid_cellform _ V) as [s H]. rewrite (isface_form _ _ H) in F.
  assert (s = 30) by lia. subst s. destruct (valid_cellform _ Vd) as [t Hd].
  unfold nested_in in N.
  rewrite (rangemin_form _ _ H), (rangemax_form _ _ H), (rangemin_form _ _ Hd), (rangemax_form _ _ Hd) in *.
  assert (4 ^ t <= 4 ^ 30) by (apply pow4_le; destruct Hd; lia). lia.
Qed.

(** ** Children *)
Record tiles4 (p a b c d : Z) : Prop := {
  t4_a : valid a; t4_b : valid b; t4_c : valid c; t4_d : valid d;
  t4_min : rmin a = rmin p; t4_ab : rmax a + 2 = rmin b; t4_bc : rmax b + 2 = rmin c;
  t4_cd : rmax c + 2 = rmin d; t4_max : rmax d = rmax p;
  t4_nf : s2_CellID_isFace d = false;
  t4_pa : s2_CellID_immediateParent a = p; t4_pb : s2_CellID_immediateParent b = p;
  t4_pc : s2_CellID_immediateParent c = p; t4_pd : s2_CellID_immediateParent d = p
}.

Lemma block_tiles base s : block base s ->
  let w := 4 ^ s in
  tiles4 (base + 4 * w) (base + w) (base + 3 * w) (base + 5 * w) (base + 7 * w) /\
  cellform (base + 4 * w) (s + 1).
Proof.
  intros B. cbv zeta.
  pose proof (block_child base s 0 B ltac:(lia)) as F0. pose proof (block_child base s 1 B ltac:(lia)) as F1.
  pose proof (block_child base s 2 B ltac:(lia)) as F2. pose proof (block_child base s 3 B ltac:(lia)) as F3.
  replace ((2 * 0 + 1) * 4 ^ s) with (4 ^ s) in F0 by ring.
  replace (2 * 1 + 1) with 3 in F1 by ring. replace (2 * 2 + 1) with 5 in F2 by ring. replace (2 * 3 + 1) with 7 in F3 by ring.
  destruct B as (Hs & Hb0 & Hbm & Hbt). pose proof (pow4_bound s ltac:(lia)) as Hw.
  assert (FP : cellform (base + 4 * 4 ^ s) (s + 1)).
  { rewrite <- pow4_succ by lia. split; [lia|]. rewrite pow4_succ by lia. split; [|lia].
    apply Z.mod_divide in Hbm; [|lia]. destruct Hbm as [k Hk]. subst base.
    replace (k * (8 * 4 ^ s) + 4 * 4 ^ s) with (4 * 4 ^ s + k * (2 * (4 * 4 ^ s))) by ring.
    rewrite Z.mod_add by lia. apply Z.mod_small; lia. }
  split; [|exact FP].
  assert (PR : forall x, 0 <= x < 4 -> s2_CellID_immediateParent (base + (2 * x + 1) * 4 ^ s) = base + 4 * 4 ^ s).
  { intros x Hx.
    assert (F : cellform (base + (2 * x + 1) * 4 ^ s) s) by (apply block_child; [unfold block; repeat split; try lia; assumption|lia]).
    rewrite (parent_raw _ _ F ltac:(lia)). rewrite pow4_succ by lia.
    apply Z.mod_divide in Hbm; [|lia]. destruct Hbm as [k Hk]. subst base.
    replace (k * (8 * 4 ^ s) + (2 * x + 1) * 4 ^ s) with (2 * (4 * 4 ^ s) * k + (2 * x + 1) * 4 ^ s) by ring.
    rewrite div_lin by nia. ring. }
  constructor; try (eapply cellform_valid; eassumption).
  all: rewrite ?(rangemin_form _ _ F0), ?(rangemax_form _ _ F0), ?(rangemin_form _ _ F1), ?(rangemax_form _ _ F1),
        ?(rangemin_form _ _ F2), ?(rangemax_form _ _ F2), ?(rangemin_form _ _ F3), ?(rangemax_form _ _ F3),
        ?(rangemin_form _ _ FP), ?(rangemax_form _ _ FP), ?pow4_succ by lia; try lia.
  - rewrite (isface_form _ _ F3). lia.
  - specialize (PR 0 ltac:(lia)). replace ((2 * 0 + 1) * 4 ^ s) with (4 ^ s) in PR by ring. exact PR.
  - specialize (PR 1 ltac:(lia)). replace (2 * 1 + 1) with 3 in PR by ring. exact PR.
  - specialize (PR 2 ltac:(lia)). replace (2 * 2 + 1) with 5 in PR by ring. exact PR.
  - specialize (PR 3 ltac:(lia)). replace (2 * 3 + 1) with 7 in PR by ring. exact PR.
Qed.

(** four distinct sorted valid ids accepted by areSiblings tile their common parent *)
Lemma siblings_tiles a b c d : valid a -> valid b -> valid c -> valid d ->
  a < b -> b < c -> c < d -> s2_areSiblings a b c d = true ->
  tiles4 (s2_CellID_immediateParent d) a b c d /\ valid (s2_CellID_immediateParent d).
Proof.
  intros Va Vb Vc Vd Hab Hbc Hcd Hsib. destruct (valid_cellform _ Vd) as [s H].
  destruct (siblings_true a b c d s H (valid_u64 _ Va) (valid_u64 _ Vb) (valid_u64 _ Vc) Hab Hbc Hcd Hsib) as (Hlt & Ea & Eb & Ec & Ed).
  set (w := 4 ^ s) in *. set (base := 8 * w * (d / (8 * w))) in *.
  assert (B : block base s).
  { destruct H as (Hs & Hm & Hb). pose proof (pow4_bound s Hs) as Hw. fold w in Hw.
    assert (0 <= d / (8 * w)) by (apply Z.div_pos; lia).
    pose proof (cellform_bounds d s (conj Hs (conj Hm Hb))) as Hcb. fold w in Hcb.
    unfold block. fold w. split; [lia|]. split; [unfold base; apply Z.mul_nonneg_nonneg; lia|].
    split; [unfold base; rewrite Z.mul_comm; apply Z.mod_mul; lia|]. lia. }
  destruct (block_tiles base s B) as [T FP]. cbv zeta in T, FP. fold w in T, FP.
  assert (EP : s2_CellID_immediateParent d = base + 4 * w).
  { destruct T as [_ _ _ _ _ _ _ _ _ _ _ _ _ tpd]. rewrite <- tpd. f_equal. exact Ed. }
  rewrite EP. split; [|eapply cellform_valid; exact FP].
  rewrite Ea, Eb, Ec. rewrite Ed. exact T.
Qed.

(** every non-leaf cell has four children that tile it, and areSiblings accepts them *)
Lemma children_spec p : valid p -> ~ leaf p ->
  exists a b c d, s2_CellID_Children p = [a; b; c; d] /\ tiles4 p a b c d /\
                  s2_areSiblings a b c d = true /\ a < b /\ b < c /\ c < d.
Proof.
  intros V NL. destruct (valid_cellform _ V) as [s H].
  assert (Hpos : 0 < s).
  { destruct (Z_lt_le_dec 0 s); [assumption|]. exfalso. apply NL.
    destruct H as (Hs & Hm & _). assert (s = 0) by lia. subst s. exact Hm. }
  rewrite (children_form _ _ H Hpos).
  pose proof (cellform_bounds _ _ H) as Hcb. destruct (cellform_split _ _ H) as [Ec Hq].
  destruct H as (Hs & Hm & Hb).
  assert (E4 : 4 ^ s = 4 * 4 ^ (s - 1)) by (rewrite <- pow4_succ by lia; f_equal; lia).
  pose proof (pow4_bound (s - 1) ltac:(lia)) as Hw. rewrite E4 in *. set (w := 4 ^ (s - 1)) in *.
  assert (B : block (p - 4 * w) (s - 1)).
  { repeat split; try lia. fold w.
    replace (p - 4 * w) with ((p / (2 * (4 * w))) * (8 * w)) by lia. apply Z.mod_mul. lia. }
  destruct (block_tiles _ _ B) as [T _]. cbv zeta in T. fold w in T.
  replace (p - 4 * w + 4 * w) with p in T by ring.
  pose proof (siblings_children _ _ B) as S. fold w in S.
  do 4 eexists. split; [reflexivity|]. split; [exact T|]. split; [exact S|]. lia.
Qed.

Lemma cell_center c : valid c -> rmin c + rmax c = 2 * c.
Proof.
  intros V. destruct (valid_cellform _ V) as [s H]. rewrite (rangemin_form _ _ H), (rangemax_form _ _ H). lia.
Qed.

(** the height (30 - level) of a valid cell, and how Children lowers it *)
Lemma children_cellform p s : cellform p s -> 0 < s -> forall k, In k (s2_CellID_Children p) -> cellform k (s - 1).
Proof.
  intros H Hpos k Hk. rewrite (children_form _ _ H Hpos) in Hk.
  pose proof (cellform_bounds _ _ H) as Hcb. destruct H as (Hs & Hm & Hb).
  assert (E4 : 4 ^ s = 4 * 4 ^ (s - 1)) by (rewrite <- pow4_succ by lia; f_equal; lia).
  pose proof (pow4_bound (s - 1) ltac:(lia)) as Hw. rewrite E4 in *. set (w := 4 ^ (s - 1)) in *.
  assert (B : block (p - 4 * w) (s - 1)).
  { repeat split; try lia. fold w.
    replace (p - 4 * w) with ((p / (2 * (4 * w))) * (8 * w)) by (pose proof (Z.div_mod p (2 * (4 * w)) ltac:(lia)); lia).
    apply Z.mod_mul. lia. }
  destruct Hk as [<-|[<-|[<-|[<-|[]]]]].
  - pose proof (block_child _ _ 0 B ltac:(lia)) as F. fold w in F. replace ((2 * 0 + 1) * w) with w in F by ring. exact F.
  - pose proof (block_child _ _ 1 B ltac:(lia)) as F. fold w in F. replace (2 * 1 + 1) with 3 in F by ring. exact F.
  - pose proof (block_child _ _ 2 B ltac:(lia)) as F. fold w in F. replace (2 * 2 + 1) with 5 in F by ring. exact F.
  - pose proof (block_child _ _ 3 B ltac:(lia)) as F. fold w in F. replace (2 * 3 + 1) with 7 in F by ring. exact F.
Qed.

Lemma leaf_cellform_0 c s : cellform c s -> (leaf c <-> s = 0).
Proof.
  intros H. split.
  - intros L. destruct (Z.eq_dec s 0); [assumption|]. exfalso.
    destruct (cellform_split _ _ H) as [Ec _]. destruct H as (Hs & _ & _).
    pose proof (pow4_even s ltac:(lia)) as He. unfold leaf in L.
    rewrite Ec, Z.mul_mod, He, Z.mul_0_r in L by lia. cbn in L. lia.
  - intros ->. destruct H as (_ & Hm & _). exact Hm.
Qed.
