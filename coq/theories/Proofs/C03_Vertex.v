(** C03 — laws of VertexCrossing / AngleContainsVertex / OrderedCCW over an abstract
    orientation predicate.  The laws used are Section hypotheses (premises after [End]). *)
From Coq Require Import ZArith List Bool Lia ZifyBool.
From Geo Require Import Model.Crosser.
Import ListNotations.
Local Open Scope Z_scope.
Local Open Scope bool_scope.

Section Laws.
Variable point : Type.
Variable peq : point -> point -> bool.
Variable sign : point -> point -> point -> Z.
Variable refdir : point -> point.

Hypothesis peq_refl : forall a, peq a a = true.
Hypothesis peq_sym : forall a b, peq a b = peq b a.
Hypothesis peq_trans : forall a b c, peq a b = true -> peq b c = true -> peq a c = true.
Hypothesis sign_swap : forall a b c, sign c b a = - sign a b c.
Hypothesis sign_range : forall a b c, sign a b c = -1 \/ sign a b c = 0 \/ sign a b c = 1.
Hypothesis sign_zero_iff : forall a b c,
  sign a b c = 0 <-> (peq a b = true \/ peq b c = true \/ peq c a = true).

Notation occw := (ordered_ccw point sign).
Notation vc := (vertex_crossing point peq sign refdir).
Notation acv := (angle_contains_vertex point sign refdir).

Lemma peq_sym_t a b : peq a b = true -> peq b a = true.
Proof. now rewrite (peq_sym a b). Qed.

Lemma tr_l x y z : peq x y = true -> peq x z = true -> peq y z = true.
Proof. intros H1 H2. apply (peq_trans y x z); [now apply peq_sym_t | assumption]. Qed.
Lemma tr_r x y z : peq x z = true -> peq y z = true -> peq x y = true.
Proof. intros H1 H2. apply (peq_trans x z y); [assumption | now apply peq_sym_t]. Qed.

Lemma sign_z a b c : peq a b = false -> peq b c = false -> peq c a = false -> sign a b c <> 0.
Proof.
  intros H1 H2 H3 H. apply sign_zero_iff in H. destruct H as [H|[H|H]]; congruence.
Qed.

(** ** OrderedCCW *)
Lemma occw_eq a b c o : occw a b c o =
  (negb (sign b o a =? -1) && negb (sign c o b =? -1)) ||
  (negb (sign b o a =? -1) && (sign a o c =? 1)) ||
  (negb (sign c o b =? -1) && (sign a o c =? 1)).
Proof.
  unfold ordered_ccw.
  destruct (negb (sign b o a =? -1)), (negb (sign c o b =? -1)), (sign a o c =? 1); reflexivity.
Qed.

(** point.go, properties (4) and (5) of OrderedCCW *)
Lemma occw_aab a c o : occw a a c o = true.
Proof.
  rewrite occw_eq. pose proof (sign_swap a o c).
  assert (sign a o a = 0) by (apply sign_zero_iff; auto). lia.
Qed.
Lemma occw_abb a b o : occw a b b o = true.
Proof.
  rewrite occw_eq. pose proof (sign_swap a o b).
  assert (sign b o b = 0) by (apply sign_zero_iff; auto). lia.
Qed.
Lemma occw_aba a b o : peq a b = false -> peq a o = false -> peq b o = false -> occw a b a o = false.
Proof.
  intros H1 H2 H3. rewrite occw_eq. pose proof (sign_swap a o b). pose proof (sign_range a o b).
  assert (sign a o a = 0) by (apply sign_zero_iff; auto).
  assert (sign a o b <> 0) by (apply sign_z; rewrite 1?(peq_sym o b), 1?(peq_sym b a); auto).
  lia.
Qed.

(** point.go properties (1)/(2): with a fixed start r, two distinct directions u v around o
    are ordered one way and not the other *)
Lemma occw_flip r u v o : peq u o = false -> peq v o = false -> peq u v = false ->
  occw r u v o = negb (occw r v u o).
Proof.
  intros H1 H2 H3. rewrite !occw_eq.
  pose proof (sign_swap u o r). pose proof (sign_swap v o r). pose proof (sign_swap u o v).
  pose proof (sign_range r o u). pose proof (sign_range r o v). pose proof (sign_range u o v).
  assert (sign u o v <> 0) by (apply sign_z; rewrite 1?(peq_sym o v), 1?(peq_sym v u); auto).
  lia.
Qed.

(** ** VertexCrossing: the properties listed in edge_crossings.go *)
(** (1) *)
Theorem vc_degenerate_ab a c d : vc a a c d = false.
Proof. unfold vertex_crossing. now rewrite peq_refl. Qed.
Theorem vc_degenerate_cd a b c : vc a b c c = false.
Proof. unfold vertex_crossing. now rewrite peq_refl, orb_true_r. Qed.
(** (2) — for a non-degenerate edge; for a == b property (1) applies *)
Theorem vc_same a b : peq a b = false -> vc a b a b = true.
Proof. intro H. unfold vertex_crossing. now rewrite H, !peq_refl. Qed.
Theorem vc_reversed a b : peq a b = false -> vc a b b a = true.
Proof.
  intro H. unfold vertex_crossing. rewrite (peq_sym b a), H, !peq_refl. reflexivity.
Qed.

(** (3) reversing either edge does not change the answer — for all inputs *)
Theorem vc_reverse_cd a b c d : vc a b d c = vc a b c d.
Proof.
  unfold vertex_crossing. rewrite (peq_sym d c).
  destruct (peq a b) eqn:AB; [reflexivity|]. destruct (peq c d) eqn:CD; [reflexivity|].
  destruct (peq a c) eqn:AC, (peq b d) eqn:BD, (peq a d) eqn:AD, (peq b c) eqn:BC;
    cbn; try reflexivity; exfalso;
    first [ pose proof (tr_l a c d AC AD) | pose proof (tr_r a b c AC BC)
          | pose proof (tr_r a b d AD BD) | pose proof (tr_l b c d BC BD) ]; congruence.
Qed.
Theorem vc_reverse_ab a b c d : vc b a c d = vc a b c d.
Proof.
  unfold vertex_crossing. rewrite (peq_sym b a).
  destruct (peq a b) eqn:AB; [reflexivity|]. destruct (peq c d) eqn:CD; [reflexivity|].
  destruct (peq a c) eqn:AC, (peq b d) eqn:BD, (peq a d) eqn:AD, (peq b c) eqn:BC;
    cbn; try reflexivity; exfalso;
    first [ pose proof (tr_l a c d AC AD) | pose proof (tr_r a b c AC BC)
          | pose proof (tr_r a b d AD BD) | pose proof (tr_l b c d BC BD) ]; congruence.
Qed.
Theorem vc_reverse_both a b c d : vc b a d c = vc a b c d.
Proof. now rewrite vc_reverse_ab, vc_reverse_cd. Qed.

(** VertexCrossing is false when no vertex is shared *)
Theorem vc_distinct a b c d :
  shared point peq a b c d = false -> vc a b c d = false.
Proof.
  unfold shared, vertex_crossing. intro H.
  destruct (peq a c), (peq a d), (peq b c), (peq b d); try discriminate.
  destruct (peq a b || peq c d); reflexivity.
Qed.

(** (4) "exactly one of VC(a,b,c,d) and VC(c,d,a,b)" when the edges meet at one vertex o
    (first/first, second/second, first/second position; second/first is [vc_one_ad] read
    from right to left) *)
Theorem vc_one_ac o b d : peq o b = false -> peq o d = false -> peq b d = false ->
  vc o b o d = negb (vc o d o b).
Proof.
  intros H1 H2 H3. unfold vertex_crossing.
  rewrite H1, H2, peq_refl, H3, (peq_sym d b), H3. cbn.
  apply occw_flip; rewrite 1?(peq_sym d o), 1?(peq_sym b o), 1?(peq_sym d b); auto.
Qed.
Theorem vc_one_bd o a c : peq a o = false -> peq c o = false -> peq a c = false ->
  vc a o c o = negb (vc c o a o).
Proof.
  intros H1 H2 H3. unfold vertex_crossing.
  rewrite H1, H2, H3, (peq_sym c a), H3, peq_refl. cbn.
  apply occw_flip; rewrite 1?(peq_sym c a); auto.
Qed.
Theorem vc_one_ad o b c : peq o b = false -> peq c o = false -> peq b c = false ->
  vc o b c o = negb (vc c o o b).
Proof.
  intros H1 H2 H3. unfold vertex_crossing.
  rewrite H1, H2, (peq_sym o c), H2, (peq_sym b o), H1, peq_refl, H3, (peq_sym c b), H3. cbn.
  apply occw_flip; rewrite 1?(peq_sym b o), 1?(peq_sym c b); auto.
Qed.

(** ** AngleContainsVertex: properties (1) and (2) of edge_crossings.go *)
Theorem acv_aba a b : acv a b a = false.
Proof. unfold angle_contains_vertex. now rewrite occw_abb. Qed.
Theorem acv_flip a b c : peq a b = false -> peq c b = false -> peq a c = false ->
  acv a b c = negb (acv c b a).
Proof.
  intros H1 H2 H3. unfold angle_contains_vertex. f_equal.
  apply occw_flip; rewrite 1?(peq_sym c a); auto.
Qed.

End Laws.
