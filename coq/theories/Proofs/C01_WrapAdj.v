(** C01 — H-WRAP for the 24 face sides, cube-model part: the leaf that cellIDFromFaceIJWrap returns
    for a coordinate one step outside a face side ([target], Proofs/C01_WrapSide.v) shares an edge,
    in the integer cube model, with the boundary leaf inside the face.  Together with wrap_side_*:
    for EVERY boundary leaf of every face side the wrapped cell is the edge neighbour across it. *)
From Coq Require Import ZArith List Bool Lia.
From Geo Require Import Base.GoPrim Gen.CellIDFull Proofs.C12_Hilbert Proofs.C01_Hilbert Proofs.C01_WrapSide.
Import ListNotations.
Local Open Scope Z_scope.

(** the boundary leaf of face f next to side s (0: i = -1, 1: i = 2^30, 2: j = -1, 3: j = 2^30) at offset t *)
Definition inside (side t : Z) : Z * Z :=
  if side =? 0 then (0, t) else if side =? 1 then (M1, t) else if side =? 2 then (t, 0) else (t, M1).

Ltac mem_tac := cbn [In]; repeat (first [left; apply triple_eq; lia | right]).

Ltac try_pair P Q :=
  exists P, Q; split;
    [intros E; pose proof (f_equal (fun x => fst (fst x)) E) as E1; pose proof (f_equal (fun x => snd (fst x)) E) as E2;
     pose proof (f_equal snd E) as E3; cbn [fst snd] in E1, E2, E3; lia
    |split; [solve [mem_tac]|split; [solve [mem_tac]|split; [solve [mem_tac]|solve [mem_tac]]]]].

Ltac find_edge :=
  match goal with
  | |- exists P Q, P <> Q /\ In P [?a; ?b; ?c; ?d] /\ _ =>
      first [ try_pair a b | try_pair b c | try_pair c d | try_pair d a ]
  end.

Theorem target_adjacent : forall side f t, 0 <= side < 4 -> 0 <= f < 6 -> 0 <= t < 2 ^ 30 ->
  let '(ib, jb) := inside side t in let '(g, i', j') := target side f t in
  share_edge 1073741824 f ib jb g i' j'.
Proof.
  intros side f t Hs Hf Ht. change (2 ^ 30) with 1073741824 in Ht.
  assert (Cs : side = 0 \/ side = 1 \/ side = 2 \/ side = 3) by lia.
  assert (Cf : f = 0 \/ f = 1 \/ f = 2 \/ f = 3 \/ f = 4 \/ f = 5) by lia.
  destruct Cs as [-> | [-> | [-> | ->]]]; destruct Cf as [-> | [-> | [-> | [-> | [-> | ->]]]]];
    unfold inside, target, M1, share_edge, corners, cube; cbn [Z.eqb Pos.eqb]; find_edge.
Qed.

Definition outside (side t : Z) : Z * Z :=
  if side =? 0 then (-1, t) else if side =? 1 then (1073741824, t) else if side =? 2 then (t, -1) else (t, 1073741824).

(** the target is a leaf of another face *)
Theorem target_range : forall side f t, 0 <= side < 4 -> 0 <= f < 6 -> 0 <= t < 2 ^ 30 ->
  let '(g, i', j') := target side f t in 0 <= g < 6 /\ g <> f /\ 0 <= i' < 2 ^ 30 /\ 0 <= j' < 2 ^ 30.
Proof.
  intros side f t Hs Hf Ht. change (2 ^ 30) with 1073741824 in *.
  assert (Cs : side = 0 \/ side = 1 \/ side = 2 \/ side = 3) by lia.
  assert (Cf : f = 0 \/ f = 1 \/ f = 2 \/ f = 3 \/ f = 4 \/ f = 5) by lia.
  destruct Cs as [-> | [-> | [-> | ->]]]; destruct Cf as [-> | [-> | [-> | [-> | [-> | ->]]]]];
    unfold target, M1; cbn [Z.eqb Pos.eqb]; lia.
Qed.

(** the four sides in one statement *)
Theorem wrap_sides : forall f t, 0 <= f < 6 -> 0 <= t < 2 ^ 30 ->
  s2_cellIDFromFaceIJWrap f (-1) t = (let '(g, i', j') := target 0 f t in s2_cellIDFromFaceIJ g i' j') /\
  s2_cellIDFromFaceIJWrap f 1073741824 t = (let '(g, i', j') := target 1 f t in s2_cellIDFromFaceIJ g i' j') /\
  s2_cellIDFromFaceIJWrap f t (-1) = (let '(g, i', j') := target 2 f t in s2_cellIDFromFaceIJ g i' j') /\
  s2_cellIDFromFaceIJWrap f t 1073741824 = (let '(g, i', j') := target 3 f t in s2_cellIDFromFaceIJ g i' j').
Proof.
  intros f t Hf Ht. split; [exact (wrap_side_i_lo t Ht f Hf)|]. split; [exact (wrap_side_i_hi t Ht f Hf)|].
  split; [exact (wrap_side_j_lo t Ht f Hf)|exact (wrap_side_j_hi t Ht f Hf)].
Qed.
