(** C08 — [SplitSound] discharged: on a well-formed index, the children that
    findEdgesOptimized hands to processOrEnqueueCell (two seeks and two Prev calls) are
    valid cells, carry the index cell's contents exactly when they are index cells, and
    represent every index cell below the popped cell. *)
From Coq Require Import ZArith List Bool Lia Sorted.
From Geo Require Import Model.EdgeQuery Proofs.C05_CellFacts Proofs.C08_Post Proofs.C08_Opt Proofs.C08_Heap Proofs.C08_Main Proofs.C08_Cells.
Import ListNotations.
Local Open Scope Z_scope.

Section Split.
  Variable x : index.
  Hypothesis WF : IndexWF x.
  Notation len := (length (x_cells x)).
  Notation rep := C08_Opt.rep.

  Definition Vcell (q : Z) : Prop := valid q.

  Lemma contains_iff a b : cid_contains a b = true <-> cid_range_min a <= b <= cid_range_max a.
  Proof. unfold cid_contains. rewrite andb_true_iff, !Z.leb_le. tauto. Qed.

  (** the entry built for child [K] from the index cell at [pos] lying inside [K] *)
  Lemma poe_entry K LK pos : valid_at K LK -> (pos < len)%nat ->
    cid_range_min K <= it_id x pos <= cid_range_max K ->
    fst (poe_cell x K pos) = K /\ centry_ok x (poe_cell x K pos) /\
    forall c, In c (x_cells x) -> cid_range_min K <= fst c <= cid_range_max K -> rep (poe_cell x K pos) c.
  Proof.
    intros VK Hp Hin. unfold poe_cell. destruct (it_id x pos =? K) eqn:E.
    - apply Z.eqb_eq in E. split; [reflexivity|]. split; [split|].
      + intros es H. cbn in H. injection H as <-.
        exists (cell_at x pos). split; [apply cell_at_in; exact Hp|]. cbn. rewrite <- it_id_at, it_cell_at. auto.
      + cbn. discriminate.
      + intros c Hc Hr. destruct (in_cell_at x c Hc) as (j & Hj & <-). left. cbn.
        assert (j = pos).
        { apply (same_position x WF j pos Hj Hp). rewrite E. rewrite it_id_at. exact Hr. }
        subst j. split; [rewrite <- E; apply it_id_at|rewrite it_cell_at; reflexivity].
    - apply Z.eqb_neq in E. split; [reflexivity|]. split; [split|].
      + cbn. discriminate.
      + intros _. exists (cell_at x pos). split; [apply cell_at_in; exact Hp|]. right. cbn.
        rewrite <- it_id_at. split; [reflexivity|]. split; [apply contains_iff; exact Hin|congruence].
      + intros c Hc Hr. right. cbn. split; [reflexivity|]. split; [apply contains_iff; exact Hr|].
        intros EK. apply E. destruct (in_cell_at x c Hc) as (j & Hj & Ej). subst c.
        rewrite <- it_id_at in EK.
        assert (pos = j) by (apply (same_position x WF pos j Hp Hj); rewrite <- EK; exact Hin).
        subst j. symmetry. exact EK.
  Qed.

  Lemma split_strong q Lq : valid_at q Lq -> (exists c, In c (x_cells x) /\ rep (q, None) c) ->
    (forall ce, In ce (split_cell x q) -> valid_at (fst ce) (Lq + 1) /\ centry_ok x ce) /\
    (forall c, In c (x_cells x) -> rep (q, None) c -> exists ce, In ce (split_cell x q) /\ rep ce c).
  Proof.
    intros Vq (c0 & Hc0 & R0).
    (* q properly contains an index cell, so it is not a leaf *)
    destruct R0 as [[_ R0]|(_ & R0 & N0)]; [cbn in R0; discriminate|]. cbn [fst] in R0, N0.
    apply contains_iff in R0. rewrite (cid_range_min_valid q Lq Vq), (cid_range_max_valid q Lq Vq) in R0.
    destruct (proj1 WF c0 Hc0) as (L0 & V0).
    destruct (in_some_child q Lq (fst c0) L0 Vq V0 R0 ltac:(congruence)) as (HLq & _).
    clear c0 Hc0 R0 N0 L0 V0.
    pose proof (lsbL_step Lq ltac:(destruct Vq; lia)) as St.
    pose proof (lsbL_pos (Lq + 1) ltac:(destruct Vq; lia)) as Pu.
    assert (VK : forall i, 0 <= i <= 3 -> valid_at (child q Lq i) (Lq + 1)) by (intros; apply child_valid; auto).
    assert (RK : forall i, 0 <= i <= 3 ->
              cid_range_min (child q Lq i) = q + (2 * i - 4) * lsbL (Lq + 1) + 1 /\
              cid_range_max (child q Lq i) = q + (2 * i - 2) * lsbL (Lq + 1) - 1).
    { intros i Hi. rewrite (cid_range_min_valid _ _ (VK i Hi)), (cid_range_max_valid _ _ (VK i Hi)). unfold child. lia. }
    pose proof (cid_range_min_valid q Lq Vq) as Rq1. pose proof (cid_range_max_valid q Lq Vq) as Rq2.
    rewrite St in Rq1, Rq2.
    (* where a valid index cell id inside q's range lies *)
    assert (Loc : forall pos, (pos < len)%nat -> cid_range_min q <= it_id x pos <= cid_range_max q -> it_id x pos <> q ->
              exists i, 0 <= i <= 3 /\ cid_range_min (child q Lq i) <= it_id x pos <= cid_range_max (child q Lq i)).
    { intros pos Hp Hr Hn. destruct (id_valid x WF pos Hp) as (Lp & Vp).
      rewrite Rq1, Rq2 in Hr. rewrite <- St in Hr.
      destruct (in_some_child q Lq _ Lp Vq Vp Hr Hn) as (_ & i & Hi & A & B). exists i. split; [exact Hi|].
      destruct (RK i Hi) as [-> ->]. pose proof (lsbL_pos Lp (proj1 Vp)). unfold child in A, B. lia. }
    unfold split_cell. rewrite (cid_children_valid q Lq Vq HLq).
    set (k0 := child q Lq 0) in *. set (k1 := child q Lq 1) in *. set (k2 := child q Lq 2) in *. set (k3 := child q Lq 3) in *.
    destruct (RK 0 ltac:(lia)) as [m0 M0]. destruct (RK 1 ltac:(lia)) as [m1 M1].
    destruct (RK 2 ltac:(lia)) as [m2 M2]. destruct (RK 3 ltac:(lia)) as [m3 M3].
    fold k0 in m0, M0. fold k1 in m1, M1. fold k2 in m2, M2. fold k3 in m3, M3.
    set (u := lsbL (Lq + 1)) in *.
    set (p1 := it_seek x (cid_range_min k1)). set (p3 := it_seek x (cid_range_min k3)).
    (* the four optional entries, each either absent or built by poe_entry *)
    set (l1 := if negb (it_done x p1) && (it_id x p1 <=? cid_range_max k1) then [poe_cell x k1 p1] else []).
    set (l0 := match p1 with O => [] | S p => if it_id x p >=? cid_range_min q then [poe_cell x k0 p] else [] end).
    set (l3 := if negb (it_done x p3) && (it_id x p3 <=? cid_range_max q) then [poe_cell x k3 p3] else []).
    set (l2 := match p3 with O => [] | S p => if it_id x p >=? cid_range_min k2 then [poe_cell x k2 p] else [] end).
    (* facts about each list *)
    assert (F1 : forall ce, In ce l1 -> (p1 < len)%nat /\ cid_range_min k1 <= it_id x p1 <= cid_range_max k1 /\ ce = poe_cell x k1 p1).
    { subst l1. intros ce H. destruct (negb (it_done x p1) && (it_id x p1 <=? cid_range_max k1)) eqn:E; [|contradiction].
      destruct H as [<-|[]]. apply andb_prop in E. destruct E as [E1 E2]. apply negb_true_iff in E1. apply Z.leb_le in E2.
      pose proof (not_done_lt x p1 E1) as Hp. pose proof (seek_at x _ Hp). fold p1 in H. split; [exact Hp|]. split; [lia|reflexivity]. }
    assert (F0 : forall ce, In ce l0 -> exists p, p1 = S p /\ (p < len)%nat /\ cid_range_min k0 <= it_id x p <= cid_range_max k0 /\ ce = poe_cell x k0 p).
    { subst l0. intros ce H. destruct p1 as [|p] eqn:Ep; [contradiction|].
      destruct (it_id x p >=? cid_range_min q) eqn:E; [|contradiction]. destruct H as [<-|[]].
      apply Z.geb_le in E. pose proof (seek_le x (cid_range_min k1)) as Sl. fold p1 in Sl. rewrite Ep in Sl.
      assert (Hp : (p < len)%nat) by lia.
      pose proof (seek_before x (cid_range_min k1) p) as Sb. fold p1 in Sb. rewrite Ep in Sb. specialize (Sb ltac:(lia)).
      exists p. split; [reflexivity|]. split; [exact Hp|]. split; [|reflexivity].
      destruct (Loc p Hp ltac:(lia) ltac:(lia)) as (i & Hi & A).
      assert (Ai : i = 0 \/ i = 1 \/ i = 2 \/ i = 3) by lia.
      destruct Ai as [ -> | [ -> | [ -> | -> ] ] ]; fold k0 k1 k2 k3 in A; [exact A|exfalso; lia..]. }
    assert (F3 : forall ce, In ce l3 -> (p3 < len)%nat /\ cid_range_min k3 <= it_id x p3 <= cid_range_max k3 /\ ce = poe_cell x k3 p3).
    { subst l3. intros ce H. destruct (negb (it_done x p3) && (it_id x p3 <=? cid_range_max q)) eqn:E; [|contradiction].
      destruct H as [<-|[]]. apply andb_prop in E. destruct E as [E1 E2]. apply negb_true_iff in E1. apply Z.leb_le in E2.
      pose proof (not_done_lt x p3 E1) as Hp. pose proof (seek_at x _ Hp). fold p3 in H. split; [exact Hp|]. split; [lia|reflexivity]. }
    assert (F2 : forall ce, In ce l2 -> exists p, p3 = S p /\ (p < len)%nat /\ cid_range_min k2 <= it_id x p <= cid_range_max k2 /\ ce = poe_cell x k2 p).
    { subst l2. intros ce H. destruct p3 as [|p] eqn:Ep; [contradiction|].
      destruct (it_id x p >=? cid_range_min k2) eqn:E; [|contradiction]. destruct H as [<-|[]].
      apply Z.geb_le in E. pose proof (seek_le x (cid_range_min k3)) as Sl. fold p3 in Sl. rewrite Ep in Sl.
      assert (Hp : (p < len)%nat) by lia.
      pose proof (seek_before x (cid_range_min k3) p) as Sb. fold p3 in Sb. rewrite Ep in Sb. specialize (Sb ltac:(lia)).
      exists p. split; [reflexivity|]. split; [exact Hp|]. split; [|reflexivity].
      destruct (Loc p Hp ltac:(lia) ltac:(lia)) as (i & Hi & A).
      assert (Ai : i = 0 \/ i = 1 \/ i = 2 \/ i = 3) by lia.
      destruct Ai as [ -> | [ -> | [ -> | -> ] ] ]; fold k0 k1 k2 k3 in A; [exfalso; lia..|exact A|exfalso; lia]. }
    split.
    - (* every produced entry is a valid child with sound contents *)
      intros ce H. rewrite !in_app_iff in H. destruct H as [H|[H|[H|H]]].
      + destruct (F1 ce H) as (Hp & Hr & ->). destruct (poe_entry k1 _ p1 (VK 1 ltac:(lia)) Hp Hr) as (E & C & _).
        split; [rewrite E; apply VK; lia|exact C].
      + destruct (F0 ce H) as (p & _ & Hp & Hr & ->). destruct (poe_entry k0 _ p (VK 0 ltac:(lia)) Hp Hr) as (E & C & _).
        split; [rewrite E; apply VK; lia|exact C].
      + destruct (F3 ce H) as (Hp & Hr & ->). destruct (poe_entry k3 _ p3 (VK 3 ltac:(lia)) Hp Hr) as (E & C & _).
        split; [rewrite E; apply VK; lia|exact C].
      + destruct (F2 ce H) as (p & _ & Hp & Hr & ->). destruct (poe_entry k2 _ p (VK 2 ltac:(lia)) Hp Hr) as (E & C & _).
        split; [rewrite E; apply VK; lia|exact C].
    - (* every index cell properly inside q is represented by one of them *)
      intros c Hc [[_ R]|(_ & R & N)]; [cbn in R; discriminate|]. cbn [fst] in R, N. apply contains_iff in R.
      destruct (in_cell_at x c Hc) as (j & Hj & Ej). subst c. rewrite <- it_id_at in R, N.
      destruct (Loc j Hj R ltac:(congruence)) as (i & Hi & A).
      assert (Hc' : In (cell_at x j) (x_cells x)) by (apply cell_at_in; exact Hj).
      assert (Ai : i = 0 \/ i = 1 \/ i = 2 \/ i = 3) by lia.
      destruct Ai as [ -> | [ -> | [ -> | -> ] ] ]; fold k0 k1 k2 k3 in A.
      + (* child 0: the cell before the seek position of child 1 *)
        assert (Lt : (j < p1)%nat) by (apply (seek_gt_pos x WF); [exact Hj|lia]).
        destruct p1 as [|p] eqn:Ep; [lia|].
        pose proof (seek_le x (cid_range_min k1)) as Sl. fold p1 in Sl. rewrite Ep in Sl.
        assert (Hp : (p < len)%nat) by lia.
        pose proof (ids_monotone x WF j p ltac:(lia) Hp) as Mo.
        assert (In (poe_cell x k0 p) l0).
        { subst l0. assert (E : (it_id x p >=? cid_range_min q) = true) by (apply Z.geb_le; lia). rewrite E. left. reflexivity. }
        destruct (F0 _ H) as (p' & Ep' & _ & Hr & _). injection Ep' as <-.
        exists (poe_cell x k0 p). split; [rewrite !in_app_iff; auto|].
        apply (poe_entry k0 _ p (VK 0 ltac:(lia)) Hp Hr); [exact Hc'|rewrite <- it_id_at; exact A].
      + assert (Le : (p1 <= j)%nat) by (apply (seek_le_pos x); [exact Hj|lia]).
        assert (Hp : (p1 < len)%nat) by lia.
        pose proof (ids_monotone x WF p1 j Le Hj) as Mo.
        assert (In (poe_cell x k1 p1) l1).
        { subst l1. rewrite (lt_not_done x WF p1 Hp). assert (E : (it_id x p1 <=? cid_range_max k1) = true) by (apply Z.leb_le; lia).
          rewrite E. left. reflexivity. }
        destruct (F1 _ H) as (_ & Hr & _).
        exists (poe_cell x k1 p1). split; [rewrite !in_app_iff; auto|].
        apply (poe_entry k1 _ p1 (VK 1 ltac:(lia)) Hp Hr); [exact Hc'|rewrite <- it_id_at; exact A].
      + assert (Lt : (j < p3)%nat) by (apply (seek_gt_pos x WF); [exact Hj|lia]).
        destruct p3 as [|p] eqn:Ep; [lia|].
        pose proof (seek_le x (cid_range_min k3)) as Sl. fold p3 in Sl. rewrite Ep in Sl.
        assert (Hp : (p < len)%nat) by lia.
        pose proof (ids_monotone x WF j p ltac:(lia) Hp) as Mo.
        assert (In (poe_cell x k2 p) l2).
        { subst l2. assert (E : (it_id x p >=? cid_range_min k2) = true) by (apply Z.geb_le; lia). rewrite E. left. reflexivity. }
        destruct (F2 _ H) as (p' & Ep' & _ & Hr & _). injection Ep' as <-.
        exists (poe_cell x k2 p). split; [rewrite !in_app_iff; auto|].
        apply (poe_entry k2 _ p (VK 2 ltac:(lia)) Hp Hr); [exact Hc'|rewrite <- it_id_at; exact A].
      + assert (Le : (p3 <= j)%nat) by (apply (seek_le_pos x); [exact Hj|lia]).
        assert (Hp : (p3 < len)%nat) by lia.
        pose proof (ids_monotone x WF p3 j Le Hj) as Mo.
        assert (In (poe_cell x k3 p3) l3).
        { subst l3. rewrite (lt_not_done x WF p3 Hp). assert (E : (it_id x p3 <=? cid_range_max q) = true) by (apply Z.leb_le; lia).
          rewrite E. left. reflexivity. }
        destruct (F3 _ H) as (_ & Hr & _).
        exists (poe_cell x k3 p3). split; [rewrite !in_app_iff; auto|].
        apply (poe_entry k3 _ p3 (VK 3 ltac:(lia)) Hp Hr); [exact Hc'|rewrite <- it_id_at; exact A].
  Qed.

  Lemma split_sound : SplitSound x Vcell.
  Proof.
    intros q (Lq & Vq) H. destruct (split_strong q Lq Vq H) as [A B]. split; [|exact B].
    intros ce Hce. destruct (A ce Hce) as [V C]. split; [exists (Lq + 1); exact V|exact C].
  Qed.
End Split.
