(** C11 — CellUnionFromIntersectionWithCellID against the leaf sets. *)
From Coq Require Import ZArith List Bool Lia ZifyBool Sorted Permutation.
From Geo Require Import Base.GoPrim Gen.CellID Model.CellUnion Proofs.C11_Bits Proofs.C11_Cells
  Proofs.C11_Normalize Proofs.C11_Unique Proofs.C11_Search Proofs.C11_SetOps.
Import ListNotations.
Local Open Scope Z_scope.

Lemma lb_scan_spec cu e id : e <= zlen cu -> forall (n : nat) i, 0 <= i <= e -> e - i <= Z.of_nat n ->
  let r := lb_scan cu n i e id in
  i <= r <= e /\ (forall k, i <= k < r -> nthZ cu k 0 < id) /\ (r < e -> id <= nthZ cu r 0).
Proof.
  intros He. induction n as [|n IH]; intros i Hi Hn; cbn [lb_scan]; cbv zeta.
  - assert (i = e) by lia. subst. split; [lia|]. split; intros; lia.
  - destruct (Z.ltb_spec i e) as [Hlt|Hge].
    + destruct (Z.leb_spec id (nthZ cu i 0)) as [Hle|Hgt].
      * split; [lia|]. split; intros; lia.
      * destruct (IH (i + 1) ltac:(lia) ltac:(lia)) as (H1 & H2 & H3). split; [lia|]. split; [|exact H3].
        intros k Hk. destruct (Z.eq_dec k i) as [->|Hne]; [lia|]. apply H2. lia.
    + assert (i = e) by lia. subst. split; [lia|]. split; intros; lia.
Qed.

Lemma firstn_In_nth : forall (r : nat) (l : list Z) c, In c (firstn r l) ->
  exists k, (k < r)%nat /\ (k < length l)%nat /\ nth k l 0 = c.
Proof.
  induction r as [|r IH]; intros l c Hin; [destruct Hin|].
  destruct l as [|h t]; [destruct Hin|]. cbn in Hin. destruct Hin as [<-|Hin].
  - exists 0%nat. cbn. split; [lia|]. split; [lia|reflexivity].
  - destruct (IH t c Hin) as (k & H1 & H2 & H3). exists (S k). cbn. split; [lia|]. split; [lia|exact H3].
Qed.

Lemma skipn_In_nth : forall (r : nat) (l : list Z) c, In c (skipn r l) ->
  exists k, (r <= k)%nat /\ (k < length l)%nat /\ nth k l 0 = c.
Proof.
  induction r as [|r IH]; intros l c Hin.
  - cbn in Hin. destruct (In_nth l c 0 Hin) as (k & H1 & H2). exists k. split; [lia|]. split; [lia|exact H2].
  - destruct l as [|h t]; [destruct Hin|]. cbn in Hin.
    destruct (IH t c Hin) as (k & H1 & H2 & H3). exists (S k). cbn. split; [lia|]. split; [lia|exact H3].
Qed.

Lemma take_upto_In hi : forall l, StronglySorted Z.lt l -> forall c, (In c (take_upto hi l) <-> In c l /\ c <= hi).
Proof.
  induction l as [|h t IH]; intros S c; cbn [take_upto]; [cbn; tauto|].
  inversion S as [|? ? S' F]; subst. rewrite Forall_forall in F.
  destruct (Z.leb_spec h hi) as [Hle|Hgt].
  - cbn [In]. rewrite (IH S' c). split; [intros [<-|[H1 H2]]; [split; [left; reflexivity|lia]|tauto]|intros [[<-|H1] H2]; tauto].
  - split; [intros []|]. intros [[<-|Hin] Hc]; [lia|]. specialize (F c Hin). lia.
Qed.

Theorem intersection_with_cellid_spec x id : normal x -> valid id ->
  normal (cu_FromIntersectionWithCellID x id) /\
  forall t, leaf t -> (cov (cu_FromIntersectionWithCellID x id) t <-> cov x t /\ covers id t).
Proof.
  intros Nx Vid. pose proof (normal_sorted_cu x Nx) as Hx. unfold cu_FromIntersectionWithCellID.
  destruct (cu_ContainsCellID x id) eqn:EC.
  - assert (V1 : Forall valid [id]) by (constructor; [exact Vid|constructor]).
    destruct (normalize_spec [id] V1) as [N C]. split; [exact N|]. intros t Lt. rewrite (C t Lt), cov_cons.
    apply (contains_cellid_spec x id Nx Vid) in EC. pose proof (cov_nil t). specialize (EC t Lt). tauto.
  - cbv zeta. set (lo := rmin id). set (hi := rmax id).
    pose proof (sorted_cu_lt x Hx) as Slt.
    destruct (lb_scan_spec x (zlen x) lo (Z.le_refl _) (Z.to_nat (zlen x - 0)) 0 ltac:(pose proof (zlen_nonneg x); lia) ltac:(pose proof (zlen_nonneg x); lia))
      as (Hr & Hlo & Hhi).
    fold (cu_lowerBound x 0 (zlen x) lo) in *. set (r := cu_lowerBound x 0 (zlen x) lo) in *.
    set (S := take_upto hi (skipn (Z.to_nat r) x)).
    assert (HS : forall c, In c S <-> In c x /\ lo <= c <= hi).
    { intros c. unfold S. rewrite (take_upto_In hi _ ltac:(apply (SS_suffix _ (firstn (Z.to_nat r) x)); rewrite firstn_skipn; exact Slt) c).
      split.
      - intros [Hin Hc]. split; [rewrite <- (firstn_skipn (Z.to_nat r) x); apply in_or_app; right; exact Hin|].
        split; [|exact Hc]. destruct (skipn_In_nth _ _ _ Hin) as (k & K1 & K2 & <-).
        unfold zlen in *. assert (Hrl : r < Z.of_nat (length x)) by lia. specialize (Hhi Hrl).
        unfold nthZ in Hhi. destruct (Z.ltb_spec r 0); [lia|].
        destruct (Nat.eq_dec k (Z.to_nat r)) as [->|Hne]; [lia|].
        pose proof (SS_nth Z.lt x Slt (Z.to_nat r) k ltac:(lia)). lia.
      - intros [Hin [H1 H2]]. split; [|exact H2].
        rewrite <- (firstn_skipn (Z.to_nat r) x) in Hin. apply in_app_or in Hin. destruct Hin as [Hin|Hin]; [exfalso|exact Hin].
        destruct (firstn_In_nth _ _ _ Hin) as (k & K1 & K2 & <-).
        specialize (Hlo (Z.of_nat k) ltac:(lia)). unfold nthZ in Hlo. destruct (Z.ltb_spec (Z.of_nat k) 0); [lia|].
        rewrite Nat2Z.id in Hlo. lia. }
    destruct Hx as [Vx _]. rewrite Forall_forall in Vx.
    assert (VS : Forall valid S) by (rewrite Forall_forall; intros c Hc; apply Vx; apply HS; exact Hc).
    destruct (normalize_spec S VS) as [N C]. split; [exact N|]. intros t Lt. rewrite (C t Lt).
    assert (NoC : forall c, In c x -> ~ nested_in id c).
    { intros c Hin Nn. assert (cu_ContainsCellID x id = true); [|congruence].
      apply (contains_cellid_nested x id (normal_sorted_cu x Nx) Vid). exists c. split; assumption. }
    pose proof (valid_range _ Vid) as (_ & Rid & _). unfold lo, hi in *.
    split.
    + intros (c & Hc & Hct). apply HS in Hc. destruct Hc as [Hin Hr']. split; [exists c; split; assumption|].
      pose proof (id_in_range_nested id c Vid (Vx c Hin) Hr') as Nn. unfold covers, nested_in in *. lia.
    + intros [(c & Hin & Hct) Hid]. exists c. split; [|exact Hct]. apply HS. split; [exact Hin|].
      pose proof (valid_range _ (Vx c Hin)) as (_ & Rc & _).
      destruct (laminar c id (Vx c Hin) Vid) as [Nn|[Nn|[Nn|Nn]]]; unfold covers, nested_in in *;
        [lia|exfalso; apply (NoC c Hin); unfold nested_in; exact Nn|lia|lia].
Qed.
