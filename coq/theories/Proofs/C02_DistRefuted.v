(** C02. FINDING (kind CompareDistances.notNormalized): for points that pass the library's own
    unit-length test r3.Vector.IsUnit (| |p|^2 - 1 | <= 5e-14) but are not normalized to a few ulps,
    CompareDistances does NOT return the exact comparison of the spherical distances: the cos
    triage compares un-normalized dot products with an error term that assumes |p| = 1 +- 4u.
    Witness: b = a * (1 + 1e-14) (same direction up to rounding, IsUnit true): the triage answers
    by LENGTH. Hence H_TRIAGE_COS / the exactness of CompareDistances are stated for [norm_pt]
    (| |p|^2 - 1 | <= 2^-50) in Proofs/C02_Float.v, and are false for [unit_pt]. *)
From Coq Require Import ZArith Reals Floats Lra Lia Bool.
From Geo Require Import Base.GoPrim Base.F64 Base.Exact Gen.R3 Gen.S2Pred Model.Pred
  Proofs.C02_Exact Proofs.C02_Float Proofs.C02_IsUnit.
Local Open Scope R_scope.

Definition nn_x : s2_Point :=
  mk_s2_Point (mk_r3_Vector 0x1.b2eb3ff1ab1fp-1 (-0x1.10739b8aa7029p-2) (-0x1.d29d0fa3df341p-2)).
Definition nn_a : s2_Point :=
  mk_s2_Point (mk_r3_Vector (-0x1.57444a4ec87cdp-3) 0x1.9d6f59024936cp-1 (-0x1.219207f7f1612p-1)).
(** nn_a scaled by 1 + 1e-14 *)
Definition nn_b : s2_Point :=
  mk_s2_Point (mk_r3_Vector (-0x1.57444a4ec8809p-3) 0x1.9d6f5902493b5p-1 (-0x1.219207f7f1645p-1)).

Lemma nn_isunit : r3_Vector_IsUnit (s2_Point_Vector nn_x) = true /\
  r3_Vector_IsUnit (s2_Point_Vector nn_a) = true /\ r3_Vector_IsUnit (s2_Point_Vector nn_b) = true.
Proof. vm_compute. repeat split. Qed.

Theorem compare_distances_isunit_refuted : exists x a b,
  r3_Vector_IsUnit (s2_Point_Vector x) = true /\ r3_Vector_IsUnit (s2_Point_Vector a) = true /\
  r3_Vector_IsUnit (s2_Point_Vector b) = true /\
  unit_pt x /\ unit_pt a /\ unit_pt b /\
  cmp_distances_R x a b <> 0%Z /\ compare_distances x a b <> cmp_distances_R x a b.
Proof.
  exists nn_x, nn_a, nn_b. destruct nn_isunit as (Ix & Ia & Ib).
  pose proof (isunit_unit_pt _ Ix) as Ux. pose proof (isunit_unit_pt _ Ia) as Ua. pose proof (isunit_unit_pt _ Ib) as Ub.
  repeat (split; [assumption|]).
  rewrite <- (exact_compare_distances_spec nn_x nn_a nn_b (unit_norm_pos _ Ua) (unit_norm_pos _ Ub)).
  assert (E : exact_compare_distances (pv_of_point nn_x) (pv_of_point nn_a) (pv_of_point nn_b) = 1%Z)
    by (vm_compute; reflexivity).
  assert (C : compare_distances nn_x nn_a nn_b = (-1)%Z) by (vm_compute; reflexivity).
  rewrite E, C. split; discriminate.
Qed.

(** the hypothesis about the cos triage, read with the IsUnit guard, is false *)
Theorem H_TRIAGE_COS_unit_refuted :
  ~ (forall x a b, unit_pt x -> unit_pt a -> unit_pt b ->
       s2_triageCompareCosDistances x a b <> 0%Z ->
       s2_triageCompareCosDistances x a b = cmp_distances_R x a b).
Proof.
  intros H. destruct nn_isunit as (Ix & Ia & Ib).
  pose proof (isunit_unit_pt _ Ix) as Ux. pose proof (isunit_unit_pt _ Ia) as Ua. pose proof (isunit_unit_pt _ Ib) as Ub.
  specialize (H nn_x nn_a nn_b Ux Ua Ub).
  rewrite <- (exact_compare_distances_spec nn_x nn_a nn_b (unit_norm_pos _ Ua) (unit_norm_pos _ Ub)) in H.
  assert (E : exact_compare_distances (pv_of_point nn_x) (pv_of_point nn_a) (pv_of_point nn_b) = 1%Z)
    by (vm_compute; reflexivity).
  assert (C : s2_triageCompareCosDistances nn_x nn_a nn_b = (-1)%Z) by (vm_compute; reflexivity).
  rewrite E, C in H. assert (X : (-1 <> 0)%Z) by discriminate. specialize (H X). discriminate.
Qed.
