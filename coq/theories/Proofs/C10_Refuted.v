(** C10 finding: the full-strength statement "every edge rectangle computed by
    RectBounder.AddPoint for unit-length vertices with valid LatLngs is well formed (no NaN
    endpoint), hence RectBound() contains the vertices" is FALSE of the faithful model of the
    unchanged code.  Witness: two normalised points (|p|^2 = 1 + 2^-52), 3e-9 rad from
    antipodal, whose great circle passes within 1e-8 of a pole:
    0.5*|a-b| rounds to 1 + 2^-52, sin(maxLat) rounds to 1, math.Asin(>1) = NaN,
    math.Min(maxLat, lat.Hi + NaN) = NaN, and the NaN survives Union, expanded and
    PolarClosure.  Replayed on the Go code by the observer (kind RectBounder.AddPoint.NaN). *)
From Coq Require Import ZArith Floats Bool List.
From Geo Require Import Base.GoPrim Gen.Bounds Model.Bounds.
Import ListNotations.

Definition wit_a : s2_Point :=
  mk_s2_Point (mk_r3_Vector (0x1.56e35039ce7a2p-02)%float (-0x1.92c76039a2546p-03)%float (0x1.d7d138f73c035p-01)%float).
Definition wit_b : s2_Point :=
  mk_s2_Point (mk_r3_Vector (-0x1.56e35063cd04ep-02)%float (0x1.92c7606af6a04p-03)%float (-0x1.d7d138ecf9065p-01)%float).

(** |v|^2 - 1 within the library's IsUnit tolerance 5e-15 *)
Definition is_unit (p : s2_Point) : bool :=
  PrimFloat.leb (PrimFloat.abs (PrimFloat.sub (r3_Vector_Norm2 (s2_Point_Vector p)) 1)) (0x1.6849b86a12b9bp-48)%float.

Theorem bounder_nan_refuted : exists a b,
  is_unit a = true /\ is_unit b = true /\
  s2_LatLng_IsValid (s2_LatLngFromPoint a) = true /\ s2_LatLng_IsValid (s2_LatLngFromPoint b) = true /\
  (* the two vertices are not within the "nearly antipodal" fallback *)
  edge_tag a b (s2_LatLngFromPoint a) (s2_LatLngFromPoint b) = 2%Z /\
  (* the final bound has a NaN upper latitude and therefore contains neither vertex *)
  go_isnan (r1_Interval_Hi (s2_Rect_Lat (rect_bound (bounder_run [a; b])))) = true /\
  s2_Rect_ContainsPoint (rect_bound (bounder_run [a; b])) a = false /\
  s2_Rect_ContainsPoint (rect_bound (bounder_run [a; b])) b = false.
Proof. exists wit_a, wit_b. vm_compute. repeat split. Qed.
