(** C10 finding (REPAIRED in /repo by aed5357; kept as the witness for the pre-fix variant):
    the full-strength statement "every edge rectangle computed by
    RectBounder.AddPoint for unit-length vertices with valid LatLngs is well formed (no NaN
    endpoint), hence RectBound() contains the vertices" is FALSE of the faithful model of the
    unchanged code.  Witness: two normalised points (|p|^2 = 1 + 2^-52), 3e-9 rad from
    antipodal, whose great circle passes within 1e-8 of a pole:
    0.5*|a-b| rounds to 1 + 2^-52, sin(maxLat) rounds to 1, math.Asin(>1) = NaN,
    math.Min(maxLat, lat.Hi + NaN) = NaN, and the NaN survives Union, expanded and
    PolarClosure.  Replayed on the Go code by the observer (kind RectBounder.AddPoint.NaN). *)
From Coq Require Import ZArith Floats Bool List.
From Geo Require Import Base.GoPrim Gen.Bounds Model.Bounds.
Import ListNotations.

Definition wit_a : s2_Point :=
  mk_s2_Point (mk_r3_Vector (0x1.56e35039ce7a2p-02)%float (-0x1.92c76039a2546p-03)%float (0x1.d7d138f73c035p-01)%float).
Definition wit_b : s2_Point :=
  mk_s2_Point (mk_r3_Vector (-0x1.56e35063cd04ep-02)%float (0x1.92c7606af6a04p-03)%float (-0x1.d7d138ecf9065p-01)%float).

(** |v|^2 - 1 within the library's IsUnit tolerance 5e-15 *)
Definition is_unit (p : s2_Point) : bool :=
  PrimFloat.leb (PrimFloat.abs (PrimFloat.sub (r3_Vector_Norm2 (s2_Point_Vector p)) 1)) (0x1.6849b86a12b9bp-48)%float.

(** Before /repo aed5357 (model [bounder_run_old], Asin argument 0.5*|a-b|*sin(maxLat)). *)
Theorem bounder_nan_old_refuted : exists a b,
  is_unit a = true /\ is_unit b = true /\
  s2_LatLng_IsValid (s2_LatLngFromPoint a) = true /\ s2_LatLng_IsValid (s2_LatLngFromPoint b) = true /\
  (* the two vertices are not within the "nearly antipodal" fallback *)
  edge_tag_old a b (s2_LatLngFromPoint a) (s2_LatLngFromPoint b) = 2%Z /\
  (* the final bound has a NaN upper latitude and therefore contains neither vertex *)
  go_isnan (r1_Interval_Hi (s2_Rect_Lat (rect_bound (bounder_run_old [a; b])))) = true /\
  s2_Rect_ContainsPoint (rect_bound (bounder_run_old [a; b])) a = false /\
  s2_Rect_ContainsPoint (rect_bound (bounder_run_old [a; b])) b = false.
Proof. exists wit_a, wit_b. vm_compute. repeat split. Qed.

(** After the repair (model [bounder_run], argument min(1, (1+4 eps)*0.5*|a-b|*sin(maxLat))) the
    same chain has a NaN-free bound reaching the pole and containing both vertices, and so does
    the nearly antipodal edge through the north pole whose bound used to stop 1.5e-8 rad short. *)
Definition wit_c : s2_Point :=
  mk_s2_Point (mk_r3_Vector (-0x1.b94698402c4c9p-03)%float 0%float (-0x1.f3f9466b218f9p-01)%float).
Definition wit_d : s2_Point :=
  mk_s2_Point (mk_r3_Vector (0x1.b946983dbefa9p-03)%float 0%float (0x1.f3f9466b43d59p-01)%float).
Definition north_pole : s2_Point := mk_s2_Point (mk_r3_Vector 0 0 1).

Theorem bounder_witnesses_repaired :
  (go_isnan (r1_Interval_Hi (s2_Rect_Lat (rect_bound (bounder_run [wit_a; wit_b])))) = false /\
   s2_Rect_ContainsPoint (rect_bound (bounder_run [wit_a; wit_b])) wit_a = true /\
   s2_Rect_ContainsPoint (rect_bound (bounder_run [wit_a; wit_b])) wit_b = true) /\
  (s2_Rect_ContainsPoint (rect_bound (bounder_run_old [wit_c; wit_d])) north_pole = false /\
   s2_Rect_ContainsPoint (rect_bound (bounder_run [wit_c; wit_d])) north_pole = true).
Proof. vm_compute. repeat split. Qed.
