(** C11 — CellIndex.Build, top level: the range nodes partition the leaf ids in increasing
    order and each points at exactly the (cell, label) pairs covering its leaves. *)
From Coq Require Import ZArith List Bool Lia ZifyBool Sorted Permutation.
From Geo Require Import Base.GoPrim Gen.CellID Model.CellUnion Model.CellIndex
  Proofs.C11_Bits Proofs.C11_Cells Proofs.C11_Normalize Proofs.C11_Unique Proofs.C11_Search Proofs.C11_SetOps Proofs.C11_Range
  Proofs.C11_Index.
Import ListNotations.
Local Open Scope Z_scope.

Definition covers_pair (x : Z) (a : pair) : bool := (rmin (fst a) <=? x) && (x <=? rmax (fst a)).
Definition labels_ok (tree : list node) : Prop := Forall (fun nd => 0 <= n_label nd) tree.

(** what Build establishes *)
Record built (adds : list pair) (tree : list node) (rs : list rnode) : Prop := {
  b_wf : tree_wf tree;
  b_labels : labels_ok tree;
  b_sorted : StronglySorted Z.lt (map fst rs);
  b_first : hd 0 (map fst rs) = first_leaf;
  b_last : last (map fst rs) 0 = end_leaf;
  b_ranges : Forall (fun rn => exists stk, is_chain tree (snd rn) stk /\
                               StronglySorted nested_pair (pairs_of tree stk) /\
                               Permutation (pairs_of tree stk) (open_at adds (fst rn))) rs;
  b_mono : chain_mono tree rs;
  b_starts : forall a, In a adds -> In (p_open a) (map fst rs) /\ In (p_close a) (map fst rs)
}.

Lemma build_walk_labels : forall ds tree contents, labels_ok tree -> labels_ok (fst (build_walk ds tree contents)).
Proof.
  induction ds as [|d rest IH]; intros tree contents L; [exact L|].
  rewrite build_walk_cons. cbv zeta.
  assert (L' : labels_ok (fst (apply_delta d tree contents))).
  { unfold apply_delta. destruct (Z.leb_spec 0 (d_label d)); [|destruct (d_cell d =? SentinelCellID); exact L].
    cbn [fst]. apply Forall_app. split; [exact L|]. constructor; [cbn; lia|constructor]. }
  destruct (match rest with d2 :: _ => d_start d2 =? d_start d | [] => false end); cbn [fst]; apply IH; exact L'.
Qed.

Lemma sorted_hd l x : StronglySorted Z.lt l -> In x l -> (forall y, In y l -> x <= y) -> hd 0 l = x.
Proof.
  intros S Hin Hmin. destruct l as [|h t]; [destruct Hin|]. cbn.
  destruct Hin as [->|Hin]; [reflexivity|]. inversion S as [|? ? _ F]; subst. rewrite Forall_forall in F.
  specialize (F x Hin). specialize (Hmin h ltac:(left; reflexivity)). lia.
Qed.

Lemma sorted_last l x : StronglySorted Z.lt l -> In x l -> (forall y, In y l -> y <= x) -> last l 0 = x.
Proof.
  induction l as [|h t IH]; intros S Hin Hmax; [destruct Hin|].
  inversion S as [|? ? S' F]; subst. rewrite Forall_forall in F.
  destruct t as [|h2 t'].
  - destruct Hin as [->|[]]. reflexivity.
  - change (last (h :: h2 :: t') 0) with (last (h2 :: t') 0). apply IH; [exact S'| |intros; apply Hmax; right; assumption].
    destruct Hin as [->|Hin]; [|exact Hin]. exfalso.
    specialize (F h2 ltac:(left; reflexivity)). specialize (Hmax h2 ltac:(right; left; reflexivity)). lia.
Qed.

Theorem build_spec adds : Forall good_pair adds -> built adds (fst (ci_Build adds)) (snd (ci_Build adds)).
Proof.
  intros Hadds. unfold ci_Build. set (D := sort_deltas (all_deltas adds)).
  pose proof (sort_deltas_perm (all_deltas adds)) as HP. fold D in HP.
  pose proof (sort_deltas_sorted (all_deltas adds)) as HS. fold D in HS.
  assert (I0 : INV [] [] (-1) [] []).
  { constructor.
    - intros i Hi. unfold nlen in Hi. cbn in Hi. lia.
    - constructor.
    - constructor.
    - constructor.
    - intros q. reflexivity. }
  destruct (walk_ok adds Hadds D HP HS D [] [] (-1) [] [] eq_refl I0) as (ext & Ef & Wf & Fr & Cm).
  cbn [app] in *. rewrite Ef.
  pose proof (build_walk_starts D [] (-1)) as Est.
  destruct (gstarts_spec D (sorted_start_sorted D HS)) as (G1 & G2 & _).
  assert (Hkinds : forall d, In d D -> 1 <= d_start d <= end_leaf).
  { intros d Hd. pose proof Hadds as HA. rewrite Forall_forall in HA. rewrite end_leaf_eq.
    destruct (delta_kinds adds Hadds d (Permutation_in _ (Permutation_sym HP) Hd)) as [(a & Ha & ->)|[(a & Ha & ->)|[->| ->]]];
      cbn [d_start fst]; try (destruct (HA a Ha) as [V _]; pose proof (valid_range _ V); unfold p_open, p_close; lia).
    - rewrite first_leaf_eq. lia.
    - rewrite end_leaf_eq. lia. }
  constructor.
  - exact Wf.
  - rewrite <- Ef. apply build_walk_labels. constructor.
  - rewrite Est. exact G1.
  - rewrite Est. apply sorted_hd; [exact G1| |].
    + apply G2. exists (first_leaf, 0, -1). split; [|reflexivity]. apply (Permutation_in _ HP).
      unfold all_deltas. apply in_or_app. right. left. reflexivity.
    + intros y Hy. apply G2 in Hy. destruct Hy as (d & Hd & <-). rewrite first_leaf_eq. apply Hkinds. exact Hd.
  - rewrite Est. apply sorted_last; [exact G1| |].
    + apply G2. exists (end_leaf, 0, -1). split; [|reflexivity]. apply (Permutation_in _ HP).
      unfold all_deltas. apply in_or_app. right. right. left. reflexivity.
    + intros y Hy. apply G2 in Hy. destruct Hy as (d & Hd & <-). apply Hkinds. exact Hd.
  - eapply Forall_impl; [|exact Fr]. intros rn (s & H1 & H2 & H3 & _). exists s. auto.
  - exact Cm.
  - intros a Ha. rewrite Est. pose proof Hadds as HA. rewrite Forall_forall in HA.
    split; apply G2.
    + exists (p_open a, fst a, snd a). split; [|reflexivity]. apply (Permutation_in _ HP). unfold all_deltas. apply in_or_app. left.
      apply in_flat_map. exists a. split; [exact Ha|]. rewrite (deltas_of_eq a (HA a Ha)). left. reflexivity.
    + exists (p_close a, SentinelCellID, -1). split; [|reflexivity]. apply (Permutation_in _ HP). unfold all_deltas. apply in_or_app. left.
      apply in_flat_map. exists a. split; [exact Ha|]. rewrite (deltas_of_eq a (HA a Ha)). right. left. reflexivity.
Qed.
