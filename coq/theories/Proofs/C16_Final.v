(** C16: the last two steps of Intersection (hemisphere sign, canonical zero) turn a point and
    its opposite-up-to-zero-signs into the SAME float triple, bit for bit, provided the
    hemisphere dot product is neither zero nor NaN; and the composition for the stable path. *)
From Coq Require Import ZArith Reals Floats SpecFloat Lra Lia Bool List.
From Flocq Require Import Core.Core IEEE754.BinarySingleNaN IEEE754.PrimFloat.
From Geo Require Import Base.GoPrim Base.F64 Gen.R3 Gen.S2Point Gen.Isect Model.IsectExact.
From Geo Require Import Proofs.C16_F64Exact Proofs.C16_Coll Proofs.C16_Sym.
Local Open Scope float_scope.

Lemma fopp_involutive x : - (- x) = x.
Proof. apply Prim2SF_inj. rewrite !opp_spec. apply SFopp_involutive. Qed.

Lemma finite_opp x : finite x -> finite (- x).
Proof. unfold finite. rewrite opp_equiv. now rewrite is_finite_Bopp. Qed.

Lemma finite_of_zeroS x s : Prim2SF x = S754_zero s -> finite x.
Proof.
  unfold finite. rewrite <- B2SF_Prim2B. destruct (Prim2B x); simpl; congruence.
Qed.

Lemma add_zero_of_zeroS x s : Prim2SF x = S754_zero s -> Prim2SF (x + 0) = S754_zero false.
Proof.
  intros H. rewrite add_spec, H. replace (Prim2SF 0) with (S754_zero false) by reflexivity.
  destruct s; reflexivity.
Qed.

(** one coordinate *)
Lemma canon_coord p p' : finite p -> fneg p' p ->
  ((-1) * p') + 0 = p + 0 /\ p' + 0 = ((-1) * p) + 0.
Proof.
  intros Fp [H|[[s Hs] [t Ht]]].
  - assert (E : p' = - p) by (apply Prim2SF_inj; now rewrite opp_spec).
    subst p'. rewrite (mul_neg1 (- p)) by now apply finite_opp.
    rewrite fopp_involutive, (mul_neg1 p) by assumption. split; reflexivity.
  - assert (Fp' : finite p') by (eapply finite_of_zeroS; eassumption).
    rewrite (mul_neg1 p'), (mul_neg1 p) by assumption.
    split; apply Prim2SF_inj.
    + rewrite (add_zero_of_zeroS (- p') (negb s)) by (rewrite opp_spec, Hs; reflexivity).
      now rewrite (add_zero_of_zeroS p t).
    + rewrite (add_zero_of_zeroS p' s) by assumption.
      now rewrite (add_zero_of_zeroS (- p) (negb t)) by (rewrite opp_spec, Ht; reflexivity).
Qed.

(** the hemisphere dot product is "decisive": neither a zero nor NaN *)
Definition decisive (d : PrimFloat.float) : Prop :=
  match Prim2SF d with S754_finite _ _ _ | S754_infinity _ => True | _ => False end.

Lemma ltb_zero_opp d d' : decisive d -> fneg d' d -> PrimFloat.ltb d' 0 = negb (PrimFloat.ltb d 0).
Proof.
  unfold decisive, fneg. rewrite !ltb_spec. replace (Prim2SF 0) with (S754_zero false) by reflexivity.
  intros D [->|[[s Hs] [t Ht]]].
  - destruct (Prim2SF d) as [[|]|[|]| |[|] m e]; try contradiction; reflexivity.
  - rewrite Ht in D. contradiction.
Qed.

Lemma dot_fneg3_l u u' w : fneg3 u u' -> fneg (r3_Vector_Dot u w) (r3_Vector_Dot u' w).
Proof.
  destruct u, u', w. unfold fneg3, r3_Vector_Dot. simpl. intros (Hx & Hy & Hz).
  repeat apply fadd_fneg; now apply fmul_fneg_l.
Qed.

(** the two last steps of Intersection as one function of the point and the vertex sum *)
Definition finish (pt : s2_Point) (S : r3_Vector) : s2_Point :=
  isect_canon_zero (if PrimFloat.ltb (r3_Vector_Dot (s2_Point_Vector pt) S) 0
                    then mk_s2_Point (r3_Vector_Mul (s2_Point_Vector pt) (-1)) else pt).

Definition vertex_sum (a0 a1 b0 b1 : s2_Point) : r3_Vector :=
  r3_Vector_Add (r3_Vector_Add (s2_Point_Vector a0) (s2_Point_Vector a1))
                (r3_Vector_Add (s2_Point_Vector b0) (s2_Point_Vector b1)).

Lemma finish_spec pt a0 a1 b0 b1 :
  isect_canon_zero (isect_fix_sign pt a0 a1 b0 b1) = finish pt (vertex_sum a0 a1 b0 b1).
Proof. reflexivity. Qed.

Definition finite3f (v : r3_Vector) : Prop :=
  finite (r3_Vector_X v) /\ finite (r3_Vector_Y v) /\ finite (r3_Vector_Z v).

Theorem finish_fneg3 pt pt' S :
  finite3f (s2_Point_Vector pt) -> fneg3 (s2_Point_Vector pt') (s2_Point_Vector pt) ->
  decisive (r3_Vector_Dot (s2_Point_Vector pt) S) ->
  finish pt' S = finish pt S.
Proof.
  destruct pt as [[x y z]], pt' as [[x' y' z']]. unfold finite3f, fneg3. simpl.
  intros (Fx & Fy & Fz) (Hx & Hy & Hz) D. unfold finish. simpl s2_Point_Vector.
  assert (H3 : fneg3 (mk_r3_Vector x' y' z') (mk_r3_Vector x y z)) by (repeat split; assumption).
  rewrite (ltb_zero_opp _ _ D (dot_fneg3_l _ _ S H3)).
  destruct (canon_coord x x' Fx Hx) as [X1 X2], (canon_coord y y' Fy Hy) as [Y1 Y2],
           (canon_coord z z' Fz Hz) as [Z1 Z2].
  destruct (PrimFloat.ltb _ 0); simpl; unfold isect_canon_zero, r3_Vector_Add, r3_Vector_Mul; simpl;
  congruence.
Qed.

(** vertex sum under the argument orders *)
Lemma vertex_sum_sym a0 a1 b0 b1 :
  vertex_sum a1 a0 b0 b1 = vertex_sum a0 a1 b0 b1 /\ vertex_sum a0 a1 b1 b0 = vertex_sum a0 a1 b0 b1 /\
  vertex_sum b0 b1 a0 a1 = vertex_sum a0 a1 b0 b1.
Proof.
  unfold vertex_sum. repeat split.
  - now rewrite (add_comm3 (s2_Point_Vector a1)).
  - now rewrite (add_comm3 (s2_Point_Vector b1)).
  - apply add_comm3.
Qed.

(** ** Intersection when the stable path decides *)
Lemma Intersection_stable exact a0 a1 b0 b1 pt :
  s2_intersectionStable a0 a1 b0 b1 = (pt, true) ->
  s2_Intersection_with exact a0 a1 b0 b1 = finish pt (vertex_sum a0 a1 b0 b1).
Proof.
  intros H. unfold s2_Intersection_with, s2_Intersection_signed. rewrite H. apply finish_spec.
Qed.

(** swapping the two edges: bit-identical result (stable path) *)
Theorem isect_stable_swap exact a0 a1 b0 b1 pt : nnp a0 -> nnp a1 -> nnp b0 -> nnp b1 ->
  nonnan (edge_len2 a0 a1) -> nonnan (edge_len2 b0 b1) -> kmin a0 a1 <> kmin b0 b1 ->
  s2_intersectionStable a0 a1 b0 b1 = (pt, true) ->
  s2_Intersection_with exact b0 b1 a0 a1 = s2_Intersection_with exact a0 a1 b0 b1.
Proof.
  intros Na0 Na1 Nb0 Nb1 La Lb D H.
  rewrite (Intersection_stable exact a0 a1 b0 b1 pt H).
  rewrite (Intersection_stable exact b0 b1 a0 a1 pt) by (now rewrite stable_swap_symmetric).
  destruct (vertex_sum_sym a0 a1 b0 b1) as (_ & _ & ->). reflexivity.
Qed.

(** reversing the edge that the stable path interpolates along (the one treated second):
    bit-identical result, provided the hemisphere dot product is decisive *)
Theorem isect_stable_reverse_second exact a0 a1 b0 b1 pt : nnp a0 -> nnp a1 -> nnp b0 -> nnp b1 ->
  first_is_b a0 a1 b0 b1 = false ->
  s2_intersectionStable a0 a1 b0 b1 = (pt, true) -> finite3f (s2_Point_Vector pt) ->
  decisive (r3_Vector_Dot (s2_Point_Vector pt) (vertex_sum a0 a1 b0 b1)) ->
  s2_Intersection_with exact a0 a1 b1 b0 = s2_Intersection_with exact a0 a1 b0 b1.
Proof.
  intros Na0 Na1 Nb0 Nb1 FB H F D.
  rewrite (Intersection_stable exact a0 a1 b0 b1 pt H).
  destruct (stable_reverse_dispatch a0 a1 b0 b1 Na0 Na1 Nb0 Nb1) as [_ R]. rewrite FB in R.
  rewrite stable_dispatch, FB in H.
  destruct (sorted_reverse_second a0 a1 b0 b1) as [Ok Neg]. rewrite H in Ok, Neg. simpl in Ok, Neg.
  destruct (s2_intersectionStableSorted a0 a1 b1 b0) as [pt' ok'] eqn:E. simpl in Ok, Neg. subst ok'.
  rewrite (Intersection_stable exact a0 a1 b1 b0 pt' R).
  destruct (vertex_sum_sym a0 a1 b0 b1) as (_ & -> & _).
  now apply finish_fneg3.
Qed.

Theorem isect_stable_reverse_second' exact a0 a1 b0 b1 pt : nnp a0 -> nnp a1 -> nnp b0 -> nnp b1 ->
  first_is_b a0 a1 b0 b1 = true ->
  s2_intersectionStable a0 a1 b0 b1 = (pt, true) -> finite3f (s2_Point_Vector pt) ->
  decisive (r3_Vector_Dot (s2_Point_Vector pt) (vertex_sum a0 a1 b0 b1)) ->
  s2_Intersection_with exact a1 a0 b0 b1 = s2_Intersection_with exact a0 a1 b0 b1.
Proof.
  intros Na0 Na1 Nb0 Nb1 FB H F D.
  rewrite (Intersection_stable exact a0 a1 b0 b1 pt H).
  destruct (stable_reverse_dispatch a0 a1 b0 b1 Na0 Na1 Nb0 Nb1) as [R _]. rewrite FB in R.
  rewrite stable_dispatch, FB in H.
  destruct (sorted_reverse_second b0 b1 a0 a1) as [Ok Neg]. rewrite H in Ok, Neg. simpl in Ok, Neg.
  destruct (s2_intersectionStableSorted b0 b1 a1 a0) as [pt' ok'] eqn:E. simpl in Ok, Neg. subst ok'.
  rewrite (Intersection_stable exact a1 a0 b0 b1 pt' R).
  destruct (vertex_sum_sym a0 a1 b0 b1) as (-> & _ & _).
  now apply finish_fneg3.
Qed.

(** ** projection and intersectionStableSorted under reversal of the FIRST edge *)
Lemma dot_fneg3_r u w w' : fneg3 w w' -> fneg (r3_Vector_Dot u w) (r3_Vector_Dot u w').
Proof. intros H. rewrite (dot_comm u w), (dot_comm u w'). now apply dot_fneg3_l. Qed.

(** the offsets of x from the two endpoints can be compared (no NaN) and, when equidistant,
    are told apart by Cmp (always the case unless the edge is shorter than one ulp of the
    offsets) *)
Definition proj_ok (x : r3_Vector) (a0 a1 : s2_Point) : Prop :=
  let x0 := r3_Vector_Sub x (s2_Point_Vector a0) in
  let x1 := r3_Vector_Sub x (s2_Point_Vector a1) in
  nonnan3 x0 /\ nonnan3 x1 /\ nonnan (r3_Vector_Norm2 x0) /\ nonnan (r3_Vector_Norm2 x1) /\
  (rank (r3_Vector_Norm2 x0) = rank (r3_Vector_Norm2 x1) -> key x0 <> key x1).

Theorem projection_reverse x aNorm aNorm' len a0 a1 : proj_ok x a0 a1 -> fneg3 aNorm' aNorm ->
  snd (s2_projection x aNorm' len a1 a0) = snd (s2_projection x aNorm len a0 a1) /\
  fneg (fst (s2_projection x aNorm' len a1 a0)) (fst (s2_projection x aNorm len a0 a1)).
Proof.
  unfold proj_ok, s2_projection. cbv zeta.
  set (x0 := r3_Vector_Sub x (s2_Point_Vector a0)). set (x1 := r3_Vector_Sub x (s2_Point_Vector a1)).
  set (d0 := r3_Vector_Norm2 x0). set (d1 := r3_Vector_Norm2 x1).
  intros (N0 & N1 & ND0 & ND1 & K) HN.
  assert (C : ((PrimFloat.ltb d1 d0 || (PrimFloat.eqb d1 d0 && Z.eqb (r3_Vector_Cmp x1 x0) (-1)))%bool
              = negb (PrimFloat.ltb d0 d1 || (PrimFloat.eqb d0 d1 && Z.eqb (r3_Vector_Cmp x0 x1) (-1))))%bool).
  { rewrite !ltb_rank, !eqb_rank by assumption.
    destruct (Raux.Rlt_bool_spec (rank d1) (rank d0)); destruct (Raux.Rlt_bool_spec (rank d0) (rank d1));
    destruct (Raux.Req_bool_spec (rank d1) (rank d0)); destruct (Raux.Req_bool_spec (rank d0) (rank d1));
    try lra; simpl; try reflexivity; try congruence.
    specialize (K ltac:(assumption)).
    pose proof (Cmp_lt_iff x0 x1 N0 N1) as C01. pose proof (Cmp_lt_iff x1 x0 N1 N0) as C10.
    destruct (lexlt_trichotomy (key x0) (key x1)) as [L|[E|L]]; [|contradiction|].
    - rewrite (proj2 C01 L). simpl.
      destruct (Z.eqb_spec (r3_Vector_Cmp x1 x0) (-1)) as [E'|E']; [|reflexivity].
      apply C10 in E'. exfalso. exact (lexlt_asym _ _ L E').
    - rewrite (proj2 C10 L). simpl.
      destruct (Z.eqb_spec (r3_Vector_Cmp x0 x1) (-1)) as [E'|E']; [|reflexivity].
      apply C01 in E'. exfalso. exact (lexlt_asym _ _ L E'). }
  rewrite C.
  destruct (PrimFloat.ltb d0 d1 || _)%bool; simpl.
  - pose proof (dot_fneg3_r x0 _ _ HN) as P. rewrite (fabs_fneg _ _ P). split; [reflexivity|exact P].
  - pose proof (dot_fneg3_r x1 _ _ HN) as P. rewrite (fabs_fneg _ _ P). split; [reflexivity|exact P].
Qed.

Lemma sub_fneg3_gen u u' v v' : fneg3 u u' -> fneg3 v v' -> fneg3 (r3_Vector_Sub u v) (r3_Vector_Sub u' v').
Proof.
  destruct u, u', v, v'. unfold fneg3, r3_Vector_Sub. simpl. intros (? & ? & ?) (? & ? & ?).
  repeat split; now apply fsub_fneg.
Qed.
Lemma mul_scalar_fneg3 u m m' : fneg m m' -> fneg3 (r3_Vector_Mul u m) (r3_Vector_Mul u m').
Proof.
  destruct u. unfold fneg3, r3_Vector_Mul. simpl. intros H. repeat split; now apply fmul_fneg_l.
Qed.

Theorem sorted_reverse_first a0 a1 b0 b1 :
  proj_ok (s2_Point_Vector b0) a0 a1 -> proj_ok (s2_Point_Vector b1) a0 a1 ->
  snd (s2_intersectionStableSorted a1 a0 b0 b1) = snd (s2_intersectionStableSorted a0 a1 b0 b1) /\
  fneg3 (s2_Point_Vector (fst (s2_intersectionStableSorted a1 a0 b0 b1)))
        (s2_Point_Vector (fst (s2_intersectionStableSorted a0 a1 b0 b1))).
Proof.
  intros P0 P1. unfold s2_intersectionStableSorted. cbv zeta.
  pose proof (stable_normal_anti (s2_Point_Vector a0) (s2_Point_Vector a1)) as HN.
  set (aNorm := r3_Vector_Cross (r3_Vector_Sub (s2_Point_Vector a0) (s2_Point_Vector a1)) _) in *.
  set (aNorm' := r3_Vector_Cross (r3_Vector_Sub (s2_Point_Vector a1) (s2_Point_Vector a0)) _) in *.
  rewrite (norm_fneg3 _ _ HN).
  destruct (projection_reverse _ _ _ (r3_Vector_Norm aNorm) a0 a1 P0 HN) as [E0 F0].
  destruct (projection_reverse _ _ _ (r3_Vector_Norm aNorm) a0 a1 P1 HN) as [E1 F1].
  destruct (s2_projection (s2_Point_Vector b0) aNorm (r3_Vector_Norm aNorm) a0 a1) as [d0 e0].
  destruct (s2_projection (s2_Point_Vector b1) aNorm (r3_Vector_Norm aNorm) a0 a1) as [d1 e1].
  destruct (s2_projection (s2_Point_Vector b0) aNorm' (r3_Vector_Norm aNorm) a1 a0) as [d0' e0'].
  destruct (s2_projection (s2_Point_Vector b1) aNorm' (r3_Vector_Norm aNorm) a1 a0) as [d1' e1'].
  simpl in E0, E1, F0, F1. subst e0' e1'.
  rewrite (fabs_fneg _ _ (fsub_fneg _ _ _ _ F0 F1)).
  destruct (PrimFloat.leb _ _); [simpl; split; [reflexivity | apply fneg3_zero]|].
  set (x := r3_Vector_Sub (r3_Vector_Mul (s2_Point_Vector b1) d0) (r3_Vector_Mul (s2_Point_Vector b0) d1)).
  set (x' := r3_Vector_Sub (r3_Vector_Mul (s2_Point_Vector b1) d0') (r3_Vector_Mul (s2_Point_Vector b0) d1')).
  assert (Hx : fneg3 x' x) by (apply sub_fneg3_gen; now apply mul_scalar_fneg3).
  rewrite (norm2_fneg3 _ _ Hx), (norm_fneg3 _ _ Hx).
  rewrite (fabs_fneg _ _ (fsub_fneg _ _ _ _ (fmul_fneg_l _ _ e1 F0) (fmul_fneg_l _ _ e0 F1))).
  destruct (PrimFloat.ltb (r3_Vector_Norm2 x) _); [simpl; split; [reflexivity | apply fneg3_zero]|].
  destruct (PrimFloat.ltb _ _); simpl; (split; [reflexivity|]); [apply fneg3_zero | now apply mul_fneg3].
Qed.

(** reversing the edge treated FIRST by the stable path *)
Theorem isect_stable_reverse_first exact a0 a1 b0 b1 pt : nnp a0 -> nnp a1 -> nnp b0 -> nnp b1 ->
  first_is_b a0 a1 b0 b1 = false ->
  proj_ok (s2_Point_Vector b0) a0 a1 -> proj_ok (s2_Point_Vector b1) a0 a1 ->
  s2_intersectionStable a0 a1 b0 b1 = (pt, true) -> finite3f (s2_Point_Vector pt) ->
  decisive (r3_Vector_Dot (s2_Point_Vector pt) (vertex_sum a0 a1 b0 b1)) ->
  s2_Intersection_with exact a1 a0 b0 b1 = s2_Intersection_with exact a0 a1 b0 b1.
Proof.
  intros Na0 Na1 Nb0 Nb1 FB P0 P1 H F D.
  rewrite (Intersection_stable exact a0 a1 b0 b1 pt H).
  destruct (stable_reverse_dispatch a0 a1 b0 b1 Na0 Na1 Nb0 Nb1) as [R _]. rewrite FB in R.
  rewrite stable_dispatch, FB in H.
  destruct (sorted_reverse_first a0 a1 b0 b1 P0 P1) as [Ok Neg]. rewrite H in Ok, Neg. simpl in Ok, Neg.
  destruct (s2_intersectionStableSorted a1 a0 b0 b1) as [pt' ok'] eqn:E. simpl in Ok, Neg. subst ok'.
  rewrite (Intersection_stable exact a1 a0 b0 b1 pt' R).
  destruct (vertex_sum_sym a0 a1 b0 b1) as (-> & _ & _).
  now apply finish_fneg3.
Qed.

Theorem isect_stable_reverse_first' exact a0 a1 b0 b1 pt : nnp a0 -> nnp a1 -> nnp b0 -> nnp b1 ->
  first_is_b a0 a1 b0 b1 = true ->
  proj_ok (s2_Point_Vector a0) b0 b1 -> proj_ok (s2_Point_Vector a1) b0 b1 ->
  s2_intersectionStable a0 a1 b0 b1 = (pt, true) -> finite3f (s2_Point_Vector pt) ->
  decisive (r3_Vector_Dot (s2_Point_Vector pt) (vertex_sum a0 a1 b0 b1)) ->
  s2_Intersection_with exact a0 a1 b1 b0 = s2_Intersection_with exact a0 a1 b0 b1.
Proof.
  intros Na0 Na1 Nb0 Nb1 FB P0 P1 H F D.
  rewrite (Intersection_stable exact a0 a1 b0 b1 pt H).
  destruct (stable_reverse_dispatch a0 a1 b0 b1 Na0 Na1 Nb0 Nb1) as [_ R]. rewrite FB in R.
  rewrite stable_dispatch, FB in H.
  destruct (sorted_reverse_first b0 b1 a0 a1 P0 P1) as [Ok Neg]. rewrite H in Ok, Neg. simpl in Ok, Neg.
  destruct (s2_intersectionStableSorted b1 b0 a0 a1) as [pt' ok'] eqn:E. simpl in Ok, Neg. subst ok'.
  rewrite (Intersection_stable exact a0 a1 b1 b0 pt' R).
  destruct (vertex_sum_sym a0 a1 b0 b1) as (_ & -> & _).
  now apply finish_fneg3.
Qed.

(** * isect_symmetric (stable path): all three generators of the 8 argument orders *)
Definition stable_side_conditions (a0 a1 b0 b1 : s2_Point) : Prop :=
  nnp a0 /\ nnp a1 /\ nnp b0 /\ nnp b1 /\
  nonnan (edge_len2 a0 a1) /\ nonnan (edge_len2 b0 b1) /\ kmin a0 a1 <> kmin b0 b1 /\
  (if first_is_b a0 a1 b0 b1
   then proj_ok (s2_Point_Vector a0) b0 b1 /\ proj_ok (s2_Point_Vector a1) b0 b1
   else proj_ok (s2_Point_Vector b0) a0 a1 /\ proj_ok (s2_Point_Vector b1) a0 a1).

Theorem isect_symmetric exact a0 a1 b0 b1 pt : stable_side_conditions a0 a1 b0 b1 ->
  s2_intersectionStable a0 a1 b0 b1 = (pt, true) -> finite3f (s2_Point_Vector pt) ->
  decisive (r3_Vector_Dot (s2_Point_Vector pt) (vertex_sum a0 a1 b0 b1)) ->
  s2_Intersection_with exact a1 a0 b0 b1 = s2_Intersection_with exact a0 a1 b0 b1 /\
  s2_Intersection_with exact a0 a1 b1 b0 = s2_Intersection_with exact a0 a1 b0 b1 /\
  s2_Intersection_with exact b0 b1 a0 a1 = s2_Intersection_with exact a0 a1 b0 b1.
Proof.
  intros (Na0 & Na1 & Nb0 & Nb1 & La & Lb & K & P) H F D.
  destruct (first_is_b a0 a1 b0 b1) eqn:FB; destruct P as [P0 P1].
  - split; [|split].
    + eapply isect_stable_reverse_second'; eassumption.
    + eapply isect_stable_reverse_first'; eassumption.
    + eapply isect_stable_swap; eassumption.
  - split; [|split].
    + eapply isect_stable_reverse_first; eassumption.
    + eapply isect_stable_reverse_second; eassumption.
    + eapply isect_stable_swap; eassumption.
Qed.

(** * the side conditions as a computable test, and an instance *)
Local Open Scope bool_scope.
Definition nn (x : PrimFloat.float) : bool := negb (go_isnan x).
Definition nn3 (v : r3_Vector) : bool := nn (r3_Vector_X v) && nn (r3_Vector_Y v) && nn (r3_Vector_Z v).
Definition emin (p q : s2_Point) : s2_Point :=
  if Z.eqb (r3_Vector_Cmp (s2_Point_Vector p) (s2_Point_Vector q)) (-1) then p else q.
Definition proj_ok_b (x : r3_Vector) (a0 a1 : s2_Point) : bool :=
  let x0 := r3_Vector_Sub x (s2_Point_Vector a0) in
  let x1 := r3_Vector_Sub x (s2_Point_Vector a1) in
  nn3 x0 && nn3 x1 && nn (r3_Vector_Norm2 x0) && nn (r3_Vector_Norm2 x1) &&
  (negb (PrimFloat.eqb (r3_Vector_Norm2 x0) (r3_Vector_Norm2 x1)) || negb (r3_Vector_eqb x0 x1)).
Definition side_conditions_b (a0 a1 b0 b1 : s2_Point) : bool :=
  nn3 (s2_Point_Vector a0) && nn3 (s2_Point_Vector a1) && nn3 (s2_Point_Vector b0) && nn3 (s2_Point_Vector b1) &&
  nn (edge_len2 a0 a1) && nn (edge_len2 b0 b1) &&
  negb (r3_Vector_eqb (s2_Point_Vector (emin a0 a1)) (s2_Point_Vector (emin b0 b1))) &&
  (if first_is_b a0 a1 b0 b1
   then proj_ok_b (s2_Point_Vector a0) b0 b1 && proj_ok_b (s2_Point_Vector a1) b0 b1
   else proj_ok_b (s2_Point_Vector b0) a0 a1 && proj_ok_b (s2_Point_Vector b1) a0 a1).
Definition decisive_b (d : PrimFloat.float) : bool := nn d && negb (PrimFloat.eqb d 0).

Lemma nn_true x : nn x = true -> nonnan x.
Proof. unfold nn, nonnan. now destruct (go_isnan x). Qed.
Lemma nn3_true v : nn3 v = true -> nonnan3 v.
Proof.
  unfold nn3, nonnan3. rewrite !andb_true_iff. intros [[? ?] ?]. auto using nn_true.
Qed.

Lemma key_emin p q : nnp p -> nnp q -> key (s2_Point_Vector (emin p q)) = kmin p q.
Proof.
  intros Np Nq. unfold emin, kmin. pose proof (Cmp_lt_iff _ _ Np Nq) as C.
  destruct (Z.eqb_spec (r3_Vector_Cmp (s2_Point_Vector p) (s2_Point_Vector q)) (-1)) as [E|E];
  destruct (lexlt_dec _ _) as [L|L]; try reflexivity; tauto.
Qed.

Lemma proj_ok_b_true x a0 a1 : proj_ok_b x a0 a1 = true -> proj_ok x a0 a1.
Proof.
  unfold proj_ok_b, proj_ok. cbv zeta. rewrite !andb_true_iff. intros [[[[N0 N1] D0] D1] K].
  apply nn3_true in N0, N1. apply nn_true in D0, D1.
  split; [exact N0|]. split; [exact N1|]. split; [exact D0|]. split; [exact D1|].
  intros ER EK. apply orb_true_iff in K. destruct K as [K|K]; apply negb_true_iff in K.
  - apply (eqb_false_iff _ _ D0 D1) in K. contradiction.
  - assert (r3_Vector_eqb (r3_Vector_Sub x (s2_Point_Vector a0)) (r3_Vector_Sub x (s2_Point_Vector a1)) = true)
      by (apply eqb3_iff; assumption). congruence.
Qed.

Lemma side_conditions_b_true a0 a1 b0 b1 :
  side_conditions_b a0 a1 b0 b1 = true -> stable_side_conditions a0 a1 b0 b1.
Proof.
  unfold side_conditions_b, stable_side_conditions. rewrite !andb_true_iff.
  intros [[[[[[[Na0 Na1] Nb0] Nb1] La] Lb] K] P].
  apply nn3_true in Na0, Na1, Nb0, Nb1. apply nn_true in La, Lb.
  split; [exact Na0|]. split; [exact Na1|]. split; [exact Nb0|]. split; [exact Nb1|].
  split; [exact La|]. split; [exact Lb|]. split.
  - intros E. rewrite <- (key_emin a0 a1), <- (key_emin b0 b1) in E by assumption.
    apply negb_true_iff in K.
    assert (r3_Vector_eqb (s2_Point_Vector (emin a0 a1)) (s2_Point_Vector (emin b0 b1)) = true).
    { apply eqb3_iff; [| |exact E]; unfold emin;
      match goal with |- context [if ?c then _ else _] => destruct c end; assumption. }
    congruence.
  - destruct (first_is_b a0 a1 b0 b1); apply andb_true_iff in P; destruct P; split; now apply proj_ok_b_true.
Qed.

Lemma decisive_b_true d : decisive_b d = true -> decisive d.
Proof.
  unfold decisive_b, decisive, nn, go_isnan. intros H. apply andb_true_iff in H. destruct H as [H1 H2].
  rewrite !FloatAxioms.eqb_spec in H1, H2. replace (Prim2SF 0) with (S754_zero false) in H2 by reflexivity.
  destruct (Prim2SF d) as [[|]|[|]| |[|] m e]; simpl in *; auto; discriminate.
Qed.

(** the form used by Props/C16.v: every premise is a computable test on the inputs *)
Theorem isect_symmetric_b exact a0 a1 b0 b1 pt : side_conditions_b a0 a1 b0 b1 = true ->
  s2_intersectionStable a0 a1 b0 b1 = (pt, true) -> finite3f (s2_Point_Vector pt) ->
  decisive_b (r3_Vector_Dot (s2_Point_Vector pt) (vertex_sum a0 a1 b0 b1)) = true ->
  s2_Intersection_with exact a1 a0 b0 b1 = s2_Intersection_with exact a0 a1 b0 b1 /\
  s2_Intersection_with exact a0 a1 b1 b0 = s2_Intersection_with exact a0 a1 b0 b1 /\
  s2_Intersection_with exact b0 b1 a0 a1 = s2_Intersection_with exact a0 a1 b0 b1.
Proof.
  intros S H F D. eapply isect_symmetric; eauto using side_conditions_b_true, decisive_b_true.
Qed.

(** the premises are satisfiable: the crossing pair t_acc of Proofs/C16_Witness.v *)
From Geo Require Import Proofs.C16_Witness.
Example isect_symmetric_premises_hold :
  let '(a0, a1, b0, b1) := t_acc in
  side_conditions_b a0 a1 b0 b1 = true /\
  snd (s2_intersectionStable a0 a1 b0 b1) = true /\
  finite3f (s2_Point_Vector (fst (s2_intersectionStable a0 a1 b0 b1))) /\
  decisive_b (r3_Vector_Dot (s2_Point_Vector (fst (s2_intersectionStable a0 a1 b0 b1))) (vertex_sum a0 a1 b0 b1)) = true.
Proof. vm_compute. repeat split. Qed.
