(** C16: the last two steps of Intersection (hemisphere sign, canonical zero) turn a point and
    its opposite-up-to-zero-signs into the SAME float triple, bit for bit, provided the
    hemisphere dot product is neither zero nor NaN; and the composition for the stable path. *)
From Coq Require Import ZArith Reals Floats SpecFloat Lra Lia Bool List.
From Flocq Require Import Core.Core IEEE754.BinarySingleNaN IEEE754.PrimFloat.
From Geo Require Import Base.GoPrim Base.F64 Gen.R3 Gen.S2Point Gen.Isect Model.IsectExact.
From Geo Require Import Proofs.C16_F64Exact Proofs.C16_Coll Proofs.C16_Sym.
Local Open Scope float_scope.

Lemma fopp_involutive x : - (- x) = x.
Proof. apply Prim2SF_inj. rewrite !opp_spec. apply SFopp_involutive. Qed.

Lemma finite_opp x : finite x -> finite (- x).
Proof. unfold finite. rewrite opp_equiv. now rewrite is_finite_Bopp. Qed.

Lemma finite_of_zeroS x s : Prim2SF x = S754_zero s -> finite x.
Proof.
  unfold finite. rewrite <- B2SF_Prim2B. destruct (Prim2B x); simpl; congruence.
Qed.

Lemma add_zero_of_zeroS x s : Prim2SF x = S754_zero s -> Prim2SF (x + 0) = S754_zero false.
Proof.
  intros H. rewrite add_spec, H. replace (Prim2SF 0) with (S754_zero false) by reflexivity.
  destruct s; reflexivity.
Qed.

(** one coordinate *)
Lemma canon_coord p p' : finite p -> fneg p' p ->
  ((-1) * p') + 0 = p + 0 /\ p' + 0 = ((-1) * p) + 0.
Proof.
  intros Fp [H|[[s Hs] [t Ht]]].
  - assert (E : p' = - p) by (apply Prim2SF_inj; now rewrite opp_spec).
    subst p'. rewrite (mul_neg1 (- p)) by now apply finite_opp.
    rewrite fopp_involutive, (mul_neg1 p) by assumption. split; reflexivity.
  - assert (Fp' : finite p') by (eapply finite_of_zeroS; eassumption).
    rewrite (mul_neg1 p'), (mul_neg1 p) by assumption.
    split; apply Prim2SF_inj.
    + rewrite (add_zero_of_zeroS (- p') (negb s)) by (rewrite opp_spec, Hs; reflexivity).
      now rewrite (add_zero_of_zeroS p t).
    + rewrite (add_zero_of_zeroS p' s) by assumption.
      now rewrite (add_zero_of_zeroS (- p) (negb t)) by (rewrite opp_spec, Ht; reflexivity).
Qed.

(** the hemisphere dot product is "decisive": neither a zero nor NaN *)
Definition decisive (d : PrimFloat.float) : Prop :=
  match Prim2SF d with S754_finite _ _ _ | S754_infinity _ => True | _ => False end.

Lemma ltb_zero_opp d d' : decisive d -> fneg d' d -> PrimFloat.ltb d' 0 = negb (PrimFloat.ltb d 0).
Proof.
  unfold decisive, fneg. rewrite !ltb_spec. replace (Prim2SF 0) with (S754_zero false) by reflexivity.
  intros D [->|[[s Hs] [t Ht]]].
  - destruct (Prim2SF d) as [[|]|[|]| |[|] m e]; try contradiction; reflexivity.
  - rewrite Ht in D. contradiction.
Qed.

Lemma dot_fneg3_l u u' w : fneg3 u u' -> fneg (r3_Vector_Dot u w) (r3_Vector_Dot u' w).
Proof.
  destruct u, u', w. unfold fneg3, r3_Vector_Dot. simpl. intros (Hx & Hy & Hz).
  repeat apply fadd_fneg; now apply fmul_fneg_l.
Qed.

(** the two last steps of Intersection as one function of the point and the vertex sum *)
Definition finish (pt : s2_Point) (S : r3_Vector) : s2_Point :=
  isect_canon_zero (if PrimFloat.ltb (r3_Vector_Dot (s2_Point_Vector pt) S) 0
                    then mk_s2_Point (r3_Vector_Mul (s2_Point_Vector pt) (-1)) else pt).

Definition vertex_sum (a0 a1 b0 b1 : s2_Point) : r3_Vector :=
  r3_Vector_Add (r3_Vector_Add (s2_Point_Vector a0) (s2_Point_Vector a1))
                (r3_Vector_Add (s2_Point_Vector b0) (s2_Point_Vector b1)).

Lemma finish_spec pt a0 a1 b0 b1 :
  isect_canon_zero (isect_fix_sign pt a0 a1 b0 b1) = finish pt (vertex_sum a0 a1 b0 b1).
Proof. reflexivity. Qed.

Definition finite3f (v : r3_Vector) : Prop :=
  finite (r3_Vector_X v) /\ finite (r3_Vector_Y v) /\ finite (r3_Vector_Z v).

Theorem finish_fneg3 pt pt' S :
  finite3f (s2_Point_Vector pt) -> fneg3 (s2_Point_Vector pt') (s2_Point_Vector pt) ->
  decisive (r3_Vector_Dot (s2_Point_Vector pt) S) ->
  finish pt' S = finish pt S.
Proof.
  destruct pt as [[x y z]], pt' as [[x' y' z']]. unfold finite3f, fneg3. simpl.
  intros (Fx & Fy & Fz) (Hx & Hy & Hz) D. unfold finish. simpl s2_Point_Vector.
  assert (H3 : fneg3 (mk_r3_Vector x' y' z') (mk_r3_Vector x y z)) by (repeat split; assumption).
  rewrite (ltb_zero_opp _ _ D (dot_fneg3_l _ _ S H3)).
  destruct (canon_coord x x' Fx Hx) as [X1 X2], (canon_coord y y' Fy Hy) as [Y1 Y2],
           (canon_coord z z' Fz Hz) as [Z1 Z2].
  destruct (PrimFloat.ltb _ 0); simpl; unfold isect_canon_zero, r3_Vector_Add, r3_Vector_Mul; simpl;
  congruence.
Qed.

(** vertex sum under the argument orders *)
Lemma vertex_sum_sym a0 a1 b0 b1 :
  vertex_sum a1 a0 b0 b1 = vertex_sum a0 a1 b0 b1 /\ vertex_sum a0 a1 b1 b0 = vertex_sum a0 a1 b0 b1 /\
  vertex_sum b0 b1 a0 a1 = vertex_sum a0 a1 b0 b1.
Proof.
  unfold vertex_sum. repeat split.
  - now rewrite (add_comm3 (s2_Point_Vector a1)).
  - now rewrite (add_comm3 (s2_Point_Vector b1)).
  - apply add_comm3.
Qed.

(** ** Intersection when the stable path decides *)
Lemma Intersection_stable exact a0 a1 b0 b1 pt :
  s2_intersectionStable a0 a1 b0 b1 = (pt, true) ->
  s2_Intersection_with exact a0 a1 b0 b1 = finish pt (vertex_sum a0 a1 b0 b1).
Proof.
  intros H. unfold s2_Intersection_with, s2_Intersection_signed. rewrite H. apply finish_spec.
Qed.

(** swapping the two edges: bit-identical result (stable path) *)
Theorem isect_stable_swap exact a0 a1 b0 b1 pt : nnp a0 -> nnp a1 -> nnp b0 -> nnp b1 ->
  nonnan (edge_len2 a0 a1) -> nonnan (edge_len2 b0 b1) -> kmin a0 a1 <> kmin b0 b1 ->
  s2_intersectionStable a0 a1 b0 b1 = (pt, true) ->
  s2_Intersection_with exact b0 b1 a0 a1 = s2_Intersection_with exact a0 a1 b0 b1.
Proof.
  intros Na0 Na1 Nb0 Nb1 La Lb D H.
  rewrite (Intersection_stable exact a0 a1 b0 b1 pt H).
  rewrite (Intersection_stable exact b0 b1 a0 a1 pt) by (now rewrite stable_swap_symmetric).
  destruct (vertex_sum_sym a0 a1 b0 b1) as (_ & _ & ->). reflexivity.
Qed.

(** reversing the edge that the stable path interpolates along (the one treated second):
    bit-identical result, provided the hemisphere dot product is decisive *)
Theorem isect_stable_reverse_second exact a0 a1 b0 b1 pt : nnp a0 -> nnp a1 -> nnp b0 -> nnp b1 ->
  first_is_b a0 a1 b0 b1 = false ->
  s2_intersectionStable a0 a1 b0 b1 = (pt, true) -> finite3f (s2_Point_Vector pt) ->
  decisive (r3_Vector_Dot (s2_Point_Vector pt) (vertex_sum a0 a1 b0 b1)) ->
  s2_Intersection_with exact a0 a1 b1 b0 = s2_Intersection_with exact a0 a1 b0 b1.
Proof.
  intros Na0 Na1 Nb0 Nb1 FB H F D.
  rewrite (Intersection_stable exact a0 a1 b0 b1 pt H).
  destruct (stable_reverse_dispatch a0 a1 b0 b1 Na0 Na1 Nb0 Nb1) as [_ R]. rewrite FB in R.
  rewrite stable_dispatch, FB in H.
  destruct (sorted_reverse_second a0 a1 b0 b1) as [Ok Neg]. rewrite H in Ok, Neg. simpl in Ok, Neg.
  destruct (s2_intersectionStableSorted a0 a1 b1 b0) as [pt' ok'] eqn:E. simpl in Ok, Neg. subst ok'.
  rewrite (Intersection_stable exact a0 a1 b1 b0 pt' R).
  destruct (vertex_sum_sym a0 a1 b0 b1) as (_ & -> & _).
  now apply finish_fneg3.
Qed.

Theorem isect_stable_reverse_second' exact a0 a1 b0 b1 pt : nnp a0 -> nnp a1 -> nnp b0 -> nnp b1 ->
  first_is_b a0 a1 b0 b1 = true ->
  s2_intersectionStable a0 a1 b0 b1 = (pt, true) -> finite3f (s2_Point_Vector pt) ->
  decisive (r3_Vector_Dot (s2_Point_Vector pt) (vertex_sum a0 a1 b0 b1)) ->
  s2_Intersection_with exact a1 a0 b0 b1 = s2_Intersection_with exact a0 a1 b0 b1.
Proof.
  intros Na0 Na1 Nb0 Nb1 FB H F D.
  rewrite (Intersection_stable exact a0 a1 b0 b1 pt H).
  destruct (stable_reverse_dispatch a0 a1 b0 b1 Na0 Na1 Nb0 Nb1) as [R _]. rewrite FB in R.
  rewrite stable_dispatch, FB in H.
  destruct (sorted_reverse_second b0 b1 a0 a1) as [Ok Neg]. rewrite H in Ok, Neg. simpl in Ok, Neg.
  destruct (s2_intersectionStableSorted b0 b1 a1 a0) as [pt' ok'] eqn:E. simpl in Ok, Neg. subst ok'.
  rewrite (Intersection_stable exact a1 a0 b0 b1 pt' R).
  destruct (vertex_sum_sym a0 a1 b0 b1) as (-> & _ & _).
  now apply finish_fneg3.
Qed.
