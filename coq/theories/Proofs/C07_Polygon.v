(** C07 — polygon layer of Model/Relations.v: the one-loop shortcut. *)
From Coq Require Import List Bool ZArith.
From Geo Require Import Model.Relations.
Import ListNotations.

Section Poly.
  Variable point : Type.
  Variable peq : point -> point -> bool.
  Variable ordered_ccw : point -> point -> point -> point -> bool.
  Variable crossing_sign : point -> point -> point -> point -> crossing.
  Variable contains_point : loop point -> point -> bool.
  Variable sub_contains bound_intersects bound_union_full : loop point -> loop point -> bool.
  Variable psub plng pbi : polygon point -> polygon point -> bool.

  Lemma single_loop_polygon_contains (a b : ploop point) :
    polygon_contains point peq ordered_ccw crossing_sign contains_point sub_contains bound_intersects
      bound_union_full psub plng [a] [b] =
    loop_contains point peq ordered_ccw crossing_sign contains_point sub_contains bound_union_full (fst a) (fst b).
  Proof. reflexivity. Qed.

  Lemma single_loop_polygon_intersects (a b : ploop point) :
    polygon_intersects point peq ordered_ccw crossing_sign contains_point sub_contains bound_intersects
      bound_union_full pbi [a] [b] =
    loop_intersects point peq ordered_ccw crossing_sign contains_point sub_contains bound_intersects
      bound_union_full (fst a) (fst b).
  Proof. reflexivity. Qed.

  (** a polygon's compareBoundary against one loop: 0 as soon as one loop of the polygon crosses
      it, otherwise (-1)^(1 + number of loops of the polygon that contain the boundary) *)
  Lemma p_compare_boundary_zero (P : polygon point) (o : ploop point) r :
    r = 0%Z ->
    fold_left (fun r l => if Z.eqb r 0 then r
       else (r * - compare_boundary point peq ordered_ccw crossing_sign contains_point bound_intersects
                     (fst l) (fst o) (pl_hole point o))%Z) P r = 0%Z.
  Proof. intros ->. induction P as [|l t IH]; simpl; auto. Qed.
End Poly.
