(** C11 — s2intersect.Find, part A: cellUnionToIntervalLimits.  The limits of a sorted union are
    the start/end leaves of a list of disjoint closed runs of leaves that cover exactly the
    leaves of the union. *)
From Coq Require Import ZArith List Bool Lia ZifyBool Sorted Permutation.
From Geo Require Import Base.GoPrim Gen.CellID Model.CellUnion Model.Intersect Proofs.C11_Bits Proofs.C11_Cells
  Proofs.C11_Normalize Proofs.C11_Unique Proofs.C11_Search.
Import ListNotations.
Local Open Scope Z_scope.

(** * Next / Prev on leaf ids *)
Definition vleaf (x : Z) : Prop := leaf x /\ 0 < x < 6 * 2 ^ 61.

Lemma vleaf_cellform x : vleaf x -> cellform x 0.
Proof.
  intros [L B]. unfold cellform. split; [lia|]. split; [|lia].
  change (2 * 4 ^ 0) with 2. change (4 ^ 0) with 1. exact L.
Qed.

Lemma vleaf_valid x : vleaf x -> valid x.
Proof. intros V. exact (cellform_valid _ _ (vleaf_cellform _ V)). Qed.

Lemma next_leaf x : vleaf x -> s2_CellID_Next x = x + 2.
Proof. intros V. rewrite (next_form _ 0 (vleaf_cellform _ V)). reflexivity. Qed.

Lemma prev_leaf x : vleaf x -> 3 <= x -> s2_CellID_Prev x = x - 2.
Proof.
  intros V H3. pose proof (vleaf_cellform _ V) as H. destruct V as [L B].
  unfold s2_CellID_Prev. rewrite (cellform_lsb _ _ H).
  unfold go_shl. cbn [Z.ltb Z.compare].
  rewrite Z.shiftl_mul_pow2 by lia. change (4 ^ 0 * 2 ^ 1) with 2.
  rewrite (wrap_small x), (wrap_small 2) by lia.
  rewrite !(wrap_small (x - 2)) by lia. reflexivity.
Qed.

Lemma valid_range_vleaf c : valid c -> vleaf (rmin c) /\ vleaf (rmax c) /\ rmin c <= rmax c.
Proof. intros V. pose proof (valid_range _ V). unfold vleaf. intuition lia. Qed.

(** * Runs *)
Definition run := (Z * Z)%type.
Fixpoint runs_loop (cu : list Z) (a lastend : Z) : list run :=
  match cu with
  | [] => [(a, lastend)]
  | c :: t => if s2_CellID_Next lastend =? rmin c then runs_loop t a (rmax c)
              else (a, lastend) :: runs_loop t (rmin c) (rmax c)
  end.
Definition runs (cu : list Z) : list run :=
  match cu with [] => [] | c :: t => runs_loop t (rmin c) (rmax c) end.
Definition ev (i : Z) (r : run) : list limit := [(fst r, false, [i]); (snd r, true, [i])].

Lemma lims_loop_runs i : forall cu a e, e <> 0 -> Forall valid cu ->
  (a, false, [i]) :: lims_loop cu i e = flat_map (ev i) (runs_loop cu a e).
Proof.
  induction cu as [|c t IH]; intros a e He V.
  - reflexivity.
  - inversion V as [|? ? Vc Vt]; subst. cbn [lims_loop runs_loop].
    assert (E0 : e =? 0 = false) by lia. rewrite E0.
    assert (Hm : rmax c <> 0) by (pose proof (valid_range _ Vc); lia).
    destruct (s2_CellID_Next e =? rmin c) eqn:E; cbn [negb app].
    + apply IH; assumption.
    + cbn [flat_map ev fst snd app]. f_equal. f_equal. apply IH; assumption.
Qed.

Lemma limits_of_runs cu i : Forall valid cu -> limits_of cu i = flat_map (ev i) (runs cu).
Proof.
  intros V. destruct cu as [|c t]; [reflexivity|].
  inversion V as [|? ? Vc Vt]; subst. unfold limits_of, runs. cbn [lims_loop].
  rewrite Z.eqb_refl. cbn [app]. apply lims_loop_runs; [|assumption].
  pose proof (valid_range _ Vc); lia.
Qed.

Definition run_wf (r : run) : Prop := vleaf (fst r) /\ vleaf (snd r) /\ fst r <= snd r.
Definition run_lt (r1 r2 : run) : Prop := snd r1 < fst r2.
Definition inrun (r : run) (p : Z) : Prop := fst r <= p <= snd r.

Lemma runs_loop_spec : forall cu a e, sorted_cu cu -> (forall c, In c cu -> e < rmin c) ->
  run_wf (a, e) ->
  let R := runs_loop cu a e in
  Forall run_wf R /\ StronglySorted run_lt R /\ (forall r, In r R -> a <= fst r) /\
  (forall x, leaf x -> ((a <= x <= e \/ cov cu x) <-> exists r, In r R /\ inrun r x)).
Proof.
  induction cu as [|c t IH]; intros a e SC Hlt W; cbn zeta.
  - cbn [runs_loop]. split; [constructor; [exact W|constructor]|].
    split; [constructor; [constructor|constructor]|].
    split; [intros r [<-|[]]; cbn; lia|].
    intros x Lx. split.
    + intros [Hx|Hc]; [|exfalso; exact (cov_nil _ Hc)]. exists (a, e). split; [left; reflexivity|exact Hx].
    + intros (r & [<-|[]] & Hr). left. exact Hr.
  - destruct SC as [V SS]. inversion V as [|? ? Vc Vt]; subst. inversion SS as [|? ? SSt Fc]; subst.
    rewrite Forall_forall in Fc.
    destruct (valid_range_vleaf _ Vc) as (Lmin & Lmax & Hle).
    destruct W as (Wa & We & Wae). cbn [fst snd] in Wa, We, Wae.
    pose proof (Hlt c (or_introl eq_refl)) as Hec.
    cbn [runs_loop]. rewrite (next_leaf _ We).
    assert (SCt : sorted_cu t) by (split; assumption).
    assert (Hlt' : forall d, In d t -> rmax c < rmin d) by (intros d Hd; exact (Fc d Hd)).
    destruct (e + 2 =? rmin c) eqn:E.
    + destruct (IH a (rmax c) SCt Hlt') as (F & S & Hge & Hcov).
      { split; [exact Wa|]. split; [exact Lmax|]. cbn [fst snd]. lia. }
      split; [exact F|]. split; [exact S|]. split; [exact Hge|].
      intros x Lx. rewrite <- (Hcov x Lx), cov_cons. unfold covers.
      destruct We as [Le _]. unfold leaf in Lx, Le.
      assert (Hx : a <= x <= rmax c <-> (a <= x <= e \/ rmin c <= x <= rmax c)).
      { Z.div_mod_to_equations. lia. }
      tauto.
    + destruct (IH (rmin c) (rmax c) SCt Hlt') as (F & S & Hge & Hcov).
      { split; [exact Lmin|]. split; [exact Lmax|]. exact Hle. }
      split; [constructor; [split; [exact Wa|split; [exact We|exact Wae]]|exact F]|].
      split.
      { constructor; [exact S|]. apply Forall_forall. intros r Hr. unfold run_lt. cbn [fst snd].
        pose proof (Hge r Hr). lia. }
      split.
      { intros r [<-|Hr]; [cbn; lia|]. pose proof (Hge r Hr). lia. }
      intros x Lx. rewrite cov_cons. split.
      * intros [Hx|[Hc|Hc]].
        -- exists (a, e). split; [left; reflexivity|exact Hx].
        -- destruct (proj1 (Hcov x Lx) (or_introl Hc)) as (r & Hr & Hi). exists r. split; [right; exact Hr|exact Hi].
        -- destruct (proj1 (Hcov x Lx) (or_intror Hc)) as (r & Hr & Hi). exists r. split; [right; exact Hr|exact Hi].
      * intros (r & [<-|Hr] & Hi); [left; exact Hi|].
        destruct (proj2 (Hcov x Lx) (ex_intro _ r (conj Hr Hi))) as [Hc|Hc]; [right; left; exact Hc|right; right; exact Hc].
Qed.

Theorem runs_spec cu : sorted_cu cu ->
  Forall run_wf (runs cu) /\ StronglySorted run_lt (runs cu) /\
  (forall x, leaf x -> (cov cu x <-> exists r, In r (runs cu) /\ inrun r x)).
Proof.
  intros SC. destruct cu as [|c t].
  - cbn [runs]. split; [constructor|]. split; [constructor|].
    intros x Lx. split; [intros H; exfalso; exact (cov_nil _ H)|intros (r & [] & _)].
  - destruct SC as [V SS]. inversion V as [|? ? Vc Vt]; subst. inversion SS as [|? ? SSt Fc]; subst.
    rewrite Forall_forall in Fc.
    destruct (valid_range_vleaf _ Vc) as (Lmin & Lmax & Hle).
    destruct (runs_loop_spec t (rmin c) (rmax c)) as (F & S & _ & Hcov).
    { split; assumption. }
    { intros d Hd. exact (Fc d Hd). }
    { split; [exact Lmin|]. split; [exact Lmax|]. exact Hle. }
    cbn [runs]. split; [exact F|]. split; [exact S|].
    intros x Lx. rewrite cov_cons. exact (Hcov x Lx).
Qed.

Lemma runs_disjoint : forall R r1 r2 p, Forall run_wf R -> StronglySorted run_lt R ->
  In r1 R -> In r2 R -> inrun r1 p -> inrun r2 p -> r1 = r2.
Proof.
  induction R as [|r t IH]; intros r1 r2 p F S H1 H2 I1 I2; [destruct H1|].
  inversion F as [|? ? Wr Ft]; subst. inversion S as [|? ? St Fr]; subst.
  rewrite Forall_forall in Fr, Ft. unfold inrun, run_lt in *.
  destruct H1 as [<-|H1], H2 as [<-|H2].
  - reflexivity.
  - exfalso. pose proof (Fr _ H2). destruct (Ft _ H2) as (_ & _ & ?). lia.
  - exfalso. pose proof (Fr _ H1). destruct (Ft _ H1) as (_ & _ & ?). lia.
  - apply (IH r1 r2 p); try assumption. apply Forall_forall. exact Ft.
Qed.
