(** C05 — the region predicates of s2.Cell and s2.CellUnion (id-range logic) are one-sidedly
    safe with respect to leaf sets: [P] part of the second sentence of the property. *)
From Coq Require Import ZArith List Bool Lia Sorting.Sorted.
From Coq Require Import ZifyBool.
From Geo Require Import Base.GoPrim Gen.CellIDCov Model.Coverer.
From Geo Require Import Proofs.C05_CellFacts Proofs.C05_CellUnion Proofs.C05_Coverer Proofs.C05_Fast Proofs.C05_Main.
From Geo Require Import Gen.CellID.  (* s2_CellID_Contains *)
Import ListNotations.
Local Open Scope Z_scope.

(** ** s2.Cell as a region: ContainsCell = id.Contains, IntersectsCell = id.Intersects *)
Lemma cell_contains_sound : forall a c, valid a -> valid c -> s2_CellID_Contains a c = true ->
  forall x, leaf_in x c -> leaf_in x a.
Proof.
  intros a c Va Vc H x Hx. destruct (nested' a c Va Vc (contains_true a c Va Vc H)) as (Sub & _).
  eapply cell_sub_leaf; eauto.
Qed.
Lemma cell_intersects_sound : forall a c, valid a -> valid c ->
  (exists x, leaf_in x c /\ leaf_in x a) -> s2_CellID_Intersects a c = true.
Proof.
  intros a c Va Vc (x & Hc & Ha). unfold s2_CellID_Intersects, leaf_in in *.
  unfold s2_CellID_RangeMin, s2_CellID_RangeMax in *. rewrite !wrap_u64_idem in *. lia.
Qed.

(** ** s2.CellUnion (normalized) as a region *)
Section CU.
  Variable l : list Z.
  Hypothesis Vl : all_valid l.
  Hypothesis Nl : normal l.

  Let n := len l.
  Lemma n_nonneg : 0 <= n. Proof. unfold n, len. lia. Qed.

  Lemma probe_mono : forall id a b, 0 <= a <= b -> b < n -> (id <? nthZ l a 0) = true -> (id <? nthZ l b 0) = true.
  Proof.
    intros id a b Hab Hb Ha. pose proof (sorted_nthZ_le l a b (normal_sorted l Vl Nl) Hab Hb). lia.
  Qed.

  Lemma valid_nth : forall i, 0 <= i < n -> valid (nthZ l i 0).
  Proof. intros i Hi. unfold all_valid in Vl. rewrite Forall_forall in Vl. apply Vl. apply nthZ_in. exact Hi. Qed.

  (** disjoint ascending ranges by index *)
  Lemma normal_nth_lt : forall i j, 0 <= i < j -> j < n -> hi (nthZ l i 0) < lo (nthZ l j 0).
  Proof.
    clear Vl. unfold n. revert Nl. unfold normal. induction l as [|a l' IH]; intros N i j Hij Hj; unfold len in *; cbn [length] in *; [lia|].
    inversion N as [|? ? N' Fa]; subst.
    rewrite (nthZ_nth _ j) by lia. replace (Z.to_nat j) with (S (Z.to_nat (j - 1))) by lia. cbn [nth].
    destruct (Z.eq_dec i 0) as [->|Hi].
    - rewrite (nthZ_nth _ 0) by lia. cbn [nth Z.to_nat]. rewrite Forall_forall in Fa. apply Fa. apply nth_In. lia.
    - rewrite (nthZ_nth _ i) by lia. replace (Z.to_nat i) with (S (Z.to_nat (i - 1))) by lia. cbn [nth].
      rewrite <- !nthZ_nth by lia. apply IH; auto; unfold len; lia.
  Qed.

  Theorem cu_contains_sound : forall c, valid c -> cu_ContainsCellID l c = true ->
    forall x, leaf_in x c -> covered l x.
  Proof.
    intros c Vc H x Hx. unfold cu_ContainsCellID in H. fold n in H.
    destruct (sort_Search_spec (fun i => c <? nthZ l i 0) n n_nonneg (probe_mono c)) as (Hi & H1 & H2).
    set (i := sort_Search n (fun i => c <? nthZ l i 0)) in *. cbv beta in H1, H2.
    destruct (negb (i =? n) && (lo (nthZ l i 0) <=? c)) eqn:E1.
    - apply andb_prop in E1. destruct E1 as (Ein & Elo).
      assert (Hin : 0 <= i < n) by lia. specialize (H2 i ltac:(lia)).
      pose proof (valid_nth i Hin) as Vi. pose proof (valid_lo_hi _ Vi).
      destruct (nested' (nthZ l i 0) c Vi Vc ltac:(lia)) as (Sub & _).
      exists (nthZ l i 0). split; [apply nthZ_in; exact Hin|eapply cell_sub_leaf; eauto].
    - apply andb_prop in H. destruct H as (Ei0 & Ehi).
      assert (Hin : 0 <= i - 1 < n) by lia. specialize (H1 (i - 1) ltac:(lia)).
      pose proof (valid_nth (i - 1) Hin) as Vi. pose proof (valid_lo_hi _ Vi).
      destruct (nested' (nthZ l (i - 1) 0) c Vi Vc ltac:(lia)) as (Sub & _).
      exists (nthZ l (i - 1) 0). split; [apply nthZ_in; exact Hin|eapply cell_sub_leaf; eauto].
  Qed.

  Theorem cu_intersects_sound : forall c, valid c -> (exists x, leaf_in x c /\ covered l x) ->
    cu_IntersectsCellID l c = true.
  Proof.
    intros c Vc (x & Hxc & (d & Hd & Hxd)). unfold cu_IntersectsCellID. fold n.
    destruct (sort_Search_spec (fun i => c <? nthZ l i 0) n n_nonneg (probe_mono c)) as (Hi & H1 & H2).
    set (i := sort_Search n (fun i => c <? nthZ l i 0)) in *. cbv beta in H1, H2.
    destruct (in_nthZ l d Hd) as (k & Hk & Ek). fold n in Hk.
    pose proof (valid_lo_hi c Vc) as Rc. unfold leaf_in in *.
    destruct (Z.lt_ge_cases k i) as [Hki|Hki].
    - (* the cell sharing x is at or below c: the last cell at or below c reaches up to lo c *)
      assert (Hin : 0 <= i - 1 < n) by lia.
      assert (Hhi : hi (nthZ l (i - 1) 0) >= lo c).
      { destruct (Z.eq_dec k (i - 1)) as [->|Hne]; [rewrite Ek; lia|].
        pose proof (normal_nth_lt k (i - 1) ltac:(lia) ltac:(lia)) as Hlt. rewrite Ek in Hlt.
        pose proof (valid_lo_hi _ (valid_nth (i - 1) Hin)). lia. }
      destruct (negb (i =? n) && (lo (nthZ l i 0) <=? hi c)); [reflexivity|].
      apply andb_true_intro. split; lia.
    - (* the cell sharing x is above c: the first cell above c starts at or below hi c *)
      assert (Hin : 0 <= i < n) by lia.
      assert (Hlo : lo (nthZ l i 0) <= hi c).
      { destruct (Z.eq_dec k i) as [->|Hne]; [rewrite Ek; lia|].
        pose proof (normal_nth_lt i k ltac:(lia) ltac:(lia)) as Hlt. rewrite Ek in Hlt.
        pose proof (valid_lo_hi _ (valid_nth i Hin)). lia. }
      replace (negb (i =? n) && (lo (nthZ l i 0) <=? hi c)) with true by lia. reflexivity.
  Qed.
End CU.

(* ---------------------------------------------------------------------- *)
(** * The "very large covering" branch of normalizeCovering (after /repo 81ed250) is sound:
    it is the same coverer, with the same options, run on the cell union as a region, so the main
    theorems apply to it (by induction on the nesting depth). *)

(** what is assumed of [covering.CapBound().CellUnionBound()] (float geometry: H-CAPARITH): valid cells
    that cover the union *)
Definition CuBoundOK (cubound : list Z -> list Z) : Prop :=
  forall l, all_valid l -> normal l ->
    all_valid (cubound l) /\ (forall x, is_leaf x -> covered l x -> covered (cubound l) x).

Lemma clamp_wf_id : forall cv, wf_cv cv ->
  let o := mkOpts (minLevel cv) (maxLevel cv) (levelMod cv) (maxCells cv) in
  clampMinLevel o = minLevel cv /\ clampMaxLevel o = maxLevel cv /\ clampLevelMod o = levelMod cv.
Proof.
  intros cv (Hmin & Hmax & Hmod). cbv zeta. unfold clampMinLevel, clampMaxLevel, clampLevelMod.
  cbn [o_MinLevel o_MaxLevel o_LevelMod]. rewrite !minInt1, !maxInt1. lia.
Qed.

Theorem cu_fallback_sound : forall cubound, CuBoundOK cubound ->
  forall depth, FallbackSound (cu_fallback depth cubound).
Proof.
  intros cubound HCB. induction depth as [|d IH]; intros cv l r Hwf Vl Nl Hr; [discriminate|].
  cbn [cu_fallback] in Hr.
  destruct (HCB l Vl Nl) as (Vb & Cb).
  destruct (clamp_wf_id cv Hwf) as (E1 & E2 & E3). cbv zeta in E1, E2, E3.
  set (o := mkOpts (minLevel cv) (maxLevel cv) (levelMod cv) (maxCells cv)) in *.
  set (pts := fun x => covered l x).
  pose proof (levels_ok_lemma (cu_IntersectsCellID l) (cu_ContainsCellID l) (cubound l) (cu_fallback d cubound)
                pts o Vb IH r (or_introl Hr)) as Hlev.
  split; [|split].
  - unfold all_valid. eapply Forall_impl; [|exact Hlev]. intros c (Vc & _). exact Vc.
  - intros x Hx Hc.
    assert (HI : SoundI (cu_IntersectsCellID l) pts).
    { intros c Vc (y & _ & Hyc & Hy). apply (cu_intersects_sound l Vl Nl c Vc). exists y; auto. }
    assert (HB : C05_Main.SoundB (cubound l) pts).
    { intros y Hy Hp. apply Cb; auto. }
    exact (covering_covers_lemma (cu_IntersectsCellID l) (cu_ContainsCellID l) (cubound l) (cu_fallback d cubound)
             pts o Vb IH HI HB r Hr x Hx Hc).
  - eapply Forall_impl; [|exact Hlev]. intros c (_ & HL & HM). unfold cv_good, good_level.
    rewrite E1, E2 in HL. rewrite E1, E3 in HM. lia.
Qed.

(** the premises of the main theorems are jointly satisfiable: the region "face cell 0" with the
    id-range predicates of s2.Cell, the face itself as bound; a cell union is its own bound *)
Lemma hyps_example_full :
  let face0 := s2_CellIDFromFace 0 in
  let pts := fun x => leaf_in x face0 in
  C05_Main.ValidB [face0] /\ CuBoundOK (fun l => l) /\ C05_Main.SoundB [face0] pts /\
  SoundI (s2_CellID_Intersects face0) pts /\ SoundC (s2_CellID_Contains face0) pts.
Proof.
  cbv zeta.
  assert (V0 : valid (s2_CellIDFromFace 0)).
  { exists 0. apply C05_Main.valid_at_compute. vm_compute. reflexivity. }
  destruct C05_Main.hyps_example as (H1 & H2 & H3). split; [exact H1|]. split; [intros l Vl Nl; auto|]. split; [exact H3|]. split.
  - intros c Vc (x & _ & Hxc & Hp). apply cell_intersects_sound; auto. exists x; auto.
  - intros c Vc Hc x _ Hxc. eapply cell_contains_sound; eauto.
Qed.

(* ---------------------------------------------------------------------- *)
(** * The main statements instantiated with the real fallback *)
Section Real.
  Variable intersects contains : Z -> bool.
  Variable bound : list Z.
  Variable cubound : list Z -> list Z.
  Variable depth : nat.
  Variable pts : Z -> Prop.
  Variable rc : opts.
  Hypothesis HVB : C05_Main.ValidB bound.
  Hypothesis HCB : CuBoundOK cubound.
  Notation fb := (cu_fallback depth cubound).
  Let HFS : FallbackSound fb := cu_fallback_sound cubound HCB depth.

  Lemma real_covering_covers : SoundI intersects pts -> C05_Main.SoundB bound pts ->
    forall r, Covering intersects contains bound fb rc = Some r -> forall x, is_leaf x -> pts x -> covered r x.
  Proof. exact (covering_covers_lemma intersects contains bound fb pts rc HVB HFS). Qed.
  Lemma real_cellunion_covers : SoundI intersects pts -> C05_Main.SoundB bound pts ->
    forall r, CellUnion intersects contains bound fb rc = Some r -> forall x, is_leaf x -> pts x -> covered r x.
  Proof. exact (cellunion_covers_lemma intersects contains bound fb pts rc HVB HFS). Qed.
  Lemma real_fast_covering_covers : C05_Main.SoundB bound pts ->
    forall r, FastCovering bound fb rc = Some r -> forall x, is_leaf x -> pts x -> covered r x.
  Proof. exact (fast_covering_covers_lemma bound fb pts rc HVB HFS). Qed.
  Lemma real_interior_contained : SoundC contains pts ->
    forall r, InteriorCovering intersects contains bound fb rc = Some r ->
    forall c, In c r -> forall x, is_leaf x -> leaf_in x c -> pts x.
  Proof. exact (interior_contained_lemma intersects contains bound fb pts rc HVB HFS). Qed.
  Lemma real_interior_cellunion_contained : SoundC contains pts ->
    forall r, InteriorCellUnion intersects contains bound fb rc = Some r ->
    forall c, In c r -> forall x, is_leaf x -> leaf_in x c -> pts x.
  Proof. exact (interior_cellunion_contained_lemma intersects contains bound fb pts rc HVB HFS). Qed.
  Lemma real_levels_ok : forall r,
    (Covering intersects contains bound fb rc = Some r \/ InteriorCovering intersects contains bound fb rc = Some r \/
     FastCovering bound fb rc = Some r) -> Forall (level_ok rc) r.
  Proof.
    intros r [H|[H|H]].
    - exact (levels_ok_lemma intersects contains bound fb pts rc HVB HFS r (or_introl H)).
    - exact (levels_ok_lemma intersects contains bound fb pts rc HVB HFS r (or_intror H)).
    - exact (fast_levels_ok_lemma intersects contains bound fb pts rc HVB HFS r H).
  Qed.
  Lemma real_terminates : FallbackTotal fb ->
    (exists r, Covering intersects contains bound fb rc = Some r) /\
    (exists r, InteriorCovering intersects contains bound fb rc = Some r) /\
    (exists r, CellUnion intersects contains bound fb rc = Some r) /\
    (exists r, InteriorCellUnion intersects contains bound fb rc = Some r) /\
    (exists r, FastCovering bound fb rc = Some r).
  Proof. exact (terminates_lemma intersects contains bound fb pts rc HVB HFS). Qed.
End Real.
