(** C12: structural facts of the distance family of s2/cell.go, read off the
    translated definitions (Gen/CellGeom.v): which branch returns what. *)
From Coq Require Import ZArith List Bool Floats Lia.
From Geo Require Import Base.GoPrim Gen.CellGeom Model.CellGeom.
Import ListNotations.
Local Open Scope Z_scope.

(** the four signed "which side of the edge" quantities of distanceInternal, in the face's (u,v,w) frame *)
Definition uvw_of (c : s2_Cell) (p : s2_Point) : s2_Point := s2_faceXYZtoUVW (wrap_i64 (s2_Cell_face c)) p.
Definition dir00 (c : s2_Cell) (t : s2_Point) : float :=
  PrimFloat.sub (r3_Vector_X (s2_Point_Vector t)) (PrimFloat.mul (r3_Vector_Z (s2_Point_Vector t)) (r1_Interval_Lo (r2_Rect_X (s2_Cell_uv c)))).
Definition dir01 (c : s2_Cell) (t : s2_Point) : float :=
  PrimFloat.sub (r3_Vector_X (s2_Point_Vector t)) (PrimFloat.mul (r3_Vector_Z (s2_Point_Vector t)) (r1_Interval_Hi (r2_Rect_X (s2_Cell_uv c)))).
Definition dir10 (c : s2_Cell) (t : s2_Point) : float :=
  PrimFloat.sub (r3_Vector_Y (s2_Point_Vector t)) (PrimFloat.mul (r3_Vector_Z (s2_Point_Vector t)) (r1_Interval_Lo (r2_Rect_Y (s2_Cell_uv c)))).
Definition dir11 (c : s2_Cell) (t : s2_Point) : float :=
  PrimFloat.sub (r3_Vector_Y (s2_Point_Vector t)) (PrimFloat.mul (r3_Vector_Z (s2_Point_Vector t)) (r1_Interval_Hi (r2_Rect_Y (s2_Cell_uv c)))).

(** "the uv test says inside": none of the four strict comparisons of distanceInternal fires *)
Definition uv_inside (c : s2_Cell) (p : s2_Point) : bool :=
  let t := uvw_of c p in
  negb (PrimFloat.ltb (dir00 c t) 0) && negb (PrimFloat.ltb 0 (dir01 c t)) &&
  negb (PrimFloat.ltb (dir10 c t) 0) && negb (PrimFloat.ltb 0 (dir11 c t)).

Lemma distance_zero_inside c p : uv_inside c p = true -> s2_Cell_Distance c p = 0%float.
Proof.
  unfold uv_inside. intros H.
  apply andb_true_iff in H. destruct H as [H H4]. apply andb_true_iff in H. destruct H as [H H3].
  apply andb_true_iff in H. destruct H as [H1 H2].
  apply negb_true_iff in H1, H2, H3, H4.
  unfold s2_Cell_Distance, s2_Cell_distanceInternal.
  fold (uvw_of c p). cbv zeta.
  fold (dir00 c (uvw_of c p)) (dir01 c (uvw_of c p)) (dir10 c (uvw_of c p)) (dir11 c (uvw_of c p)).
  rewrite H1, H2, H3, H4. reflexivity.
Qed.

(** outside, the result is the distance to one edge interior or the minimum over the four vertices *)
Definition vertex_min (c : s2_Cell) (t : s2_Point) : float :=
  s2_minChordAngle (s2_Cell_vertexChordDist2 c t false false)
    [s2_Cell_vertexChordDist2 c t true false; s2_Cell_vertexChordDist2 c t false true; s2_Cell_vertexChordDist2 c t true true].
Definition vertex_max (c : s2_Cell) (t : s2_Point) : float :=
  s2_maxChordAngle (s2_Cell_vertexChordDist2 c t false false)
    [s2_Cell_vertexChordDist2 c t true false; s2_Cell_vertexChordDist2 c t false true; s2_Cell_vertexChordDist2 c t true true].
Definition edge_min (c : s2_Cell) (t : s2_Point) : float :=
  s2_minChordAngle (s2_edgeDistance (PrimFloat.opp (dir00 c t)) (r1_Interval_Lo (r2_Rect_X (s2_Cell_uv c))))
    [s2_edgeDistance (dir01 c t) (r1_Interval_Hi (r2_Rect_X (s2_Cell_uv c)));
     s2_edgeDistance (PrimFloat.opp (dir10 c t)) (r1_Interval_Lo (r2_Rect_Y (s2_Cell_uv c)));
     s2_edgeDistance (dir11 c t) (r1_Interval_Hi (r2_Rect_Y (s2_Cell_uv c)))].

(** every result of distanceInternal is one of: 0, an edge distance, the 4-edge minimum, the 4-vertex minimum *)
Definition di_shape (c : s2_Cell) (t : s2_Point) (r : float) : Prop :=
  r = 0%float \/ r = edge_min c t \/ r = vertex_min c t \/
  r = s2_edgeDistance (PrimFloat.opp (dir00 c t)) (r1_Interval_Lo (r2_Rect_X (s2_Cell_uv c))) \/
  r = s2_edgeDistance (dir01 c t) (r1_Interval_Hi (r2_Rect_X (s2_Cell_uv c))) \/
  r = s2_edgeDistance (PrimFloat.opp (dir10 c t)) (r1_Interval_Lo (r2_Rect_Y (s2_Cell_uv c))) \/
  r = s2_edgeDistance (dir11 c t) (r1_Interval_Hi (r2_Rect_Y (s2_Cell_uv c))).

Lemma distanceInternal_cases c p b : di_shape c (uvw_of c p) (s2_Cell_distanceInternal c p b).
Proof.
  unfold s2_Cell_distanceInternal. fold (uvw_of c p). cbv zeta.
  fold (dir00 c (uvw_of c p)) (dir01 c (uvw_of c p)) (dir10 c (uvw_of c p)) (dir11 c (uvw_of c p)).
  fold (vertex_min c (uvw_of c p)). fold (edge_min c (uvw_of c p)).
  set (t := uvw_of c p).
  repeat match goal with
  | |- di_shape _ _ (if ?x then _ else _) => destruct x
  end;
  unfold di_shape;
  first [ left; reflexivity | right; left; reflexivity | right; right; left; reflexivity
        | right; right; right; left; reflexivity | right; right; right; right; left; reflexivity
        | right; right; right; right; right; left; reflexivity
        | right; right; right; right; right; right; reflexivity ].
Qed.

(** MaxDistance: the farthest vertex when within 90 degrees, else pi - Distance(antipode) *)
Lemma maxdistance_near c p : PrimFloat.leb (vertex_max c (uvw_of c p)) (0x1p+01)%float = true ->
  s2_Cell_MaxDistance c p = vertex_max c (uvw_of c p).
Proof.
  intros H. unfold s2_Cell_MaxDistance. fold (uvw_of c p). cbv zeta. fold (vertex_max c (uvw_of c p)).
  rewrite H. reflexivity.
Qed.

Lemma maxdistance_antipode c p : PrimFloat.leb (vertex_max c (uvw_of c p)) (0x1p+01)%float = false ->
  s2_Cell_MaxDistance c p = PrimFloat.sub (0x1p+02)%float (s2_Cell_Distance c (point_neg p)).
Proof.
  intros H. unfold s2_Cell_MaxDistance. fold (uvw_of c p). cbv zeta. fold (vertex_max c (uvw_of c p)).
  rewrite H. reflexivity.
Qed.

(** DistanceToCell: zero for same-face cells whose uv rectangles overlap *)
Lemma distancetocell_overlap a b :
  s2_Cell_face a = s2_Cell_face b -> r2_Rect_Intersects (s2_Cell_uv a) (s2_Cell_uv b) = true ->
  s2_Cell_DistanceToCell a b = 0%float.
Proof.
  intros Hf Hi. unfold s2_Cell_DistanceToCell. rewrite Hf, Z.eqb_refl, Hi. reflexivity.
Qed.

(** MaxDistanceToCell: pi when the antipode of b (opposite face, transposed uv) overlaps a *)
Lemma maxdistancetocell_antipodal a b :
  wrap_i64 (s2_Cell_face a) = s2_oppositeFace (wrap_i64 (s2_Cell_face b)) ->
  r2_Rect_Intersects (s2_Cell_uv a) (mk_r2_Rect (r2_Rect_Y (s2_Cell_uv b)) (r2_Rect_X (s2_Cell_uv b))) = true ->
  s2_Cell_MaxDistanceToCell a b = (0x1p+02)%float.
Proof.
  intros Hf Hi. unfold s2_Cell_MaxDistanceToCell. cbv zeta. rewrite Hf, Z.eqb_refl, Hi. reflexivity.
Qed.

(** DistanceToEdge (hand model): zero as soon as an endpoint is at distance zero or the edge crosses *)
Lemma distancetoedge_zero_endpoint crosses c a b :
  PrimFloat.eqb (s2_minChordAngle (s2_Cell_Distance c a) [s2_Cell_Distance c b]) 0 = true ->
  PrimFloat.eqb (cell_DistanceToEdge crosses c a b) 0 = true.
Proof. intros H. unfold cell_DistanceToEdge. rewrite H. exact H. Qed.

Lemma distancetoedge_zero_cross c a b :
  PrimFloat.eqb (s2_minChordAngle (s2_Cell_Distance c a) [s2_Cell_Distance c b]) 0 = false ->
  cell_DistanceToEdge true c a b = 0%float.
Proof. intros H. unfold cell_DistanceToEdge. rewrite H. reflexivity. Qed.

(** * edgeDistance: the pre-repair formula (before 5dba006) took the square root of a
    possibly negative rounding residue.  Kept as a definition to record the witness. *)
Definition edgeDistance_old (v_ij v_uv : float) : float :=
  let v_pq2 := PrimFloat.div (PrimFloat.mul v_ij v_ij) (PrimFloat.add 1%float (PrimFloat.mul v_uv v_uv)) in
  let v_qr := PrimFloat.sub 1%float (PrimFloat.sqrt (PrimFloat.sub 1%float v_pq2)) in
  s1_ChordAngleFromSquaredLength (PrimFloat.add v_pq2 (PrimFloat.mul v_qr v_qr)).

(** ij = fl(sqrt 2) (the target is 90 degrees from the side u = 1 of a face cell), uv = 1 *)
Lemma edgeDistance_old_refuted :
  exists ij uv, go_isnan (edgeDistance_old ij uv) = true /\ go_isnan (s2_edgeDistance ij uv) = false.
Proof. exists (0x1.6a09e667f3bcdp+0)%float, 1%float. vm_compute. auto. Qed.

(** the face-0 cell and the midpoint of its edge 1: BoundaryDistance was NaN, is now 0 *)
Definition face0_cell : s2_Cell := s2_CellFromCellID 1152921504606846976.
Definition edge1_mid : s2_Point :=
  mk_s2_Point (mk_r3_Vector (0x1.6a09e667f3bcdp-1)%float (0x1.6a09e667f3bcdp-1)%float 0%float).
Example boundarydistance_face_edge_mid :
  s2_Cell_BoundaryDistance face0_cell edge1_mid = 0%float /\ uv_inside face0_cell edge1_mid = true.
Proof. vm_compute. auto. Qed.
