(** C04 — brute-force containment is a crossing parity; inversion complements it.
    Interface laws on the crossing predicate are Section hypotheses (discharged by C03). *)
From Coq Require Import List Bool Arith Lia.
From Geo Require Import Model.Contain.
Import ListNotations.

Section Brute.
  Variable point : Type.
  Variable eov : point -> point -> point -> point -> bool.
  Variable origin : point.
  Variables emptyPt fullPt zeroPt : point.

  Local Notation loop := (loop point).
  Local Notation brute_contains := (brute_contains point eov origin zeroPt).
  Local Notation invert := (invert point emptyPt fullPt).
  Local Notation parity := (parity point eov).
  Local Notation cross_parity := (cross_parity point eov).
  Local Notation cross_count := (cross_count point eov).
  Local Notation closed_edges := (closed_edges point).
  Local Notation chain_edges := (chain_edges point).
  Local Notation loop_edges := (loop_edges point).
  Local Notation vertex := (vertex point zeroPt).

  (** *** parity bookkeeping *)
  Lemma cross_parity_nil : forall a b, cross_parity a b [] = false.
  Proof. reflexivity. Qed.

  Lemma cross_parity_cons : forall a b e E,
    cross_parity a b (e :: E) = xorb (eov a b (fst e) (snd e)) (cross_parity a b E).
  Proof.
    intros a b e E. unfold Contain.cross_parity, Contain.cross_count. cbn [filter].
    destruct (eov a b (fst e) (snd e)); cbn [length].
    - rewrite Nat.odd_succ, <- Nat.negb_odd. destruct (Nat.odd _); reflexivity.
    - rewrite xorb_false_l. reflexivity.
  Qed.

  Lemma cross_parity_app : forall a b E F,
    cross_parity a b (E ++ F) = xorb (cross_parity a b E) (cross_parity a b F).
  Proof.
    intros a b E F. induction E as [|e E IH]; cbn [app].
    - rewrite cross_parity_nil, xorb_false_l. reflexivity.
    - rewrite !cross_parity_cons, IH, xorb_assoc. reflexivity.
  Qed.

  (** *** the index-based Go loop visits v1 .. v_{n-1}, v0 *)
  Lemma vertex_seq : forall v0 rest,
    map (vertex (v0 :: rest)) (seq 1 (length (v0 :: rest))) = rest ++ [v0].
  Proof.
    intros v0 rest. set (vs := v0 :: rest). set (n := length vs).
    assert (Hn : n = S (length rest)) by reflexivity.
    apply (nth_ext _ _ zeroPt zeroPt).
    - rewrite map_length, seq_length, app_length. cbn [length]. lia.
    - intros k Hk. rewrite map_length, seq_length in Hk.
      rewrite (nth_indep _ zeroPt (vertex vs 0)) by (rewrite map_length, seq_length; exact Hk).
      rewrite map_nth, seq_nth by exact Hk.
      unfold Contain.vertex. fold n.
      destruct (Nat.eq_dec k (length rest)) as [E|NE].
      + subst k. replace (1 + length rest) with n by lia.
        rewrite Nat.mod_same by lia. rewrite app_nth2 by lia.
        rewrite Nat.sub_diag. reflexivity.
      + rewrite Nat.mod_small by lia. rewrite app_nth1 by lia. reflexivity.
  Qed.

  Definition chain_step (st : bool * crosser point) (d : point) : bool * crosser point :=
    let rk := chain_crossing point eov (snd st) d in (xorb (fst st) (fst rk), snd rk).

  Lemma chain_step_eq : forall a b c acc d,
    chain_step (acc, mk_crosser point a b c) d = (xorb acc (eov a b c d), mk_crosser point a b d).
  Proof. reflexivity. Qed.

  Lemma chain_fold : forall a b ds c acc,
    fst (fold_left chain_step ds (acc, mk_crosser point a b c))
    = xorb acc (cross_parity a b (chain_edges c ds)).
  Proof.
    intros a b ds. induction ds as [|d ds IH]; intros c acc; cbn [fold_left Contain.chain_edges].
    - rewrite cross_parity_nil, xorb_false_r. reflexivity.
    - rewrite chain_step_eq, IH, cross_parity_cons. cbn [fst snd]. rewrite xorb_assoc. reflexivity.
  Qed.

  Lemma fold_left_map_arg : forall (A B C : Type) (f : A -> C -> A) (g : B -> C) l a,
    fold_left (fun st i => f st (g i)) l a = fold_left f (map g l) a.
  Proof. intros A B C f g l. induction l as [|x l IH]; intro a; cbn; [reflexivity|apply IH]. Qed.

  (** [parity_def]: the brute-force answer is [originInside] XOR "the number of loop edges
      (v_i, v_{i+1}) with EdgeOrVertexCrossing(origin, p, v_i, v_{i+1}) is odd". *)
  Theorem parity_def : forall (L : loop) p,
    brute_contains L p = parity origin (origin_inside _ L) (loop_edges L) p.
  Proof.
    intros [vs oi] p. unfold Contain.brute_contains, Contain.parity, Contain.loop_edges.
    cbn [verts origin_inside].
    destruct vs as [|v0 rest].
    - cbn. rewrite xorb_false_r. reflexivity.
    - rewrite (fold_left_map_arg _ _ _ chain_step (vertex (v0 :: rest))).
      rewrite (vertex_seq v0 rest). unfold new_chain_edge_crosser.
      rewrite chain_fold.
      replace (vertex (v0 :: rest) 0) with v0; [reflexivity|].
      unfold Contain.vertex. cbn [length]. rewrite Nat.mod_small by lia. reflexivity.
  Qed.

  Corollary parity_count : forall (L : loop) p,
    brute_contains L p
    = xorb (origin_inside _ L) (Nat.odd (cross_count origin p (loop_edges L))).
  Proof. intros. apply parity_def. Qed.

  (** The flag only offsets the answer. *)
  Lemma brute_flag : forall vs oi p,
    brute_contains (mk_loop _ vs oi) p = xorb oi (brute_contains (mk_loop _ vs false) p).
  Proof.
    intros. rewrite !parity_def. unfold Contain.parity, Contain.loop_edges. cbn [verts origin_inside].
    rewrite xorb_false_l. reflexivity.
  Qed.

  (** *** crossings along a path, as an XOR *)
  Section Path.
    Variable f : point -> point -> bool.
    Fixpoint xpath (l : list point) : bool :=
      match l with
      | x :: (y :: _) as t => xorb (f x y) (xpath t)
      | _ => false
      end.

    Lemma xpath_snoc : forall l x y,
      xpath ((l ++ [x]) ++ [y]) = xorb (xpath (l ++ [x])) (f x y).
    Proof.
      induction l as [|z l IH]; intros x y.
      - cbn. destruct (f x y); reflexivity.
      - destruct l as [|w l].
        + cbn. destruct (f z x), (f x y); reflexivity.
        + change (((z :: w :: l) ++ [x]) ++ [y]) with (z :: ((w :: l) ++ [x]) ++ [y]).
          change ((z :: w :: l) ++ [x]) with (z :: (w :: l) ++ [x]).
          change (xpath (z :: ((w :: l) ++ [x]) ++ [y]))
            with (xorb (f z w) (xpath (((w :: l) ++ [x]) ++ [y]))).
          change (xpath (z :: (w :: l) ++ [x]))
            with (xorb (f z w) (xpath ((w :: l) ++ [x]))).
          rewrite IH, xorb_assoc. reflexivity.
    Qed.

    Hypothesis f_sym : forall x y, f x y = f y x.

    Lemma xpath_rev : forall l, xpath (rev l) = xpath l.
    Proof.
      induction l as [|x l IH]; [reflexivity|].
      destruct l as [|y l]; [reflexivity|].
      change (rev (x :: y :: l)) with ((rev l ++ [y]) ++ [x]).
      rewrite xpath_snoc. change (rev l ++ [y]) with (rev (y :: l)). rewrite IH.
      change (xpath (x :: y :: l)) with (xorb (f x y) (xpath (y :: l))).
      rewrite (f_sym y x), xorb_comm. reflexivity.
    Qed.
  End Path.

  Lemma cross_parity_chain : forall a b c ds,
    cross_parity a b (chain_edges c ds) = xpath (eov a b) (c :: ds).
  Proof.
    intros a b c ds. revert c. induction ds as [|d ds IH]; intro c.
    - reflexivity.
    - cbn [Contain.chain_edges]. rewrite cross_parity_cons, IH. reflexivity.
  Qed.

  (* the closed chain of a vertex list, as a path that returns to its first vertex *)
  Definition cyc (l : list point) : list point :=
    match l with [] => [] | x :: _ => l ++ [x] end.

  Lemma cross_parity_closed : forall a b vs,
    cross_parity a b (closed_edges vs) = xpath (eov a b) (cyc vs).
  Proof.
    intros a b [|v0 rest]; [reflexivity|].
    unfold Contain.closed_edges, cyc. rewrite cross_parity_chain. reflexivity.
  Qed.

  (** Reversing the vertex order of a closed chain keeps the crossing parity, provided the
      predicate does not depend on the direction of the tested edge. *)
  Lemma xpath_cyc_rev : forall f, (forall x y, f x y = f y x) ->
    forall l, xpath f (cyc (rev l)) = xpath f (cyc l).
  Proof.
    intros f f_sym l. destruct l as [|x l]; [reflexivity|].
    (* cyc (x::l) = x :: l ++ [x];  rev of it = x :: rev l ++ [x] = cyc (rev (x::l)) up to rotation *)
    assert (Hrev : rev (cyc (x :: l)) = x :: rev (x :: l)).
    { unfold cyc. rewrite rev_app_distr. reflexivity. }
    rewrite <- (xpath_rev f f_sym (cyc (x :: l))), Hrev.
    (* lhs: cyc (rev (x::l)) where rev (x::l) = rev l ++ [x] *)
    destruct (rev l) as [|y r] eqn:Er.
    - assert (l = []) by (apply (f_equal (@rev point)) in Er; rewrite rev_involutive in Er; exact Er).
      subst l. reflexivity.
    - change (rev (x :: l)) with (rev l ++ [x]). rewrite Er.
      change (cyc ((y :: r) ++ [x])) with (((y :: r) ++ [x]) ++ [y]).
      rewrite xpath_snoc.
      change (x :: (y :: r) ++ [x]) with (x :: y :: (r ++ [x])).
      change (xpath f (x :: y :: r ++ [x])) with (xorb (f x y) (xpath f (y :: r ++ [x]))).
      rewrite xorb_comm. reflexivity.
  Qed.

  (** *** the interface laws *)
  (* reversing the tested edge CD (C03: crossing_spec_sym / vertex_crossing_laws) *)
  Definition eov_sym_cd_law : Prop := forall a b c d, eov a b c d = eov a b d c.
  (* a degenerate tested edge is never crossed (C03: VC(a,b,c,c) = false, CrossingSign /= Cross) *)
  Definition eov_degenerate_cd_law : Prop := forall a b c, eov a b c c = false.

  Lemma closed_parity_rev : eov_sym_cd_law -> forall a b vs,
    cross_parity a b (closed_edges (rev vs)) = cross_parity a b (closed_edges vs).
  Proof.
    intros Hsym a b vs. rewrite !cross_parity_closed.
    apply xpath_cyc_rev. intros x y. apply Hsym.
  Qed.

  (** [invert_complement], ordinary loops (any vertex count other than the 1 of the special
      empty/full loops, the invalid 0 and 2 included): needs only the symmetry law. *)
  Theorem invert_complement_ordinary : eov_sym_cd_law ->
    forall (L : loop) p, length (verts _ L) <> 1 ->
      brute_contains (invert L) p = negb (brute_contains L p).
  Proof.
    intros Hsym [vs oi] p Hlen. cbn [verts] in Hlen.
    rewrite !parity_def. unfold Contain.invert, Contain.is_empty_or_full, Contain.parity, Contain.loop_edges.
    cbn [verts origin_inside].
    destruct (Nat.eqb_spec (length vs) 1) as [E|_]; [contradiction|].
    rewrite closed_parity_rev by exact Hsym.
    destruct oi; destruct (cross_parity origin p (closed_edges vs)); reflexivity.
  Qed.

  (** [invert_complement], every loop value: the special one-vertex loops have their vertex
      replaced, so the degenerate-edge law is needed as well. *)
  Theorem invert_complement : eov_sym_cd_law -> eov_degenerate_cd_law ->
    forall (L : loop) p, brute_contains (invert L) p = negb (brute_contains L p).
  Proof.
    intros Hsym Hdeg L p.
    destruct (Nat.eq_dec (length (verts _ L)) 1) as [E|NE].
    - destruct L as [vs oi]. cbn [verts] in E.
      destruct vs as [|v [|w vs]]; try discriminate.
      rewrite !parity_def. unfold Contain.invert, Contain.is_empty_or_full, Contain.parity, Contain.loop_edges.
      cbn [verts origin_inside length Nat.eqb].
      destruct oi; cbn [Contain.closed_edges Contain.chain_edges app];
        rewrite !cross_parity_cons, !cross_parity_nil; cbn [fst snd]; rewrite !Hdeg; reflexivity.
    - apply invert_complement_ordinary; assumption.
  Qed.

  (** A loop and its inverse contain every point — vertices and points on edges included —
      exactly once. *)
  Corollary loop_and_inverse_partition : eov_sym_cd_law -> eov_degenerate_cd_law ->
    forall (L : loop) p, xorb (brute_contains L p) (brute_contains (invert L) p) = true.
  Proof.
    intros Hsym Hdeg L p. rewrite invert_complement by assumption.
    destruct (brute_contains L p); reflexivity.
  Qed.

  Lemma invert_involutive_ordinary : forall (L : loop), length (verts _ L) <> 1 ->
    invert (invert L) = L.
  Proof.
    intros [vs oi] Hlen. cbn [verts] in Hlen. unfold Contain.invert, Contain.is_empty_or_full.
    cbn [verts origin_inside]. destruct (Nat.eqb_spec (length vs) 1); [contradiction|].
    rewrite rev_length. destruct (Nat.eqb_spec (length vs) 1); [contradiction|].
    rewrite rev_involutive, negb_involutive. reflexivity.
  Qed.
End Brute.

(** The hypotheses are satisfiable: the predicate that never reports a crossing. *)
Example invert_complement_laws_satisfiable :
  eov_sym_cd_law nat (fun _ _ _ _ => false) /\ eov_degenerate_cd_law nat (fun _ _ _ _ => false).
Proof. unfold eov_sym_cd_law, eov_degenerate_cd_law. split; intros; reflexivity. Qed.
(* and a non-trivial one: "c and d are on different sides of the threshold a+b" *)
Example invert_complement_laws_satisfiable' :
  let e := fun a b c d => xorb (Nat.ltb c (a + b)) (Nat.ltb d (a + b)) in
  eov_sym_cd_law nat e /\ eov_degenerate_cd_law nat e.
Proof.
  unfold eov_sym_cd_law, eov_degenerate_cd_law. cbv zeta.
  split; intros a b c; intros; [apply xorb_comm | apply xorb_nilpotent].
Qed.
