(** C07 — wedge relation laws. [ordered_ccw] is a parameter (s2.OrderedCCW, layer C02);
    the laws of it that are used are Section hypotheses, so they are visible premises. *)
From Coq Require Import Bool.
From Geo Require Import Model.Wedge.

Section WedgeLaws.
  Variable point : Type.
  Variable peq : point -> point -> bool.
  Variable ordered_ccw : point -> point -> point -> point -> bool.

  Notation WC := (wedge_contains point ordered_ccw).
  Notation WI := (wedge_intersects point ordered_ccw).

  (** A intersects B at a shared vertex iff the complement wedge of A does not contain B.
      No law of [ordered_ccw] is needed: the two Go functions are written as exact duals. *)
  Lemma wedge_dual a0 ab1 a2 b0 b2 : WI a0 ab1 a2 b0 b2 = negb (WC a2 ab1 a0 b0 b2).
  Proof. unfold wedge_contains, wedge_intersects. now rewrite negb_andb. Qed.

  Lemma wedge_intersects_sym a0 ab1 a2 b0 b2 : WI a0 ab1 a2 b0 b2 = WI b0 ab1 b2 a0 a2.
  Proof. unfold wedge_intersects. apply orb_comm. Qed.

  (** A contains B iff the complement of B contains the complement of A *)
  Lemma wedge_contains_compl a0 ab1 a2 b0 b2 : WC a0 ab1 a2 b0 b2 = WC b2 ab1 b0 a2 a0.
  Proof. unfold wedge_contains. apply andb_comm. Qed.

  (** property (4) of OrderedCCW's documentation: a == b implies OrderedCCW(a,b,c,o) *)
  Hypothesis occw_aab : forall a c o, ordered_ccw a a c o = true.

  Lemma wedge_contains_self a0 v a2 : WC a0 v a2 a0 a2 = true.
  Proof. unfold wedge_contains. now rewrite !occw_aab. Qed.

  (** property (5): a == c, b different, all different from o: OrderedCCW(a,b,a,o) is false *)
  Hypothesis occw_aba : forall a b o, a <> b -> a <> o -> b <> o -> ordered_ccw a b a o = false.

  Lemma wedge_intersects_self a0 v a2 : a0 <> a2 -> a0 <> v -> a2 <> v -> WI a0 v a2 a0 a2 = true.
  Proof. intros H1 H2 H3. unfold wedge_intersects. now rewrite occw_aba. Qed.
End WedgeLaws.

(** the hypotheses are satisfiable (one-point model is excluded by [occw_aba]'s guards only;
    here: points = bool, ordered_ccw a b c o := a = b or b = c) *)
Example wedge_laws_satisfiable :
  let occw := fun a b c (_ : bool) => Bool.eqb a b || Bool.eqb b c in
  (forall a c o, occw a a c o = true) /\
  (forall a b o, a <> b -> a <> o -> b <> o -> occw a b a o = false).
Proof. split; intros; destruct a; try destruct b; try destruct c; try destruct o; simpl; congruence. Qed.
