(** C02. Real-number core of the cos triage (cosDistance / triageCompareCosDistances):
    the float dot product of two nearly unit vectors against the cosine of the angle between
    the NORMALIZED vectors. [near u eta v e]: |v - e| <= u |e| + eta (Proofs/C02_TriageReal.v).
      [dot3_half]   |fl(a.x) - a.x| <= 3/2 u N + 3/2 u |a.x| + 10 u^2 + 10 eta,  N >= sum |a_i x_i|
                    (the 1/2-splitting of the first partial sum)
      [cos_err]     hence, for  | |a||x| - 1 | <= 8u:
                    |fl(a.x) - cos| <= 19/2 u (1 + 100u) |fl(a.x)| + 3/2 u (1 + 100u)
      [err_lower]   the float  fl(fl(C95 |c|) + C15)  is at least that bound as soon as
                    C95 >= 19/2 u (1 + 2^-45) and C15 >= 3/2 u (1 + 2^-45).
    The constants 9.5 u and 1.5 u of predicates.go are EXACTLY the first-order coefficients of
    this analysis: there is no room for the second-order terms (see C02_CosDet.v). *)
From Coq Require Import Reals Lra Psatz.
From Flocq Require Import Core.Raux.
From Geo Require Import Proofs.C02_TriageReal.
Local Open Scope R_scope.

Section CosCore.
Variables u eta : R.
Hypothesis u_pos : 0 <= u.   Hypothesis u_small : u <= / 1000000.
Hypothesis eta_pos : 0 <= eta.  Hypothesis eta_small : eta <= u * u.

Notation nearU := (near u eta).

Lemma near_abs_le v e : nearU v e -> Rabs (v - e) <= u * Rabs e + eta.
Proof. intros H; exact H. Qed.

Lemma dot3_half p1 p2 p3 q1 q2 q3 s D N :
  Rabs p1 + Rabs p2 + Rabs p3 <= N -> N <= 2 ->
  nearU q1 p1 -> nearU q2 p2 -> nearU q3 p3 -> nearU s (q1 + q2) -> nearU D (s + q3) ->
  Rabs (D - (p1 + p2 + p3)) <= 3 / 2 * u * N + 3 / 2 * u * Rabs (p1 + p2 + p3) + 10 * (u * u) + 10 * eta.
Proof.
  intros HN N2 H1 H2 H3 H4 H5. unfold near in *.
  set (d := p1 + p2 + p3) in *.
  set (e1 := q1 - p1) in *. set (e2 := q2 - p2) in *. set (e3 := q3 - p3) in *.
  set (e4 := s - (q1 + q2)) in *. set (e5 := D - (s + q3)) in *.
  pose proof (Rabs_pos p1) as P1. pose proof (Rabs_pos p2) as P2. pose proof (Rabs_pos p3) as P3.
  pose proof (Rabs_pos e1) as A1. pose proof (Rabs_pos e2) as A2. pose proof (Rabs_pos e3) as A3.
  pose proof (Rabs_pos e4) as A4. pose proof (Rabs_pos e5) as A5. pose proof (Rabs_pos d) as Dp.
  assert (N0 : 0 <= N) by lra.
  (* the three products *)
  assert (E3 : Rabs e1 + Rabs e2 + Rabs e3 <= u * N + 3 * eta).
  { assert (u * (Rabs p1 + Rabs p2 + Rabs p3) <= u * N) by (apply Rmult_le_compat_l; lra). lra. }
  assert (E12 : Rabs e1 + Rabs e2 <= u * N + 2 * eta).
  { assert (u * (Rabs p1 + Rabs p2) <= u * N) by (apply Rmult_le_compat_l; lra). lra. }
  (* first partial sum: p1 + p2 = d/2 + (p1 + p2 - p3)/2 *)
  assert (H12 : Rabs (p1 + p2) <= / 2 * Rabs d + / 2 * N).
  { replace (p1 + p2) with (/ 2 * d + / 2 * (p1 + p2 - p3)) by (unfold d; field).
    eapply Rle_trans; [apply Rabs_triang|]. rewrite !Rabs_mult, (Rabs_pos_eq (/ 2)) by lra.
    assert (Rabs (p1 + p2 - p3) <= Rabs p1 + Rabs p2 + Rabs p3).
    { eapply Rle_trans; [apply Rabs_triang|]. rewrite Rabs_Ropp. pose proof (Rabs_triang p1 p2). lra. }
    lra. }
  assert (Hq12 : Rabs (q1 + q2) <= / 2 * Rabs d + / 2 * N + (u * N + 2 * eta)).
  { replace (q1 + q2) with ((p1 + p2) + e1 + e2) by (unfold e1, e2; ring).
    pose proof (Rabs_triang (p1 + p2 + e1) e2). pose proof (Rabs_triang (p1 + p2) e1). lra. }
  set (B12 := / 2 * Rabs d + / 2 * N + (u * N + 2 * eta)) in *.
  assert (E4 : Rabs e4 <= u * B12 + eta).
  { assert (u * Rabs (q1 + q2) <= u * B12) by (apply Rmult_le_compat_l; lra). lra. }
  (* last sum *)
  assert (Hsq : Rabs (s + q3) <= Rabs d + (u * N + 3 * eta) + (u * B12 + eta)).
  { replace (s + q3) with (d + (e1 + e2 + e3) + e4) by (unfold d, e1, e2, e3, e4; ring).
    pose proof (Rabs_triang (d + (e1 + e2 + e3)) e4). pose proof (Rabs_triang d (e1 + e2 + e3)).
    pose proof (Rabs_triang (e1 + e2) e3). pose proof (Rabs_triang e1 e2). lra. }
  set (B5 := Rabs d + (u * N + 3 * eta) + (u * B12 + eta)) in *.
  assert (E5 : Rabs e5 <= u * B5 + eta).
  { assert (u * Rabs (s + q3) <= u * B5) by (apply Rmult_le_compat_l; lra). lra. }
  replace (D - d) with (e1 + e2 + e3 + e4 + e5) by (unfold d, e1, e2, e3, e4, e5; ring).
  assert (Tri : Rabs (e1 + e2 + e3 + e4 + e5) <= Rabs e1 + Rabs e2 + Rabs e3 + Rabs e4 + Rabs e5).
  { pose proof (Rabs_triang (e1 + e2 + e3 + e4) e5). pose proof (Rabs_triang (e1 + e2 + e3) e4).
    pose proof (Rabs_triang (e1 + e2) e3). pose proof (Rabs_triang e1 e2). lra. }
  eapply Rle_trans; [exact Tri|].
  (* second-order terms, each bounded explicitly *)
  assert (uN : u * N <= 2 * u) by (apply Rle_trans with (u * 2); [apply Rmult_le_compat_l; lra|lra]).
  assert (uu : u * u <= / 1000000 * u) by (apply Rmult_le_compat_r; lra).
  assert (T1 : u * (u * N + 2 * eta) <= 3 * (u * u)).
  { assert (u * (u * N) <= u * (2 * u)) by (apply Rmult_le_compat_l; lra).
    assert (u * (2 * eta) <= u * (2 * (u * u))) by (apply Rmult_le_compat_l; lra).
    assert (u * (2 * (u * u)) <= u * u) by (replace (u * (2 * (u * u))) with (2 * u * (u * u)) by ring;
       replace (u * u) with (1 * (u * u)) at 2 by ring; apply Rmult_le_compat_r; [apply Rmult_le_pos; lra|lra]).
    lra. }
  assert (HB12 : u * B12 = / 2 * (u * Rabs d) + / 2 * (u * N) + u * (u * N + 2 * eta)) by (unfold B12; ring).
  assert (Dle : Rabs d <= N).
  { unfold d. pose proof (Rabs_triang (p1 + p2) p3). pose proof (Rabs_triang p1 p2). lra. }
  assert (ud : u * Rabs d <= 2 * u) by (apply Rle_trans with (u * 2); [apply Rmult_le_compat_l; lra|lra]).
  assert (T2 : u * (u * N + 3 * eta + (u * B12 + eta)) <= 6 * (u * u)).
  { assert (u * B12 <= 3 * u) by lra.
    assert (u * N + 3 * eta + (u * B12 + eta) <= 6 * u) by lra.
    apply Rle_trans with (u * (6 * u)); [apply Rmult_le_compat_l; lra|lra]. }
  assert (HB5 : u * B5 = u * Rabs d + u * (u * N + 3 * eta + (u * B12 + eta))) by (unfold B5; ring).
  lra.
Qed.

(** fl(a.x) against the cosine of the normalized vectors *)
Lemma cos_err d nu Df :
  Rabs (nu - 1) <= 8 * u -> Rabs d <= nu ->
  Rabs (Df - d) <= 3 / 2 * u * nu + 3 / 2 * u * Rabs d + 10 * (u * u) + 10 * eta ->
  Rabs (Df - d / nu) <= 19 / 2 * u * (1 + 100 * u) * Rabs Df + 3 / 2 * u * (1 + 100 * u).
Proof.
  intros Hnu Hd HD.
  assert (nup : 0 < nu) by (apply Rabs_le_inv in Hnu; lra).
  set (c := d / nu). assert (Ec : d = c * nu) by (unfold c; field; lra).
  assert (C1 : Rabs c <= 1).
  { unfold c, Rdiv. rewrite Rabs_mult, (Rabs_pos_eq (/ nu)) by (left; now apply Rinv_0_lt_compat).
    apply Rmult_le_reg_r with nu; [exact nup|]. rewrite Rmult_assoc, Rinv_l by lra. lra. }
  pose proof (Rabs_pos c) as C0.
  assert (Hdc : Rabs (d - c) <= 8 * u * Rabs c).
  { replace (d - c) with (c * (nu - 1)) by (rewrite Ec; ring). rewrite Rabs_mult, Rmult_comm.
    apply Rmult_le_compat_r; assumption. }
  assert (Hd' : Rabs d <= Rabs c * (1 + 8 * u)).
  { rewrite Ec, Rabs_mult, (Rabs_pos_eq nu) by lra. apply Rmult_le_compat_l; [exact C0|].
    apply Rabs_le_inv in Hnu. lra. }
  assert (nu_le : nu <= 1 + 8 * u) by (apply Rabs_le_inv in Hnu; lra).
  set (Dl := Rabs (Df - c)).
  assert (HDl : Dl <= Rabs (Df - d) + Rabs (d - c)).
  { unfold Dl. replace (Df - c) with ((Df - d) + (d - c)) by ring. apply Rabs_triang. }
  assert (uu : u * u <= / 1000000 * u) by (apply Rmult_le_compat_r; lra).
  assert (uc : u * Rabs c <= u) by (replace u with (u * 1) at 2 by ring; apply Rmult_le_compat_l; lra).
  assert (uuc : u * u * Rabs c <= u * u).
  { replace (u * u) with (u * u * 1) at 2 by ring. apply Rmult_le_compat_l; [apply Rmult_le_pos; lra|lra]. }
  assert (B1 : Dl <= 3 / 2 * u + 32 * (u * u) + (19 / 2 * u + 12 * (u * u)) * Rabs c).
  { assert (3 / 2 * u * nu <= 3 / 2 * u * (1 + 8 * u)) by (apply Rmult_le_compat_l; lra).
    assert (3 / 2 * u * Rabs d <= 3 / 2 * u * (Rabs c * (1 + 8 * u))) by (apply Rmult_le_compat_l; lra).
    lra. }
  assert (Crude : Dl <= 12 * u).
  { assert ((19 / 2 * u + 12 * (u * u)) * Rabs c <= (19 / 2 * u + 12 * (u * u)) * 1)
      by (apply Rmult_le_compat_l; [|exact C1]; nra). lra. }
  assert (Cf : Rabs c <= Rabs Df + Dl).
  { unfold Dl. replace c with (Df - (Df - c)) at 1 by ring. unfold Rminus at 1.
    eapply Rle_trans; [apply Rabs_triang|]. rewrite Rabs_Ropp. lra. }
  pose proof (Rabs_pos Df) as F0.
  assert (B2 : (19 / 2 * u + 12 * (u * u)) * Rabs c <= (19 / 2 * u + 12 * (u * u)) * (Rabs Df + 12 * u)).
  { apply Rmult_le_compat_l; [nra|lra]. }
  fold c. fold Dl.
  assert (uF : u * u * Rabs Df <= / 1000000 * (u * Rabs Df)).
  { replace (u * u * Rabs Df) with (u * (u * Rabs Df)) by ring. apply Rmult_le_compat_r; [apply Rmult_le_pos; lra|lra]. }
  assert (u3 : u * u * u <= / 1000000 * (u * u)).
  { replace (u * u * u) with (u * (u * u)) by ring. apply Rmult_le_compat_r; [apply Rmult_le_pos; lra|lra]. }
  replace ((19 / 2 * u + 12 * (u * u)) * (Rabs Df + 12 * u))
    with (19 / 2 * (u * Rabs Df) + 12 * (u * u * Rabs Df) + 114 * (u * u) + 144 * (u * u * u)) in B2 by field.
  replace (19 / 2 * u * (1 + 100 * u) * Rabs Df + 3 / 2 * u * (1 + 100 * u))
    with (19 / 2 * (u * Rabs Df) + 950 * (u * u * Rabs Df) + 3 / 2 * u + 150 * (u * u)) by field.
  assert (0 <= u * u * Rabs Df) by (apply Rmult_le_pos; [apply Rmult_le_pos; lra|lra]).
  lra.
Qed.

(** the float error term fl(fl(C95 |c|) + C15) dominates the bound of [cos_err] *)
Lemma err_lower C95 C15 ac m e :
  0 <= ac -> ac <= 2 ->
  19 / 2 * u * (1 + 250 * u) <= C95 -> C95 <= 1 ->
  3 / 2 * u * (1 + 250 * u) <= C15 -> C15 <= 1 ->
  nearU m (C95 * ac) -> nearU e (m + C15) ->
  (19 / 2 * u * (1 + 100 * u) * ac + 3 / 2 * u * (1 + 100 * u)) * (1 + 100 * u) <= e.
Proof.
  intros A0 A2 H95 H95' H15 H15' Hm He. unfold near in *.
  assert (P : 0 <= C95 * ac) by (apply Rmult_le_pos; nra).
  rewrite (Rabs_pos_eq _ P) in Hm. apply Rabs_le_inv in Hm.
  assert (uu : u * u <= / 1000000 * u) by (apply Rmult_le_compat_r; lra).
  assert (uu0 : 0 <= u * u) by (apply Rmult_le_pos; lra).
  assert (m0 : 0 <= m + C15).
  { assert (u * (C95 * ac) <= / 1000000 * (C95 * ac)) by (apply Rmult_le_compat_r; lra).
    assert (0 <= u * u) by (apply Rmult_le_pos; lra). lra. }
  rewrite (Rabs_pos_eq _ m0) in He. apply Rabs_le_inv in He.
  (* e >= (m + C15)(1-u) - eta >= (C95 ac (1-u) - eta + C15)(1-u) - eta *)
  set (X := C95 * ac) in *.
  assert (L1 : (X * (1 - u) - eta + C15) * (1 - u) - eta <= e).
  { assert ((X * (1 - u) - eta + C15) * (1 - u) <= (m + C15) * (1 - u)) by (apply Rmult_le_compat_r; lra). lra. }
  eapply Rle_trans; [|exact L1].
  assert (LX : 19 / 2 * u * (1 + 250 * u) * ac <= X) by (unfold X; apply Rmult_le_compat_r; lra).
  set (w := u * ac) in *. assert (w0 : 0 <= w) by (apply Rmult_le_pos; lra).
  assert (w2 : w <= 2 * u) by (unfold w; rewrite Rmult_comm; apply Rmult_le_compat_r; lra).
  (* all remaining quantities: polynomial in u, w, X, C15, eta; bound products explicitly *)
  assert (uuw : u * u * w <= / 1000000 * (u * w)).
  { replace (u * u * w) with (u * (u * w)) by ring. apply Rmult_le_compat_r; [apply Rmult_le_pos; lra|lra]. }
  assert (uw : u * w <= / 1000000 * w) by (apply Rmult_le_compat_r; lra).
  assert (u3 : u * u * u <= / 1000000 * (u * u)).
  { replace (u * u * u) with (u * (u * u)) by ring. apply Rmult_le_compat_r; [apply Rmult_le_pos; lra|lra]. }
  replace ((19 / 2 * u * (1 + 100 * u) * ac + 3 / 2 * u * (1 + 100 * u)) * (1 + 100 * u))
    with (19 / 2 * w + 1900 * (u * w) + 95000 * (u * u * w) + 3 / 2 * u + 300 * (u * u) + 15000 * (u * u * u))
    by (unfold w; field).
  replace (19 / 2 * u * (1 + 250 * u) * ac) with (19 / 2 * w + 2375 * (u * w)) in LX by (unfold w; field).
  replace ((X * (1 - u) - eta + C15) * (1 - u) - eta)
    with (X - 2 * (u * X) + u * (u * X) + C15 - u * C15 - 2 * eta + u * eta) by ring.
  assert (0 <= u * (u * X)) by (apply Rmult_le_pos; [lra|apply Rmult_le_pos; [lra|unfold X; nra]]).
  assert (0 <= u * eta) by (apply Rmult_le_pos; lra).
  assert (XL : (19 / 2 * w + 2375 * (u * w)) * (1 - 2 * u) <= X * (1 - 2 * u)) by (apply Rmult_le_compat_r; lra).
  replace ((19 / 2 * w + 2375 * (u * w)) * (1 - 2 * u))
    with (19 / 2 * w + 2356 * (u * w) - 4750 * (u * u * w)) in XL by field.
  assert (CL : 3 / 2 * u * (1 + 250 * u) * (1 - u) <= C15 * (1 - u)) by (apply Rmult_le_compat_r; lra).
  replace (3 / 2 * u * (1 + 250 * u) * (1 - u)) with (3 / 2 * u + 747 / 2 * (u * u) - 375 * (u * u * u)) in CL by field.
  assert (0 <= u * w) by (apply Rmult_le_pos; lra).
  assert (0 <= u * u * w) by (apply Rmult_le_pos; [apply Rmult_le_pos; lra|lra]).
  assert (0 <= u * u * u) by (apply Rmult_le_pos; [apply Rmult_le_pos; lra|lra]).
  assert (eu : eta <= / 1000000 * u) by lra.
  replace (X - 2 * (u * X) + u * (u * X) + C15 - u * C15 - 2 * eta + u * eta)
    with (X * (1 - 2 * u) + u * (u * X) + C15 * (1 - u) - 2 * eta + u * eta) by ring.
  lra.
Qed.

End CosCore.
