(** C01 — Hilbert continuity: consecutive cells of a level along the curve of one face are one
    step apart in (i,j), at every level; hence consecutive cells share an edge.  The proof is the
    induction on depth with the entry/exit-corner invariant of the one-level recursion
    (Model/HilbertDecode.v), transported to the translated table-driven faceIJOrientation by
    C12's bridge (faceIJOrientation_bridge / decode_struct). *)
From Coq Require Import ZArith List Bool Lia.
From Geo Require Import Base.GoPrim Gen.CellIDFull Model.HilbertDecode
  Proofs.C01_Bits Proofs.C01_Algebra Proofs.C12_Hilbert Proofs.C12_Ids Proofs.C12_Bridge Proofs.C12_Children.
Import ListNotations.
Local Open Scope Z_scope.

(** entry and exit corner of the curve inside a cell of orientation o (corner offsets in {0,1}^2) *)
Definition ent (o : Z) : Z := o / 2.
Definition exa (o : Z) : Z := if (o =? 0) || (o =? 3) then 1 else 0.
Definition exb (o : Z) : Z := 1 - exa o.

(** [chain s s']: s' follows s on the curve: the exit corner of s is the entry corner of s', and
    the two cells are one step apart *)
Definition chain (s s' : Z * Z * Z) : Prop :=
  let '(i, j, o) := s in let '(i', j', o') := s' in
  i + exa o = i' + ent o' /\ j + exb o = j' + ent o' /\ Z.abs (i - i') + Z.abs (j - j') = 1.

(** siblings p, p+1 inside one parent *)
Lemma chain_siblings : forall i j o p, 0 <= o < 4 -> 0 <= p < 3 ->
  chain (hd_step (i, j, o) p) (hd_step (i, j, o) (p + 1)).
Proof.
  intros i j o p Ho Hp. rewrite !hd_step_eq. unfold chain.
  assert (Cp : p = 0 \/ p = 1 \/ p = 2) by lia.
  by_cases o Ho; destruct Cp as [-> | [-> | ->]]; cbn [Z.add Pos.add]; hd_eval; vm_compute ent; vm_compute exa; vm_compute exb; lia.
Qed.

(** last child of a cell and first child of its successor *)
Lemma chain_cousins : forall i j o i' j' o', 0 <= o < 4 -> 0 <= o' < 4 ->
  chain (i, j, o) (i', j', o') -> chain (hd_step (i, j, o) 3) (hd_step (i', j', o') 0).
Proof.
  intros i j o i' j' o' Ho Ho' H. rewrite !hd_step_eq. unfold chain in *.
  by_cases o Ho; by_cases o' Ho'; hd_eval; revert H; vm_compute ent; vm_compute exa; vm_compute exb; lia.
Qed.

(** [continuity]: at every level n, the cells of index K and K+1 on one face chain *)
Theorem continuity : forall n K, 0 <= K -> (K + 1) mod 4 ^ Z.of_nat n <> 0 ->
  chain (cell_state n K) (cell_state n (K + 1)).
Proof.
  induction n as [|n IH]; intros K HK Hne.
  - exfalso. apply Hne. change (4 ^ Z.of_nat 0) with 1. apply Z.mod_1_r.
  - pose proof (Z.div_mod K 4 ltac:(lia)) as EK. pose proof (Z.mod_pos_bound K 4 ltac:(lia)) as Hp.
    set (Q := K / 4) in *. set (p := K mod 4) in *. assert (HQ : 0 <= Q) by (unfold Q; apply Z.div_pos; lia).
    rewrite EK. destruct (Z_lt_le_dec p 3) as [Hlt|Hge].
    + replace (4 * Q + p + 1) with (4 * Q + (p + 1)) by ring.
      rewrite !cell_state_child by lia.
      pose proof (hd_state_ok n Q) as Hok. unfold cell_state. destruct (hd_state n Q) as [[i j] o].
      destruct Hok as (_ & _ & Ho). apply chain_siblings; lia.
    + assert (p = 3) by lia. replace (4 * Q + p + 1) with (4 * (Q + 1) + 0) by lia.
      replace (4 * Q + p) with (4 * Q + 3) by lia.
      rewrite !cell_state_child by lia.
      assert (HneQ : (Q + 1) mod 4 ^ Z.of_nat n <> 0).
      { intros E0. apply Hne. rewrite Nat2Z.inj_succ, Z.pow_succ_r by lia.
        replace (K + 1) with (4 * (Q + 1)) by lia.
        pose proof (C12_Ids.pow4_pos n) as HP.
        apply Z.mod_divide in E0; [|lia]. destruct E0 as [t Et]. rewrite Et.
        replace (4 * (t * 4 ^ Z.of_nat n)) with (t * (4 * 4 ^ Z.of_nat n)) by ring. apply Z.mod_mul. lia. }
      specialize (IH Q HQ HneQ).
      pose proof (hd_state_ok n Q) as Hok. pose proof (hd_state_ok n (Q + 1)) as Hok'. unfold cell_state in *.
      destruct (hd_state n Q) as [[i j] o]. destruct (hd_state n (Q + 1)) as [[i' j'] o'].
      destruct Hok as (_ & _ & Ho). destruct Hok' as (_ & _ & Ho').
      apply chain_cousins; assumption.
Qed.

(** ** transport to cell ids *)
Lemma rep_sid : forall c f l k, rep c f l k ->
  c = sid (index f l k) (Z.to_nat (30 - l)) /\ sid_ok (index f l k) (Z.to_nat (30 - l)).
Proof.
  intros c f l k H. pose proof H as (Hf & Hl & Hk & _). split.
  - unfold sid. rewrite Z2Nat.id by lia. exact (rep_index_form _ _ _ _ H).
  - unfold sid_ok. split; [lia|]. replace (30 - Z.to_nat (30 - l))%nat with (Z.to_nat l) by lia.
    rewrite Z2Nat.id by lia. apply index_bounds; lia.
Qed.

(** the (i,j) returned for a cell of level l lies inside the cell: i / 2^(30-l), j / 2^(30-l) are
    the cell's own coordinates [cell_state l index], and the orientation is the cell's *)
Theorem faceIJ_cell : forall c f l k, rep c f l k ->
  forall ci cj co, cell_state (Z.to_nat l) (index f l k) = (ci, cj, co) ->
  exists i j, s2_CellID_faceIJOrientation c = (f, i, j, co) /\
    i / 2 ^ (30 - l) = ci /\ j / 2 ^ (30 - l) = cj /\ 0 <= i < 2 ^ 30 /\ 0 <= j < 2 ^ 30.
Proof.
  intros c f l k H ci cj co ES. pose proof H as (Hf & Hl & Hk & _).
  destruct (rep_sid _ _ _ _ H) as (Ec & Hok).
  assert (Hn : (Z.to_nat l + Z.to_nat (30 - l) = 30)%nat) by lia.
  destruct (decode_struct _ _ _ Hn Hok ci cj co ES) as (r & Hr & D & _).
  rewrite <- Ec in D. rewrite Z2Nat.id in Hr, D by lia.
  pose proof (hd_state_ok (Z.to_nat l) (index f l k)) as Hst. unfold cell_state in ES. rewrite ES in Hst.
  destruct Hst as (Hci & Hcj & _). rewrite Z2Nat.id in Hci, Hcj by lia.
  assert (EF : Z.shiftr c 61 = f).
  { rewrite Z.shiftr_div_pow2 by lia. pose proof (Face_rep _ _ _ _ H) as EF. unfold s2_CellID_Face in EF.
    rewrite (rep_wrap _ _ _ _ H), go_shr_div in EF by lia.
    pose proof (rep_bounds _ _ _ _ H) as (H1 & H2 & H3).
    symmetry. apply (Z.div_unique c (2 ^ 61) f (c - f * 2 ^ 61)); [left|]; lia. }
  rewrite EF in D.
  pose proof (pow2_pos (30 - l) ltac:(lia)) as HP.
  assert (E30 : 2 ^ 30 = 2 ^ l * 2 ^ (30 - l)) by (rewrite <- Z.pow_add_r by lia; f_equal; lia).
  exists (ci * 2 ^ (30 - l) + r), (cj * 2 ^ (30 - l) + r). split; [exact D|].
  split; [symmetry; apply (Z.div_unique _ (2 ^ (30 - l)) ci r); [left; lia|ring]|].
  split; [symmetry; apply (Z.div_unique _ (2 ^ (30 - l)) cj r); [left; lia|ring]|].
  rewrite E30. split; nia.
Qed.

(** [hilbert_continuity]: a cell and its successor on the same face (same level) are exactly one
    step apart in the (i,j) grid of their level: they share an edge *)
Theorem hilbert_continuity : forall c f l k, rep c f l k -> k + 1 < 4 ^ l ->
  exists i j o i' j' o',
    s2_CellID_faceIJOrientation c = (f, i, j, o) /\
    s2_CellID_faceIJOrientation (s2_CellID_Next c) = (f, i', j', o') /\
    rep (s2_CellID_Next c) f l (k + 1) /\
    Z.abs (i / 2 ^ (30 - l) - i' / 2 ^ (30 - l)) + Z.abs (j / 2 ^ (30 - l) - j' / 2 ^ (30 - l)) = 1.
Proof.
  intros c f l k H Hk1. pose proof H as (Hf & Hl & Hk & _).
  pose proof (C01_Algebra.pow4_pos l ltac:(lia)) as HB.
  assert (HN : rep (s2_CellID_Next c) f l (k + 1)).
  { rewrite (Next_eq _ _ _ _ H). destruct H as (_ & _ & _ & E). split; [assumption|]. split; [assumption|].
    split; [lia|]. rewrite E. ring. }
  assert (Eidx : index f l (k + 1) = index f l k + 1) by (unfold index; ring).
  pose proof (continuity (Z.to_nat l) (index f l k)) as C.
  rewrite Z2Nat.id in C by lia.
  assert (Hi0 : 0 <= index f l k) by (pose proof (index_bounds f l k Hf ltac:(lia) Hk); lia).
  assert (Hne : (index f l k + 1) mod 4 ^ l <> 0).
  { unfold index. replace (f * 4 ^ l + k + 1) with (k + 1 + f * 4 ^ l) by ring.
    rewrite Z.mod_add by lia. rewrite Z.mod_small by lia. lia. }
  specialize (C Hi0 Hne).
  destruct (cell_state (Z.to_nat l) (index f l k)) as [[ci cj] co] eqn:E1.
  destruct (cell_state (Z.to_nat l) (index f l k + 1)) as [[ci' cj'] co'] eqn:E2.
  destruct (faceIJ_cell _ _ _ _ H ci cj co E1) as (i & j & D1 & Ei & Ej & _).
  rewrite <- Eidx in E2.
  destruct (faceIJ_cell _ _ _ _ HN ci' cj' co' E2) as (i' & j' & D2 & Ei' & Ej' & _).
  exists i, j, co, i', j', co'. split; [exact D1|]. split; [exact D2|]. split; [exact HN|].
  rewrite Ei, Ej, Ei', Ej'. unfold chain in C. destruct C as (_ & _ & C). exact C.
Qed.

(** ** from one face to the next: integer cube model *)
(** runs of "3" levels (the last cell of a face) *)
Fixpoint hd_threes (m : nat) (st : Z * Z * Z) : Z * Z * Z :=
  match m with O => st | S m' => hd_step (hd_threes m' st) 3 end.

Lemma hd_state_threes m : forall n x,
  hd_state (m + n) (x * 4 ^ Z.of_nat m + (4 ^ Z.of_nat m - 1)) = hd_threes m (hd_state n x).
Proof.
  induction m as [|m IH]; intros n x.
  - cbn. f_equal. lia.
  - rewrite Nat2Z.inj_succ, Z.pow_succ_r by lia.
    replace (x * (4 * 4 ^ Z.of_nat m) + (4 * 4 ^ Z.of_nat m - 1))
      with (4 * (x * 4 ^ Z.of_nat m + (4 ^ Z.of_nat m - 1)) + 3) by ring.
    change (S m + n)%nat with (S (m + n)). rewrite hd_state_digit by lia. rewrite IH. reflexivity.
Qed.

Lemma hd_threes_closed m : forall i j o, 0 <= o < 2 ->
  exists o', 0 <= o' < 4 /\ (o' = o \/ o' = 3 - o) /\
  hd_threes m (i, j, o) =
    (i * 2 ^ Z.of_nat m + (1 - o) * (2 ^ Z.of_nat m - 1), j * 2 ^ Z.of_nat m + o * (2 ^ Z.of_nat m - 1), o').
Proof.
  induction m as [|m IH]; intros i j o Ho.
  - exists o. split; [lia|]. split; [left; reflexivity|]. cbn [hd_threes]. change (2 ^ Z.of_nat 0) with 1.
    apply triple_eq; ring.
  - destruct (IH i j o Ho) as (o1 & Ho1 & C & E). cbn [hd_threes]. rewrite E.
    rewrite Nat2Z.inj_succ, Z.pow_succ_r by lia. rewrite hd_step_eq.
    assert (Co : o = 0 \/ o = 1) by lia.
    destruct Co as [-> | ->]; destruct C as [-> | ->]; cbn [Z.sub Z.add Z.opp Z.pos_sub Pos.pred_double]; hd_eval;
      (eexists; split; [|split]; cycle 2; [apply triple_eq; [ring|ring|reflexivity]|lia|lia]).
Qed.

(** integer cube model at level l (n = 2^l cells per side): the lattice point (a,b) of face f,
    0 <= a,b <= n, on the surface of the cube [-n,n]^3 (face frames of s2/stuv.go: faceUVToXYZ with
    the linear map u = 2a-n, v = 2b-n) *)
Definition cube (n f a b : Z) : Z * Z * Z :=
  let u := 2 * a - n in let v := 2 * b - n in
  if f =? 0 then (n, u, v) else if f =? 1 then (- u, n, v) else if f =? 2 then (- u, - v, n)
  else if f =? 3 then (- n, - v, - u) else if f =? 4 then (v, - n, - u) else (v, u, - n).

Definition corners (n f i j : Z) : list (Z * Z * Z) :=
  [cube n f i j; cube n f (i + 1) j; cube n f (i + 1) (j + 1); cube n f i (j + 1)].

(** two cells (possibly on different faces) share an edge: two distinct common corner points *)
Definition share_edge (n f i j f' i' j' : Z) : Prop :=
  exists P Q, P <> Q /\ In P (corners n f i j) /\ In Q (corners n f i j) /\
              In P (corners n f' i' j') /\ In Q (corners n f' i' j').

Lemma first_cell_state : forall (l : nat) g, 0 <= g < 6 ->
  exists o, cell_state l (g * 4 ^ Z.of_nat l) = (0, 0, o).
Proof.
  intros l g Hg. unfold cell_state. pose proof (hd_state_zeros l 0 g) as E0. rewrite Nat.add_0_r in E0. rewrite E0.
  cbn [hd_state]. assert (Ho : 0 <= Z.land g 1 < 2) by (rewrite C01_IJ.land1; apply Z.mod_pos_bound; lia).
  rewrite hd_zeros_closed by lia.
  replace (Z.land g 1 / 2) with 0 by (symmetry; apply Z.div_small; lia).
  eexists. apply triple_eq; [ring|ring|reflexivity].
Qed.

Lemma last_cell_state : forall (l : nat) g, 0 <= g < 6 ->
  exists o, cell_state l (g * 4 ^ Z.of_nat l + (4 ^ Z.of_nat l - 1)) =
    ((1 - g mod 2) * (2 ^ Z.of_nat l - 1), (g mod 2) * (2 ^ Z.of_nat l - 1), o).
Proof.
  intros l g Hg. unfold cell_state. pose proof (hd_state_threes l 0 g) as E0. rewrite Nat.add_0_r in E0. rewrite E0.
  cbn [hd_state]. rewrite C01_IJ.land1.
  assert (Ho : 0 <= g mod 2 < 2) by (apply Z.mod_pos_bound; lia).
  destruct (hd_threes_closed l 0 0 (g mod 2) Ho) as (o' & _ & _ & E). rewrite E.
  exists o'. apply triple_eq; [ring|ring|reflexivity].
Qed.

(** the last cell of face f and the first cell of face f+1 (mod 6) share an edge of the cube *)
Lemma cube_face_to_face : forall n f, 1 <= n -> 0 <= f < 6 ->
  share_edge n f ((1 - f mod 2) * (n - 1)) ((f mod 2) * (n - 1)) ((f + 1) mod 6) 0 0.
Proof.
  intros n f Hn Hf. unfold share_edge, corners.
  assert (C : f = 0 \/ f = 1 \/ f = 2 \/ f = 3 \/ f = 4 \/ f = 5) by lia.
  destruct C as [-> | [-> | [-> | [-> | [-> | ->]]]]];
    repeat match goal with |- context [?a mod ?b] => let v := eval vm_compute in (a mod b) in change (a mod b) with v end;
    unfold cube; cbn [Z.eqb Pos.eqb].
  (* even faces: the edge a = n of f is the edge a = 0 of f+1; odd faces: the edge b = n of f is the edge b = 0 of f+1 *)
  - exists (n, 2 * n - n, 2 * 0 - n), (n, 2 * n - n, 2 * 1 - n). split; [intros E; pose proof (f_equal (fun t => fst (fst t)) E) as E1; pose proof (f_equal (fun t => snd (fst t)) E) as E2; pose proof (f_equal snd E) as E3; cbn [fst snd] in E1, E2, E3; lia|].
    repeat split; cbn [In]; repeat (first [left; apply triple_eq; lia | right]).
  - exists (- (2 * 0 - n), n, 2 * n - n), (- (2 * 1 - n), n, 2 * n - n). split; [intros E; pose proof (f_equal (fun t => fst (fst t)) E) as E1; pose proof (f_equal (fun t => snd (fst t)) E) as E2; pose proof (f_equal snd E) as E3; cbn [fst snd] in E1, E2, E3; lia|].
    repeat split; cbn [In]; repeat (first [left; apply triple_eq; lia | right]).
  - exists (- (2 * n - n), - (2 * 0 - n), n), (- (2 * n - n), - (2 * 1 - n), n). split; [intros E; pose proof (f_equal (fun t => fst (fst t)) E) as E1; pose proof (f_equal (fun t => snd (fst t)) E) as E2; pose proof (f_equal snd E) as E3; cbn [fst snd] in E1, E2, E3; lia|].
    repeat split; cbn [In]; repeat (first [left; apply triple_eq; lia | right]).
  - exists (- n, - (2 * n - n), - (2 * 0 - n)), (- n, - (2 * n - n), - (2 * 1 - n)). split; [intros E; pose proof (f_equal (fun t => fst (fst t)) E) as E1; pose proof (f_equal (fun t => snd (fst t)) E) as E2; pose proof (f_equal snd E) as E3; cbn [fst snd] in E1, E2, E3; lia|].
    repeat split; cbn [In]; repeat (first [left; apply triple_eq; lia | right]).
  - exists (2 * 0 - n, - n, - (2 * n - n)), (2 * 1 - n, - n, - (2 * n - n)). split; [intros E; pose proof (f_equal (fun t => fst (fst t)) E) as E1; pose proof (f_equal (fun t => snd (fst t)) E) as E2; pose proof (f_equal snd E) as E3; cbn [fst snd] in E1, E2, E3; lia|].
    repeat split; cbn [In]; repeat (first [left; apply triple_eq; lia | right]).
  - exists (2 * n - n, 2 * 0 - n, - n), (2 * n - n, 2 * 1 - n, - n). split; [intros E; pose proof (f_equal (fun t => fst (fst t)) E) as E1; pose proof (f_equal (fun t => snd (fst t)) E) as E2; pose proof (f_equal snd E) as E3; cbn [fst snd] in E1, E2, E3; lia|].
    repeat split; cbn [In]; repeat (first [left; apply triple_eq; lia | right]).
Qed.

(** [face_to_face]: the last cell of face f at level l and its NextWrap (the first cell of face
    f+1 mod 6) share an edge of the cube *)
Theorem face_to_face : forall c f l, rep c f l (4 ^ l - 1) ->
  exists i j o i' j' o',
    s2_CellID_faceIJOrientation c = (f, i, j, o) /\
    s2_CellID_faceIJOrientation (s2_CellID_NextWrap c) = ((f + 1) mod 6, i', j', o') /\
    rep (s2_CellID_NextWrap c) ((f + 1) mod 6) l 0 /\
    share_edge (2 ^ l) f (i / 2 ^ (30 - l)) (j / 2 ^ (30 - l)) ((f + 1) mod 6) (i' / 2 ^ (30 - l)) (j' / 2 ^ (30 - l)).
Proof.
  intros c f l H. pose proof H as (Hf & Hl & Hk & _).
  pose proof (C01_Algebra.pow4_pos l ltac:(lia)) as HB.
  pose proof (NextWrap_rep _ _ _ _ H) as HN. cbv zeta in HN.
  assert (Ei : (index f l (4 ^ l - 1) + 1) mod (6 * 4 ^ l) = ((f + 1) mod 6) * 4 ^ l).
  { unfold index. replace (f * 4 ^ l + (4 ^ l - 1) + 1) with ((f + 1) * 4 ^ l) by ring.
    rewrite Z.mul_mod_distr_r by lia. reflexivity. }
  rewrite Ei in HN. rewrite Z.div_mul, Z.mod_mul in HN by lia.
  set (g := (f + 1) mod 6) in *. assert (Hg : 0 <= g < 6) by (unfold g; apply Z.mod_pos_bound; lia).
  destruct (last_cell_state (Z.to_nat l) f Hf) as (o & EL).
  destruct (first_cell_state (Z.to_nat l) g Hg) as (o' & EF).
  rewrite Z2Nat.id in EL, EF by lia.
  assert (EL' : cell_state (Z.to_nat l) (index f l (4 ^ l - 1)) = ((1 - f mod 2) * (2 ^ l - 1), f mod 2 * (2 ^ l - 1), o))
    by (unfold index; exact EL).
  assert (EF' : cell_state (Z.to_nat l) (index g l 0) = (0, 0, o')) by (unfold index; rewrite Z.add_0_r; exact EF).
  destruct (faceIJ_cell _ _ _ _ H _ _ _ EL') as (i & j & D1 & E1 & E2 & _).
  destruct (faceIJ_cell _ _ _ _ HN _ _ _ EF') as (i' & j' & D2 & E1' & E2' & _).
  exists i, j, o, i', j', o'. split; [exact D1|]. split; [exact D2|]. split; [exact HN|].
  rewrite E1, E2, E1', E2'. apply cube_face_to_face; [|assumption].
  pose proof (pow2_pos l ltac:(lia)). lia.
Qed.
