(** Discharges, for the real predicates on unit points (Proofs/Link_C02_C03.v), the two interface
    laws that were still premises:

    - [law_sign_peq]: RobustSign does not distinguish == points (+0 / -0 twins).  exactSign sorts
      with r3.Vector.Cmp (float <, which identifies the twins), computes on exact dyadic values
      and perturbs by the lexicographic rank, so it is a function of the real coordinates.
    - [law_sign_gp]: the three-term Grassmann-Pluecker sign condition on any five pairwise
      different unit points, from C02's [chirotope_gp] (which is stated for a sorted list).
      With it [law_occw_split_ne] follows (Proofs/C03_Cyclic.v).

    The UNGUARDED [law_occw_split] is false of RobustSign: [occw_split_unguarded_refuted]. *)
From Coq Require Import ZArith List Bool Reals Floats Lia Lra Sorted.
From Geo Require Import Base.GoPrim Base.F64 Base.Exact Gen.R3 Gen.S2Pred Model.Pred
  Proofs.C02_Exact Proofs.C02_Float Proofs.C02_SoS Proofs.C02_SoSGlobal Proofs.C02_Robust Proofs.C02_IsUnit.
From Geo Require Import Model.Crosser Proofs.C03_Crosser Proofs.C03_Vertex Proofs.C03_Extra
  Proofs.C03_Cyclic Proofs.Link_C02_C03.
Import ListNotations.
Local Open Scope Z_scope.

(** * RobustSign is a function of the real coordinates *)
Lemma cmp_gt_congr_r p c c' : finite p -> finite c -> finite c' -> peq c c' ->
  cmp_gt p c = cmp_gt p c'.
Proof.
  intros Fp Fc Fc' (EX & EY & EZ).
  destruct (cmp_gt p c) eqn:E1, (cmp_gt p c') eqn:E2; auto.
  - apply cmp_gt_iff in E1; auto. assert (H : lexlt c' p) by (unfold lexlt in *; rewrite <- EX, <- EY, <- EZ; exact E1).
    apply (cmp_gt_iff p c') in H; auto. congruence.
  - apply cmp_gt_iff in E2; auto. assert (H : lexlt c p) by (unfold lexlt in *; rewrite EX, EY, EZ; exact E2).
    apply (cmp_gt_iff p c) in H; auto. congruence.
Qed.
Lemma cmp_gt_congr_l p c c' : finite p -> finite c -> finite c' -> peq c c' ->
  cmp_gt c p = cmp_gt c' p.
Proof.
  intros Fp Fc Fc' (EX & EY & EZ).
  destruct (cmp_gt c p) eqn:E1, (cmp_gt c' p) eqn:E2; auto.
  - apply cmp_gt_iff in E1; auto. assert (H : lexlt p c') by (unfold lexlt in *; rewrite <- EX, <- EY, <- EZ; exact E1).
    apply (cmp_gt_iff c' p) in H; auto. congruence.
  - apply cmp_gt_iff in E2; auto. assert (H : lexlt p c) by (unfold lexlt in *; rewrite EX, EY, EZ; exact E2).
    apply (cmp_gt_iff c p) in H; auto. congruence.
Qed.

Lemma pert_det_ranked_congr a b c c' e : finite a -> finite b -> finite c -> finite c' -> peq c c' ->
  pert_det_ranked a b c e = pert_det_ranked a b c' e.
Proof.
  intros Fa Fb Fc Fc' Hp. unfold pert_det_ranked, rk.
  rewrite (cmp_gt_congr_r a c c'), (cmp_gt_congr_r b c c'), (cmp_gt_congr_l a c c'),
    (cmp_gt_congr_l b c c') by assumption.
  rewrite (cmp_gt_refl c Fc), (cmp_gt_refl c' Fc').
  destruct Hp as (EX & EY & EZ). rewrite EX, EY, EZ. reflexivity.
Qed.

Lemma peq_trans' p q r : peq p q -> peq q r -> peq p r.
Proof. unfold peq. intros (A & B & C) (D & E & F). repeat split; congruence. Qed.

Lemma exact_sign_congr a b c c' : finite a -> finite b -> finite c -> finite c' ->
  distinct3 a b c -> peq c c' -> exact_sign a b c = exact_sign a b c'.
Proof.
  intros Fa Fb Fc Fc' D Hp.
  assert (D' : distinct3 a b c').
  { destruct D as (D1 & D2 & D3). repeat split; auto; intro K.
    - apply D2. apply (peq_trans' b c' c K). now apply peq_sym.
    - apply D3. apply (peq_trans' a c' c K). now apply peq_sym. }
  destruct (exact_sign_sos a b c Fa Fb Fc D) as (e1 & H1 & K1).
  destruct (exact_sign_sos a b c' Fa Fb Fc' D') as (e2 & H2 & K2).
  set (e := (Rmin e1 e2 / 2)%R).
  assert (He : (0 < e < e1 /\ 0 < e < e2)%R).
  { unfold e. pose proof (Rmin_l e1 e2). pose proof (Rmin_r e1 e2).
    assert (0 < Rmin e1 e2)%R by now apply Rmin_pos. lra. }
  rewrite (proj1 (K1 e (proj1 He))), (proj1 (K2 e (proj2 He))).
  now rewrite (pert_det_ranked_congr a b c c' e).
Qed.

Lemma eqb_congr_r p c c' : finite p -> finite c -> finite c' -> peq c c' ->
  s2_Point_eqb p c = s2_Point_eqb p c'.
Proof.
  intros Fp Fc Fc' Hp.
  destruct (s2_Point_eqb p c) eqn:E1, (s2_Point_eqb p c') eqn:E2; auto.
  - apply eqb_iff in E1; auto. pose proof (peq_trans' _ _ _ E1 Hp) as K.
    apply (eqb_iff p c') in K; auto. congruence.
  - apply eqb_iff in E2; auto. pose proof (peq_trans' _ _ _ E2 (peq_sym _ _ Hp)) as K.
    apply (eqb_iff p c) in K; auto. congruence.
Qed.

Lemma u_sign_peq : law_sign_peq upoint u_peq u_sign.
Proof.
  intros a b c c' H. unfold u_sign, u_peq in *.
  pose proof (upt_finite a) as Fa. pose proof (upt_finite b) as Fb.
  pose proof (upt_finite c) as Fc. pose proof (upt_finite c') as Fc'.
  apply (eqb_iff _ _ Fc Fc') in H.
  rewrite (robust_sign_spec _ _ _ (upt_unit a) (upt_unit b) (upt_unit c)).
  rewrite (robust_sign_spec _ _ _ (upt_unit a) (upt_unit b) (upt_unit c')).
  assert (I : identical2 (upt a) (upt b) (upt c) = identical2 (upt a) (upt b) (upt c')).
  { unfold identical2.
    rewrite (eqb_congr_r (upt b) (upt c) (upt c')) by assumption.
    rewrite (eqb_sym (upt c) (upt a)), (eqb_sym (upt c') (upt a)) by assumption.
    now rewrite (eqb_congr_r (upt a) (upt c) (upt c')) by assumption. }
  rewrite <- I. destruct (identical2 (upt a) (upt b) (upt c)) eqn:E; [reflexivity|].
  apply exact_sign_congr; auto. now apply identical2_false_distinct.
Qed.

(** * Grassmann-Pluecker for five arbitrary different unit points *)
(** insertion into a list sorted by r3.Vector.Cmp *)
Fixpoint ins (p : s2_Point) (l : list s2_Point) : list s2_Point :=
  match l with
  | [] => [p]
  | x :: t => if cmp_gt x p then p :: x :: t else x :: ins p t
  end.

Definition above (x y : s2_Point) : Prop := cmp_gt y x = true.

Lemma ins_in p l y : In y (ins p l) <-> y = p \/ In y l.
Proof.
  induction l as [|x t IH]; cbn.
  - intuition.
  - destruct (cmp_gt x p); cbn; [intuition|]. rewrite IH. intuition.
Qed.

Lemma ins_sorted p l : finite p -> Forall finite l ->
  (forall x, In x l -> ~ peq x p) -> StronglySorted above l -> StronglySorted above (ins p l).
Proof.
  intros Fp. induction l as [|x t IH]; intros Fl Hn S; cbn.
  - constructor; constructor.
  - inversion Fl as [|? ? Fx Ft]; subst. inversion S as [|? ? St Hx]; subst.
    destruct (cmp_gt x p) eqn:E.
    + constructor; [exact S|]. constructor; [exact E|].
      rewrite Forall_forall in *. intros y Hy. unfold above in *.
      apply (cmp_gt_trans y x p); auto.
    + assert (Epx : cmp_gt p x = true).
      { rewrite (cmp_gt_flip x p Fx Fp); [now rewrite E|]. apply Hn. now left. }
      constructor.
      * apply IH; auto. intros y Hy. apply Hn. now right.
      * rewrite Forall_forall in *. intros y Hy. apply ins_in in Hy. destruct Hy as [->|Hy]; auto.
Qed.

Lemma ins_finite p l : finite p -> Forall finite l -> Forall finite (ins p l).
Proof.
  intros Fp Fl. rewrite Forall_forall in *. intros y Hy. apply ins_in in Hy.
  destruct Hy as [->|Hy]; auto.
Qed.

Lemma ss_nth (l : list s2_Point) : StronglySorted above l ->
  forall i j, (i < j)%nat -> (j < length l)%nat -> above (nth i l dummy_pt) (nth j l dummy_pt).
Proof.
  induction 1 as [|x t St IH Hx]; intros i j Hij Hj; cbn in Hj; [lia|].
  destruct j as [|j]; [lia|]. destruct i as [|i]; cbn.
  - rewrite Forall_forall in Hx. apply Hx. apply nth_In. lia.
  - apply IH; lia.
Qed.

Lemma finite_nth (l : list s2_Point) : Forall finite l ->
  forall i, (i < length l)%nat -> finite (nth i l dummy_pt).
Proof. intros F i Hi. rewrite Forall_forall in F. apply F. now apply nth_In. Qed.

Lemma neqb_npeq p q : finite p -> finite q -> s2_Point_eqb p q = false -> ~ peq p q.
Proof. intros Fp Fq H K. apply (eqb_iff p q Fp Fq) in K. congruence. Qed.

Lemma eqb_refl_fin p : finite p -> s2_Point_eqb p p = true.
Proof. intros F. apply (eqb_iff p p F F). unfold peq. auto. Qed.

Lemma u_sign_exact a b c : u_peq a b = false -> u_peq b c = false -> u_peq c a = false ->
  u_sign a b c = exact_sign (upt a) (upt b) (upt c).
Proof.
  intros H1 H2 H3. unfold u_sign.
  rewrite (robust_sign_spec _ _ _ (upt_unit a) (upt_unit b) (upt_unit c)).
  unfold identical2. unfold u_peq in *. now rewrite H1, H2, H3.
Qed.

Lemma u_sign_gp : law_sign_gp upoint u_peq u_sign.
Proof.
  intros a b c d f Hab Hac Had Haf Hbc Hbd Hbf Hcd Hcf Hdf.
  pose proof (upt_finite a) as Fa. pose proof (upt_finite b) as Fb. pose proof (upt_finite c) as Fc.
  pose proof (upt_finite d) as Fd. pose proof (upt_finite f) as Ff.
  assert (S : forall x y, u_peq x y = false -> u_peq y x = false).
  { intros x y H. rewrite <- (u_peq_sym x y). exact H. }
  (* all ten signs are exact_sign *)
  cbv zeta.
  rewrite (u_sign_exact a b c), (u_sign_exact a d f), (u_sign_exact a b d), (u_sign_exact a c f),
    (u_sign_exact a b f), (u_sign_exact a c d); auto.
  unfold u_peq in *.
  set (A := upt a) in *. set (B := upt b) in *. set (C := upt c) in *.
  set (D := upt d) in *. set (F := upt f) in *.
  (* the sorted list of the five points *)
  set (l := ins A (ins B (ins C (ins D [F])))).
  assert (F1 : Forall finite [F]) by (constructor; [exact Ff|constructor]).
  assert (S1 : StronglySorted above [F]) by (constructor; constructor).
  assert (F2 := ins_finite D _ Fd F1).
  assert (S2 : StronglySorted above (ins D [F])).
  { apply ins_sorted; auto. intros x [<-|[]]. apply neqb_npeq; auto.
    rewrite eqb_sym by auto. exact Hdf. }
  assert (F3 := ins_finite C _ Fc F2).
  assert (S3 : StronglySorted above (ins C (ins D [F]))).
  { apply ins_sorted; auto. intros x Hx. apply ins_in in Hx.
    destruct Hx as [->|[<-|[]]]; apply neqb_npeq; auto; rewrite eqb_sym by auto; assumption. }
  assert (F4 := ins_finite B _ Fb F3).
  assert (S4 : StronglySorted above (ins B (ins C (ins D [F])))).
  { apply ins_sorted; auto. intros x Hx. apply ins_in in Hx. rewrite ins_in in Hx.
    destruct Hx as [->|[->|[<-|[]]]]; apply neqb_npeq; auto; rewrite eqb_sym by auto; assumption. }
  assert (F5 : Forall finite l) by (apply ins_finite; auto).
  assert (S5 : StronglySorted above l).
  { apply ins_sorted; auto. intros x Hx. apply ins_in in Hx. rewrite !ins_in in Hx.
    destruct Hx as [->|[->|[->|[<-|[]]]]]; apply neqb_npeq; auto; rewrite eqb_sym by auto; assumption. }
  assert (IA : In A l) by (apply ins_in; now left).
  assert (IB : In B l) by (unfold l; rewrite !ins_in; tauto).
  assert (IC : In C l) by (unfold l; rewrite !ins_in; tauto).
  assert (ID : In D l) by (unfold l; rewrite !ins_in; tauto).
  assert (IF : In F l) by (unfold l; rewrite !ins_in; cbn; tauto).
  destruct (In_nth l A dummy_pt IA) as (ia & Lia & Ea).
  destruct (In_nth l B dummy_pt IB) as (ib & Lib & Eb).
  destruct (In_nth l C dummy_pt IC) as (ic & Lic & Ec).
  destruct (In_nth l D dummy_pt ID) as (id & Lid & Ed).
  destruct (In_nth l F dummy_pt IF) as (jf & Lif & Ef).
  assert (NE : forall i j x y, nth i l dummy_pt = x -> nth j l dummy_pt = y -> finite x ->
                s2_Point_eqb x y = false -> i <> j).
  { intros i j x y Ex Ey Fx H E. subst j. rewrite Ex in Ey. subst y.
    rewrite (eqb_refl_fin x Fx) in H. discriminate. }
  pose proof (chirotope_gp l (finite_nth l F5)
                (fun i j Hij Hj => ss_nth l S5 i j Hij Hj)
                ia ib ic id jf Lia Lib Lic Lid Lif
                (NE _ _ _ _ Ea Eb Fa Hab) (NE _ _ _ _ Ea Ec Fa Hac) (NE _ _ _ _ Ea Ed Fa Had)
                (NE _ _ _ _ Ea Ef Fa Haf) (NE _ _ _ _ Eb Ec Fb Hbc) (NE _ _ _ _ Eb Ed Fb Hbd)
                (NE _ _ _ _ Eb Ef Fb Hbf) (NE _ _ _ _ Ec Ed Fc Hcd) (NE _ _ _ _ Ec Ef Fc Hcf)
                (NE _ _ _ _ Ed Ef Fd Hdf)) as G.
  cbv zeta in G. unfold prow in G. rewrite Ea, Eb, Ec, Ed, Ef in G. exact G.
Qed.

(** * The cyclic-order law and AngleContainsVertex (3) for the real predicates *)
Theorem u_occw_split_ne : law_occw_split_ne upoint u_peq u_sign.
Proof.
  exact (occw_split_ne upoint u_peq u_sign u_peq_refl u_peq_sym u_sign_rotate
           u_sign_swap u_sign_range u_sign_zero_iff u_sign_peq u_sign_gp).
Qed.

(** closed, with exactly the guard that is needed: the reference direction of o is not o *)
Theorem angle_contains_vertex_exactly_one_real_l : forall (refdir : upoint -> upoint) o,
  u_peq (refdir o) o = false ->
  forall u v l, ccw_listed upoint u_peq u_sign o (u :: v :: l) ->
    open_count upoint u_sign refdir o (u :: v :: l) + wedge upoint u_sign refdir o (last l v) u = 1.
Proof.
  intros refdir o Hr.
  exact (acv_exactly_one_wedge_ne upoint u_peq u_sign refdir u_peq_refl u_peq_sym
           u_sign_rotate u_sign_swap u_sign_range u_sign_zero_iff u_sign_peq u_sign_gp o Hr).
Qed.

(** closed: the vertex a two-argument call passes may replace the cached == vertex *)
Theorem crosser_argument_vertex_real_l : forall (refdir : upoint -> upoint) a b p c d,
  crossing_spec upoint u_peq u_sign a b (eff upoint u_peq p c) d = crossing_spec upoint u_peq u_sign a b c d /\
  eov_spec upoint u_peq u_sign refdir a b (eff upoint u_peq p c) d = eov_spec upoint u_peq u_sign refdir a b c d.
Proof.
  intro refdir.
  exact (eff_irrelevant upoint u_peq u_sign refdir u_peq_sym u_peq_trans u_sign_rotate u_sign_peq).
Qed.

(** * The unguarded law is false: start ray r = the vertex o itself, u v w a full turn around o *)
Definition rp (x y z : float) : s2_Point := mk_s2_Point (mk_r3_Vector x y z).
Definition w_o : s2_Point := rp 0 0 1.
Definition w_u : s2_Point := rp 1 0 0.
Definition w_v : s2_Point := rp (-0x1.3333333333333p-1) (0x1.999999999999ap-1) 0.
Definition w_w : s2_Point := rp (-0x1.3333333333333p-1) (-0x1.999999999999ap-1) 0.
Lemma w_unit p : r3_Vector_IsUnit (s2_Point_Vector p) = true -> unit_pt p.
Proof. apply isunit_unit_pt. Qed.
Definition W_o : upoint := exist _ w_o (w_unit w_o eq_refl).
Definition W_u : upoint := exist _ w_u (w_unit w_u eq_refl).
Definition W_v : upoint := exist _ w_v (w_unit w_v eq_refl).
Definition W_w : upoint := exist _ w_w (w_unit w_w eq_refl).

Theorem occw_split_unguarded_refuted : ~ law_occw_split upoint u_peq u_sign.
Proof.
  intro L.
  assert (K := L W_o W_u W_v W_w W_o).
  unfold ordered_ccw, u_peq, u_sign, upt, W_o, W_u, W_v, W_w, proj1_sig in K.
  vm_compute in K.
  specialize (K eq_refl eq_refl eq_refl eq_refl eq_refl eq_refl eq_refl). discriminate.
Qed.
