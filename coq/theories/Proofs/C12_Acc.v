(** C12: the accuracy / attainment sentences, as theorems carrying named hypotheses.
    The exact cell is a set of real unit vectors (its uv bounds are the exact values of the
    float bounds); distances are squared chord lengths between real unit vectors, the unit of
    s1.ChordAngle.  H_CELLDIST says what the library documents only through its tests: the
    reported minimum distance is within [err] of the true minimum over the cell.  From it and
    the closed structural lemmas (Proofs/C12_Dist.v) the sentences "no point of the cell is
    closer than the reported minimum", "the minimum is attained", "zero when the target is in
    the cell" and, through the antipode, "no point of the cell is farther than the reported
    maximum" are derived.  Hypotheses are Section variables: they appear as premises. *)
From Coq Require Import ZArith Reals List Bool Lia Lra Psatz Floats.
From Flocq Require Import Core.Core IEEE754.BinarySingleNaN IEEE754.PrimFloat.
From Geo Require Import Base.GoPrim Base.F64 Base.F64Arith Gen.CellGeom Model.CellGeom Proofs.C12_Dist.
Local Open Scope R_scope.

Definition V3 := (R * R * R)%type.
Definition vdot (a b : V3) : R := let '(ax, ay, az) := a in let '(bx, by_, bz) := b in ax * bx + ay * by_ + az * bz.
Definition vneg (a : V3) : V3 := let '(ax, ay, az) := a in (- ax, - ay, - az).
Definition vunit (a : V3) : Prop := vdot a a = 1.
(** squared chord length between two vectors *)
Definition chord2 (a b : V3) : R :=
  let '(ax, ay, az) := a in let '(bx, by_, bz) := b in (ax - bx) ^ 2 + (ay - by_) ^ 2 + (az - bz) ^ 2.

Lemma chord2_antipode q p : vunit q -> vunit p -> chord2 q (vneg p) = 4 - chord2 q p.
Proof.
  destruct q as [[qx qy] qz], p as [[px py] pz]. unfold vunit, vdot, chord2, vneg. intros Hq Hp.
  assert (E : (qx - - px) ^ 2 + (qy - - py) ^ 2 + (qz - - pz) ^ 2 + ((qx - px) ^ 2 + (qy - py) ^ 2 + (qz - pz) ^ 2)
            = 2 * (qx * qx + qy * qy + qz * qz) + 2 * (px * px + py * py + pz * pz)) by ring.
  lra.
Qed.

Lemma chord2_range q p : vunit q -> vunit p -> 0 <= chord2 q p <= 4.
Proof.
  destruct q as [[qx qy] qz], p as [[px py] pz]. unfold vunit, vdot, chord2. intros Hq Hp.
  assert (E : (qx + px) ^ 2 + (qy + py) ^ 2 + (qz + pz) ^ 2 + ((qx - px) ^ 2 + (qy - py) ^ 2 + (qz - pz) ^ 2)
            = 2 * (qx * qx + qy * qy + qz * qz) + 2 * (px * px + py * py + pz * pz)) by ring.
  pose proof (pow2_ge_0 (qx - px)). pose proof (pow2_ge_0 (qy - py)). pose proof (pow2_ge_0 (qz - pz)).
  pose proof (pow2_ge_0 (qx + px)). pose proof (pow2_ge_0 (qy + py)). pose proof (pow2_ge_0 (qz + pz)).
  lra.
Qed.

(** real (u,v,w) frame of a face: the same permutation/sign table as faceXYZtoUVW *)
Definition uvwR (face : Z) (a : V3) : V3 :=
  let '(x, y, z) := a in
  match face with
  | 0%Z => (y, z, x) | 1%Z => (- x, z, y) | 2%Z => (- x, - y, z)
  | 3%Z => (- z, - y, - x) | 4%Z => (- z, x, - y) | _ => (y, x, - z)
  end.

(** the exact cell: unit vectors on the cell's face whose u = x/w and v = y/w lie in the float bounds *)
Definition in_cell (c : s2_Cell) (q : V3) : Prop :=
  vunit q /\
  let '(x, y, w) := uvwR (s2_Cell_face c) q in
  0 < w /\
  RV (r1_Interval_Lo (r2_Rect_X (s2_Cell_uv c))) * w <= x <= RV (r1_Interval_Hi (r2_Rect_X (s2_Cell_uv c))) * w /\
  RV (r1_Interval_Lo (r2_Rect_Y (s2_Cell_uv c))) * w <= y <= RV (r1_Interval_Hi (r2_Rect_Y (s2_Cell_uv c))) * w.

Definition vecR (p : s2_Point) : V3 :=
  (RV (r3_Vector_X (s2_Point_Vector p)), RV (r3_Vector_Y (s2_Point_Vector p)), RV (r3_Vector_Z (s2_Point_Vector p))).

(** [dir p u]: u is the exact unit direction of the float point p *)
Definition dir (p : s2_Point) (u : V3) : Prop :=
  vunit u /\ exists k, 0 < k /\ vecR p = (let '(x, y, z) := u in (k * x, k * y, k * z)).

Lemma dir_neg p u : fin (r3_Vector_X (s2_Point_Vector p)) -> fin (r3_Vector_Y (s2_Point_Vector p)) ->
  fin (r3_Vector_Z (s2_Point_Vector p)) -> dir p u -> dir (point_neg p) (vneg u).
Proof.
  intros Fx Fy Fz [Hu [k [Hk E]]]. destruct u as [[ux uy] uz]. split.
  - unfold vunit, vdot, vneg in *. nra.
  - exists k. split; [exact Hk|]. unfold vecR, point_neg, r3_Vector_Mul in *. cbn [s2_Point_Vector r3_Vector_X r3_Vector_Y r3_Vector_Z] in *.
    assert (M : forall a, fin a -> RV (PrimFloat.mul (-0x1p+00)%float a) = - RV a).
    { intros a Fa. assert (E1 : RV (-0x1p+00)%float = -1) by lit_value.
      assert (F1 : fin (-0x1p+00)%float) by exact (lit_fin (-0x1p+00)%float _ _ _ eq_refl).
      assert (B : Rabs (rnd (RV (-0x1p+00)%float * RV a)) < bpow radix2 emax).
      { rewrite E1. replace (-1 * RV a) with (- RV a) by ring. rewrite rnd_opp, Rabs_Ropp, rnd_repr by apply repr_RV.
        apply RV_lt_top. }
      destruct (mul_fin _ a F1 Fa B) as [_ E2]. rewrite E2, E1.
      replace (-1 * RV a) with (- RV a) by ring. rewrite rnd_opp, rnd_repr by apply repr_RV. reflexivity. }
    rewrite !M by assumption. injection E as -> -> ->. unfold vneg. f_equal; [f_equal|]; ring.
Qed.

Section Accuracy.
  (** documented error of a reported squared chord length d (the tests' tolerances, in chord^2 units) *)
  Variable err : R -> R.
  Hypothesis err_nonneg : forall d, 0 <= err d.

  (** guard: which (cell, target) pairs the library's contract covers *)
  Variable covered : s2_Cell -> s2_Point -> Prop.
  Hypothesis covered_neg : forall c p, covered c p -> covered c (point_neg p).
  Hypothesis covered_fin : forall c p, covered c p ->
    fin (r3_Vector_X (s2_Point_Vector p)) /\ fin (r3_Vector_Y (s2_Point_Vector p)) /\ fin (r3_Vector_Z (s2_Point_Vector p)).

  (** H_CELLDIST (Distance): the reported value is finite, a true lower bound up to err, and attained up to err *)
  Definition H_CELLDIST : Prop := forall c p u, covered c p -> dir p u ->
    let d := s2_Cell_Distance c p in
    fin d /\ 0 <= RV d <= 4 /\
    (forall q, in_cell c q -> RV d - err (RV d) <= chord2 q u) /\
    (exists q, in_cell c q /\ chord2 q u <= RV d + err (RV d)).
  Hypothesis H : H_CELLDIST.

  Theorem distance_is_lower_bound c p u q : covered c p -> dir p u -> in_cell c q ->
    RV (s2_Cell_Distance c p) - err (RV (s2_Cell_Distance c p)) <= chord2 q u.
  Proof. intros Hc Hd Hq. destruct (H c p u Hc Hd) as (_ & _ & L & _). apply L. exact Hq. Qed.

  Theorem distance_is_attained c p u : covered c p -> dir p u ->
    exists q, in_cell c q /\ chord2 q u <= RV (s2_Cell_Distance c p) + err (RV (s2_Cell_Distance c p)).
  Proof. intros Hc Hd. destruct (H c p u Hc Hd) as (_ & _ & _ & A). exact A. Qed.

  (** target in the cell: the reported distance is at most the documented error (and exactly 0 when the
      float uv test says inside: [distance_zero_inside], closed) *)
  Theorem distance_small_when_in_cell c p u : covered c p -> dir p u -> in_cell c u ->
    RV (s2_Cell_Distance c p) <= err (RV (s2_Cell_Distance c p)).
  Proof.
    intros Hc Hd Hu. pose proof (distance_is_lower_bound c p u u Hc Hd Hu) as L.
    assert (Z0 : chord2 u u = 0) by (destruct u as [[a b] c0]; unfold chord2; ring). lra.
  Qed.

  (** MaxDistance beyond 90 degrees: no point of the cell is farther than the reported maximum
      (up to err and the rounding of the one subtraction 4 - d), and the maximum is attained *)
  Theorem maxdistance_far_is_upper_bound c p u q :
    covered c p -> dir p u -> in_cell c q ->
    PrimFloat.leb (vertex_max c (uvw_of c p)) (0x1p+01)%float = false ->
    let d := s2_Cell_Distance c (point_neg p) in
    RV (s2_Cell_MaxDistance c p) = rnd (4 - RV d) /\
    chord2 q u <= (4 - RV d) + err (RV d).
  Proof.
    intros Hc Hd Hq Hfar d. destruct (covered_fin c p Hc) as (Fx & Fy & Fz).
    pose proof (dir_neg p u Fx Fy Fz Hd) as Hdn.
    destruct (H c (point_neg p) (vneg u) (covered_neg c p Hc) Hdn) as (Fd & Rd & L & _). fold d in Fd, Rd, L.
    split.
    - rewrite (maxdistance_antipode c p Hfar). fold d.
      assert (F4 : fin (0x1p+02)%float) by exact (lit_fin (0x1p+02)%float _ _ _ eq_refl).
      assert (E4 : RV (0x1p+02)%float = 4) by lit_value.
      assert (B : Rabs (rnd (RV (0x1p+02)%float - RV d)) < bpow radix2 emax).
      { rewrite E4. apply (below_top _ 4); [apply (okbound_IZR 4); lia|]. apply Rabs_le. lra. }
      destruct (sub_fin _ _ F4 Fd B) as [_ E]. rewrite E, E4. reflexivity.
    - specialize (L q Hq). destruct Hq as [Uq _]. destruct Hd as [Uu _].
      rewrite (chord2_antipode q u Uq Uu) in L. lra.
  Qed.

  Theorem maxdistance_far_is_attained c p u :
    covered c p -> dir p u ->
    let d := s2_Cell_Distance c (point_neg p) in
    exists q, in_cell c q /\ (4 - RV d) - err (RV d) <= chord2 q u.
  Proof.
    intros Hc Hd d. destruct (covered_fin c p Hc) as (Fx & Fy & Fz).
    pose proof (dir_neg p u Fx Fy Fz Hd) as Hdn.
    destruct (H c (point_neg p) (vneg u) (covered_neg c p Hc) Hdn) as (_ & _ & _ & [q [Hq A]]). fold d in A.
    exists q. split; [exact Hq|]. destruct Hq as [Uq _]. destruct Hd as [Uu _].
    rewrite (chord2_antipode q u Uq Uu) in A. lra.
  Qed.
End Accuracy.
