(** C08 — post-processing of EdgeQuery results: sortAndUniqueResults + truncation.
    [post_ok]: the list returned by findEdges is strictly increasing in
    (distance, shape, edge) — hence duplicate-free — and no longer than MaxResults. *)
From Coq Require Import ZArith List Bool Lia Sorted Permutation.
From Geo Require Import Model.EdgeQuery.
Import ListNotations.
Local Open Scope Z_scope.

(** the distance type is a strict total order and [d_eqb] decides equality *)
Record DistOK {D} (ops : dist_ops D) : Prop := mkDistOK {
  eqb_spec : forall a b, d_eqb ops a b = true <-> a = b;
  less_irrefl : forall a, d_less ops a a = false;
  less_trans : forall a b c, d_less ops a b = true -> d_less ops b c = true -> d_less ops a c = true;
  less_total : forall a b, d_less ops a b = false -> d_less ops b a = false -> a = b
}.

Section Post.
  Variable D : Type.
  Variable ops : dist_ops D.
  Hypothesis OK : DistOK ops.

  Notation rless := (r_less ops).
  Notation reqb := (r_eqb ops).

  Lemma deqb_refl a : d_eqb ops a a = true.
  Proof. apply (eqb_spec _ OK). reflexivity. Qed.

  Lemma deqb_false a b : d_eqb ops a b = false <-> a <> b.
  Proof.
    split; intros H.
    - intros E. apply (eqb_spec _ OK) in E. congruence.
    - destruct (d_eqb ops a b) eqn:E; [|reflexivity]. apply (eqb_spec _ OK) in E. contradiction.
  Qed.

  Lemma rless_irrefl a : rless a a = false.
  Proof.
    unfold r_less. rewrite deqb_refl. cbn. rewrite Z.eqb_refl. cbn. apply Z.ltb_irrefl.
  Qed.

  Lemma result_eq (a b : result D) :
    r_dist a = r_dist b -> r_shape a = r_shape b -> r_edge a = r_edge b -> a = b.
  Proof. destruct a, b; cbn; intros; subst; reflexivity. Qed.

  Lemma rless_total a b : rless a b = false -> rless b a = false -> a = b.
  Proof.
    unfold r_less. intros H1 H2.
    destruct (d_eqb ops (r_dist a) (r_dist b)) eqn:E1; cbn in H1.
    - apply (eqb_spec _ OK) in E1. rewrite <- E1 in H2. rewrite deqb_refl in H2. cbn in H2.
      destruct (r_shape a =? r_shape b) eqn:E2; cbn in H1.
      + apply Z.eqb_eq in E2. rewrite <- E2 in H2. rewrite Z.eqb_refl in H2. cbn in H2.
        apply result_eq; auto. apply Z.ltb_ge in H1, H2. lia.
      + assert (E3 : (r_shape b =? r_shape a) = false) by (rewrite Z.eqb_sym; exact E2).
        rewrite E3 in H2. cbn in H2. apply Z.eqb_neq in E2. apply Z.ltb_ge in H1, H2. lia.
    - assert (E3 : d_eqb ops (r_dist b) (r_dist a) = false).
      { apply deqb_false. apply deqb_false in E1. congruence. }
      rewrite E3 in H2. cbn in H2. apply deqb_false in E1. exfalso. apply E1.
      apply (less_total _ OK); assumption.
  Qed.

  Lemma rless_trans a b c : rless a b = true -> rless b c = true -> rless a c = true.
  Proof.
    unfold r_less. intros H1 H2.
    destruct (d_eqb ops (r_dist a) (r_dist b)) eqn:E1; cbn in H1.
    - apply (eqb_spec _ OK) in E1. rewrite E1.
      destruct (d_eqb ops (r_dist b) (r_dist c)) eqn:E2; cbn in H2 |- *; [|exact H2].
      destruct (r_shape a =? r_shape b) eqn:E3; cbn in H1.
      + apply Z.eqb_eq in E3. rewrite E3.
        destruct (r_shape b =? r_shape c) eqn:E4; cbn in H2 |- *; [|exact H2].
        apply Z.ltb_lt in H1, H2. apply Z.ltb_lt. lia.
      + apply Z.eqb_neq in E3. apply Z.ltb_lt in H1.
        destruct (r_shape b =? r_shape c) eqn:E4; cbn in H2.
        * apply Z.eqb_eq in E4. rewrite <- E4.
          destruct (r_shape a =? r_shape b) eqn:E5; [apply Z.eqb_eq in E5; contradiction|].
          cbn. apply Z.ltb_lt. exact H1.
        * apply Z.ltb_lt in H2.
          destruct (r_shape a =? r_shape c) eqn:E5; [apply Z.eqb_eq in E5; lia|].
          cbn. apply Z.ltb_lt. lia.
    - destruct (d_eqb ops (r_dist b) (r_dist c)) eqn:E2; cbn in H2.
      + apply (eqb_spec _ OK) in E2. rewrite <- E2. rewrite E1. cbn. exact H1.
      + assert (L : d_less ops (r_dist a) (r_dist c) = true) by (eapply (less_trans _ OK); eauto).
        destruct (d_eqb ops (r_dist a) (r_dist c)) eqn:E3; cbn; [|exact L].
        apply (eqb_spec _ OK) in E3. rewrite E3 in L. rewrite (less_irrefl _ OK) in L. discriminate.
  Qed.

  Lemma rless_asym a b : rless a b = true -> rless b a = false.
  Proof.
    intros H. destruct (rless b a) eqn:E; [|reflexivity].
    pose proof (rless_trans _ _ _ H E) as T. rewrite rless_irrefl in T. discriminate.
  Qed.

  Lemma reqb_spec a b : reqb a b = true <-> a = b.
  Proof.
    unfold r_eqb. split.
    - intros H. apply andb_prop in H. destruct H as [H H3]. apply andb_prop in H. destruct H as [H1 H2].
      apply result_eq; [apply (eqb_spec _ OK); exact H1 | apply Z.eqb_eq; exact H2 | apply Z.eqb_eq; exact H3].
    - intros ->. rewrite deqb_refl, !Z.eqb_refl. reflexivity.
  Qed.

  (** non-strict order used by the sort *)
  Definition rle (a b : result D) : Prop := rless b a = false.
  Definition rlt (a b : result D) : Prop := rless a b = true.

  Lemma rle_trans a b c : rle a b -> rle b c -> rle a c.
  Proof.
    unfold rle. intros H1 H2. destruct (rless c a) eqn:E; [|reflexivity].
    destruct (rless b a) eqn:E1; [discriminate|]. destruct (rless c b) eqn:E2; [discriminate|].
    destruct (rless a b) eqn:E3.
    - pose proof (rless_trans _ _ _ E E3) as T. congruence.
    - pose proof (rless_total _ _ E3 E1). subst. congruence.
  Qed.

  Lemma insert_perm a l : Permutation (insert_r D ops a l) (a :: l).
  Proof.
    induction l as [|b t IH]; cbn; [reflexivity|].
    destruct (rless a b); [reflexivity|].
    rewrite IH. apply perm_swap.
  Qed.

  Lemma sort_perm l : Permutation (sort_r D ops l) l.
  Proof.
    induction l as [|a t IH]; cbn; [reflexivity|].
    rewrite insert_perm. constructor. exact IH.
  Qed.

  Lemma insert_sorted a l : StronglySorted rle l -> StronglySorted rle (insert_r D ops a l).
  Proof.
    induction l as [|b t IH]; cbn; intros S.
    - constructor; constructor.
    - destruct (rless a b) eqn:E.
      + constructor; [exact S|]. constructor.
        * unfold rle. apply rless_asym. exact E.
        * inversion S as [|? ? S' F]; subst. rewrite Forall_forall in *. intros c Hc.
          apply rle_trans with b; [unfold rle; apply rless_asym; exact E | apply F; exact Hc].
      + inversion S as [|? ? S' F]; subst. constructor; [apply IH; exact S'|].
        rewrite Forall_forall in *. intros c Hc.
        apply (Permutation_in _ (insert_perm a t)) in Hc. destruct Hc as [<-|Hc]; [exact E|apply F; exact Hc].
  Qed.

  Lemma sort_sorted l : StronglySorted rle (sort_r D ops l).
  Proof. induction l; cbn; [constructor|apply insert_sorted; assumption]. Qed.

  (** uniq_from keeps a strictly increasing subsequence with the same elements *)
  Lemma uniq_sorted a l : StronglySorted rle (a :: l) -> StronglySorted rlt (a :: uniq_from D ops a l).
  Proof.
    revert a. induction l as [|b t IH]; intros a S; cbn.
    - constructor; constructor.
    - inversion S as [|? ? S' F]; subst.
      destruct (reqb a b) eqn:E.
      + apply reqb_spec in E. subst b. apply IH. constructor.
        * inversion S'; assumption.
        * inversion F; assumption.
      + specialize (IH b S'). constructor; [exact IH|].
        assert (Lab : rlt a b).
        { unfold rlt. destruct (rless a b) eqn:E1; [reflexivity|]. inversion F as [|? ? Fb _]; subst.
          unfold rle in Fb. pose proof (rless_total _ _ E1 Fb). subst.
          rewrite (proj2 (reqb_spec b b) eq_refl) in E. discriminate. }
        constructor; [exact Lab|].
        inversion IH as [|? ? _ F2]; subst. rewrite Forall_forall in *. intros c Hc.
        unfold rlt in *. eapply rless_trans; [exact Lab|apply F2; exact Hc].
  Qed.

  Lemma uniq_incl a l : forall c, In c (a :: uniq_from D ops a l) <-> In c (a :: l).
  Proof.
    revert a. induction l as [|b t IH]; intros a c; cbn; [tauto|].
    destruct (reqb a b) eqn:E.
    - apply reqb_spec in E. subst b. specialize (IH a c). cbn in IH. tauto.
    - specialize (IH b c). cbn in *. tauto.
  Qed.

  Lemma sort_unique_sorted l : StronglySorted rlt (sort_unique ops l).
  Proof.
    unfold sort_unique. destruct l as [|a [|b t]].
    - constructor.
    - constructor; constructor.
    - pose proof (sort_sorted (a :: b :: t)) as S.
      destruct (sort_r D ops (a :: b :: t)) as [|c u] eqn:E; [constructor|].
      apply uniq_sorted. exact S.
  Qed.

  Lemma sort_unique_in l c : In c (sort_unique ops l) <-> In c l.
  Proof.
    unfold sort_unique. destruct l as [|a [|b t]]; [tauto|tauto|].
    pose proof (sort_perm (a :: b :: t)) as P.
    destruct (sort_r D ops (a :: b :: t)) as [|d u] eqn:E.
    - apply Permutation_nil in P. discriminate.
    - rewrite uniq_incl. split; intros H.
      + eapply Permutation_in; [exact P|exact H].
      + eapply Permutation_in; [apply Permutation_sym; exact P|exact H].
  Qed.

  Lemma firstn_in {A} n (l : list A) c : In c (firstn n l) -> In c l.
  Proof.
    revert n. induction l as [|a t IH]; intros n H; destruct n; cbn in *; try contradiction.
    destruct H as [H|H]; [left; exact H|right; eapply IH; exact H].
  Qed.

  Lemma firstn_sorted {A} (R : A -> A -> Prop) n l : StronglySorted R l -> StronglySorted R (firstn n l).
  Proof.
    revert n. induction l as [|a t IH]; intros n S; destruct n; cbn; try constructor.
    - apply IH. inversion S; assumption.
    - inversion S as [|? ? _ F]; subst. rewrite Forall_forall in *. intros c Hc. apply F.
      eapply firstn_in. exact Hc.
  Qed.

  Lemma sorted_nodup l : StronglySorted rlt l -> NoDup l.
  Proof.
    induction 1 as [|a l S IH F]; constructor; [|exact IH].
    intros Hin. rewrite Forall_forall in F. specialize (F a Hin). unfold rlt in F.
    rewrite rless_irrefl in F. discriminate.
  Qed.

  Lemma sorted_set_eq l1 : forall l2, StronglySorted rlt l1 -> StronglySorted rlt l2 ->
    (forall c, In c l1 <-> In c l2) -> l1 = l2.
  Proof.
    induction l1 as [|a t1 IH]; intros l2 S1 S2 E.
    - destruct l2 as [|b t2]; [reflexivity|]. exfalso. apply (E b). left. reflexivity.
    - destruct l2 as [|b t2]; [exfalso; apply (E a); left; reflexivity|].
      inversion S1 as [|? ? S1' F1]; subst. inversion S2 as [|? ? S2' F2]; subst.
      rewrite Forall_forall in F1, F2.
      assert (Eab : a = b).
      { destruct (proj1 (E a) (or_introl eq_refl)) as [<-|Ha]; [reflexivity|].
        destruct (proj2 (E b) (or_introl eq_refl)) as [<-|Hb]; [reflexivity|].
        pose proof (F2 a Ha) as X. pose proof (F1 b Hb) as Y. unfold rlt in *.
        rewrite (rless_asym _ _ X) in Y. discriminate. }
      subst b. f_equal. apply IH; [exact S1'|exact S2'|].
      intros c. split; intros Hc.
      + destruct (proj1 (E c) (or_intror Hc)) as [<-|H]; [|exact H].
        pose proof (F1 a Hc) as X. unfold rlt in X. rewrite rless_irrefl in X. discriminate.
      + destruct (proj2 (E c) (or_intror Hc)) as [<-|H]; [|exact H].
        pose proof (F2 a Hc) as X. unfold rlt in X. rewrite rless_irrefl in X. discriminate.
  Qed.

  (** [post_ok] *)
  Theorem post_ok_gen (o : options D) (t : target D) (x : index) (old brk : bool) (qs : Z * Z) :
    let out := find_edges_from D ops o t x old brk qs in
    StronglySorted rlt out /\ NoDup out /\ (Z.of_nat (length out) <= Z.max 0 (o_max_results o)).
  Proof.
    cbn. unfold find_edges_from, truncate.
    set (l := sort_unique ops _).
    assert (S : StronglySorted rlt l) by apply sort_unique_sorted.
    destruct (Z.of_nat (length l) >? o_max_results o) eqn:E.
    - split; [apply firstn_sorted; exact S|]. split; [apply sorted_nodup, firstn_sorted; exact S|].
      rewrite firstn_length. lia.
    - split; [exact S|]. split; [apply sorted_nodup; exact S|]. lia.
  Qed.
End Post.
