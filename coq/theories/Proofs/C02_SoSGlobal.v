(** C02, the symbolic perturbation for a whole finite point set ([sos_consistent]):
    ONE assignment of perturbations — the point of index k in the lexicographically sorted
    set is moved by (eps^(4*8^k), eps^(2*8^k), eps^(8^k)) — explains exactSign on every
    triple of the set, in every argument order, for all sufficiently small eps > 0, and no
    perturbed determinant vanishes. Hence ([chirotope_gp]) the answers satisfy the three-term
    Grassmann-Pluecker sign conditions on every five points: they are the orientations of a
    real vector configuration in general position.

    Method: the expansion of Proofs/C02_SoS.v is redone for arbitrary exponents n1..n9 that are
    super-increasing (each larger than the sum of the smaller ones): the 34 subset sums are
    then ordered as in the concrete case, so the same coefficient list, hence the same table. *)
From Coq Require Import ZArith Reals Floats Lra Lia Bool List Psatz.
From Geo Require Import Base.GoPrim Base.F64 Base.Exact Gen.R3 Gen.S2Pred Model.Pred Proofs.C02_Exact Proofs.C02_SoS.
Import ListNotations.
Local Open Scope R_scope.

Lemma first_nz_coeffs (l1 l2 : poly) : map snd l1 = map snd l2 -> first_nz l1 = first_nz l2.
Proof.
  revert l2. induction l1 as [|[n c] t IH]; intros [|[n' c'] t']; simpl; try discriminate; auto.
  intros H. injection H as Hc Ht. subst c'. rewrite (IH t' Ht). reflexivity.
Qed.

Section TableG.
  Variables ax ay az bx by_ bz cx cy cz : R.
  (** exponents of da.Z da.Y da.X db.Z db.Y db.X dc.Z dc.Y dc.X *)
  Variables n1 n2 n3 n4 n5 n6 n7 n8 n9 : nat.
  Hypothesis SI : (0 < n1 /\ n1 < n2 /\ n1 + n2 < n3 /\ n1 + n2 + n3 < n4 /\ n1 + n2 + n3 + n4 < n5 /\
    n1 + n2 + n3 + n4 + n5 < n6 /\ n1 + n2 + n3 + n4 + n5 + n6 < n7 /\
    n1 + n2 + n3 + n4 + n5 + n6 + n7 < n8 /\ n1 + n2 + n3 + n4 + n5 + n6 + n7 + n8 < n9)%nat.

  Definition sos_poly_g : poly :=
    [((0)%nat, det3 ax ay az bx by_ bz cx cy cz);
     ((n1)%nat, bx * cy - by_ * cx);
     ((n2)%nat, bz * cx - bx * cz);
     ((n3)%nat, by_ * cz - bz * cy);
     ((n4)%nat, cx * ay - cy * ax);
     ((n4 + n2)%nat, cx);
     ((n4 + n3)%nat, - cy);
     ((n5)%nat, cz * ax - cx * az);
     ((n5 + n1)%nat, - cx);
     ((n5 + n3)%nat, cz);
     ((n6)%nat, az * cy - ay * cz);
     ((n6 + n1)%nat, cy);
     ((n6 + n2)%nat, - cz);
     ((n7)%nat, ax * by_ - ay * bx);
     ((n7 + n2)%nat, - bx);
     ((n7 + n3)%nat, by_);
     ((n7 + n5)%nat, ax);
     ((n7 + n5 + n3)%nat, 1);
     ((n7 + n6)%nat, - ay);
     ((n7 + n6 + n2)%nat, - 1);
     ((n8)%nat, az * bx - ax * bz);
     ((n8 + n1)%nat, bx);
     ((n8 + n3)%nat, - bz);
     ((n8 + n4)%nat, - ax);
     ((n8 + n4 + n3)%nat, - 1);
     ((n8 + n6)%nat, az);
     ((n8 + n6 + n1)%nat, 1);
     ((n9)%nat, ay * bz - az * by_);
     ((n9 + n1)%nat, - by_);
     ((n9 + n2)%nat, bz);
     ((n9 + n4)%nat, ay);
     ((n9 + n4 + n2)%nat, 1);
     ((n9 + n5)%nat, - az);
     ((n9 + n5 + n1)%nat, - 1)].

  Definition pert_g (e : R) : R :=
    det3 (ax + e ^ n3) (ay + e ^ n2) (az + e ^ n1) (bx + e ^ n6) (by_ + e ^ n5) (bz + e ^ n4)
         (cx + e ^ n9) (cy + e ^ n8) (cz + e ^ n7).

  Lemma sos_expansion_g e : pert_g e = peval sos_poly_g e.
  Proof.
    unfold pert_g, sos_poly_g. cbn [peval]. unfold det3. rewrite !pow_add, pow_O.
    generalize (e ^ n1) (e ^ n2) (e ^ n3) (e ^ n4) (e ^ n5) (e ^ n6) (e ^ n7) (e ^ n8) (e ^ n9).
    intros. ring.
  Qed.

  Lemma sos_increasing_g : increasing sos_poly_g.
  Proof. unfold sos_poly_g. cbn [increasing all_ge]. repeat split; lia. Qed.

  Lemma table_first_nz_g : det3 ax ay az bx by_ bz cx cy cz = 0 ->
    table_R ax ay az bx by_ bz cx cy cz = first_nz sos_poly_g.
  Proof.
    intros Hd. rewrite (first_nz_coeffs sos_poly_g (sos_poly ax ay az bx by_ bz cx cy cz)) by reflexivity.
    now apply table_first_nz.
  Qed.
End TableG.

(** * "for all sufficiently small eps > 0" *)
Definition eventually (P : R -> Prop) : Prop := exists e0, 0 < e0 /\ forall e, 0 < e < e0 -> P e.

Lemma eventually_true (P : R -> Prop) : (forall e, P e) -> eventually P.
Proof. intros H. exists 1. split; [lra|]. intros; apply H. Qed.
Lemma eventually_and P Q : eventually P -> eventually Q -> eventually (fun e => P e /\ Q e).
Proof.
  intros (e1 & H1 & HP) (e2 & H2 & HQ). exists (Rmin e1 e2). split; [now apply Rmin_pos|].
  intros e [He0 He]. pose proof (Rmin_l e1 e2). pose proof (Rmin_r e1 e2). split; [apply HP|apply HQ]; lra.
Qed.
Lemma eventually_mono (P Q : R -> Prop) : (forall e, 0 < e -> P e -> Q e) -> eventually P -> eventually Q.
Proof. intros H (e1 & H1 & HP). exists e1. split; [assumption|]. intros e He. apply H; [lra|]. now apply HP. Qed.
Lemma eventually_forall_lt (n : nat) (P : nat -> R -> Prop) :
  (forall i, (i < n)%nat -> eventually (P i)) -> eventually (fun e => forall i, (i < n)%nat -> P i e).
Proof.
  induction n as [|n IH]; intros H.
  - apply eventually_true. intros e i Hi. lia.
  - assert (H1 : eventually (fun e => forall i, (i < n)%nat -> P i e)) by (apply IH; intros; apply H; lia).
    assert (H2 : eventually (P n)) by (apply H; lia).
    apply (eventually_mono (fun e => (forall i, (i < n)%nat -> P i e) /\ P n e)); [|now apply eventually_and].
    intros e _ [Ha Hb] i Hi. destruct (Nat.eq_dec i n) as [->|Hne]; [assumption|apply Ha; lia].
Qed.

Lemma sorted_sign_sos_g a b c n1 n2 n3 n4 n5 n6 n7 n8 n9 :
  (0 < n1 /\ n1 < n2 /\ n1 + n2 < n3 /\ n1 + n2 + n3 < n4 /\ n1 + n2 + n3 + n4 < n5 /\
    n1 + n2 + n3 + n4 + n5 < n6 /\ n1 + n2 + n3 + n4 + n5 + n6 < n7 /\
    n1 + n2 + n3 + n4 + n5 + n6 + n7 < n8 /\ n1 + n2 + n3 + n4 + n5 + n6 + n7 + n8 < n9)%nat ->
  eventually (fun e => sorted_sign true a b c =
    sgnR (pert_g (PX a) (PY a) (PZ a) (PX b) (PY b) (PZ b) (PX c) (PY c) (PZ c) n1 n2 n3 n4 n5 n6 n7 n8 n9 e)).
Proof.
  intros SI.
  destruct (dominance _ (sos_increasing_g (PX a) (PY a) (PZ a) (PX b) (PY b) (PZ b) (PX c) (PY c) (PZ c)
    n1 n2 n3 n4 n5 n6 n7 n8 n9 SI)) as (e0 & He0 & H).
  exists e0. split; [assumption|]. intros e He. rewrite sos_expansion_g, (H e He), sorted_sign_first_nz.
  apply first_nz_coeffs. reflexivity.
Qed.

Lemma pow8_step i j : (i < j)%nat -> (8 * 8 ^ i <= 8 ^ j)%nat.
Proof.
  intros H. replace (8 * 8 ^ i)%nat with (8 ^ (S i))%nat by (simpl; lia).
  apply Nat.pow_le_mono_r; lia.
Qed.
Lemma pow8_pos i : (1 <= 8 ^ i)%nat.
Proof. pose proof (Nat.pow_nonzero 8 i). lia. Qed.

Lemma cmp_gt_asym p q : finite p -> finite q -> cmp_gt q p = true -> cmp_gt p q = false.
Proof.
  intros Fp Fq H. destruct (cmp_gt p q) eqn:E; auto.
  apply cmp_gt_iff in H; auto. apply cmp_gt_iff in E; auto. unfold lexlt in *. lra.
Qed.

Definition dummy_pt : s2_Point := mk_s2_Point (mk_r3_Vector 0 0 0).

Section Global.
  Variable pts : list s2_Point.
  Definition prow (n : nat) : s2_Point := nth n pts dummy_pt.
  Definition plen : nat := length pts.
  (** a finite set of finite points, listed in strictly increasing lexicographic order *)
  Hypothesis Fin : forall i, (i < plen)%nat -> finite (prow i).
  Hypothesis Sorted : forall i j, (i < j)%nat -> (j < plen)%nat -> cmp_gt (prow j) (prow i) = true.

  (** determinant of the rows i, j, k, each moved by the perturbation of ITS OWN index *)
  Definition gdet (i j k : nat) (e : R) : R :=
    det3 (PX (prow i) + dX i e) (PY (prow i) + dY i e) (PZ (prow i) + dZ i e)
         (PX (prow j) + dX j e) (PY (prow j) + dY j e) (PZ (prow j) + dZ j e)
         (PX (prow k) + dX k e) (PY (prow k) + dY k e) (PZ (prow k) + dZ k e).

  Lemma sorted_triple i j k : (i < j)%nat -> (j < k)%nat ->
    eventually (fun e => sorted_sign true (prow i) (prow j) (prow k) = sgnR (gdet i j k e)).
  Proof.
    intros Hij Hjk.
    pose proof (pow8_step i j Hij). pose proof (pow8_step j k Hjk). pose proof (pow8_pos i).
    apply (sorted_sign_sos_g (prow i) (prow j) (prow k)
      (8 ^ i) (2 * 8 ^ i) (4 * 8 ^ i) (8 ^ j) (2 * 8 ^ j) (4 * 8 ^ j) (8 ^ k) (2 * 8 ^ k) (4 * 8 ^ k))%nat.
    repeat split; lia.
  Qed.

  Lemma all_sorted_triples : eventually (fun e => forall k, (k < plen)%nat -> forall j, (j < k)%nat ->
    forall i, (i < j)%nat -> sorted_sign true (prow i) (prow j) (prow k) = sgnR (gdet i j k e)).
  Proof.
    apply (eventually_forall_lt plen (fun k e => forall j, (j < k)%nat -> forall i, (i < j)%nat ->
      sorted_sign true (prow i) (prow j) (prow k) = sgnR (gdet i j k e))).
    intros k Hk.
    apply (eventually_forall_lt k (fun j e => forall i, (i < j)%nat ->
      sorted_sign true (prow i) (prow j) (prow k) = sgnR (gdet i j k e))).
    intros j Hj.
    apply (eventually_forall_lt j (fun i e =>
      sorted_sign true (prow i) (prow j) (prow k) = sgnR (gdet i j k e))).
    intros i Hi. now apply sorted_triple.
  Qed.

  Lemma order_facts p q : (p < q)%nat -> (q < plen)%nat ->
    cmp_gt (prow q) (prow p) = true /\ cmp_gt (prow p) (prow q) = false.
  Proof.
    intros Hpq Hq. pose proof (Sorted p q Hpq Hq) as H. split; [assumption|].
    apply cmp_gt_asym; auto; apply Fin; lia.
  Qed.

  Lemma gdet_swap12 i j k e : gdet j i k e = - gdet i j k e.
  Proof. unfold gdet, det3. ring. Qed.
  Lemma gdet_swap23 i j k e : gdet i k j e = - gdet i j k e.
  Proof. unfold gdet, det3. ring. Qed.
  Lemma gdet_swap13 i j k e : gdet k j i e = - gdet i j k e.
  Proof. unfold gdet, det3. ring. Qed.
  Lemma gdet_rot i j k e : gdet j k i e = gdet i j k e.
  Proof. unfold gdet, det3. ring. Qed.
  Lemma gdet_rot2 i j k e : gdet k i j e = gdet i j k e.
  Proof. unfold gdet, det3. ring. Qed.

  (** THE CONSISTENCY THEOREM *)
  Theorem sos_consistent : eventually (fun e => forall i j k,
    (i < plen)%nat -> (j < plen)%nat -> (k < plen)%nat -> i <> j -> j <> k -> i <> k ->
    exact_sign (prow i) (prow j) (prow k) = sgnR (gdet i j k e) /\ gdet i j k e <> 0).
  Proof.
    eapply eventually_mono; [|apply all_sorted_triples]. cbv beta.
    intros e _ H i j k Hi Hj Hk Nij Njk Nik.
    assert (Hnz : forall x : R, (sgnR x = 1 \/ sgnR x = -1)%Z -> x <> 0).
    { intros x Hx E. subst. rewrite sgnR_0 in Hx. lia. }
    unfold exact_sign, exact_sign_gen.
    assert (Cases : (i < j < k \/ i < k < j \/ j < i < k \/ j < k < i \/ k < i < j \/ k < j < i)%nat) by lia.
    destruct Cases as [[A B]|[[A B]|[[A B]|[[A B]|[[A B]|[A B]]]]]];
    match goal with
    | A : (?p < ?q)%nat, B : (?q < ?r)%nat |- _ =>
        destruct (order_facts p q A ltac:(lia)) as [O1 O2];
        destruct (order_facts q r B ltac:(lia)) as [O3 O4];
        destruct (order_facts p r ltac:(lia) ltac:(lia)) as [O5 O6];
        pose proof (H r ltac:(lia) q B p A) as Hs;
        pose proof (sorted_sign_true_pm1 (prow p) (prow q) (prow r)) as Hpm
    end;
    run_sort; rewrite Hs in *;
    rewrite ?(gdet_swap12 i j k e), ?(gdet_swap23 i j k e), ?(gdet_swap13 i j k e),
            ?(gdet_rot i j k e), ?(gdet_rot2 i j k e) in *;
    rewrite ?sgnR_opp in *; (split; [lia | apply Hnz; rewrite ?sgnR_opp; lia]).
  Qed.
End Global.

(** * Consequence: the answers are realisable — three-term Grassmann-Pluecker sign conditions *)
Lemma sgnR_prod_pos x y : (0 < sgnR x * sgnR y)%Z -> 0 < x * y.
Proof.
  rewrite <- sgnR_mult. intros H. apply sgnR_pos_iff.
  destruct (sgnR_cases (x * y)) as [[_ E]|[[_ E]|[_ E]]]; rewrite E in *; lia.
Qed.
Lemma sgnR_prod_neg x y : (sgnR x * sgnR y < 0)%Z -> x * y < 0.
Proof.
  rewrite <- sgnR_mult. intros H. apply sgnR_neg_iff.
  destruct (sgnR_cases (x * y)) as [[_ E]|[[_ E]|[_ E]]]; rewrite E in *; lia.
Qed.

Theorem chirotope_gp (pts : list s2_Point) :
  (forall i, (i < plen pts)%nat -> finite (prow pts i)) ->
  (forall i j, (i < j)%nat -> (j < plen pts)%nat -> cmp_gt (prow pts j) (prow pts i) = true) ->
  forall a b c d f, (a < plen pts)%nat -> (b < plen pts)%nat -> (c < plen pts)%nat ->
    (d < plen pts)%nat -> (f < plen pts)%nat ->
    a <> b -> a <> c -> a <> d -> a <> f -> b <> c -> b <> d -> b <> f -> c <> d -> c <> f -> d <> f ->
    let X p q r := exact_sign (prow pts p) (prow pts q) (prow pts r) in
    let t1 := (X a b c * X a d f)%Z in
    let t2 := (- (X a b d * X a c f))%Z in
    let t3 := (X a b f * X a c d)%Z in
    ~ (0 < t1 /\ 0 < t2 /\ 0 < t3)%Z /\ ~ (t1 < 0 /\ t2 < 0 /\ t3 < 0)%Z.
Proof.
  intros Fin Sorted a b c d f La Lb Lc Ld Lf Nab Nac Nad Naf Nbc Nbd Nbf Ncd Ncf Ndf X t1 t2 t3.
  destruct (sos_consistent pts Fin Sorted) as (e0 & He0 & H).
  assert (He : 0 < e0 / 2 < e0) by lra. specialize (H (e0 / 2) He). set (e := e0 / 2) in *.
  assert (GP : gdet pts a b c e * gdet pts a d f e - gdet pts a b d e * gdet pts a c f e
             + gdet pts a b f e * gdet pts a c d e = 0) by (unfold gdet, det3; ring).
  destruct (H a b c) as [E1 _]; auto. destruct (H a d f) as [E2 _]; auto.
  destruct (H a b d) as [E3 _]; auto. destruct (H a c f) as [E4 _]; auto.
  destruct (H a b f) as [E5 _]; auto. destruct (H a c d) as [E6 _]; auto.
  unfold t1, t2, t3, X. rewrite E1, E2, E3, E4, E5, E6.
  split; intros (P1 & P2 & P3).
  - apply sgnR_prod_pos in P1. apply sgnR_prod_pos in P3.
    assert (P2' : (sgnR (gdet pts a b d e) * sgnR (gdet pts a c f e) < 0)%Z) by lia.
    apply sgnR_prod_neg in P2'. lra.
  - apply sgnR_prod_neg in P1. apply sgnR_prod_neg in P3.
    assert (P2' : (0 < sgnR (gdet pts a b d e) * sgnR (gdet pts a c f e))%Z) by lia.
    apply sgnR_prod_pos in P2'. lra.
Qed.

(** the hypotheses are satisfiable: the five points (0,0,-1) < (0,0,1) < (0,1,0) < (1,0,0) < ... *)
Example sos_example_sorted :
  let pts := [mk_s2_Point (mk_r3_Vector (-1) 0 0); mk_s2_Point (mk_r3_Vector 0 0 1);
              mk_s2_Point (mk_r3_Vector 0 1 0); mk_s2_Point (mk_r3_Vector 1 0 0)] in
  (forall i, (i < plen pts)%nat -> finite (prow pts i)) /\
  (forall i j, (i < j)%nat -> (j < plen pts)%nat -> cmp_gt (prow pts j) (prow pts i) = true).
Proof.
  cbv zeta. split.
  - intros i Hi. unfold plen in Hi. simpl in Hi.
    destruct i as [|[|[|[|i]]]]; try lia; vm_compute; reflexivity.
  - intros i j Hij Hj. unfold plen in Hj. simpl in Hj.
    destruct j as [|[|[|[|j]]]]; try lia; destruct i as [|[|[|[|i]]]]; try lia; vm_compute; reflexivity.
Qed.
