(** C13: discharging H_ORIGIN_REV ("a loop built from the reversed vertex list gets the opposite
    originInside") for the REAL predicates on unit points, from the closed laws of C02/C03/C04.

    initOriginAndBound fixes originInside so that vertex 1 of the list it is given is contained
    exactly when its wedge says so (C04 origin_inside_vertex1).  The reversed list pre ++ [a;o;b]
    |-> b :: o :: a :: rev pre has ANOTHER vertex 1, namely o = the last-but-one vertex of the
    original.  Three closed facts then give the flip:
      - Invert's loop (reversed vertices, negated flag) is the complement (C04 invert_complement);
      - the two wedges at o, from a to b and from b to a, are complementary (C03 wedge-split law
        with the guard referenceDir(o) <> o, in the form C04 loops_around_vertex_exactly_one);
      - the fresh loop on the reversed list contains o iff wedge(b,o,a) (origin_inside_vertex1).
    What is left is ONE statement about the original loop: it contains its vertex o according to
    o's own wedge ([vertex_consistent]).  For a triangle o IS vertex 1 and the statement is
    origin_inside_vertex1: closed.  For longer lists it says that the crossing parity from
    OriginPoint agrees at vertex n-2 with the choice made at vertex 1 — true of valid (simple)
    loops by the Jordan-type hypothesis H-JORDAN of C04, FALSE of self-crossing ones (a figure
    eight has one lobe of each orientation: the wedge rule at a vertex of the other lobe gives
    the opposite answer), so it cannot follow from the orientation laws alone. *)
From Coq Require Import ZArith List Bool Arith Lia.
From Geo Require Import Model.Crosser Model.Contain Model.Lazy Proofs.C03_Extra
  Proofs.C04_Brute Proofs.C04_Tracker Proofs.C04_Tiling
  Proofs.Link_C02_C03 Proofs.Link_C02_C03_Cyclic Proofs.Link_C02_C04 Proofs.Link_C02_C04_Tiling
  Proofs.C13_Index Proofs.C13_Loop.
Import ListNotations.

Section OriginRevReal.
  Variable refdir : upoint -> upoint.           (* Point.referenceDir *)
  Variable eov : upoint -> upoint -> upoint -> upoint -> bool.
  Variable south : upoint -> bool.
  Variables origin zeroPt emptyPt fullPt : upoint.
  (* reversing the tested edge does not change the crossing predicate: closed for the exact
     predicate u_eov_spec (below); for the float crosser it is C03's theorem under H_TANGENT *)
  Hypothesis eov_sym : eov_sym_cd_law upoint eov.

  Local Notation acv := (angle_contains_vertex upoint u_sign refdir).
  Local Notation lfp := (loop_from_points upoint u_peq eov acv south origin zeroPt).
  Local Notation brute := (brute_contains upoint eov origin zeroPt).
  Local Notation init_oi := (init_origin_inside upoint u_peq eov acv south origin zeroPt).
  Local Notation v1in := (v1_inside upoint u_peq acv).

  Lemma flag_from_answer vs a b p :
    brute (mk_loop upoint vs a) p = brute (mk_loop upoint vs b) p -> a = b.
  Proof.
    rewrite (brute_flag upoint eov origin zeroPt vs a), (brute_flag upoint eov origin zeroPt vs b).
    destruct a, b, (brute (mk_loop upoint vs false) p); cbn; congruence.
  Qed.

  (** the two wedges at o between the rays to a and to b are complementary *)
  Lemma wedges_complementary o a b :
    u_peq (refdir o) o = false -> u_peq a o = false -> u_peq b o = false -> u_peq a b = false ->
    v1in b o a = negb (v1in a o b).
  Proof.
    intros Hr Ha Hb Hab.
    pose proof (loops_around_vertex_exactly_one_real refdir eov south origin zeroPt o Hr (fun _ _ => []) a b []) as H.
    assert (Hl : ccw_listed upoint u_peq u_sign o [a; b]) by (cbn; repeat split; auto).
    specialize (H Hl). cbn [loop_count last] in H. unfold wedge_loop_contains in H.
    rewrite !(origin_inside_vertex1_real refdir eov south origin zeroPt) in H.
    destruct (v1in b o a), (v1in a o b); cbn in H; try reflexivity; lia.
  Qed.

  (** the one remaining statement about the original loop *)
  Definition vertex_consistent (pre : list upoint) (a o b : upoint) : Prop :=
    brute (lfp (pre ++ [a; o; b])) o = v1in a o b.

  Theorem origin_rev_real pre a o b :
    u_peq (refdir o) o = false -> u_peq a o = false -> u_peq b o = false -> u_peq a b = false ->
    vertex_consistent pre a o b ->
    init_oi (rev (pre ++ [a; o; b])) = negb (init_oi (pre ++ [a; o; b])).
  Proof.
    intros Hr Ha Hb Hab Hc.
    set (vs := pre ++ [a; o; b]).
    assert (Hrev : rev vs = b :: o :: a :: rev pre) by (unfold vs; rewrite rev_app_distr; reflexivity).
    assert (Hlen : length (verts upoint (lfp vs)) <> 1).
    { cbn [verts Contain.loop_from_points]. unfold vs. rewrite app_length. cbn. lia. }
    pose proof (invert_complement_ordinary upoint eov origin emptyPt fullPt zeroPt eov_sym (lfp vs) o Hlen) as Hi.
    unfold vertex_consistent in Hc. fold vs in Hc. rewrite Hc in Hi.
    rewrite <- (wedges_complementary o a b Hr Ha Hb Hab) in Hi.
    rewrite <- (origin_inside_vertex1_real refdir eov south origin zeroPt b o a (rev pre)) in Hi.
    rewrite <- Hrev in Hi.
    (* both loops have the vertices rev vs *)
    unfold Contain.invert, Contain.is_empty_or_full in Hi. cbn [verts origin_inside Contain.loop_from_points] in Hi.
    destruct (Nat.eqb_spec (length vs) 1) as [E|_]; [unfold vs in E; rewrite app_length in E; cbn in E; lia|].
    unfold Contain.loop_from_points in Hi.
    symmetry. exact (flag_from_answer _ _ _ _ Hi).
  Qed.

  (** triangles: closed (vertex 1 of the reversed list is vertex 1 of the original) *)
  Theorem origin_rev_triangle_real a o b :
    u_peq (refdir o) o = false -> u_peq a o = false -> u_peq b o = false -> u_peq a b = false ->
    init_oi [b; o; a] = negb (init_oi [a; o; b]).
  Proof.
    intros Hr Ha Hb Hab.
    apply (origin_rev_real [] a o b Hr Ha Hb Hab).
    unfold vertex_consistent. cbn [app]. apply origin_inside_vertex1_real.
  Qed.

  (** ** invert_matches_fresh without H_ORIGIN_REV *)
  Local Notation lrun_real := (lrun emptyPt fullPt init_oi (fun (_ : list upoint) (_ : bool) => tt) tt (fun _ : unit => true)).

  Theorem invert_matches_fresh_real pre a o b (h : list lop) :
    u_peq (refdir o) o = false -> u_peq a o = false -> u_peq b o = false -> u_peq a b = false ->
    vertex_consistent pre a o b ->
    let vs := pre ++ [a; o; b] in
    let vs' := fst (iter_invert emptyPt fullPt (count_inverts h) vs (init_oi vs)) in
    exists l1 l2 o1 o2,
      lrun_real vs (h ++ [LQuery]) = Ok (l1, o1) /\ lrun_real vs' [LQuery] = Ok (l2, o2) /\
      last o1 (vs, init_oi vs, []) = last o2 (vs, init_oi vs, []).
  Proof.
    intros Hr Ha Hb Hab Hc vs.
    apply invert_matches_fresh_at.
    - unfold Lazy.invert_verts, Lazy.is_empty_or_full.
      destruct (Nat.eqb_spec (length vs) 1) as [E|_]; [unfold vs in E; rewrite app_length in E; cbn in E; lia|].
      exact (origin_rev_real pre a o b Hr Ha Hb Hab Hc).
    - intros E. unfold vs in E. rewrite app_length in E. cbn in E. lia.
  Qed.

  Theorem invert_matches_fresh_triangle_real a o b (h : list lop) :
    u_peq (refdir o) o = false -> u_peq a o = false -> u_peq b o = false -> u_peq a b = false ->
    let vs := [a; o; b] in
    let vs' := fst (iter_invert emptyPt fullPt (count_inverts h) vs (init_oi vs)) in
    exists l1 l2 o1 o2,
      lrun_real vs (h ++ [LQuery]) = Ok (l1, o1) /\ lrun_real vs' [LQuery] = Ok (l2, o2) /\
      last o1 (vs, init_oi vs, []) = last o2 (vs, init_oi vs, []).
  Proof.
    intros Hr Ha Hb Hab.
    apply (invert_matches_fresh_real [] a o b h Hr Ha Hb Hab).
    unfold vertex_consistent. cbn [app]. apply origin_inside_vertex1_real.
  Qed.
End OriginRevReal.
