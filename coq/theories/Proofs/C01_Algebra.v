(** C01 — the cell-id algebra of s2/cellid.go (translated: Gen.CellIDFull), for ALL ids.
    A valid id is  c = f*2^61 + (2k+1)*4^(30-l)  with face f < 6, level l <= 30 and
    index k < 4^l along the curve of the face ([rep c f l k]). *)
From Coq Require Import ZArith List Bool Lia.
From Geo Require Import Base.GoPrim Gen.CellIDFull Proofs.C01_Bits.
Import ListNotations.
Local Open Scope Z_scope.

Definition u64 (c : Z) : Prop := 0 <= c < 2 ^ 64.

Definition rep (c f l k : Z) : Prop :=
  0 <= f < 6 /\ 0 <= l <= 30 /\ 0 <= k < 4 ^ l /\ c = f * 2 ^ 61 + (2 * k + 1) * 4 ^ (30 - l).

(** ** powers *)
Lemma pow4_pow2 : forall n, 0 <= n -> 4 ^ n = 2 ^ (2 * n).
Proof. intros n Hn. change 4 with (2 ^ 2). rewrite <- Z.pow_mul_r by lia. reflexivity. Qed.

Lemma pow4_pos : forall n, 0 <= n -> 0 < 4 ^ n.
Proof. intros. apply Z.pow_pos_nonneg; lia. Qed.

Lemma pow4_split : forall l, 0 <= l <= 30 -> 4 ^ l * 4 ^ (30 - l) = 2 ^ 60.
Proof.
  intros l Hl. rewrite <- Z.pow_add_r by lia. replace (l + (30 - l)) with 30 by lia. reflexivity.
Qed.

Lemma pow4_succ : forall n, 0 <= n -> 4 ^ (n + 1) = 4 * 4 ^ n.
Proof. intros n Hn. rewrite Z.pow_add_r by lia. change (4 ^ 1) with 4. ring. Qed.

Lemma pow4_le_2_60 : forall l, 0 <= l <= 30 -> 4 ^ (30 - l) <= 2 ^ 60.
Proof.
  intros l Hl. rewrite pow4_pow2 by lia. apply pow2_le. lia.
Qed.

(** ** shape and bounds of a valid id *)
Lemma rep_odd_pow2 : forall c f l k, rep c f l k ->
  c = (2 * (f * 4 ^ l + k) + 1) * 2 ^ (2 * (30 - l)).
Proof.
  intros c f l k (Hf & Hl & Hk & ->). rewrite <- pow4_pow2 by lia.
  change (2 ^ 61) with (2 * 2 ^ 60). rewrite <- (pow4_split l) by lia. ring.
Qed.

Lemma rep_bounds : forall c f l k, rep c f l k ->
  f * 2 ^ 61 + 4 ^ (30 - l) <= c /\ c + 4 ^ (30 - l) <= (f + 1) * 2 ^ 61 /\ 0 < 4 ^ (30 - l).
Proof.
  intros c f l k (Hf & Hl & Hk & ->).
  pose proof (pow4_pos (30 - l) ltac:(lia)) as Hb.
  pose proof (pow4_split l Hl) as Hs.
  assert (H1 : 0 <= k * 4 ^ (30 - l)) by (apply Z.mul_nonneg_nonneg; lia).
  assert (H2 : (k + 1) * 4 ^ (30 - l) <= 4 ^ l * 4 ^ (30 - l)) by (apply Z.mul_le_mono_nonneg_r; lia).
  change (2 ^ 61) with (2 * 2 ^ 60). lia.
Qed.

Lemma rep_u64 : forall c f l k, rep c f l k -> 0 < c < 6 * 2 ^ 61.
Proof.
  intros c f l k H. pose proof (rep_bounds _ _ _ _ H) as (H1 & H2 & H3). destruct H as (Hf & _).
  assert (0 <= f * 2 ^ 61) by lia. assert ((f + 1) * 2 ^ 61 <= 6 * 2 ^ 61) by lia. lia.
Qed.

Lemma rep_wrap : forall c f l k, rep c f l k -> wrap_u64 c = c.
Proof.
  intros c f l k H. apply wrap_u64_small. pose proof (rep_u64 _ _ _ _ H).
  change (2 ^ 64) with (8 * 2 ^ 61). lia.
Qed.

(** ** lsb *)
Lemma lsb_rep : forall c f l k, rep c f l k -> s2_CellID_lsb c = 4 ^ (30 - l).
Proof.
  intros c f l k H. unfold s2_CellID_lsb. rewrite (rep_wrap _ _ _ _ H).
  pose proof H as (Hf & Hl & Hk & _).
  rewrite pow4_pow2 by lia.
  eapply lsb_u64; [|apply (rep_odd_pow2 _ _ _ _ H)]. lia.
Qed.

(** the de Bruijn lookup of findLSBSetNonZero64 is the exponent, on all 64 powers of two *)
Definition debruijn_ok (j : Z) : bool :=
  nthZ s2_deBruijn64Lookup (go_shr (wrap_u64 (Z.mul (2 ^ j) 285870213051353865)) 58) 0 =? j.

Lemma debruijn_all : forallb debruijn_ok (zrange_up 0 64) = true.
Proof. vm_compute. reflexivity. Qed.

Lemma in_zrange_up : forall lo hi k, lo <= k < hi -> In k (zrange_up lo hi).
Proof.
  intros lo hi k Hk. unfold zrange_up. apply in_map_iff.
  exists (Z.to_nat (k - lo)). split; [lia|]. apply in_seq. lia.
Qed.

Lemma debruijn_spec : forall j, 0 <= j < 64 ->
  nthZ s2_deBruijn64Lookup (go_shr (wrap_u64 (Z.mul (2 ^ j) 285870213051353865)) 58) 0 = j.
Proof.
  intros j Hj. pose proof debruijn_all as H. rewrite forallb_forall in H.
  specialize (H j (in_zrange_up 0 64 j Hj)). unfold debruijn_ok in H. apply Z.eqb_eq in H. exact H.
Qed.

Lemma findLSB_rep : forall c f l k, rep c f l k ->
  s2_findLSBSetNonZero64 (wrap_u64 c) = 2 * (30 - l).
Proof.
  intros c f l k H. unfold s2_findLSBSetNonZero64.
  pose proof (lsb_rep _ _ _ _ H) as HL. unfold s2_CellID_lsb in HL.
  rewrite (rep_wrap _ _ _ _ H) in *. rewrite HL.
  pose proof H as (Hf & Hl & Hk & _).
  rewrite pow4_pow2 by lia. rewrite debruijn_spec by lia.
  apply wrap_i64_small. change (2 ^ 63) with 9223372036854775808. lia.
Qed.

Lemma Level_rep : forall c f l k, rep c f l k -> s2_CellID_Level c = l.
Proof.
  intros c f l k H. unfold s2_CellID_Level. rewrite (findLSB_rep _ _ _ _ H).
  pose proof H as (Hf & Hl & Hk & _).
  rewrite go_shr_div by lia. change (2 ^ 1) with 2.
  replace (2 * (30 - l)) with ((30 - l) * 2) by lia. rewrite Z.div_mul by lia.
  replace (30 - (30 - l)) with l by lia.
  apply wrap_i64_small. change (2 ^ 63) with 9223372036854775808. lia.
Qed.

Lemma Face_rep : forall c f l k, rep c f l k -> s2_CellID_Face c = f.
Proof.
  intros c f l k H. unfold s2_CellID_Face. rewrite (rep_wrap _ _ _ _ H).
  rewrite go_shr_div by lia.
  pose proof (rep_bounds _ _ _ _ H) as (H1 & H2 & H3). pose proof H as (Hf & _).
  assert (E : c / 2 ^ 61 = f).
  { symmetry. apply (Z.div_unique c (2 ^ 61) f (c - f * 2 ^ 61)); [left|]; lia. }
  rewrite E. apply wrap_i64_small. change (2 ^ 63) with 9223372036854775808. lia.
Qed.

Lemma Pos_rep : forall c f l k, rep c f l k -> s2_CellID_Pos c = (2 * k + 1) * 4 ^ (30 - l).
Proof.
  intros c f l k H. unfold s2_CellID_Pos. rewrite (rep_wrap _ _ _ _ H).
  change 2305843009213693951 with (Z.ones 61). rewrite Z.land_ones by lia.
  pose proof (rep_bounds _ _ _ _ H) as (H1 & H2 & H3). pose proof H as (Hf & Hl & Hk & E).
  symmetry. apply (Z.mod_unique c (2 ^ 61) f); [left|]; lia.
Qed.

Lemma RangeMin_rep : forall c f l k, rep c f l k -> s2_CellID_RangeMin c = c - (4 ^ (30 - l) - 1).
Proof.
  intros c f l k H. unfold s2_CellID_RangeMin. rewrite (lsb_rep _ _ _ _ H), (rep_wrap _ _ _ _ H).
  pose proof (rep_bounds _ _ _ _ H) as (H1 & H2 & H3). pose proof (rep_u64 _ _ _ _ H) as Hu.
  pose proof H as (Hf & Hl & _). pose proof (pow4_le_2_60 l Hl) as Hb.
  change (2 ^ 61) with (2 * 2 ^ 60) in *. change (2 ^ 60) with 1152921504606846976 in *.
  assert (0 <= f * 2305843009213693952) by lia.
  change (2 ^ 64) with 18446744073709551616 in *.
  set (b := 4 ^ (30 - l)) in *.
  rewrite (wrap_u64_small (b - 1)) by (change (2 ^ 64) with 18446744073709551616; lia).
  rewrite (wrap_u64_small (c - (b - 1))) by (change (2 ^ 64) with 18446744073709551616; lia).
  apply wrap_u64_small. change (2 ^ 64) with 18446744073709551616; lia.
Qed.

Lemma RangeMax_rep : forall c f l k, rep c f l k -> s2_CellID_RangeMax c = c + (4 ^ (30 - l) - 1).
Proof.
  intros c f l k H. unfold s2_CellID_RangeMax. rewrite (lsb_rep _ _ _ _ H), (rep_wrap _ _ _ _ H).
  pose proof (rep_bounds _ _ _ _ H) as (H1 & H2 & H3). pose proof (rep_u64 _ _ _ _ H) as Hu.
  pose proof H as (Hf & Hl & _). pose proof (pow4_le_2_60 l Hl) as Hb.
  change (2 ^ 61) with (2 * 2 ^ 60) in *. change (2 ^ 60) with 1152921504606846976 in *.
  assert (0 <= f * 2305843009213693952) by lia.
  change (2 ^ 64) with 18446744073709551616 in *.
  set (b := 4 ^ (30 - l)) in *.
  rewrite (wrap_u64_small (b - 1)) by (change (2 ^ 64) with 18446744073709551616; lia).
  rewrite (wrap_u64_small (c + (b - 1))) by (change (2 ^ 64) with 18446744073709551616; lia).
  apply wrap_u64_small. change (2 ^ 64) with 18446744073709551616; lia.
Qed.

(** ** validity *)
Definition mask_ok (j : Z) : bool :=
  Bool.eqb (Z.land (2 ^ j) 1537228672809129301 =? 0) (negb (Z.even j && (j <=? 60))).
Lemma mask_all : forallb mask_ok (zrange_up 0 64) = true.
Proof. vm_compute. reflexivity. Qed.
Lemma mask_spec : forall j, 0 <= j < 64 ->
  (Z.land (2 ^ j) 1537228672809129301 =? 0) = negb (Z.even j && (j <=? 60)).
Proof.
  intros j Hj. pose proof mask_all as H. rewrite forallb_forall in H.
  specialize (H j (in_zrange_up 0 64 j Hj)). unfold mask_ok in H. apply Bool.eqb_prop in H. exact H.
Qed.

Lemma IsValid_rep : forall c f l k, rep c f l k -> s2_CellID_IsValid c = true.
Proof.
  intros c f l k H. unfold s2_CellID_IsValid. rewrite (Face_rep _ _ _ _ H), (lsb_rep _ _ _ _ H).
  pose proof H as (Hf & Hl & Hk & _).
  rewrite pow4_pow2 by lia. rewrite mask_spec by lia.
  replace (Z.even (2 * (30 - l))) with true by (symmetry; rewrite Z.even_mul; reflexivity).
  apply andb_true_iff. split; [apply Z.ltb_lt; lia|].
  rewrite negb_involutive. apply andb_true_iff. split; [reflexivity|apply Z.leb_le; lia].
Qed.

Lemma lsb_zero : s2_CellID_lsb 0 = 0.
Proof. reflexivity. Qed.

Lemma rep_of_valid : forall c, u64 c -> s2_CellID_IsValid c = true -> exists f l k, rep c f l k.
Proof.
  intros c Hc Hv. unfold s2_CellID_IsValid in Hv. apply andb_true_iff in Hv. destruct Hv as [Hface Hmask].
  apply Z.ltb_lt in Hface. apply negb_true_iff in Hmask. apply Z.eqb_neq in Hmask.
  destruct (Z.eq_dec c 0) as [->|Hc0]; [exfalso; apply Hmask; reflexivity|].
  destruct (odd_pow2_decomp c ltac:(unfold u64 in Hc; lia)) as (m & j & Hm & Hj & E).
  assert (Hj64 : j < 64).
  { destruct (Z_lt_le_dec j 64) as [?|Hge]; [assumption|exfalso].
    assert (2 ^ 64 <= 2 ^ j) by (apply pow2_le; lia).
    assert (1 * 2 ^ j <= (2 * m + 1) * 2 ^ j) by (apply Z.mul_le_mono_nonneg_r; [apply Z.lt_le_incl, pow2_pos|]; lia).
    unfold u64 in Hc. lia. }
  assert (Hlsb : s2_CellID_lsb c = 2 ^ j).
  { unfold s2_CellID_lsb. rewrite (wrap_u64_small c Hc). eapply lsb_u64; [|exact E]. lia. }
  rewrite Hlsb in Hmask.
  pose proof (mask_spec j ltac:(lia)) as Hms.
  destruct (Z.land (2 ^ j) 1537228672809129301 =? 0) eqn:Em; [apply Z.eqb_eq in Em; contradiction|].
  symmetry in Hms. apply negb_false_iff in Hms. apply andb_true_iff in Hms. destruct Hms as [Hev H60].
  apply Z.leb_le in H60. apply Z.even_spec in Hev. destruct Hev as [h Hh].
  set (l := 30 - h). assert (Hl : 0 <= l <= 30) by (unfold l; lia).
  assert (Hb : 2 ^ j = 4 ^ (30 - l)) by (rewrite pow4_pow2 by lia; f_equal; unfold l; lia).
  pose proof (pow4_pos l ltac:(lia)) as HB. pose proof (pow4_pos (30 - l) ltac:(lia)) as Hbp.
  pose proof (pow4_split l Hl) as Hs.
  unfold s2_CellID_Face in Hface. rewrite (wrap_u64_small c Hc) in Hface. rewrite go_shr_div in Hface by lia.
  assert (Ediv : c / 2 ^ 61 = m / 4 ^ l).
  { rewrite E, Hb. change (2 ^ 61) with (2 * 2 ^ 60). rewrite <- Hs.
    replace (2 * (4 ^ l * 4 ^ (30 - l))) with (4 ^ (30 - l) * (2 * 4 ^ l)) by ring.
    rewrite <- Z.div_div by lia. rewrite Z.div_mul by lia.
    rewrite <- Z.div_div by lia. f_equal.
    symmetry. apply (Z.div_unique (2 * m + 1) 2 m 1); [left|]; lia. }
  assert (Hq : 0 <= m / 4 ^ l) by (apply Z.div_pos; lia).
  assert (Hq8 : m / 4 ^ l < 8).
  { rewrite <- Ediv. apply Z.div_lt_upper_bound; [lia|]. unfold u64 in Hc.
    change (2 ^ 61 * 8) with (2 ^ 64). lia. }
  rewrite Ediv in Hface. rewrite wrap_i64_small in Hface by (change (2 ^ 63) with 9223372036854775808; lia).
  exists (m / 4 ^ l), l, (m mod 4 ^ l).
  split; [lia|]. split; [lia|]. split; [apply Z.mod_pos_bound; lia|].
  rewrite E, Hb. change (2 ^ 61) with (2 * 2 ^ 60). rewrite <- Hs.
  rewrite (Z.div_mod m (4 ^ l)) at 1 by lia. ring.
Qed.

(** [valid_char]: IsValid is exactly "face*2^61 + (2k+1)*4^(30-level)" *)
Lemma valid_char : forall c, u64 c ->
  (s2_CellID_IsValid c = true <->
   exists f l k, 0 <= f < 6 /\ 0 <= l <= 30 /\ 0 <= k < 4 ^ l /\ c = f * 2 ^ 61 + (2 * k + 1) * 4 ^ (30 - l)).
Proof.
  intros c Hc. split.
  - intros Hv. destruct (rep_of_valid c Hc Hv) as (f & l & k & H). exists f, l, k. exact H.
  - intros (f & l & k & H). exact (IsValid_rep c f l k H).
Qed.

(** the representation is unique *)
Lemma rep_unique : forall c f l k f' l' k', rep c f l k -> rep c f' l' k' -> f = f' /\ l = l' /\ k = k'.
Proof.
  intros c f l k f' l' k' H H'.
  assert (f = f') by (rewrite <- (Face_rep _ _ _ _ H), <- (Face_rep _ _ _ _ H'); reflexivity).
  assert (l = l') by (rewrite <- (Level_rep _ _ _ _ H), <- (Level_rep _ _ _ _ H'); reflexivity).
  subst f' l'. split; [reflexivity|]. split; [reflexivity|].
  destruct H as (Hf & Hl & Hk & E), H' as (_ & _ & Hk' & E').
  pose proof (pow4_pos (30 - l) ltac:(lia)) as Hb.
  assert ((2 * k + 1) * 4 ^ (30 - l) = (2 * k' + 1) * 4 ^ (30 - l)) by lia.
  apply Z.mul_reg_r in H; lia.
Qed.

Lemma IsLeaf_rep : forall c f l k, rep c f l k -> (s2_CellID_IsLeaf c = true <-> l = 30).
Proof.
  intros c f l k H. unfold s2_CellID_IsLeaf. rewrite (rep_wrap _ _ _ _ H).
  change 1 with (Z.ones 1) at 1. rewrite Z.land_ones by lia. change (2 ^ 1) with 2.
  pose proof H as (Hf & Hl & Hk & E).
  rewrite negb_true_iff, Z.eqb_neq. split.
  - intros Hodd. destruct (Z.eq_dec l 30) as [|Hne]; [assumption|exfalso; apply Hodd].
    rewrite E. replace (30 - l) with ((30 - l - 1) + 1) by lia. rewrite pow4_succ by lia.
    change (2 ^ 61) with (2 * 2 ^ 60).
    replace (f * (2 * 2 ^ 60) + (2 * k + 1) * (4 * 4 ^ (30 - l - 1)))
      with ((f * 2 ^ 60 + (2 * k + 1) * 2 * 4 ^ (30 - l - 1)) * 2) by ring.
    apply Z.mod_mul. lia.
  - intros ->. rewrite E. replace (30 - 30) with 0 by lia. rewrite Z.pow_0_r.
    change (2 ^ 61) with (2 * 2 ^ 60).
    replace (f * (2 * 2 ^ 60) + (2 * k + 1) * 1) with (1 + (f * 2 ^ 60 + k) * 2) by ring.
    rewrite Z.mod_add by lia. discriminate.
Qed.

(** ** Parent *)
Lemma lsbForLevel_eq : forall l, 0 <= l <= 30 -> s2_lsbForLevel l = 4 ^ (30 - l).
Proof.
  intros l Hl. unfold s2_lsbForLevel.
  rewrite (wrap_i64_small (30 - l)) by (change (2 ^ 63) with 9223372036854775808; lia).
  rewrite (wrap_i64_small (2 * (30 - l))) by (change (2 ^ 63) with 9223372036854775808; lia).
  rewrite (wrap_u64_small (2 * (30 - l))) by (change (2 ^ 64) with 18446744073709551616; lia).
  rewrite go_shl_mul by lia. rewrite Z.mul_1_l. rewrite pow4_pow2 by lia.
  apply wrap_u64_small. split; [apply Z.lt_le_incl, pow2_pos; lia|apply pow2_lt; lia].
Qed.

(** closed form of Parent for every uint64 and every level 0..30 *)
Lemma Parent_formula : forall x l, u64 x -> 0 <= l <= 30 ->
  s2_CellID_Parent x l = (2 * (x / 2 ^ (2 * (30 - l) + 1)) + 1) * 4 ^ (30 - l).
Proof.
  intros x l Hx Hl. unfold s2_CellID_Parent. rewrite lsbForLevel_eq by lia.
  rewrite (wrap_u64_small x Hx). rewrite pow4_pow2 by lia.
  set (n := 2 * (30 - l)). assert (Hn : 0 <= n <= 60) by (unfold n; lia).
  rewrite land_wrap_neg_pow2 by (unfold u64 in Hx; lia).
  rewrite lor_mul_pow2 by lia. rewrite Z.div_div by (try apply pow2_pos; lia).
  replace (2 ^ n * 2) with (2 ^ (n + 1)) by (rewrite Z.pow_add_r by lia; reflexivity).
  apply wrap_u64_small.
  assert (Hq0 : 0 <= x / 2 ^ (n + 1)) by (apply Z.div_pos; [unfold u64 in Hx; lia|apply pow2_pos; lia]).
  assert (Hq : x / 2 ^ (n + 1) < 2 ^ (63 - n)).
  { apply Z.div_lt_upper_bound; [apply pow2_pos; lia|]. rewrite <- Z.pow_add_r by lia.
    replace (n + 1 + (63 - n)) with 64 by lia. unfold u64 in Hx. lia. }
  pose proof (pow2_pos n ltac:(lia)) as Hp.
  assert (E64 : 2 ^ 64 = 2 * 2 ^ (63 - n) * 2 ^ n).
  { rewrite <- Z.mul_assoc, <- Z.pow_add_r by lia. replace (63 - n + n) with 63 by lia. reflexivity. }
  split; [apply Z.mul_nonneg_nonneg; lia|].
  rewrite E64.
  assert ((2 * (x / 2 ^ (n + 1)) + 1) * 2 ^ n <= (2 * 2 ^ (63 - n) - 1) * 2 ^ n)
    by (apply Z.mul_le_mono_nonneg_r; lia).
  lia.
Qed.

Lemma Parent_rep : forall c f l k l', rep c f l k -> 0 <= l' <= l ->
  rep (s2_CellID_Parent c l') f l' (k / 4 ^ (l - l')).
Proof.
  intros c f l k l' H Hl'. pose proof H as (Hf & Hl & Hk & E).
  assert (Hu : u64 c) by (unfold u64; pose proof (rep_u64 _ _ _ _ H); change (2 ^ 64) with (8 * 2 ^ 61); lia).
  rewrite Parent_formula by (try assumption; lia).
  set (d := l - l'). assert (Hd : 0 <= d) by (unfold d; lia).
  pose proof (pow4_pos d Hd) as HD. pose proof (pow4_pos l' ltac:(lia)) as HB'.
  assert (Hll : 4 ^ l = 4 ^ l' * 4 ^ d) by (rewrite <- Z.pow_add_r by lia; f_equal; unfold d; lia).
  assert (Ediv : c / 2 ^ (2 * (30 - l') + 1) = f * 4 ^ l' + k / 4 ^ d).
  { rewrite (rep_odd_pow2 _ _ _ _ H).
    replace (2 * (30 - l') + 1) with (2 * (30 - l) + (1 + 2 * d)) by (unfold d; lia).
    rewrite Z.pow_add_r by lia. rewrite Z.mul_comm.
    rewrite <- Z.div_div by (try apply pow2_pos; lia).
    rewrite Z.mul_comm, Z.div_mul by (apply Z.neq_sym, Z.lt_neq, pow2_pos; lia).
    rewrite Z.pow_add_r by lia. change (2 ^ 1) with 2. rewrite <- Z.div_div by (try apply pow2_pos; lia).
    replace ((2 * (f * 4 ^ l + k) + 1) / 2) with (f * 4 ^ l + k)
      by (apply (Z.div_unique (2 * (f * 4 ^ l + k) + 1) 2 _ 1); [left|]; lia).
    rewrite <- pow4_pow2 by lia. rewrite Hll.
    replace (f * (4 ^ l' * 4 ^ d) + k) with (f * 4 ^ l' * 4 ^ d + k) by ring.
    rewrite Z.div_add_l by lia. reflexivity. }
  rewrite Ediv. split; [assumption|]. split; [lia|]. split.
  - split; [apply Z.div_pos; lia|]. apply Z.div_lt_upper_bound; [lia|]. rewrite Z.mul_comm, <- Hll. lia.
  - change (2 ^ 61) with (2 * 2 ^ 60). rewrite <- (pow4_split l') by lia. ring.
Qed.

Lemma Parent_self : forall c f l k, rep c f l k -> s2_CellID_Parent c l = c.
Proof.
  intros c f l k H. pose proof (Parent_rep c f l k l H ltac:(destruct H as (_ & ? & _); lia)) as HP.
  replace (l - l) with 0 in HP by lia. rewrite Z.pow_0_r, Z.div_1_r in HP.
  destruct HP as (_ & _ & _ & E). destruct H as (_ & _ & _ & E'). rewrite E, E'. reflexivity.
Qed.

(** ranges nest: the leaf range of a cell lies inside the leaf range of each ancestor *)
Lemma range_nest : forall c f l k l', rep c f l k -> 0 <= l' <= l ->
  let p := s2_CellID_Parent c l' in
  p - 4 ^ (30 - l') <= c - 4 ^ (30 - l) /\ c + 4 ^ (30 - l) <= p + 4 ^ (30 - l').
Proof.
  intros c f l k l' H Hl' p. pose proof (Parent_rep _ _ _ _ _ H Hl') as HP. fold p in HP.
  destruct H as (Hf & Hl & Hk & E), HP as (_ & _ & Hk' & E').
  set (d := l - l') in *. assert (Hd : 0 <= d) by (unfold d; lia).
  pose proof (pow4_pos d Hd) as HD. pose proof (pow4_pos (30 - l) ltac:(lia)) as Hb.
  assert (Hbb : 4 ^ (30 - l') = 4 ^ d * 4 ^ (30 - l)) by (rewrite <- Z.pow_add_r by lia; f_equal; unfold d; lia).
  pose proof (Z.div_mod k (4 ^ d) ltac:(lia)) as Hdm. pose proof (Z.mod_pos_bound k (4 ^ d) HD) as Hm.
  set (q := k / 4 ^ d) in *. set (r := k mod 4 ^ d) in *.
  rewrite E, E', Hbb. rewrite Hdm.
  assert (0 <= r * 4 ^ (30 - l)) by (apply Z.mul_nonneg_nonneg; lia).
  assert ((r + 1) * 4 ^ (30 - l) <= 4 ^ d * 4 ^ (30 - l)) by (apply Z.mul_le_mono_nonneg_r; lia).
  split; lia.
Qed.

(** ** Contains / Intersects are the interval relations on [RangeMin, RangeMax] *)
Lemma Contains_spec : forall a f l k x, rep a f l k -> u64 x ->
  (s2_CellID_Contains a x = true <-> a - (4 ^ (30 - l) - 1) <= x <= a + (4 ^ (30 - l) - 1)).
Proof.
  intros a f l k x H Hx. unfold s2_CellID_Contains.
  rewrite (RangeMin_rep _ _ _ _ H), (RangeMax_rep _ _ _ _ H), (wrap_u64_small x Hx).
  pose proof (rep_bounds _ _ _ _ H) as (H1 & H2 & H3). pose proof H as (Hf & Hl & _).
  pose proof (pow4_le_2_60 l Hl) as Hb.
  assert (0 <= f * 2 ^ 61) by lia. assert ((f + 1) * 2 ^ 61 <= 6 * 2 ^ 61) by lia.
  rewrite !wrap_u64_small by (change (2 ^ 64) with (8 * 2 ^ 61); change (2 ^ 61) with (2 * 2 ^ 60) in *; lia).
  rewrite andb_true_iff, !Z.leb_le. reflexivity.
Qed.

Lemma Intersects_spec : forall a f l k b f' l' k', rep a f l k -> rep b f' l' k' ->
  (s2_CellID_Intersects a b = true <->
   b - (4 ^ (30 - l') - 1) <= a + (4 ^ (30 - l) - 1) /\ a - (4 ^ (30 - l) - 1) <= b + (4 ^ (30 - l') - 1)).
Proof.
  intros a f l k b f' l' k' H H'. unfold s2_CellID_Intersects.
  rewrite (RangeMin_rep _ _ _ _ H), (RangeMax_rep _ _ _ _ H), (RangeMin_rep _ _ _ _ H'), (RangeMax_rep _ _ _ _ H').
  pose proof (rep_bounds _ _ _ _ H) as (H1 & H2 & H3). pose proof H as (Hf & Hl & _).
  pose proof (rep_bounds _ _ _ _ H') as (H1' & H2' & H3'). pose proof H' as (Hf' & Hl' & _).
  pose proof (pow4_le_2_60 l Hl) as Hb. pose proof (pow4_le_2_60 l' Hl') as Hb'.
  assert (0 <= f * 2 ^ 61) by lia. assert ((f + 1) * 2 ^ 61 <= 6 * 2 ^ 61) by lia.
  assert (0 <= f' * 2 ^ 61) by lia. assert ((f' + 1) * 2 ^ 61 <= 6 * 2 ^ 61) by lia.
  rewrite !wrap_u64_small by (change (2 ^ 64) with (8 * 2 ^ 61); change (2 ^ 61) with (2 * 2 ^ 60) in *; lia).
  rewrite andb_true_iff, !Z.leb_le. reflexivity.
Qed.

Lemma Parent_contains : forall c f l k l', rep c f l k -> 0 <= l' <= l ->
  s2_CellID_Contains (s2_CellID_Parent c l') c = true.
Proof.
  intros c f l k l' H Hl'. pose proof (Parent_rep _ _ _ _ _ H Hl') as HP.
  assert (Hu : u64 c) by (unfold u64; pose proof (rep_u64 _ _ _ _ H); change (2 ^ 64) with (8 * 2 ^ 61); lia).
  apply (Contains_spec _ _ _ _ c HP Hu).
  pose proof (range_nest _ _ _ _ _ H Hl') as (A & B). cbv zeta in A, B.
  pose proof (pow4_pos (30 - l) ltac:(destruct H as (_ & ? & _); lia)). lia.
Qed.

(** ** Children *)
Lemma Children_unfold : forall c,
  s2_CellID_Children c =
  let lsb := wrap_u64 (s2_CellID_lsb c) in
  let c0 := wrap_u64 (wrap_u64 (c - lsb) + go_shr lsb 2) in
  let s := go_shr lsb 1 in
  let c1 := wrap_u64 (c0 + s) in
  let c2 := wrap_u64 (c1 + s) in
  let c3 := wrap_u64 (c2 + s) in
  [c0; c1; c2; c3].
Proof. intros c. reflexivity. Qed.

Definition child (c l q : Z) : Z := c - 4 ^ (30 - l) + 4 ^ (30 - (l + 1)) + q * (2 * 4 ^ (30 - (l + 1))).

Lemma child_rep : forall c f l k q, rep c f l k -> l < 30 -> 0 <= q < 4 ->
  rep (child c l q) f (l + 1) (4 * k + q).
Proof.
  intros c f l k q (Hf & Hl & Hk & E) Hl30 Hq. unfold child.
  assert (Hb : 4 ^ (30 - l) = 4 * 4 ^ (30 - (l + 1))).
  { replace (30 - l) with (30 - (l + 1) + 1) by lia. apply pow4_succ. lia. }
  split; [assumption|]. split; [lia|]. split.
  - rewrite pow4_succ by lia. lia.
  - rewrite E, Hb. ring.
Qed.

Lemma Children_rep : forall c f l k, rep c f l k -> l < 30 ->
  s2_CellID_Children c = [child c l 0; child c l 1; child c l 2; child c l 3].
Proof.
  intros c f l k H Hl30. rewrite Children_unfold. cbv zeta.
  rewrite (lsb_rep _ _ _ _ H).
  pose proof (child_rep c f l k 0 H Hl30 ltac:(lia)) as R0.
  pose proof (child_rep c f l k 1 H Hl30 ltac:(lia)) as R1.
  pose proof (child_rep c f l k 2 H Hl30 ltac:(lia)) as R2.
  pose proof (child_rep c f l k 3 H Hl30 ltac:(lia)) as R3.
  pose proof (rep_wrap _ _ _ _ R0) as W0. pose proof (rep_wrap _ _ _ _ R1) as W1.
  pose proof (rep_wrap _ _ _ _ R2) as W2. pose proof (rep_wrap _ _ _ _ R3) as W3.
  pose proof H as (Hf & Hl & Hk & E).
  assert (Hb : 4 ^ (30 - l) = 4 * 4 ^ (30 - (l + 1))).
  { replace (30 - l) with (30 - (l + 1) + 1) by lia. apply pow4_succ. lia. }
  pose proof (pow4_pos (30 - (l + 1)) ltac:(lia)) as Hb4.
  pose proof (pow4_le_2_60 l Hl) as Hble.
  pose proof (rep_bounds _ _ _ _ H) as (H1 & H2 & H3).
  assert (0 <= f * 2 ^ 61) by lia. assert ((f + 1) * 2 ^ 61 <= 6 * 2 ^ 61) by lia.
  set (b := 4 ^ (30 - l)) in *. set (b4 := 4 ^ (30 - (l + 1))) in *.
  rewrite (wrap_u64_small b) by (change (2 ^ 64) with (16 * 2 ^ 60); lia).
  rewrite !go_shr_div by lia. change (2 ^ 2) with 4. change (2 ^ 1) with 2.
  replace (b / 4) with b4 by (rewrite Hb; symmetry; rewrite Z.mul_comm; apply Z.div_mul; lia).
  replace (b / 2) with (2 * b4) by (rewrite Hb; symmetry; replace (4 * b4) with (2 * b4 * 2) by ring; apply Z.div_mul; lia).
  rewrite (wrap_u64_small (c - b)) by (change (2 ^ 64) with (8 * 2 ^ 61); lia).
  unfold child in *. fold b b4 in W0, W1, W2, W3 |- *.
  replace (c - b + b4 + 0 * (2 * b4)) with (c - b + b4) in * by ring.
  rewrite W0.
  replace (c - b + b4 + 2 * b4) with (c - b + b4 + 1 * (2 * b4)) by ring. rewrite W1.
  replace (c - b + b4 + 1 * (2 * b4) + 2 * b4) with (c - b + b4 + 2 * (2 * b4)) by ring. rewrite W2.
  replace (c - b + b4 + 2 * (2 * b4) + 2 * b4) with (c - b + b4 + 3 * (2 * b4)) by ring. rewrite W3.
  reflexivity.
Qed.

(** [parent_child]: the four children are valid cells one level down whose parent is the cell,
    strictly increasing, and their leaf ranges tile the cell's leaf range in order. *)
Lemma parent_child : forall c f l k, rep c f l k -> l < 30 ->
  exists c0 c1 c2 c3, s2_CellID_Children c = [c0; c1; c2; c3] /\
    rep c0 f (l + 1) (4 * k) /\ rep c1 f (l + 1) (4 * k + 1) /\
    rep c2 f (l + 1) (4 * k + 2) /\ rep c3 f (l + 1) (4 * k + 3) /\
    s2_CellID_Parent c0 l = c /\ s2_CellID_Parent c1 l = c /\
    s2_CellID_Parent c2 l = c /\ s2_CellID_Parent c3 l = c /\
    c0 < c1 < c2 /\ c2 < c3 /\
    s2_CellID_RangeMin c0 = s2_CellID_RangeMin c /\
    s2_CellID_RangeMax c0 + 2 = s2_CellID_RangeMin c1 /\
    s2_CellID_RangeMax c1 + 2 = s2_CellID_RangeMin c2 /\
    s2_CellID_RangeMax c2 + 2 = s2_CellID_RangeMin c3 /\
    s2_CellID_RangeMax c3 = s2_CellID_RangeMax c.
Proof.
  intros c f l k H Hl30.
  exists (child c l 0), (child c l 1), (child c l 2), (child c l 3).
  pose proof (child_rep c f l k 0 H Hl30 ltac:(lia)) as R0.
  pose proof (child_rep c f l k 1 H Hl30 ltac:(lia)) as R1.
  pose proof (child_rep c f l k 2 H Hl30 ltac:(lia)) as R2.
  pose proof (child_rep c f l k 3 H Hl30 ltac:(lia)) as R3.
  replace (4 * k + 0) with (4 * k) in R0 by lia.
  pose proof H as (Hf & Hl & Hk & E).
  assert (Hpar : forall q, 0 <= q < 4 -> s2_CellID_Parent (child c l q) l = c).
  { intros q Hq. pose proof (child_rep c f l k q H Hl30 Hq) as Rq.
    pose proof (Parent_rep _ _ _ _ l Rq ltac:(lia)) as HP.
    replace (l + 1 - l) with 1 in HP by lia. change (4 ^ 1) with 4 in HP.
    replace ((4 * k + q) / 4) with k in HP
      by (apply (Z.div_unique (4 * k + q) 4 k q); [left|]; lia).
    destruct HP as (_ & _ & _ & EP). rewrite EP, E. reflexivity. }
  assert (Hb : 4 ^ (30 - l) = 4 * 4 ^ (30 - (l + 1))).
  { replace (30 - l) with (30 - (l + 1) + 1) by lia. apply pow4_succ. lia. }
  pose proof (pow4_pos (30 - (l + 1)) ltac:(lia)) as Hb4.
  split; [apply (Children_rep _ _ _ _ H Hl30)|].
  split; [exact R0|]. split; [exact R1|]. split; [exact R2|]. split; [exact R3|].
  split; [apply Hpar; lia|]. split; [apply Hpar; lia|]. split; [apply Hpar; lia|]. split; [apply Hpar; lia|].
  rewrite (RangeMin_rep _ _ _ _ R0), (RangeMin_rep _ _ _ _ R1), (RangeMin_rep _ _ _ _ R2), (RangeMin_rep _ _ _ _ R3).
  rewrite (RangeMax_rep _ _ _ _ R0), (RangeMax_rep _ _ _ _ R1), (RangeMax_rep _ _ _ _ R2), (RangeMax_rep _ _ _ _ R3).
  rewrite (RangeMin_rep _ _ _ _ H), (RangeMax_rep _ _ _ _ H).
  unfold child. rewrite Hb. lia.
Qed.

(** ** laminar family: two valid cells intersect iff one contains the other *)
Lemma laminar_le : forall a f l k b f' l' k', rep a f l k -> rep b f' l' k' -> l <= l' ->
  (s2_CellID_Intersects a b = true <-> s2_CellID_Contains a b = true).
Proof.
  intros a f l k b f' l' k' H H' Hll.
  assert (Hub : u64 b) by (unfold u64; pose proof (rep_u64 _ _ _ _ H'); change (2 ^ 64) with (8 * 2 ^ 61); lia).
  rewrite (Intersects_spec _ _ _ _ _ _ _ _ H H'), (Contains_spec _ _ _ _ b H Hub).
  pose proof (rep_odd_pow2 _ _ _ _ H) as Ea. pose proof (rep_odd_pow2 _ _ _ _ H') as Eb.
  pose proof H as (Hf & Hl & Hk & _). pose proof H' as (Hf' & Hl' & Hk' & _).
  rewrite <- pow4_pow2 in Ea, Eb by lia.
  set (d := l' - l). assert (Hd : 0 <= d) by (unfold d; lia).
  assert (Hbb : 4 ^ (30 - l) = 4 ^ d * 4 ^ (30 - l')) by (rewrite <- Z.pow_add_r by lia; f_equal; unfold d; lia).
  pose proof (pow4_pos d Hd) as HD. pose proof (pow4_pos (30 - l') ltac:(lia)) as Hu.
  set (Ma := f * 4 ^ l + k) in *. set (Mb := f' * 4 ^ l' + k') in *.
  set (u := 4 ^ (30 - l')) in *. set (D := 4 ^ d) in *.
  rewrite Hbb, Ea, Eb, Hbb.
  (* a-range = (2*D*Ma*u, 2*D*(Ma+1)*u), b-range = (2*Mb*u, 2*(Mb+1)*u), exclusive *)
  split.
  - intros [A B].
    assert (A' : Mb * u < (D * (Ma + 1)) * u) by lia.
    assert (B' : (D * Ma) * u < (Mb + 1) * u) by lia.
    apply Z.mul_lt_mono_pos_r in A'; [|lia]. apply Z.mul_lt_mono_pos_r in B'; [|lia].
    assert (A'' : (Mb + 1) * u <= (D * (Ma + 1)) * u) by (apply Z.mul_le_mono_nonneg_r; lia).
    assert (B'' : (D * Ma) * u <= Mb * u) by (apply Z.mul_le_mono_nonneg_r; lia).
    lia.
  - intros [A B]. lia.
Qed.

Lemma Intersects_sym : forall a f l k b f' l' k', rep a f l k -> rep b f' l' k' ->
  s2_CellID_Intersects a b = s2_CellID_Intersects b a.
Proof.
  intros a f l k b f' l' k' H H'.
  apply Bool.eq_true_iff_eq.
  rewrite (Intersects_spec _ _ _ _ _ _ _ _ H H'), (Intersects_spec _ _ _ _ _ _ _ _ H' H). tauto.
Qed.

Lemma laminar : forall a f l k b f' l' k', rep a f l k -> rep b f' l' k' ->
  (s2_CellID_Intersects a b = true <-> s2_CellID_Contains a b = true \/ s2_CellID_Contains b a = true).
Proof.
  intros a f l k b f' l' k' H H'.
  assert (Hua : u64 a) by (unfold u64; pose proof (rep_u64 _ _ _ _ H); change (2 ^ 64) with (8 * 2 ^ 61); lia).
  assert (Hub : u64 b) by (unfold u64; pose proof (rep_u64 _ _ _ _ H'); change (2 ^ 64) with (8 * 2 ^ 61); lia).
  destruct (Z_le_gt_dec l l') as [Hle|Hgt].
  - rewrite (laminar_le _ _ _ _ _ _ _ _ H H' Hle). split; [tauto|]. intros [?|Hc]; [assumption|].
    (* b contains a with b deeper or equal: then the ranges intersect, hence a contains b *)
    apply (laminar_le _ _ _ _ _ _ _ _ H H' Hle).
    apply (Intersects_spec _ _ _ _ _ _ _ _ H H').
    apply (Contains_spec _ _ _ _ a H' Hua) in Hc.
    pose proof (pow4_pos (30 - l) ltac:(destruct H as (_ & ? & _); lia)).
    pose proof (pow4_pos (30 - l') ltac:(destruct H' as (_ & ? & _); lia)). lia.
  - rewrite (Intersects_sym _ _ _ _ _ _ _ _ H H').
    rewrite (laminar_le _ _ _ _ _ _ _ _ H' H ltac:(lia)). split; [tauto|]. intros [Hc|?]; [|assumption].
    apply (laminar_le _ _ _ _ _ _ _ _ H' H ltac:(lia)).
    apply (Intersects_spec _ _ _ _ _ _ _ _ H' H).
    apply (Contains_spec _ _ _ _ b H Hub) in Hc.
    pose proof (pow4_pos (30 - l) ltac:(destruct H as (_ & ? & _); lia)).
    pose proof (pow4_pos (30 - l') ltac:(destruct H' as (_ & ? & _); lia)). lia.
Qed.

(** Contains is the ancestor relation *)
Lemma Contains_iff_ancestor : forall a f l k b f' l' k', rep a f l k -> rep b f' l' k' ->
  (s2_CellID_Contains a b = true <-> l <= l' /\ s2_CellID_Parent b l = a).
Proof.
  intros a f l k b f' l' k' H H'.
  assert (Hub : u64 b) by (unfold u64; pose proof (rep_u64 _ _ _ _ H'); change (2 ^ 64) with (8 * 2 ^ 61); lia).
  pose proof H as (Hf & Hl & Hk & Ea). pose proof H' as (Hf' & Hl' & Hk' & Eb).
  pose proof (pow4_pos (30 - l) ltac:(lia)) as Hba. pose proof (pow4_pos (30 - l') ltac:(lia)) as Hbb.
  split.
  - intros Hc. pose proof Hc as Hc0. apply (Contains_spec _ _ _ _ b H Hub) in Hc.
    assert (Hll : l <= l').
    { destruct (Z_le_gt_dec l l') as [?|Hgt]; [assumption|exfalso].
      (* a strictly deeper than b yet a contains b: then b contains a too, impossible by sizes *)
      assert (Hi : s2_CellID_Intersects b a = true).
      { apply (Intersects_spec _ _ _ _ _ _ _ _ H' H). lia. }
      apply (laminar_le _ _ _ _ _ _ _ _ H' H ltac:(lia)) in Hi.
      assert (Hua : u64 a) by (unfold u64; pose proof (rep_u64 _ _ _ _ H); change (2 ^ 64) with (8 * 2 ^ 61); lia).
      apply (Contains_spec _ _ _ _ a H' Hua) in Hi.
      (* a's range inside b's and b inside a's range: with |a-range| < |b-range| *)
      assert (Hlt : 4 ^ (30 - l) < 4 ^ (30 - l')) by (apply Z.pow_lt_mono_r; lia).
      (* b in a-range and a in b-range; use the odd-multiple shapes *)
      pose proof (rep_odd_pow2 _ _ _ _ H) as Oa. pose proof (rep_odd_pow2 _ _ _ _ H') as Ob.
      rewrite <- pow4_pow2 in Oa, Ob by lia.
      set (d := l - l') in *. assert (Hd : 0 < d) by (unfold d; lia).
      assert (Hbb' : 4 ^ (30 - l') = 4 ^ d * 4 ^ (30 - l)) by (rewrite <- Z.pow_add_r by lia; f_equal; unfold d; lia).
      assert (HD : 4 <= 4 ^ d) by (change 4 with (4 ^ 1) at 1; apply Z.pow_le_mono_r; lia).
      set (Ma := f * 4 ^ l + k) in *. set (Mb := f' * 4 ^ l' + k') in *. set (u := 4 ^ (30 - l)) in *.
      rewrite Oa, Ob, Hbb' in Hc. 
      assert (X1 : (2 * Ma) * u < ((2 * Mb + 1) * 4 ^ d) * u) by lia.
      assert (X2 : ((2 * Mb + 1) * 4 ^ d) * u < (2 * Ma + 2) * u) by lia.
      apply Z.mul_lt_mono_pos_r in X1; [|lia]. apply Z.mul_lt_mono_pos_r in X2; [|lia].
      (* (2Mb+1)*4^d is even and strictly between 2Ma and 2Ma+2 *)
      assert (Hev : exists t, 4 ^ d = 2 * t).
      { exists (2 * 4 ^ (d - 1)). replace d with (d - 1 + 1) at 1 by lia. rewrite pow4_succ by lia. ring. }
      destruct Hev as [t Ht]. rewrite Ht in X1, X2. lia. }
    split; [assumption|].
    pose proof (Parent_rep _ _ _ _ l H' ltac:(lia)) as HP.
    pose proof (range_nest _ _ _ _ l H' ltac:(lia)) as (A & B). cbv zeta in A, B.
    set (p := s2_CellID_Parent b l) in *.
    (* p and a are both level-l cells whose ranges contain b: equal *)
    destruct HP as (_ & _ & Hkp & Ep).
    assert (Hfp : f' = f /\ k' / 4 ^ (l' - l) = k).
    { set (kp := k' / 4 ^ (l' - l)) in *.
      change (2 ^ 61) with (2 * 2 ^ 60) in *. rewrite <- (pow4_split l Hl) in *.
      set (B4 := 4 ^ l) in *. set (u := 4 ^ (30 - l)) in *.
      assert (Y1 : (2 * (f * B4 + k)) * u < (2 * (f' * B4 + kp) + 2) * u) by lia.
      assert (Y2 : (2 * (f' * B4 + kp)) * u < (2 * (f * B4 + k) + 2) * u) by lia.
      apply Z.mul_lt_mono_pos_r in Y1; [|lia]. apply Z.mul_lt_mono_pos_r in Y2; [|lia].
      assert (f * B4 + k = f' * B4 + kp) by lia.
      assert (f = f') by nia. subst f'. split; [reflexivity|lia]. }
    destruct Hfp as [-> Hkk]. rewrite Ep, Ea, Hkk. reflexivity.
  - intros [Hll <-]. apply (Parent_contains _ _ _ _ _ H'). lia.
Qed.

(** ** (face, pos, level) round trip *)
Lemma FromFacePosLevel_roundtrip : forall c f l k, rep c f l k ->
  s2_CellIDFromFacePosLevel (s2_CellID_Face c) (s2_CellID_Pos c) (s2_CellID_Level c) = c.
Proof.
  intros c f l k H. rewrite (Face_rep _ _ _ _ H), (Pos_rep _ _ _ _ H), (Level_rep _ _ _ _ H).
  unfold s2_CellIDFromFacePosLevel.
  pose proof H as (Hf & Hl & Hk & E).
  pose proof (rep_u64 _ _ _ _ H) as Hc.
  rewrite (wrap_u64_small f) by (change (2 ^ 64) with 18446744073709551616; lia).
  rewrite go_shl_mul by lia.
  rewrite (wrap_u64_small (f * 2 ^ 61)) by (change (2 ^ 64) with (8 * 2 ^ 61); lia).
  rewrite <- E. rewrite (rep_wrap _ _ _ _ H). rewrite lor_1.
  assert (Hx : u64 (2 * (c / 2) + 1)).
  { unfold u64. pose proof (Z.div_mod c 2 ltac:(lia)). pose proof (Z.mod_pos_bound c 2 ltac:(lia)).
    change (2 ^ 64) with (8 * 2 ^ 61). lia. }
  rewrite (wrap_u64_small _ Hx). rewrite Parent_formula by (try assumption; lia).
  rewrite <- (Parent_self _ _ _ _ H) at 2.
  assert (Hu : u64 c) by (unfold u64; change (2 ^ 64) with (8 * 2 ^ 61); lia).
  rewrite (Parent_formula c l Hu Hl). f_equal. f_equal. f_equal.
  rewrite !Z.pow_add_r by lia. change (2 ^ 1) with 2.
  rewrite !(Z.mul_comm (2 ^ (2 * (30 - l))) 2).
  rewrite <- !Z.div_div by (try apply pow2_pos; lia). f_equal.
  symmetry. apply (Z.div_unique (2 * (c / 2) + 1) 2 (c / 2) 1); [left|]; lia.
Qed.

(** any position inside the cell gives the cell back *)
Lemma FromFacePosLevel_of_rep : forall f l k, 0 <= f < 6 -> 0 <= l <= 30 -> 0 <= k < 4 ^ l ->
  rep (s2_CellIDFromFacePosLevel f ((2 * k + 1) * 4 ^ (30 - l)) l) f l k.
Proof.
  intros f l k Hf Hl Hk.
  assert (H : rep (f * 2 ^ 61 + (2 * k + 1) * 4 ^ (30 - l)) f l k) by (repeat split; lia).
  pose proof (FromFacePosLevel_roundtrip _ _ _ _ H) as R.
  rewrite (Face_rep _ _ _ _ H), (Pos_rep _ _ _ _ H), (Level_rep _ _ _ _ H) in R. rewrite R. exact H.
Qed.

(** ** Next / Prev along the curve *)
Lemma Next_eq : forall c f l k, rep c f l k -> s2_CellID_Next c = c + 2 * 4 ^ (30 - l).
Proof.
  intros c f l k H. unfold s2_CellID_Next. rewrite (lsb_rep _ _ _ _ H), (rep_wrap _ _ _ _ H).
  pose proof H as (Hf & Hl & _). pose proof (pow4_le_2_60 l Hl) as Hb.
  pose proof (pow4_pos (30 - l) ltac:(lia)) as Hbp. pose proof (rep_u64 _ _ _ _ H) as Hc.
  rewrite go_shl_mul by lia. change (2 ^ 1) with 2. set (b := 4 ^ (30 - l)) in *.
  rewrite (wrap_u64_small (b * 2)) by (change (2 ^ 64) with (16 * 2 ^ 60); lia).
  rewrite (wrap_u64_small (c + b * 2)) by (change (2 ^ 64) with (8 * 2 ^ 61); change (2 ^ 61) with (2 * 2 ^ 60) in *; lia).
  rewrite wrap_u64_small by (change (2 ^ 64) with (8 * 2 ^ 61); change (2 ^ 61) with (2 * 2 ^ 60) in *; lia). ring.
Qed.

Lemma Prev_eq : forall c f l k, rep c f l k -> s2_CellID_Prev c = wrap_u64 (c - 2 * 4 ^ (30 - l)).
Proof.
  intros c f l k H. unfold s2_CellID_Prev. rewrite (lsb_rep _ _ _ _ H), (rep_wrap _ _ _ _ H).
  pose proof H as (Hf & Hl & _). pose proof (pow4_le_2_60 l Hl) as Hb.
  pose proof (pow4_pos (30 - l) ltac:(lia)) as Hbp.
  rewrite go_shl_mul by lia. change (2 ^ 1) with 2. set (b := 4 ^ (30 - l)) in *.
  rewrite (wrap_u64_small (b * 2)) by (change (2 ^ 64) with (16 * 2 ^ 60); lia).
  unfold wrap_u64, wrap_u. rewrite Z.mod_mod by lia. f_equal. ring.
Qed.

(** index of a cell among the 6*4^l cells of its level *)
Definition index (f l k : Z) : Z := f * 4 ^ l + k.

Lemma rep_of_index : forall l i, 0 <= l <= 30 -> 0 <= i < 6 * 4 ^ l ->
  rep ((2 * i + 1) * 4 ^ (30 - l)) (i / 4 ^ l) l (i mod 4 ^ l).
Proof.
  intros l i Hl Hi. pose proof (pow4_pos l ltac:(lia)) as HB.
  split; [split; [apply Z.div_pos; lia|apply Z.div_lt_upper_bound; lia]|].
  split; [lia|]. split; [apply Z.mod_pos_bound; lia|].
  change (2 ^ 61) with (2 * 2 ^ 60). rewrite <- (pow4_split l) by lia.
  rewrite (Z.div_mod i (4 ^ l)) at 1 by lia. ring.
Qed.

Lemma rep_index_form : forall c f l k, rep c f l k -> c = (2 * index f l k + 1) * 4 ^ (30 - l).
Proof.
  intros c f l k (Hf & Hl & Hk & ->). unfold index.
  change (2 ^ 61) with (2 * 2 ^ 60). rewrite <- (pow4_split l) by lia. ring.
Qed.

Lemma index_bounds : forall f l k, 0 <= f < 6 -> 0 <= l -> 0 <= k < 4 ^ l -> 0 <= index f l k < 6 * 4 ^ l.
Proof. intros f l k Hf Hl Hk. unfold index. pose proof (pow4_pos l Hl). nia. Qed.

(** Next is "index + 1" while it stays below 6*4^l; NextWrap wraps to index 0 *)
Lemma Next_index : forall c f l k, rep c f l k -> index f l k + 1 < 6 * 4 ^ l ->
  s2_CellID_Next c = (2 * (index f l k + 1) + 1) * 4 ^ (30 - l).
Proof.
  intros c f l k H Hi. rewrite (Next_eq _ _ _ _ H). rewrite (rep_index_form _ _ _ _ H) at 1. ring.
Qed.

Lemma NextWrap_index : forall c f l k, rep c f l k ->
  s2_CellID_NextWrap c = (2 * ((index f l k + 1) mod (6 * 4 ^ l)) + 1) * 4 ^ (30 - l).
Proof.
  intros c f l k H. unfold s2_CellID_NextWrap. cbv zeta. rewrite (Next_eq _ _ _ _ H).
  pose proof H as (Hf & Hl & Hk & _). pose proof (index_bounds f l k Hf ltac:(lia) Hk) as Hi.
  pose proof (pow4_pos l ltac:(lia)) as HB. pose proof (pow4_pos (30 - l) ltac:(lia)) as Hb.
  pose proof (pow4_split l Hl) as Hs.
  rewrite (rep_index_form _ _ _ _ H).
  set (i := index f l k) in *. set (b := 4 ^ (30 - l)) in *. set (B := 4 ^ l) in *.
  change 13835058055282163712 with (6 * 2 * 2 ^ 60). rewrite <- Hs.
  replace ((2 * i + 1) * b + 2 * b) with ((2 * (i + 1) + 1) * b) by ring.
  assert (Hlt64 : (2 * (i + 1) + 1) * b < 2 ^ 64).
  { assert ((2 * (i + 1) + 1) * b <= (2 * (6 * B) + 1) * b) by (apply Z.mul_le_mono_nonneg_r; lia).
    change (2 ^ 64) with (16 * 2 ^ 60). rewrite <- Hs. 
    assert (b <= B * b) by (replace b with (1 * b) at 1 by ring; apply Z.mul_le_mono_nonneg_r; lia). lia. }
  assert (H0 : 0 <= (2 * (i + 1) + 1) * b) by (apply Z.mul_nonneg_nonneg; lia).
  rewrite (wrap_u64_small ((2 * (i + 1) + 1) * b)) by lia.
  destruct (Z_lt_le_dec (i + 1) (6 * B)) as [Hin|Hout].
  - rewrite (Z.mod_small (i + 1)) by lia.
    replace ((2 * (i + 1) + 1) * b <? 6 * 2 * (B * b)) with true; [reflexivity|].
    symmetry. apply Z.ltb_lt.
    assert ((2 * (i + 1) + 1) * b <= (2 * (6 * B) - 1) * b) by (apply Z.mul_le_mono_nonneg_r; lia). lia.
  - assert (Ei : i + 1 = 6 * B) by lia. rewrite Ei. rewrite Z.mod_same by lia.
    replace ((2 * (6 * B) + 1) * b <? 6 * 2 * (B * b)) with false
      by (symmetry; apply Z.ltb_ge; lia).
    replace ((2 * (6 * B) + 1) * b - 6 * 2 * (B * b)) with b by ring.
    assert (Hbb : b <= B * b) by (replace b with (1 * b) at 1 by ring; apply Z.mul_le_mono_nonneg_r; lia).
    rewrite !(wrap_u64_small b) by (change (2 ^ 64) with (16 * 2 ^ 60); rewrite <- Hs; lia).
    ring.
Qed.

Lemma NextWrap_rep : forall c f l k, rep c f l k ->
  let i := (index f l k + 1) mod (6 * 4 ^ l) in
  rep (s2_CellID_NextWrap c) (i / 4 ^ l) l (i mod 4 ^ l).
Proof.
  intros c f l k H i. rewrite (NextWrap_index _ _ _ _ H). fold i.
  pose proof H as (Hf & Hl & Hk & _). pose proof (pow4_pos l ltac:(lia)).
  apply rep_of_index; [lia|]. apply Z.mod_pos_bound. lia.
Qed.

Lemma PrevWrap_index : forall c f l k, rep c f l k ->
  s2_CellID_PrevWrap c = (2 * ((index f l k - 1) mod (6 * 4 ^ l)) + 1) * 4 ^ (30 - l).
Proof.
  intros c f l k H. unfold s2_CellID_PrevWrap. cbv zeta. rewrite (Prev_eq _ _ _ _ H).
  pose proof H as (Hf & Hl & Hk & _). pose proof (index_bounds f l k Hf ltac:(lia) Hk) as Hi.
  pose proof (pow4_pos l ltac:(lia)) as HB. pose proof (pow4_pos (30 - l) ltac:(lia)) as Hb.
  pose proof (pow4_split l Hl) as Hs.
  rewrite (rep_index_form _ _ _ _ H).
  set (i := index f l k) in *. set (b := 4 ^ (30 - l)) in *. set (B := 4 ^ l) in *.
  change 13835058055282163712 with (6 * 2 * 2 ^ 60). rewrite <- Hs.
  replace ((2 * i + 1) * b - 2 * b) with ((2 * (i - 1) + 1) * b) by ring.
  assert (Hbb : b <= B * b) by (replace b with (1 * b) at 1 by ring; apply Z.mul_le_mono_nonneg_r; lia).
  destruct (Z_lt_le_dec 0 i) as [Hpos|Hz].
  - assert (H0 : 0 <= (2 * (i - 1) + 1) * b) by (apply Z.mul_nonneg_nonneg; lia).
    assert (Hlt : (2 * (i - 1) + 1) * b <= (2 * (6 * B) - 3) * b) by (apply Z.mul_le_mono_nonneg_r; lia).
    rewrite (wrap_u64_small ((2 * (i - 1) + 1) * b)) by (change (2 ^ 64) with (16 * 2 ^ 60); rewrite <- Hs; lia).
    rewrite (wrap_u64_small ((2 * (i - 1) + 1) * b)) by (change (2 ^ 64) with (16 * 2 ^ 60); rewrite <- Hs; lia).
    rewrite (Z.mod_small (i - 1)) by lia.
    replace ((2 * (i - 1) + 1) * b <? 6 * 2 * (B * b)) with true; [reflexivity|].
    symmetry. apply Z.ltb_lt. lia.
  - assert (Ei : i = 0) by lia. rewrite Ei. replace ((2 * (0 - 1) + 1) * b) with (- b) by ring.
    assert (Ew : wrap_u64 (- b) = 2 ^ 64 - b).
    { unfold wrap_u64, wrap_u. symmetry. apply (Z.mod_unique (- b) (2 ^ 64) (-1)); [left|ring].
      change (2 ^ 64) with (16 * 2 ^ 60). rewrite <- Hs. lia. }
    rewrite Ew. rewrite (wrap_u64_small (2 ^ 64 - b)) by (change (2 ^ 64) with (16 * 2 ^ 60); rewrite <- Hs; lia).
    replace (2 ^ 64 - b <? 6 * 2 * (B * b)) with false
      by (symmetry; apply Z.ltb_ge; change (2 ^ 64) with (16 * 2 ^ 60); rewrite <- Hs; lia).
    replace ((0 - 1) mod (6 * B)) with (6 * B - 1)
      by (apply (Z.mod_unique (0 - 1) (6 * B) (-1)); [left|]; lia).
    assert (Esum : wrap_u64 (2 ^ 64 - b + 6 * 2 * (B * b)) = 6 * 2 * (B * b) - b).
    { unfold wrap_u64, wrap_u. symmetry. apply (Z.mod_unique _ (2 ^ 64) 1); [left|ring].
      change (2 ^ 64) with (16 * 2 ^ 60). rewrite <- Hs. lia. }
    rewrite Esum. rewrite wrap_u64_small by (change (2 ^ 64) with (16 * 2 ^ 60); rewrite <- Hs; lia). ring.
Qed.

Lemma PrevWrap_NextWrap : forall c f l k, rep c f l k -> s2_CellID_PrevWrap (s2_CellID_NextWrap c) = c.
Proof.
  intros c f l k H. pose proof (NextWrap_rep _ _ _ _ H) as HN. cbv zeta in HN.
  rewrite (PrevWrap_index _ _ _ _ HN). rewrite (rep_index_form _ _ _ _ H) at 1.
  pose proof H as (Hf & Hl & Hk & _). pose proof (index_bounds f l k Hf ltac:(lia) Hk) as Hi.
  pose proof (pow4_pos l ltac:(lia)) as HB.
  set (i := index f l k) in *. set (n := 6 * 4 ^ l) in *.
  unfold index. rewrite (Z.mul_comm (((i + 1) mod n) / 4 ^ l)). rewrite <- Z.div_mod by lia.
  f_equal. f_equal. f_equal.
  rewrite Zminus_mod_idemp_l. replace (i + 1 - 1) with i by ring. apply Z.mod_small. lia.
Qed.
