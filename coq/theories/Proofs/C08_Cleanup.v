(** C08 — the clean-up loop of initQueue (finite distance limit) over the cells of
    CellUnionFromIntersection(indexCovering, FastCovering(search cap)).
    Every entry it hands to processOrEnqueue is sound; in particular, when an initial cell is a
    descendant of an index cell (LocateCellID = Indexed) the entry is THAT INDEX CELL UNDER ITS
    OWN ID with its own contents — not the small initial cell's id (seeded change C08-mut3) —
    and the index cell contains the initial cell. *)
From Coq Require Import ZArith List Bool Lia Sorted.
From Geo Require Import Model.EdgeQuery Proofs.C05_CellFacts Proofs.C08_Post Proofs.C08_Opt Proofs.C08_Heap Proofs.C08_Main
  Proofs.C08_Cells Proofs.C08_Split Proofs.C08_Term Proofs.C08_Cover.
Import ListNotations.
Local Open Scope Z_scope.

Section Cleanup.
  Variable x : index.
  Hypothesis WF : IndexWF x.
  Notation len := (length (x_cells x)).
  Notation rep := C08_Opt.rep.
  Notation good := (centry_good x).

  (** ShapeIndexIterator.LocateCellID *)
  Lemma locate_indexed T pos : valid T -> locate_cell x T = (Indexed, pos) ->
    (pos < len)%nat /\ cid_range_min (it_id x pos) <= T <= cid_range_max (it_id x pos).
  Proof.
    intros (Lt & Vt). pose proof (range_of_valid _ _ Vt) as Rt. unfold locate_cell. set (p := it_seek x (cid_range_min T)).
    destruct (negb (it_done x p) && (it_id x p >=? T) && (cid_range_min (it_id x p) <=? T)) eqn:E1.
    - intros H. injection H as <-. apply andb_prop in E1. destruct E1 as [E1 E3]. apply andb_prop in E1. destruct E1 as [E1 E2].
      apply negb_true_iff in E1. apply Z.geb_le in E2. apply Z.leb_le in E3.
      pose proof (not_done_lt x p E1) as Hp. split; [exact Hp|].
      destruct (id_valid x WF p Hp) as (L & V). pose proof (range_of_valid _ _ V). lia.
    - destruct (negb (it_done x p) && (it_id x p <=? cid_range_max T)); [discriminate|].
      destruct p as [|p'] eqn:Ep; [discriminate|].
      destruct (cid_range_max (it_id x p') >=? T) eqn:E2; [|discriminate].
      intros H. injection H as <-. apply Z.geb_le in E2.
      pose proof (seek_le x (cid_range_min T)) as Sl. fold p in Sl. rewrite Ep in Sl.
      assert (Hp : (p' < len)%nat) by lia. split; [exact Hp|].
      pose proof (seek_before x (cid_range_min T) p') as Sb. fold p in Sb. rewrite Ep in Sb. specialize (Sb ltac:(lia)).
      destruct (id_valid x WF p' Hp) as (L & V). pose proof (range_of_valid _ _ V).
      lia.
  Qed.

  Lemma locate_subdivided T pos : valid T -> locate_cell x T = (Subdivided, pos) ->
    (pos < len)%nat /\ cid_range_min T <= it_id x pos <= cid_range_max T /\ it_id x pos <> T.
  Proof.
    intros (Lt & Vt). pose proof (range_of_valid _ _ Vt) as Rt. unfold locate_cell. set (p := it_seek x (cid_range_min T)).
    destruct (negb (it_done x p) && (it_id x p >=? T) && (cid_range_min (it_id x p) <=? T)) eqn:E1; [discriminate|].
    destruct (negb (it_done x p) && (it_id x p <=? cid_range_max T)) eqn:E2.
    - intros H. injection H as <-. apply andb_prop in E2. destruct E2 as [E2 E3]. apply negb_true_iff in E2. apply Z.leb_le in E3.
      pose proof (not_done_lt x p E2) as Hp. pose proof (seek_at x _ Hp) as Sa. fold p in Sa.
      split; [exact Hp|]. split; [lia|]. intros E. rewrite E2 in E1. cbn in E1. rewrite E in E1.
      assert ((T >=? T) = true) by (apply Z.geb_le; lia). assert ((cid_range_min T <=? T) = true) by (apply Z.leb_le; lia).
      rewrite H, H0 in E1. discriminate.
    - destruct p as [|p']; [discriminate|]. destruct (cid_range_max (it_id x p') >=? T); discriminate.
  Qed.

  (** every entry of the clean-up loop is sound *)
  Theorem cleanup_entries_good cov : (forall ce, In ce cov -> good ce) ->
    forall cells, (forall id, In id cells -> valid id) ->
    forall j skip ce, In ce (cleanup_initial x cells cov j skip) -> good ce.
  Proof.
    intros Gc. induction cells as [|idI rest IH]; intros Vc j skip ce H; [contradiction|].
    cbn [cleanup_initial] in H.
    assert (Vi : valid idI) by (apply Vc; left; reflexivity).
    assert (Vr : forall id, In id rest -> valid id) by (intros id Hid; apply Vc; right; exact Hid).
    assert (Normal : forall ce,
              In ce (let j' := adv_j (length cov) cov j idI in
                     let cj := nth j' cov (cid_sentinel, None) in
                     if idI =? fst cj then cj :: cleanup_initial x rest cov (S j') None
                     else match locate_cell x idI with
                          | (Indexed, pos) => (it_id x pos, Some (it_cell x pos)) :: cleanup_initial x rest cov j' (Some (cid_range_max (it_id x pos)))
                          | (Subdivided, _) => (idI, None) :: cleanup_initial x rest cov j' None
                          | (Disjoint, _) => cleanup_initial x rest cov j' None
                          end) -> good ce).
    { clear H ce. intros ce H. cbn zeta in H. set (j' := adv_j (length cov) cov j idI) in *.
      destruct (idI =? fst (nth j' cov (cid_sentinel, None))) eqn:E.
      - destruct H as [<-|H]; [|eapply IH; eauto]. apply Z.eqb_eq in E.
        destruct (nth_in_or_default cov j' (cid_sentinel, None)) as [Ed|Hin]; [|apply Gc; exact Hin].
        exfalso. rewrite Ed in E. cbn [fst] in E. destruct Vi as (L & V). pose proof (valid_lt_sentinel _ _ V). lia.
      - destruct (locate_cell x idI) as [[| |] pos] eqn:El.
        + destruct H as [<-|H]; [|eapply IH; eauto].
          destruct (locate_indexed idI pos Vi El) as (Hp & _). split.
          * cbn. apply (id_valid x WF pos Hp).
          * split; [|cbn; discriminate]. intros es Hs. cbn in Hs. injection Hs as <-.
            exists (cell_at x pos). split; [apply cell_at_in; exact Hp|]. cbn. rewrite <- it_id_at, it_cell_at. auto.
        + destruct H as [<-|H]; [|eapply IH; eauto].
          destruct (locate_subdivided idI pos Vi El) as (Hp & Hr & Hn). split; [exact Vi|].
          split; [cbn; discriminate|]. intros _. exists (cell_at x pos). split; [apply cell_at_in; exact Hp|].
          right. cbn. rewrite <- it_id_at. split; [reflexivity|]. split; [apply contains_iff; exact Hr|congruence].
        + eapply IH; eauto. }
    destruct skip as [m|]; [|apply Normal; exact H].
    destruct (idI <=? m); [eapply IH; eauto|apply Normal; exact H].
  Qed.

  (** the Indexed branch: the entry is the index cell containing the initial cell, under its own id *)
  Theorem cleanup_indexed_branch idI pos : valid idI -> locate_cell x idI = (Indexed, pos) ->
    let ce := (it_id x pos, Some (it_cell x pos)) in
    In (cell_at x pos) (x_cells x) /\ rep ce (cell_at x pos) /\
    fst ce = fst (cell_at x pos) /\ cid_contains (fst ce) idI = true.
  Proof.
    intros Vi El. destruct (locate_indexed idI pos Vi El) as (Hp & Hr). cbn.
    split; [apply cell_at_in; exact Hp|]. split; [left; cbn; rewrite <- it_id_at, it_cell_at; auto|].
    split; [apply it_id_at|apply contains_iff; exact Hr].
  Qed.

  Lemma cleanup_length cov : forall cells j skip, (length (cleanup_initial x cells cov j skip) <= length cells)%nat.
  Proof.
    induction cells as [|idI rest IH]; intros j skip; cbn [cleanup_initial length]; [lia|].
    assert (N : forall j', (length (let cj := nth j' cov (cid_sentinel, None) in
                     if (idI =? fst cj)%Z then cj :: cleanup_initial x rest cov (S j') None
                     else match locate_cell x idI with
                          | (Indexed, pos) => (it_id x pos, Some (it_cell x pos)) :: cleanup_initial x rest cov j' (Some (cid_range_max (it_id x pos)))
                          | (Subdivided, _) => (idI, None) :: cleanup_initial x rest cov j' None
                          | (Disjoint, _) => cleanup_initial x rest cov j' None
                          end) <= S (length rest))%nat).
    { intros j'. cbn zeta. destruct (idI =? fst (nth j' cov (cid_sentinel, None)))%Z; cbn [length].
      - specialize (IH (S j') None). lia.
      - destruct (locate_cell x idI) as [[| |] pos]; cbn [length].
        + specialize (IH j' (Some (cid_range_max (it_id x pos)))). lia.
        + specialize (IH j' None). lia.
        + specialize (IH j' None). lia. }
    destruct skip as [m|]; [|apply N]. destruct (idI <=? m)%Z; [specialize (IH j (Some m)); lia|apply N].
  Qed.

  (** *** completeness of the clean-up loop *)
  (** an initial cell and an index cell intersect: one's id lies in the other's range *)
  Definition meets (idI : Z) (c : icell) : Prop :=
    cid_range_min idI <= fst c <= cid_range_max idI \/ cid_range_min (fst c) <= idI <= cid_range_max (fst c).

  Lemma idx_unique c c' : In c (x_cells x) -> In c' (x_cells x) ->
    cid_range_min (fst c) <= fst c' <= cid_range_max (fst c) -> c = c'.
  Proof.
    intros Hc Hc' H. destruct (in_cell_at x c Hc) as (i & Hi & <-). destruct (in_cell_at x c' Hc') as (k & Hk & <-).
    rewrite <- !it_id_at in H. rewrite (same_position x WF k i Hk Hi H). reflexivity.
  Qed.

  Lemma two_containing c c' T : In c (x_cells x) -> In c' (x_cells x) ->
    cid_range_min (fst c) <= T <= cid_range_max (fst c) -> cid_range_min (fst c') <= T <= cid_range_max (fst c') -> c = c'.
  Proof.
    intros Hc Hc' H H'. destruct (in_cell_at x c Hc) as (i & Hi & <-). destruct (in_cell_at x c' Hc') as (k & Hk & <-).
    rewrite <- !it_id_at in H, H'.
    destruct (Nat.lt_trichotomy i k) as [L|[->|G]]; [|reflexivity|].
    - pose proof (ranges_ordered x WF i k ltac:(lia)). lia.
    - pose proof (ranges_ordered x WF k i ltac:(lia)). lia.
  Qed.

  Lemma nested_of_in_range a b : valid a -> valid b -> cid_range_min a <= b <= cid_range_max a ->
    cid_range_min a <= cid_range_min b /\ cid_range_max b <= cid_range_max a.
  Proof.
    intros (La & Va) (Lb & Vb) H.
    rewrite (cid_range_min_valid a La Va), (cid_range_max_valid a La Va) in *.
    rewrite (cid_range_min_valid b Lb Vb), (cid_range_max_valid b Lb Vb).
    destruct (id_in_range_nested a La b Lb Va Vb H) as (_ & A & B). lia.
  Qed.

  Lemma cell_valid c : In c (x_cells x) -> valid (fst c).
  Proof. apply (proj1 WF). Qed.
  Lemma valid_in_own_range a : valid a -> cid_range_min a <= a <= cid_range_max a.
  Proof. intros (L & V). apply (range_of_valid _ _ V). Qed.

  (** a sound entry represents every index cell its id meets *)
  Lemma good_represents ce c : good ce -> In c (x_cells x) -> meets (fst ce) c -> rep ce c.
  Proof.
    intros [Vt [Hs Hn]] Hc M. destruct (snd ce) as [es|] eqn:Es.
    - destruct (Hs es eq_refl) as (c1 & Hc1 & E1 & E2). left.
      assert (c1 = c).
      { destruct M as [M|M]; rewrite <- E1 in M; [apply (idx_unique c1 c Hc1 Hc M)|].
        symmetry. apply (idx_unique c c1 Hc Hc1 M). }
      subst c1. split; [symmetry; exact E1|rewrite E2; exact Es].
    - destruct (Hn eq_refl) as (c0 & Hc0 & [[_ R]|(_ & R & N)]); [rewrite Es in R; discriminate|].
      apply contains_iff in R. right. split; [exact Es|].
      destruct M as [M|M].
      + split; [apply contains_iff; exact M|]. intros E. apply N. rewrite E.
        assert (c = c0) by (apply (idx_unique c c0 Hc Hc0); rewrite <- E; exact R). subst c0. reflexivity.
      + exfalso. pose proof (cell_valid c Hc) as Vc. pose proof (cell_valid c0 Hc0) as V0.
        destruct (nested_of_in_range (fst c) (fst ce) Vc Vt M) as [A B].
        assert (c = c0) by (apply (idx_unique c c0 Hc Hc0); lia). subst c0.
        (* T inside c0 and c0's id inside T: equal cells *)
        destruct Vt as (Lt & VT). destruct Vc as (Lc & VC).
        rewrite (cid_range_min_valid _ _ VT), (cid_range_max_valid _ _ VT) in R.
        rewrite (cid_range_min_valid _ _ VC), (cid_range_max_valid _ _ VC) in M.
        destruct (id_in_range_nested _ Lt _ Lc VT VC R) as (L1 & A1 & B1).
        destruct (id_in_range_nested _ Lc _ Lt VC VT M) as (L2 & A2 & B2).
        assert (Lt = Lc) by lia. subst Lc. apply N. lia.
  Qed.

  Lemma indexed_unique idI pos c : valid idI -> locate_cell x idI = (Indexed, pos) ->
    In c (x_cells x) -> meets idI c -> c = cell_at x pos.
  Proof.
    intros Vi El Hc M. destruct (locate_indexed idI pos Vi El) as (Hp & Hr).
    pose proof (cell_at_in x pos Hp) as Hcp. rewrite it_id_at in Hr. symmetry.
    destruct M as [M|M].
    - apply (idx_unique _ _ Hcp Hc).
      destruct (nested_of_in_range _ idI (cell_valid _ Hcp) Vi Hr) as [A B]. lia.
    - apply (two_containing _ _ idI Hcp Hc Hr M).
  Qed.

  Lemma locate_disjoint idI pos c : valid idI -> locate_cell x idI = (Disjoint, pos) ->
    In c (x_cells x) -> ~ meets idI c.
  Proof.
    intros Vi El Hc M. pose proof (valid_in_own_range idI Vi) as Ri.
    destruct (in_cell_at x c Hc) as (k & Hk & <-). unfold meets in M. rewrite <- it_id_at in M.
    destruct (id_valid x WF k Hk) as (Lk & Vk). pose proof (range_of_valid _ _ Vk) as Rk.
    unfold locate_cell in El.
    pose proof (seek_le x (cid_range_min idI)) as Sl.
    pose proof (seek_before x (cid_range_min idI)) as Sb.
    pose proof (seek_at x (cid_range_min idI)) as Sa.
    remember (it_seek x (cid_range_min idI)) as p eqn:Hp0.
    destruct (negb (it_done x p) && (it_id x p >=? idI) && (cid_range_min (it_id x p) <=? idI)) eqn:E1; [discriminate|].
    destruct (negb (it_done x p) && (it_id x p <=? cid_range_max idI)) eqn:E2; [discriminate|].
    destruct (Nat.lt_ge_cases k p) as [Lt|Ge].
    - (* the cell lies before the seek position: it must contain idI and be the predecessor *)
      pose proof (Sb k Lt) as Sbk.
      destruct p as [|p']; [lia|].
      destruct (cid_range_max (it_id x p') >=? idI) eqn:E3; [discriminate|]. rewrite Z.geb_leb in E3. apply Z.leb_gt in E3.
      destruct M as [M|M]; [lia|].
      destruct (Nat.eq_dec k p') as [->|N]; [lia|].
      pose proof (ranges_ordered x WF k p' ltac:(lia)). pose proof (Sb p' ltac:(lia)) as Sb'.
      destruct (id_valid x WF p' ltac:(lia)) as (Lp & Vp). pose proof (range_of_valid _ _ Vp). lia.
    - assert (Hp : (p < length (x_cells x))%nat) by lia.
      specialize (Sa Hp). rewrite (lt_not_done x WF p Hp) in E1, E2. cbn [negb andb] in E1, E2.
      apply Z.leb_gt in E2.
      pose proof (ids_monotone x WF p k Ge Hk) as Mo.
      destruct M as [M|M]; [lia|].
      destruct (Nat.eq_dec p k) as [->|N].
      + apply andb_false_iff in E1. destruct E1 as [E1|E1]; [rewrite Z.geb_leb in E1|]; apply Z.leb_gt in E1; lia.
      + pose proof (ranges_ordered x WF p k ltac:(lia)).
        destruct (id_valid x WF p Hp) as (Lp & Vp). pose proof (range_of_valid _ _ Vp). lia.
  Qed.

  (** the loop: every index cell met by an initial cell is represented by an emitted entry *)
  Theorem cleanup_represents cov : (forall ce, In ce cov -> good ce) ->
    forall cells, (forall id, In id cells -> valid id) -> StronglySorted Z.lt cells ->
    forall j skip,
    (forall m, skip = Some m -> exists C, In C (x_cells x) /\ m = cid_range_max (fst C) /\
       forall id, In id cells -> cid_range_min (fst C) <= id) ->
    forall idI c, In idI cells -> In c (x_cells x) -> meets idI c ->
    (exists ce, In ce (cleanup_initial x cells cov j skip) /\ rep ce c) \/
    (exists m, skip = Some m /\ m = cid_range_max (fst c) /\ cid_range_min (fst c) <= idI <= cid_range_max (fst c)).
  Proof.
    intros Gc. induction cells as [|id0 rest IH]; intros Vc Sc j skip Hsk idI c Hin Hc M; [contradiction|].
    assert (V0 : valid id0) by (apply Vc; left; reflexivity).
    assert (Vr : forall id, In id rest -> valid id) by (intros id Hid; apply Vc; right; exact Hid).
    inversion Sc as [|? ? Sr Fr]; subst. rewrite Forall_forall in Fr.
    cbn [cleanup_initial].
    (* normal processing of id0, continuing with the rest *)
    assert (Normal :
      (exists ce, In ce (let j' := adv_j (length cov) cov j id0 in
                     let cj := nth j' cov (cid_sentinel, None) in
                     if id0 =? fst cj then cj :: cleanup_initial x rest cov (S j') None
                     else match locate_cell x id0 with
                          | (Indexed, pos) => (it_id x pos, Some (it_cell x pos)) :: cleanup_initial x rest cov j' (Some (cid_range_max (it_id x pos)))
                          | (Subdivided, _) => (id0, None) :: cleanup_initial x rest cov j' None
                          | (Disjoint, _) => cleanup_initial x rest cov j' None
                          end) /\ rep ce c)).
    { cbn zeta. set (j' := adv_j (length cov) cov j id0).
      destruct (id0 =? fst (nth j' cov (cid_sentinel, None))) eqn:E.
      - apply Z.eqb_eq in E.
        destruct Hin as [<-|Hin].
        + destruct (nth_in_or_default cov j' (cid_sentinel, None)) as [Ed|Hcov].
          * exfalso. rewrite Ed in E. cbn [fst] in E. destruct V0 as (L & V). pose proof (valid_lt_sentinel _ _ V). lia.
          * exists (nth j' cov (cid_sentinel, None)). split; [left; reflexivity|].
            apply good_represents; [apply Gc; exact Hcov|exact Hc|rewrite <- E; exact M].
        + destruct (IH Vr Sr (S j') None ltac:(discriminate) idI c Hin Hc M) as [(ce & H1 & H2)|(m & H & _)]; [|discriminate].
          exists ce. split; [right; exact H1|exact H2].
      - destruct (locate_cell x id0) as [[| |] pos] eqn:El.
        + destruct (locate_indexed id0 pos V0 El) as (Hp & Hr).
          set (C := cell_at x pos).
          assert (HC : In C (x_cells x)) by (apply cell_at_in; exact Hp).
          assert (RC : rep (it_id x pos, Some (it_cell x pos)) C) by (left; unfold C; cbn [fst snd]; rewrite <- it_id_at, it_cell_at; auto).
          destruct Hin as [<-|Hin].
          * exists (it_id x pos, Some (it_cell x pos)). split; [left; reflexivity|].
            rewrite (indexed_unique id0 pos c V0 El Hc M). exact RC.
          * assert (Hskip : forall m, Some (cid_range_max (it_id x pos)) = Some m -> exists C0, In C0 (x_cells x) /\ m = cid_range_max (fst C0) /\
                      forall id, In id rest -> cid_range_min (fst C0) <= id).
            { intros m Em. injection Em as <-. exists (cell_at x pos). rewrite <- it_id_at.
              split; [exact HC|split; [reflexivity|]]. intros id Hid. pose proof (Fr id Hid). lia. }
            destruct (IH Vr Sr j' (Some (cid_range_max (it_id x pos))) Hskip idI c Hin Hc M) as [(ce & H1 & H2)|(m & Em & Ec & Rc)].
            -- exists ce. split; [right; exact H1|exact H2].
            -- injection Em as <-. exists (it_id x pos, Some (it_cell x pos)). split; [left; reflexivity|].
               assert (c = C).
               { apply (two_containing c C idI Hc HC Rc). unfold C. rewrite <- it_id_at.
                 pose proof (Fr idI Hin). lia. }
               subst c. exact RC.
        + destruct Hin as [<-|Hin].
          * exists (id0, None). split; [left; reflexivity|].
            apply good_represents; [|exact Hc|exact M].
            apply (cleanup_entries_good cov Gc [id0] ltac:(intros id [<-|[]]; exact V0) j None).
            cbn [cleanup_initial]. cbn zeta. fold j'. rewrite E, El. left. reflexivity.
          * destruct (IH Vr Sr j' None ltac:(discriminate) idI c Hin Hc M) as [(ce & H1 & H2)|(m & H & _)]; [|discriminate].
            exists ce. split; [right; exact H1|exact H2].
        + destruct Hin as [<-|Hin]; [exfalso; exact (locate_disjoint id0 pos c V0 El Hc M)|].
          destruct (IH Vr Sr j' None ltac:(discriminate) idI c Hin Hc M) as [(ce & H1 & H2)|(m & H & _)]; [|discriminate].
          exists ce. split; [exact H1|exact H2]. }
    destruct skip as [m|]; [|left; exact Normal].
    destruct (id0 <=? m) eqn:Em; [|left; exact Normal].
    apply Z.leb_le in Em.
    destruct (Hsk m eq_refl) as (C & HC & EC & LC).
    destruct Hin as [<-|Hin].
    - (* id0 is skipped: it lies inside the index cell C that was enqueued *)
      right. exists m. split; [reflexivity|].
      assert (RI : cid_range_min (fst C) <= id0 <= cid_range_max (fst C)) by (split; [apply LC; left; reflexivity|lia]).
      assert (c = C).
      { destruct M as [M|M]; [|apply (two_containing c C id0 Hc HC M RI)].
        symmetry. apply (idx_unique C c HC Hc).
        destruct (nested_of_in_range (fst C) id0 (cell_valid C HC) V0 RI) as [A B]. lia. }
      subst c. split; [exact EC|exact RI].
    - destruct (IH Vr Sr j (Some m) ltac:(intros m' E'; injection E' as <-; exists C; split; [exact HC|split; [exact EC|intros id Hid; apply LC; right; exact Hid]]) idI c Hin Hc M) as [H|H].
      + left. exact H.
      + right. exact H.
  Qed.

  Corollary cleanup_represents_top cov : (forall ce, In ce cov -> good ce) ->
    forall cells, (forall id, In id cells -> valid id) -> StronglySorted Z.lt cells ->
    forall j idI c, In idI cells -> In c (x_cells x) -> meets idI c ->
    exists ce, In ce (cleanup_initial x cells cov j None) /\ rep ce c.
  Proof.
    intros G cells V S j idI c Hi Hc M.
    destruct (cleanup_represents cov G cells V S j None ltac:(discriminate) idI c Hi Hc M) as [H|(m & H & _)];
      [exact H|discriminate].
  Qed.
End Cleanup.
