(** C08 — the clean-up loop of initQueue (finite distance limit) over the cells of
    CellUnionFromIntersection(indexCovering, FastCovering(search cap)).
    Every entry it hands to processOrEnqueue is sound; in particular, when an initial cell is a
    descendant of an index cell (LocateCellID = Indexed) the entry is THAT INDEX CELL UNDER ITS
    OWN ID with its own contents — not the small initial cell's id (seeded change C08-mut3) —
    and the index cell contains the initial cell. *)
From Coq Require Import ZArith List Bool Lia Sorted.
From Geo Require Import Model.EdgeQuery Proofs.C05_CellFacts Proofs.C08_Post Proofs.C08_Opt Proofs.C08_Heap Proofs.C08_Main
  Proofs.C08_Cells Proofs.C08_Split Proofs.C08_Term Proofs.C08_Cover.
Import ListNotations.
Local Open Scope Z_scope.

Section Cleanup.
  Variable x : index.
  Hypothesis WF : IndexWF x.
  Notation len := (length (x_cells x)).
  Notation rep := C08_Opt.rep.
  Notation good := (centry_good x).

  (** ShapeIndexIterator.LocateCellID *)
  Lemma locate_indexed T pos : valid T -> locate_cell x T = (Indexed, pos) ->
    (pos < len)%nat /\ cid_range_min (it_id x pos) <= T <= cid_range_max (it_id x pos).
  Proof.
    intros (Lt & Vt). pose proof (range_of_valid _ _ Vt) as Rt. unfold locate_cell. set (p := it_seek x (cid_range_min T)).
    destruct (negb (it_done x p) && (it_id x p >=? T) && (cid_range_min (it_id x p) <=? T)) eqn:E1.
    - intros H. injection H as <-. apply andb_prop in E1. destruct E1 as [E1 E3]. apply andb_prop in E1. destruct E1 as [E1 E2].
      apply negb_true_iff in E1. apply Z.geb_le in E2. apply Z.leb_le in E3.
      pose proof (not_done_lt x p E1) as Hp. split; [exact Hp|].
      destruct (id_valid x WF p Hp) as (L & V). pose proof (range_of_valid _ _ V). lia.
    - destruct (negb (it_done x p) && (it_id x p <=? cid_range_max T)); [discriminate|].
      destruct p as [|p'] eqn:Ep; [discriminate|].
      destruct (cid_range_max (it_id x p') >=? T) eqn:E2; [|discriminate].
      intros H. injection H as <-. apply Z.geb_le in E2.
      pose proof (seek_le x (cid_range_min T)) as Sl. fold p in Sl. rewrite Ep in Sl.
      assert (Hp : (p' < len)%nat) by lia. split; [exact Hp|].
      pose proof (seek_before x (cid_range_min T) p') as Sb. fold p in Sb. rewrite Ep in Sb. specialize (Sb ltac:(lia)).
      destruct (id_valid x WF p' Hp) as (L & V). pose proof (range_of_valid _ _ V).
      lia.
  Qed.

  Lemma locate_subdivided T pos : valid T -> locate_cell x T = (Subdivided, pos) ->
    (pos < len)%nat /\ cid_range_min T <= it_id x pos <= cid_range_max T /\ it_id x pos <> T.
  Proof.
    intros (Lt & Vt). pose proof (range_of_valid _ _ Vt) as Rt. unfold locate_cell. set (p := it_seek x (cid_range_min T)).
    destruct (negb (it_done x p) && (it_id x p >=? T) && (cid_range_min (it_id x p) <=? T)) eqn:E1; [discriminate|].
    destruct (negb (it_done x p) && (it_id x p <=? cid_range_max T)) eqn:E2.
    - intros H. injection H as <-. apply andb_prop in E2. destruct E2 as [E2 E3]. apply negb_true_iff in E2. apply Z.leb_le in E3.
      pose proof (not_done_lt x p E2) as Hp. pose proof (seek_at x _ Hp) as Sa. fold p in Sa.
      split; [exact Hp|]. split; [lia|]. intros E. rewrite E2 in E1. cbn in E1. rewrite E in E1.
      assert ((T >=? T) = true) by (apply Z.geb_le; lia). assert ((cid_range_min T <=? T) = true) by (apply Z.leb_le; lia).
      rewrite H, H0 in E1. discriminate.
    - destruct p as [|p']; [discriminate|]. destruct (cid_range_max (it_id x p') >=? T); discriminate.
  Qed.

  (** every entry of the clean-up loop is sound *)
  Theorem cleanup_entries_good cov : (forall ce, In ce cov -> good ce) ->
    forall cells, (forall id, In id cells -> valid id) ->
    forall j skip ce, In ce (cleanup_initial x cells cov j skip) -> good ce.
  Proof.
    intros Gc. induction cells as [|idI rest IH]; intros Vc j skip ce H; [contradiction|].
    cbn [cleanup_initial] in H.
    assert (Vi : valid idI) by (apply Vc; left; reflexivity).
    assert (Vr : forall id, In id rest -> valid id) by (intros id Hid; apply Vc; right; exact Hid).
    assert (Normal : forall ce,
              In ce (let j' := adv_j (length cov) cov j idI in
                     let cj := nth j' cov (cid_sentinel, None) in
                     if idI =? fst cj then cj :: cleanup_initial x rest cov (S j') None
                     else match locate_cell x idI with
                          | (Indexed, pos) => (it_id x pos, Some (it_cell x pos)) :: cleanup_initial x rest cov j' (Some (cid_range_max (it_id x pos)))
                          | (Subdivided, _) => (idI, None) :: cleanup_initial x rest cov j' None
                          | (Disjoint, _) => cleanup_initial x rest cov j' None
                          end) -> good ce).
    { clear H ce. intros ce H. cbn zeta in H. set (j' := adv_j (length cov) cov j idI) in *.
      destruct (idI =? fst (nth j' cov (cid_sentinel, None))) eqn:E.
      - destruct H as [<-|H]; [|eapply IH; eauto]. apply Z.eqb_eq in E.
        destruct (nth_in_or_default cov j' (cid_sentinel, None)) as [Ed|Hin]; [|apply Gc; exact Hin].
        exfalso. rewrite Ed in E. cbn [fst] in E. destruct Vi as (L & V). pose proof (valid_lt_sentinel _ _ V). lia.
      - destruct (locate_cell x idI) as [[| |] pos] eqn:El.
        + destruct H as [<-|H]; [|eapply IH; eauto].
          destruct (locate_indexed idI pos Vi El) as (Hp & _). split.
          * cbn. apply (id_valid x WF pos Hp).
          * split; [|cbn; discriminate]. intros es Hs. cbn in Hs. injection Hs as <-.
            exists (cell_at x pos). split; [apply cell_at_in; exact Hp|]. cbn. rewrite <- it_id_at, it_cell_at. auto.
        + destruct H as [<-|H]; [|eapply IH; eauto].
          destruct (locate_subdivided idI pos Vi El) as (Hp & Hr & Hn). split; [exact Vi|].
          split; [cbn; discriminate|]. intros _. exists (cell_at x pos). split; [apply cell_at_in; exact Hp|].
          right. cbn. rewrite <- it_id_at. split; [reflexivity|]. split; [apply contains_iff; exact Hr|congruence].
        + eapply IH; eauto. }
    destruct skip as [m|]; [|apply Normal; exact H].
    destruct (idI <=? m); [eapply IH; eauto|apply Normal; exact H].
  Qed.

  (** the Indexed branch: the entry is the index cell containing the initial cell, under its own id *)
  Theorem cleanup_indexed_branch idI pos : valid idI -> locate_cell x idI = (Indexed, pos) ->
    let ce := (it_id x pos, Some (it_cell x pos)) in
    In (cell_at x pos) (x_cells x) /\ rep ce (cell_at x pos) /\
    fst ce = fst (cell_at x pos) /\ cid_contains (fst ce) idI = true.
  Proof.
    intros Vi El. destruct (locate_indexed idI pos Vi El) as (Hp & Hr). cbn.
    split; [apply cell_at_in; exact Hp|]. split; [left; cbn; rewrite <- it_id_at, it_cell_at; auto|].
    split; [apply it_id_at|apply contains_iff; exact Hr].
  Qed.

  Lemma cleanup_length cov : forall cells j skip, (length (cleanup_initial x cells cov j skip) <= length cells)%nat.
  Proof.
    induction cells as [|idI rest IH]; intros j skip; cbn [cleanup_initial length]; [lia|].
    assert (N : forall j', (length (let cj := nth j' cov (cid_sentinel, None) in
                     if (idI =? fst cj)%Z then cj :: cleanup_initial x rest cov (S j') None
                     else match locate_cell x idI with
                          | (Indexed, pos) => (it_id x pos, Some (it_cell x pos)) :: cleanup_initial x rest cov j' (Some (cid_range_max (it_id x pos)))
                          | (Subdivided, _) => (idI, None) :: cleanup_initial x rest cov j' None
                          | (Disjoint, _) => cleanup_initial x rest cov j' None
                          end) <= S (length rest))%nat).
    { intros j'. cbn zeta. destruct (idI =? fst (nth j' cov (cid_sentinel, None)))%Z; cbn [length].
      - specialize (IH (S j') None). lia.
      - destruct (locate_cell x idI) as [[| |] pos]; cbn [length].
        + specialize (IH j' (Some (cid_range_max (it_id x pos)))). lia.
        + specialize (IH j' None). lia.
        + specialize (IH j' None). lia. }
    destruct skip as [m|]; [|apply N]. destruct (idI <=? m)%Z; [specialize (IH j (Some m)); lia|apply N].
  Qed.
End Cleanup.
