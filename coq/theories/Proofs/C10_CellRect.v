(** C10: Cell.RectBound (translated: Gen/CellRect.v), level-0 branch.  The result is the face's
    tabulated rectangle padded by exactly dblEpsilon in LATITUDE and 0 in longitude; in
    particular every face cell's latitude interval strictly contains the tabulated one
    (e.g. +-fl(pi/4) for the four equatorial faces).  The padding is consumed from the generated
    code: swapping or changing the margins breaks these proofs. *)
From Coq Require Import ZArith List Bool Floats.
From Geo Require Import Base.GoPrim Gen.CellRect.
Import ListNotations.
Local Open Scope bool_scope.

Definition PI_4 : float := (0x1.921fb54442d18p-01)%float.
Definition THREE_PI_4 : float := (0x1.2d97c7f3321d2p+01)%float.
Definition PI_2 : float := (0x1.921fb54442d18p+00)%float.

(** the unpadded table of s2/cell.go *)
Definition face_bound_unpadded (face : Z) : s2_Rect :=
  if (face =? 0)%Z then mk_s2_Rect (mk_r1_Interval (PrimFloat.opp PI_4) PI_4) (mk_s1_Interval (PrimFloat.opp PI_4) PI_4)
  else if (face =? 1)%Z then mk_s2_Rect (mk_r1_Interval (PrimFloat.opp PI_4) PI_4) (mk_s1_Interval PI_4 THREE_PI_4)
  else if (face =? 2)%Z then mk_s2_Rect (mk_r1_Interval s2_poleMinLat PI_2) s1_FullInterval
  else if (face =? 3)%Z then mk_s2_Rect (mk_r1_Interval (PrimFloat.opp PI_4) PI_4) (mk_s1_Interval THREE_PI_4 (PrimFloat.opp THREE_PI_4))
  else if (face =? 4)%Z then mk_s2_Rect (mk_r1_Interval (PrimFloat.opp PI_4) PI_4) (mk_s1_Interval (PrimFloat.opp THREE_PI_4) (PrimFloat.opp PI_4))
  else mk_s2_Rect (mk_r1_Interval (PrimFloat.opp PI_2) (PrimFloat.opp s2_poleMinLat)) s1_FullInterval.

Definition DBL_EPSILON : float := (0x1p-52)%float.

(** shape: padded by (dblEpsilon, 0) *)
Lemma cell_rect_bound_level0_shape c : (0 <? s2_Cell_level c)%Z = false ->
  s2_Cell_RectBound c =
  s2_Rect_expanded (face_bound_unpadded (s2_Cell_face c)) (mk_s2_LatLng DBL_EPSILON 0%float).
Proof.
  intros L. unfold s2_Cell_RectBound. rewrite L. cbv zeta. unfold face_bound_unpadded.
  repeat match goal with |- context [(?a =? ?b)%Z] => destruct (a =? b)%Z end; reflexivity.
Qed.

(** consequence, by computation for the six faces: the latitude interval is the tabulated one
    widened by exactly one dblEpsilon on both sides (clamped at the poles), the longitude
    interval is the tabulated one. *)
Definition face_cell (f : Z) : s2_Cell :=
  mk_s2_Cell f 0 0 0 (mk_r2_Rect (mk_r1_Interval (-1) 1) (mk_r1_Interval (-1) 1)).

Definition lat_padded_ok (f : Z) : bool :=
  let u := face_bound_unpadded f in
  let r := s2_Cell_RectBound (face_cell f) in
  let lo := PrimFloat.sub (r1_Interval_Lo (s2_Rect_Lat u)) DBL_EPSILON in
  let hi := PrimFloat.add (r1_Interval_Hi (s2_Rect_Lat u)) DBL_EPSILON in
  fbiteq (r1_Interval_Lo (s2_Rect_Lat r)) (go_fmax lo (PrimFloat.opp PI_2)) &&
  fbiteq (r1_Interval_Hi (s2_Rect_Lat r)) (go_fmin hi PI_2) &&
  (PrimFloat.ltb (r1_Interval_Lo (s2_Rect_Lat r)) (r1_Interval_Lo (s2_Rect_Lat u)) || PrimFloat.eqb (r1_Interval_Lo (s2_Rect_Lat u)) (PrimFloat.opp PI_2)) &&
  (PrimFloat.ltb (r1_Interval_Hi (s2_Rect_Lat u)) (r1_Interval_Hi (s2_Rect_Lat r)) || PrimFloat.eqb (r1_Interval_Hi (s2_Rect_Lat u)) PI_2) &&
  s1_Interval_eqbits (s2_Rect_Lng r) (s2_Rect_Lng u).

Theorem face_cells_latitude_padded : forallb lat_padded_ok [0; 1; 2; 3; 4; 5]%Z = true.
Proof. vm_compute. reflexivity. Qed.
