(** C11 — union, difference and intersection of cell unions against the leaf sets. *)
From Coq Require Import ZArith List Bool Lia ZifyBool Sorted Permutation.
From Geo Require Import Base.GoPrim Gen.CellID Model.CellUnion Proofs.C11_Bits Proofs.C11_Cells
  Proofs.C11_Normalize Proofs.C11_Unique Proofs.C11_Search.
Import ListNotations.
Local Open Scope Z_scope.

(** * Union *)
Lemma cov_concat cus x : cov (concat cus) x <-> exists cu, In cu cus /\ cov cu x.
Proof.
  induction cus as [|cu cus IH]; cbn.
  - split; [intros H; destruct (cov_nil x H)|intros (? & [] & _)].
  - rewrite cov_app, IH. split.
    + intros [H|(cu' & Hin & H)]; [exists cu; auto|exists cu'; auto].
    + intros (cu' & [<-|Hin] & H); [left; exact H|right; exists cu'; auto].
Qed.

Lemma Forall_concat' (P : Z -> Prop) cus : Forall (Forall P) cus -> Forall P (concat cus).
Proof.
  induction 1; cbn; [constructor|]. apply Forall_app. split; assumption.
Qed.

Theorem union_spec cus : Forall (Forall valid) cus ->
  normal (cu_FromUnion cus) /\
  forall x, leaf x -> (cov (cu_FromUnion cus) x <-> exists cu, In cu cus /\ cov cu x).
Proof.
  intros V. unfold cu_FromUnion. destruct (normalize_spec (concat cus) (Forall_concat' _ _ V)) as [N C].
  split; [exact N|]. intros x Lx. rewrite (C x Lx). apply cov_concat.
Qed.

(** * Difference *)
Lemma cov_flat_map (f : Z -> list Z) l x : cov (flat_map f l) x <-> exists a, In a l /\ cov (f a) x.
Proof.
  induction l as [|a l IH]; cbn.
  - split; [intros H; destruct (cov_nil x H)|intros (? & [] & _)].
  - rewrite cov_app, IH. split.
    + intros [H|(a' & Hin & H)]; [exists a; auto|exists a'; auto].
    + intros (a' & [<-|Hin] & H); [left; exact H|right; exists a'; auto].
Qed.

(** pieces of a sorted sequence of disjoint regions, each piece sorted inside its region *)
Lemma SS_flat_map (f : Z -> list Z) : forall l,
  StronglySorted before l -> Forall valid l ->
  (forall a, In a l -> StronglySorted before (f a) /\ Forall (fun c => valid c /\ nested_in c a) (f a)) ->
  StronglySorted before (flat_map f l) /\ Forall (fun c => valid c /\ exists a, In a l /\ nested_in c a) (flat_map f l).
Proof.
  induction l as [|a l IH]; intros S V H; cbn; [split; constructor|].
  inversion S as [|? ? S' F]; subst. inversion V as [|? ? Va V']; subst.
  destruct (IH S' V' ltac:(intros; apply H; right; assumption)) as [IS IF].
  destruct (H a ltac:(left; reflexivity)) as [HS HF].
  rewrite Forall_forall in F, IF, HF. split.
  - apply SS_app; [exact HS|exact IS|].
    intros c d Hc Hd. destruct (HF c Hc) as [Vc Nc]. destruct (IF d Hd) as [Vd (a' & Ha' & Nd)].
    specialize (F a' Ha'). unfold before, nested_in in *. lia.
  - apply Forall_app. split; rewrite Forall_forall.
    + intros c Hc. destruct (HF c Hc) as [Vc Nc]. split; [exact Vc|]. exists a. split; [left; reflexivity|exact Nc].
    + intros c Hc. destruct (IF c Hc) as [Vc (a' & Ha' & Nc)]. split; [exact Vc|]. exists a'. split; [right; exact Ha'|exact Nc].
Qed.

Lemma diff_internal_spec y : sorted_cu y -> forall (fuel : nat) id s, cellform id s -> s < Z.of_nat fuel ->
  let D := diff_internal fuel id y in
  StronglySorted before D /\ Forall (fun c => valid c /\ nested_in c id) D /\
  (forall x, leaf x -> (cov D x <-> covers id x /\ ~ cov y x)) /\
  (forall k, In k D -> k = id \/ exists t, leaf t /\ covers (s2_CellID_immediateParent k) t /\ cov y t).
Proof.
  intros Hy. induction fuel as [|fuel IH]; intros id s H Hs; [destruct H; lia|].
  pose proof (cellform_valid _ _ H) as Vid. cbn [diff_internal]. cbv zeta.
  destruct (cu_IntersectsCellID y id) eqn:EI; cbn [negb].
  - destruct (cu_ContainsCellID y id) eqn:EC; cbn [negb].
    + (* covered *)
      split; [constructor|]. split; [constructor|]. split; [|intros ? []]. intros x Lx.
      apply (contains_cellid_nested y id Hy Vid) in EC. destruct EC as (c & Hin & Nn).
      split; [intros Hc; destruct (cov_nil x Hc)|]. intros [Hx Hn]. exfalso. apply Hn. exists c. split; [exact Hin|].
      unfold covers, nested_in in *. lia.
    + (* split *)
      assert (NL : ~ leaf id).
      { intros L. apply (intersects_cellid_ranges y id Hy Vid) in EI. destruct EI as (c & Hin & H1 & H2).
        destruct (leaf_cell id Vid L) as [E1 E2]. rewrite E1, E2 in *.
        assert (cu_ContainsCellID y id = true); [|congruence].
        apply (contains_cellid_nested y id Hy Vid). exists c. split; [exact Hin|].
        destruct Hy as [Vy _]. rewrite Forall_forall in Vy.
        apply contains_nested; [auto|exact Vid|]. apply contains_spec; [auto|apply valid_u64; exact Vid|lia]. }
      assert (Hpos : 0 < s).
      { destruct (Z_lt_le_dec 0 s); [assumption|]. exfalso. apply NL. apply (leaf_cellform_0 _ _ H). destruct H; lia. }
      destruct (children_spec id Vid NL) as (a & b & c & d & E & T & _ & Hab & Hbc & Hcd).
      pose proof (children_cellform id s H Hpos) as CF. rewrite E in *.
      assert (Hk : forall k, In k [a; b; c; d] ->
                let D := diff_internal fuel k y in
                StronglySorted before D /\ Forall (fun c => valid c /\ nested_in c k) D /\
                (forall x, leaf x -> (cov D x <-> covers k x /\ ~ cov y x)) /\
                (forall k', In k' D -> k' = k \/ exists t, leaf t /\ covers (s2_CellID_immediateParent k') t /\ cov y t)).
      { intros k Hin. apply (IH k (s - 1)); [apply CF; exact Hin|lia]. }
      assert (Sabcd : StronglySorted before [a; b; c; d]).
      { destruct T. pose proof (valid_le _ t4_a). pose proof (valid_le _ t4_b). pose proof (valid_le _ t4_c). pose proof (valid_le _ t4_d).
        unfold before. repeat constructor; lia. }
      assert (Vabcd : Forall valid [a; b; c; d]).
      { destruct T. constructor; [assumption|]. constructor; [assumption|]. constructor; [assumption|]. constructor; [assumption|constructor]. }
      destruct (SS_flat_map (fun child => diff_internal fuel child y) [a; b; c; d] Sabcd Vabcd) as [FS FF].
      { intros k Hin. destruct (Hk k Hin) as (K1 & K2 & _). split; assumption. }
      split; [exact FS|]. split; [|split].
      * rewrite Forall_forall in *. intros c' Hc'. destruct (FF c' Hc') as [Vc' (k & Hin & Nk)]. split; [exact Vc'|].
        destruct (tiles4_child id a b c d k Vid T Hin) as (_ & Nkid & _). unfold nested_in in *. lia.
      * intros x Lx. rewrite cov_flat_map. rewrite (tiles4_cov _ _ _ _ _ x T Lx). split.
        -- intros (k & Hin & Hc). apply (proj1 (proj2 (proj2 (Hk k Hin))) x Lx) in Hc. destruct Hc as [Hc Hn]. split; [|exact Hn].
           destruct Hin as [<-|[<-|[<-|[<-|[]]]]]; tauto.
        -- intros [[Hc|[Hc|[Hc|Hc]]] Hn].
           ++ exists a. split; [cbn; tauto|]. apply (proj1 (proj2 (proj2 (Hk a ltac:(cbn; tauto)))) x Lx). tauto.
           ++ exists b. split; [cbn; tauto|]. apply (proj1 (proj2 (proj2 (Hk b ltac:(cbn; tauto)))) x Lx). tauto.
           ++ exists c. split; [cbn; tauto|]. apply (proj1 (proj2 (proj2 (Hk c ltac:(cbn; tauto)))) x Lx). tauto.
           ++ exists d. split; [cbn; tauto|]. apply (proj1 (proj2 (proj2 (Hk d ltac:(cbn; tauto)))) x Lx). tauto.
      * intros k' Hk'. right. apply in_flat_map in Hk'. destruct Hk' as (k & Hin & Hk').
        destruct (proj2 (proj2 (proj2 (Hk k Hin))) k' Hk') as [->|M]; [|exact M].
        destruct (tiles4_child id a b c d k Vid T Hin) as (_ & _ & _ & _ & Pk). rewrite Pk.
        apply (intersects_cellid_spec y id Hy Vid). exact EI.
  - (* disjoint *)
    split; [repeat constructor|]. split; [constructor; [split; [exact Vid|unfold nested_in; lia]|constructor]|].
    split; [|intros k [<-|[]]; left; reflexivity].
    intros x Lx. rewrite cov_cons. pose proof (cov_nil x).
    split.
    + intros [Hc|Hc]; [|tauto]. split; [exact Hc|]. intros Hy'.
      assert (cu_IntersectsCellID y id = true); [|congruence].
      apply (intersects_cellid_spec y id Hy Vid). exists x. tauto.
    + tauto.
Qed.

Lemma difference_spec_full x y : sorted_cu x -> sorted_cu y ->
  sorted_cu (cu_FromDifference x y) /\
  (forall t, leaf t -> (cov (cu_FromDifference x y) t <-> cov x t /\ ~ cov y t)) /\
  (forall k, In k (cu_FromDifference x y) -> In k x \/ exists t, leaf t /\ covers (s2_CellID_immediateParent k) t /\ cov y t).
Proof.
  intros [Vx Sx] Hy. unfold cu_FromDifference.
  assert (Hk : forall xid, In xid x ->
            let D := diff_internal 32 xid y in
            StronglySorted before D /\ Forall (fun c => valid c /\ nested_in c xid) D /\
            (forall t, leaf t -> (cov D t <-> covers xid t /\ ~ cov y t)) /\
            (forall k, In k D -> k = xid \/ exists t, leaf t /\ covers (s2_CellID_immediateParent k) t /\ cov y t)).
  { intros xid Hin. rewrite Forall_forall in Vx. destruct (valid_cellform _ (Vx xid Hin)) as [s H].
    apply (diff_internal_spec y Hy 32 xid s H). destruct H; lia. }
  destruct (SS_flat_map (fun xid => diff_internal 32 xid y) x Sx Vx) as [FS FF].
  { intros k Hin. destruct (Hk k Hin) as (K1 & K2 & _). split; assumption. }
  split; [|split].
  - split; [|exact FS]. eapply Forall_impl; [|exact FF]. cbn. tauto.
  - intros t Lt. rewrite cov_flat_map. split.
    + intros (xid & Hin & Hc). apply (proj1 (proj2 (proj2 (Hk xid Hin))) t Lt) in Hc. split; [exists xid; tauto|tauto].
    + intros [(xid & Hin & Hc) Hn]. exists xid. split; [exact Hin|]. apply (proj1 (proj2 (proj2 (Hk xid Hin))) t Lt). tauto.
  - intros k Hk'. apply in_flat_map in Hk'. destruct Hk' as (xid & Hin & Hk').
    destruct (proj2 (proj2 (proj2 (Hk xid Hin))) k Hk') as [->|M]; [left; exact Hin|right; exact M].
Qed.

Theorem difference_spec x y : sorted_cu x -> sorted_cu y ->
  sorted_cu (cu_FromDifference x y) /\
  forall t, leaf t -> (cov (cu_FromDifference x y) t <-> cov x t /\ ~ cov y t).
Proof.
  intros Hx Hy. destruct (difference_spec_full x y Hx Hy) as (H1 & H2 & _). split; assumption.
Qed.

(** the Go comment "there should not be any cells that can be merged (provided that both
    inputs were normalized)": the difference of a normalized x is normalized *)
Theorem difference_normal x y : normal x -> sorted_cu y -> normal (cu_FromDifference x y).
Proof.
  intros Nx Hy. destruct (difference_spec_full x y (normal_sorted_cu x Nx) Hy) as ((V & S) & C & O).
  split; [exact V|]. split; [exact S|].
  intros l1 a b c d l2 E. destruct (s2_areSiblings a b c d) eqn:Sib; [exfalso|reflexivity].
  set (R := cu_FromDifference x y) in *.
  assert (Ha : In a R) by (rewrite E; apply in_or_app; right; cbn; tauto).
  assert (Hb : In b R) by (rewrite E; apply in_or_app; right; cbn; tauto).
  assert (Hc : In c R) by (rewrite E; apply in_or_app; right; cbn; tauto).
  assert (Hd : In d R) by (rewrite E; apply in_or_app; right; cbn; tauto).
  rewrite Forall_forall in V.
  pose proof (V a Ha) as Va. pose proof (V b Hb) as Vb. pose proof (V c Hc) as Vc. pose proof (V d Hd) as Vd.
  assert (Hlt : a < b /\ b < c /\ c < d).
  { rewrite E in S. apply SS_suffix in S.
    inversion S as [|? ? S1 F1]; subst. inversion S1 as [|? ? S2 F2]; subst. inversion S2 as [|? ? _ F3]; subst.
    inversion F1 as [|? ? Bab _]; subst. inversion F2 as [|? ? Bbc _]; subst. inversion F3 as [|? ? Bcd _]; subst.
    unfold before in *.
    pose proof (valid_range _ Va) as (_ & Ra & _). pose proof (valid_range _ Vb) as (_ & Rb & _).
    pose proof (valid_range _ Vc) as (_ & Rc & _). pose proof (valid_range _ Vd) as (_ & Rd & _). lia. }
  destruct (siblings_tiles a b c d Va Vb Vc Vd ltac:(lia) ltac:(lia) ltac:(lia) Sib) as [T4 Vp].
  set (p := s2_CellID_immediateParent d) in *.
  (* y cannot meet the parent: each of the four children is output, hence free of y *)
  assert (Free : forall t, leaf t -> covers p t -> ~ cov y t).
  { intros t Lt Hp Hy'. apply (tiles4_cov _ _ _ _ _ t T4 Lt) in Hp.
    assert (forall k, In k R -> covers k t -> False).
    { intros k Hk Hkt. assert (cov R t) by (exists k; auto). apply (C t Lt) in H. tauto. }
    destruct Hp as [Hp|[Hp|[Hp|Hp]]]; eauto. }
  assert (Top : forall k, In k R -> s2_CellID_immediateParent k = p -> In k x).
  { intros k Hk Pk. destruct (O k Hk) as [Hin|(t & Lt & Hp & Hy')]; [exact Hin|]. rewrite Pk in Hp. exfalso. exact (Free t Lt Hp Hy'). }
  destruct Nx as (Vx & Sx & NSx).
  destruct (tiles_consecutive x p a b c d Sx Vx T4) as (k1 & k2 & Ex);
    try (apply Top; [assumption|destruct T4; assumption]).
  rewrite (NSx k1 a b c d k2 Ex) in Sib. discriminate.
Qed.

(** * Intersection *)
Lemma sorted_cu_suffix l1 l2 : sorted_cu (l1 ++ l2) -> sorted_cu l2.
Proof.
  intros [V S]. split; [apply Forall_app in V; tauto|eapply SS_suffix; exact S].
Qed.

Lemma sorted_cu_tail a l : sorted_cu (a :: l) -> sorted_cu l.
Proof. apply (sorted_cu_suffix [a] l). Qed.

(** a cell whose id lies below RangeMin xi is entirely before xi or contains it *)
Lemma below_dichotomy d xi : valid d -> valid xi -> d < rmin xi -> rmax d < rmin xi \/ nested_in xi d.
Proof.
  intros Vd Vx Hlt. pose proof (valid_range _ Vd) as (_ & Rd & _). pose proof (valid_range _ Vx) as (_ & Rx & _).
  destruct (laminar d xi Vd Vx) as [N|[N|[N|N]]]; unfold nested_in in *; [lia|right; exact N|left; exact N|lia].
Qed.

Lemma before_disjoint xi xs d t : sorted_cu (xi :: xs) -> rmax d < rmin xi -> covers d t -> ~ cov (xi :: xs) t.
Proof.
  intros [V S] Hlt Hd (c & Hin & Hc). inversion S as [|? ? _ F]; subst. inversion V as [|? ? Vx Vxs]; subst.
  rewrite Forall_forall in F, Vxs. pose proof (valid_le _ Vx). unfold covers in *.
  destruct Hin as [<-|Hin]; [lia|]. specialize (F c Hin). unfold before in F. lia.
Qed.

Lemma skip_scan_spec lim : forall l prev, sorted_cu (prev :: l) ->
  exists dr, prev :: l = dr ++ fst (skip_scan lim prev l) :: snd (skip_scan lim prev l) /\
    (forall d, In d dr -> rmax d < lim) /\
    ((dr = [] /\ fst (skip_scan lim prev l) = prev) \/ (dr <> [] /\ fst (skip_scan lim prev l) < lim)).
Proof.
  induction l as [|h t IH]; intros prev Hs; cbn [skip_scan].
  - exists []. cbn. split; [reflexivity|]. split; [intros ? []|left; auto].
  - destruct (Z.leb_spec lim h) as [Hle|Hlt].
    + exists []. cbn. split; [reflexivity|]. split; [intros ? []|left; auto].
    + destruct (IH h (sorted_cu_tail _ _ Hs)) as (dr & E & Hd & Hp).
      exists (prev :: dr). split; [cbn; f_equal; exact E|]. split.
      * intros d [<-|Hin]; [|auto]. destruct Hs as [V S]. inversion S as [|? ? _ F]; subst. inversion V as [|? ? _ V']; subst.
        inversion F as [|? ? B _]; subst. inversion V' as [|? ? Vh _]; subst. unfold before in B.
        pose proof (valid_range _ Vh). lia.
      * right. split; [discriminate|]. destruct Hp as [[_ ->]|[_ Hp]]; lia.
Qed.

Lemma skip_to_spec xi xs yj ys : sorted_cu (xi :: xs) -> sorted_cu (yj :: ys) ->
  rmin yj < rmin xi -> rmax yj < xi ->
  let Y' := skip_to xi (rmin xi) yj ys in
  sorted_cu Y' /\ (length Y' < length (yj :: ys))%nat /\
  forall t, (cov (xi :: xs) t /\ cov (yj :: ys) t <-> cov (xi :: xs) t /\ cov Y' t).
Proof.
  intros HX HY Hmin Hmax. cbv zeta. unfold skip_to.
  destruct (skip_scan_spec (rmin xi) ys yj HY) as (dr & E & Hdr & Hp).
  destruct (skip_scan (rmin xi) yj ys) as [p' l']. cbn [fst snd] in *.
  assert (Vx : valid xi) by (destruct HX as [V _]; inversion V; assumption).
  assert (Vy : valid yj) by (destruct HY as [V _]; inversion V; assumption).
  pose proof (valid_range _ Vx) as (_ & Rx & _). pose proof (valid_range _ Vy) as (_ & Ry & _).
  assert (Byj : rmax yj < rmin xi).
  { destruct (laminar yj xi Vy Vx) as [N|[N|[N|N]]]; unfold nested_in in *; lia. }
  assert (Vp : valid p').
  { destruct HY as [V _]. rewrite E in V. apply Forall_app in V. destruct V as [_ V]. inversion V; assumption. }
  assert (Dp : rmax p' < rmin xi \/ nested_in xi p').
  { destruct Hp as [[_ ->]|[_ Hp]]; [left; exact Byj|apply below_dichotomy; assumption]. }
  assert (Sp : sorted_cu (p' :: l')) by (apply (sorted_cu_suffix dr); rewrite <- E; exact HY).
  assert (Hdrop : forall t, cov (xi :: xs) t -> ~ cov dr t).
  { intros t Hc (d & Hin & Hd). eapply (before_disjoint xi xs d t HX); [apply Hdr; exact Hin|exact Hd|exact Hc]. }
  assert (Elen : length (yj :: ys) = (length dr + S (length l'))%nat).
  { rewrite E, app_length. reflexivity. }
  destruct (Z.leb_spec xi (rmax p')) as [Hput|Hnot].
  - (* put the previous cell back *)
    assert (dr <> []).
    { destruct Hp as [[_ ->]|[Hne _]]; [lia|exact Hne]. }
    split; [exact Sp|]. split.
    + destruct dr; [congruence|]. cbn in *. lia.
    + intros t. rewrite E, cov_app. specialize (Hdrop t). tauto.
  - assert (Bp : rmax p' < rmin xi).
    { destruct Dp as [B|N]; [exact B|]. unfold nested_in in N. lia. }
    split; [apply (sorted_cu_tail p'); exact Sp|]. split.
    + cbn in *. lia.
    + intros t. rewrite E, cov_app, (cov_cons p'). specialize (Hdrop t).
      pose proof (before_disjoint xi xs p' t HX Bp). tauto.
Qed.

Lemma id_in_range_nested c o : valid c -> valid o -> rmin c <= o <= rmax c -> nested_in o c.
Proof.
  intros Vc Vo H. apply contains_nested; [assumption|assumption|].
  apply contains_spec; [assumption|apply valid_u64; assumption|exact H].
Qed.

Lemma same_min_nested a b : valid a -> valid b -> rmin a = rmin b -> a <= b -> nested_in a b.
Proof.
  intros Va Vb E Hle. pose proof (cell_center _ Va). pose proof (cell_center _ Vb).
  unfold nested_in. lia.
Qed.

Lemma isect_loop_spec : forall (fuel : nat) X Y, sorted_cu X -> sorted_cu Y ->
  (length X + length Y <= fuel)%nat ->
  let R := isect_loop fuel X Y in
  Forall valid R /\ forall t, (cov R t <-> cov X t /\ cov Y t).
Proof.
  induction fuel as [|fuel IH]; intros X Y HX HY Hlen; cbn [isect_loop]; cbv zeta.
  - split; [constructor|]. intros t. destruct X; [|cbn in Hlen; lia].
    pose proof (cov_nil t). tauto.
  - destruct X as [|xi xs]; [split; [constructor|]; intros t; pose proof (cov_nil t); tauto|].
    destruct Y as [|yj ys]; [split; [constructor|]; intros t; pose proof (cov_nil t); tauto|].
    assert (Vx : valid xi) by (destruct HX as [V _]; inversion V; assumption).
    assert (Vy : valid yj) by (destruct HY as [V _]; inversion V; assumption).
    pose proof (valid_range _ Vx) as (_ & Rx & _). pose proof (valid_range _ Vy) as (_ & Ry & _).
    (* the two ways of emitting a cell *)
    assert (EmitL : nested_in xi yj ->
              Forall valid (xi :: isect_loop fuel xs (yj :: ys)) /\
              forall t, (cov (xi :: isect_loop fuel xs (yj :: ys)) t <-> cov (xi :: xs) t /\ cov (yj :: ys) t)).
    { intros N. destruct (IH xs (yj :: ys) (sorted_cu_tail _ _ HX) HY ltac:(cbn in *; lia)) as [V C].
      split; [constructor; assumption|]. intros t. rewrite !(cov_cons xi), (C t), (cov_cons yj).
      unfold covers, nested_in in *. split; [|tauto]. intros [H|H]; [|tauto]. split; [tauto|]. left. lia. }
    assert (EmitR : nested_in yj xi ->
              Forall valid (yj :: isect_loop fuel (xi :: xs) ys) /\
              forall t, (cov (yj :: isect_loop fuel (xi :: xs) ys) t <-> cov (xi :: xs) t /\ cov (yj :: ys) t)).
    { intros N. destruct (IH (xi :: xs) ys HX (sorted_cu_tail _ _ HY) ltac:(cbn in *; lia)) as [V C].
      split; [constructor; assumption|]. intros t. rewrite !(cov_cons yj), (C t), (cov_cons xi).
      unfold covers, nested_in in *. split; [|tauto]. intros [H|H]; [|tauto]. split; [|tauto]. left. lia. }
    destruct (Z.ltb_spec (rmin yj) (rmin xi)) as [Hji|Hji].
    + destruct (Z.leb_spec xi (rmax yj)) as [Hin|Hout].
      * apply EmitL. apply id_in_range_nested; [assumption|assumption|lia].
      * destruct (skip_to_spec xi xs yj ys HX HY Hji Hout) as (S' & L' & C').
        destruct (IH (xi :: xs) _ HX S' ltac:(cbn in *; lia)) as [V C].
        split; [exact V|]. intros t. rewrite (C t). symmetry. apply C'.
    + destruct (Z.ltb_spec (rmin xi) (rmin yj)) as [Hij|Hij].
      * destruct (Z.leb_spec yj (rmax xi)) as [Hin|Hout].
        -- apply EmitR. apply id_in_range_nested; [assumption|assumption|lia].
        -- destruct (skip_to_spec yj ys xi xs HY HX Hij Hout) as (S' & L' & C').
           destruct (IH _ (yj :: ys) S' HY ltac:(cbn in *; lia)) as [V C].
           split; [exact V|]. intros t. rewrite (C t). specialize (C' t). tauto.
      * assert (E : rmin xi = rmin yj) by lia.
        destruct (Z.ltb_spec xi yj).
        -- apply EmitL. apply same_min_nested; try assumption. lia.
        -- apply EmitR. apply same_min_nested; try assumption. lia.
Qed.

Theorem intersection_spec x y : sorted_cu x -> sorted_cu y ->
  normal (cu_FromIntersection x y) /\
  forall t, leaf t -> (cov (cu_FromIntersection x y) t <-> cov x t /\ cov y t).
Proof.
  intros Hx Hy. unfold cu_FromIntersection, cu_isect_raw.
  destruct (isect_loop_spec (length x + length y) x y Hx Hy (le_n _)) as [V C].
  destruct (normalize_spec _ V) as [N CN]. split; [exact N|].
  intros t Lt. rewrite (CN t Lt). apply C.
Qed.
