(** C11 — union, difference and intersection of cell unions against the leaf sets. *)
From Coq Require Import ZArith List Bool Lia ZifyBool Sorted Permutation.
From Geo Require Import Base.GoPrim Gen.CellID Model.CellUnion Proofs.C11_Bits Proofs.C11_Cells
  Proofs.C11_Normalize Proofs.C11_Unique Proofs.C11_Search.
Import ListNotations.
Local Open Scope Z_scope.

(** * Union *)
Lemma cov_concat cus x : cov (concat cus) x <-> exists cu, In cu cus /\ cov cu x.
Proof.
  induction cus as [|cu cus IH]; cbn.
  - split; [intros H; destruct (cov_nil x H)|intros (? & [] & _)].
  - rewrite cov_app, IH. split.
    + intros [H|(cu' & Hin & H)]; [exists cu; auto|exists cu'; auto].
    + intros (cu' & [<-|Hin] & H); [left; exact H|right; exists cu'; auto].
Qed.

Lemma Forall_concat' (P : Z -> Prop) cus : Forall (Forall P) cus -> Forall P (concat cus).
Proof.
  induction 1; cbn; [constructor|]. apply Forall_app. split; assumption.
Qed.

Theorem union_spec cus : Forall (Forall valid) cus ->
  normal (cu_FromUnion cus) /\
  forall x, leaf x -> (cov (cu_FromUnion cus) x <-> exists cu, In cu cus /\ cov cu x).
Proof.
  intros V. unfold cu_FromUnion. destruct (normalize_spec (concat cus) (Forall_concat' _ _ V)) as [N C].
  split; [exact N|]. intros x Lx. rewrite (C x Lx). apply cov_concat.
Qed.

(** * Difference *)
Lemma cov_flat_map (f : Z -> list Z) l x : cov (flat_map f l) x <-> exists a, In a l /\ cov (f a) x.
Proof.
  induction l as [|a l IH]; cbn.
  - split; [intros H; destruct (cov_nil x H)|intros (? & [] & _)].
  - rewrite cov_app, IH. split.
    + intros [H|(a' & Hin & H)]; [exists a; auto|exists a'; auto].
    + intros (a' & [<-|Hin] & H); [left; exact H|right; exists a'; auto].
Qed.

(** pieces of a sorted sequence of disjoint regions, each piece sorted inside its region *)
Lemma SS_flat_map (f : Z -> list Z) : forall l,
  StronglySorted before l -> Forall valid l ->
  (forall a, In a l -> StronglySorted before (f a) /\ Forall (fun c => valid c /\ nested_in c a) (f a)) ->
  StronglySorted before (flat_map f l) /\ Forall (fun c => valid c /\ exists a, In a l /\ nested_in c a) (flat_map f l).
Proof.
  induction l as [|a l IH]; intros S V H; cbn; [split; constructor|].
  inversion S as [|? ? S' F]; subst. inversion V as [|? ? Va V']; subst.
  destruct (IH S' V' ltac:(intros; apply H; right; assumption)) as [IS IF].
  destruct (H a ltac:(left; reflexivity)) as [HS HF].
  rewrite Forall_forall in F, IF, HF. split.
  - apply SS_app; [exact HS|exact IS|].
    intros c d Hc Hd. destruct (HF c Hc) as [Vc Nc]. destruct (IF d Hd) as [Vd (a' & Ha' & Nd)].
    specialize (F a' Ha'). unfold before, nested_in in *. lia.
  - apply Forall_app. split; rewrite Forall_forall.
    + intros c Hc. destruct (HF c Hc) as [Vc Nc]. split; [exact Vc|]. exists a. split; [left; reflexivity|exact Nc].
    + intros c Hc. destruct (IF c Hc) as [Vc (a' & Ha' & Nc)]. split; [exact Vc|]. exists a'. split; [right; exact Ha'|exact Nc].
Qed.

Lemma diff_internal_spec y : sorted_cu y -> forall (fuel : nat) id s, cellform id s -> s < Z.of_nat fuel ->
  let D := diff_internal fuel id y in
  StronglySorted before D /\ Forall (fun c => valid c /\ nested_in c id) D /\
  (forall x, leaf x -> (cov D x <-> covers id x /\ ~ cov y x)).
Proof.
  intros Hy. induction fuel as [|fuel IH]; intros id s H Hs; [destruct H; lia|].
  pose proof (cellform_valid _ _ H) as Vid. cbn [diff_internal]. cbv zeta.
  destruct (cu_IntersectsCellID y id) eqn:EI; cbn [negb].
  - destruct (cu_ContainsCellID y id) eqn:EC; cbn [negb].
    + (* covered *)
      split; [constructor|]. split; [constructor|]. intros x Lx.
      apply (contains_cellid_nested y id Hy Vid) in EC. destruct EC as (c & Hin & Nn).
      split; [intros Hc; destruct (cov_nil x Hc)|]. intros [Hx Hn]. exfalso. apply Hn. exists c. split; [exact Hin|].
      unfold covers, nested_in in *. lia.
    + (* split *)
      assert (NL : ~ leaf id).
      { intros L. apply (intersects_cellid_ranges y id Hy Vid) in EI. destruct EI as (c & Hin & H1 & H2).
        destruct (leaf_cell id Vid L) as [E1 E2]. rewrite E1, E2 in *.
        assert (cu_ContainsCellID y id = true); [|congruence].
        apply (contains_cellid_nested y id Hy Vid). exists c. split; [exact Hin|].
        destruct Hy as [Vy _]. rewrite Forall_forall in Vy.
        apply contains_nested; [auto|exact Vid|]. apply contains_spec; [auto|apply valid_u64; exact Vid|lia]. }
      assert (Hpos : 0 < s).
      { destruct (Z_lt_le_dec 0 s); [assumption|]. exfalso. apply NL. apply (leaf_cellform_0 _ _ H). destruct H; lia. }
      destruct (children_spec id Vid NL) as (a & b & c & d & E & T & _ & Hab & Hbc & Hcd).
      pose proof (children_cellform id s H Hpos) as CF. rewrite E in *.
      assert (Hk : forall k, In k [a; b; c; d] ->
                let D := diff_internal fuel k y in
                StronglySorted before D /\ Forall (fun c => valid c /\ nested_in c k) D /\
                (forall x, leaf x -> (cov D x <-> covers k x /\ ~ cov y x))).
      { intros k Hin. apply (IH k (s - 1)); [apply CF; exact Hin|lia]. }
      assert (Sabcd : StronglySorted before [a; b; c; d]).
      { destruct T. pose proof (valid_le _ t4_a). pose proof (valid_le _ t4_b). pose proof (valid_le _ t4_c). pose proof (valid_le _ t4_d).
        unfold before. repeat constructor; lia. }
      assert (Vabcd : Forall valid [a; b; c; d]).
      { destruct T. constructor; [assumption|]. constructor; [assumption|]. constructor; [assumption|]. constructor; [assumption|constructor]. }
      destruct (SS_flat_map (fun child => diff_internal fuel child y) [a; b; c; d] Sabcd Vabcd) as [FS FF].
      { intros k Hin. destruct (Hk k Hin) as (K1 & K2 & _). split; assumption. }
      split; [exact FS|]. split.
      * rewrite Forall_forall in *. intros c' Hc'. destruct (FF c' Hc') as [Vc' (k & Hin & Nk)]. split; [exact Vc'|].
        destruct (tiles4_child id a b c d k Vid T Hin) as (_ & Nkid & _). unfold nested_in in *. lia.
      * intros x Lx. rewrite cov_flat_map. rewrite (tiles4_cov _ _ _ _ _ x T Lx). split.
        -- intros (k & Hin & Hc). apply (proj2 (proj2 (Hk k Hin)) x Lx) in Hc. destruct Hc as [Hc Hn]. split; [|exact Hn].
           destruct Hin as [<-|[<-|[<-|[<-|[]]]]]; tauto.
        -- intros [[Hc|[Hc|[Hc|Hc]]] Hn].
           ++ exists a. split; [cbn; tauto|]. apply (proj2 (proj2 (Hk a ltac:(cbn; tauto))) x Lx). tauto.
           ++ exists b. split; [cbn; tauto|]. apply (proj2 (proj2 (Hk b ltac:(cbn; tauto))) x Lx). tauto.
           ++ exists c. split; [cbn; tauto|]. apply (proj2 (proj2 (Hk c ltac:(cbn; tauto))) x Lx). tauto.
           ++ exists d. split; [cbn; tauto|]. apply (proj2 (proj2 (Hk d ltac:(cbn; tauto))) x Lx). tauto.
  - (* disjoint *)
    split; [repeat constructor|]. split; [constructor; [split; [exact Vid|unfold nested_in; lia]|constructor]|].
    intros x Lx. rewrite cov_cons. pose proof (cov_nil x).
    split.
    + intros [Hc|Hc]; [|tauto]. split; [exact Hc|]. intros Hy'.
      assert (cu_IntersectsCellID y id = true); [|congruence].
      apply (intersects_cellid_spec y id Hy Vid). exists x. tauto.
    + tauto.
Qed.

Theorem difference_spec x y : sorted_cu x -> sorted_cu y ->
  sorted_cu (cu_FromDifference x y) /\
  forall t, leaf t -> (cov (cu_FromDifference x y) t <-> cov x t /\ ~ cov y t).
Proof.
  intros [Vx Sx] Hy. unfold cu_FromDifference.
  assert (Hk : forall xid, In xid x ->
            let D := diff_internal 32 xid y in
            StronglySorted before D /\ Forall (fun c => valid c /\ nested_in c xid) D /\
            (forall t, leaf t -> (cov D t <-> covers xid t /\ ~ cov y t))).
  { intros xid Hin. rewrite Forall_forall in Vx. destruct (valid_cellform _ (Vx xid Hin)) as [s H].
    apply (diff_internal_spec y Hy 32 xid s H). destruct H; lia. }
  destruct (SS_flat_map (fun xid => diff_internal 32 xid y) x Sx Vx) as [FS FF].
  { intros k Hin. destruct (Hk k Hin) as (K1 & K2 & _). split; assumption. }
  split.
  - split; [|exact FS]. eapply Forall_impl; [|exact FF]. cbn. tauto.
  - intros t Lt. rewrite cov_flat_map. split.
    + intros (xid & Hin & Hc). apply (proj2 (proj2 (Hk xid Hin)) t Lt) in Hc. split; [exists xid; tauto|tauto].
    + intros [(xid & Hin & Hc) Hn]. exists xid. split; [exact Hin|]. apply (proj2 (proj2 (Hk xid Hin)) t Lt). tauto.
Qed.
