(** C01 — (face,i,j) <-> cell id through the Hilbert lookup tables:
    faceIJOrientation (cellIDFromFaceIJ f i j) = (f, i, j, _) for ALL f < 6, i, j < 2^30,
    and cellIDFromFaceIJ returns a valid leaf on face f.  Both functions are the
    translations of the Go code (Gen.CellIDFull); the tables are initLookupCell re-executed
    over the translated literal tables (Model.CellIDTables). *)
From Coq Require Import ZArith List Bool Lia.
From Geo Require Import Base.GoPrim Gen.CellIDFull Model.CellIDTables
  Proofs.C01_Bits Proofs.C01_Tables Proofs.C01_Algebra.
Import ListNotations.
Local Open Scope Z_scope.

Ltac Zify.zify_post_hook ::= Z.div_mod_to_equations.

Definition nib (x k : Z) : Z := (x / 2 ^ (4 * k)) mod 16.
Definition LP (o a b : Z) : Z := nthZ s2_lookupPos (a * 64 + b * 4 + o) 0.
Definition LIJ (o p : Z) : Z := nthZ s2_lookupIJ (p * 4 + o) 0.

(** ** table facts, each a finite check over the 1024 keys *)
Definition step_inverse_at (key : Z) : bool :=
  let o := key mod 4 in let a := key / 64 in let b := (key / 4) mod 16 in
  let v := LP o a b in let w := LIJ o (v / 4) in
  (0 <=? v) && (v <? 1024) && (w mod 4 =? v mod 4) && (w / 64 =? a) && ((w / 4) mod 16 =? b)
  && (if (o <? 2) && (a <? 4) && (b <? 4) then v / 4 <? 16 else true).
Lemma step_inverse_all : forallb step_inverse_at keys1024 = true.
Proof. vm_compute. reflexivity. Qed.

Lemma step_inverse : forall o a b, 0 <= o < 4 -> 0 <= a < 16 -> 0 <= b < 16 ->
  let v := LP o a b in let w := LIJ o (v / 4) in
  0 <= v < 1024 /\ w mod 4 = v mod 4 /\ w / 64 = a /\ (w / 4) mod 16 = b /\
  (o < 2 -> a < 4 -> b < 4 -> v / 4 < 16).
Proof.
  intros o a b Ho Ha Hb. pose proof step_inverse_all as H. rewrite forallb_forall in H.
  assert (Hkey : 0 <= a * 64 + b * 4 + o < 1024) by lia.
  specialize (H (a * 64 + b * 4 + o) (in_keys1024 _ Hkey)). unfold step_inverse_at in H.
  replace ((a * 64 + b * 4 + o) mod 4) with o in H by lia.
  replace ((a * 64 + b * 4 + o) / 64) with a in H by lia.
  replace (((a * 64 + b * 4 + o) / 4) mod 16) with b in H by lia.
  cbv zeta. repeat (apply andb_true_iff in H; destruct H as [H ?]).
  repeat match goal with X : (_ =? _) = true |- _ => apply Z.eqb_eq in X end.
  repeat match goal with X : (_ <=? _) = true |- _ => apply Z.leb_le in X end.
  repeat match goal with X : (_ <? _) = true |- _ => apply Z.ltb_lt in X end.
  repeat split; try assumption.
  intros Ho2 Ha4 Hb4.
  match goal with X : (if _ then _ else _) = true |- _ => rename X into Hif end.
  replace (o <? 2) with true in Hif by (symmetry; apply Z.ltb_lt; lia).
  replace (a <? 4) with true in Hif by (symmetry; apply Z.ltb_lt; lia).
  replace (b <? 4) with true in Hif by (symmetry; apply Z.ltb_lt; lia).
  simpl in Hif. apply Z.ltb_lt in Hif. exact Hif.
Qed.

(** ** cellIDFromFaceIJ as a fold of a clean step *)
Definition Pstep (v_i v_j : Z) : Z * Z -> Z -> Z * Z :=
  fun '(v_bits, v_n) v_k =>
  let v_mask := 15%Z in
  let v_bits := (wrap_i64 (Z.add v_bits (wrap_i64 (go_shl (Z.land (go_shr v_i (wrap_u64 (wrap_i64 (Z.mul v_k 4%Z)))) v_mask) 6%Z)))) in
  let v_bits := (wrap_i64 (Z.add v_bits (wrap_i64 (go_shl (Z.land (go_shr v_j (wrap_u64 (wrap_i64 (Z.mul v_k 4%Z)))) v_mask) 2%Z)))) in
  let v_bits := (nthZ s2_lookupPos v_bits 0%Z) in
  let v_n := (Z.lor v_n (wrap_u64 (go_shl (wrap_u64 (go_shr v_bits 2%Z)) (wrap_u64 (Z.mul (wrap_u64 (Z.mul (wrap_u64 v_k) 2%Z)) 4%Z))))) in
  let v_bits := (Z.land v_bits 3%Z) in
  (v_bits, v_n).

Lemma zrange_down_7_0 : zrange_down 7 0 = [7;6;5;4;3;2;1;0].
Proof. vm_compute. reflexivity. Qed.

Lemma fromIJ_fold : forall f i j,
  s2_cellIDFromFaceIJ f i j =
  (let '(b, n) := fold_left (Pstep i j) [7;6;5;4;3;2;1;0] (Z.land f 1, wrap_u64 (go_shl (wrap_u64 f) 60)) in
   wrap_u64 (wrap_u64 (wrap_u64 (n * 2) + 1))).
Proof. intros. unfold s2_cellIDFromFaceIJ. rewrite zrange_down_7_0. unfold Pstep. reflexivity. Qed.

Definition Pclean (i j : Z) (st : Z * Z) (k : Z) : Z * Z :=
  let '(o, n) := st in
  let v := LP o (nib i k) (nib j k) in
  (v mod 4, Z.lor n ((v / 4) * 2 ^ (8 * k))).

Lemma small63 : forall x, 0 <= x < 2 ^ 62 -> - 2 ^ 63 <= x < 2 ^ 63.
Proof. intros x H. change (2 ^ 62) with 4611686018427387904 in H. change (2 ^ 63) with 9223372036854775808. lia. Qed.

Lemma land15 : forall x, Z.land x 15 = x mod 16.
Proof. intros x. change 15 with (Z.ones 4). rewrite Z.land_ones by lia. reflexivity. Qed.
Lemma land3 : forall x, Z.land x 3 = x mod 4.
Proof. intros x. change 3 with (Z.ones 2). rewrite Z.land_ones by lia. reflexivity. Qed.
Lemma land1 : forall x, Z.land x 1 = x mod 2.
Proof. intros x. change 1 with (Z.ones 1). rewrite Z.land_ones by lia. reflexivity. Qed.

Lemma nib_range : forall x k, 0 <= nib x k < 16.
Proof. intros. unfold nib. apply Z.mod_pos_bound. lia. Qed.

Lemma k_cases : forall k, 0 <= k <= 7 -> k = 0 \/ k = 1 \/ k = 2 \/ k = 3 \/ k = 4 \/ k = 5 \/ k = 6 \/ k = 7.
Proof. intros. lia. Qed.

Lemma Pstep_clean : forall i j o n k, 0 <= o < 4 -> 0 <= k <= 7 ->
  Pstep i j (o, n) k = Pclean i j (o, n) k.
Proof.
  intros i j o n k Ho Hk. unfold Pstep, Pclean. cbv zeta.
  assert (Hk4 : wrap_u64 (wrap_i64 (k * 4)) = 4 * k).
  { rewrite wrap_i64_small by (apply small63; change (2 ^ 62) with 4611686018427387904; lia).
    rewrite wrap_u64_small by (change (2 ^ 64) with 18446744073709551616; lia). ring. }
  rewrite Hk4. rewrite !go_shr_div by lia. rewrite !land15. fold (nib i k) (nib j k).
  pose proof (nib_range i k) as Ha. pose proof (nib_range j k) as Hb.
  set (a := nib i k) in *. set (b := nib j k) in *.
  rewrite !go_shl_mul by lia. change (2 ^ 6) with 64. change (2 ^ 2) with 4.
  rewrite (wrap_i64_small (a * 64)) by (apply small63; change (2 ^ 62) with 4611686018427387904; lia).
  rewrite (wrap_i64_small (o + a * 64)) by (apply small63; change (2 ^ 62) with 4611686018427387904; lia).
  rewrite (wrap_i64_small (b * 4)) by (apply small63; change (2 ^ 62) with 4611686018427387904; lia).
  rewrite (wrap_i64_small (o + a * 64 + b * 4)) by (apply small63; change (2 ^ 62) with 4611686018427387904; lia).
  replace (o + a * 64 + b * 4) with (a * 64 + b * 4 + o) by ring. fold (LP o a b).
  pose proof (step_inverse o a b Ho Ha Hb) as (Hv & _). cbv zeta in Hv.
  set (v := LP o a b) in *.
  rewrite land3. f_equal. f_equal.
  assert (Hsh : wrap_u64 (wrap_u64 (wrap_u64 k * 2) * 4) = 8 * k).
  { rewrite (wrap_u64_small k) by (change (2 ^ 64) with 18446744073709551616; lia).
    rewrite (wrap_u64_small (k * 2)) by (change (2 ^ 64) with 18446744073709551616; lia).
    rewrite wrap_u64_small by (change (2 ^ 64) with 18446744073709551616; lia). ring. }
  rewrite Hsh.
  assert (Hq : 0 <= v / 4 < 256) by lia.
  rewrite (wrap_u64_small (v / 4)) by (change (2 ^ 64) with 18446744073709551616; lia).
  rewrite go_shl_mul by lia. apply wrap_u64_small.
  assert (Hp : 0 < 2 ^ (8 * k) <= 2 ^ 56) by (split; [apply pow2_pos; lia|apply pow2_le; lia]).
  change (2 ^ 56) with 72057594037927936 in Hp. change (2 ^ 64) with 18446744073709551616. nia.
Qed.

Lemma Pfold_clean : forall i j ks o n, 0 <= o < 4 -> (forall k, In k ks -> 0 <= k <= 7) ->
  fold_left (Pstep i j) ks (o, n) = fold_left (Pclean i j) ks (o, n).
Proof.
  intros i j ks. induction ks as [|k ks IH]; intros o n Ho Hks; [reflexivity|].
  cbn [fold_left]. rewrite Pstep_clean by (try apply Hks; try left; auto).
  unfold Pclean at 1 3. apply IH.
  - apply Z.mod_pos_bound. lia.
  - intros k' Hk'. apply Hks. right. exact Hk'.
Qed.

(** ** faceIJOrientation as a fold of a clean step *)
Definition Istep (v_ci : Z) : Z * Z * Z * Z -> Z -> Z * Z * Z * Z :=
  fun '(v_orientation, v_i, v_j, v_nbits) v_k =>
  let v_orientation := (wrap_i64 (Z.add v_orientation (wrap_i64 (go_shl (Z.land (wrap_i64 (go_shr (wrap_u64 v_ci) (wrap_u64 (wrap_i64 (Z.add (wrap_i64 (Z.mul (wrap_i64 (Z.mul v_k 2%Z)) 4%Z)) 1%Z))))) (wrap_i64 (Z.sub (wrap_i64 (go_shl 1%Z (wrap_u64 (wrap_i64 (Z.mul 2%Z v_nbits))))) 1%Z))) 2%Z)))) in
  let v_orientation := (nthZ s2_lookupIJ v_orientation 0%Z) in
  let v_i := (wrap_i64 (Z.add v_i (wrap_i64 (go_shl (go_shr v_orientation 6%Z) (wrap_u64 (wrap_i64 (Z.mul v_k 4%Z))))))) in
  let v_j := (wrap_i64 (Z.add v_j (wrap_i64 (go_shl (Z.land (go_shr v_orientation 2%Z) 15%Z) (wrap_u64 (wrap_i64 (Z.mul v_k 4%Z))))))) in
  let v_orientation := (Z.land v_orientation 3%Z) in
  let v_nbits := 4%Z in
  (v_orientation, v_i, v_j, v_nbits).

Lemma faceIJ_fold : forall ci,
  s2_CellID_faceIJOrientation ci =
  (let v_f := s2_CellID_Face ci in
   let '(o, i, j, nb) := fold_left (Istep ci) [7;6;5;4;3;2;1;0] (Z.land v_f 1, 0, 0, 2) in
   let o := if negb (Z.land (s2_CellID_lsb ci) 1229782938247303440 =? 0) then Z.lxor o 1 else o in
   (v_f, i, j, o)).
Proof. intros. unfold s2_CellID_faceIJOrientation. rewrite zrange_down_7_0. unfold Istep. reflexivity. Qed.

Definition Iclean (ci : Z) (st : Z * Z * Z * Z) (k : Z) : Z * Z * Z * Z :=
  let '(o, i, j, nb) := st in
  let d := (ci / 2 ^ (8 * k + 1)) mod 2 ^ (2 * nb) in
  let w := LIJ o d in
  (w mod 4, i + (w / 64) * 2 ^ (4 * k), j + ((w / 4) mod 16) * 2 ^ (4 * k), 4).

Definition lij_range_at (key : Z) : bool := let w := nthZ s2_lookupIJ key 0 in (0 <=? w) && (w <? 1024).
Lemma lij_range_all : forallb lij_range_at keys1024 = true.
Proof. vm_compute. reflexivity. Qed.
Lemma LIJ_range : forall o d, 0 <= o < 4 -> 0 <= d < 256 -> 0 <= LIJ o d < 1024.
Proof.
  intros o d Ho Hd. pose proof lij_range_all as H. rewrite forallb_forall in H.
  assert (Hkey : 0 <= d * 4 + o < 1024) by lia.
  specialize (H _ (in_keys1024 _ Hkey)). unfold lij_range_at in H. apply andb_true_iff in H.
  destruct H as [A B]. apply Z.leb_le in A. apply Z.ltb_lt in B. unfold LIJ. lia.
Qed.

Lemma Istep_clean : forall ci o i j nb k, u64 ci -> 0 <= o < 4 -> nb = 2 \/ nb = 4 -> 0 <= k <= 7 ->
  0 <= i < 2 ^ 40 -> 0 <= j < 2 ^ 40 ->
  Istep ci (o, i, j, nb) k = Iclean ci (o, i, j, nb) k.
Proof.
  intros ci o i j nb k Hci Ho Hnb Hk Hi Hj. unfold Istep, Iclean. cbv zeta.
  change (2 ^ 40) with 1099511627776 in *.
  assert (Hsh : wrap_u64 (wrap_i64 (wrap_i64 (wrap_i64 (k * 2) * 4) + 1)) = 8 * k + 1).
  { rewrite (wrap_i64_small (k * 2)) by (apply small63; change (2 ^ 62) with 4611686018427387904; lia).
    rewrite (wrap_i64_small (k * 2 * 4)) by (apply small63; change (2 ^ 62) with 4611686018427387904; lia).
    rewrite (wrap_i64_small (k * 2 * 4 + 1)) by (apply small63; change (2 ^ 62) with 4611686018427387904; lia).
    rewrite wrap_u64_small by (change (2 ^ 64) with 18446744073709551616; lia). ring. }
  rewrite Hsh. rewrite (wrap_u64_small ci Hci).
  assert (Hk4 : wrap_u64 (wrap_i64 (k * 4)) = 4 * k).
  { rewrite wrap_i64_small by (apply small63; change (2 ^ 62) with 4611686018427387904; lia).
    rewrite wrap_u64_small by (change (2 ^ 64) with 18446744073709551616; lia). ring. }
  rewrite Hk4.
  assert (Hmask : wrap_i64 (wrap_i64 (go_shl 1 (wrap_u64 (wrap_i64 (2 * nb)))) - 1) = Z.ones (2 * nb)).
  { destruct Hnb as [-> | ->]; vm_compute; reflexivity. }
  rewrite Hmask. rewrite (go_shr_div ci) by lia.
  assert (Hq : 0 <= ci / 2 ^ (8 * k + 1) < 2 ^ 63).
  { unfold u64 in Hci. split; [apply Z.div_pos; [lia|apply pow2_pos; lia]|].
    apply Z.div_lt_upper_bound; [apply pow2_pos; lia|].
    assert (2 <= 2 ^ (8 * k + 1)) by (change 2 with (2 ^ 1) at 1; apply pow2_le; lia).
    change (2 ^ 64) with (2 * 2 ^ 63) in Hci. pose proof (pow2_pos 63 ltac:(lia)). nia. }
  rewrite (wrap_i64_small (ci / 2 ^ (8 * k + 1))) by lia.
  rewrite Z.land_ones by lia.
  set (d := (ci / 2 ^ (8 * k + 1)) mod 2 ^ (2 * nb)).
  assert (Hd : 0 <= d < 256).
  { unfold d. assert (0 < 2 ^ (2 * nb) <= 256) by (destruct Hnb as [-> | ->]; vm_compute; split; congruence).
    pose proof (Z.mod_pos_bound (ci / 2 ^ (8 * k + 1)) (2 ^ (2 * nb)) ltac:(lia)). lia. }
  rewrite go_shl_mul by lia. change (2 ^ 2) with 4.
  rewrite (wrap_i64_small (d * 4)) by (apply small63; change (2 ^ 62) with 4611686018427387904; lia).
  rewrite (wrap_i64_small (o + d * 4)) by (apply small63; change (2 ^ 62) with 4611686018427387904; lia).
  replace (o + d * 4) with (d * 4 + o) by ring. fold (LIJ o d).
  pose proof (LIJ_range o d Ho Hd) as Hw. set (w := LIJ o d) in *.
  rewrite !go_shr_div by lia. change (2 ^ 6) with 64. change (2 ^ 2) with 4.
  rewrite land15, land3. rewrite !go_shl_mul by lia.
  assert (Hp : 0 < 2 ^ (4 * k) <= 2 ^ 28) by (split; [apply pow2_pos; lia|apply pow2_le; lia]).
  change (2 ^ 28) with 268435456 in Hp.
  assert (Ha : 0 <= w / 64 < 16) by (split; [apply Z.div_pos; lia|apply Z.div_lt_upper_bound; lia]).
  assert (Hb : 0 <= (w / 4) mod 16 < 16) by (apply Z.mod_pos_bound; lia).
  set (P := 2 ^ (4 * k)) in *. set (a := w / 64) in *. set (b := (w / 4) mod 16) in *.
  assert (0 <= a * P <= 15 * 268435456) by (split; [apply Z.mul_nonneg_nonneg; lia|apply Z.mul_le_mono_nonneg; lia]).
  assert (0 <= b * P <= 15 * 268435456) by (split; [apply Z.mul_nonneg_nonneg; lia|apply Z.mul_le_mono_nonneg; lia]).
  rewrite (wrap_i64_small (a * P)) by (apply small63; change (2 ^ 62) with 4611686018427387904; lia).
  rewrite (wrap_i64_small (b * P)) by (apply small63; change (2 ^ 62) with 4611686018427387904; lia).
  rewrite (wrap_i64_small (i + a * P)) by (apply small63; change (2 ^ 62) with 4611686018427387904; lia).
  rewrite (wrap_i64_small (j + b * P)) by (apply small63; change (2 ^ 62) with 4611686018427387904; lia).
  reflexivity.
Qed.

Lemma Ifold_clean : forall ci ks o i j nb, u64 ci -> 0 <= o < 4 -> nb = 2 \/ nb = 4 ->
  (forall k, In k ks -> 0 <= k <= 7) ->
  0 <= i < 2 ^ 40 - 2 ^ 32 * Z.of_nat (length ks) -> 0 <= j < 2 ^ 40 - 2 ^ 32 * Z.of_nat (length ks) ->
  fold_left (Istep ci) ks (o, i, j, nb) = fold_left (Iclean ci) ks (o, i, j, nb).
Proof.
  intros ci ks. induction ks as [|k ks IH]; intros o i j nb Hci Ho Hnb Hks Hi Hj; [reflexivity|].
  cbn [fold_left]. cbn [length] in Hi, Hj. rewrite Nat2Z.inj_succ in Hi, Hj.
  change (2 ^ 40) with 1099511627776 in *. change (2 ^ 32) with 4294967296 in *.
  assert (Hk : 0 <= k <= 7) by (apply Hks; left; reflexivity).
  rewrite Istep_clean by (try assumption; change (2 ^ 40) with 1099511627776; lia).
  unfold Iclean at 1 3.
  set (d := (ci / 2 ^ (8 * k + 1)) mod 2 ^ (2 * nb)).
  assert (Hd : 0 <= d < 256).
  { unfold d. assert (0 < 2 ^ (2 * nb) <= 256) by (destruct Hnb as [-> | ->]; vm_compute; split; congruence).
    pose proof (Z.mod_pos_bound (ci / 2 ^ (8 * k + 1)) (2 ^ (2 * nb)) ltac:(lia)). lia. }
  pose proof (LIJ_range o d Ho Hd) as Hw. set (w := LIJ o d) in *.
  assert (Hp : 0 < 2 ^ (4 * k) <= 2 ^ 28) by (split; [apply pow2_pos; lia|apply pow2_le; lia]).
  change (2 ^ 28) with 268435456 in Hp.
  assert (Ha : 0 <= w / 64 < 16) by (split; [apply Z.div_pos; lia|apply Z.div_lt_upper_bound; lia]).
  assert (Hb : 0 <= (w / 4) mod 16 < 16) by (apply Z.mod_pos_bound; lia).
  set (P := 2 ^ (4 * k)) in *. set (a := w / 64) in *. set (b := (w / 4) mod 16) in *.
  assert (0 <= a * P <= 15 * 268435456) by (split; [apply Z.mul_nonneg_nonneg; lia|apply Z.mul_le_mono_nonneg; lia]).
  assert (0 <= b * P <= 15 * 268435456) by (split; [apply Z.mul_nonneg_nonneg; lia|apply Z.mul_le_mono_nonneg; lia]).
  apply IH; try assumption.
  - apply Z.mod_pos_bound. lia.
  - right. reflexivity.
  - intros k' Hk'. apply Hks. right. exact Hk'.
  - change (2 ^ 40) with 1099511627776. change (2 ^ 32) with 4294967296. lia.
  - change (2 ^ 40) with 1099511627776. change (2 ^ 32) with 4294967296. lia.
Qed.

Lemma lor_add_low : forall x b m, 0 <= m -> 0 <= b < 2 ^ m -> x mod 2 ^ m = 0 -> Z.lor x b = x + b.
Proof.
  intros x b m Hm Hb Hx. pose proof (pow2_pos m Hm).
  rewrite (Z.div_mod x (2 ^ m)) by lia. rewrite Hx, Z.add_0_r. rewrite (Z.mul_comm (2 ^ m)).
  apply lor_disjoint_add; assumption.
Qed.

(** ** the round trip *)
Lemma nib_sum : forall x, 0 <= x < 2 ^ 32 ->
  nib x 7 * 2 ^ (4 * 7) + nib x 6 * 2 ^ (4 * 6) + nib x 5 * 2 ^ (4 * 5) + nib x 4 * 2 ^ (4 * 4) +
  nib x 3 * 2 ^ (4 * 3) + nib x 2 * 2 ^ (4 * 2) + nib x 1 * 2 ^ (4 * 1) + nib x 0 * 2 ^ (4 * 0) = x.
Proof.
  intros x Hx. unfold nib. cbn [Z.mul Pos.mul]. 
  change (2 ^ 28) with 268435456. change (2 ^ 24) with 16777216. change (2 ^ 20) with 1048576.
  change (2 ^ 16) with 65536. change (2 ^ 12) with 4096. change (2 ^ 8) with 256. change (2 ^ 4) with 16.
  change (2 ^ 0) with 1. change (2 ^ 32) with 4294967296 in Hx.
  lia.
Qed.

Lemma nib_top : forall x, 0 <= x < 2 ^ 30 -> nib x 7 < 4.
Proof.
  intros x Hx. unfold nib. change (2 ^ (4 * 7)) with 268435456. change (2 ^ 30) with 1073741824 in Hx. lia.
Qed.

Theorem ij_roundtrip : forall f i j, 0 <= f < 6 -> 0 <= i < 2 ^ 30 -> 0 <= j < 2 ^ 30 ->
  exists o k, 0 <= o < 4 /\ rep (s2_cellIDFromFaceIJ f i j) f 30 k /\
    s2_CellID_faceIJOrientation (s2_cellIDFromFaceIJ f i j) = (f, i, j, o).
Proof.
  intros f i j Hf Hi Hj.
  rewrite fromIJ_fold.
  assert (Ho7 : 0 <= Z.land f 1 < 2) by (rewrite land1; apply Z.mod_pos_bound; lia).
  rewrite Pfold_clean by (try lia; intros k Hk; cbn in Hk; lia).
  rewrite (wrap_u64_small f) by (change (2 ^ 64) with 18446744073709551616; lia).
  rewrite go_shl_mul by lia.
  rewrite (wrap_u64_small (f * 2 ^ 60)) by (change (2 ^ 64) with (16 * 2 ^ 60); lia).
  cbn [fold_left]. unfold Pclean.
  set (o7 := Z.land f 1) in *.
  pose proof (nib_range i 7) as Ra7. pose proof (nib_range j 7) as Rb7.
  pose proof (nib_top i Hi) as Ta. pose proof (nib_top j Hj) as Tb.
  Ltac stepP o a b v onext H :=
    pose proof (step_inverse o a b ltac:(lia) ltac:(apply nib_range) ltac:(apply nib_range)) as H;
    cbv zeta in H; set (v := LP o a b) in *; set (onext := v mod 4) in *;
    assert (0 <= onext < 4) by (apply Z.mod_pos_bound; lia).
  stepP o7 (nib i 7) (nib j 7) v7 o6 S7.
  stepP o6 (nib i 6) (nib j 6) v6 o5 S6.
  stepP o5 (nib i 5) (nib j 5) v5 o4 S5.
  stepP o4 (nib i 4) (nib j 4) v4 o3 S4.
  stepP o3 (nib i 3) (nib j 3) v3 o2 S3.
  stepP o2 (nib i 2) (nib j 2) v2 o1 S2.
  stepP o1 (nib i 1) (nib j 1) v1 o0 S1.
  stepP o0 (nib i 0) (nib j 0) v0 oF S0.
  destruct S7 as (B7 & M7 & A7 & J7 & T7). destruct S6 as (B6 & M6 & A6 & J6 & _).
  destruct S5 as (B5 & M5 & A5 & J5 & _). destruct S4 as (B4 & M4 & A4 & J4 & _).
  destruct S3 as (B3 & M3 & A3 & J3 & _). destruct S2 as (B2 & M2 & A2 & J2 & _).
  destruct S1 as (B1 & M1 & A1 & J1 & _). destruct S0 as (B0 & M0 & A0 & J0 & _).
  specialize (T7 ltac:(lia) Ta Tb).
  assert (P7 : 0 <= v7 / 4 < 16) by lia. assert (P6 : 0 <= v6 / 4 < 256) by lia.
  assert (P5 : 0 <= v5 / 4 < 256) by lia. assert (P4 : 0 <= v4 / 4 < 256) by lia.
  assert (P3 : 0 <= v3 / 4 < 256) by lia. assert (P2 : 0 <= v2 / 4 < 256) by lia.
  assert (P1 : 0 <= v1 / 4 < 256) by lia. assert (P0 : 0 <= v0 / 4 < 256) by lia.
  set (p7 := v7 / 4) in *. set (p6 := v6 / 4) in *. set (p5 := v5 / 4) in *. set (p4 := v4 / 4) in *.
  set (p3 := v3 / 4) in *. set (p2 := v2 / 4) in *. set (p1 := v1 / 4) in *. set (p0 := v0 / 4) in *.
  clearbody p7 p6 p5 p4 p3 p2 p1 p0.
  cbn [Z.mul Pos.mul].
  change (2 ^ 60) with 1152921504606846976. change (2 ^ 56) with 72057594037927936.
  change (2 ^ 48) with 281474976710656. change (2 ^ 40) with 1099511627776.
  change (2 ^ 32) with 4294967296. change (2 ^ 24) with 16777216. change (2 ^ 16) with 65536.
  change (2 ^ 8) with 256. change (2 ^ 0) with 1.
  rewrite (lor_add_low _ (p7 * 72057594037927936) 60) by (change (2 ^ 60) with 1152921504606846976; clear - Hf P7 P6 P5 P4 P3 P2 P1 P0; lia).
  rewrite (lor_add_low _ (p6 * 281474976710656) 56) by (change (2 ^ 56) with 72057594037927936; clear - Hf P7 P6 P5 P4 P3 P2 P1 P0; lia).
  rewrite (lor_add_low _ (p5 * 1099511627776) 48) by (change (2 ^ 48) with 281474976710656; clear - Hf P7 P6 P5 P4 P3 P2 P1 P0; lia).
  rewrite (lor_add_low _ (p4 * 4294967296) 40) by (change (2 ^ 40) with 1099511627776; clear - Hf P7 P6 P5 P4 P3 P2 P1 P0; lia).
  rewrite (lor_add_low _ (p3 * 16777216) 32) by (change (2 ^ 32) with 4294967296; clear - Hf P7 P6 P5 P4 P3 P2 P1 P0; lia).
  rewrite (lor_add_low _ (p2 * 65536) 24) by (change (2 ^ 24) with 16777216; clear - Hf P7 P6 P5 P4 P3 P2 P1 P0; lia).
  rewrite (lor_add_low _ (p1 * 256) 16) by (change (2 ^ 16) with 65536; clear - Hf P7 P6 P5 P4 P3 P2 P1 P0; lia).
  rewrite (lor_add_low _ (p0 * 1) 8) by (change (2 ^ 8) with 256; clear - Hf P7 P6 P5 P4 P3 P2 P1 P0; lia).
  set (K := p7 * 72057594037927936 + p6 * 281474976710656 + p5 * 1099511627776 +
            p4 * 4294967296 + p3 * 16777216 + p2 * 65536 + p1 * 256 + p0 * 1).
  assert (HK : 0 <= K < 2 ^ 60) by (unfold K; change (2 ^ 60) with 1152921504606846976; clear - P7 P6 P5 P4 P3 P2 P1 P0; lia).
  set (c := f * 2 ^ 61 + (2 * K + 1) * 4 ^ (30 - 30)).
  assert (Hrep : rep c f 30 K).
  { split; [lia|]. split; [lia|]. split; [|reflexivity]. change (4 ^ 30) with (2 ^ 60). exact HK. }
  assert (Ec : (f * 1152921504606846976 + p7 * 72057594037927936 + p6 * 281474976710656 + p5 * 1099511627776 +
                 p4 * 4294967296 + p3 * 16777216 + p2 * 65536 + p1 * 256 + p0 * 1) * 2 = c - 1).
  { unfold c. change (4 ^ (30 - 30)) with 1. change (2 ^ 61) with 2305843009213693952. unfold K. ring. }
  rewrite Ec.
  pose proof (rep_u64 _ _ _ _ Hrep) as Hcu.
  assert (Hu : u64 c) by (unfold u64; change (2 ^ 64) with (8 * 2 ^ 61); clear - Hcu; lia).
  rewrite (wrap_u64_small (c - 1)) by (unfold u64 in Hu; clear - Hu Hcu; lia).
  replace (c - 1 + 1) with c by ring. rewrite !(wrap_u64_small c Hu).
  exists oF, K. split; [assumption|]. split; [exact Hrep|].
  rewrite faceIJ_fold. cbv zeta. rewrite (Face_rep _ _ _ _ Hrep), (lsb_rep _ _ _ _ Hrep).
  change (Z.land (4 ^ (30 - 30)) 1229782938247303440 =? 0) with true. cbn [negb].
  fold o7.
  rewrite Ifold_clean; [|exact Hu|clear - Ho7; lia|left; reflexivity|intros k Hk; cbn in Hk; clear - Hk; lia|vm_compute; split; congruence|vm_compute; split; congruence].
  cbn [fold_left]. unfold Iclean.
  assert (EcK : c = f * 2305843009213693952 + 2 * K + 1).
  { unfold c. change (4 ^ (30 - 30)) with 1. change (2 ^ 61) with 2305843009213693952. ring. }
  clearbody c. clear Hrep Ec Hcu Hu.
  assert (D7 : (c / 2 ^ (8 * 7 + 1)) mod 2 ^ (2 * 2) = p7).
  { change (2 ^ (8 * 7 + 1)) with 144115188075855872. change (2 ^ (2 * 2)) with 16.
    unfold K in EcK. clear - EcK P7 P6 P5 P4 P3 P2 P1 P0 Hf. lia. }
  assert (D6 : (c / 2 ^ (8 * 6 + 1)) mod 2 ^ (2 * 4) = p6).
  { change (2 ^ (8 * 6 + 1)) with 562949953421312. change (2 ^ (2 * 4)) with 256.
    unfold K in EcK. clear - EcK P7 P6 P5 P4 P3 P2 P1 P0 Hf. lia. }
  assert (D5 : (c / 2 ^ (8 * 5 + 1)) mod 2 ^ (2 * 4) = p5).
  { change (2 ^ (8 * 5 + 1)) with 2199023255552. change (2 ^ (2 * 4)) with 256.
    unfold K in EcK. clear - EcK P7 P6 P5 P4 P3 P2 P1 P0 Hf. lia. }
  assert (D4 : (c / 2 ^ (8 * 4 + 1)) mod 2 ^ (2 * 4) = p4).
  { change (2 ^ (8 * 4 + 1)) with 8589934592. change (2 ^ (2 * 4)) with 256.
    unfold K in EcK. clear - EcK P7 P6 P5 P4 P3 P2 P1 P0 Hf. lia. }
  assert (D3 : (c / 2 ^ (8 * 3 + 1)) mod 2 ^ (2 * 4) = p3).
  { change (2 ^ (8 * 3 + 1)) with 33554432. change (2 ^ (2 * 4)) with 256.
    unfold K in EcK. clear - EcK P7 P6 P5 P4 P3 P2 P1 P0 Hf. lia. }
  assert (D2 : (c / 2 ^ (8 * 2 + 1)) mod 2 ^ (2 * 4) = p2).
  { change (2 ^ (8 * 2 + 1)) with 131072. change (2 ^ (2 * 4)) with 256.
    unfold K in EcK. clear - EcK P7 P6 P5 P4 P3 P2 P1 P0 Hf. lia. }
  assert (D1 : (c / 2 ^ (8 * 1 + 1)) mod 2 ^ (2 * 4) = p1).
  { change (2 ^ (8 * 1 + 1)) with 512. change (2 ^ (2 * 4)) with 256.
    unfold K in EcK. clear - EcK P7 P6 P5 P4 P3 P2 P1 P0 Hf. lia. }
  assert (D0 : (c / 2 ^ (8 * 0 + 1)) mod 2 ^ (2 * 4) = p0).
  { change (2 ^ (8 * 0 + 1)) with 2. change (2 ^ (2 * 4)) with 256.
    unfold K in EcK. clear - EcK P7 P6 P5 P4 P3 P2 P1 P0 Hf. lia. }
  rewrite D7, M7, D6, M6, D5, M5, D4, M4, D3, M3, D2, M2, D1, M1, D0, M0.
  rewrite A7, A6, A5, A4, A3, A2, A1, A0, J7, J6, J5, J4, J3, J2, J1, J0.
  rewrite !Z.add_0_l.
  rewrite (nib_sum i) by (change (2 ^ 32) with 4294967296; change (2 ^ 30) with 1073741824 in Hi; clear - Hi; lia).
  rewrite (nib_sum j) by (change (2 ^ 32) with 4294967296; change (2 ^ 30) with 1073741824 in Hj; clear - Hj; lia).
  reflexivity.
Qed.
