(** C01 — AdvanceWrap: n steps around the cycle of the 6*4^l cells of a level, for every
    valid id and every int64 step count. *)
From Coq Require Import ZArith List Bool Lia.
From Geo Require Import Base.GoPrim Gen.CellIDFull Proofs.C01_Bits Proofs.C01_Algebra.
Import ListNotations.
Local Open Scope Z_scope.

Lemma mod64_add_shift : forall c s t, 0 <= c + s * t < 2 ^ 64 ->
  wrap_u64 (wrap_u64 (c + wrap_u64 (wrap_u64 s * t))) = c + s * t.
Proof.
  intros c s t H. unfold wrap_u64, wrap_u.
  rewrite Z.mul_mod_idemp_l by lia. rewrite Z.add_mod_idemp_r by lia.
  rewrite Z.mod_mod by lia. apply Z.mod_small. exact H.
Qed.

Lemma AdvanceWrap_index : forall c f l k n, rep c f l k -> - 2 ^ 63 <= n < 2 ^ 63 ->
  s2_CellID_AdvanceWrap c n = (2 * ((index f l k + n) mod (6 * 4 ^ l)) + 1) * 4 ^ (30 - l).
Proof.
  intros c f l k n H Hn.
  pose proof H as (Hf & Hl & Hk & _). pose proof (index_bounds f l k Hf ltac:(lia) Hk) as Hi.
  pose proof (pow4_pos l ltac:(lia)) as HB. pose proof (pow4_pos (30 - l) ltac:(lia)) as Hb.
  pose proof (pow4_split l Hl) as Hs. pose proof (rep_index_form _ _ _ _ H) as Ec.
  pose proof (rep_wrap _ _ _ _ H) as Wc.
  set (i := index f l k) in *. set (b := 4 ^ (30 - l)) in *. set (B := 4 ^ l) in *. set (W := 6 * B) in *.
  assert (HBle : B <= 2 ^ 60).
  { rewrite <- Hs. replace B with (B * 1) at 1 by ring. apply Z.mul_le_mono_nonneg_l; lia. }
  change (2 ^ 60) with 1152921504606846976 in HBle. change (2 ^ 63) with 9223372036854775808 in Hn.
  destruct (Z.eq_dec n 0) as [->|Hn0].
  { unfold s2_CellID_AdvanceWrap. cbn [Z.eqb]. rewrite Z.add_0_r. rewrite Z.mod_small by lia. exact Ec. }
  unfold s2_CellID_AdvanceWrap. replace (n =? 0) with false by (symmetry; apply Z.eqb_neq; exact Hn0).
  cbv zeta. rewrite (Level_rep _ _ _ _ H), Wc.
  assert (Hsh : wrap_u64 (wrap_i64 (wrap_i64 (2 * wrap_i64 (30 - l)) + 1)) = 2 * (30 - l) + 1).
  { rewrite (wrap_i64_small (30 - l)) by (change (2 ^ 63) with 9223372036854775808; lia).
    rewrite (wrap_i64_small (2 * (30 - l))) by (change (2 ^ 63) with 9223372036854775808; lia).
    rewrite (wrap_i64_small (2 * (30 - l) + 1)) by (change (2 ^ 63) with 9223372036854775808; lia).
    apply wrap_u64_small. change (2 ^ 64) with 18446744073709551616. lia. }
  rewrite Hsh. set (sh := 2 * (30 - l) + 1).
  assert (Hp : 2 ^ sh = 2 * b).
  { unfold sh, b. rewrite Z.pow_add_r by lia. rewrite <- pow4_pow2 by lia. change (2 ^ 1) with 2. ring. }
  rewrite !go_shr_div by (unfold sh; lia). rewrite go_shl_mul by (unfold sh; lia). rewrite Hp.
  assert (E1 : c / (2 * b) = i).
  { symmetry. apply (Z.div_unique c (2 * b) i b); [left; lia|]. rewrite Ec. ring. }
  assert (E2 : 13835058055282163712 / (2 * b) = W).
  { change 13835058055282163712 with (6 * 2 * 2 ^ 60). rewrite <- Hs. unfold W.
    replace (6 * 2 * (B * b)) with (6 * B * (2 * b)) by ring. apply Z.div_mul. lia. }
  assert (E3 : wrap_u64 (13835058055282163712 - c) / (2 * b) = W - i - 1).
  { assert (E : 13835058055282163712 - c = (W - i - 1) * (2 * b) + b).
    { change 13835058055282163712 with (6 * 2 * 2 ^ 60). rewrite <- Hs, Ec. unfold W. ring. }
    assert (Hnn : 0 <= (W - i - 1) * (2 * b)) by (apply Z.mul_nonneg_nonneg; lia).
    pose proof (rep_u64 _ _ _ _ H) as Hcu.
    rewrite wrap_u64_small by (change (2 ^ 64) with 18446744073709551616; change (6 * 2 ^ 61) with 13835058055282163712 in Hcu; lia).
    symmetry. apply (Z.div_unique _ (2 * b) (W - i - 1) b); [left; lia|]. rewrite E. ring. }
  rewrite E1, E2, E3.
  assert (HW : 0 < W <= 6 * 1152921504606846976) by (unfold W; lia).
  rewrite (wrap_i64_small i) by (change (2 ^ 63) with 9223372036854775808; lia).
  rewrite (wrap_i64_small (- i)) by (change (2 ^ 63) with 9223372036854775808; lia).
  rewrite (wrap_i64_small W) by (change (2 ^ 63) with 9223372036854775808; lia).
  rewrite (wrap_i64_small (W - i - 1)) by (change (2 ^ 63) with 9223372036854775808; lia).
  (* the clamped step count s': i + s' in [0, W) and s' = n (mod W) *)
  pose proof (Z.quot_rem' n W) as Hqr.
  set (s' := if n <? 0
             then (if n <? - i then (if Z.rem n W <? - i then wrap_i64 (Z.rem n W + W) else Z.rem n W) else n)
             else (if W - i - 1 <? n then (if W - i - 1 <? Z.rem n W then wrap_i64 (Z.rem n W - W) else Z.rem n W) else n)).
  assert (Hs' : 0 <= i + s' < W /\ exists q, s' = n + q * W).
  { unfold s'. destruct (n <? 0) eqn:En; [apply Z.ltb_lt in En|apply Z.ltb_ge in En].
    - assert (Hr : - W < Z.rem n W <= 0).
      { replace n with (- - n) by lia. rewrite Z.rem_opp_l by lia.
        pose proof (Z.rem_bound_pos_pos (- n) W ltac:(lia) ltac:(lia)). lia. }
      destruct (n <? - i) eqn:E4; [apply Z.ltb_lt in E4|apply Z.ltb_ge in E4].
      + destruct (Z.rem n W <? - i) eqn:E5; [apply Z.ltb_lt in E5|apply Z.ltb_ge in E5].
        * rewrite wrap_i64_small by (change (2 ^ 63) with 9223372036854775808; lia).
          split; [lia|]. exists (1 - Z.quot n W). lia.
        * split; [lia|]. exists (- Z.quot n W). lia.
      + split; [lia|]. exists 0. lia.
    - pose proof (Z.rem_bound_pos_pos n W ltac:(lia) ltac:(lia)) as Hr.
      destruct (W - i - 1 <? n) eqn:E4; [apply Z.ltb_lt in E4|apply Z.ltb_ge in E4].
      + destruct (W - i - 1 <? Z.rem n W) eqn:E5; [apply Z.ltb_lt in E5|apply Z.ltb_ge in E5].
        * rewrite wrap_i64_small by (change (2 ^ 63) with 9223372036854775808; lia).
          split; [lia|]. exists (- 1 - Z.quot n W). lia.
        * split; [lia|]. exists (- Z.quot n W). lia.
      + split; [lia|]. exists 0. lia. }
  fold s'. destruct Hs' as [Hrange [q Hq]].
  assert (Emod : (i + n) mod W = i + s').
  { symmetry. apply (Z.mod_unique (i + n) W (- q) (i + s')); [left; lia|]. rewrite Hq. ring. }
  rewrite Emod.
  assert (Eres : c + s' * (2 * b) = (2 * (i + s') + 1) * b) by (rewrite Ec; ring).
  rewrite <- Eres. apply mod64_add_shift. rewrite Eres.
  split; [apply Z.mul_nonneg_nonneg; lia|].
  assert ((2 * (i + s') + 1) * b <= (2 * W - 1) * b) by (apply Z.mul_le_mono_nonneg_r; lia).
  change (2 ^ 64) with (16 * 2 ^ 60). rewrite <- Hs. unfold W in *.
  assert (0 < B * b) by (apply Z.mul_pos_pos; lia). lia.
Qed.

(** AdvanceWrap stays a valid cell of the same level, is periodic, and +-1 are NextWrap/PrevWrap *)
Lemma AdvanceWrap_rep : forall c f l k n, rep c f l k -> - 2 ^ 63 <= n < 2 ^ 63 ->
  let i := (index f l k + n) mod (6 * 4 ^ l) in
  rep (s2_CellID_AdvanceWrap c n) (i / 4 ^ l) l (i mod 4 ^ l).
Proof.
  intros c f l k n H Hn i. rewrite (AdvanceWrap_index _ _ _ _ _ H Hn). fold i.
  pose proof H as (Hf & Hl & Hk & _). pose proof (pow4_pos l ltac:(lia)).
  apply rep_of_index; [lia|]. apply Z.mod_pos_bound. lia.
Qed.

Lemma AdvanceWrap_one : forall c f l k, rep c f l k ->
  s2_CellID_AdvanceWrap c 1 = s2_CellID_NextWrap c /\ s2_CellID_AdvanceWrap c (-1) = s2_CellID_PrevWrap c.
Proof.
  intros c f l k H. split.
  - rewrite (AdvanceWrap_index _ _ _ _ 1 H) by (vm_compute; split; congruence).
    rewrite (NextWrap_index _ _ _ _ H). reflexivity.
  - rewrite (AdvanceWrap_index _ _ _ _ (-1) H) by (vm_compute; split; congruence).
    rewrite (PrevWrap_index _ _ _ _ H). reflexivity.
Qed.

Lemma AdvanceWrap_periodic : forall c f l k n, rep c f l k ->
  - 2 ^ 63 <= n < 2 ^ 63 -> - 2 ^ 63 <= n + 6 * 4 ^ l < 2 ^ 63 ->
  s2_CellID_AdvanceWrap c (n + 6 * 4 ^ l) = s2_CellID_AdvanceWrap c n.
Proof.
  intros c f l k n H Hn Hn'. rewrite !(AdvanceWrap_index _ _ _ _ _ H) by assumption.
  pose proof H as (_ & Hl & _). pose proof (pow4_pos l ltac:(lia)).
  replace (index f l k + (n + 6 * 4 ^ l)) with (index f l k + n + 1 * (6 * 4 ^ l)) by ring.
  rewrite Z.mod_add by lia. reflexivity.
Qed.

Lemma AdvanceWrap_compose : forall c f l k n m, rep c f l k ->
  - 2 ^ 63 <= n < 2 ^ 63 -> - 2 ^ 63 <= m < 2 ^ 63 -> - 2 ^ 63 <= n + m < 2 ^ 63 ->
  s2_CellID_AdvanceWrap (s2_CellID_AdvanceWrap c n) m = s2_CellID_AdvanceWrap c (n + m).
Proof.
  intros c f l k n m H Hn Hm Hnm. pose proof (AdvanceWrap_rep _ _ _ _ _ H Hn) as R. cbv zeta in R.
  rewrite (AdvanceWrap_index _ _ _ _ _ R Hm). rewrite (AdvanceWrap_index _ _ _ _ _ H Hnm).
  pose proof H as (_ & Hl & _). pose proof (pow4_pos l ltac:(lia)).
  unfold index at 1. rewrite (Z.mul_comm (_ / 4 ^ l)). rewrite <- Z.div_mod by lia.
  rewrite Zplus_mod_idemp_l. f_equal. f_equal. f_equal. f_equal. ring.
Qed.
