(** C02 -> C03 -> C04: the parity part of the tiling sentence for the REAL predicates on unit
    points (point := {p | unit_pt p}, peq := Go ==, sign := RobustSign).  No interface law is
    left as a premise: the orientation laws, the Grassmann-Pluecker condition and the guarded
    cyclic-order law are closed theorems of C02/C03 (Proofs/Link_C02_C03_Cyclic.v). *)
From Coq Require Import ZArith List Bool.
From Geo Require Import Model.Crosser Model.Contain Proofs.C03_Extra
  Proofs.C04_Brute Proofs.C04_Polygon Proofs.C04_Tracker Proofs.C04_Tiling
  Proofs.Link_C02_C03 Proofs.Link_C02_C03_Cyclic Proofs.Link_C02_C04.
Import ListNotations.

Section RealTiling.
  Variable refdir : upoint -> upoint.           (* Point.referenceDir *)
  (* ANY crossing predicate: what makes vertex 1 contained is initOriginAndBound's construction *)
  Variable eov : upoint -> upoint -> upoint -> upoint -> bool.
  Variable south : upoint -> bool.
  Variables origin zeroPt : upoint.

  Local Notation acv := (angle_contains_vertex upoint u_sign refdir).

  (** initOriginAndBound with the real AngleContainsVertex: vertex 1 is contained exactly when
      its wedge says so (closed) *)
  Theorem origin_inside_vertex1_real : forall v0 v1 v2 rest,
    brute_contains upoint eov origin zeroPt
      (loop_from_points upoint u_peq eov acv south origin zeroPt (v0 :: v1 :: v2 :: rest)) v1
    = v1_inside upoint u_peq acv v0 v1 v2.
  Proof. exact (origin_inside_vertex1 upoint u_peq eov acv south origin zeroPt). Qed.

  (** of the k loops that fill the k wedges around a vertex o (rays listed CCW, each loop as
      LoopFromPoints sees it with o as vertex 1) exactly one contains o.  The only premise is
      the guard: referenceDir(o) is not o itself. *)
  Theorem loops_around_vertex_exactly_one_real :
    forall (o : upoint), u_peq (refdir o) o = false ->
    forall (rest : upoint -> upoint -> list upoint) u v l,
      ccw_listed upoint u_peq u_sign o (u :: v :: l) ->
      (loop_count upoint u_peq u_sign refdir eov south origin zeroPt o rest (u :: v :: l)
       + Z.b2z (wedge_loop_contains upoint u_peq u_sign refdir eov south origin zeroPt o rest (last l v) u)
       = 1)%Z.
  Proof.
    intros o Ho rest.
    exact (loops_around_vertex_exactly_one upoint u_peq u_sign refdir eov south origin zeroPt
             u_peq_sym u_sign_swap u_sign_range u_sign_zero_iff u_occw_split_ne o Ho rest).
  Qed.
End RealTiling.

(** a family of loops on unit points that uses every edge once in each direction contains every
    point the same number of times modulo 2 — for the exact crossing predicate, no premise *)
Theorem paired_family_parity_spec_real :
  forall (refdir : upoint -> upoint) (origin zeroPt : upoint) (P : polygon upoint),
    edges_paired upoint P ->
    forall p q,
      Nat.odd (length (filter (fun lh => brute_contains upoint (u_eov_spec refdir) origin zeroPt (fst lh) p) P))
      = Nat.odd (length (filter (fun lh => brute_contains upoint (u_eov_spec refdir) origin zeroPt (fst lh) q) P)).
Proof.
  intros refdir origin zeroPt.
  exact (paired_family_count upoint (u_eov_spec refdir) origin zeroPt (u_eov_spec_sym_cd refdir)).
Qed.
