(** C19, s1.Interval.Expanded by a non-negative margin keeps every point.
    FINDING: the full-strength statement is FALSE of the code as it is ([s1_expanded_refuted]):
    the guard  Length + 2*margin + 2*dblEpsilon >= 2*pi  adds 4.4e-16 to a value whose
    ulp is 8.9e-16, so when the computed sum is one ulp below 2*pi the function does not
    return the full circle, the two wrapped endpoints coincide and the result is a single
    point.  What is proved instead: the logical skeleton, for inputs whose guard value is at
    least two ulps below 2*pi ([exp_clear_of_guard]).
    The numeric step (the two wrapped endpoints fl(lo-m) rem 2pi, fl(hi+m) rem 2pi enclose the
    original arc whenever the 2*dblEpsilon guard did not already return the full circle) is the
    named hypothesis [H_S1EXPAND], a statement about float expressions and reals only; the
    theorem adds the code's case analysis: empty, full, the two normalisations of -pi in
    IntervalFromEndpoints and the final Lo <= -pi fix. *)
From Coq Require Import ZArith Reals Floats Lra Bool List.
From Geo Require Import Base.GoPrim Base.F64 Gen.S1 Proofs.C19_S1.
Local Open Scope R_scope.

Definition TWOPI : PrimFloat.float := (0x1.921fb54442d18p+02)%float.
Definition exp_lo (lo m : PrimFloat.float) := go_remainder (PrimFloat.sub lo m) TWOPI.
Definition exp_hi (hi m : PrimFloat.float) := go_remainder (PrimFloat.add hi m) TWOPI.
Definition exp_full_guard (lo hi m : PrimFloat.float) : bool :=
  PrimFloat.leb TWOPI
    (PrimFloat.add (PrimFloat.add (s1_Interval_Length (mk_s1_Interval lo hi)) (PrimFloat.mul 2%float m))
                   (PrimFloat.mul 2%float s1_dblEpsilon)).
(** the value the guard compares with 2*pi, and "at least two ulps below 2*pi" *)
Definition exp_guard_value (lo hi m : PrimFloat.float) : PrimFloat.float :=
  PrimFloat.add (PrimFloat.add (s1_Interval_Length (mk_s1_Interval lo hi)) (PrimFloat.mul 2%float m))
                (PrimFloat.mul 2%float s1_dblEpsilon).
Definition TWOPI_M2 : PrimFloat.float := (0x1.921fb54442d16p+02)%float.
Definition exp_clear_of_guard (lo hi m : PrimFloat.float) : Prop :=
  PrimFloat.leb (exp_guard_value lo hi m) TWOPI_M2 = true.
(** the upper endpoint after the code's normalisation, on ranks *)
Definition norm_hi (l h : R) : R := if Req_EM_T h (- rpi) then (if Req_EM_T l rpi then h else rpi) else h.

Definition H_S1EXPAND : Prop :=
  forall lo hi m, valid_s1 (mk_s1_Interval lo hi) ->
    s1_Interval_IsEmpty (mk_s1_Interval lo hi) = false ->
    nonnan m -> 0 <= rank m -> exp_clear_of_guard lo hi m ->
    vpt (exp_lo lo m) /\ vpt (exp_hi hi m) /\
    forall y, - rpi < y <= rpi -> memR (rank lo) (rank hi) y ->
      memR (normR (rank (exp_lo lo m))) (norm_hi (rank (exp_lo lo m)) (rank (exp_hi hi m))) y.

Lemma clear_guard_false lo hi m : exp_clear_of_guard lo hi m -> exp_full_guard lo hi m = false.
Proof.
  unfold exp_clear_of_guard, exp_full_guard. fold (exp_guard_value lo hi m). intros C.
  destruct (go_isnan (exp_guard_value lo hi m)) eqn:N.
  { rewrite (leb_nan_l _ _ N) in C. discriminate. }
  apply leb_true_iff in C; [|exact N|reflexivity].
  apply leb_false_iff; [reflexivity|exact N|].
  assert (Q : PrimFloat.ltb TWOPI_M2 TWOPI = true) by reflexivity.
  apply ltb_true_iff in Q; try reflexivity. lra.
Qed.
(** outside the one-ulp danger zone: the guard fires, or it is at least two ulps away *)
Definition exp_safe (i : s1_Interval) (m : PrimFloat.float) : Prop :=
  s1_Interval_IsEmpty i = true \/
  exp_full_guard (s1_Interval_Lo i) (s1_Interval_Hi i) m = true \/
  exp_clear_of_guard (s1_Interval_Lo i) (s1_Interval_Hi i) m.

Section UnderH.
Hypothesis H : H_S1EXPAND.

Lemma expanded_result lo hi m : valid_s1 (mk_s1_Interval lo hi) ->
  s1_Interval_IsEmpty (mk_s1_Interval lo hi) = false -> nonnan m -> 0 <= rank m ->
  exp_clear_of_guard lo hi m ->
  let r := s1_Interval_Expanded (mk_s1_Interval lo hi) m in
  vpt (s1_Interval_Lo r) /\ vpt (s1_Interval_Hi r) /\
  rank (s1_Interval_Lo r) = normR (rank (exp_lo lo m)) /\
  rank (s1_Interval_Hi r) = norm_hi (rank (exp_lo lo m)) (rank (exp_hi hi m)).
Proof.
  intros V E Nm Hm C. pose proof (clear_guard_false lo hi m C) as G.
  destruct (H lo hi m V E Nm Hm C) as [[Nl Rl] [[Nh Rh] _]].
  unfold s1_Interval_Expanded.
  assert (M : PrimFloat.leb 0%float m = true).
  { apply leb_true_iff; [reflexivity|exact Nm|]. rewrite rank_zero. exact Hm. }
  rewrite M, E. unfold exp_full_guard in G. fold TWOPI. rewrite G.
  cbn [s1_Interval_Lo s1_Interval_Hi].
  change (go_remainder (PrimFloat.sub lo m) TWOPI) with (exp_lo lo m).
  change (go_remainder (PrimFloat.add hi m) TWOPI) with (exp_hi hi m).
  set (l := exp_lo lo m) in *. set (h := exp_hi hi m) in *. clearbody l h.
  unfold inrange in *. pose proof rpi_pos as Pp.
  unfold norm_hi.
  destruct (normR_cases (rank l)) as [[L1 Ln]|[L1 Ln]]; rewrite Ln;
  destruct (Req_EM_T (rank h) (- rpi)) as [H1|H1]; try destruct (Req_EM_T (rank l) rpi) as [L2|L2];
  s1_unfold; if_reflect; cbn [s1_Interval_Lo s1_Interval_Hi] in *;
  unfold vpt, inrange; rewrite ?rank_NPI; fold rpi;
  repeat split; try assumption; try reflexivity; try lra.
Qed.

Theorem s1_expanded_valid_under_H i m : valid_s1 i -> nonnan m -> 0 <= rank m -> exp_safe i m ->
  valid_s1 (s1_Interval_Expanded i m).
Proof.
  destruct i as [lo hi]. intros V Nm Hm S. unfold exp_safe in S. cbn [s1_Interval_Lo s1_Interval_Hi] in S.
  assert (M : PrimFloat.leb 0%float m = true)
    by (apply leb_true_iff; [reflexivity|exact Nm|]; rewrite rank_zero; exact Hm).
  destruct (s1_Interval_IsEmpty (mk_s1_Interval lo hi)) eqn:E.
  { unfold s1_Interval_Expanded. rewrite M, E. exact V. }
  destruct (exp_full_guard lo hi m) eqn:G.
  { unfold s1_Interval_Expanded.
    rewrite M, E. unfold exp_full_guard in G. fold TWOPI. rewrite G. apply s1_full_valid. }
  assert (C : exp_clear_of_guard lo hi m) by (destruct S as [S|[S|S]]; [congruence|congruence|exact S]).
  destruct (expanded_result lo hi m V E Nm Hm C) as [VL [VH [EL EH]]].
  destruct (H lo hi m V E Nm Hm C) as [[Nl Rl] [[Nh Rh] _]].
  unfold valid_s1. split; [exact VL|]. split; [exact VH|].
  rewrite EL, EH. unfold norm_hi, inrange in *. pose proof rpi_pos.
  destruct (normR_cases (rank (exp_lo lo m))) as [[L1 Ln]|[L1 Ln]]; rewrite Ln;
  destruct (Req_EM_T (rank (exp_hi hi m)) (- rpi)); try destruct (Req_EM_T (rank (exp_lo lo m)) rpi);
  split; intros; lra.
Qed.

Theorem s1_expanded_sound_under_H i m x : valid_s1 i -> nonnan m -> 0 <= rank m -> exp_safe i m ->
  inrange x -> mem_s1 i x -> mem_s1 (s1_Interval_Expanded i m) x.
Proof.
  destruct i as [lo hi]. intros V Nm Hm S Hx Hmem. unfold exp_safe in S. cbn [s1_Interval_Lo s1_Interval_Hi] in S.
  assert (M : PrimFloat.leb 0%float m = true)
    by (apply leb_true_iff; [reflexivity|exact Nm|]; rewrite rank_zero; exact Hm).
  destruct (s1_Interval_IsEmpty (mk_s1_Interval lo hi)) eqn:E.
  { unfold s1_Interval_Expanded. rewrite M, E. exact Hmem. }
  destruct (exp_full_guard lo hi m) eqn:G.
  { unfold s1_Interval_Expanded. rewrite M, E. unfold exp_full_guard in G. fold TWOPI. rewrite G.
    apply (proj1 (s1_isfull_spec _ s1_full_valid) s1_full_isfull x Hx). }
  assert (C : exp_clear_of_guard lo hi m) by (destruct S as [S|[S|S]]; [congruence|congruence|exact S]).
  destruct (expanded_result lo hi m V E Nm Hm C) as [_ [_ [EL EH]]].
  destruct (H lo hi m V E Nm Hm C) as [_ [_ Hall]].
  unfold mem_s1 in *. cbn [s1_Interval_Lo s1_Interval_Hi] in Hmem. rewrite EL, EH.
  apply Hall; [apply normR_range; exact Hx|exact Hmem].
Qed.
End UnderH.

(** * The finding: without the premise [exp_safe] the statement is false of the code as it is *)
Lemma s1_expanded_refuted : exists i m p,
  s1_Interval_IsValid i = true /\ PrimFloat.leb 0%float m = true /\
  s1_Interval_Contains i p = true /\
  s1_Interval_IsValid (s1_Interval_Expanded i m) = true /\
  s1_Interval_Contains (s1_Interval_Expanded i m) p = false.
Proof.
  exists (mk_s1_Interval (-3)%float (0x1.0000000000001p+0)%float), (0x1.243f6a8885a2ep+0)%float, (-3)%float.
  vm_compute. repeat split; reflexivity.
Qed.
(** the witness sits exactly one ulp below the guard, and the result is a single point *)
Lemma s1_expanded_refuted_shape :
  let i := mk_s1_Interval (-3)%float (0x1.0000000000001p+0)%float in
  let m := (0x1.243f6a8885a2ep+0)%float in
  fbiteq (exp_guard_value (-3)%float (0x1.0000000000001p+0)%float m) (0x1.921fb54442d17p+02)%float = true /\
  s1_Interval_eqbits (s1_Interval_Expanded i m)
    (mk_s1_Interval (0x1.121fb54442d18p+1)%float (0x1.121fb54442d18p+1)%float) = true.
Proof. vm_compute. split; reflexivity. Qed.
(** the premise is satisfiable *)
Example ex_exp_safe : exp_safe (mk_s1_Interval (-3)%float 1%float) 1%float.
Proof. right. right. vm_compute. reflexivity. Qed.
