(** C19, s1.Interval.Expanded by a non-negative margin keeps every point (part 2).
    History: the guard  Length + 2*margin + 2*dblEpsilon >= 2*pi  of the original code added half
    an ulp of 2*pi and missed by one ulp ([s1_expanded_old_refuted]); /repo commit 44b3e8d
    enlarged it to 16*dblEpsilon.  With that guard the rounding analysis closes: this file proves
    the statement from the single named hypothesis [H_REMAINDER] (math.Remainder(x, 2*pi) is
    exact), for every valid interval and every non-NaN margin >= 0 (including +Inf) ...
    History 2: Length() used to return -1 for the valid, non-empty interval {pi, succ(-pi)} (its
    true length 2^-51 vanishes when 2*pi is added), so the guard did not fire for margins in
    [pi, pi+1/2) and the result lost every point ([s1_expanded_oldlength_refuted]); /repo commit
    e59a11e returns 0 there.  [length_spec] now gives Length() >= 0 for every valid non-empty
    interval and the theorems hold without further premise. *)
From Coq Require Import ZArith Reals Floats Lra Lia Bool List Psatz.
From Flocq Require Import Core.Core IEEE754.BinarySingleNaN IEEE754.PrimFloat.
From Geo Require Import Base.GoPrim Base.F64 Base.F64Arith Gen.S1 Proofs.C19_S1.
From Geo Require Proofs.C19_Arith.
From Geo Require Import Proofs.C19_S1_ExpArc.
Local Open Scope R_scope.

Definition TWOPI : PrimFloat.float := (0x1.921fb54442d18p+02)%float.
Definition C16 : PrimFloat.float := (0x1.ffffffff081a2p-49)%float.
Lemma C16_is : PrimFloat.mul (0x1p+04)%float s1_dblEpsilon = C16. Proof. reflexivity. Qed.

Definition qpi : R := 7074237752028440 / 2251799813685248.
Lemma rpi_val : rpi = qpi.
Proof. unfold rpi, qpi. rewrite (rank_fin PI (lit_fin PI false 7074237752028440%positive (-51)%Z eq_refl)). lit_value. Qed.
Lemma twopi_val : RV TWOPI = 2 * qpi.
Proof. unfold qpi. lit_value. Qed.
Lemma c16_val : RV C16 = 9007199253725602 / 2535301200456458802993406410752.
Proof. lit_value. Qed.
Lemma u51_val : u51 = / 2251799813685248.
Proof. unfold u51, bpow. simpl. reflexivity. Qed.
Lemma two_val : RV 2%float = 2. Proof. lit_value. Qed.

Lemma ok8 : okbound 8. Proof. apply (okbound_IZR 8). lia. Qed.

Lemma sub8 x y : fin x -> fin y -> Rabs (RV x - RV y) < 8 ->
  fin (PrimFloat.sub x y) /\ RV (PrimFloat.sub x y) = rnd (RV x - RV y) /\
  Rabs (RV (PrimFloat.sub x y) - (RV x - RV y)) <= u51.
Proof.
  intros Fx Fy H.
  destruct (sub_fin x y Fx Fy (below_top _ 8 ok8 (Rlt_le _ _ H))) as [F E].
  split; [exact F|]. split; [exact E|]. rewrite E. apply err8. exact H.
Qed.
Lemma add8 x y : fin x -> fin y -> Rabs (RV x + RV y) < 8 ->
  fin (PrimFloat.add x y) /\ RV (PrimFloat.add x y) = rnd (RV x + RV y) /\
  Rabs (RV (PrimFloat.add x y) - (RV x + RV y)) <= u51.
Proof.
  intros Fx Fy H.
  destruct (add_fin x y Fx Fy (below_top _ 8 ok8 (Rlt_le _ _ H))) as [F E].
  split; [exact F|]. split; [exact E|]. rewrite E. apply err8. exact H.
Qed.

(** comparisons of finite floats on values *)
Lemma leb_RV x y : fin x -> fin y -> (PrimFloat.leb x y = true <-> RV x <= RV y).
Proof.
  intros Fx Fy. rewrite (leb_true_iff x y (fin_nonnan x Fx) (fin_nonnan y Fy)).
  rewrite (rank_fin x Fx), (rank_fin y Fy). tauto.
Qed.
Lemma leb_RV_false x y : fin x -> fin y -> (PrimFloat.leb x y = false <-> RV y < RV x).
Proof.
  intros Fx Fy. rewrite (leb_false_iff x y (fin_nonnan x Fx) (fin_nonnan y Fy)).
  rewrite (rank_fin x Fx), (rank_fin y Fy). tauto.
Qed.
Lemma ltb_RV x y : fin x -> fin y -> (PrimFloat.ltb x y = true <-> RV x < RV y).
Proof.
  intros Fx Fy. rewrite (ltb_true_iff x y (fin_nonnan x Fx) (fin_nonnan y Fy)).
  rewrite (rank_fin x Fx), (rank_fin y Fy). tauto.
Qed.
Lemma ltb_RV_false x y : fin x -> fin y -> (PrimFloat.ltb x y = false <-> RV y <= RV x).
Proof.
  intros Fx Fy. rewrite (ltb_false_iff x y (fin_nonnan x Fx) (fin_nonnan y Fy)).
  rewrite (rank_fin x Fx), (rank_fin y Fy). tauto.
Qed.

Lemma vpt_fin p : vpt p -> fin p /\ - qpi <= RV p <= qpi.
Proof.
  intros [N R]. unfold inrange in R. pose proof rpi_lt_top. pose proof rpi_pos.
  assert (F : fin p) by (apply C19_Arith.rank_fin; [exact N|lra]).
  split; [exact F|]. rewrite <- (rank_fin p F), <- rpi_val. exact R.
Qed.

Lemma abs_lt a b : - b < a < b -> Rabs a < b.
Proof. intros. apply Rabs_def1; lra. Qed.
Lemma abs_le_inv a b : Rabs a <= b -> - b <= a <= b.
Proof. intros H. apply Rabs_le_inv. exact H. Qed.

Definition mone : PrimFloat.float := (-0x1p+00)%float.
Lemma mone_val : RV mone = -1. Proof. unfold mone. lit_value. Qed.

(** what Length computes, against the true arc length *)
Lemma length_spec lo hi : fin lo -> fin hi -> - qpi <= RV lo <= qpi -> - qpi <= RV hi <= qpi ->
  s1_Interval_IsEmpty (mk_s1_Interval lo hi) = false ->
  let L := s1_Interval_Length (mk_s1_Interval lo hi) in
  fin L /\ 0 <= RV L < 8 /\
  (RV lo <= RV hi -> Rabs (RV L - (RV hi - RV lo)) <= u51) /\
  (RV hi < RV lo ->
     (0 <= RV L -> Rabs (RV L - (RV hi - RV lo + 2 * qpi)) <= 2 * u51) /\
     (RV L < 0 -> RV hi - RV lo + 2 * qpi <= 2 * u51)).
Proof.
  intros Flo Fhi Rlo Rhi E. unfold s1_Interval_Length. rewrite E. cbn [s1_Interval_Lo s1_Interval_Hi].
  fold TWOPI.
  assert (Q : qpi = 7074237752028440 / 2251799813685248) by reflexivity.
  pose proof u51_val as U.
  destruct (sub8 hi lo Fhi Flo ltac:(apply abs_lt; lra)) as [F0 [E0 D0]].
  set (d0 := PrimFloat.sub hi lo) in *.
  apply abs_le_inv in D0.
  destruct (PrimFloat.leb 0%float d0) eqn:C0.
  - apply (leb_RV _ _ zero_fin F0) in C0. rewrite zero_RV in C0.
    split; [exact F0|]. split; [lra|]. split.
    + intros _. apply Rabs_le. lra.
    + intros Hinv. exfalso.
      pose proof (rnd_sub_neg (RV hi) (RV lo) (repr_RV hi) (repr_RV lo) Hinv). lra.
  - apply (leb_RV_false _ _ zero_fin F0) in C0. rewrite zero_RV in C0.
    assert (Hinv : RV hi < RV lo).
    { destruct (Rlt_le_dec (RV hi) (RV lo)); [assumption|exfalso].
      assert (0 <= rnd (RV hi - RV lo)) by (rewrite <- rnd_0; apply rnd_le; lra). lra. }
    pose proof twopi_val as TV.
    destruct (add8 d0 TWOPI F0 (lit_fin TWOPI false 7074237752028440%positive (-50)%Z eq_refl)
                ltac:(apply abs_lt; lra)) as [F1 [E1 D1]].
    set (d1 := PrimFloat.add d0 TWOPI) in *. apply abs_le_inv in D1.
    destruct (PrimFloat.ltb 0%float d1) eqn:C1.
    + apply (ltb_RV _ _ zero_fin F1) in C1. rewrite zero_RV in C1.
      split; [exact F1|]. split; [lra|]. split; [intros; lra|].
      intros _. split; [intros _; apply Rabs_le; lra|intros; lra].
    + apply (ltb_RV_false _ _ zero_fin F1) in C1. rewrite zero_RV in C1.
      rewrite zero_RV.
      split; [exact zero_fin|]. split; [lra|]. split; [intros; lra|].
      intros _. split; [intros _; apply Rabs_le; lra|intros; lra].
Qed.

(** Length() is non-negative on every valid non-empty interval (the -1 sentinel is for empty only) *)
Lemma length_nonneg i : valid_s1 i -> s1_Interval_IsEmpty i = false ->
  PrimFloat.leb 0%float (s1_Interval_Length i) = true.
Proof.
  destruct i as [lo hi]. intros [Vlo [Vhi _]] E. cbn [s1_Interval_Lo s1_Interval_Hi] in *.
  destruct (vpt_fin lo Vlo) as [Flo Rlo]. destruct (vpt_fin hi Vhi) as [Fhi Rhi].
  destruct (length_spec lo hi Flo Fhi Rlo Rhi E) as [FL [BL _]].
  apply (leb_RV _ _ zero_fin FL). rewrite zero_RV. lra.
Qed.

(** * The numeric core of Expanded *)
Definition exp_lo (lo m : PrimFloat.float) := go_remainder (PrimFloat.sub lo m) TWOPI.
Definition exp_hi (hi m : PrimFloat.float) := go_remainder (PrimFloat.add hi m) TWOPI.
Definition exp_full_guard (lo hi m : PrimFloat.float) : bool :=
  PrimFloat.leb TWOPI
    (PrimFloat.add (PrimFloat.add (s1_Interval_Length (mk_s1_Interval lo hi)) (PrimFloat.mul 2%float m))
                   (PrimFloat.mul (0x1p+04)%float s1_dblEpsilon)).
(** math.Remainder(x, 2*pi) is exact: x minus an integer multiple of 2*pi, in [-pi,pi], and the
    identity on [-pi,pi] *)
Definition H_REMAINDER : Prop := forall x, fin x ->
  let r := go_remainder x TWOPI in
  fin r /\ - qpi <= RV r <= qpi /\ (exists k : Z, RV r = RV x - IZR k * (2 * qpi)) /\
  (- qpi <= RV x <= qpi -> RV r = RV x).

Lemma twopi_fin : fin TWOPI.
Proof. apply (lit_fin TWOPI false 7074237752028440%positive (-50)%Z). reflexivity. Qed.
Lemma c16_fin : fin C16.
Proof. apply (lit_fin C16 false 9007199253725602%positive (-101)%Z). reflexivity. Qed.
Lemma two_fin : fin 2%float.
Proof. apply (lit_fin 2%float false 4503599627370496%positive (-51)%Z). reflexivity. Qed.

Lemma guard_fires_big lo hi m : fin lo -> fin hi -> - qpi <= RV lo <= qpi -> - qpi <= RV hi <= qpi ->
  s1_Interval_IsEmpty (mk_s1_Interval lo hi) = false ->
  nonnan m -> 4 <= rank m -> exp_full_guard lo hi m = true.
Proof.
  intros Flo Fhi Rlo Rhi E Nm Hm. unfold exp_full_guard. rewrite C16_is.
  destruct (length_spec lo hi Flo Fhi Rlo Rhi E) as [FL [BL _]].
  set (L := s1_Interval_Length (mk_s1_Interval lo hi)) in *.
  destruct (C19_Arith.mul2_ge8 m Nm Hm) as [N2 H2].
  destruct (C19_Arith.add_ge7 L _ FL ltac:(rewrite (rank_fin L FL); lra) N2 H2) as [N1 H1].
  pose proof (C19_Arith.nonnan_add_fin _ C16 N1 c16_fin ltac:(lra)) as Ng.
  assert (Hc : 0 <= rank C16) by (rewrite (rank_fin C16 c16_fin), c16_val; lra).
  pose proof (C19_Arith.rank_add_ge _ C16 N1 (fin_nonnan _ c16_fin) Hc Ng) as Hg.
  apply leb_true_iff; [apply fin_nonnan; exact twopi_fin|exact Ng|].
  rewrite (rank_fin TWOPI twopi_fin), twopi_val. unfold qpi. lra.
Qed.

Lemma ok32 : okbound 32. Proof. apply (okbound_IZR 32). lia. Qed.

Lemma k_zero (k : Z) (x y : R) : y = x - IZR k * (2 * qpi) -> y = x -> k = 0%Z.
Proof.
  intros H1 H2. assert (Z1 : IZR k * (2 * qpi) = 0) by lra.
  apply Rmult_integral in Z1. destruct Z1 as [Z0|Z0]; [apply eq_IZR in Z0; exact Z0|].
  exfalso. unfold qpi in Z0. lra.
Qed.

Section Num.
Hypothesis HR : H_REMAINDER.

Lemma expand_numeric lo hi m : valid_s1 (mk_s1_Interval lo hi) ->
  s1_Interval_IsEmpty (mk_s1_Interval lo hi) = false ->
  nonnan m -> 0 <= rank m -> exp_full_guard lo hi m = false ->
  vpt (exp_lo lo m) /\ vpt (exp_hi hi m) /\
  forall y, - rpi < y <= rpi -> memR (rank lo) (rank hi) y ->
    memR (normR (rank (exp_lo lo m))) (norm_hi (rank (exp_lo lo m)) (rank (exp_hi hi m))) y.
Proof.
  intros V E Nm Hm G.
  destruct V as [Vlo [Vhi [V1 V2]]]. cbn [s1_Interval_Lo s1_Interval_Hi] in *.
  destruct (vpt_fin lo Vlo) as [Flo Rlo]. destruct (vpt_fin hi Vhi) as [Fhi Rhi].
  rewrite (rank_fin lo Flo), (rank_fin hi Fhi) in *.
  assert (Ne : ~ (RV lo = rpi /\ RV hi = - rpi)).
  { unfold s1_Interval_IsEmpty in E. cbn [s1_Interval_Lo s1_Interval_Hi] in E. pi_consts.
    intros [A B]. apply andb_false_iff in E. destruct E as [E|E];
    apply eqb_false_iff in E; try (apply fin_nonnan; assumption); try reflexivity;
    rewrite ?rank_NPI in E; fold rpi in E; rewrite ?(rank_fin lo Flo), ?(rank_fin hi Fhi) in E; lra. }
  (* large margins make the guard fire *)
  destruct (Rle_lt_dec 4 (rank m)) as [Big|Small].
  { rewrite (guard_fires_big lo hi m Flo Fhi Rlo Rhi E Nm Big) in G. discriminate. }
  pose proof top_pos as Tp.
  assert (T4 : 4 < top) by (unfold top; change 4 with (bpow radix2 2); apply bpow_lt; reflexivity).
  assert (Fm : fin m) by (apply C19_Arith.rank_fin; [exact Nm|lra]).
  rewrite (rank_fin m Fm) in *.
  pose proof rpi_val as RP. pose proof u51_val as U. pose proof c16_val as CV. pose proof twopi_val as TV.
  assert (Q : qpi = 7074237752028440 / 2251799813685248) by reflexivity.
  destruct (length_spec lo hi Flo Fhi Rlo Rhi E) as [FL [BL [Ln Li]]].
  unfold exp_full_guard in G. rewrite C16_is in G.
  set (L := s1_Interval_Length (mk_s1_Interval lo hi)) in *.
  (* 2*m *)
  assert (A2 : Rabs (RV 2%float * RV m) <= 8) by (rewrite two_val; apply Rabs_le; lra).
  destruct (mul_fin 2%float m two_fin Fm (below_top _ 8 ok8 A2)) as [F2 E2].
  rewrite two_val in E2.
  assert (A3 : Rabs (2 * RV m) < 8) by (apply abs_lt; lra).
  pose proof (err8 (2 * RV m) A3) as D2. rewrite <- E2 in D2. apply abs_le_inv in D2.
  set (M2 := PrimFloat.mul 2%float m) in *.
  (* L + 2m, + 16 eps *)
  assert (A1 : Rabs (RV L + RV M2) <= 32) by (apply Rabs_le; lra).
  destruct (add_fin L M2 FL F2 (below_top _ 32 ok32 A1)) as [F1 E1].
  set (g1 := PrimFloat.add L M2) in *.
  assert (B1 : -2 <= RV g1 <= 32).
  { rewrite E1. split.
    - rewrite <- (rnd_repr (-2)) by (apply (repr_IZR (-2)); simpl; lia). apply rnd_le. lra.
    - rewrite <- (rnd_repr 32) by (apply (repr_IZR 32); simpl; lia). apply rnd_le. lra. }
  assert (Ag : Rabs (RV g1 + RV C16) <= 64) by (apply Rabs_le; lra).
  destruct (add_fin g1 C16 F1 c16_fin (below_top _ 64 (okbound_IZR 64 ltac:(lia)) Ag)) as [Fg Eg].
  set (g2 := PrimFloat.add g1 C16) in *.
  apply (leb_RV_false _ _ twopi_fin Fg) in G.
  assert (S1 : RV g1 + RV C16 < 2 * qpi).
  { destruct (Rlt_le_dec (RV g1 + RV C16) (2 * qpi)) as [|Ge]; [assumption|exfalso].
    assert (RV TWOPI <= RV g2).
    { rewrite Eg. rewrite <- (rnd_repr (RV TWOPI)) by apply repr_RV. apply rnd_le. lra. }
    lra. }
  assert (S0 : RV L + RV M2 < 8).
  { destruct (Rlt_le_dec (RV L + RV M2) 8) as [|Ge]; [assumption|exfalso].
    assert (8 <= RV g1).
    { rewrite E1. rewrite <- (rnd_repr 8) by (apply (repr_IZR 8); simpl; lia). apply rnd_le. lra. }
    lra. }
  assert (A4 : Rabs (RV L + RV M2) < 8) by (apply abs_lt; lra).
  pose proof (err8 (RV L + RV M2) A4) as D1. rewrite <- E1 in D1. apply abs_le_inv in D1.
  (* the two new endpoints before wrapping *)
  assert (A5 : Rabs (RV lo - RV m) < 8) by (apply abs_lt; lra).
  assert (A6 : Rabs (RV hi + RV m) < 8) by (apply abs_lt; lra).
  destruct (sub8 lo m Flo Fm A5) as [Fa [Ea Da]]. apply abs_le_inv in Da.
  destruct (add8 hi m Fhi Fm A6) as [Fb [Eb Db]]. apply abs_le_inv in Db.
  assert (Ale : RV (PrimFloat.sub lo m) <= RV lo).
  { rewrite Ea. rewrite <- (rnd_repr (RV lo)) at 2 by apply repr_RV. apply rnd_le. lra. }
  assert (Bge : RV hi <= RV (PrimFloat.add hi m)).
  { rewrite Eb. rewrite <- (rnd_repr (RV hi)) at 1 by apply repr_RV. apply rnd_le. lra. }
  set (a := PrimFloat.sub lo m) in *. set (b := PrimFloat.add hi m) in *.
  destruct (HR a Fa) as [Fl [Rl [[k Kl] Il]]]. destruct (HR b Fb) as [Fh [Rh [[j Kh] Ih]]].
  change (go_remainder a TWOPI) with (exp_lo lo m) in *. change (go_remainder b TWOPI) with (exp_hi hi m) in *.
  set (l := exp_lo lo m) in *. set (h := exp_hi hi m) in *.
  split; [split; [apply fin_nonnan; exact Fl|unfold inrange; rewrite (rank_fin l Fl); lra]|].
  split; [split; [apply fin_nonnan; exact Fh|unfold inrange; rewrite (rank_fin h Fh); lra]|].
  rewrite (rank_fin l Fl), (rank_fin h Fh).
  assert (LK' : 0 <= RV L \/ RV m <= 3) by (left; lra).
  assert (P1 : - rpi <= RV lo <= rpi) by (clear - Rlo RP; lra).
  assert (P2 : - rpi <= RV hi <= rpi) by (clear - Rhi RP; lra).
  assert (Dn : RV lo <= RV hi -> RV b - RV a < 2 * rpi).
  { intros O. specialize (Ln O). apply abs_le_inv in Ln. lra. }
  assert (Di : RV hi < RV lo -> RV b < RV a).
  { intros O. destruct (Li O) as [Li1 Li2].
    destruct (Rle_lt_dec 0 (RV L)) as [P0|N0].
    - specialize (Li1 P0). apply abs_le_inv in Li1. lra.
    - specialize (Li2 N0). destruct LK' as [?|M3]; lra. }
  assert (El : RV l = RV a - IZR k * (2 * rpi)) by (rewrite RP; exact Kl).
  assert (Eh : RV h = RV b - IZR j * (2 * rpi)) by (rewrite RP; exact Kh).
  assert (Rl' : - rpi <= RV l <= rpi) by (clear - Rl RP; lra).
  assert (Rh' : - rpi <= RV h <= rpi) by (clear - Rh RP; lra).
  assert (Ka : - rpi <= RV a <= rpi -> k = 0%Z)
    by (intros Ia; rewrite RP in Ia; exact (k_zero k _ _ Kl (Il Ia))).
  assert (Kb : - rpi <= RV b <= rpi -> j = 0%Z)
    by (intros Ib; rewrite RP in Ib; exact (k_zero j _ _ Kh (Ih Ib))).
  exact (arc_cover (RV lo) (RV hi) (RV a) (RV b) (RV l) (RV h) k j P1 P2 V1 V2 Ne Ale Bge Dn Di El Eh Rl' Rh' Ka Kb).
Qed.
End Num.

(** * The code's case analysis around the numeric core *)
Section UnderH.
Hypothesis HR : H_REMAINDER.

Lemma leb0_m m : nonnan m -> 0 <= rank m -> PrimFloat.leb 0%float m = true.
Proof. intros Nm Hm. apply leb_true_iff; [reflexivity|exact Nm|]. rewrite rank_zero. exact Hm. Qed.

Lemma expanded_unfold lo hi m : nonnan m -> 0 <= rank m ->
  s1_Interval_IsEmpty (mk_s1_Interval lo hi) = false -> exp_full_guard lo hi m = false ->
  s1_Interval_Expanded (mk_s1_Interval lo hi) m =
  (let r := s1_IntervalFromEndpoints (exp_lo lo m) (exp_hi hi m) in
   if PrimFloat.leb (s1_Interval_Lo r) NPI then set_s1_Interval_Lo r PI else r).
Proof.
  intros Nm Hm E G. unfold s1_Interval_Expanded. rewrite (leb0_m m Nm Hm), E.
  unfold exp_full_guard in G. fold TWOPI. rewrite G. reflexivity.
Qed.

Lemma expanded_result lo hi m : valid_s1 (mk_s1_Interval lo hi) ->
  s1_Interval_IsEmpty (mk_s1_Interval lo hi) = false -> nonnan m -> 0 <= rank m ->
  exp_full_guard lo hi m = false ->
  let r := s1_Interval_Expanded (mk_s1_Interval lo hi) m in
  vpt (s1_Interval_Lo r) /\ vpt (s1_Interval_Hi r) /\
  rank (s1_Interval_Lo r) = normR (rank (exp_lo lo m)) /\
  rank (s1_Interval_Hi r) = norm_hi (rank (exp_lo lo m)) (rank (exp_hi hi m)).
Proof.
  intros V E Nm Hm G.
  destruct (expand_numeric HR lo hi m V E Nm Hm G) as [[Nl Rl] [[Nh Rh] _]].
  rewrite (expanded_unfold lo hi m Nm Hm E G).
  set (l := exp_lo lo m) in *. set (h := exp_hi hi m) in *. clearbody l h.
  unfold inrange in *. pose proof rpi_pos as Pp.
  unfold norm_hi.
  destruct (normR_cases (rank l)) as [[L1 Ln]|[L1 Ln]]; rewrite Ln;
  destruct (Req_EM_T (rank h) (- rpi)) as [H1|H1]; try destruct (Req_EM_T (rank l) rpi) as [L2|L2];
  s1_unfold; if_reflect; cbn [s1_Interval_Lo s1_Interval_Hi] in *;
  unfold vpt, inrange; rewrite ?rank_NPI; fold rpi;
  repeat split; try assumption; try reflexivity; try lra.
Qed.

Theorem s1_expanded_valid_under_H i m : valid_s1 i -> nonnan m -> 0 <= rank m ->
  valid_s1 (s1_Interval_Expanded i m).
Proof.
  destruct i as [lo hi]. cbn [s1_Interval_Lo s1_Interval_Hi]. intros V Nm Hm.
  destruct (s1_Interval_IsEmpty (mk_s1_Interval lo hi)) eqn:E.
  { unfold s1_Interval_Expanded. rewrite (leb0_m m Nm Hm), E. exact V. }
  destruct (exp_full_guard lo hi m) eqn:G.
  { unfold s1_Interval_Expanded. rewrite (leb0_m m Nm Hm), E.
    unfold exp_full_guard in G. fold TWOPI. rewrite G. apply s1_full_valid. }
  destruct (expanded_result lo hi m V E Nm Hm G) as [VL [VH [EL EH]]].
  destruct (expand_numeric HR lo hi m V E Nm Hm G) as [[Nl Rl] [[Nh Rh] _]].
  unfold valid_s1. split; [exact VL|]. split; [exact VH|].
  rewrite EL, EH. unfold norm_hi, inrange in *. pose proof rpi_pos.
  destruct (normR_cases (rank (exp_lo lo m))) as [[L1 Ln]|[L1 Ln]]; rewrite Ln;
  destruct (Req_EM_T (rank (exp_hi hi m)) (- rpi)); try destruct (Req_EM_T (rank (exp_lo lo m)) rpi);
  split; intros; lra.
Qed.

Theorem s1_expanded_sound_under_H i m x : valid_s1 i -> nonnan m -> 0 <= rank m ->
  inrange x -> mem_s1 i x -> mem_s1 (s1_Interval_Expanded i m) x.
Proof.
  destruct i as [lo hi]. cbn [s1_Interval_Lo s1_Interval_Hi]. intros V Nm Hm Hx Hmem.
  destruct (s1_Interval_IsEmpty (mk_s1_Interval lo hi)) eqn:E.
  { unfold s1_Interval_Expanded. rewrite (leb0_m m Nm Hm), E. exact Hmem. }
  destruct (exp_full_guard lo hi m) eqn:G.
  { unfold s1_Interval_Expanded. rewrite (leb0_m m Nm Hm), E.
    unfold exp_full_guard in G. fold TWOPI. rewrite G.
    apply (proj1 (s1_isfull_spec _ s1_full_valid) s1_full_isfull x Hx). }
  destruct (expanded_result lo hi m V E Nm Hm G) as [_ [_ [EL EH]]].
  destruct (expand_numeric HR lo hi m V E Nm Hm G) as [_ [_ Hall]].
  unfold mem_s1 in *. cbn [s1_Interval_Lo s1_Interval_Hi] in Hmem. rewrite EL, EH.
  apply Hall; [apply normR_range; exact Hx|exact Hmem].
Qed.

(** the shape used by C10 (Proofs/C10_Rect.v, premise C19_s1_expanded_sound) *)
Corollary s1_expanded_sound_any_margin i m : valid_s1 i -> nonnan m -> 0 <= rank m ->
  valid_s1 (s1_Interval_Expanded i m) /\
  forall x, inrange x -> mem_s1 i x -> mem_s1 (s1_Interval_Expanded i m) x.
Proof.
  intros V Nm H0. split.
  - apply s1_expanded_valid_under_H; auto.
  - intros x Hx Hm. apply s1_expanded_sound_under_H; auto.
Qed.
End UnderH.

(** * History: the guard before /repo commit 44b3e8d (2*dblEpsilon) *)
Definition s1_Interval_Expanded_old (v_i : s1_Interval) (v_margin : PrimFloat.float) : s1_Interval :=
  if PrimFloat.leb 0%float v_margin then
    if s1_Interval_IsEmpty v_i then v_i else
    if PrimFloat.leb TWOPI (PrimFloat.add (PrimFloat.add (s1_Interval_Length v_i) (PrimFloat.mul 2%float v_margin))
                                          (PrimFloat.mul 2%float s1_dblEpsilon))
    then s1_FullInterval
    else let r := s1_IntervalFromEndpoints (exp_lo (s1_Interval_Lo v_i) v_margin) (exp_hi (s1_Interval_Hi v_i) v_margin) in
         if PrimFloat.leb (s1_Interval_Lo r) NPI then set_s1_Interval_Lo r PI else r
  else s1_Interval_Expanded v_i v_margin.

Lemma s1_expanded_old_refuted : exists i m p,
  s1_Interval_IsValid i = true /\ PrimFloat.leb 0%float m = true /\
  s1_Interval_Contains i p = true /\
  s1_Interval_Contains (s1_Interval_Expanded_old i m) p = false.
Proof.
  exists (mk_s1_Interval (-3)%float (0x1.0000000000001p+0)%float), (0x1.243f6a8885a2ep+0)%float, (-3)%float.
  vm_compute. repeat split; reflexivity.
Qed.
(** the same input on the repaired code: the full circle *)
Lemma s1_expanded_old_witness_fixed :
  s1_Interval_IsFull (s1_Interval_Expanded (mk_s1_Interval (-3)%float (0x1.0000000000001p+0)%float)
                                           (0x1.243f6a8885a2ep+0)%float) = true.
Proof. vm_compute. reflexivity. Qed.
(** the two definitions differ only in the guard constant *)
Lemma s1_expanded_old_same_outside_guard i m :
  PrimFloat.leb 0%float m = true -> s1_Interval_IsEmpty i = false ->
  exp_full_guard (s1_Interval_Lo i) (s1_Interval_Hi i) m = false ->
  PrimFloat.leb TWOPI (PrimFloat.add (PrimFloat.add (s1_Interval_Length i) (PrimFloat.mul 2%float m))
                                     (PrimFloat.mul 2%float s1_dblEpsilon)) = false ->
  s1_Interval_Expanded_old i m = s1_Interval_Expanded i m.
Proof.
  destruct i as [lo hi]. cbn [s1_Interval_Lo s1_Interval_Hi]. intros M E G G'.
  unfold s1_Interval_Expanded_old, s1_Interval_Expanded. rewrite M, E, G'.
  unfold exp_full_guard in G. fold TWOPI. rewrite G. reflexivity.
Qed.

(** * History: Length() before /repo commit e59a11e returned -1 for a non-empty interval *)
Definition s1_Interval_Length_old (v_i : s1_Interval) : PrimFloat.float :=
  let v_l := PrimFloat.sub (s1_Interval_Hi v_i) (s1_Interval_Lo v_i) in
  if PrimFloat.leb 0%float v_l then v_l else
  let v_l := PrimFloat.add v_l TWOPI in
  if PrimFloat.ltb 0%float v_l then v_l else (-0x1p+00)%float.
(** Expanded (with the 16*dblEpsilon guard) over the old Length *)
Definition s1_Interval_Expanded_oldlength (v_i : s1_Interval) (v_margin : PrimFloat.float) : s1_Interval :=
  if PrimFloat.leb 0%float v_margin then
    if s1_Interval_IsEmpty v_i then v_i else
    if PrimFloat.leb TWOPI (PrimFloat.add (PrimFloat.add (s1_Interval_Length_old v_i) (PrimFloat.mul 2%float v_margin))
                                          (PrimFloat.mul (0x1p+04)%float s1_dblEpsilon))
    then s1_FullInterval
    else let r := s1_IntervalFromEndpoints (exp_lo (s1_Interval_Lo v_i) v_margin) (exp_hi (s1_Interval_Hi v_i) v_margin) in
         if PrimFloat.leb (s1_Interval_Lo r) NPI then set_s1_Interval_Lo r PI else r
  else s1_Interval_Expanded v_i v_margin.

Lemma s1_expanded_oldlength_refuted : exists i m p,
  s1_Interval_IsValid i = true /\ s1_Interval_IsEmpty i = false /\ PrimFloat.leb 0%float m = true /\
  s1_Interval_Contains i p = true /\
  PrimFloat.ltb (s1_Interval_Length_old i) 0%float = true /\
  s1_Interval_IsValid (s1_Interval_Expanded_oldlength i m) = true /\
  s1_Interval_Contains (s1_Interval_Expanded_oldlength i m) p = false.
Proof.
  exists (mk_s1_Interval PI (-0x1.921fb54442d17p+1)%float), (0x1.999999999999ap+1)%float, PI.
  vm_compute. repeat split; reflexivity.
Qed.
(** the same input on the repaired code: Length() = 0 and the expansion is the full circle *)
Lemma s1_expanded_oldlength_witness_fixed :
  let i := mk_s1_Interval PI (-0x1.921fb54442d17p+1)%float in
  PrimFloat.eqb (s1_Interval_Length i) 0%float = true /\
  s1_Interval_IsFull (s1_Interval_Expanded i (0x1.999999999999ap+1)%float) = true.
Proof. vm_compute. split; reflexivity. Qed.
(** old and new Length agree wherever the old one was not negative, and on the empty interval *)
Lemma s1_length_old_same i :
  PrimFloat.ltb (s1_Interval_Length_old i) 0%float = false \/ s1_Interval_IsEmpty i = true ->
  s1_Interval_Length i = s1_Interval_Length_old i.
Proof.
  unfold s1_Interval_Length, s1_Interval_Length_old. fold TWOPI.
  destruct (PrimFloat.leb 0%float (PrimFloat.sub (s1_Interval_Hi i) (s1_Interval_Lo i))); [reflexivity|].
  destruct (PrimFloat.ltb 0%float (PrimFloat.add (PrimFloat.sub (s1_Interval_Hi i) (s1_Interval_Lo i)) TWOPI)); [reflexivity|].
  intros [H|H]; [vm_compute in H; discriminate|rewrite H; reflexivity].
Qed.
