(** C12 [children_direct]: for every non-leaf valid id, the four cells produced by
    Cell.Children (which splits the parent's uv-rectangle at centerUV) are, field by
    field and bit for bit, the cells CellFromCellID builds from the four child ids.
    All Go functions involved are the translated ones (Gen/CellGeom.v) except
    faceIJOrientation (Model/HilbertDecode.v). *)
From Coq Require Import ZArith List Bool Lia Floats.
From Geo Require Import Base.GoPrim Gen.CellGeom Model.HilbertDecode Proofs.C12_Hilbert Proofs.C12_Bridge Proofs.C12_Ids Proofs.C12_Float.
Import ListNotations.
Local Open Scope Z_scope.

(** the model's two small tables are the translated Go tables *)
Lemma tables_agree : hd_posToIJ = s2_posToIJ /\ hd_posToOrientation = s2_posToOrientation.
Proof. split; reflexivity. Qed.

(** ** uv bounds of the cell with integer corner (I,J) of size 2^e *)
Definition UV (x : Z) : float := s2_stToUV (s2_ijToSTMin x).
Definition RectOf (I J : Z) (e : nat) : r2_Rect :=
  mk_r2_Rect (mk_r1_Interval (UV (I * 2 ^ Z.of_nat e)) (UV ((I + 1) * 2 ^ Z.of_nat e)))
             (mk_r1_Interval (UV (J * 2 ^ Z.of_nat e)) (UV ((J + 1) * 2 ^ Z.of_nat e))).

Lemma sizeIJ_spec (e : nat) : (e <= 30)%nat -> s2_sizeIJ (30 - Z.of_nat e) = 2 ^ Z.of_nat e.
Proof. intros H. do 31 (destruct e as [|e]; [reflexivity|]). lia. Qed.

Lemma land_neg_pow2 x n : 0 <= n -> Z.land x (- 2 ^ n) = x / 2 ^ n * 2 ^ n.
Proof.
  intros Hn. replace (- 2 ^ n) with (Z.lnot (Z.ones n)).
  - rewrite <- Z.ldiff_land, Z.ldiff_ones_r by lia.
    rewrite Z.shiftl_mul_pow2, Z.shiftr_div_pow2 by lia. reflexivity.
  - rewrite Z.ones_equiv. unfold Z.lnot. lia.
Qed.

Lemma pow2_le_30 (e : nat) : (e <= 30)%nat -> 0 < 2 ^ Z.of_nat e <= 2 ^ 30.
Proof.
  intros H. split; [apply Z.pow_pos_nonneg; lia|]. apply Z.pow_le_mono_r; lia.
Qed.

Lemma pow2_split (e : nat) : (e <= 30)%nat -> 2 ^ Z.of_nat (30 - e) * 2 ^ Z.of_nat e = 2 ^ 30.
Proof.
  intros H. rewrite <- Z.pow_add_r by lia. replace (Z.of_nat (30 - e) + Z.of_nat e) with 30 by lia. reflexivity.
Qed.

Lemma bound_spec (e : nat) I J ri rj : (e <= 30)%nat ->
  0 <= I < 2 ^ Z.of_nat (30 - e) -> 0 <= J < 2 ^ Z.of_nat (30 - e) ->
  0 <= ri < 2 ^ Z.of_nat e -> 0 <= rj < 2 ^ Z.of_nat e ->
  s2_ijLevelToBoundUV (I * 2 ^ Z.of_nat e + ri) (J * 2 ^ Z.of_nat e + rj) (30 - Z.of_nat e) = RectOf I J e.
Proof.
  intros He HI HJ Hri Hrj. unfold s2_ijLevelToBoundUV. rewrite sizeIJ_spec by assumption.
  pose proof (pow2_le_30 e He) as P. pose proof (pow2_split e He) as HS.
  change (2 ^ 30) with 1073741824 in *.
  rewrite (wrap_i64_small (- 2 ^ Z.of_nat e)) by lia.
  rewrite !land_neg_pow2 by lia.
  set (p := 2 ^ Z.of_nat e) in *. set (q := 2 ^ Z.of_nat (30 - e)) in *.
  replace ((I * p + ri) / p) with I by (apply (Z.div_unique (I * p + ri) p I ri); [lia | ring]).
  replace ((J * p + rj) / p) with J by (apply (Z.div_unique (J * p + rj) p J rj); [lia | ring]).
  rewrite !wrap_i64_small by nia.
  unfold RectOf, UV. fold p.
  replace (I * p + p) with ((I + 1) * p) by ring. replace (J * p + p) with ((J + 1) * p) by ring. reflexivity.
Qed.

(** ** centerUV *)
Lemma siTi_ij x : 0 <= x <= 2 ^ 30 -> s2_siTiToST (2 * x) = s2_ijToSTMin x.
Proof.
  intros H. unfold s2_siTiToST, s2_ijToSTMin.
  destruct (Z.ltb_spec 2147483648 (2 * x)) as [L|L]; [change (2 ^ 30) with 1073741824 in H; lia|].
  apply pow2_div_exact. exact H.
Qed.

(** ** face *)
Lemma face_child K e p : sid_ok K (S e) -> 0 <= p < 4 ->
  Z.shiftr (sid (4 * K + p) e) 61 = Z.shiftr (sid K (S e)) 61.
Proof.
  intros [He HK] Hp. rewrite !Z.shiftr_div_pow2 by lia.
  assert (E : 2 ^ 61 = (2 * 4 ^ Z.of_nat e) * (4 * 4 ^ Z.of_nat (30 - S e))).
  { transitivity (2 * (4 ^ Z.of_nat (S e) * 4 ^ Z.of_nat (30 - S e))); [rewrite pow4_split by lia; reflexivity|].
    rewrite pow4_S. ring. }
  rewrite E. pose proof (pow4_pos e) as P. pose proof (pow4_pos (30 - S e)) as Q.
  set (pp := 4 ^ Z.of_nat e) in *. set (qq := 4 ^ Z.of_nat (30 - S e)) in *.
  rewrite <- !(Z.div_div _ (2 * pp) (4 * qq)) by lia.
  unfold sid. rewrite pow4_S. fold pp.
  replace ((2 * (4 * K + p) + 1) * pp) with ((4 * K + p) * (2 * pp) + pp) by ring.
  replace ((2 * K + 1) * (4 * pp)) with ((4 * K + 2) * (2 * pp) + 0) by ring.
  rewrite !Z.div_add_l by lia. rewrite (Z.div_small pp) by lia. rewrite Z.div_0_l by lia.
  rewrite !Z.add_0_r.
  replace (4 * K + p) with (K * 4 + p) by ring. replace (4 * K + 2) with (K * 4 + 2) by ring.
  rewrite <- !(Z.div_div _ 4 qq) by lia. rewrite !Z.div_add_l by lia.
  rewrite (Z.div_small p) by lia. rewrite (Z.div_small 2) by lia. reflexivity.
Qed.

(** ** decode of a structured id, uniform in the level *)
Lemma decode_struct (n E : nat) K : (n + E = 30)%nat -> sid_ok K E ->
  forall ci cj co, cell_state n K = (ci, cj, co) ->
  exists r, 0 <= r < 2 ^ Z.of_nat E /\
    s2_CellID_faceIJOrientation (sid K E) =
      (Z.shiftr (sid K E) 61, ci * 2 ^ Z.of_nat E + r, cj * 2 ^ Z.of_nat E + r, co) /\
    (forall e, E = S e -> r = 2 ^ Z.of_nat e - co / 2).
Proof.
  intros Hn Hsok ci cj co ES. pose proof (hd_state_ok n K) as Hok. unfold cell_state in ES.
  rewrite ES in Hok. destruct Hok as (Hci & Hcj & Hco).
  rewrite faceIJOrientation_bridge by (pose proof (sid_range K E Hsok); unfold C01_Algebra.u64; lia).
  destruct E as [|e].
  - exists 0. split; [change (2 ^ Z.of_nat 0) with 1; lia|]. split; [|discriminate].
    pose proof (decode_leaf K) as D. cbv zeta in D. unfold cell_state in D.
    replace n with 30%nat in ES by lia. rewrite ES in D. unfold sid. rewrite D.
    change (2 ^ Z.of_nat 0) with 1. apply quad_eq; ring.
  - assert (Hn' : (e + S n = 30)%nat) by lia.
    pose proof (decode_nonleaf n e K Hn') as D. cbv zeta in D. unfold cell_state in D. rewrite ES in D.
    assert (P : 0 < 2 ^ Z.of_nat e) by (apply Z.pow_pos_nonneg; lia).
    assert (B : co / 2 = 0 \/ co / 2 = 1).
    { destruct (four_cases co Hco) as [?|[?|[?|?]]]; subst co; vm_compute; auto. }
    exists (2 ^ Z.of_nat e - co / 2). rewrite Nat2Z.inj_succ, Z.pow_succ_r by lia.
    split; [lia|]. split.
    + unfold sid. rewrite D. apply quad_eq; ring.
    + intros e' Ee. injection Ee as <-. reflexivity.
Qed.

Lemma cellfrom_spec (n E : nat) K : (n + E = 30)%nat -> sid_ok K E ->
  forall ci cj co, cell_state n K = (ci, cj, co) ->
  s2_CellFromCellID (sid K E) =
    mk_s2_Cell (wrap_i8 (Z.shiftr (sid K E) 61)) (Z.of_nat n) co (sid K E) (RectOf ci cj E).
Proof.
  intros Hn Hok ci cj co ES.
  destruct (decode_struct n E K Hn Hok ci cj co ES) as (r & Hr & D & _).
  pose proof (hd_state_ok n K) as Hst. unfold cell_state in ES. rewrite ES in Hst.
  destruct Hst as (Hci & Hcj & Hco).
  unfold s2_CellFromCellID.
  cbn [s2_Cell_id s2_Cell_level s2_Cell_face s2_Cell_orientation s2_Cell_uv
       set_s2_Cell_id set_s2_Cell_face set_s2_Cell_level set_s2_Cell_orientation set_s2_Cell_uv].
  rewrite D.
  cbn [s2_Cell_id s2_Cell_level s2_Cell_face s2_Cell_orientation s2_Cell_uv
       set_s2_Cell_id set_s2_Cell_face set_s2_Cell_level set_s2_Cell_orientation set_s2_Cell_uv].
  rewrite level_spec by assumption.
  replace (30 - Z.of_nat E) with (Z.of_nat n) by lia.
  rewrite (wrap_i8_small (Z.of_nat n)) by lia. rewrite (wrap_i8_small co) by lia.
  rewrite (wrap_i64_small (Z.of_nat n)) by lia.
  replace (Z.of_nat n) with (30 - Z.of_nat E) at 2 by lia.
  replace n with (30 - E)%nat in Hci, Hcj by lia.
  rewrite bound_spec by (try assumption; lia). reflexivity.
Qed.

(** ** centerUV of a non-leaf structured id *)
Lemma testbit2_wrap_i64 x : Z.testbit (wrap_i64 x) 2 = Z.testbit x 2.
Proof.
  unfold wrap_i64, wrap_i. cbv zeta.
  assert (E : Z.testbit (x mod 2 ^ 64) 2 = Z.testbit x 2) by (apply Z.mod_pow2_bits_low; lia).
  destruct (x mod 2 ^ 64 <? 2 ^ (64 - 1)); [exact E|].
  rewrite <- E. rewrite <- (Z.mod_pow2_bits_low (x mod 2 ^ 64 - 2 ^ 64) 64 2) by lia.
  rewrite <- (Z.mod_pow2_bits_low (x mod 2 ^ 64) 64 2) by lia.
  f_equal. rewrite Zminus_mod, Z.mod_same, Z.sub_0_r, Z.mod_mod by lia. reflexivity.
Qed.

Lemma land1_testbit x : Z.land x 1 = if Z.testbit x 0 then 1 else 0.
Proof.
  change 1 with (Z.ones 1) at 1. rewrite Z.land_ones by lia. change (2 ^ 1) with 2.
  rewrite <- Z.bit0_mod. destruct (Z.testbit x 0); reflexivity.
Qed.

Lemma testbit0_odd_even a b : Z.testbit (2 * a + b) 0 = Z.testbit b 0.
Proof.
  rewrite !Z.bit0_odd. rewrite Z.add_comm, Z.odd_add_mul_2. reflexivity.
Qed.

Lemma testbit2_mul4 y : Z.testbit (y * 4) 2 = Z.testbit y 0.
Proof. exact (Z.mul_pow2_bits_add y 2 0 ltac:(lia)). Qed.

Lemma delta_bit (e : nat) K ci co : 0 <= co < 4 -> sid_ok K (S e) ->
  Z.land (Z.lxor ((2 * ci + 1) * 2 ^ Z.of_nat e - co / 2) (go_shr (wrap_i64 (sid K (S e))) 2)) 1 = co / 2.
Proof.
  intros Hco Hok. rewrite land1_testbit, Z.lxor_spec.
  unfold go_shr. destruct (Z.ltb_spec 2 0); [lia|]. rewrite Z.shiftr_spec by lia.
  change (0 + 2) with 2. rewrite testbit2_wrap_i64.
  assert (B : co / 2 = 0 \/ co / 2 = 1).
  { destruct (four_cases co Hco) as [?|[?|[?|?]]]; subst co; vm_compute; auto. }
  unfold sid. destruct e as [|e].
  - (* level 29: bit 2 of the id is the lsb *)
    change (2 ^ Z.of_nat 0) with 1. change (4 ^ Z.of_nat 1) with 4.
    rewrite testbit2_mul4, Z.testbit_odd_0.
    replace ((2 * ci + 1) * 1 - co / 2) with (2 * ci + (1 - co / 2)) by ring.
    rewrite testbit0_odd_even. destruct B as [-> | ->]; reflexivity.
  - rewrite pow4_S, pow4_S. rewrite Nat2Z.inj_succ, Z.pow_succ_r by lia.
    replace ((2 * K + 1) * (4 * (4 * 4 ^ Z.of_nat e))) with ((2 * (2 * (2 * K + 1) * 4 ^ Z.of_nat e)) * 4) by ring.
    rewrite testbit2_mul4, Z.testbit_even_0.
    replace ((2 * ci + 1) * (2 * 2 ^ Z.of_nat e) - co / 2)
      with (2 * ((2 * ci + 1) * 2 ^ Z.of_nat e - co / 2) + co / 2) by ring.
    rewrite testbit0_odd_even. destruct B as [-> | ->]; reflexivity.
Qed.

Lemma centerUV_spec (n e : nat) K : (n + S e = 30)%nat -> sid_ok K (S e) ->
  forall ci cj co, cell_state n K = (ci, cj, co) ->
  s2_CellID_centerUV (sid K (S e)) =
    mk_r2_Point (UV ((2 * ci + 1) * 2 ^ Z.of_nat e)) (UV ((2 * cj + 1) * 2 ^ Z.of_nat e)).
Proof.
  intros Hn Hok ci cj co ES.
  destruct (decode_struct n (S e) K Hn Hok ci cj co ES) as (r & Hr & D & Er).
  specialize (Er e eq_refl). subst r.
  pose proof (hd_state_ok n K) as Hst. unfold cell_state in ES. rewrite ES in Hst.
  destruct Hst as (Hci & Hcj & Hco).
  assert (B : co / 2 = 0 \/ co / 2 = 1).
  { destruct (four_cases co Hco) as [?|[?|[?|?]]]; subst co; vm_compute; auto. }
  assert (He : (S e <= 30)%nat) by lia.
  pose proof (pow2_le_30 e ltac:(lia)) as P. pose proof (pow2_split (S e) He) as HS.
  replace (30 - S e)%nat with n in HS by lia.
  rewrite Nat2Z.inj_succ, Z.pow_succ_r in HS, D by lia.
  change (2 ^ 30) with 1073741824 in *.
  unfold s2_CellID_centerUV, s2_CellID_faceSiTi. rewrite D.
  rewrite isleaf_spec by assumption. cbn [Nat.eqb].
  replace (ci * (2 * 2 ^ Z.of_nat e) + (2 ^ Z.of_nat e - co / 2))
    with ((2 * ci + 1) * 2 ^ Z.of_nat e - co / 2) by ring.
  replace (cj * (2 * 2 ^ Z.of_nat e) + (2 ^ Z.of_nat e - co / 2))
    with ((2 * cj + 1) * 2 ^ Z.of_nat e - co / 2) by ring.
  rewrite delta_bit by assumption.
  set (p := 2 ^ Z.of_nat e) in *.
  assert (Ex : forall c, 0 <= c < 2 ^ Z.of_nat n ->
     wrap_u32 (wrap_i64 (wrap_i64 (2 * ((2 * c + 1) * p - co / 2)) +
        (if negb (co / 2 =? 0) then 2 else 0))) = 2 * ((2 * c + 1) * p)).
  { intros c Hc. set (q := 2 ^ Z.of_nat n) in *.
    assert (Bc : 0 < (2 * c + 1) * p <= 1073741824 - p) by nia.
    change (2 ^ 32) with 4294967296. change (2 ^ 63) with 9223372036854775808.
    destruct B as [-> | ->]; cbn [Z.eqb negb].
    - rewrite (wrap_i64_small (2 * ((2 * c + 1) * p - 0))) by lia.
      rewrite wrap_i64_small by lia. rewrite wrap_u32_small by lia. ring.
    - change (1 =? 0) with false. cbn [negb].
      rewrite (wrap_i64_small (2 * ((2 * c + 1) * p - 1))) by lia.
      rewrite wrap_i64_small by lia. rewrite wrap_u32_small by lia. ring. }
  assert (Bx : forall c, 0 <= c < 2 ^ Z.of_nat n -> 0 <= (2 * c + 1) * p <= 2 ^ 30).
  { intros c Hc. set (q := 2 ^ Z.of_nat n) in *. change (2 ^ 30) with 1073741824. nia. }
  cbv zeta. rewrite (Ex ci Hci), (Ex cj Hcj).
  rewrite !siTi_ij by (apply Bx; assumption). reflexivity.
Qed.

(** ** Cell.Children unrolled *)
Definition ch_a (o p : Z) : bool := Z.eqb (go_shr (nthZ (nthZ s2_posToIJ o (repeat 0 4)) p 0) 1) 1.
Definition ch_b (o p : Z) : bool := Z.eqb (Z.land (nthZ (nthZ s2_posToIJ o (repeat 0 4)) p 0) 1) 1.
Definition ch_o (o p : Z) : Z := Z.lxor o (wrap_i8 (nthZ s2_posToOrientation p 0)).

Definition child_of (f l o : Z) (xlo xhi ylo yhi : float) (mid : r2_Point) (p cid : Z) : s2_Cell :=
  mk_s2_Cell f (wrap_i8 (l + 1)) (ch_o o p) cid
    (mk_r2_Rect
      (if ch_a o p then mk_r1_Interval (r2_Point_X mid) xhi else mk_r1_Interval xlo (r2_Point_X mid))
      (if ch_b o p then mk_r1_Interval (r2_Point_Y mid) yhi else mk_r1_Interval ylo (r2_Point_Y mid))).

Lemma children_shape f l o id xlo xhi ylo yhi : 0 <= o < 4 -> s2_CellID_IsLeaf id = false ->
  s2_Cell_Children (mk_s2_Cell f l o id (mk_r2_Rect (mk_r1_Interval xlo xhi) (mk_r1_Interval ylo yhi))) =
  (let mid := s2_CellID_centerUV id in
   let c0 := s2_CellID_ChildBegin id in let c1 := s2_CellID_Next c0 in
   let c2 := s2_CellID_Next c1 in let c3 := s2_CellID_Next c2 in
   [child_of f l o xlo xhi ylo yhi mid 0 c0; child_of f l o xlo xhi ylo yhi mid 1 c1;
    child_of f l o xlo xhi ylo yhi mid 2 c2; child_of f l o xlo xhi ylo yhi mid 3 c3], true).
Proof.
  intros Ho Hl. unfold s2_Cell_Children.
  cbn [s2_Cell_id s2_Cell_face s2_Cell_level s2_Cell_orientation s2_Cell_uv]. rewrite Hl.
  set (mid := s2_CellID_centerUV id). set (cb := s2_CellID_ChildBegin id).
  change (zrange_up 0 4) with [0; 1; 2; 3].
  by_cases o Ho; lazy beta iota zeta delta -[s2_CellID_Next wrap_i8 Z.add mid cb]; reflexivity.
Qed.

Lemma ch_a_eq o p : 0 <= o < 4 -> 0 <= p < 4 -> ch_a o p = (hd_a o p =? 1).
Proof. intros Ho Hp. by_cases o Ho; by_cases p Hp; reflexivity. Qed.
Lemma ch_b_eq o p : 0 <= o < 4 -> 0 <= p < 4 -> ch_b o p = (hd_b o p =? 1).
Proof. intros Ho Hp. by_cases o Ho; by_cases p Hp; reflexivity. Qed.
Lemma ch_o_eq o p : 0 <= o < 4 -> 0 <= p < 4 -> ch_o o p = hd_o o p.
Proof. intros Ho Hp. by_cases o Ho; by_cases p Hp; reflexivity. Qed.
Lemma hd_ab_range o p : 0 <= o < 4 -> 0 <= p < 4 ->
  (hd_a o p = 0 \/ hd_a o p = 1) /\ (hd_b o p = 0 \/ hd_b o p = 1).
Proof. intros Ho Hp. by_cases o Ho; by_cases p Hp; vm_compute; auto. Qed.

Lemma interval_pick ci (e : nat) a : a = 0 \/ a = 1 ->
  (if a =? 1 then mk_r1_Interval (UV ((2 * ci + 1) * 2 ^ Z.of_nat e)) (UV ((ci + 1) * 2 ^ Z.of_nat (S e)))
   else mk_r1_Interval (UV (ci * 2 ^ Z.of_nat (S e))) (UV ((2 * ci + 1) * 2 ^ Z.of_nat e)))
  = mk_r1_Interval (UV ((2 * ci + a) * 2 ^ Z.of_nat e)) (UV ((2 * ci + a + 1) * 2 ^ Z.of_nat e)).
Proof.
  rewrite Nat2Z.inj_succ, Z.pow_succ_r by lia.
  intros [-> | ->]; cbn [Z.eqb Pos.eqb]; f_equal; f_equal; ring.
Qed.

(** one child: what Children builds = what CellFromCellID builds from the child id *)
Lemma child_match (n e : nat) K p : (n + S e = 30)%nat -> sid_ok K (S e) -> 0 <= p < 4 ->
  forall ci cj co, cell_state n K = (ci, cj, co) ->
  child_of (wrap_i8 (Z.shiftr (sid K (S e)) 61)) (Z.of_nat n) co
    (UV (ci * 2 ^ Z.of_nat (S e))) (UV ((ci + 1) * 2 ^ Z.of_nat (S e)))
    (UV (cj * 2 ^ Z.of_nat (S e))) (UV ((cj + 1) * 2 ^ Z.of_nat (S e)))
    (mk_r2_Point (UV ((2 * ci + 1) * 2 ^ Z.of_nat e)) (UV ((2 * cj + 1) * 2 ^ Z.of_nat e)))
    p (sid (4 * K + p) e)
  = s2_CellFromCellID (sid (4 * K + p) e).
Proof.
  intros Hn Hok Hp ci cj co ES.
  pose proof (hd_state_ok n K) as Hst. change (hd_state n K) with (cell_state n K) in Hst.
  rewrite ES in Hst. destruct Hst as (Hci & Hcj & Hco).
  assert (ES' : cell_state (S n) (4 * K + p) = (2 * ci + hd_a co p, 2 * cj + hd_b co p, hd_o co p)).
  { rewrite cell_state_child by assumption. rewrite ES. apply hd_step_eq. }
  rewrite (cellfrom_spec (S n) e (4 * K + p) ltac:(lia) (sid_ok_child K e p Hok Hp) _ _ _ ES').
  destruct (hd_ab_range co p Hco Hp) as [Ha Hb].
  unfold child_of, RectOf. cbn [r2_Point_X r2_Point_Y].
  rewrite ch_a_eq, ch_b_eq, ch_o_eq by assumption.
  rewrite !interval_pick by assumption.
  rewrite face_child by assumption.
  rewrite (wrap_i8_small (Z.of_nat n + 1)) by lia. replace (Z.of_nat n + 1) with (Z.of_nat (S n)) by lia.
  reflexivity.
Qed.

(** ** the theorem, on structured ids *)
Theorem children_direct_struct K (e : nat) : sid_ok K (S e) ->
  s2_Cell_Children (s2_CellFromCellID (sid K (S e))) =
  (map s2_CellFromCellID (s2_CellID_Children (sid K (S e))), true).
Proof.
  intros Hok. assert (He : (S e <= 30)%nat) by apply Hok.
  set (n := (30 - S e)%nat). assert (Hn : (n + S e = 30)%nat) by (unfold n; lia).
  destruct (cell_state n K) as [[ci cj] co] eqn:ES.
  pose proof (hd_state_ok n K) as Hst. change (hd_state n K) with (cell_state n K) in Hst.
  rewrite ES in Hst. destruct Hst as (Hci & Hcj & Hco).
  assert (P0 : 0 <= 0 < 4) by lia. assert (P1 : 0 <= 1 < 4) by lia.
  assert (P2 : 0 <= 2 < 4) by lia. assert (P3 : 0 <= 3 < 4) by lia.
  rewrite (cellfrom_spec n (S e) K Hn Hok ci cj co ES). unfold RectOf.
  rewrite children_shape; [|assumption|rewrite isleaf_spec by assumption; reflexivity].
  cbv zeta.
  rewrite (centerUV_spec n e K Hn Hok ci cj co ES).
  rewrite childbegin_spec by assumption.
  replace (4 * K) with (4 * K + 0) by lia.
  rewrite (next_spec (4 * K + 0) e) by (apply sid_ok_child; assumption).
  replace (4 * K + 0 + 1) with (4 * K + 1) by lia.
  rewrite (next_spec (4 * K + 1) e) by (apply sid_ok_child; assumption).
  replace (4 * K + 1 + 1) with (4 * K + 2) by lia.
  rewrite (next_spec (4 * K + 2) e) by (apply sid_ok_child; assumption).
  replace (4 * K + 2 + 1) with (4 * K + 3) by lia.
  rewrite children_ids_spec by assumption. cbn [map].
  replace (sid (4 * K) e) with (sid (4 * K + 0) e) by (f_equal; lia).
  rewrite !(child_match n e K _ Hn Hok) with (co := co) by assumption.
  reflexivity.
Qed.
