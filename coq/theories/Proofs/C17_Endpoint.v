(** C17 endpoint_zero: for points with finite components of magnitude at most 2 (every
    unit-length point), the distance from an endpoint of the edge to the edge is exactly +0:
    the wedge test [(a-x).cx >= 0 || (b-x).cx <= 0] rejects the interior branch because
    [x - x = +0] exactly and [0 * cx] is a zero as long as [cx] is finite — which the magnitude
    calculus of C17_FloatFacts establishes, including the degenerate edge a = b where
    PointCross falls back to Ortho and a division by sqrt(norm2) is involved — and
    [min(+0, xb2) = +0]. *)
From Coq Require Import ZArith Reals Floats Lra Lia Bool List.
From Flocq Require Import Core.Core IEEE754.BinarySingleNaN IEEE754.PrimFloat.
From Geo Require Import Base.GoPrim Base.F64 Gen.EdgeDist Model.PolylineOps
  Proofs.C17_FloatFacts Proofs.C17_Threshold Proofs.C17_Interp.
Import ListNotations.
Local Open Scope R_scope.

Ltac split3 := split; [|split].
Ltac vsimpl := cbn [r3_Vector_Mul r3_Vector_Add r3_Vector_Sub r3_Vector_Cross r3_Vector_X r3_Vector_Y r3_Vector_Z].

Definition bnd3 (k : Z) (v : r3_Vector) : Prop :=
  bnd k (r3_Vector_X v) /\ bnd k (r3_Vector_Y v) /\ bnd k (r3_Vector_Z v).
(** every component finite with |.| <= 2: holds for all unit-length points *)
Definition bounded_point (p : s2_Point) : Prop := bnd3 1 (s2_Point_Vector p).

Lemma bnd3_mono i j v : (i <= j)%Z -> bnd3 i v -> bnd3 j v.
Proof. intros H [? [? ?]]. split3; eapply bnd_mono; eauto. Qed.

Lemma bnd3_add i u v : (0 <= i)%Z -> (i + 1 < 1024)%Z -> bnd3 i u -> bnd3 i v -> bnd3 (i + 1) (r3_Vector_Add u v).
Proof. intros ? ? [? [? ?]] [? [? ?]]. split3; vsimpl; apply bnd_add; auto. Qed.
Lemma bnd3_sub i u v : (0 <= i)%Z -> (i + 1 < 1024)%Z -> bnd3 i u -> bnd3 i v -> bnd3 (i + 1) (r3_Vector_Sub u v).
Proof. intros ? ? [? [? ?]] [? [? ?]]. split3; vsimpl; apply bnd_sub; auto. Qed.

Lemma bnd3_cross i j u v : (0 <= i)%Z -> (0 <= j)%Z -> (i + j + 1 < 1024)%Z ->
  bnd3 i u -> bnd3 j v -> bnd3 (i + j + 1) (r3_Vector_Cross u v).
Proof.
  intros ? ? ? [? [? ?]] [? [? ?]].
  split3; vsimpl; apply bnd_sub; try lia; try (apply bnd_mul; auto; lia);
    (replace (i + j)%Z with (j + i)%Z by lia; apply bnd_mul; auto; lia).
Qed.

Lemma bnd_dot i j u v : (0 <= i)%Z -> (0 <= j)%Z -> (i + j + 2 < 1024)%Z ->
  bnd3 i u -> bnd3 j v -> bnd (i + j + 2) (r3_Vector_Dot u v).
Proof.
  intros ? ? ? [? [? ?]] [? [? ?]]. unfold r3_Vector_Dot.
  replace (i + j + 2)%Z with (i + j + 1 + 1)%Z by lia.
  apply bnd_add; try lia.
  - apply bnd_add; try lia; apply bnd_mul; auto; lia.
  - apply bnd_mono with (i + j)%Z; [lia|]. apply bnd_mul; auto; lia.
Qed.

Lemma bnd3_zero k : bnd3 k (mk_r3_Vector 0%float 0%float 0%float).
Proof. split3; apply bnd_zero. Qed.

Lemma bnd3_normalize k w : (0 <= k)%Z -> (2 * k + 2 < 1024)%Z -> (537 + k < 1024)%Z ->
  bnd3 k w -> bnd3 (537 + k) (r3_Vector_Normalize w).
Proof.
  intros Hk Hk2 Hk3 Hw. unfold r3_Vector_Normalize.
  destruct (PrimFloat.eqb (r3_Vector_Norm2 w) 0%float) eqn:E; [apply bnd3_zero|].
  assert (Hn : bnd (k + k + 2) (r3_Vector_Norm2 w)) by (apply bnd_dot; auto; lia).
  assert (Hs : bnd 537 (1 / PrimFloat.sqrt (r3_Vector_Norm2 w))).
  { apply bnd_inv_sqrt; [eapply bnd_finite; exact Hn | apply sp_norm2 | exact E]. }
  destruct Hw as [? [? ?]]. split3; vsimpl; apply bnd_mul; auto; lia.
Qed.

Lemma bnd3_ortho a : bnd3 1 a -> bnd3 540 (r3_Vector_Ortho a).
Proof.
  intros Ha. unfold r3_Vector_Ortho.
  set (ov := if (r3_Vector_LargestComponent a =? 0)%Z then _ else _).
  assert (Hov : bnd3 1 ov).
  { unfold ov. pose proof bnd_one. pose proof (bnd_zero 0).
    destruct (r3_Vector_LargestComponent a =? 0)%Z; [|destruct (r3_Vector_LargestComponent a =? 1)%Z;
      [|destruct (r3_Vector_LargestComponent a =? 2)%Z]];
    apply bnd3_mono with 0%Z; try lia; split3; vsimpl; assumption. }
  change 540%Z with (537 + 3)%Z. apply bnd3_normalize; try lia.
  change 3%Z with (1 + 1 + 1)%Z. apply bnd3_cross; auto; lia.
Qed.

Lemma bnd3_edge_c a b : bounded_point a -> bounded_point b -> bnd3 540 (edge_c a b).
Proof.
  unfold bounded_point, edge_c, s2_Point_PointCross. intros Ha Hb.
  destruct (r3_Vector_eqb _ _); simpl.
  - apply bnd3_ortho. exact Ha.
  - apply bnd3_mono with (2 + 2 + 1)%Z; [lia|]. apply bnd3_cross; try lia.
    + apply (bnd3_add 1); auto; lia.
    + apply (bnd3_sub 1); auto; lia.
Qed.

Lemma bnd3_edge_cx x a b : bounded_point x -> bounded_point a -> bounded_point b -> bnd3 542 (edge_cx x a b).
Proof.
  intros Hx Ha Hb. unfold edge_cx. change 542%Z with (540 + 1 + 1)%Z.
  apply bnd3_cross; try lia; [apply bnd3_edge_c; assumption | exact Hx].
Qed.

(** ** zero vector . finite vector is a zero *)
Definition is_zero (x : pfloat) : Prop := exists s, Prim2B x = B754_zero s.

Lemma mul_zero_l c : finite c -> is_zero (0 * c).
Proof.
  unfold finite, is_zero. rewrite mul_equiv. change (Prim2B 0%float) with (B754_zero false : bfloat).
  destruct (Prim2B c) as [s|s| |s m e He]; simpl; intros H; try discriminate; eauto.
Qed.

Lemma add_zeros u v : is_zero u -> is_zero v -> is_zero (u + v).
Proof.
  unfold is_zero. intros [s1 H1] [s2 H2]. rewrite add_equiv, H1, H2.
  destruct s1, s2; simpl; eauto.
Qed.

Lemma zero_dot v k : bnd3 k v -> is_zero (r3_Vector_Dot (mk_r3_Vector 0%float 0%float 0%float) v).
Proof.
  intros [H1 [H2 H3]]. unfold r3_Vector_Dot. simpl.
  repeat apply add_zeros; apply mul_zero_l; eapply bnd_finite; eauto.
Qed.

Lemma leb_zero_l z : is_zero z -> PrimFloat.leb 0%float z = true.
Proof.
  intros [s H]. rewrite leb_equiv, H. change (Prim2B 0%float) with (B754_zero false : bfloat).
  destruct s; reflexivity.
Qed.
Lemma leb_zero_r z : is_zero z -> PrimFloat.leb z 0%float = true.
Proof.
  intros [s H]. rewrite leb_equiv, H. change (Prim2B 0%float) with (B754_zero false : bfloat).
  destruct s; reflexivity.
Qed.

Lemma sub_self3 v k : bnd3 k v -> r3_Vector_Sub v v = mk_r3_Vector 0%float 0%float 0%float.
Proof.
  intros [H1 [H2 H3]]. unfold r3_Vector_Sub.
  rewrite !sub_self by (eapply bnd_finite; eauto). reflexivity.
Qed.

Lemma sq_dist_self a : bounded_point a -> sq_dist a a = 0%float.
Proof. intros Ha. unfold sq_dist. rewrite (sub_self3 _ _ Ha). reflexivity. Qed.

(** ** min(+0, q) = min(q, +0) = +0 for finite sign-clear q *)
Lemma Prim2B_neg_infinity : Prim2B neg_infinity = B754_infinity true.
Proof. rewrite neg_infinity_equiv, Prim2B_B2Prim. reflexivity. Qed.

Lemma go_fmin_zero_l q : finite q -> sp q -> go_fmin 0%float q = 0%float.
Proof.
  unfold finite, sp. intros Fq Sq. unfold go_fmin.
  rewrite !go_isnan_equiv, go_signbit_equiv, !eqb_equiv, ltb_equiv, Prim2B_neg_infinity.
  change (Prim2B 0%float) with (B754_zero false : bfloat).
  destruct (Prim2B q) as [s|s| |s m e He] eqn:E; try discriminate; simpl in Sq; subst s; simpl.
  - apply prim_zero. exact E.
  - reflexivity.
Qed.

Lemma go_fmin_zero_r q : finite q -> sp q -> go_fmin q 0%float = 0%float.
Proof.
  unfold finite, sp. intros Fq Sq. unfold go_fmin.
  rewrite !go_isnan_equiv, go_signbit_equiv, !eqb_equiv, ltb_equiv, Prim2B_neg_infinity.
  change (Prim2B 0%float) with (B754_zero false : bfloat).
  destruct (Prim2B q) as [s|s| |s m e He] eqn:E; try discriminate; simpl in Sq; subst s; simpl; reflexivity.
Qed.

Lemma sq_dist_finite_sp x a : bounded_point x -> bounded_point a -> finite (sq_dist x a) /\ sp (sq_dist x a).
Proof.
  intros Hx Ha. unfold sq_dist. split; [|apply sp_norm2].
  eapply bnd_finite. apply (bnd_dot 2 2); try lia; apply (bnd3_sub 1); auto; lia.
Qed.

(** ** endpoint_zero *)
Lemma endpoint_zero_a a b m : bounded_point a -> bounded_point b ->
  s2_updateMinDistance a a b m true = (0%float, true).
Proof.
  intros Ha Hb. rewrite always_value. f_equal. unfold dist2.
  assert (W : wedge_out a a b = true).
  { unfold wedge_out. rewrite (sub_self3 _ _ Ha).
    rewrite (leb_zero_l _ (zero_dot _ _ (bnd3_edge_cx a a b Ha Ha Hb))). reflexivity. }
  unfold interior_taken. rewrite W, andb_false_r.
  unfold endDist. rewrite (sq_dist_self a Ha).
  destruct (sq_dist_finite_sp a b Ha Hb). rewrite go_fmin_zero_l by assumption. reflexivity.
Qed.

Lemma endpoint_zero_b a b m : bounded_point a -> bounded_point b ->
  s2_updateMinDistance b a b m true = (0%float, true).
Proof.
  intros Ha Hb. rewrite always_value. f_equal. unfold dist2.
  assert (W : wedge_out b a b = true).
  { unfold wedge_out. rewrite (sub_self3 _ _ Hb).
    rewrite (leb_zero_r _ (zero_dot _ _ (bnd3_edge_cx b a b Hb Ha Hb))). apply orb_true_r. }
  unfold interior_taken. rewrite W, andb_false_r.
  unfold endDist. rewrite (sq_dist_self b Hb).
  destruct (sq_dist_finite_sp b a Hb Ha). rewrite go_fmin_zero_r by assumption. reflexivity.
Qed.

(** the angle form: ChordAngle(+0).Angle() is +0 because asin(+0) = +0 in the Go implementation *)
Lemma chordangle_zero_angle : s1_ChordAngle_Angle 0%float = 0%float.
Proof. vm_compute. reflexivity. Qed.

Lemma Prim2B_infinity : Prim2B infinity = B754_infinity false.
Proof. rewrite infinity_equiv, Prim2B_B2Prim. reflexivity. Qed.

(** c2 * (+inf) is +inf or NaN for sign-clear c2: the pruning test cannot fire from an infinite threshold *)
Lemma ltb_mul_inf c y : sp c -> PrimFloat.ltb (c * infinity) y = false.
Proof.
  unfold sp. rewrite ltb_equiv, mul_equiv, Prim2B_infinity.
  destruct (Prim2B c) as [s|s| |s m e He], (Prim2B y) as [s'|s'| |s' m' e' He'];
    simpl; intros H; subst; try reflexivity; destruct s'; reflexivity.
Qed.

Lemma not_pruned_at_infinity x a b : pruned x a b infinity = false.
Proof. unfold pruned. apply ltb_mul_inf. apply sp_norm2. Qed.

Lemma endpoint_zero x a b : bounded_point a -> bounded_point b -> x = a \/ x = b ->
  s2_updateMinDistance x a b infinity true = (0%float, true) /\
  s2_UpdateMinDistance x a b infinity = (0%float, true) /\
  s2_DistanceFromSegment x a b = 0%float.
Proof.
  intros Ha Hb Hx.
  assert (E : forall m, s2_updateMinDistance x a b m true = (0%float, true)).
  { intros m. destruct Hx; subst x; [apply endpoint_zero_a | apply endpoint_zero_b]; assumption. }
  split; [apply E|]. split.
  - assert (D : dist2 x a b = 0%float).
    { pose proof (E 0%float) as E0. rewrite always_value in E0. congruence. }
    destruct (threshold_complete x a b infinity) as [H _].
    + rewrite D. reflexivity.
    + apply not_pruned_at_infinity.
    + rewrite D in H. exact H.
  - unfold s2_DistanceFromSegment. rewrite E. apply chordangle_zero_angle.
Qed.

(** the guard is satisfiable *)
Example bounded_point_example :
  bounded_point (mk_s2_Point (mk_r3_Vector 1%float 0%float 0%float)) /\
  bounded_point (mk_s2_Point (mk_r3_Vector 0%float 1%float 0%float)).
Proof.
  pose proof (bnd_mono 0 1 _ ltac:(lia) bnd_one). pose proof (bnd_zero 1).
  split; split3; simpl; assumption.
Qed.

(** ** never_above_endpoints, interior branch: under H_EDGEDIST.
    H_EDGEDIST (the part used): where the interior formula decides, its value does not exceed the
    endpoint value min(xa2, xb2) by more than the documented bound minUpdateDistanceMaxError.
    A numeric fact about the float expressions [intDist]/[endDist]; attacked by [S] (ii) on every run. *)
Definition R_of (x : pfloat) : R := B2R (Prim2B x).

Definition H_EDGEDIST : Prop := forall x a b,
  bounded_point x -> bounded_point a -> bounded_point b -> interior_taken x a b = true ->
  R_of (intDist x a b) <= R_of (endDist x a b) + R_of (s2_minUpdateDistanceMaxError (intDist x a b)).

Lemma never_above_endpoints_H : H_EDGEDIST -> forall x a b,
  bounded_point x -> bounded_point a -> bounded_point b ->
  R_of (dist2 x a b) <= R_of (endDist x a b) + Rmax 0 (R_of (s2_minUpdateDistanceMaxError (dist2 x a b))).
Proof.
  intros H x a b Hx Ha Hb. unfold dist2.
  destruct (interior_taken x a b) eqn:E.
  - specialize (H x a b Hx Ha Hb E).
    pose proof (Rmax_r 0 (R_of (s2_minUpdateDistanceMaxError (intDist x a b)))). lra.
  - pose proof (Rmax_l 0 (R_of (s2_minUpdateDistanceMaxError (endDist x a b)))). lra.
Qed.
