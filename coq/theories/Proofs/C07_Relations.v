(** C07 — set-algebra laws of the specification model of Loop.Contains / Loop.Intersects
    (Model/Relations.v). The predicates below this layer are Section variables; every law of
    them that is used is a named Section hypothesis, so after [End] it is a visible premise. *)
From Coq Require Import List Bool Arith ZArith Lia.
From Geo Require Import Model.Wedge Model.Relations Proofs.C07_Wedge Proofs.C07_Cyclic.
Import ListNotations.

Lemma existsb_eq {A B} (f : A -> bool) (g : B -> bool) (l1 : list A) (l2 : list B) :
  (forall x, In x l1 -> f x = true -> exists y, In y l2 /\ g y = true) ->
  (forall y, In y l2 -> g y = true -> exists x, In x l1 /\ f x = true) ->
  existsb f l1 = existsb g l2.
Proof.
  intros H1 H2. apply eq_true_iff_eq. rewrite !existsb_exists. split.
  - intros [x [Hx Hf]]. destruct (H1 x Hx Hf) as [y Hy]. now exists y.
  - intros [y [Hy Hg]]. destruct (H2 y Hy Hg) as [x Hx]. now exists x.
Qed.

Section RelLaws.
  Variable point : Type.
  Variable peq : point -> point -> bool.
  Variable ordered_ccw : point -> point -> point -> point -> bool.
  Variable crossing_sign : point -> point -> point -> point -> crossing.
  Variable empty_pt full_pt : point.
  Notation loop := (loop point).
  Variable contains_point : loop -> point -> bool.
  Variable sub_contains bound_intersects bound_union_full : loop -> loop -> bool.

  Notation l_kind := (l_kind point).
  Notation l_verts := (l_verts point).
  Notation is_empty := (is_empty point).
  Notation is_full := (is_full point).
  Notation is_eof := (is_empty_or_full point).
  Notation edges := (edges point).
  Notation wedges := (wedges point).
  Notation edge_cross := (edge_cross point crossing_sign).
  Notation shared := (shared point peq).
  Notation found_shared := (found_shared point peq).
  Notation hc_contains := (has_crossing_contains point peq ordered_ccw crossing_sign).
  Notation hc_intersects := (has_crossing_intersects point peq ordered_ccw crossing_sign).
  Notation cv0 := (contains_v0 point contains_point).
  Notation invert := (invert point empty_pt full_pt).
  Notation WC := (wedge_contains point ordered_ccw).
  Notation WI := (wedge_intersects point ordered_ccw).
  Notation w0 := (w0 point).
  Notation w1 := (w1 point).
  Notation w2 := (w2 point).
  Notation L_contains :=
    (loop_contains point peq ordered_ccw crossing_sign contains_point sub_contains bound_union_full).
  Notation L_intersects :=
    (loop_intersects point peq ordered_ccw crossing_sign contains_point sub_contains bound_intersects bound_union_full).

  (** ---- interface laws (each discharged by the layer named) ---------------------------- *)
  (* Go == on points is equality of the values *)
  Hypothesis peq_spec : forall a b, peq a b = true <-> a = b.
  (* C03 crossing_spec_sym: CrossingSign is invariant under swapping the edges / reversing one *)
  Hypothesis cross_swap : forall a b c d, crossing_sign a b c d = crossing_sign c d a b.
  Hypothesis cross_rev : forall a b c d, crossing_sign b a c d = crossing_sign a b c d.
  (* C02: properties (4) and (5) of OrderedCCW *)
  Hypothesis occw_aab : forall a c o, ordered_ccw a a c o = true.
  Hypothesis occw_aba : forall a b o, a <> b -> a <> o -> b <> o -> ordered_ccw a b a o = false.
  (* C04 invert_complement, and containment for the full / empty loop *)
  Hypothesis cp_invert : forall L p, contains_point (invert L) p = negb (contains_point L p).
  Hypothesis cp_full : forall L p, is_full L = true -> contains_point L p = true.
  Hypothesis cp_empty : forall L p, is_empty L = true -> contains_point L p = false.

  (** ---- validity ------------------------------------------------------------------------ *)
  Definition normal (A : loop) : Prop := is_eof A = false.
  Definition wf (A : loop) : Prop := l_verts A <> [].
  Definition valid (A : loop) : Prop :=
    wf A /\ (normal A -> NoDup (l_verts A) /\ 3 <= length (l_verts A) /\ edge_cross A A = false).

  (** ---- the decision without the rectangle prefilters ----------------------------------- *)
  Definition contains_core (A B : loop) : bool :=
    if is_eof A || is_eof B then is_full A || is_empty B else
    if hc_contains A B then false else
    if found_shared A B then true else
    cv0 A B && negb (cv0 B A).

  Definition intersects_core (A B : loop) : bool :=
    if is_empty A || is_empty B then false else
    if is_full A || is_full B then true else
    if hc_intersects A B then true else
    if found_shared A B then false else
    cv0 A B || cv0 B A.

  (** ---- membership characterisations ---------------------------------------------------- *)
  Lemma edge_cross_spec A B :
    edge_cross A B = true <->
    exists ea eb, In ea (edges A) /\ In eb (edges B) /\
                  is_cross (crossing_sign (fst ea) (snd ea) (fst eb) (snd eb)) = true.
  Proof.
    unfold Relations.edge_cross. rewrite existsb_exists. split.
    - intros [ea [Ha H]]. apply existsb_exists in H. destruct H as [eb [Hb H]]. now exists ea, eb.
    - intros [ea [eb [Ha [Hb H]]]]. exists ea. split; [exact Ha|]. apply existsb_exists. now exists eb.
  Qed.

  Lemma edge_cross_sym A B : edge_cross A B = edge_cross B A.
  Proof.
    apply eq_true_iff_eq. rewrite !edge_cross_spec. split; intros [e1 [e2 [H1 [H2 H]]]];
      exists e2, e1; repeat split; try assumption; now rewrite cross_swap.
  Qed.

  Lemma shared_spec A B wa wb :
    In (wa, wb) (shared A B) <-> In wa (wedges A) /\ In wb (wedges B) /\ w1 wa = w1 wb.
  Proof.
    unfold Relations.shared. rewrite filter_In, in_prod_iff. simpl. rewrite peq_spec. tauto.
  Qed.

  Lemma found_shared_spec A B : found_shared A B = true <-> exists p, In p (shared A B).
  Proof.
    unfold Relations.found_shared. rewrite existsb_exists. split; intros [p H]; exists p; tauto.
  Qed.

  Lemma found_shared_sym A B : found_shared A B = found_shared B A.
  Proof.
    apply eq_true_iff_eq. rewrite !found_shared_spec.
    split; intros [[wa wb] H]; exists (wb, wa); apply shared_spec in H; apply shared_spec;
      destruct H as [H1 [H2 H3]]; auto.
  Qed.

  (** ---- Loop.Invert --------------------------------------------------------------------- *)
  Lemma invert_eof A : is_eof (invert A) = is_eof A.
  Proof. unfold Relations.invert, Relations.is_empty_or_full. now destruct (l_kind A). Qed.
  Lemma invert_full A : is_full (invert A) = is_empty A.
  Proof. unfold Relations.invert, Relations.is_full, Relations.is_empty. now destruct (l_kind A). Qed.
  Lemma invert_empty A : is_empty (invert A) = is_full A.
  Proof. unfold Relations.invert, Relations.is_full, Relations.is_empty. now destruct (l_kind A). Qed.
  Lemma invert_verts_normal A : normal A -> l_verts (invert A) = rev (l_verts A).
  Proof. unfold normal, Relations.invert, Relations.is_empty_or_full. now destruct (l_kind A). Qed.
  Lemma invert_wf A : wf A -> wf (invert A).
  Proof.
    unfold wf, Relations.invert. destruct (l_kind A); simpl; try discriminate.
    intros H E. apply H. destruct (l_verts A); [reflexivity|].
    simpl in E. now apply app_eq_nil in E.
  Qed.
  Lemma invert_normal A : normal A -> normal (invert A).
  Proof. unfold normal. now rewrite invert_eof. Qed.

  Lemma edges_invert A a b : In (a, b) (edges (invert A)) <-> In (b, a) (edges A).
  Proof.
    unfold Relations.edges. rewrite invert_eof. destruct (is_eof A) eqn:E; [simpl; tauto|].
    rewrite invert_verts_normal by exact E. apply in_cyc_edges_rev.
  Qed.

  Lemma wedges_invert A p v n : In (p, v, n) (wedges (invert A)) <-> In (n, v, p) (wedges A).
  Proof.
    unfold Relations.wedges. rewrite invert_eof. destruct (is_eof A) eqn:E; [simpl; tauto|].
    rewrite invert_verts_normal by exact E. apply in_cyc_wedges_rev.
  Qed.

  Definition flip (w : wedge point) : wedge point := (w2 w, w1 w, w0 w).
  Lemma flip_flip w : flip (flip w) = w.
  Proof. now destruct w as [[p v] n]. Qed.
  Ltac wsimpl := unfold flip, Relations.w0, Relations.w1, Relations.w2 in *; simpl in *.

  Lemma wedges_invert' A w : In w (wedges (invert A)) <-> In (flip w) (wedges A).
  Proof. destruct w as [[p v] n]. apply wedges_invert. Qed.

  Lemma edge_cross_invert_l A B : edge_cross (invert A) B = edge_cross A B.
  Proof.
    apply eq_true_iff_eq. rewrite !edge_cross_spec. split.
    - intros [[a b] [eb [H1 [H2 H]]]]. exists (b, a), eb. apply (proj1 (edges_invert A a b)) in H1.
      repeat split; try assumption. wsimpl. now rewrite cross_rev.
    - intros [[a b] [eb [H1 [H2 H]]]]. exists (b, a), eb.
      repeat split; [now apply edges_invert|assumption|]. wsimpl. now rewrite cross_rev.
  Qed.

  Lemma edge_cross_invert_r A B : edge_cross A (invert B) = edge_cross A B.
  Proof. now rewrite edge_cross_sym, edge_cross_invert_l, edge_cross_sym. Qed.

  Lemma shared_invert_l A B wa wb :
    In (wa, wb) (shared (invert A) B) <-> In (flip wa, wb) (shared A B).
  Proof. rewrite !shared_spec, wedges_invert'. destruct wa as [[p v] n]. wsimpl. tauto. Qed.

  Lemma shared_swap A B wa wb : In (wa, wb) (shared A B) <-> In (wb, wa) (shared B A).
  Proof. rewrite !shared_spec. intuition congruence. Qed.

  Lemma found_shared_invert_l A B : found_shared (invert A) B = found_shared A B.
  Proof.
    apply eq_true_iff_eq. rewrite !found_shared_spec. split; intros [[wa wb] H].
    - exists (flip wa, wb). now apply shared_invert_l.
    - exists (flip wa, wb). apply shared_invert_l. now rewrite flip_flip.
  Qed.
  Lemma found_shared_invert_r A B : found_shared A (invert B) = found_shared A B.
  Proof. now rewrite found_shared_sym, found_shared_invert_l, found_shared_sym. Qed.

  (** ---- the three crossing relations under swap and inversion --------------------------- *)
  Lemma hc_intersects_sym A B : hc_intersects A B = hc_intersects B A.
  Proof.
    unfold Relations.has_crossing_intersects. rewrite edge_cross_sym. f_equal.
    apply existsb_eq; intros [wa wb] Hin H; exists (wb, wa); (split; [now apply shared_swap|]);
      apply shared_spec in Hin; destruct Hin as [_ [_ E]]; wsimpl;
      rewrite wedge_intersects_sym; congruence.
  Qed.

  Lemma hc_intersects_invert A B : hc_intersects A B = hc_contains (invert A) B.
  Proof.
    unfold Relations.has_crossing_intersects, Relations.has_crossing_contains.
    rewrite edge_cross_invert_l. f_equal. apply existsb_eq; intros [wa wb] Hin H.
    - exists (flip wa, wb). split; [apply shared_invert_l; now rewrite flip_flip|].
      destruct wa as [[p v] n]. wsimpl. now rewrite <- wedge_dual.
    - exists (flip wa, wb). split; [now apply shared_invert_l|].
      destruct wa as [[p v] n]. wsimpl. now rewrite wedge_dual.
  Qed.

  Lemma hc_contains_compl A B : hc_contains A B = hc_contains (invert B) (invert A).
  Proof.
    unfold Relations.has_crossing_contains.
    rewrite edge_cross_invert_l, edge_cross_invert_r, (edge_cross_sym B A). f_equal.
    apply existsb_eq; intros [w w'] Hin H.
    - exists (flip w', flip w). split.
      + apply shared_invert_l. rewrite flip_flip. apply shared_swap. apply shared_invert_l.
        now rewrite flip_flip.
      + apply shared_spec in Hin. destruct Hin as [_ [_ E]].
        destruct w as [[a0 v] a2], w' as [[b0 v'] b2]. wsimpl. subst v'.
        now rewrite <- wedge_contains_compl.
    - apply (proj1 (shared_invert_l _ _ _ _)) in Hin. apply (proj1 (shared_swap _ _ _ _)) in Hin.
      apply (proj1 (shared_invert_l _ _ _ _)) in Hin.
      exists (flip w', flip w). split; [exact Hin|].
      apply (proj1 (shared_spec _ _ _ _)) in Hin. destruct Hin as [_ [_ E]].
      destruct w as [[b2 v'] b0], w' as [[a2 v] a0]. wsimpl. subst v'.
      now rewrite wedge_contains_compl.
  Qed.

  (** ---- a valid loop against itself ------------------------------------------------------- *)
  Lemma wedges_nonempty A : normal A -> wf A -> exists w, In w (wedges A).
  Proof.
    intros HN HW. unfold Relations.wedges. rewrite HN. destruct (l_verts A) as [|x t] eqn:E; [now elim HW|].
    destruct (proj1 (cyc_wedges_vertex point (x :: t) x) (or_introl eq_refl)) as [p [n H]].
    now exists (p, x, n).
  Qed.

  Lemma shared_self A wa wb : valid A -> normal A -> In (wa, wb) (shared A A) -> wa = wb.
  Proof.
    intros [_ HV] HN H. destruct (HV HN) as [ND _]. apply shared_spec in H. destruct H as [H1 [H2 E]].
    unfold Relations.wedges in H1, H2. rewrite HN in H1, H2.
    destruct wa as [[p v] n], wb as [[p' v'] n']. wsimpl. subst v'.
    destruct (cyc_wedges_unique point _ _ _ _ _ _ ND H1 H2). now subst.
  Qed.

  Lemma hc_contains_self A : valid A -> normal A -> hc_contains A A = false.
  Proof.
    intros HV HN. unfold Relations.has_crossing_contains.
    destruct HV as [HW HV']. destruct (HV' HN) as [_ [_ EC]]. rewrite EC. simpl.
    apply not_true_is_false. intro H. apply existsb_exists in H. destruct H as [[wa wb] [Hin H]].
    pose proof (shared_self A wa wb (conj HW HV') HN Hin) as E. subst wb.
    destruct wa as [[p v] n]. wsimpl. now rewrite (wedge_contains_self point ordered_ccw occw_aab) in H.
  Qed.

  Lemma found_shared_self A : valid A -> normal A -> found_shared A A = true.
  Proof.
    intros [HW _] HN. apply found_shared_spec. destruct (wedges_nonempty A HN HW) as [w H].
    exists (w, w). apply shared_spec. auto.
  Qed.

  Lemma hc_intersects_self A : valid A -> normal A -> hc_intersects A A = true.
  Proof.
    intros [HW HV] HN. destruct (HV HN) as [ND [H3 _]].
    unfold Relations.has_crossing_intersects. apply orb_true_iff. right.
    destruct (wedges_nonempty A HN HW) as [w H]. apply existsb_exists. exists (w, w). split.
    - apply shared_spec. auto.
    - destruct w as [[p v] n]. wsimpl. unfold Relations.wedges in H. rewrite HN in H.
      destruct (cyc_wedges_distinct point _ _ _ _ ND H3 H) as [D1 [D2 D3]].
      apply (wedge_intersects_self point ordered_ccw occw_aba); auto.
  Qed.

  (** ---- laws of the decisions without prefilters ------------------------------------------- *)
  Lemma eof_cases A : (is_eof A = true /\ (is_full A = true /\ is_empty A = false \/ is_full A = false /\ is_empty A = true))
                      \/ (is_eof A = false /\ is_full A = false /\ is_empty A = false).
  Proof. unfold Relations.is_empty_or_full, Relations.is_full, Relations.is_empty. destruct (l_kind A); auto. Qed.

  Lemma intersects_core_sym A B : intersects_core A B = intersects_core B A.
  Proof.
    unfold intersects_core.
    rewrite (orb_comm (is_empty A)), (orb_comm (is_full A)), hc_intersects_sym, found_shared_sym,
      (orb_comm (cv0 A B)). reflexivity.
  Qed.

  Lemma contains_core_refl A : valid A -> contains_core A A = true.
  Proof.
    intros HV. unfold contains_core. destruct (eof_cases A) as [[E [[F M]|[F M]]]|[E [F M]]];
      rewrite E, ?F, ?M; simpl; try reflexivity.
    now rewrite (hc_contains_self A HV E), (found_shared_self A HV E).
  Qed.

  Lemma intersects_core_refl A : valid A -> is_empty A = false -> intersects_core A A = true.
  Proof.
    intros HV NE. unfold intersects_core. rewrite NE. simpl.
    destruct (eof_cases A) as [[E [[F M]|[F M]]]|[E [F M]]]; rewrite ?F; simpl; try reflexivity; try congruence.
    now rewrite (hc_intersects_self A HV E).
  Qed.

  (** H-JORDAN, in the form this layer uses it: if the boundaries of two loops neither cross
      nor touch, all vertices of one lie on the same side of the other *)
  Definition H_JORDAN_side : Prop :=
    forall A B, normal A -> normal B -> edge_cross A B = false -> found_shared A B = false ->
      forall u v, In u (l_verts A) -> In v (l_verts A) -> contains_point B u = contains_point B v.

  Lemma cv0_invert_l A B : cv0 (invert A) B = match l_verts B with [] => false | _ => negb (cv0 A B) end.
  Proof. unfold Relations.contains_v0. destruct (l_verts B); [reflexivity|apply cp_invert]. Qed.

  Lemma cv0_invert_r A B : H_JORDAN_side -> normal A -> normal B -> wf B ->
    edge_cross A B = false -> found_shared A B = false ->
    cv0 A (invert B) = cv0 A B.
  Proof.
    intros HJ NA NB WB EC FS. unfold Relations.contains_v0. rewrite invert_verts_normal by exact NB.
    destruct (l_verts B) as [|x t] eqn:E; [now elim WB|].
    destruct (rev (x :: t)) as [|y t'] eqn:E'; [apply (f_equal (@length _)) in E'; rewrite rev_length in E'; discriminate|].
    rewrite edge_cross_sym in EC. rewrite found_shared_sym in FS.
    apply (HJ B A NB NA EC FS); rewrite E.
    - apply in_rev. rewrite E'. now left.
    - now left.
  Qed.

  Lemma intersects_core_compl A B : H_JORDAN_side -> wf A -> wf B ->
    intersects_core A B = negb (contains_core (invert A) B).
  Proof.
    intros HJ WA WB. unfold intersects_core, contains_core.
    rewrite invert_eof, invert_full, <- hc_intersects_invert, found_shared_invert_l.
    destruct (eof_cases A) as [[EA [[FA MA]|[FA MA]]]|[EA [FA MA]]];
    destruct (eof_cases B) as [[EB [[FB MB]|[FB MB]]]|[EB [FB MB]]];
      rewrite EA, EB, ?FA, ?MA, ?FB, ?MB; simpl; try reflexivity.
    destruct (hc_intersects A B) eqn:HC; [reflexivity|].
    destruct (found_shared A B) eqn:FS; [reflexivity|]. simpl.
    rewrite cv0_invert_l.
    destruct (l_verts B) as [|b0 tb] eqn:EvB; [now elim WB|].
    assert (EC : edge_cross A B = false)
      by (unfold Relations.has_crossing_intersects in HC; apply orb_false_iff in HC; tauto).
    assert (E : cv0 B (invert A) = cv0 B A).
    { apply cv0_invert_r; auto; [now rewrite edge_cross_sym|now rewrite found_shared_sym]. }
    rewrite E, negb_andb, !negb_involutive. reflexivity.
  Qed.

  Lemma contains_core_compl A B : H_JORDAN_side -> wf A -> wf B ->
    contains_core A B = contains_core (invert B) (invert A).
  Proof.
    intros HJ WA WB. unfold contains_core.
    rewrite !invert_eof, invert_full, invert_empty, <- hc_contains_compl,
      found_shared_invert_l, found_shared_invert_r, (found_shared_sym B A).
    destruct (eof_cases A) as [[EA [[FA MA]|[FA MA]]]|[EA [FA MA]]];
    destruct (eof_cases B) as [[EB [[FB MB]|[FB MB]]]|[EB [FB MB]]];
      rewrite EA, EB, ?FA, ?MA, ?FB, ?MB; simpl; try reflexivity.
    destruct (hc_contains A B) eqn:HC; [reflexivity|].
    destruct (found_shared A B) eqn:FS; [reflexivity|].
    assert (EC : edge_cross A B = false)
      by (unfold Relations.has_crossing_contains in HC; apply orb_false_iff in HC; tauto).
    pose proof (invert_wf A WA) as WIA. pose proof (invert_wf B WB) as WIB.
    rewrite !cv0_invert_l.
    destruct (l_verts (invert A)) as [|a0' ta'] eqn:EvA; [now elim WIA|].
    destruct (l_verts (invert B)) as [|b0' tb'] eqn:EvB; [now elim WIB|].
    rewrite (cv0_invert_r B A), (cv0_invert_r A B); auto;
      [|now rewrite edge_cross_sym|now rewrite found_shared_sym].
    rewrite negb_involutive. apply andb_comm.
  Qed.
  (** ---- rectangle prefilters: soundness premises (H-LATBOUND / H-SUBREGION) ------------------
      The Go code consults cached bounding rectangles before (and after) the boundary test. The
      model takes their answers as the abstract booleans [sub_contains], [bound_intersects],
      [bound_union_full]; what the theorems need of them is exactly: *)
  (* if A contains B then A.subregionBound contains B.bound (comment of the field subregionBound) *)
  Definition H_SUBREGION_sound : Prop := forall A B, contains_core A B = true -> sub_contains A B = true.
  (* if A and B intersect then their bounds intersect; the empty loop's bound intersects nothing *)
  Definition H_LATBOUND_sound : Prop := forall A B, intersects_core A B = true -> bound_intersects A B = true.
  Definition H_LATBOUND_empty : Prop :=
    forall A B, is_empty A = true \/ is_empty B = true -> bound_intersects A B = false.
  (* boundaries neither cross nor touch and A contains a vertex of B: either A contains B (so
     the subregion bound applies) or A and B cover the sphere, and then the union of the bounds
     is full and B contains the vertices of A *)
  Definition H_SUBREGION_v0 : Prop :=
    forall A B, normal A -> normal B -> edge_cross A B = false -> found_shared A B = false ->
      cv0 A B = true ->
      sub_contains A B = true \/ (bound_union_full A B = true /\ cv0 B A = true).

  Lemma eof_no_edges A : is_eof A = true -> edges A = [] /\ wedges A = [].
  Proof. intro E. unfold Relations.edges, Relations.wedges. now rewrite E. Qed.

  Lemma eof_no_crossing_l A B : is_eof A = true -> hc_intersects A B = false /\ found_shared A B = false.
  Proof.
    intro E. destruct (eof_no_edges A E) as [E1 E2].
    unfold Relations.has_crossing_intersects, Relations.found_shared, Relations.shared, Relations.edge_cross.
    now rewrite E1, E2.
  Qed.
  Lemma eof_no_crossing_r A B : is_eof B = true -> hc_intersects A B = false /\ found_shared A B = false.
  Proof. intro E. rewrite hc_intersects_sym, found_shared_sym. now apply eof_no_crossing_l. Qed.

  Lemma cv0_full A B : wf B -> is_full A = true -> cv0 A B = true.
  Proof. intros W F. unfold Relations.contains_v0. destruct (l_verts B) eqn:E; [now elim W|now apply cp_full]. Qed.
  Lemma cv0_empty A B : is_empty A = true -> cv0 A B = false.
  Proof. intros F. unfold Relations.contains_v0. destruct (l_verts B); [reflexivity|now apply cp_empty]. Qed.

  Lemma contains_core_full A B : is_full A = true -> contains_core A B = true.
  Proof.
    intro F. unfold contains_core.
    assert (E : is_eof A = true) by (destruct (eof_cases A) as [[E _]|[_ [F' _]]]; congruence).
    now rewrite E, F.
  Qed.

  Theorem loop_contains_eq_core : H_SUBREGION_sound -> H_SUBREGION_v0 -> forall A B,
    L_contains A B = contains_core A B.
  Proof.
    intros HS HV A B. destruct (contains_core A B) eqn:C.
    - pose proof (HS A B C) as S. unfold Relations.loop_contains. rewrite S. simpl.
      unfold contains_core in C.
      destruct (is_eof A || is_eof B) eqn:E; [exact C|].
      destruct (hc_contains A B) eqn:HC; [exact C|].
      destruct (found_shared A B) eqn:FS; [reflexivity|].
      apply andb_true_iff in C. destruct C as [CA CB]. apply negb_true_iff in CB.
      rewrite CA, CB. simpl. now rewrite andb_false_r.
    - unfold Relations.loop_contains. destruct (sub_contains A B) eqn:S; [|reflexivity]. simpl.
      unfold contains_core in C.
      destruct (is_eof A || is_eof B) eqn:E; [exact C|].
      destruct (hc_contains A B) eqn:HC; [reflexivity|].
      destruct (found_shared A B) eqn:FS; [exact C|].
      destruct (cv0 A B) eqn:CA; [|reflexivity]. simpl in *.
      apply negb_false_iff in C. rewrite C.
      apply orb_false_iff in E. destruct E as [EA EB].
      assert (EC : edge_cross B A = false).
      { rewrite edge_cross_sym. unfold Relations.has_crossing_contains in HC. apply orb_false_iff in HC. tauto. }
      rewrite found_shared_sym in FS.
      destruct (HV B A EB EA EC FS C) as [S'|[U _]]; rewrite ?S', ?U, ?orb_true_r; reflexivity.
  Qed.

  Theorem loop_intersects_eq_core :
    H_SUBREGION_sound -> H_SUBREGION_v0 -> H_LATBOUND_sound -> H_LATBOUND_empty ->
    forall A B, wf A -> wf B -> L_intersects A B = intersects_core A B.
  Proof.
    intros HS HV HB HE A B WA WB. destruct (intersects_core A B) eqn:C.
    - pose proof (HB A B C) as BI. unfold Relations.loop_intersects. rewrite BI. simpl.
      unfold intersects_core in C.
      destruct (is_empty A || is_empty B) eqn:EM; [discriminate|].
      apply orb_false_iff in EM. destruct EM as [MA MB].
      destruct (eof_cases A) as [[EA [[FA _]|[_ MA']]]|[EA [FA _]]]; try congruence.
      { (* A full *)
        destruct (eof_no_crossing_l A B EA) as [H1 H2]. rewrite H1, H2.
        rewrite (HS A B (contains_core_full A B FA)), (cv0_full A B WB FA). reflexivity. }
      destruct (eof_cases B) as [[EB [[FB _]|[_ MB']]]|[EB [FB _]]]; try congruence.
      { (* B full *)
        destruct (eof_no_crossing_r A B EB) as [H1 H2]. rewrite H1, H2.
        rewrite (HS B A (contains_core_full B A FB)), (cv0_full B A WA FB).
        now destruct ((sub_contains A B || bound_union_full A B) && cv0 A B). }
      rewrite FA, FB in C. simpl in C.
      destruct (hc_intersects A B) eqn:HC; [reflexivity|].
      destruct (found_shared A B) eqn:FS; [discriminate|].
      assert (EC : edge_cross A B = false)
        by (unfold Relations.has_crossing_intersects in HC; apply orb_false_iff in HC; tauto).
      destruct (cv0 A B) eqn:CA.
      + destruct (HV A B EA EB EC FS CA) as [S|[U _]]; rewrite ?S, ?U, ?orb_true_r; reflexivity.
      + simpl in C. rewrite andb_false_r.
        assert (EC' : edge_cross B A = false) by now rewrite edge_cross_sym.
        assert (FS' : found_shared B A = false) by now rewrite found_shared_sym.
        destruct (HV B A EB EA EC' FS' C) as [S|[_ CA']]; [|congruence]. now rewrite S, C.
    - unfold Relations.loop_intersects. destruct (bound_intersects A B) eqn:BI; [|reflexivity]. simpl.
      unfold intersects_core in C.
      destruct (is_empty A || is_empty B) eqn:EM.
      { apply orb_true_iff in EM. rewrite (HE A B EM) in BI. discriminate. }
      destruct (is_full A || is_full B) eqn:EF; [discriminate|].
      destruct (hc_intersects A B) eqn:HC; [discriminate|].
      destruct (found_shared A B) eqn:FS; [reflexivity|].
      apply orb_false_iff in C. destruct C as [CA CB]. now rewrite CA, CB, !andb_false_r.
  Qed.

  (** ---- the laws, for the decision as Go takes it (prefilters included) -------------------- *)
  Section Laws.
    Hypothesis H_sub : H_SUBREGION_sound.
    Hypothesis H_v0 : H_SUBREGION_v0.
    Hypothesis H_bnd : H_LATBOUND_sound.
    Hypothesis H_bnd_empty : H_LATBOUND_empty.

    Theorem intersects_sym A B : wf A -> wf B -> L_intersects A B = L_intersects B A.
    Proof.
      intros WA WB. rewrite !loop_intersects_eq_core by assumption. apply intersects_core_sym.
    Qed.

    Theorem contains_refl A : valid A -> L_contains A A = true.
    Proof. intro V. rewrite loop_contains_eq_core by assumption. now apply contains_core_refl. Qed.

    Theorem intersects_refl A : valid A -> is_empty A = false -> L_intersects A A = true.
    Proof.
      intros V NE. destruct V as [W V']. rewrite loop_intersects_eq_core by assumption.
      now apply intersects_core_refl.
    Qed.

    Theorem intersects_iff_not_compl_contains A B : H_JORDAN_side -> wf A -> wf B ->
      L_intersects A B = negb (L_contains (invert A) B).
    Proof.
      intros HJ WA WB. rewrite loop_intersects_eq_core, loop_contains_eq_core by assumption.
      now apply intersects_core_compl.
    Qed.

    Theorem contains_iff_compl A B : H_JORDAN_side -> wf A -> wf B ->
      L_contains A B = L_contains (invert B) (invert A).
    Proof.
      intros HJ WA WB. rewrite !loop_contains_eq_core by assumption. now apply contains_core_compl.
    Qed.

    (** point-set reading. The geometric content (a polygonal Jordan curve theorem for the
        perturbed configuration, and H-CLIP for the index paths of ContainsPoint) is the
        named hypothesis; the theorem adds the empty/full cases and the prefilters. *)
    Definition H_JORDAN_subset : Prop :=
      forall A B, valid A -> valid B -> normal A -> normal B -> contains_core A B = true ->
        forall p, contains_point B p = true -> contains_point A p = true.
    Definition H_JORDAN_disjoint : Prop :=
      forall A B, valid A -> valid B -> normal A -> normal B -> intersects_core A B = false ->
        forall p, contains_point A p = true -> contains_point B p = true -> False.

    Theorem contains_pointset A B : H_JORDAN_subset -> valid A -> valid B ->
      L_contains A B = true -> forall p, contains_point B p = true -> contains_point A p = true.
    Proof.
      intros HJ VA VB C p PB. rewrite loop_contains_eq_core in C by assumption.
      destruct (eof_cases A) as [[EA [[FA MA]|[FA MA]]]|[EA [FA MA]]].
      - now apply cp_full.
      - unfold contains_core in C. rewrite EA, FA in C. simpl in C.
        now rewrite (cp_empty B p C) in PB.
      - destruct (eof_cases B) as [[EB [[FB MB]|[FB MB]]]|[EB [FB MB]]].
        + unfold contains_core in C. rewrite EA, EB, FA, MB in C. discriminate.
        + now rewrite (cp_empty B p MB) in PB.
        + now apply (HJ A B).
    Qed.

    Theorem disjoint_pointset A B : H_JORDAN_disjoint -> valid A -> valid B ->
      L_intersects A B = false ->
      forall p, contains_point A p = true -> contains_point B p = true -> False.
    Proof.
      intros HJ VA VB C p PA PB. pose proof (proj1 VA) as WA. pose proof (proj1 VB) as WB.
      rewrite loop_intersects_eq_core in C by assumption.
      destruct (eof_cases A) as [[EA [[FA MA]|[FA MA]]]|[EA [FA MA]]];
      destruct (eof_cases B) as [[EB [[FB MB]|[FB MB]]]|[EB [FB MB]]];
        try (rewrite (cp_empty A p MA) in PA; discriminate);
        try (rewrite (cp_empty B p MB) in PB; discriminate);
        try (unfold intersects_core in C; rewrite ?FA, ?MA, ?FB, ?MB in C; simpl in C; discriminate).
      now apply (HJ A B VA VB EA EB C p).
    Qed.
  End Laws.
End RelLaws.

(** ---- the premises are satisfiable -------------------------------------------------------------
    A model with points = nat in which nothing crosses: ContainsPoint of a normal loop is its
    originInside flag, the rectangle prefilters are the decisions themselves, and [0;1;2] is a
    valid loop. All interface laws, the prefilter premises and H_JORDAN_side hold in it. *)
Section Satisfiable.
  Let occw := fun a b c (_ : nat) => Nat.eqb a b || Nat.eqb b c.
  Let cs := fun (_ _ _ _ : nat) => DoNotCross.
  Let cp := fun (L : loop nat) (_ : nat) =>
    match l_kind nat L with KFull => true | KEmpty => false | KNormal => l_oi nat L end.
  Let sub := contains_core nat Nat.eqb occw cs cp.
  Let bi := intersects_core nat Nat.eqb occw cs cp.
  Let uf := fun (_ _ : loop nat) => true.

  Example premises_satisfiable :
    (forall a b, Nat.eqb a b = true <-> a = b) /\
    (forall a b c d, cs a b c d = cs c d a b) /\ (forall a b c d, cs b a c d = cs a b c d) /\
    (forall a c o, occw a a c o = true) /\
    (forall a b o, a <> b -> a <> o -> b <> o -> occw a b a o = false) /\
    (forall L p, cp (invert nat 0 0 L) p = negb (cp L p)) /\
    (forall L p, is_full nat L = true -> cp L p = true) /\
    (forall L p, is_empty nat L = true -> cp L p = false) /\
    H_SUBREGION_sound nat Nat.eqb occw cs cp sub /\
    H_SUBREGION_v0 nat Nat.eqb cs cp sub uf /\
    H_LATBOUND_sound nat Nat.eqb occw cs cp bi /\
    H_LATBOUND_empty nat bi /\
    H_JORDAN_side nat Nat.eqb cs cp /\
    valid nat cs (mk_loop nat KNormal [0; 1; 2] false).
  Proof.
    repeat split; try reflexivity.
    - apply Nat.eqb_eq.
    - apply Nat.eqb_eq.
    - intros. unfold occw. now rewrite Nat.eqb_refl.
    - intros a b o H _ _. unfold occw.
      assert (Nat.eqb a b = false) by now apply Nat.eqb_neq.
      assert (Nat.eqb b a = false) by (apply Nat.eqb_neq; congruence). now rewrite H0, H1.
    - intros L p. unfold cp, invert. now destruct (l_kind nat L).
    - intros L p. unfold cp, is_full. now destruct (l_kind nat L).
    - intros L p. unfold cp, is_empty. now destruct (l_kind nat L).
    - intros A B H. exact H.
    - intros A B NA NB _ FS CA. unfold sub, contains_core. unfold normal in NA, NB. rewrite NA, NB. simpl.
      unfold has_crossing_contains, edge_cross. unfold found_shared in FS.
      destruct (shared nat Nat.eqb A B) eqn:E; [|discriminate]. simpl.
      assert (EC : existsb (fun _ : nat * nat => existsb (fun _ : nat * nat => false) (edges nat B)) (edges nat A) = false).
      { apply not_true_is_false. intro H. apply existsb_exists in H. destruct H as [ea [_ H]].
        apply existsb_exists in H. destruct H as [eb [_ H]]. discriminate H. }
      rewrite EC. simpl. unfold found_shared. rewrite E. simpl. rewrite CA. simpl.
      destruct (contains_v0 nat cp B A); [right; split; reflexivity|left; reflexivity].
    - intros A B H. exact H.
    - intros A B [H|H]; unfold bi, intersects_core; rewrite H; [reflexivity|]. now rewrite orb_true_r.
    - discriminate.
    - repeat constructor; simpl; intuition discriminate.
  Qed.
End Satisfiable.
