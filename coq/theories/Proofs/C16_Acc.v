(** C16: accuracy, unit length and hemisphere of s2.Intersection.
    The numerical sentences are carried by the named hypotheses H_ISECT (the point produced by
    the path that decided is within intersectionError of the line of the exact intersection
    direction and is unit length up to 2*2^-52) and H_HEMI (away from 180-degree edges the final
    sign test picks the side of the crossing point).  Closed here: the sign correction and the
    canonicalisation of zero signs change the point only by an exact negation resp. not at all
    (as real vectors), so both sentences transfer to the returned point; and == results become
    bit-identical results after the canonicalisation. *)
From Coq Require Import ZArith Reals Floats Lra Bool List Psatz.
From Flocq Require Import Core.Core IEEE754.BinarySingleNaN IEEE754.PrimFloat.
From Geo Require Import Base.GoPrim Base.F64 Gen.R3 Gen.S2Point Gen.Isect Model.IsectExact.
From Geo Require Import Proofs.C16_F64Exact Proofs.C16_Exact Proofs.C16_Coll Proofs.C16_Witness.
Import ListNotations.
Local Open Scope R_scope.

Definition fR (x : PrimFloat.float) : R := B2R (Prim2B x).
Definition vecR (v : r3_Vector) : vR := (fR (r3_Vector_X v), fR (r3_Vector_Y v), fR (r3_Vector_Z v)).
Definition finite3 (v : r3_Vector) : Prop :=
  finite (r3_Vector_X v) /\ finite (r3_Vector_Y v) /\ finite (r3_Vector_Z v).
Definition negR (a : vR) : vR := scaleR (-1) a.
Definition normsq (a : vR) : R := dotR a a.

(** ** the last two steps of Intersection on real vectors *)
Lemma canon_zero_vecR p : vecR (s2_Point_Vector (isect_canon_zero p)) = vecR (s2_Point_Vector p).
Proof.
  destruct p as [[x y z]]. unfold isect_canon_zero, vecR, fR, r3_Vector_Add. simpl.
  now rewrite !add_zero_B2R.
Qed.

Lemma fix_sign_vecR pt a0 a1 b0 b1 : finite3 (s2_Point_Vector pt) ->
  let r := vecR (s2_Point_Vector (isect_fix_sign pt a0 a1 b0 b1)) in
  r = vecR (s2_Point_Vector pt) \/ r = negR (vecR (s2_Point_Vector pt)).
Proof.
  destruct pt as [[x y z]]. unfold finite3. simpl. intros (Fx & Fy & Fz).
  unfold isect_fix_sign. match goal with |- context [if ?c then _ else _] => destruct c end; simpl.
  - right. unfold r3_Vector_Mul, vecR, fR, negR, scaleR. simpl.
    rewrite !mul_neg1 by assumption. rewrite !opp_B2R. f_equal; [f_equal|]; ring.
  - left. reflexivity.
Qed.

(** == results are bit-identical after the canonicalisation (/repo 6031b18) *)
Theorem canon_zero_bit_identical p q :
  nonnan3 (s2_Point_Vector p) -> nonnan3 (s2_Point_Vector q) -> s2_Point_eqb p q = true ->
  isect_canon_zero p = isect_canon_zero q.
Proof.
  destruct p as [[px py pz]], q as [[qx qy qz]]. unfold nonnan3, s2_Point_eqb, r3_Vector_eqb. simpl.
  intros (? & ? & ?) (? & ? & ?) E. apply andb_true_iff in E. destruct E as [E Ez].
  apply andb_true_iff in E. destruct E as [Ex Ey].
  unfold isect_canon_zero, r3_Vector_Add. simpl.
  rewrite (eqb_add_zero px qx), (eqb_add_zero py qy), (eqb_add_zero pz qz) by assumption. reflexivity.
Qed.

(** a coordinate of the returned point is never -0 *)
Theorem canon_zero_no_negative_zero p c :
  In c [r3_Vector_X (s2_Point_Vector (isect_canon_zero p)); r3_Vector_Y (s2_Point_Vector (isect_canon_zero p));
        r3_Vector_Z (s2_Point_Vector (isect_canon_zero p))] -> Prim2B c <> B754_zero true.
Proof.
  destruct p as [[x y z]]. unfold isect_canon_zero, r3_Vector_Add. simpl.
  intros [<-|[<-|[<-|[]]]]; rewrite add_zero_B;
  match goal with |- context [Prim2B ?t] => destruct (Prim2B t) end; congruence.
Qed.

(** ** accuracy *)
Section Accuracy.
  (** sin^2 of the documented bound (8 * dblError radians), and the unit-length slack *)
  Variable sinB2 : R.
  Variable unit_slack : R.

  (** r is within the bound of the LINE spanned by t (t or -t) *)
  Definition near_line (r t : vR) : Prop := normsq (crossR r t) <= sinB2 * normsq r * normsq t.
  Definition unitish (r : vR) : Prop := Rabs (normsq r - 1) <= unit_slack.

  Definition valid_pt (p : s2_Point) : Prop := finite3 (s2_Point_Vector p).
  Definition crossing (a0 a1 b0 b1 : s2_Point) : Prop := crossing_sign a0 a1 b0 b1 <> 0%Z.
  (** the crossing point's direction: s * (a0 x a1) x (b0 x b1), see Proofs/C16_Exact.v *)
  Definition true_dir (a0 a1 b0 b1 : s2_Point) : vR :=
    scaleR (IZR (crossing_sign a0 a1 b0 b1)) (pvec_val (isect_xP a0 a1 b0 b1)).
  (** |a0 + a1|^2 >= 10^-12 : the edge is at least 10^-6 rad short of 180 degrees *)
  Definition not_antipodal (a0 a1 : s2_Point) : Prop :=
    let '(x0, y0, z0) := ptR a0 in let '(x1, y1, z1) := ptR a1 in
    / 1000000000000 <= (x0 + x1) * (x0 + x1) + (y0 + y1) * (y0 + y1) + (z0 + z1) * (z0 + z1).

  (** the point chosen by Intersection before the sign correction *)
  Definition chosen (a0 a1 b0 b1 : s2_Point) : s2_Point :=
    let '(pt, ok) := s2_intersectionStable a0 a1 b0 b1 in
    if ok then pt else s2_intersectionExact a0 a1 b0 b1.

  (** H_ISECT: whichever path decides, its point is finite, unit length up to the slack and
      within the bound of the exact intersection line (collinear pairs excluded: they have no
      intersection line; Proofs/C16_Coll.v covers them) *)
  Definition H_ISECT : Prop := forall a0 a1 b0 b1,
    valid_pt a0 -> valid_pt a1 -> valid_pt b0 -> valid_pt b1 -> crossing a0 a1 b0 b1 ->
    (snd (s2_intersectionStable a0 a1 b0 b1) = false -> isect_exact_collinear a0 a1 b0 b1 = false) ->
    let p := s2_Point_Vector (chosen a0 a1 b0 b1) in
    finite3 p /\ unitish (vecR p) /\ near_line (vecR p) (pvec_val (isect_xP a0 a1 b0 b1)).

  (** H_HEMI: for edges not within 10^-6 rad of 180 degrees the returned point is on the side
      of the crossing point (false without the guard: hemisphere_refuted) *)
  Definition H_HEMI : Prop := forall a0 a1 b0 b1,
    valid_pt a0 -> valid_pt a1 -> valid_pt b0 -> valid_pt b1 -> crossing a0 a1 b0 b1 ->
    not_antipodal a0 a1 -> not_antipodal b0 b1 ->
    0 < dotR (vecR (s2_Point_Vector (s2_Intersection a0 a1 b0 b1))) (true_dir a0 a1 b0 b1).

  Lemma near_line_neg r t : near_line r t -> near_line (negR r) t.
  Proof.
    destruct r as [[? ?] ?], t as [[? ?] ?]. unfold near_line, normsq, negR, scaleR, dotR, crossR.
    intros H. eapply Rle_trans; [|eapply Rle_trans; [exact H|]]; right; ring.
  Qed.
  Lemma unitish_neg r : unitish r -> unitish (negR r).
  Proof.
    destruct r as [[? ?] ?]. unfold unitish, normsq, negR, scaleR, dotR. intros H.
    match goal with |- Rabs ?a <= _ => match type of H with Rabs ?b <= _ => replace a with b by ring end end.
    exact H.
  Qed.
  Lemma near_line_scale r t (s : Z) : (s = 1 \/ s = -1)%Z -> near_line r t -> near_line r (scaleR (IZR s) t).
  Proof.
    destruct r as [[? ?] ?], t as [[? ?] ?]. unfold near_line, normsq, scaleR, dotR, crossR.
    intros [-> | ->] H; simpl; (eapply Rle_trans; [|eapply Rle_trans; [exact H|]]; right; ring).
  Qed.

  Lemma Intersection_chosen a0 a1 b0 b1 :
    s2_Intersection a0 a1 b0 b1 = isect_canon_zero (isect_fix_sign (chosen a0 a1 b0 b1) a0 a1 b0 b1).
  Proof.
    unfold s2_Intersection, s2_Intersection_with, s2_Intersection_signed, chosen.
    destruct (s2_intersectionStable a0 a1 b0 b1) as [pt ok]. reflexivity.
  Qed.

  Lemma crossing_sign_pm a0 a1 b0 b1 : crossing a0 a1 b0 b1 ->
    (crossing_sign a0 a1 b0 b1 = 1 \/ crossing_sign a0 a1 b0 b1 = -1)%Z.
  Proof.
    unfold crossing, crossing_sign. set (s := sign_exact a0 b0 a1).
    assert (Hs : (s = 0 \/ s = 1 \/ s = -1)%Z).
    { unfold s, sign_exact, bigf_sgn. destruct (bigf_is_zero _); [|destruct (bf_neg _)]; auto. }
    cbv zeta. match goal with |- context [if ?c then _ else _] => destruct c end; intros H;
    [destruct Hs as [Hs|[Hs|Hs]]; auto; congruence | congruence].
  Qed.

  (** the property's numerical sentences for the returned point, under the two hypotheses *)
  Theorem isect_accurate : H_ISECT -> H_HEMI -> forall a0 a1 b0 b1,
    valid_pt a0 -> valid_pt a1 -> valid_pt b0 -> valid_pt b1 -> crossing a0 a1 b0 b1 ->
    (snd (s2_intersectionStable a0 a1 b0 b1) = false -> isect_exact_collinear a0 a1 b0 b1 = false) ->
    not_antipodal a0 a1 -> not_antipodal b0 b1 ->
    let r := vecR (s2_Point_Vector (s2_Intersection a0 a1 b0 b1)) in
    unitish r /\ near_line r (true_dir a0 a1 b0 b1) /\ 0 < dotR r (true_dir a0 a1 b0 b1).
  Proof.
    intros HI HH a0 a1 b0 b1 V0 V1 V2 V3 C NC NA NB r.
    destruct (HI a0 a1 b0 b1 V0 V1 V2 V3 C NC) as (F & U & L).
    assert (E : r = vecR (s2_Point_Vector (chosen a0 a1 b0 b1)) \/
                r = negR (vecR (s2_Point_Vector (chosen a0 a1 b0 b1)))).
    { unfold r. rewrite Intersection_chosen, canon_zero_vecR. now apply fix_sign_vecR. }
    split; [|split].
    - destruct E as [-> | ->]; [assumption | now apply unitish_neg].
    - apply near_line_scale; [now apply crossing_sign_pm|].
      destruct E as [-> | ->]; [assumption | now apply near_line_neg].
    - now apply HH.
  Qed.

  (** without the hemisphere guard only the line and the length survive *)
  Theorem isect_accurate_line : H_ISECT -> forall a0 a1 b0 b1,
    valid_pt a0 -> valid_pt a1 -> valid_pt b0 -> valid_pt b1 -> crossing a0 a1 b0 b1 ->
    (snd (s2_intersectionStable a0 a1 b0 b1) = false -> isect_exact_collinear a0 a1 b0 b1 = false) ->
    let r := vecR (s2_Point_Vector (s2_Intersection a0 a1 b0 b1)) in
    unitish r /\ near_line r (true_dir a0 a1 b0 b1).
  Proof.
    intros HI a0 a1 b0 b1 V0 V1 V2 V3 C NC r.
    destruct (HI a0 a1 b0 b1 V0 V1 V2 V3 C NC) as (F & U & L).
    assert (E : r = vecR (s2_Point_Vector (chosen a0 a1 b0 b1)) \/
                r = negR (vecR (s2_Point_Vector (chosen a0 a1 b0 b1)))).
    { unfold r. rewrite Intersection_chosen, canon_zero_vecR. now apply fix_sign_vecR. }
    split.
    - destruct E as [-> | ->]; [assumption | now apply unitish_neg].
    - apply near_line_scale; [now apply crossing_sign_pm|].
      destruct E as [-> | ->]; [assumption | now apply near_line_neg].
  Qed.
End Accuracy.
