(** C01 — H_WRAP_INSIDE discharged: for leaf coordinates inside the face, cellIDFromFaceIJWrap
    (which always goes through float (u,v) -> xyz -> face/(u,v) -> stToIJ) is cellIDFromFaceIJ.
    Every float operation on that path is exact: u = (2i+1-2^30)/2^30 is a dyadic with a 31-bit
    numerator, the clamps do not fire (|u| < 1 < limit), the face is recovered because the
    +-1 component is strictly largest, the divisions are by +-1, 0.5*(u+1) = (2i+1)/2^31 and
    floor(2^30 * that) = floor(i + 1/2) = i. *)
From Coq Require Import ZArith Reals Floats Lia Lra Bool.
From Flocq Require Import Core.Core IEEE754.BinarySingleNaN IEEE754.PrimFloat.
From Geo Require Import Base.GoPrim Base.F64 Base.F64Arith Gen.CellIDFull
  Proofs.C01_Bits Proofs.C01_FloatInt Proofs.StUV_Mono.
Local Open Scope Z_scope.

Definition P30 : R := 1073741824%R.

Lemma s30_fin : fin (0x1p-30)%float. Proof. exact (lit_fin (0x1p-30)%float _ _ _ eq_refl). Qed.
Lemma s30_RV : RV (0x1p-30)%float = (1 / 1073741824)%R. Proof. lit_value. Qed.
Lemma p30_fin : fin (0x1p+30)%float. Proof. exact (lit_fin (0x1p+30)%float _ _ _ eq_refl). Qed.
Lemma p30_RV : RV (0x1p+30)%float = 1073741824%R. Proof. lit_value. Qed.
Lemma mone_fin : fin (-0x1p+00)%float. Proof. exact (lit_fin (-0x1p+00)%float _ _ _ eq_refl). Qed.
Lemma mone_RV : RV (-0x1p+00)%float = (-1)%R. Proof. lit_value. Qed.
Lemma ok4 : okbound 4. Proof. apply (okbound_IZR 4). lia. Qed.
Lemma okP31 : okbound 2147483648. Proof. apply (okbound_IZR 2147483648). lia. Qed.

(** a dyadic with a small numerator is representable *)
Lemma repr_dyadic (m : Z) (k : Z) (q : R) : Z.abs m < 2 ^ 53 -> 0 <= k <= 1074 ->
  (q = IZR m / IZR (2 ^ k))%R -> repr q.
Proof.
  intros Hm Hk ->. replace (IZR m / IZR (2 ^ k))%R with (F2R (Float radix2 m (- k))).
  - apply repr_F2R; lia.
  - unfold F2R. cbn [Fnum Fexp]. rewrite bpow_opp. rewrite (bpow_IZR k) by lia. reflexivity.
Qed.

(** the (u,v) coordinate of the leaf column i: exactly (2i+1-2^30)/2^30 *)
Definition Ucoord (i : Z) : PrimFloat.float :=
  PrimFloat.mul (0x1p-30)%float (float_of_Z (2 * i + 1 - 1073741824)).

Lemma Ucoord_val i : 0 <= i < 2 ^ 30 ->
  fin (Ucoord i) /\ (RV (Ucoord i) = IZR (2 * i + 1 - 1073741824) / 1073741824)%R /\
  (-1 < RV (Ucoord i) < 1)%R.
Proof.
  intros Hi. change (2 ^ 30) with 1073741824 in Hi. unfold Ucoord.
  set (m := 2 * i + 1 - 1073741824). assert (Hm : - 1073741823 <= m <= 1073741823) by (unfold m; lia).
  destruct (float_of_Z_fin m) as (Fm & Em); [change (2 ^ 53) with 9007199254740992; lia|].
  assert (Q : (-1 < IZR m / 1073741824 < 1)%R).
  { assert (IZR (-1073741823) <= IZR m)%R by (apply IZR_le; lia). assert (IZR m <= IZR 1073741823)%R by (apply IZR_le; lia).
    split; [apply Rmult_lt_reg_r with 1073741824%R; [lra|]|apply Rmult_lt_reg_r with 1073741824%R; [lra|]];
      unfold Rdiv; rewrite Rmult_assoc, Rinv_l by lra; lra. }
  assert (Erepr : rnd (RV (0x1p-30)%float * RV (float_of_Z m)) = (IZR m / 1073741824)%R).
  { rewrite s30_RV, Em. replace (1 / 1073741824 * IZR m)%R with (IZR m / 1073741824)%R by (field).
    apply rnd_repr. apply (repr_dyadic m 30); [change (2 ^ 53) with 9007199254740992; lia|lia|reflexivity]. }
  destruct (mul_fin _ _ s30_fin Fm) as (F & E).
  { rewrite Erepr. apply Rlt_trans with 4%R; [apply Rabs_def1; lra|]. apply (proj2 ok4). }
  rewrite Erepr in E. split; [exact F|]. split; [exact E|]. rewrite E. exact Q.
Qed.

(** from any float with the value of Ucoord i back to i: stToIJ(0.5*(u+1)) = i *)
Lemma stToIJ_back u i : 0 <= i < 2 ^ 30 -> fin u ->
  (RV u = IZR (2 * i + 1 - 1073741824) / 1073741824)%R ->
  s2_stToIJ (PrimFloat.mul (0x1p-01)%float (PrimFloat.add u (0x1p+00)%float)) = i.
Proof.
  intros Hi Fu Eu. change (2 ^ 30) with 1073741824 in Hi.
  assert (Hq : (0 < IZR (2 * i + 1) < 2147483648)%R).
  { split; [apply IZR_lt; lia|]. apply (IZR_lt _ 2147483648). lia. }
  (* u + 1 = (2i+1)/2^30 *)
  assert (E1 : (RV u + RV 1%float = IZR (2 * i + 1) / 1073741824)%R).
  { rewrite Eu, one_RV. rewrite minus_IZR. field. }
  assert (R1 : rnd (RV u + RV 1%float) = (IZR (2 * i + 1) / 1073741824)%R).
  { rewrite E1. apply rnd_repr. apply (repr_dyadic (2 * i + 1) 30); [change (2 ^ 53) with 9007199254740992; lia|lia|reflexivity]. }
  destruct (add_fin u 1%float Fu one_fin) as (F1 & V1).
  { rewrite R1. apply Rlt_trans with 4%R; [apply Rabs_def1; lra|apply (proj2 ok4)]. }
  rewrite R1 in V1.
  (* * 0.5 = (2i+1)/2^31 *)
  assert (R2 : rnd (RV (0x1p-01)%float * RV (PrimFloat.add u 1)) = (IZR (2 * i + 1) / 2147483648)%R).
  { rewrite half_RV, V1. replace (1 / 2 * (IZR (2 * i + 1) / 1073741824))%R with (IZR (2 * i + 1) / 2147483648)%R by field.
    apply rnd_repr. apply (repr_dyadic (2 * i + 1) 31); [change (2 ^ 53) with 9007199254740992; lia|lia|reflexivity]. }
  destruct (mul_fin _ _ half_fin F1) as (F2 & V2).
  { rewrite R2. apply Rlt_trans with 4%R; [apply Rabs_def1; lra|apply (proj2 ok4)]. }
  rewrite R2 in V2.
  (* * 2^30 = (2i+1)/2 *)
  unfold s2_stToIJ.
  set (s := PrimFloat.mul (0x1p-01)%float (PrimFloat.add u 1)) in *.
  assert (R3 : rnd (RV (0x1p+30)%float * RV s) = (IZR (2 * i + 1) / 2)%R).
  { rewrite p30_RV, V2. replace (1073741824 * (IZR (2 * i + 1) / 2147483648))%R with (IZR (2 * i + 1) / 2)%R by field.
    apply rnd_repr. apply (repr_dyadic (2 * i + 1) 1); [change (2 ^ 53) with 9007199254740992; lia|lia|reflexivity]. }
  destruct (mul_fin _ _ p30_fin F2) as (F3 & V3).
  { rewrite R3. apply Rlt_trans with 2147483648%R; [apply Rabs_def1; lra|apply (proj2 okP31)]. }
  rewrite R3 in V3.
  rewrite (go_floor_half _ i F3 ltac:(change (2 ^ 52) with 4503599627370496; lia) V3).
  rewrite trunc_float_of_Z by (change (2 ^ 53) with 9007199254740992; lia).
  rewrite wrap_i64_small by (change (2 ^ 63) with 9223372036854775808; lia).
  unfold s2_clampInt. replace (i <? 0) with false by (symmetry; apply Z.ltb_ge; lia).
  replace (1073741823 <? i) with false by (symmetry; apply Z.ltb_ge; lia). reflexivity.
Qed.

(** the clamped coordinate expression of the translated code is Ucoord i *)
Lemma coord_expr i : 0 <= i < 2 ^ 30 ->
  go_fmax (PrimFloat.opp (go_nextafter (0x1p+00)%float (0x1p+01)%float))
    (go_fmin (go_nextafter (0x1p+00)%float (0x1p+01)%float)
       (PrimFloat.mul (0x1p-30)%float
          (float_of_Z (wrap_i64 (wrap_i64 (wrap_i64 (go_shl (s2_clampInt i (-1) 1073741824) 1) + 1) - 1073741824)))))
  = Ucoord i.
Proof.
  intros Hi. pose proof (Ucoord_val i Hi) as (F & _ & R). change (2 ^ 30) with 1073741824 in Hi.
  assert (Ec : s2_clampInt i (-1) 1073741824 = i).
  { unfold s2_clampInt. replace (i <? -1) with false by (symmetry; apply Z.ltb_ge; lia).
    replace (1073741824 <? i) with false by (symmetry; apply Z.ltb_ge; lia). reflexivity. }
  rewrite Ec. rewrite go_shl_mul by lia. change (2 ^ 1) with 2.
  rewrite (wrap_i64_small (i * 2)) by (change (2 ^ 63) with 9223372036854775808; lia).
  rewrite (wrap_i64_small (i * 2 + 1)) by (change (2 ^ 63) with 9223372036854775808; lia).
  rewrite (wrap_i64_small (i * 2 + 1 - 1073741824)) by (change (2 ^ 63) with 9223372036854775808; lia).
  replace (i * 2 + 1 - 1073741824) with (2 * i + 1 - 1073741824) by ring. fold (Ucoord i).
  rewrite Lim_nextafter. rewrite (fmin_Lim_id _ F) by lra. apply (fmax_negLim_id _ F). lra.
Qed.

(** ** face recovery *)
Lemma ltb_true_RV a b : fin a -> fin b -> (RV a < RV b)%R -> PrimFloat.ltb a b = true.
Proof.
  intros Fa Fb H. apply (proj2 (ltb_true_iff a b (fin_nonnan a Fa) (fin_nonnan b Fb))).
  rewrite (rank_fin a Fa), (rank_fin b Fb). exact H.
Qed.
Lemma ltb_false_RV a b : fin a -> fin b -> (RV b <= RV a)%R -> PrimFloat.ltb a b = false.
Proof.
  intros Fa Fb H. apply (proj2 (ltb_false_iff a b (fin_nonnan a Fa) (fin_nonnan b Fb))).
  rewrite (rank_fin a Fa), (rank_fin b Fb). exact H.
Qed.

Lemma div_one x : fin x -> (Rabs (RV x) < 4)%R -> fin (PrimFloat.div x 1) /\ RV (PrimFloat.div x 1) = RV x.
Proof.
  intros F B.
  assert (E : rnd (RV x / RV 1%float) = RV x) by (rewrite one_RV; replace (RV x / 1)%R with (RV x) by field; apply rnd_repr, repr_RV).
  destruct (div_fin x 1%float F one_fin) as (F' & V).
  - rewrite one_RV. lra.
  - rewrite E. apply Rlt_trans with 4%R; [exact B|apply (proj2 ok4)].
  - split; [exact F'|]. rewrite V. exact E.
Qed.
Lemma div_mone x : fin x -> (Rabs (RV x) < 4)%R ->
  fin (PrimFloat.div x (-0x1p+00)%float) /\ RV (PrimFloat.div x (-0x1p+00)%float) = (- RV x)%R.
Proof.
  intros F B.
  assert (E : rnd (RV x / RV (-0x1p+00)%float) = (- RV x)%R).
  { rewrite mone_RV. replace (RV x / -1)%R with (- RV x)%R by field. rewrite rnd_opp. f_equal. apply rnd_repr, repr_RV. }
  destruct (div_fin x (-0x1p+00)%float F mone_fin) as (F' & V).
  - rewrite mone_RV. lra.
  - rewrite E. rewrite Rabs_Ropp. apply Rlt_trans with 4%R; [exact B|apply (proj2 ok4)].
  - split; [exact F'|]. rewrite V. exact E.
Qed.

Theorem face_roundtrip f u v : 0 <= f < 6 -> fin u -> fin v -> (Rabs (RV u) < 1)%R -> (Rabs (RV v) < 1)%R ->
  exists u' v', s2_xyzToFaceUV (s2_faceUVToXYZ f u v) = (f, u', v') /\
    fin u' /\ RV u' = RV u /\ fin v' /\ RV v' = RV v.
Proof.
  intros Hf Fu Fv Bu Bv.
  destruct (opp_fin u Fu) as (Fou & Eou). destruct (opp_fin v Fv) as (Fov & Eov).
  destruct (abs_fin u Fu) as (Fau & Eau). destruct (abs_fin v Fv) as (Fav & Eav).
  destruct (abs_fin _ Fou) as (Faou & Eaou). destruct (abs_fin _ Fov) as (Faov & Eaov).
  destruct (abs_fin _ one_fin) as (Fa1 & Ea1). destruct (abs_fin _ mone_fin) as (Fam1 & Eam1).
  rewrite Eou, Rabs_Ropp in Eaou. rewrite Eov, Rabs_Ropp in Eaov.
  rewrite one_RV, Rabs_R1 in Ea1. rewrite mone_RV in Eam1.
  assert (Em1 : (Rabs (-1) = 1)%R) by (unfold Rabs; destruct (Rcase_abs (-1)); lra). rewrite Em1 in Eam1.
  destruct (opp_fin _ Fou) as (Foou & Eoou). rewrite Eou, Ropp_involutive in Eoou.
  destruct (opp_fin _ Fov) as (Foov & Eoov). rewrite Eov, Ropp_involutive in Eoov.
  assert (B4u : (Rabs (RV u) < 4)%R) by lra. assert (B4v : (Rabs (RV v) < 4)%R) by lra.
  assert (Hc : f = 0 \/ f = 1 \/ f = 2 \/ f = 3 \/ f = 4 \/ f = 5) by lia.
  unfold s2_xyzToFaceUV, s2_face, r3_Vector_LargestComponent, r3_Vector_Abs, s2_validFaceXYZToUV.
  destruct Hc as [-> | [-> | [-> | [-> | [-> | ->]]]]]; unfold s2_faceUVToXYZ; cbn [Z.eqb Pos.eqb]; cbv zeta;
    cbn [r3_Vector_X r3_Vector_Y r3_Vector_Z].
  - (* face 0: (1, u, v) *)
    rewrite (ltb_true_RV _ _ Fau Fa1) by lra. rewrite (ltb_true_RV _ _ Fav Fa1) by lra.
    cbn [Z.eqb andb]. rewrite (ltb_false_RV 1%float 0%float one_fin zero_fin) by (rewrite one_RV, zero_RV; lra).
    cbn [Z.eqb Pos.eqb andb]. change (wrap_i64 0) with 0. cbn [Z.eqb].
    destruct (div_one u Fu B4u) as (F1 & E1). destruct (div_one v Fv B4v) as (F2 & E2).
    eexists _, _. split; [reflexivity|]. repeat split; assumption.
  - (* face 1: (-u, 1, v) *)
    rewrite (ltb_false_RV _ _ Fa1 Faou) by lra. rewrite (ltb_true_RV _ _ Fav Fa1) by lra.
    cbn [Z.eqb Pos.eqb andb]. rewrite (ltb_false_RV 1%float 0%float one_fin zero_fin) by (rewrite one_RV, zero_RV; lra).
    cbn [andb Z.eqb Pos.eqb]. change (wrap_i64 1) with 1. cbn [Z.eqb Pos.eqb].
    assert (B4 : (Rabs (RV (- - u)%float) < 4)%R) by (rewrite Eoou; lra).
    destruct (div_one _ Foou B4) as (F1 & E1). destruct (div_one v Fv B4v) as (F2 & E2).
    eexists _, _. split; [reflexivity|]. repeat split; try assumption. rewrite E1. exact Eoou.
  - (* face 2: (-u, -v, 1) *)
    assert (EL : (if PrimFloat.ltb (abs (- v)) (abs (- u)) then (if PrimFloat.ltb (abs 1) (abs (- u)) then 0 else 2)
                  else (if PrimFloat.ltb (abs 1) (abs (- v)) then 1 else 2)) = 2).
    { rewrite (ltb_false_RV _ _ Fa1 Faou) by lra. rewrite (ltb_false_RV _ _ Fa1 Faov) by lra.
      destruct (PrimFloat.ltb (abs (- v)) (abs (- u))); reflexivity. }
    rewrite EL. cbn [Z.eqb Pos.eqb andb]. rewrite (ltb_false_RV 1%float 0%float one_fin zero_fin) by (rewrite one_RV, zero_RV; lra).
    cbn [andb]. change (wrap_i64 2) with 2. cbn [Z.eqb Pos.eqb].
    assert (B4 : (Rabs (RV (- - u)%float) < 4)%R) by (rewrite Eoou; lra).
    assert (B4' : (Rabs (RV (- - v)%float) < 4)%R) by (rewrite Eoov; lra).
    destruct (div_one _ Foou B4) as (F1 & E1). destruct (div_one _ Foov B4') as (F2 & E2).
    eexists _, _. split; [reflexivity|]. repeat split; try assumption; [rewrite E1; exact Eoou|rewrite E2; exact Eoov].
  - (* face 3: (-1, -v, -u) *)
    rewrite (ltb_true_RV _ _ Faov Fam1) by lra. rewrite (ltb_true_RV _ _ Faou Fam1) by lra.
    cbn [Z.eqb andb]. rewrite (ltb_true_RV (-0x1p+00)%float 0%float mone_fin zero_fin) by (rewrite mone_RV, zero_RV; lra).
    change (wrap_i64 (wrap_i64 (0 + 3))) with 3. cbn [Z.eqb Pos.eqb].
    assert (B4 : (Rabs (RV (- u)%float) < 4)%R) by (rewrite Eou, Rabs_Ropp; lra).
    assert (B4' : (Rabs (RV (- v)%float) < 4)%R) by (rewrite Eov, Rabs_Ropp; lra).
    destruct (div_mone _ Fou B4) as (F1 & E1). destruct (div_mone _ Fov B4') as (F2 & E2).
    eexists _, _. split; [reflexivity|]. repeat split; try assumption; [rewrite E1, Eou; ring|rewrite E2, Eov; ring].
  - (* face 4: (v, -1, -u) *)
    rewrite (ltb_false_RV _ _ Fam1 Fav) by lra. rewrite (ltb_true_RV _ _ Faou Fam1) by lra.
    cbn [Z.eqb Pos.eqb andb]. rewrite (ltb_true_RV (-0x1p+00)%float 0%float mone_fin zero_fin) by (rewrite mone_RV, zero_RV; lra).
    change (wrap_i64 (wrap_i64 (1 + 3))) with 4. cbn [Z.eqb Pos.eqb].
    assert (B4 : (Rabs (RV (- u)%float) < 4)%R) by (rewrite Eou, Rabs_Ropp; lra).
    assert (B4' : (Rabs (RV (- v)%float) < 4)%R) by (rewrite Eov, Rabs_Ropp; lra).
    destruct (div_mone _ Fou B4) as (F1 & E1). destruct (div_mone _ Fov B4') as (F2 & E2).
    eexists _, _. split; [reflexivity|]. repeat split; try assumption; [rewrite E1, Eou; ring|rewrite E2, Eov; ring].
  - (* face 5: (v, u, -1) *)
    assert (EL : (if PrimFloat.ltb (abs u) (abs v) then (if PrimFloat.ltb (abs (-0x1p+00)) (abs v) then 0 else 2)
                  else (if PrimFloat.ltb (abs (-0x1p+00)) (abs u) then 1 else 2)) = 2).
    { rewrite (ltb_false_RV _ _ Fam1 Fav) by lra. rewrite (ltb_false_RV _ _ Fam1 Fau) by lra.
      destruct (PrimFloat.ltb (abs u) (abs v)); reflexivity. }
    rewrite EL. cbn [Z.eqb Pos.eqb andb]. rewrite (ltb_true_RV (-0x1p+00)%float 0%float mone_fin zero_fin) by (rewrite mone_RV, zero_RV; lra).
    change (wrap_i64 (wrap_i64 (2 + 3))) with 5. cbn [Z.eqb Pos.eqb].
    assert (B4 : (Rabs (RV (- u)%float) < 4)%R) by (rewrite Eou, Rabs_Ropp; lra).
    assert (B4' : (Rabs (RV (- v)%float) < 4)%R) by (rewrite Eov, Rabs_Ropp; lra).
    destruct (div_mone _ Fou B4) as (F1 & E1). destruct (div_mone _ Fov B4') as (F2 & E2).
    eexists _, _. split; [reflexivity|]. repeat split; try assumption; [rewrite E1, Eou; ring|rewrite E2, Eov; ring].
Qed.

(** ** H_WRAP_INSIDE holds *)
Theorem wrap_inside : forall f i j, 0 <= f < 6 -> 0 <= i < 2 ^ 30 -> 0 <= j < 2 ^ 30 ->
  s2_cellIDFromFaceIJWrap f i j = s2_cellIDFromFaceIJ f i j.
Proof.
  intros f i j Hf Hi Hj. unfold s2_cellIDFromFaceIJWrap. cbv zeta.
  rewrite (coord_expr i Hi), (coord_expr j Hj).
  destruct (Ucoord_val i Hi) as (Fu & Eu & Ru). destruct (Ucoord_val j Hj) as (Fv & Ev & Rv).
  destruct (face_roundtrip f _ _ Hf Fu Fv ltac:(apply Rabs_def1; lra) ltac:(apply Rabs_def1; lra))
    as (u' & v' & E & Fu' & Eu' & Fv' & Ev').
  rewrite E. rewrite Eu in Eu'. rewrite Ev in Ev'.
  rewrite (stToIJ_back u' i Hi Fu' Eu'), (stToIJ_back v' j Hj Fv' Ev'). reflexivity.
Qed.
