(** C11 — s2intersect.Find: the result lists, for every index set S of size >= 2 that occurs,
    exactly the leaves covered by precisely the unions in S ("disjoint intersections"),
    normalized and non-empty, each index set once, and nothing else. *)
From Coq Require Import ZArith List Bool Lia ZifyBool Sorted Permutation.
From Geo Require Import Base.GoPrim Gen.CellID Model.CellUnion Model.Intersect Proofs.C11_Bits Proofs.C11_Cells
  Proofs.C11_Normalize Proofs.C11_Unique Proofs.C11_Search Proofs.C11_Range
  Proofs.C11_FindA Proofs.C11_FindB Proofs.C11_FindC Proofs.C11_FindD Proofs.C11_FindOld.
Import ListNotations.
Local Open Scope Z_scope.

Definition covb (cu : list Z) (x : Z) : bool := existsb (fun c => (rmin c <=? x) && (x <=? rmax c)) cu.
(* the sorted list of the indices of the unions that cover leaf x *)
Definition members (cus : list (list Z)) (x : Z) : list Z :=
  filter (fun i => covb (nth (Z.to_nat i) cus []) x) (map Z.of_nat (seq 0 (length cus))).

Lemma covb_spec cu x : covb cu x = true <-> cov cu x.
Proof.
  unfold covb, cov, covers. rewrite existsb_exists.
  split; intros (c & Hc & H); exists c; (split; [exact Hc|lia]).
Qed.

Lemma SS_impl_in {T} (R R' : T -> T -> Prop) : forall l, StronglySorted R l ->
  (forall a b, In a l -> In b l -> R a b -> R' a b) -> StronglySorted R' l.
Proof.
  induction l as [|a t IH]; intros S H; [constructor|].
  inversion S as [|? ? St Fa]; subst. constructor.
  - apply IH; [exact St|]. intros x y Hx Hy. apply H; right; assumption.
  - rewrite Forall_forall in *. intros y Hy. apply H; [left; reflexivity|right; exact Hy|exact (Fa y Hy)].
Qed.

(** * The limits of all unions *)
Definition run_lim (i : Z) (r : run) (l : limit) : Prop :=
  l = (fst r, false, [i]) \/ l = (snd r, true, [i]).

Lemma in_flat_ev i R l : In l (flat_map (ev i) R) <-> exists r, In r R /\ run_lim i r l.
Proof.
  rewrite in_flat_map. unfold ev, run_lim. cbn [In].
  split; intros (r & Hr & H); exists r; (split; [exact Hr|]); intuition.
Qed.

Lemma limits_from_In : forall cus k l, Forall (Forall valid) cus ->
  (In l (limits_from cus k) <->
   exists j : nat, (j < length cus)%nat /\
     exists r, In r (runs (cu_Normalize (nth j cus []))) /\ run_lim (k + Z.of_nat j) r l).
Proof.
  induction cus as [|cu t IH]; intros k l V.
  - cbn [limits_from length]. split; [intros []|intros (j & Hj & _); lia].
  - inversion V as [|? ? Vcu Vt]; subst. cbn [limits_from]. rewrite in_app_iff.
    rewrite limits_of_runs by (exact (proj1 (proj1 (normalize_spec cu Vcu)))).
    rewrite in_flat_ev, (IH (k + 1) l Vt). split.
    + intros [(r & Hr & Hl)|(j & Hj & r & Hr & Hl)].
      * exists O. split; [cbn [length]; lia|]. exists r. cbn [nth]. split; [exact Hr|].
        replace (k + Z.of_nat 0) with k by lia. exact Hl.
      * exists (S j). split; [cbn [length]; lia|]. exists r. cbn [nth]. split; [exact Hr|].
        replace (k + Z.of_nat (S j)) with (k + 1 + Z.of_nat j) by lia. exact Hl.
    + intros ([|j] & Hj & r & Hr & Hl); cbn [nth length] in *.
      * left. exists r. split; [exact Hr|]. replace (k + Z.of_nat 0) with k in Hl by lia. exact Hl.
      * right. exists j. split; [lia|]. exists r. split; [exact Hr|].
        replace (k + Z.of_nat (S j)) with (k + 1 + Z.of_nat j) in Hl by lia. exact Hl.
Qed.

Section Find.
Variable cus : list (list Z).
Hypothesis Hv : Forall (Forall valid) cus.

Let n := length cus.
Definition RS (i : Z) : list run := runs (cu_Normalize (nth (Z.to_nat i) cus [])).
Definition act (i p : Z) : bool := existsb (fun r => (fst r <=? p) && (p <=? snd r)) (RS i).
Let raw := limits_from cus 0.
Let L := collapse_limits raw.

Lemma nth_valid j : Forall valid (nth j cus []).
Proof.
  destruct (nth_in_or_default j cus []) as [H|H]; [|rewrite H; constructor].
  rewrite Forall_forall in Hv. exact (Hv _ H).
Qed.

Lemma RS_spec i :
  Forall run_wf (RS i) /\ StronglySorted run_lt (RS i) /\
  (forall x, leaf x -> (cov (nth (Z.to_nat i) cus []) x <-> exists r, In r (RS i) /\ inrun r x)).
Proof.
  unfold RS. destruct (normalize_spec _ (nth_valid (Z.to_nat i))) as [N C].
  destruct (runs_spec _ (normal_sorted_cu _ N)) as (F & S & Cr).
  split; [exact F|]. split; [exact S|]. intros x Lx. rewrite <- (C x Lx). exact (Cr x Lx).
Qed.

Lemma act_spec i p : act i p = true <-> exists r, In r (RS i) /\ inrun r p.
Proof.
  unfold act, inrun. rewrite existsb_exists.
  split; intros (r & Hr & H); exists r; (split; [exact Hr|lia]).
Qed.

Lemma raw_In l : In l raw <-> exists i, 0 <= i < Z.of_nat n /\ exists r, In r (RS i) /\ run_lim i r l.
Proof.
  unfold raw. rewrite (limits_from_In cus 0 l Hv). unfold RS. split.
  - intros (j & Hj & r & Hr & Hl). exists (Z.of_nat j). split; [unfold n; lia|].
    exists r. rewrite Nat2Z.id. split; [exact Hr|exact Hl].
  - intros (i & Hi & r & Hr & Hl). exists (Z.to_nat i). split; [unfold n in Hi; lia|].
    exists r. split; [exact Hr|]. replace (0 + Z.of_nat (Z.to_nat i)) with i by lia. exact Hl.
Qed.

Lemma run_wf_in i r : In r (RS i) -> run_wf r.
Proof. intros H. destruct (RS_spec i) as (F & _). rewrite Forall_forall in F. exact (F r H). Qed.

(** the indices of a collapsed limit *)
Lemma idx_char l i : In l L ->
  (In i (l_idx l) <->
   0 <= i < Z.of_nat n /\ exists r, In r (RS i) /\ (if l_typ l then snd r else fst r) = l_leaf l).
Proof.
  intros Hl. destruct (collapse_spec raw) as (_ & C2 & _). fold L in C2.
  rewrite (C2 l Hl i). split.
  - intros (x & Hx & Hp & Hi). apply raw_In in Hx. destruct Hx as (i' & Hi' & r & Hr & Hlim).
    apply pos2_key in Hp. destruct Hp as [Hleaf Htyp].
    destruct Hlim as [-> | ->]; cbn in Hi; destruct Hi as [<-|[]]; (split; [exact Hi'|]); exists r;
      (split; [exact Hr|]); rewrite <- Htyp, <- Hleaf; reflexivity.
  - intros (Hi & r & Hr & Hk). destruct (l_typ l) eqn:T.
    + exists (snd r, true, [i]). split; [apply raw_In; exists i; split; [exact Hi|]; exists r; split; [exact Hr|right; reflexivity]|].
      split; [apply pos2_key; cbn; rewrite T; split; [exact Hk|reflexivity]|left; reflexivity].
    + exists (fst r, false, [i]). split; [apply raw_In; exists i; split; [exact Hi|]; exists r; split; [exact Hr|left; reflexivity]|].
      split; [apply pos2_key; cbn; rewrite T; split; [exact Hk|reflexivity]|left; reflexivity].
Qed.

Lemma key_in_L i r : 0 <= i < Z.of_nat n -> In r (RS i) ->
  (exists l, In l L /\ l_leaf l = fst r /\ l_typ l = false) /\
  (exists l, In l L /\ l_leaf l = snd r /\ l_typ l = true).
Proof.
  intros Hi Hr. destruct (collapse_spec raw) as (_ & _ & _ & C4). fold L in C4. split.
  - destruct (C4 (fst r, false, [i])) as (l & Hl & Hp).
    { apply raw_In. exists i. split; [exact Hi|]. exists r. split; [exact Hr|left; reflexivity]. }
    apply pos2_key in Hp. exists l. split; [exact Hl|exact Hp].
  - destruct (C4 (snd r, true, [i])) as (l & Hl & Hp).
    { apply raw_In. exists i. split; [exact Hi|]. exists r. split; [exact Hr|right; reflexivity]. }
    apply pos2_key in Hp. exists l. split; [exact Hl|exact Hp].
Qed.

Lemma L_leaf l : In l L -> vleaf (l_leaf l).
Proof.
  intros Hl. destruct (collapse_spec raw) as (_ & _ & C3 & _). fold L in C3.
  destruct (C3 l Hl) as (x & Hx & Hp). apply pos2_key in Hp. destruct Hp as [Hleaf _].
  apply raw_In in Hx. destruct Hx as (i & Hi & r & Hr & Hlim).
  destruct (run_wf_in i r Hr) as (W1 & W2 & _). rewrite <- Hleaf.
  destruct Hlim as [-> | ->]; assumption.
Qed.

Lemma L_sorted : StronglySorted (fun a b => pos a < pos b) L.
Proof.
  destruct (collapse_spec raw) as (C1 & _). fold L in C1.
  apply (SS_impl_in lt2); [exact C1|]. intros a b Ha Hb. unfold lt2, pos2, pos.
  destruct (L_leaf a Ha) as [La _]. destruct (L_leaf b Hb) as [Lb _]. unfold leaf in *.
  destruct (l_typ a), (l_typ b); Z.div_mod_to_equations; lia.
Qed.

Lemma L_start l : In l L -> l_typ l = false -> forall i,
  (In i (l_idx l) -> 0 <= i < Z.of_nat n) /\
  (0 <= i < Z.of_nat n -> (act i (pos l) = true <-> act i (pos l - 1) = true \/ In i (l_idx l))).
Proof.
  intros Hl T i. pose proof (idx_char l i Hl) as IC. rewrite T in IC.
  split; [intros H; apply IC in H; tauto|]. intros Hi.
  unfold pos. rewrite T, Z.add_0_r. rewrite !act_spec, IC.
  destruct (L_leaf l Hl) as [Ll _]. unfold inrun. split.
  - intros (r & Hr & Hin). destruct (Z.eq_dec (fst r) (l_leaf l)) as [He|Hne].
    + right. split; [exact Hi|]. exists r. split; assumption.
    + left. exists r. split; [exact Hr|lia].
  - intros [(r & Hr & Hin)|(_ & r & Hr & He)]; exists r; (split; [exact Hr|]).
    + destruct (run_wf_in i r Hr) as (_ & [Ls _] & _). unfold leaf in *. Z.div_mod_to_equations. lia.
    + destruct (run_wf_in i r Hr) as (_ & _ & Hle). lia.
Qed.

Lemma L_end l : In l L -> l_typ l = true -> forall i, 0 <= i < Z.of_nat n ->
  (act i (pos l) = true <-> act i (pos l - 1) = true /\ ~ In i (l_idx l)).
Proof.
  intros Hl T i Hi. pose proof (idx_char l i Hl) as IC. rewrite T in IC.
  unfold pos. rewrite T. replace (l_leaf l + 1 - 1) with (l_leaf l) by lia.
  rewrite !act_spec, IC. destruct (L_leaf l Hl) as [Ll _]. destruct (RS_spec i) as (F & S & _).
  split.
  - intros (r & Hr & Hin). unfold inrun in Hin.
    assert (Hin' : inrun r (l_leaf l)).
    { destruct (run_wf_in i r Hr) as ([Lf _] & _ & _). unfold inrun, leaf in *. Z.div_mod_to_equations. lia. }
    split; [exists r; split; assumption|].
    intros (_ & r' & Hr' & He).
    assert (Hin2 : inrun r' (l_leaf l)).
    { destruct (run_wf_in i r' Hr') as (_ & _ & Hle). unfold inrun. lia. }
    pose proof (runs_disjoint _ _ _ _ F S Hr Hr' Hin' Hin2) as Heq. subst r'. lia.
  - intros [(r & Hr & Hin) Hni]. exists r. split; [exact Hr|]. unfold inrun in *.
    destruct (Z.eq_dec (snd r) (l_leaf l)) as [He|Hne]; [|lia].
    exfalso. apply Hni. split; [exact Hi|]. exists r. split; assumption.
Qed.

Lemma L_const p : ~ ispos L p -> forall i, 0 <= i < Z.of_nat n -> act i p = act i (p - 1).
Proof.
  intros Hno i Hi. apply Bool.eq_true_iff_eq. rewrite !act_spec. unfold inrun.
  split; intros (r & Hr & Hin); exists r; (split; [exact Hr|]);
    destruct (key_in_L i r Hi Hr) as ((l1 & Hl1 & Hk1 & Ht1) & (l2 & Hl2 & Hk2 & Ht2)).
  - destruct (Z.eq_dec (fst r) p) as [He|Hne]; [|lia].
    exfalso. apply Hno. exists l1. split; [exact Hl1|]. unfold pos. rewrite Ht1. lia.
  - destruct (Z.eq_dec (snd r) (p - 1)) as [He|Hne]; [|lia].
    exfalso. apply Hno. exists l2. split; [exact Hl2|]. unfold pos. rewrite Ht2. lia.
Qed.

Lemma act_init p i : p <= 0 -> act i p = false.
Proof.
  intros Hp. destruct (act i p) eqn:E; [|reflexivity]. apply act_spec in E.
  destruct E as (r & Hr & Hin). destruct (run_wf_in i r Hr) as ([_ B] & _). unfold inrun in Hin. lia.
Qed.

Lemma act_fin p i : 6 * 2 ^ 61 <= p -> act i p = false.
Proof.
  intros Hp. destruct (act i p) eqn:E; [|reflexivity]. apply act_spec in E.
  destruct E as (r & Hr & Hin). destruct (run_wf_in i r Hr) as (_ & [_ B] & _). unfold inrun in Hin. lia.
Qed.

Lemma A_members x : leaf x -> A n act x = members cus x.
Proof.
  intros Lx. unfold A, members. fold n. apply filter_ext_in. intros i Hi.
  apply Bool.eq_true_iff_eq. rewrite act_spec, covb_spec.
  destruct (RS_spec i) as (_ & _ & C). symmetry. exact (C x Lx).
Qed.

Lemma overlaps_final : Final n act (intervalOverlaps L).
Proof.
  apply sweep_spec.
  - exact L_leaf.
  - exact L_start.
  - exact L_end.
  - exact L_const.
  - exact act_init.
  - exact act_fin.
  - exact L_sorted.
Qed.

Theorem find_spec_sec :
  let R := s2i_Find cus in
  (forall S cells, In (S, cells) R ->
      (2 <= length S)%nat /\ normal cells /\ cells <> [] /\
      forall x, leaf x -> (cov cells x <-> members cus x = S)) /\
  (forall x, leaf x -> (2 <= length (members cus x))%nat -> exists cells, In (members cus x, cells) R) /\
  NoDup (map fst R).
Proof.
  destruct overlaps_final as [Hs Hc].
  unfold s2i_Find, find_with. fold raw. fold L.
  apply (o2i_spec (members cus)).
  - intros o Ho. destruct (Hs o Ho) as (Vs & Ve & Hle & H2 & HA).
    split; [split; [exact Vs|split; [exact Ve|exact Hle]]|]. split; [exact H2|].
    intros x Lx Hx. rewrite <- (A_members x Lx). exact (HA x Lx Hx).
  - intros x Lx H2. rewrite <- (A_members x Lx) in H2. exact (Hc x Lx H2).
Qed.
End Find.

Theorem find_spec : forall cus, Forall (Forall valid) cus ->
  let R := s2i_Find cus in
  (forall S cells, In (S, cells) R ->
      (2 <= length S)%nat /\ normal cells /\ cells <> [] /\
      forall x, leaf x -> (cov cells x <-> members cus x = S)) /\
  (forall x, leaf x -> (2 <= length (members cus x))%nat -> exists cells, In (members cus x, cells) R) /\
  NoDup (map fst R).
Proof. exact find_spec_sec. Qed.

(** the hypotheses are satisfiable and the result is not vacuous: on the witness of the
    refutation of the old code the fixed code reports the two triple intersections only *)
Example find_example :
  Forall (Forall valid) old_witness /\
  s2i_Find old_witness = [([0; 1; 2], [288230376151711744; 864691128455135232]);
                          ([0; 1; 3], [1441151880758558720; 2017612633061982208])].
Proof.
  split; [|vm_compute; reflexivity].
  unfold old_witness, old_f0.
  repeat (constructor; [repeat (constructor; [split; [unfold u64; split; [apply Z.leb_le|apply Z.ltb_lt]; vm_compute; reflexivity | vm_compute; reflexivity]|]); constructor|]).
  constructor.
Qed.

(** the code before commit aa117fb violates [find_spec] (an entry with an empty cell union) *)
Theorem find_old_refuted :
  exists cus, Forall (Forall valid) cus /\ exists S, In (S, []) (s2i_Find_old cus).
Proof. exact find_old_refuted_witness. Qed.
