(** C06 — prefix sums and the position of an edge id among consecutive chains: the arithmetic
    shared by Polygon (cumulativeEdges / linear search) and LaxPolygon (cumulativeVertices). *)
From Coq Require Import ZArith List Bool Lia.
From Geo Require Import Base.GoPrim Model.Shapes Proofs.C06_Slices.
Import ListNotations.
Local Open Scope Z_scope.

Definition nonneg (lens : list Z) : Prop := Forall (fun x => 0 <= x) lens.

(** sum of the first [i] lengths *)
Fixpoint pre (lens : list Z) (i : nat) : Z :=
  match i, lens with
  | S i', x :: t => x + pre t i'
  | _, _ => 0
  end.
Definition total (lens : list Z) : Z := pre lens (length lens).

(** the chain holding edge id [e], and the offset in it *)
Fixpoint locate (lens : list Z) (e : Z) : nat * Z :=
  match lens with
  | [] => (O, e)
  | x :: t => if e <? x then (O, e) else let '(i, j) := locate t (e - x) in (S i, j)
  end.

Lemma pre_nonneg lens i : nonneg lens -> 0 <= pre lens i.
Proof.
  intros H. revert i. induction H as [|x t Hx Ht IH]; intros [|i]; cbn; try lia.
  specialize (IH i). lia.
Qed.

Lemma pre_S lens i : (i < length lens)%nat -> pre lens (S i) = pre lens i + nth i lens 0.
Proof.
  revert i. induction lens as [|x t IH]; intros i Hi; cbn in Hi; [lia|].
  destruct i as [|i].
  - cbn. destruct t; cbn; lia.
  - change (pre (x :: t) (S (S i))) with (x + pre t (S i)).
    rewrite IH by lia. cbn. lia.
Qed.

Lemma pre_mono lens a b : nonneg lens -> (a <= b)%nat -> pre lens a <= pre lens b.
Proof.
  intros H. revert a b. induction H as [|x t Hx Ht IH]; intros a b Hab.
  - destruct a, b; cbn; lia.
  - destruct a as [|a], b as [|b]; cbn; try lia.
    + pose proof (pre_nonneg t b Ht). lia.
    + specialize (IH a b). lia.
Qed.

Lemma pre_le_total lens i : nonneg lens -> pre lens i <= total lens.
Proof.
  intros H. unfold total. revert i. induction H as [|x t Hx Ht IH]; intros [|i]; cbn; try lia.
  - pose proof (pre_nonneg t (length t) Ht). lia.
  - specialize (IH i). lia.
Qed.

Lemma pre_S_le_total lens i : nonneg lens -> (i < length lens)%nat -> pre lens i + nth i lens 0 <= total lens.
Proof. intros H Hi. rewrite <- pre_S by assumption. apply pre_le_total; assumption. Qed.

Lemma total_cons x t : total (x :: t) = x + total t.
Proof. reflexivity. Qed.

Lemma total_nonneg lens : nonneg lens -> 0 <= total lens.
Proof. intros H. apply pre_nonneg; assumption. Qed.

Lemma nth_nonneg lens i : nonneg lens -> 0 <= nth i lens 0.
Proof.
  intros H. revert i. induction H; intros [|i]; cbn; try lia. apply IHForall.
Qed.

Lemma locate_spec lens e : nonneg lens -> 0 <= e < total lens ->
  let '(i, j) := locate lens e in
  (i < length lens)%nat /\ 0 <= j < nth i lens 0 /\ pre lens i + j = e.
Proof.
  intros H. revert e. induction H as [|x t Hx Ht IH]; intros e He.
  - cbn in He. lia.
  - rewrite total_cons in He. cbn [locate].
    destruct (e <? x) eqn:E.
    + apply Z.ltb_lt in E. cbn. lia.
    + apply Z.ltb_ge in E. specialize (IH (e - x) ltac:(lia)).
      destruct (locate t (e - x)) as [i j]. cbn. lia.
Qed.

Lemma locate_uniq lens i j : nonneg lens -> (i < length lens)%nat -> 0 <= j < nth i lens 0 ->
  locate lens (pre lens i + j) = (i, j).
Proof.
  intros H. revert i j. induction H as [|x t Hx Ht IH]; intros i j Hi Hj; cbn in Hi; [lia|].
  destruct i as [|i]; cbn [locate pre].
  - cbn in Hj. destruct (0 + j <? x) eqn:E; [f_equal; lia|apply Z.ltb_ge in E; lia].
  - cbn in Hj. pose proof (pre_nonneg t i Ht).
    destruct (x + pre t i + j <? x) eqn:E; [apply Z.ltb_lt in E; lia|].
    replace (x + pre t i + j - x) with (pre t i + j) by lia.
    rewrite IH by (assumption || lia). reflexivity.
Qed.

(** [psums lens acc] = [acc + pre lens 0; ...; acc + pre lens n] *)
Lemma psums_length lens acc : length (psums lens acc) = S (length lens).
Proof. revert acc. induction lens as [|x t IH]; intros acc; cbn; [reflexivity|]. rewrite IH. reflexivity. Qed.

Lemma psums_nth lens acc i : (i <= length lens)%nat -> nth i (psums lens acc) 0 = acc + pre lens i.
Proof.
  revert acc i. induction lens as [|x t IH]; intros acc i Hi; cbn in Hi.
  - assert (i = O) by lia. subst. cbn. lia.
  - destruct i as [|i]; [cbn; lia|].
    change (psums (x :: t) acc) with (acc :: psums t (acc + x)).
    cbn [nth pre]. rewrite IH by lia. lia.
Qed.

Lemma psums_idx lens acc i : 0 <= i <= len lens -> idx (psums lens acc) i = Ok (acc + pre lens (Z.to_nat i)).
Proof.
  intros Hi. unfold len in Hi.
  rewrite (idx_ok (psums lens acc) i 0).
  - rewrite psums_nth by lia. reflexivity.
  - unfold len. rewrite psums_length. lia.
Qed.
