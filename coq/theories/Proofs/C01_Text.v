(** C01 — text forms of a cell id (hand model Model/CellIDText.v, tied to Go by [T]):
    tokens round-trip for EVERY uint64, are never longer than 16 bytes; String/FromString
    round-trip on valid ids; CellIDFromString returns 0 or a valid id on every byte string. *)
From Coq Require Import ZArith List Bool Lia.
From Geo Require Import Base.GoPrim Gen.CellIDFull Model.CellIDText Proofs.C01_Bits Proofs.C01_Algebra.
Import ListNotations.
Local Open Scope Z_scope.

(** ** hex digits *)
Definition isdig (d : Z) : Prop := 0 <= d < 16.

Lemma hexval_hexdigit : forall d, isdig d -> hexval (hexdigit d) = Some d.
Proof.
  intros d H. unfold isdig in H.
  assert (C : d = 0 \/ d = 1 \/ d = 2 \/ d = 3 \/ d = 4 \/ d = 5 \/ d = 6 \/ d = 7 \/ d = 8 \/ d = 9 \/
              d = 10 \/ d = 11 \/ d = 12 \/ d = 13 \/ d = 14 \/ d = 15) by lia.
  repeat (destruct C as [-> | C]; [reflexivity|]). subst. reflexivity.
Qed.

Lemma hexdigit_48 : forall d, isdig d -> (hexdigit d =? 48) = (d =? 0).
Proof.
  intros d H. unfold isdig in H. unfold hexdigit.
  destruct (d <? 10) eqn:E; [apply Z.ltb_lt in E|apply Z.ltb_ge in E];
  destruct (d =? 0) eqn:E0; [apply Z.eqb_eq in E0|apply Z.eqb_neq in E0|apply Z.eqb_eq in E0|apply Z.eqb_neq in E0];
  try (apply Z.eqb_eq; lia); apply Z.eqb_neq; lia.
Qed.

(** value of a digit list, most significant first *)
Fixpoint val (l : list Z) : Z :=
  match l with [] => 0 | x :: t => x * 16 ^ Z.of_nat (length t) + val t end.

Fixpoint trimz (l : list Z) : list Z :=
  match l with
  | [] => []
  | x :: t => match trimz t with [] => if x =? 0 then [] else [x] | t' => x :: t' end
  end.

Lemma pow16_pos : forall n, 0 <= n -> 0 < 16 ^ n.
Proof. intros. apply Z.pow_pos_nonneg; lia. Qed.

Lemma parse_hex_val : forall l acc, Forall isdig l ->
  parse_hex acc (map hexdigit l) = Some (acc * 16 ^ Z.of_nat (length l) + val l).
Proof.
  induction l as [|x t IH]; intros acc H.
  - cbn. f_equal. lia.
  - inversion H as [|? ? Hx Ht]; subst. cbn [map parse_hex]. rewrite hexval_hexdigit by assumption.
    rewrite IH by assumption. f_equal. cbn [length val]. rewrite Nat2Z.inj_succ, Z.pow_succ_r by lia. ring.
Qed.

Lemma trim_right0_map : forall l, Forall isdig l -> trim_right0 (map hexdigit l) = map hexdigit (trimz l).
Proof.
  induction l as [|x t IH]; intros H; [reflexivity|].
  inversion H as [|? ? Hx Ht]; subst. cbn [map trim_right0 trimz]. rewrite IH by assumption.
  destruct (trimz t) as [|y t'] eqn:E.
  - cbn [map]. rewrite hexdigit_48 by assumption. destruct (x =? 0); reflexivity.
  - reflexivity.
Qed.

Lemma trimz_length : forall l, (length (trimz l) <= length l)%nat.
Proof.
  induction l as [|x t IH]; [apply le_n|]. cbn [trimz].
  destruct (trimz t) as [|y t'].
  - destruct (x =? 0); cbn; lia.
  - cbn [length] in *. lia.
Qed.

Lemma trimz_Forall : forall l, Forall isdig l -> Forall isdig (trimz l).
Proof.
  induction l as [|x t IH]; intros H; [constructor|].
  inversion H as [|? ? Hx Ht]; subst. cbn [trimz]. specialize (IH Ht).
  destruct (trimz t) as [|y t'].
  - destruct (x =? 0); [apply Forall_nil|apply Forall_cons; [exact Hx|apply Forall_nil]].
  - apply Forall_cons; assumption.
Qed.

(** stripping trailing zero digits divides the value by the corresponding power of 16 *)
Lemma val_trimz : forall l,
  val l = val (trimz l) * 16 ^ (Z.of_nat (length l) - Z.of_nat (length (trimz l))).
Proof.
  induction l as [|x t IH]; [reflexivity|]. cbn [trimz]. pose proof (trimz_length t) as HL.
  destruct (trimz t) as [|y t'] eqn:E.
  - cbn [val length] in IH. rewrite Z.mul_0_l in IH.
    destruct (x =? 0) eqn:E0.
    + apply Z.eqb_eq in E0. subst. cbn [val length]. rewrite IH. rewrite !Z.mul_0_l. reflexivity.
    + cbn [val length]. rewrite IH. change (Z.of_nat 0) with 0. rewrite Z.pow_0_r.
      replace (Z.of_nat (S (length t)) - Z.of_nat 1) with (Z.of_nat (length t)) by lia. ring.
  - set (T := y :: t') in *. cbn [val length]. rewrite IH. rewrite !Nat2Z.inj_succ.
    set (a := Z.of_nat (length t)) in *. set (b := Z.of_nat (length T)) in *.
    assert (Hab : 0 <= b <= a) by (unfold a, b; lia).
    replace (Z.succ a - Z.succ b) with (a - b) by lia.
    replace (16 ^ a) with (16 ^ b * 16 ^ (a - b)) by (rewrite <- Z.pow_add_r by lia; f_equal; lia).
    ring.
Qed.

(** ** the 16 digits of a uint64 *)
Definition digits16 (c : Z) : list Z :=
  map (fun k => Z.shiftr c (4 * k) mod 16) [15;14;13;12;11;10;9;8;7;6;5;4;3;2;1;0].

Lemma hex16_digits : forall c, hex16 c = map hexdigit (digits16 c).
Proof. intros c. unfold hex16, digits16. rewrite map_map. reflexivity. Qed.

Lemma digits16_Forall : forall c, Forall isdig (digits16 c).
Proof.
  intros c. unfold digits16. apply Forall_forall. intros d Hd. apply in_map_iff in Hd.
  destruct Hd as (k & <- & _). unfold isdig. apply Z.mod_pos_bound. lia.
Qed.

Ltac Zify.zify_post_hook ::= Z.div_mod_to_equations.

Lemma digits16_val : forall c, 0 <= c < 2 ^ 64 -> val (digits16 c) = c.
Proof.
  intros c Hc. unfold digits16. cbn [map val length]. rewrite !Z.shiftr_div_pow2 by lia.
  cbn [Z.mul Pos.mul Z.of_nat Pos.of_succ_nat Pos.succ].
  change (2 ^ 64) with 18446744073709551616 in Hc.
  change (2 ^ 60) with 1152921504606846976. change (2 ^ 56) with 72057594037927936.
  change (2 ^ 52) with 4503599627370496. change (2 ^ 48) with 281474976710656.
  change (2 ^ 44) with 17592186044416. change (2 ^ 40) with 1099511627776.
  change (2 ^ 36) with 68719476736. change (2 ^ 32) with 4294967296.
  change (2 ^ 28) with 268435456. change (2 ^ 24) with 16777216. change (2 ^ 20) with 1048576.
  change (2 ^ 16) with 65536. change (2 ^ 12) with 4096. change (2 ^ 8) with 256.
  change (2 ^ 4) with 16. change (2 ^ 0) with 1.
  change (16 ^ 15) with 1152921504606846976. change (16 ^ 14) with 72057594037927936.
  change (16 ^ 13) with 4503599627370496. change (16 ^ 12) with 281474976710656.
  change (16 ^ 11) with 17592186044416. change (16 ^ 10) with 1099511627776.
  change (16 ^ 9) with 68719476736. change (16 ^ 8) with 4294967296.
  change (16 ^ 7) with 268435456. change (16 ^ 6) with 16777216. change (16 ^ 5) with 1048576.
  change (16 ^ 4) with 65536. change (16 ^ 3) with 4096. change (16 ^ 2) with 256.
  change (16 ^ 1) with 16. change (16 ^ 0) with 1.
  lia.
Qed.

(** ** tokens *)
Lemma ToToken_length : forall c, (length (ToToken c) <= 16)%nat.
Proof.
  intros c. unfold ToToken. rewrite hex16_digits, trim_right0_map by apply digits16_Forall.
  pose proof (trimz_length (digits16 (wrap_u64 c))) as H.
  change (length (digits16 (wrap_u64 c))) with 16%nat in H.
  destruct (trimz (digits16 (wrap_u64 c))) as [|y t]; cbn [map length] in *; rewrite ?map_length; lia.
Qed.

Theorem token_roundtrip : forall c, 0 <= c < 2 ^ 64 -> CellIDFromToken (ToToken c) = c.
Proof.
  intros c Hc. unfold ToToken. rewrite (wrap_u64_small c Hc).
  rewrite hex16_digits, trim_right0_map by apply digits16_Forall.
  pose proof (trimz_length (digits16 c)) as HL. change (length (digits16 c)) with 16%nat in HL.
  pose proof (val_trimz (digits16 c)) as HV. rewrite (digits16_val c Hc) in HV.
  change (length (digits16 c)) with 16%nat in HV.
  pose proof (trimz_Forall _ (digits16_Forall c)) as HF.
  destruct (trimz (digits16 c)) as [|y t] eqn:E.
  - (* all digits zero: c = 0, token "X" *)
    cbn [val] in HV. rewrite Z.mul_0_l in HV. subst c. reflexivity.
  - set (tk := y :: t) in *. assert (Hne : map hexdigit tk <> []) by (unfold tk; discriminate).
    replace (match map hexdigit tk with [] => [88] | z :: l => z :: l end) with (map hexdigit tk)
      by (unfold tk; reflexivity).
    unfold CellIDFromToken. rewrite map_length.
    set (n := Z.of_nat (length tk)) in *. assert (Hn : 1 <= n <= 16) by (unfold n, tk in *; cbn [length] in *; lia).
    replace (16 <? n) with false by (symmetry; apply Z.ltb_ge; lia).
    destruct (map hexdigit tk) as [|h0 hs] eqn:EM; [contradiction|]. rewrite <- EM.
    rewrite parse_hex_val by assumption. rewrite Z.mul_0_l, Z.add_0_l.
    change (Z.of_nat 16) with 16 in HV.
    destruct (n <? 16) eqn:E16; [apply Z.ltb_lt in E16|apply Z.ltb_ge in E16].
    + rewrite Z.shiftl_mul_pow2 by lia.
      replace (2 ^ (4 * (16 - n))) with (16 ^ (16 - n))
        by (change 16 with (2 ^ 4) at 1; rewrite <- Z.pow_mul_r by lia; reflexivity).
      rewrite <- HV. apply wrap_u64_small. exact Hc.
    + replace (16 - n) with 0 in HV by lia. rewrite Z.pow_0_r, Z.mul_1_r in HV. symmetry. exact HV.
Qed.

(** ** strings *)
Lemma wrap_u8_small : forall x, 0 <= x < 256 -> wrap_u8 x = x.
Proof. intros x H. unfold wrap_u8, wrap_u. apply Z.mod_small. exact H. Qed.

Lemma prefix_div : forall c f l k l', rep c f l k -> 0 <= l' <= l ->
  c / 2 ^ (2 * (30 - l') + 1) = f * 4 ^ l' + k / 4 ^ (l - l').
Proof.
  intros c f l k l' H Hl'. pose proof (Parent_rep _ _ _ _ _ H Hl') as HP.
  pose proof H as (Hf & Hl & Hk & _).
  assert (Hu : u64 c) by (unfold u64; pose proof (rep_u64 _ _ _ _ H); change (2 ^ 64) with (8 * 2 ^ 61); lia).
  pose proof (rep_index_form _ _ _ _ HP) as E. rewrite Parent_formula in E by (try assumption; lia).
  pose proof (pow4_pos (30 - l') ltac:(lia)) as Hb. unfold index in E.
  apply Z.mul_reg_r in E; lia.
Qed.

Lemma ChildPosition_rep : forall c f l k lv, rep c f l k -> 1 <= lv <= l ->
  s2_CellID_ChildPosition c lv = (k / 4 ^ (l - lv)) mod 4.
Proof.
  intros c f l k lv H Hlv. unfold s2_CellID_ChildPosition. pose proof H as (Hf & Hl & Hk & _).
  rewrite (rep_wrap _ _ _ _ H).
  rewrite (wrap_i64_small (30 - lv)) by (change (2 ^ 63) with 9223372036854775808; lia).
  rewrite (wrap_i64_small (2 * (30 - lv))) by (change (2 ^ 63) with 9223372036854775808; lia).
  rewrite (wrap_i64_small (2 * (30 - lv) + 1)) by (change (2 ^ 63) with 9223372036854775808; lia).
  rewrite wrap_u64_small by (change (2 ^ 64) with 18446744073709551616; lia).
  rewrite go_shr_div by lia. rewrite (prefix_div _ _ _ _ lv H) by lia.
  pose proof (pow4_pos (lv - 1) ltac:(lia)) as HB. pose proof (pow4_pos (l - lv) ltac:(lia)) as HD.
  assert (Hq : 0 <= k / 4 ^ (l - lv)) by (apply Z.div_pos; lia).
  assert (Hq' : k / 4 ^ (l - lv) < 4 ^ lv).
  { apply Z.div_lt_upper_bound; [lia|]. rewrite <- Z.pow_add_r by lia. replace (l - lv + lv) with l by lia. lia. }
  assert (HBle : 4 ^ lv <= 2 ^ 60) by (rewrite pow4_pow2 by lia; apply pow2_le; lia).
  change (2 ^ 60) with 1152921504606846976 in HBle.
  assert (0 <= f * 4 ^ lv <= 5 * 1152921504606846976) by nia.
  rewrite wrap_i64_small by (change (2 ^ 63) with 9223372036854775808; lia).
  change 3 with (Z.ones 2). rewrite Z.land_ones by lia. change (2 ^ 2) with 4.
  assert (E4 : 4 ^ (lv - 1 + 1) = 4 ^ (lv - 1) * 4) by (rewrite pow4_succ by lia; ring).
  replace (lv - 1 + 1) with lv in E4 by lia. rewrite E4.
  rewrite Z.mul_assoc, Z.add_comm, Z.mod_add by lia. reflexivity.
Qed.

Lemma FromFace_rep : forall f, 0 <= f < 6 -> rep (s2_CellIDFromFace f) f 0 0.
Proof.
  intros f Hf. unfold s2_CellIDFromFace. rewrite lsbForLevel_eq by lia.
  rewrite (wrap_u64_small f) by (change (2 ^ 64) with 18446744073709551616; lia).
  rewrite go_shl_mul by lia.
  change (4 ^ (30 - 0)) with (2 ^ 60).
  rewrite (wrap_u64_small (f * 2 ^ 61)) by (change (2 ^ 64) with 18446744073709551616; change (2 ^ 61) with 2305843009213693952; lia).
  rewrite !(wrap_u64_small (f * 2 ^ 61 + 2 ^ 60)) by (change (2 ^ 64) with 18446744073709551616; change (2 ^ 61) with 2305843009213693952; change (2 ^ 60) with 1152921504606846976; lia).
  split; [assumption|]. split; [lia|]. split; [change (4 ^ 0) with 1; lia|]. change (4 ^ (30 - 0)) with (2 ^ 60). ring.
Qed.

(** the digit loop of CellIDFromString *)
Fixpoint fs_go (id : Z) (l : list Z) : Z :=
  match l with
  | [] => id
  | b :: t => let childPos := wrap_u8 (b - 48) in
              if 3 <? childPos then 0 else fs_go (nthZ (s2_CellID_Children id) childPos 0) t
  end.

Lemma FromString_unfold : forall s0 s1 rest,
  CellIDFromString (s0 :: s1 :: rest) =
  (let level := Z.of_nat (length (s0 :: s1 :: rest)) - 2 in
   if (level <? 0) || (30 <? level) then 0 else
   let face := wrap_u8 (s0 - 48) in
   if (5 <? face) || negb (s1 =? 47) then 0 else fs_go (s2_CellIDFromFace face) rest).
Proof. intros. reflexivity. Qed.

Lemma nth_child : forall c f l k q, rep c f l k -> l < 30 -> 0 <= q < 4 ->
  nthZ (s2_CellID_Children c) q 0 = child c l q.
Proof.
  intros c f l k q H Hl Hq. rewrite (Children_rep _ _ _ _ H Hl).
  assert (C : q = 0 \/ q = 1 \/ q = 2 \/ q = 3) by lia.
  destruct C as [-> | [-> | [-> | ->]]]; reflexivity.
Qed.

(** every run of the digit loop from a valid cell ends in 0 or in a valid cell *)
Lemma fs_go_valid : forall rest id f m q, rep id f m q -> m + Z.of_nat (length rest) <= 30 ->
  fs_go id rest = 0 \/ exists q', rep (fs_go id rest) f (m + Z.of_nat (length rest)) q'.
Proof.
  induction rest as [|b t IH]; intros id f m q H Hm.
  - right. exists q. cbn [fs_go length]. replace (m + Z.of_nat 0) with m by lia. exact H.
  - cbn [fs_go]. cbv zeta. cbn [length] in Hm. rewrite Nat2Z.inj_succ in Hm.
    destruct (3 <? wrap_u8 (b - 48)) eqn:E; [left; reflexivity|]. apply Z.ltb_ge in E.
    assert (Hq : 0 <= wrap_u8 (b - 48) < 4) by (unfold wrap_u8, wrap_u in *; pose proof (Z.mod_pos_bound (b - 48) (2 ^ 8) ltac:(lia)); lia).
    rewrite (nth_child _ _ _ _ _ H ltac:(lia) Hq).
    pose proof (child_rep _ _ _ _ _ H ltac:(lia) Hq) as HC.
    destruct (IH _ _ _ _ HC ltac:(lia)) as [Z0 | [q' R]]; [left; exact Z0|right].
    exists q'. cbn [length]. rewrite Nat2Z.inj_succ. replace (m + Z.succ (Z.of_nat (length t))) with (m + 1 + Z.of_nat (length t)) by lia. exact R.
Qed.

Theorem FromString_zero_or_valid : forall s,
  CellIDFromString s = 0 \/ s2_CellID_IsValid (CellIDFromString s) = true.
Proof.
  intros s. destruct s as [|s0 [|s1 rest]]; [left; reflexivity|left; reflexivity|].
  rewrite FromString_unfold. cbv zeta.
  destruct ((Z.of_nat (length (s0 :: s1 :: rest)) - 2 <? 0) || (30 <? Z.of_nat (length (s0 :: s1 :: rest)) - 2)) eqn:EL; [left; reflexivity|].
  apply orb_false_iff in EL. destruct EL as [_ EL]. apply Z.ltb_ge in EL.
  destruct ((5 <? wrap_u8 (s0 - 48)) || negb (s1 =? 47)) eqn:EF; [left; reflexivity|].
  apply orb_false_iff in EF. destruct EF as [EF _]. apply Z.ltb_ge in EF.
  assert (Hf : 0 <= wrap_u8 (s0 - 48) < 6) by (unfold wrap_u8, wrap_u in *; pose proof (Z.mod_pos_bound (s0 - 48) (2 ^ 8) ltac:(lia)); lia).
  cbn [length] in EL. rewrite !Nat2Z.inj_succ in EL.
  destruct (fs_go_valid rest _ _ 0 0 (FromFace_rep _ Hf) ltac:(lia)) as [Z0 | [q' R]]; [left; exact Z0|right].
  exact (IsValid_rep _ _ _ _ R).
Qed.

Lemma zrange_up_cons : forall lo hi, lo < hi -> zrange_up lo hi = lo :: zrange_up (lo + 1) hi.
Proof.
  intros lo hi H. unfold zrange_up.
  replace (Z.to_nat (hi - lo)) with (S (Z.to_nat (hi - (lo + 1)))) by lia.
  cbn [seq map]. f_equal; [lia|]. rewrite <- seq_shift, map_map. apply map_ext. intros a. lia.
Qed.

Lemma zrange_up_nil : forall lo hi, hi <= lo -> zrange_up lo hi = [].
Proof. intros lo hi H. unfold zrange_up. replace (Z.to_nat (hi - lo)) with 0%nat by lia. reflexivity. Qed.

(** feeding the child positions of c from level m+1 on to the ancestor of c at level m rebuilds c *)
Lemma fs_go_digits : forall c f l k, rep c f l k -> forall n m, Z.of_nat n = l - m -> 0 <= m ->
  fs_go (s2_CellID_Parent c m) (map (fun lv => 48 + s2_CellID_ChildPosition c lv) (zrange_up (m + 1) (l + 1))) = c.
Proof.
  intros c f l k H. pose proof H as (Hf & Hl & Hk & _).
  induction n as [|n IH]; intros m Hn Hm.
  - assert (m = l) by lia. subst m. rewrite zrange_up_nil by lia. cbn [map fs_go]. exact (Parent_self _ _ _ _ H).
  - rewrite Nat2Z.inj_succ in Hn. rewrite zrange_up_cons by lia. cbn [map fs_go]. cbv zeta.
    rewrite (ChildPosition_rep _ _ _ _ (m + 1) H) by lia.
    set (d := (k / 4 ^ (l - (m + 1))) mod 4).
    assert (Hd : 0 <= d < 4) by (unfold d; apply Z.mod_pos_bound; lia).
    replace (48 + d - 48) with d by ring.
    rewrite (wrap_u8_small d) by lia.
    replace (3 <? d) with false by (symmetry; apply Z.ltb_ge; lia).
    pose proof (Parent_rep _ _ _ _ m H ltac:(lia)) as HP.
    rewrite (nth_child _ _ _ _ _ HP ltac:(lia) Hd).
    pose proof (child_rep _ _ _ _ _ HP ltac:(lia) Hd) as HC.
    pose proof (Parent_rep _ _ _ _ (m + 1) H ltac:(lia)) as HP1.
    assert (EK : 4 * (k / 4 ^ (l - m)) + d = k / 4 ^ (l - (m + 1))).
    { unfold d. pose proof (pow4_pos (l - (m + 1)) ltac:(lia)) as HD.
      replace (l - m) with (l - (m + 1) + 1) by lia. rewrite pow4_succ by lia.
      rewrite (Z.mul_comm 4 (4 ^ (l - (m + 1)))), <- Z.div_div by lia.
      symmetry. apply Z.div_mod. lia. }
    rewrite EK in HC.
    assert (EC : child (s2_CellID_Parent c m) m d = s2_CellID_Parent c (m + 1)).
    { destruct HC as (_ & _ & _ & E1). destruct HP1 as (_ & _ & _ & E2). rewrite E1, E2. reflexivity. }
    rewrite EC. apply IH; lia.
Qed.

Theorem string_roundtrip : forall c f l k, rep c f l k -> CellIDFromString (CellID_String c) = c.
Proof.
  intros c f l k H. pose proof H as (Hf & Hl & Hk & _). unfold CellID_String.
  rewrite (IsValid_rep _ _ _ _ H). cbn [negb]. rewrite (Face_rep _ _ _ _ H), (Level_rep _ _ _ _ H).
  rewrite FromString_unfold. cbv zeta. cbn [length]. rewrite map_length.
  assert (Elen : length (zrange_up 1 (l + 1)) = Z.to_nat l) by (unfold zrange_up; rewrite map_length, seq_length; f_equal; lia).
  rewrite Elen. rewrite !Nat2Z.inj_succ, Z2Nat.id by lia.
  replace (Z.succ (Z.succ l) - 2) with l by lia.
  replace ((l <? 0) || (30 <? l)) with false
    by (symmetry; apply orb_false_iff; split; [apply Z.ltb_ge|apply Z.ltb_ge]; lia).
  replace (48 + f - 48) with f by ring. rewrite (wrap_u8_small f) by lia.
  replace (5 <? f) with false by (symmetry; apply Z.ltb_ge; lia). cbn [Z.eqb Pos.eqb negb orb].
  pose proof (Parent_rep _ _ _ _ 0 H ltac:(lia)) as HP.
  assert (EP : s2_CellIDFromFace f = s2_CellID_Parent c 0).
  { pose proof (FromFace_rep f Hf) as (_ & _ & _ & E1). destruct HP as (_ & _ & HK & E2).
    change (4 ^ 0) with 1 in HK. replace (k / 4 ^ (l - 0)) with 0 in E2 by lia. rewrite E1, E2. reflexivity. }
  rewrite EP. apply (fs_go_digits _ _ _ _ H (Z.to_nat l) 0); lia.
Qed.
