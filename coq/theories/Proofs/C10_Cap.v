(** C10: caps — Cap.AddPoint(p) then ContainsPoint(p) is true in floats because both sides
    evaluate the same ChordAngleBetweenPoints expression; hence Cell.CapBound (a fold of
    AddPoint over the four vertices from CapFromPoint(centre)) contains every vertex. *)
From Coq Require Import ZArith Reals Floats Lra Bool List.
From Geo Require Import Base.GoPrim Base.F64 Gen.Bounds Model.Bounds Proofs.C10_S1.
Import ListNotations.
Local Open Scope R_scope.

Definition chord (c p : s2_Point) : PrimFloat.float := s2_ChordAngleBetweenPoints c p.

(** a cap in the state reached from CapFromPoint: radius is a number and not negative *)
Definition cap_ok (c : s2_Cap) : Prop := nonnan (s2_Cap_radius c) /\ s2_Cap_IsEmpty c = false.

Lemma cap_from_point_ok p : cap_ok (s2_CapFromPoint p).
Proof. split; reflexivity. Qed.

Lemma addpoint_center c p : s2_Cap_IsEmpty c = false -> s2_Cap_center (s2_Cap_AddPoint c p) = s2_Cap_center c.
Proof.
  intros E. unfold s2_Cap_AddPoint. rewrite E. destruct (PrimFloat.ltb _ _); reflexivity.
Qed.

Lemma addpoint_ok c p : cap_ok c -> nonnan (chord (s2_Cap_center c) p) -> cap_ok (s2_Cap_AddPoint c p).
Proof.
  intros [N E] Np. unfold cap_ok, s2_Cap_AddPoint, s2_Cap_IsEmpty in *. rewrite E.
  fold (chord (s2_Cap_center c) p).
  destruct (PrimFloat.ltb (s2_Cap_radius c) (chord (s2_Cap_center c) p)) eqn:L; cbn; [|split; assumption].
  split; [exact Np|].
  apply ltb_false_iff in E; [|exact N|reflexivity]. apply ltb_true_iff in L; [|exact N|exact Np].
  apply ltb_false_iff; [exact Np|reflexivity|]. lra.
Qed.

(** the headline fact: after AddPoint(p), ContainsPoint(p) *)
Theorem cap_addpoint_contains c p : cap_ok c -> nonnan (chord (s2_Cap_center c) p) ->
  s2_Cap_ContainsPoint (s2_Cap_AddPoint c p) p = true.
Proof.
  intros [N E] Np. unfold s2_Cap_ContainsPoint. rewrite (addpoint_center c p E).
  unfold s2_Cap_AddPoint. rewrite E. fold (chord (s2_Cap_center c) p).
  destruct (PrimFloat.ltb (s2_Cap_radius c) (chord (s2_Cap_center c) p)) eqn:L; cbn.
  - apply leb_true_iff; try assumption. lra.
  - apply ltb_false_iff in L; [|exact N|exact Np]. apply leb_true_iff; [exact Np|exact N|exact L].
Qed.

(** AddPoint never loses a point *)
Theorem cap_addpoint_keeps c p q : cap_ok c -> nonnan (chord (s2_Cap_center c) p) ->
  s2_Cap_ContainsPoint c q = true -> s2_Cap_ContainsPoint (s2_Cap_AddPoint c p) q = true.
Proof.
  intros [N E] Np H. unfold s2_Cap_ContainsPoint in *. rewrite (addpoint_center c p E).
  unfold s2_Cap_AddPoint. rewrite E. fold (chord (s2_Cap_center c) p) in *. fold (chord (s2_Cap_center c) q) in *.
  destruct (PrimFloat.ltb (s2_Cap_radius c) (chord (s2_Cap_center c) p)) eqn:L; cbn; [|exact H].
  destruct (go_isnan (chord (s2_Cap_center c) q)) eqn:Nq.
  - rewrite (leb_nan_l _ _ Nq) in H. discriminate.
  - assert (Nq' : nonnan (chord (s2_Cap_center c) q)) by exact Nq.
    apply leb_true_iff in H; [|exact Nq'|exact N]. apply ltb_true_iff in L; [|exact N|exact Np].
    apply leb_true_iff; [exact Nq'|exact Np|]. lra.
Qed.

(** Cell.CapBound: fold of AddPoint over the vertices *)
Lemma fold_addpoint_inv vs : forall c, cap_ok c ->
  (forall w, In w vs -> nonnan (chord (s2_Cap_center c) w)) ->
  cap_ok (fold_left s2_Cap_AddPoint vs c) /\
  s2_Cap_center (fold_left s2_Cap_AddPoint vs c) = s2_Cap_center c /\
  (forall q, s2_Cap_ContainsPoint c q = true -> s2_Cap_ContainsPoint (fold_left s2_Cap_AddPoint vs c) q = true) /\
  (forall v, In v vs -> s2_Cap_ContainsPoint (fold_left s2_Cap_AddPoint vs c) v = true).
Proof.
  induction vs as [|w t IH]; intros c Ok Nn; cbn [fold_left].
  - split; [exact Ok|]. split; [reflexivity|]. split; [auto|]. intros v [] .
  - assert (Nw : nonnan (chord (s2_Cap_center c) w)) by (apply Nn; left; reflexivity).
    pose proof (addpoint_ok c w Ok Nw) as Ok'.
    pose proof (addpoint_center c w (proj2 Ok)) as Ce.
    destruct (IH (s2_Cap_AddPoint c w) Ok') as [A [B [K V]]].
    { intros x Hx. rewrite Ce. apply Nn. right; exact Hx. }
    split; [exact A|]. split; [rewrite B; exact Ce|]. split.
    + intros q Hq. apply K. apply cap_addpoint_keeps; assumption.
    + intros v [->|Hv]; [|apply V; exact Hv].
      apply K. apply cap_addpoint_contains; assumption.
Qed.

Theorem cell_cap_bound_contains_vertices center vs v :
  (forall w, In w vs -> nonnan (chord center w)) -> In v vs ->
  s2_Cap_ContainsPoint (cell_cap_bound center vs) v = true.
Proof.
  intros Nn Hv. unfold cell_cap_bound.
  destruct (fold_addpoint_inv vs (s2_CapFromPoint center) (cap_from_point_ok center) Nn) as [_ [_ [_ V]]].
  apply V; exact Hv.
Qed.

(** the cap's own centre stays inside when it is a number at distance 0 from itself *)
Theorem cell_cap_bound_contains_center center vs :
  (forall w, In w vs -> nonnan (chord center w)) ->
  PrimFloat.leb (chord center center) 0 = true ->
  s2_Cap_ContainsPoint (cell_cap_bound center vs) center = true.
Proof.
  intros Nn H0. unfold cell_cap_bound.
  destruct (fold_addpoint_inv vs (s2_CapFromPoint center) (cap_from_point_ok center) Nn) as [_ [_ [K _]]].
  apply K. exact H0.
Qed.

Example cap_hyps_satisfiable :
  let c := mk_s2_Point (mk_r3_Vector 1 0 0) in
  let v := mk_s2_Point (mk_r3_Vector 0 1 0) in
  nonnan (chord c v) /\ s2_Cap_ContainsPoint (cell_cap_bound c [v]) v = true.
Proof. split; reflexivity. Qed.
