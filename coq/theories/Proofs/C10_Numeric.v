(** C10: the numeric sentences of the property, derived from the exact part (C10_Rect,
    C10_Cap) plus named hypotheses about float geometry (DESIGN section 4).  The hypotheses
    are Section hypotheses, i.e. visible premises after [End]; each is attacked on every run by
    the observer's [S] search. *)
From Coq Require Import ZArith Reals Floats Lra Bool List.
From Geo Require Import Base.GoPrim Base.F64 Gen.Bounds Model.Bounds Proofs.C19_R1 Proofs.C10_S1 Proofs.C10_Rect.
Import ListNotations.
Local Open Scope R_scope.

Lemma add_point_a r b : bd_a (add_point r b) = b /\ bd_aLL (add_point r b) = LL b.
Proof.
  unfold add_point, LL. destruct (s2_Rect_IsEmpty (bd_bound r)); [split; reflexivity|].
  destruct (_ =? _)%Z; split; reflexivity.
Qed.

Definition inhabited (r : s2_Rect) : Prop := exists ll, llv ll /\ has r ll.
Definition fresh_or_inhabited (r : bounder) : Prop :=
  s2_Rect_IsEmpty (bd_bound r) = true \/ inhabited (bd_bound r).

Lemma inhabited_nonempty r : wf_rect r -> inhabited r -> s2_Rect_IsEmpty r = false.
Proof.
  intros W [ll [V H]]. apply (has_spec _ _ W V) in H. destruct H as [[H1 H2] _].
  destruct W as [[Nl Nh] _]. unfold s2_Rect_IsEmpty, r1_Interval_IsEmpty.
  apply ltb_false_iff; try assumption. lra.
Qed.

Lemma step_inhabited r b : wf_rect (bd_bound r) -> step_ok r b -> fresh_or_inhabited r ->
  inhabited (bd_bound (add_point r b)).
Proof.
  intros W S J. destruct (add_point_step r b W S) as [_ [G [F _]]]. destruct J as [E|[ll [V H]]].
  - exists (LL b). split; [apply S|apply F; exact E].
  - exists ll. split; [exact V|apply G; assumption].
Qed.

Lemma chain_ok_app r pre post : chain_ok r (pre ++ post) ->
  chain_ok r pre /\ chain_ok (fold_left add_point pre r) post.
Proof.
  revert r. induction pre as [|q pre IH]; intros r C; cbn in *; [tauto|].
  destruct C as [S C]. destruct (IH _ C). tauto.
Qed.

Lemma fold_inhabited pts : forall r, wf_rect (bd_bound r) -> chain_ok r pts ->
  fresh_or_inhabited r -> pts <> [] ->
  wf_rect (bd_bound (fold_left add_point pts r)) /\ inhabited (bd_bound (fold_left add_point pts r)).
Proof.
  induction pts as [|p t IH]; intros r W C J Ne; [contradiction|]. cbn [fold_left].
  destruct C as [S C]. destruct (add_point_step r p W S) as [W' _].
  pose proof (step_inhabited r p W S J) as I'.
  destruct t as [|q t']; [cbn; split; assumption|].
  apply IH; try assumption; [right; exact I'|discriminate].
Qed.

Section LatBound.
  (** [on_edge a b P]: P is a point of the geodesic edge ab (abstract geometric predicate). *)
  Variable on_edge : s2_Point -> s2_Point -> s2_Point -> Prop.

  (** H_LATBOUND: whatever well-formed rectangle R contains the rectangle AddPoint computes
      for the edge ab, the final expansion of RectBound() applied to R contains the computed
      LatLng of every float point P on ab.  (Statement about floats only.) *)
  Definition H_LATBOUND : Prop := forall a b P R, on_edge a b P -> wf_rect R ->
    rsub (edge_rect a b (LL a) (LL b)) R ->
    has (s2_Rect_PolarClosure (s2_Rect_expanded R (mk_s2_LatLng c_2eps 0))) (LL P).

  (** First sentence of the property for edge chains (polylines, loop boundaries): the
      RectBound() of the chain contains the computed LatLng of every point on every edge. *)
  Theorem chain_rect_bound_conservative : H_LATBOUND ->
    forall pre a p post P, chain_ok new_bounder (pre ++ a :: p :: post) -> on_edge a p P ->
    has (rect_bound (bounder_run (pre ++ a :: p :: post))) (LL P).
  Proof.
    intros H pre a p post P C OnE.
    replace (pre ++ a :: p :: post) with ((pre ++ [a]) ++ p :: post) in * by (rewrite <- app_assoc; reflexivity).
    destruct (chain_ok_app _ _ _ C) as [C1 _].
    destruct (fold_inhabited (pre ++ [a]) new_bounder empty_rect_wf C1 (or_introl eq_refl)) as [Wi Ii].
    { destruct pre; discriminate. }
    pose proof (inhabited_nonempty _ Wi Ii) as NE.
    destruct (bounder_monotone (pre ++ [a]) p post new_bounder empty_rect_wf C) as [Wf [_ [_ Ed]]].
    specialize (Ed NE).
    assert (Ea : bd_a (fold_left add_point (pre ++ [a]) new_bounder) = a /\
                 bd_aLL (fold_left add_point (pre ++ [a]) new_bounder) = LL a).
    { rewrite fold_left_app. cbn [fold_left]. apply add_point_a. }
    destruct Ea as [Ea1 Ea2]. rewrite Ea1, Ea2 in Ed.
    unfold rect_bound, bounder_run. apply (H a p P); assumption.
  Qed.
End LatBound.

Section CapArith.
  (** H_CAPARITH (the part used here): Cap.AddCap keeps every point of both caps — this is
      where ChordAngle.Add's rounding and the 1+eps expansion enter. *)
  Definition H_CAPARITH : Prop := forall c o q,
    s2_Cap_ContainsPoint c q = true \/ s2_Cap_ContainsPoint o q = true ->
    s2_Cap_ContainsPoint (s2_Cap_AddCap c o) q = true.

  Lemma fold_addcap_keeps (H : H_CAPARITH) caps : forall c q,
    s2_Cap_ContainsPoint c q = true \/ (exists o, In o caps /\ s2_Cap_ContainsPoint o q = true) ->
    s2_Cap_ContainsPoint (fold_left s2_Cap_AddCap caps c) q = true.
  Proof.
    induction caps as [|o t IH]; intros c q Hq; cbn [fold_left].
    - destruct Hq as [Hq|[o [[] _]]]. exact Hq.
    - apply IH. destruct Hq as [Hq|[o' [[->|I] Ho]]].
      + left. apply H. left; exact Hq.
      + left. apply H. right; exact Ho.
      + right. exists o'. split; assumption.
  Qed.

  (** CellUnion.CapBound contains every point of every cell's CapBound *)
  Theorem cu_cap_bound_conservative : H_CAPARITH -> forall cells caps o q,
    cells <> [] -> In o caps -> s2_Cap_ContainsPoint o q = true ->
    s2_Cap_ContainsPoint (cu_cap_bound cells caps) q = true.
  Proof.
    intros H cells caps o q Ne I Ho. unfold cu_cap_bound.
    destruct cells; [contradiction|]. apply fold_addcap_keeps; [exact H|].
    right. exists o. split; assumption.
  Qed.
End CapArith.

(** the premises of the chain theorems are satisfiable: a quarter of the equator *)
Example chain_ok_satisfiable :
  chain_ok new_bounder [mk_s2_Point (mk_r3_Vector 1 0 0); mk_s2_Point (mk_r3_Vector 0 1 0)].
Proof.
  cbn [chain_ok]. split; [split|split; [split|exact I]].
  - unfold llv. vm_compute. reflexivity.
  - intros H. vm_compute in H. discriminate.
  - unfold llv. vm_compute. reflexivity.
  - intros _. split; [split; vm_compute; reflexivity|]. apply valid_iff. vm_compute. reflexivity.
Qed.
