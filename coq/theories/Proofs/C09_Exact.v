(** C09 — from the byte-level round trip to "the same vertices": the float exactness step,
    the format choice of Polygon.encode, and the refuted corner.

    The two float facts below are stated as Props and used as Section hypotheses; both are
    proved (Proofs/C09_Float.v, Proofs/C09_F64Bits.v) and the closed theorems are at the end:
    - [H_piqi_exact]: whenever the cell-centre detection accepts a point at a level, the
      decoder's [facePiQitoXYZ] of the shifted (si,ti) is the very float vector the detection
      compared the point with ((pi+1/2)/2^level and si/2^31 are the same exact dyadic quotient);
    - [H_f64_bits_frombits]: [bits (frombits x) = x] for every finite bit pattern x.
    Since d20845c the detection compares bit patterns, so no statement about [==] is needed. *)
From Coq Require Import ZArith List Bool Lia Floats.
From Geo Require Import Base.GoPrim Base.Bytes Gen.Codec Model.Codec.
From Geo Require Import Proofs.C09_Prims Proofs.C09_Lossless Proofs.C09_Compressed Proofs.C09_Float Proofs.C09_F64Bits.
Import ListNotations.
Local Open Scope Z_scope.

Definition H_piqi_exact : Prop :=
  forall v face si ti level, s2_xyzToFaceSiTi (mk_s2_Point v) = (face, si, ti, level) -> 0 <= level ->
    s2_facePiQitoXYZ face (s2_siTitoPiQi si level) (s2_siTitoPiQi ti level) level
    = r3_Vector_Normalize (s2_Point_Vector (s2_faceSiTiToXYZ face si ti)).
Definition H_f64_bits_frombits : Prop :=
  forall x, 0 <= x < 2 ^ 64 -> nonfinite_bits x = false -> go_float64bits (go_float64frombits x) = x.

(** * The cell-centre detection always yields a face, and 32-bit si, ti *)
Lemma face_range r : 0 <= s2_face r < 6.
Proof.
  unfold s2_face, r3_Vector_LargestComponent.
  repeat match goal with |- context [if ?b then _ else _] => destruct b end; cbn; lia.
Qed.
Lemma stToSiTi_range s : u32 (s2_stToSiTi s).
Proof. unfold s2_stToSiTi. destruct (PrimFloat.ltb s 0); apply wrap_u32_range. Qed.

Lemma xyz_face_siti_ok p : vertex_ok p -> xfst_ok (xyz_face_siti p).
Proof.
  intros Hp. unfold xyz_face_siti, s2_xyzToFaceSiTi, s2_xyzToFaceUV.
  destruct (s2_validFaceXYZToUV _ _) as [u v]. cbv zeta.
  repeat match goal with |- context [if ?b then _ else _] => destruct b end;
  (split; [exact Hp|]; split; [apply face_range|]; split; apply stToSiTi_range).
Qed.

(** a level >= 0 is reported only after the bit-for-bit comparison succeeded *)
Definition bits_eq (a c : r3_Vector) : bool :=
  ((go_float64bits (r3_Vector_X a) =? go_float64bits (r3_Vector_X c))
   && (go_float64bits (r3_Vector_Y a) =? go_float64bits (r3_Vector_Y c)))
  && (go_float64bits (r3_Vector_Z a) =? go_float64bits (r3_Vector_Z c)).
Lemma xyz_level_nonneg_proj P :
  let r := s2_xyzToFaceSiTi P in
  0 <= snd r ->
  bits_eq (s2_Point_Vector P)
    (r3_Vector_Normalize (s2_Point_Vector (s2_faceSiTiToXYZ (fst (fst (fst r))) (snd (fst (fst r))) (snd (fst r))))) = true.
Proof.
  unfold s2_xyzToFaceSiTi. destruct (s2_xyzToFaceUV (s2_Point_Vector P)) as [[f0 u] v]. cbv zeta.
  set (si := s2_stToSiTi (s2_uvToST u)). set (ti := s2_stToSiTi (s2_uvToST v)).
  set (lv := wrap_i64 (30 - s2_findLSBSetNonZero64 (wrap_u64 (Z.lor si 2147483648)))).
  set (lv2 := wrap_i64 (30 - s2_findLSBSetNonZero64 (wrap_u64 (Z.lor ti 2147483648)))).
  destruct ((lv <? 0) || negb (lv =? lv2)).
  - cbn [fst snd]. intros H. exfalso. lia.
  - set (c := r3_Vector_Normalize (s2_Point_Vector (s2_faceSiTiToXYZ f0 si ti))).
    fold (bits_eq (s2_Point_Vector P) c).
    destruct (bits_eq (s2_Point_Vector P) c) eqn:E; cbn [fst snd].
    + intros _. exact E.
    + intros H. exfalso. lia.
Qed.
Lemma xyz_level_nonneg P f si ti lv : s2_xyzToFaceSiTi P = (f, si, ti, lv) -> 0 <= lv ->
  bits_eq (s2_Point_Vector P) (r3_Vector_Normalize (s2_Point_Vector (s2_faceSiTiToXYZ f si ti))) = true.
Proof.
  intros E Hl. pose proof (xyz_level_nonneg_proj P) as H. cbv zeta in H. rewrite E in H. cbn [fst snd] in H. now apply H.
Qed.

Section Exact.
  Hypothesis Hpiqi : H_piqi_exact.
  Hypothesis Hbits : H_f64_bits_frombits.

  (** the decoder recomputes exactly the vector the encoder compared the vertex with *)
  Lemma centre_is_compared_vector p : 0 <= x_level (xyz_face_siti p) ->
    let x := xyz_face_siti p in
    centre (x_level x) x = point_of_vec (r3_Vector_Normalize (s2_Point_Vector (s2_faceSiTiToXYZ (x_face x) (x_si x) (x_ti x))))
    /\ bits_eq (vec_of_point p) (r3_Vector_Normalize (s2_Point_Vector (s2_faceSiTiToXYZ (x_face x) (x_si x) (x_ti x)))) = true.
  Proof.
    unfold xyz_face_siti. destruct (s2_xyzToFaceSiTi (mk_s2_Point (vec_of_point p))) as [[[f si] ti] lv] eqn:E.
    cbn [x_level x_face x_si x_ti]. intros Hl. split.
    - unfold centre. cbn [x_level x_face x_si x_ti]. now rewrite (Hpiqi _ _ _ _ _ E Hl).
    - exact (xyz_level_nonneg _ _ _ _ _ E Hl).
  Qed.

  (** a vertex encoded as a cell centre comes back bit for bit *)
  Theorem snapped_vertex_exact p level : vertex_ok p ->
    x_level (xyz_face_siti p) = level -> 0 <= level -> recon level (xyz_face_siti p) = p.
  Proof.
    intros Hp El Hl. unfold recon. rewrite El, Z.eqb_refl. subst level.
    destruct (centre_is_compared_vector p Hl) as (C & Q). cbv zeta in C, Q. rewrite C.
    set (c := r3_Vector_Normalize _) in *. destruct c as [cx cy cz]. destruct p as [[x y] z].
    destruct Hp as ((Hx & Hy & Hz) & Fx & Fy & Fz).
    unfold bits_eq, vec_of_point in Q. cbn [r3_Vector_X r3_Vector_Y r3_Vector_Z] in Q.
    apply andb_true_iff in Q. destruct Q as [Q Qz]. apply andb_true_iff in Q. destruct Q as [Qx Qy].
    apply Z.eqb_eq in Qx, Qy, Qz. rewrite Hbits in Qx, Qy, Qz by auto.
    unfold point_of_vec. cbn [r3_Vector_X r3_Vector_Y r3_Vector_Z]. now rewrite <- Qx, <- Qy, <- Qz.
  Qed.

  Theorem vertex_exact p level : vertex_ok p -> 0 <= level -> recon level (xyz_face_siti p) = p.
  Proof.
    intros Hp Hl. destruct (Z.eq_dec (x_level (xyz_face_siti p)) level) as [E|E].
    - now apply snapped_vertex_exact.
    - unfold recon. replace (x_level (xyz_face_siti p) =? level) with false by (symmetry; now apply Z.eqb_neq).
      unfold xyz_face_siti. destruct (s2_xyzToFaceSiTi _) as [[[f si] ti] lv]. reflexivity.
  Qed.
End Exact.

(** * Polygon.encode: whichever format is selected *)
Lemma snap_choice_range ls : 0 <= fst (snap_choice ls) <= 30.
Proof.
  unfold snap_choice.
  assert (H : forall l best, Forall (fun lv => 0 <= lv <= 30) l -> 0 <= fst best <= 30 ->
    0 <= fst (fold_left (fun (best : Z * Z) lv => let h := count_level lv ls in if snd best <? h then (lv, h) else best) l best) <= 30).
  { induction l as [|lv l IH]; intros best Hl Hb; cbn [fold_left]; auto.
    inversion Hl as [|? ? H1 H2]; subst. apply IH; auto. cbv zeta. destruct (snd best <? count_level lv ls); auto. }
  apply H; [|cbn; lia].
  apply Forall_forall. intros lv Hin. unfold zrange_up in Hin. apply in_map_iff in Hin. destruct Hin as (k & <- & Hk).
  apply in_seq in Hk. change (Z.to_nat (s2_MaxLevel + 1 - 0)) with 31%nat in Hk. lia.
Qed.

(** the tie rule of Polygon.encode: the snap level is the LEAST level with the maximal number of
    cell-centre vertices (the histogram is scanned from level 0 upwards with a strict comparison) *)
Lemma zrange_up_succ n : zrange_up 0 (Z.of_nat (S n)) = zrange_up 0 (Z.of_nat n) ++ [Z.of_nat n].
Proof.
  unfold zrange_up. rewrite !Z.sub_0_r, !Nat2Z.id. rewrite seq_S, map_app. reflexivity.
Qed.

Definition snap_inv (ls : list Z) (k : Z) (best : Z * Z) : Prop :=
  let '(b, h) := best in
  0 <= h /\ (forall l, 0 <= l < k -> count_level l ls <= h) /\ (h = 0 -> b = 0)
  /\ (0 < h -> 0 <= b < k /\ count_level b ls = h /\ forall l, 0 <= l < b -> count_level l ls < h).

Lemma snap_fold_inv ls n :
  snap_inv ls (Z.of_nat n)
    (fold_left (fun (best : Z * Z) lv => let h := count_level lv ls in if snd best <? h then (lv, h) else best)
               (zrange_up 0 (Z.of_nat n)) (0, 0)).
Proof.
  induction n as [|n IH].
  - cbn. repeat split; try lia.
  - rewrite zrange_up_succ, fold_left_app. cbn [fold_left].
    destruct (fold_left _ (zrange_up 0 (Z.of_nat n)) (0, 0)) as [b h]. cbn [snd] in *.
    destruct IH as (H0 & Hall & Hz & Hpos). rewrite Nat2Z.inj_succ.
    assert (Hc : 0 <= count_level (Z.of_nat n) ls) by (unfold count_level, len; lia).
    cbv zeta. destruct (h <? count_level (Z.of_nat n) ls) eqn:E.
    + apply Z.ltb_lt in E. unfold snap_inv. split; [lia|]. split; [|split; [lia|]].
      * intros l Hl. destruct (Z.eq_dec l (Z.of_nat n)) as [->|Hne]; [lia|]. specialize (Hall l ltac:(lia)). lia.
      * intros _. split; [lia|]. split; [reflexivity|]. intros l Hl. specialize (Hall l ltac:(lia)). lia.
    + apply Z.ltb_ge in E. unfold snap_inv. split; [lia|]. split; [|split; [exact Hz|]].
      * intros l Hl. destruct (Z.eq_dec l (Z.of_nat n)) as [->|Hne]; [lia|]. apply Hall. lia.
      * intros Hh. destruct (Hpos Hh) as (Hb & Hcb & Hlt). split; [lia|]. split; auto.
Qed.

Theorem snap_choice_least_max ls :
  let '(lv, h) := snap_choice ls in
  0 <= lv <= 30 /\ (forall l, 0 <= l <= 30 -> count_level l ls <= h)
  /\ (0 < h -> count_level lv ls = h /\ forall l, 0 <= l < lv -> count_level l ls < h).
Proof.
  unfold snap_choice. pose proof (snap_fold_inv ls 31) as I.
  change (Z.of_nat 31) with 31 in I. change (s2_MaxLevel + 1) with 31.
  destruct (fold_left _ (zrange_up 0 31) (0, 0)) as [lv h]. destruct I as (H0 & Hall & Hz & Hpos).
  split; [|split].
  - destruct (Z.eq_dec h 0) as [E|E]; [rewrite (Hz E); lia|]. destruct (Hpos ltac:(lia)) as (Hb & _). lia.
  - intros l Hl. apply Hall. lia.
  - intros Hh. destruct (Hpos Hh) as (_ & Hc & Hlt). split; auto.
Qed.

(** a polygon both formats can carry *)
Definition polygon_enc_ok (p : polygon) : Prop := polygon_ok p.

Lemma polygon_okc_of_ok p : polygon_ok p -> polygon_okc p.
Proof.
  intros (Hl & _). unfold polygon_okc. eapply Forall_impl; [|exact Hl].
  intros l (Hv & _ & Hd & Hb). split; [exact Hv|]. split.
  { eapply Forall_impl; [|exact Hv]. intros v Hv'. now apply xyz_face_siti_ok. }
  split; [|exact Hb]. change (2 ^ 63) with 9223372036854775808. change (2 ^ 32) with 4294967296 in Hd. lia.
Qed.

Theorem roundtrip_polygon p bs : polygon_ok p -> encode_polygon p = Some bs ->
  decode_polygon bs = Ok (DLossless p)
  \/ exists level, 0 <= level <= 30 /\ decode_polygon bs = Ok (DCompressed (map (cloop_view level) (p_loops p))).
Proof.
  intros Hp He. unfold encode_polygon in He. cbv zeta in He.
  pose proof (polygon_okc_of_ok p Hp) as Hc.
  destruct (num_vertices p =? 0).
  - right. exists s2_MaxLevel. split; [change s2_MaxLevel with 30; lia|].
    apply roundtrip_polygon_compressed; auto. change s2_MaxLevel with 30; lia.
  - pose proof (snap_choice_range (map x_level (concat (polygon_xs p)))) as R.
    destruct (snap_choice (map x_level (concat (polygon_xs p)))) as [level snapped]. cbn [fst] in R.
    destruct (use_compressed (num_vertices p) snapped).
    + right. exists level. split; auto. now apply roundtrip_polygon_compressed.
    + left. now apply roundtrip_polygon_lossless.
Qed.

(** encoding is a function of the value: two encodings of the same value are the same bytes *)
Theorem encode_deterministic p b1 b2 : encode_polygon p = Some b1 -> encode_polygon p = Some b2 -> b1 = b2.
Proof. congruence. Qed.

Section ExactPolygon.
  Hypothesis Hpiqi : H_piqi_exact.
  Hypothesis Hbits : H_f64_bits_frombits.

  Lemma cloop_view_exact level l : 0 <= level -> Forall vertex_ok (l_vertices l) ->
    l_vertices l <> [] -> cloop_view level l = cloop_of_loop l.
  Proof.
    intros Hl Hv Hne. unfold cloop_view, cloop_of_loop.
    replace (len (l_vertices l) =? 0) with false.
    2:{ symmetry. apply Z.eqb_neq. unfold len. destruct (l_vertices l); [contradiction|cbn; lia]. }
    f_equal. rewrite <- (map_id (l_vertices l)) at 2. apply map_ext_in. intros v Hin.
    rewrite Forall_forall in Hv. apply vertex_exact; auto.
  Qed.

  (** the full statement for polygons whose loops have at least one vertex: every coordinate of
      every vertex bit for bit, loop order, vertex order, origin flags, depths *)
  Theorem roundtrip_polygon_exact p bs : polygon_ok p ->
    Forall (fun l => l_vertices l <> []) (p_loops p) ->
    encode_polygon p = Some bs ->
    decode_polygon bs = Ok (DLossless p) \/ decode_polygon bs = Ok (DCompressed (map cloop_of_loop (p_loops p))).
  Proof.
    intros Hp Hnz He. destruct (roundtrip_polygon p bs Hp He) as [H|(level & Hl & H)]; [now left|right].
    rewrite H. f_equal. f_equal. apply map_ext_in. intros l Hin.
    rewrite Forall_forall in Hnz. pose proof (Hnz l Hin) as Hne.
    destruct Hp as (Hls & _). rewrite Forall_forall in Hls. destruct (Hls l Hin) as (Hv & _).
    apply cloop_view_exact; auto. lia.
  Qed.
End ExactPolygon.

(** * Both hypotheses are theorems (Proofs/C09_Float.v, Proofs/C09_F64Bits.v) *)
Theorem piqi_exact_holds : H_piqi_exact.
Proof. exact piqi_exact. Qed.
Theorem f64_bits_frombits_holds : H_f64_bits_frombits.
Proof. exact f64_bits_frombits. Qed.

Theorem vertex_exact_closed p level : vertex_ok p -> 0 <= level -> recon level (xyz_face_siti p) = p.
Proof. exact (vertex_exact piqi_exact_holds f64_bits_frombits_holds p level). Qed.

Theorem roundtrip_polygon_exact_closed p bs : polygon_ok p ->
  Forall (fun l => l_vertices l <> []) (p_loops p) ->
  encode_polygon p = Some bs ->
  decode_polygon bs = Ok (DLossless p) \/ decode_polygon bs = Ok (DCompressed (map cloop_of_loop (p_loops p))).
Proof. exact (roundtrip_polygon_exact piqi_exact_holds f64_bits_frombits_holds p bs). Qed.

(** the compressed format alone, at any level the encoder may choose *)
Theorem roundtrip_polygon_compressed_closed level p bs : 0 <= level <= 30 -> polygon_ok p ->
  Forall (fun l => l_vertices l <> []) (p_loops p) ->
  encode_polygon_compressed level p (polygon_xs p) = Some bs ->
  decode_polygon bs = Ok (DCompressed (map cloop_of_loop (p_loops p))).
Proof.
  intros Hl Hp Hne He. rewrite (roundtrip_polygon_compressed level p bs Hl (polygon_okc_of_ok p Hp) He).
  f_equal. f_equal. apply map_ext_in. intros l Hin.
  rewrite Forall_forall in Hne. destruct Hp as (Hls & _). rewrite Forall_forall in Hls. destruct (Hls l Hin) as (Hv & _).
  apply (cloop_view_exact piqi_exact_holds f64_bits_frombits_holds); auto. lia.
Qed.

(** * Zero coordinates of face centres (repaired by d20845c) and the remaining corner *)

(** (0,0,1), (1,0,0), (0,1,0): only (1,0,0) is bit for bit a face centre; the two others now
    travel in the off-centre list and the polygon comes back bit for bit *)
Definition face_centre_triangle : polygon :=
  mkpolygon [mkloop [(0, 0, 4607182418800017408); (4607182418800017408, 0, 0); (0, 4607182418800017408, 0)]
                    false 0 (mkrect 0 0 0 0)] false (mkrect 0 0 0 0).
Lemma zero_sign_roundtrip :
  polygon_ok face_centre_triangle /\
  exists bs, encode_polygon face_centre_triangle = Some bs /\
             decode_polygon bs = Ok (DCompressed (map cloop_of_loop (p_loops face_centre_triangle))).
Proof.
  split.
  - split; [|repeat split; cbn; lia]. repeat constructor; cbn; unfold u64; try lia; try discriminate; try reflexivity.
  - eexists. split; [vm_compute; reflexivity|]. vm_compute. reflexivity.
Qed.
(** before d20845c the detection compared with ==: (0,0,1) was accepted as the centre of face 2,
    whose reconstruction is (-0,-0,1) *)
Lemma zero_sign_old_refuted :
  let p := (0, 0, 4607182418800017408) in
  let c := s2_facePiQitoXYZ 2 0 0 0 in
  r3_Vector_eqb (vec_of_point p) c = true /\ point_of_vec c = (9223372036854775808, 9223372036854775808, 4607182418800017408)
  /\ x_level (xyz_face_siti p) = -1.
Proof. vm_compute. repeat split; reflexivity. Qed.

(** a loop without vertices inside a polygon comes back as the one-vertex empty loop, its depth
    and origin flag reset *)
Definition zero_vertex_polygon : polygon :=
  mkpolygon [mkloop [] true 1 (mkrect 0 0 0 0)] false (mkrect 0 0 0 0).
Lemma zero_vertex_loop_refuted :
  polygon_ok zero_vertex_polygon /\
  exists bs, encode_polygon zero_vertex_polygon = Some bs /\ decode_polygon bs = Ok (DCompressed [empty_cloop])
             /\ empty_cloop <> cloop_of_loop (mkloop [] true 1 (mkrect 0 0 0 0)).
Proof.
  split.
  - split; [|repeat split; cbn; lia]. repeat constructor; cbn; unfold u64; try lia; try discriminate; try reflexivity.
  - eexists. split; [vm_compute; reflexivity|]. split; [vm_compute; reflexivity|]. discriminate.
Qed.

(** the hypotheses hold on samples (they are not contradictory) *)
Example piqi_exact_sample :
  let v := vec_of_point (point_of_vec (s2_facePiQitoXYZ 3 12345 54321 17)) in
  s2_xyzToFaceSiTi (mk_s2_Point v) = (3, 202268672, 890003456, 17).
Proof. vm_compute. reflexivity. Qed.
