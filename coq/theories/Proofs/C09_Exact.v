(** C09 — from the byte-level round trip to "the same vertices": the float exactness step,
    the format choice of Polygon.encode, and the two refuted corners.

    Named hypotheses (explicit premises, Section variables; statements about float64 and
    about the two conversions of Base/GoPrim.v only, never about the Go code):
    - [H_piqi_exact]: whenever the cell-centre detection accepts a point at a level, the
      decoder's [facePiQitoXYZ] of the shifted (si,ti) is the very float vector the detection
      compared the point with ((pi+1/2)/2^level and si/2^31 are the same exact dyadic quotient);
    - [H_f64_eqb_bits]: a float that compares [==] to the float of a bit pattern, and is not
      zero, has that bit pattern;
    - [H_f64_frombits_bits]: [frombits (bits c) = c]. *)
From Coq Require Import ZArith List Bool Lia Floats.
From Geo Require Import Base.GoPrim Base.Bytes Gen.Codec Model.Codec.
From Geo Require Import Proofs.C09_Prims Proofs.C09_Lossless Proofs.C09_Compressed.
Import ListNotations.
Local Open Scope Z_scope.

Definition H_piqi_exact : Prop :=
  forall v face si ti level, s2_xyzToFaceSiTi (mk_s2_Point v) = (face, si, ti, level) -> 0 <= level ->
    s2_facePiQitoXYZ face (s2_siTitoPiQi si level) (s2_siTitoPiQi ti level) level
    = r3_Vector_Normalize (s2_Point_Vector (s2_faceSiTiToXYZ face si ti)).
Definition H_f64_eqb_bits : Prop :=
  forall x c, 0 <= x < 2 ^ 64 -> PrimFloat.eqb (go_float64frombits x) c = true ->
    PrimFloat.eqb (go_float64frombits x) 0 = false -> go_float64bits c = x.
Definition H_f64_frombits_bits : Prop := forall c, go_float64frombits (go_float64bits c) = c.

(** * The cell-centre detection always yields a face, and 32-bit si, ti *)
Lemma face_range r : 0 <= s2_face r < 6.
Proof.
  unfold s2_face, r3_Vector_LargestComponent.
  repeat match goal with |- context [if ?b then _ else _] => destruct b end; cbn; lia.
Qed.
Lemma stToSiTi_range s : u32 (s2_stToSiTi s).
Proof. unfold s2_stToSiTi. destruct (PrimFloat.ltb s 0); apply wrap_u32_range. Qed.

Lemma xyz_face_siti_ok p : point_ok p -> xfst_ok (xyz_face_siti p).
Proof.
  intros Hp. unfold xyz_face_siti, s2_xyzToFaceSiTi, s2_xyzToFaceUV.
  destruct (s2_validFaceXYZToUV _ _) as [u v]. cbv zeta.
  repeat match goal with |- context [if ?b then _ else _] => destruct b end;
  (split; [exact Hp|]; split; [apply face_range|]; split; apply stToSiTi_range).
Qed.

(** a level >= 0 is reported only after the exact comparison succeeded *)
Lemma xyz_level_nonneg_proj P :
  let r := s2_xyzToFaceSiTi P in
  0 <= snd r ->
  r3_Vector_eqb (s2_Point_Vector P)
    (r3_Vector_Normalize (s2_Point_Vector (s2_faceSiTiToXYZ (fst (fst (fst r))) (snd (fst (fst r))) (snd (fst r))))) = true.
Proof.
  unfold s2_xyzToFaceSiTi. destruct (s2_xyzToFaceUV (s2_Point_Vector P)) as [[f0 u] v]. cbv zeta.
  set (si := s2_stToSiTi (s2_uvToST u)). set (ti := s2_stToSiTi (s2_uvToST v)).
  set (lv := wrap_i64 (30 - s2_findLSBSetNonZero64 (wrap_u64 (Z.lor si 2147483648)))).
  set (lv2 := wrap_i64 (30 - s2_findLSBSetNonZero64 (wrap_u64 (Z.lor ti 2147483648)))).
  destruct ((lv <? 0) || negb (lv =? lv2)).
  - cbn [fst snd]. intros H. exfalso. lia.
  - set (c := r3_Vector_Normalize (s2_Point_Vector (s2_faceSiTiToXYZ f0 si ti))).
    destruct (r3_Vector_eqb (s2_Point_Vector P) c) eqn:E; cbn [fst snd].
    + intros _. exact E.
    + intros H. exfalso. lia.
Qed.
Lemma xyz_level_nonneg P f si ti lv : s2_xyzToFaceSiTi P = (f, si, ti, lv) -> 0 <= lv ->
  r3_Vector_eqb (s2_Point_Vector P) (r3_Vector_Normalize (s2_Point_Vector (s2_faceSiTiToXYZ f si ti))) = true.
Proof.
  intros E Hl. pose proof (xyz_level_nonneg_proj P) as H. cbv zeta in H. rewrite E in H. cbn [fst snd] in H. now apply H.
Qed.

Definition nonzero_coords (p : point) : Prop :=
  let '(x, y, z) := p in
  PrimFloat.eqb (go_float64frombits x) 0 = false /\ PrimFloat.eqb (go_float64frombits y) 0 = false
  /\ PrimFloat.eqb (go_float64frombits z) 0 = false.

Section Exact.
  Hypothesis Hpiqi : H_piqi_exact.

  (** the decoder recomputes exactly the vector the encoder compared the vertex with *)
  Lemma centre_is_compared_vector p : 0 <= x_level (xyz_face_siti p) ->
    let x := xyz_face_siti p in
    centre (x_level x) x = point_of_vec (r3_Vector_Normalize (s2_Point_Vector (s2_faceSiTiToXYZ (x_face x) (x_si x) (x_ti x))))
    /\ r3_Vector_eqb (vec_of_point p) (r3_Vector_Normalize (s2_Point_Vector (s2_faceSiTiToXYZ (x_face x) (x_si x) (x_ti x)))) = true.
  Proof.
    unfold xyz_face_siti. destruct (s2_xyzToFaceSiTi (mk_s2_Point (vec_of_point p))) as [[[f si] ti] lv] eqn:E.
    cbn [x_level x_face x_si x_ti]. intros Hl. split.
    - unfold centre. cbn [x_level x_face x_si x_ti]. now rewrite (Hpiqi _ _ _ _ _ E Hl).
    - exact (xyz_level_nonneg _ _ _ _ _ E Hl).
  Qed.

  (** Go [==] on every coordinate, always *)
  Theorem snapped_vertex_feq (Hrt : H_f64_frombits_bits) p level : x_level (xyz_face_siti p) = level -> 0 <= level ->
    r3_Vector_eqb (vec_of_point p) (vec_of_point (recon level (xyz_face_siti p))) = true.
  Proof.
    intros El Hl. unfold recon. rewrite El, Z.eqb_refl. subst level.
    destruct (centre_is_compared_vector p Hl) as (C & Q). cbv zeta in C, Q. rewrite C.
    set (c := r3_Vector_Normalize _) in *. destruct c as [cx cy cz].
    unfold point_of_vec, vec_of_point at 2. cbn [r3_Vector_X r3_Vector_Y r3_Vector_Z]. now rewrite !Hrt.
  Qed.

  (** bit for bit, unless a coordinate is zero *)
  Theorem snapped_vertex_exact (Hbits : H_f64_eqb_bits) p level : point_ok p -> nonzero_coords p ->
    x_level (xyz_face_siti p) = level -> 0 <= level -> recon level (xyz_face_siti p) = p.
  Proof.
    intros Hp Hnz El Hl. unfold recon. rewrite El, Z.eqb_refl. subst level.
    destruct (centre_is_compared_vector p Hl) as (C & Q). cbv zeta in C, Q. rewrite C.
    set (c := r3_Vector_Normalize _) in *. destruct c as [cx cy cz]. destruct p as [[x y] z].
    destruct Hp as (Hx & Hy & Hz). destruct Hnz as (Nx & Ny & Nz).
    unfold r3_Vector_eqb, vec_of_point in Q. cbn [r3_Vector_X r3_Vector_Y r3_Vector_Z] in Q.
    apply andb_true_iff in Q. destruct Q as [Q Qz]. apply andb_true_iff in Q. destruct Q as [Qx Qy].
    unfold point_of_vec. cbn [r3_Vector_X r3_Vector_Y r3_Vector_Z].
    now rewrite (Hbits x cx Hx Qx Nx), (Hbits y cy Hy Qy Ny), (Hbits z cz Hz Qz Nz).
  Qed.

  Theorem vertex_exact (Hbits : H_f64_eqb_bits) p level : point_ok p -> nonzero_coords p -> 0 <= level ->
    recon level (xyz_face_siti p) = p.
  Proof.
    intros Hp Hnz Hl. destruct (Z.eq_dec (x_level (xyz_face_siti p)) level) as [E|E].
    - now apply snapped_vertex_exact.
    - unfold recon. replace (x_level (xyz_face_siti p) =? level) with false by (symmetry; now apply Z.eqb_neq).
      unfold xyz_face_siti. destruct (s2_xyzToFaceSiTi _) as [[[f si] ti] lv]. reflexivity.
  Qed.
End Exact.

(** * Polygon.encode: whichever format is selected *)
Lemma snap_choice_range ls : 0 <= fst (snap_choice ls) <= 30.
Proof.
  unfold snap_choice.
  assert (H : forall l best, Forall (fun lv => 0 <= lv <= 30) l -> 0 <= fst best <= 30 ->
    0 <= fst (fold_left (fun (best : Z * Z) lv => let h := count_level lv ls in if snd best <? h then (lv, h) else best) l best) <= 30).
  { induction l as [|lv l IH]; intros best Hl Hb; cbn [fold_left]; auto.
    inversion Hl as [|? ? H1 H2]; subst. apply IH; auto. cbv zeta. destruct (snd best <? count_level lv ls); auto. }
  apply H; [|cbn; lia].
  apply Forall_forall. intros lv Hin. unfold zrange_up in Hin. apply in_map_iff in Hin. destruct Hin as (k & <- & Hk).
  apply in_seq in Hk. change (Z.to_nat (s2_MaxLevel + 1 - 0)) with 31%nat in Hk. lia.
Qed.

(** a polygon both formats can carry *)
Definition polygon_enc_ok (p : polygon) : Prop := polygon_ok p.

Lemma polygon_okc_of_ok p : polygon_ok p -> polygon_okc p.
Proof.
  intros (Hl & _). unfold polygon_okc. eapply Forall_impl; [|exact Hl].
  intros l (Hv & _ & Hd & Hb). split; [exact Hv|]. split.
  { eapply Forall_impl; [|exact Hv]. intros v Hv'. now apply xyz_face_siti_ok. }
  split; [|exact Hb]. change (2 ^ 63) with 9223372036854775808. change (2 ^ 32) with 4294967296 in Hd. lia.
Qed.

Theorem roundtrip_polygon p bs : polygon_ok p -> encode_polygon p = Some bs ->
  decode_polygon bs = Ok (DLossless p)
  \/ exists level, 0 <= level <= 30 /\ decode_polygon bs = Ok (DCompressed (map (cloop_view level) (p_loops p))).
Proof.
  intros Hp He. unfold encode_polygon in He. cbv zeta in He.
  pose proof (polygon_okc_of_ok p Hp) as Hc.
  destruct (num_vertices p =? 0).
  - right. exists s2_MaxLevel. split; [change s2_MaxLevel with 30; lia|].
    apply roundtrip_polygon_compressed; auto. change s2_MaxLevel with 30; lia.
  - pose proof (snap_choice_range (map x_level (concat (polygon_xs p)))) as R.
    destruct (snap_choice (map x_level (concat (polygon_xs p)))) as [level snapped]. cbn [fst] in R.
    destruct (use_compressed (num_vertices p) snapped).
    + right. exists level. split; auto. now apply roundtrip_polygon_compressed.
    + left. now apply roundtrip_polygon_lossless.
Qed.

(** encoding is a function of the value: two encodings of the same value are the same bytes *)
Theorem encode_deterministic p b1 b2 : encode_polygon p = Some b1 -> encode_polygon p = Some b2 -> b1 = b2.
Proof. congruence. Qed.

Section ExactPolygon.
  Hypothesis Hpiqi : H_piqi_exact.
  Hypothesis Hbits : H_f64_eqb_bits.

  Lemma cloop_view_exact level l : 0 <= level -> Forall point_ok (l_vertices l) -> Forall nonzero_coords (l_vertices l) ->
    l_vertices l <> [] -> cloop_view level l = cloop_of_loop l.
  Proof.
    intros Hl Hv Hnz Hne. unfold cloop_view, cloop_of_loop.
    replace (len (l_vertices l) =? 0) with false.
    2:{ symmetry. apply Z.eqb_neq. unfold len. destruct (l_vertices l); [contradiction|cbn; lia]. }
    f_equal. rewrite <- (map_id (l_vertices l)) at 2. apply map_ext_in. intros v Hin.
    rewrite Forall_forall in Hv, Hnz. apply vertex_exact; auto.
  Qed.

  (** the full statement for polygons whose loops have vertices and whose coordinates are not zero *)
  Theorem roundtrip_polygon_exact p bs : polygon_ok p ->
    Forall (fun l => l_vertices l <> [] /\ Forall nonzero_coords (l_vertices l)) (p_loops p) ->
    encode_polygon p = Some bs ->
    decode_polygon bs = Ok (DLossless p) \/ decode_polygon bs = Ok (DCompressed (map cloop_of_loop (p_loops p))).
  Proof.
    intros Hp Hnz He. destruct (roundtrip_polygon p bs Hp He) as [H|(level & Hl & H)]; [now left|right].
    rewrite H. f_equal. f_equal. apply map_ext_in. intros l Hin.
    rewrite Forall_forall in Hnz. destruct (Hnz l Hin) as (Hne & Hz).
    destruct Hp as (Hls & _). rewrite Forall_forall in Hls. destruct (Hls l Hin) as (Hv & _).
    apply cloop_view_exact; auto. lia.
  Qed.
End ExactPolygon.

(** * The two corners where the full-strength statement fails on the unchanged tree *)

(** a zero coordinate of a face centre changes sign: (0,0,1), (1,0,0), (0,1,0) come back as
    (-0,-0,1), (1,0,0), (-0,1,0) *)
Definition face_centre_triangle : polygon :=
  mkpolygon [mkloop [(0, 0, 4607182418800017408); (4607182418800017408, 0, 0); (0, 4607182418800017408, 0)]
                    false 0 (mkrect 0 0 0 0)] false (mkrect 0 0 0 0).
Lemma zero_sign_refuted :
  polygon_ok face_centre_triangle /\
  encode_polygon face_centre_triangle = Some [4; 0; 1; 3; 8; 6; 7; 0; 0; 0; 0; 0] /\
  decode_polygon [4; 0; 1; 3; 8; 6; 7; 0; 0; 0; 0; 0] =
    Ok (DCompressed [mkcloop [(9223372036854775808, 9223372036854775808, 4607182418800017408);
                              (4607182418800017408, 0, 0);
                              (9223372036854775808, 4607182418800017408, 0)] false 0 None]).
Proof.
  split; [|split].
  - split; [|repeat split; cbn; lia]. repeat constructor; cbn; unfold u64; try lia; try discriminate.
  - vm_compute. reflexivity.
  - vm_compute. reflexivity.
Qed.

(** a loop without vertices inside a polygon comes back as the one-vertex empty loop, its depth
    and origin flag reset *)
Definition zero_vertex_polygon : polygon :=
  mkpolygon [mkloop [] true 1 (mkrect 0 0 0 0)] false (mkrect 0 0 0 0).
Lemma zero_vertex_loop_refuted :
  polygon_ok zero_vertex_polygon /\
  exists bs, encode_polygon zero_vertex_polygon = Some bs /\ decode_polygon bs = Ok (DCompressed [empty_cloop])
             /\ empty_cloop <> cloop_of_loop (mkloop [] true 1 (mkrect 0 0 0 0)).
Proof.
  split.
  - split; [|repeat split; cbn; lia]. repeat constructor; cbn; unfold u64; try lia; try discriminate.
  - eexists. split; [vm_compute; reflexivity|]. split; [vm_compute; reflexivity|]. discriminate.
Qed.

(** the hypotheses hold on samples (they are not contradictory) *)
Example piqi_exact_sample :
  let v := vec_of_point (point_of_vec (s2_facePiQitoXYZ 3 12345 54321 17)) in
  s2_xyzToFaceSiTi (mk_s2_Point v) = (3, 202268672, 890003456, 17).
Proof. vm_compute. reflexivity. Qed.
