(** C12: the statements of Props/C12.v in their final form (for every valid id, as decided by
    the translated IsValid / IsLeaf), assembled from the files on structured ids. *)
From Coq Require Import ZArith List Bool Lia Floats.
From Geo Require Import Base.GoPrim Gen.CellGeom
  Proofs.C12_Hilbert Proofs.C12_Ids Proofs.C12_Children Proofs.C12_Valid.
Import ListNotations.
Local Open Scope Z_scope.

Theorem children_direct c : 0 <= c < 2 ^ 64 ->
  s2_CellID_IsValid c = true -> s2_CellID_IsLeaf c = false ->
  s2_Cell_Children (s2_CellFromCellID c) = (map s2_CellFromCellID (s2_CellID_Children c), true).
Proof.
  intros Hc Hv Hl. destruct (valid_nonleaf_is_struct c Hc Hv Hl) as (K & e & -> & Hok).
  apply children_direct_struct. exact Hok.
Qed.

(** a leaf has no children: Children reports false *)
Theorem children_leaf c : s2_CellID_IsLeaf c = true ->
  snd (s2_Cell_Children (s2_CellFromCellID c)) = false.
Proof.
  intros Hl. unfold s2_Cell_Children.
  replace (s2_Cell_id (s2_CellFromCellID c)) with c by reflexivity.
  rewrite Hl. reflexivity.
Qed.

(** the hypotheses are satisfiable: face cell 0 (id 2^60), its level-1 child and a level-29 cell *)
Example children_direct_nonvacuous :
  (0 <= 1152921504606846976 < 2 ^ 64 /\ s2_CellID_IsValid 1152921504606846976 = true /\
   s2_CellID_IsLeaf 1152921504606846976 = false) /\
  (s2_CellID_IsValid 9882600488333328172 = true /\ s2_CellID_IsLeaf 9882600488333328172 = false).
Proof. vm_compute. repeat split; congruence. Qed.

(** the four children are valid ids one level down, in increasing order, tiling the parent's id range *)
Theorem children_ids_tile c : 0 <= c < 2 ^ 64 ->
  s2_CellID_IsValid c = true -> s2_CellID_IsLeaf c = false ->
  exists c0 c1 c2 c3, s2_CellID_Children c = [c0; c1; c2; c3] /\
    Forall (fun x => s2_CellID_IsValid x = true /\ s2_CellID_Level x = s2_CellID_Level c + 1) [c0; c1; c2; c3] /\
    s2_CellID_RangeMin c0 = s2_CellID_RangeMin c /\ s2_CellID_RangeMax c3 = s2_CellID_RangeMax c /\
    s2_CellID_RangeMax c0 + 2 = s2_CellID_RangeMin c1 /\ s2_CellID_RangeMax c1 + 2 = s2_CellID_RangeMin c2 /\
    s2_CellID_RangeMax c2 + 2 = s2_CellID_RangeMin c3.
Proof.
  intros Hc Hv Hl. destruct (valid_nonleaf_is_struct c Hc Hv Hl) as (K & e & -> & Hok).
  assert (P0 : 0 <= 0 < 4) by lia. assert (P1 : 0 <= 1 < 4) by lia.
  assert (P2 : 0 <= 2 < 4) by lia. assert (P3 : 0 <= 3 < 4) by lia.
  pose proof (sid_ok_child K e 0 Hok P0) as O0. pose proof (sid_ok_child K e 1 Hok P1) as O1.
  pose proof (sid_ok_child K e 2 Hok P2) as O2. pose proof (sid_ok_child K e 3 Hok P3) as O3.
  rewrite Z.add_0_r in O0.
  exists (sid (4 * K) e), (sid (4 * K + 1) e), (sid (4 * K + 2) e), (sid (4 * K + 3) e).
  split; [apply children_ids_spec; exact Hok|].
  split.
  - rewrite (level_spec K (S e) Hok).
    repeat constructor; try (apply struct_is_valid; assumption);
      rewrite level_spec by assumption; lia.
  - unfold s2_CellID_RangeMin, s2_CellID_RangeMax.
    rewrite !lsb_spec by assumption.
    assert (He : (S e <= 30)%nat) by apply Hok.
    pose proof (pow4_lt_64 (S e) He) as PS. pose proof (pow4_pos e) as Pe.
    pose proof (sid_range' K (S e) Hok) as R. pose proof (sid_range' (4 * K) e O0) as R0.
    pose proof (sid_range' (4 * K + 1) e O1) as R1. pose proof (sid_range' (4 * K + 2) e O2) as R2.
    pose proof (sid_range' (4 * K + 3) e O3) as R3.
    assert (G : forall k, 0 <= k -> 4 ^ Z.of_nat e <= sid k e) by (intros k Hk; unfold sid; nia).
    assert (GS : 4 ^ Z.of_nat (S e) <= sid K (S e)) by (unfold sid; destruct Hok as [_ HK]; nia).
    assert (HK : 0 <= K) by apply Hok.
    pose proof (G (4 * K) ltac:(lia)). pose proof (G (4 * K + 1) ltac:(lia)).
    pose proof (G (4 * K + 2) ltac:(lia)). pose proof (G (4 * K + 3) ltac:(lia)).
    autorewrite with wrapdb.
    change (2 ^ 60) with 1152921504606846976 in *.
    rewrite !wrap_u64_small by (change (2 ^ 64) with 18446744073709551616; lia).
    unfold sid. rewrite pow4_S. repeat split; ring.
Qed.
