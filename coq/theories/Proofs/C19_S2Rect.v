(** C19, s2.Rect: latitude r1.Interval x longitude s1.Interval.
    A point is a pair (lat, x): lat a float latitude with |lat| <= pi/2, x a real point of the
    longitude circle ([inrange], Proofs/C19_S1.v).  Membership is defined on ranks, independently
    of the code's ContainsLatLng. *)
From Coq Require Import ZArith Reals Floats Lra Bool List.
From Flocq Require Import Core.Core IEEE754.BinarySingleNaN IEEE754.PrimFloat.
From Geo Require Import Base.GoPrim Base.F64 Gen.R1 Gen.S1 Gen.S2Rect.
From Geo Require Import Proofs.C19_R1 Proofs.C19_R2 Proofs.C19_S1 Proofs.C19_S1_Union Proofs.C19_S1_Inter
  Proofs.C19_S1_Rel Proofs.C19_S1_Ops.
Local Open Scope R_scope.

Definition HPI : PrimFloat.float := (0x1.921fb54442d18p+00)%float.
Definition NHPI : PrimFloat.float := (-0x1.921fb54442d18p+00)%float.
Definition rhp : R := rank HPI.
Lemma rank_NHPI : rank NHPI = - rhp.
Proof. change NHPI with (PrimFloat.opp HPI). apply rank_opp. Qed.
Lemma rhp_pos : 0 < rhp.
Proof.
  assert (H : PrimFloat.ltb NHPI HPI = true) by reflexivity.
  apply ltb_true_iff in H; try reflexivity. rewrite rank_NHPI in H. unfold rhp in *. lra.
Qed.
Lemma leb_abs_hpi x :
  PrimFloat.leb (PrimFloat.abs x) HPI = true <-> nonnan x /\ - rhp <= rank x <= rhp.
Proof.
  split.
  - intros H. destruct (go_isnan x) eqn:N.
    + rewrite leb_nan_l in H by (rewrite isnan_abs; exact N). discriminate.
    + split; [exact N|]. apply leb_true_iff in H; [|apply nonnan_abs; exact N|reflexivity].
      rewrite rank_abs in H. fold rhp in H. unfold Rabs in H.
      destruct (Rcase_abs (rank x)); lra.
  - intros [N H]. apply leb_true_iff; [apply nonnan_abs; exact N|reflexivity|].
    rewrite rank_abs. fold rhp. unfold Rabs. destruct (Rcase_abs (rank x)); lra.
Qed.

(** * Specification side *)
Definition vlat (p : PrimFloat.float) : Prop := nonnan p /\ - rhp <= rank p <= rhp.
Definition valid_ll (ll : s2_LatLng) : Prop := vlat (s2_LatLng_Lat ll) /\ vpt (s2_LatLng_Lng ll).
Definition valid_s2rect (r : s2_Rect) : Prop :=
  vlat (r1_Interval_Lo (s2_Rect_Lat r)) /\ vlat (r1_Interval_Hi (s2_Rect_Lat r)) /\
  valid_s1 (s2_Rect_Lng r) /\
  r1_Interval_IsEmpty (s2_Rect_Lat r) = s1_Interval_IsEmpty (s2_Rect_Lng r).
Definition mem_s2rect (r : s2_Rect) (lat : PrimFloat.float) (x : R) : Prop :=
  mem1 (s2_Rect_Lat r) lat /\ mem_s1 (s2_Rect_Lng r) x.

Lemma valid_lat_wf r : valid_s2rect r -> wf1 (s2_Rect_Lat r).
Proof. intros [[? ?] [[? ?] _]]. split; assumption. Qed.

Lemma s2_latlng_valid_iff ll : s2_LatLng_IsValid ll = true <-> valid_ll ll.
Proof.
  unfold s2_LatLng_IsValid, valid_ll, vlat, vpt, inrange, s1_Angle_Radians.
  rewrite andb_true_iff. fold HPI. fold PI.
  rewrite leb_abs_hpi, leb_abs_pi. tauto.
Qed.

Lemma s2rect_valid_iff r : s2_Rect_IsValid r = true <-> valid_s2rect r.
Proof.
  unfold s2_Rect_IsValid, valid_s2rect, vlat. rewrite !andb_true_iff. fold HPI.
  rewrite !leb_abs_hpi, valid_iff, Bool.eqb_true_iff. tauto.
Qed.

(** s1 facts used for the validity of results *)
Lemma s1_nonempty_witness i : valid_s1 i -> s1_Interval_IsEmpty i = false ->
  exists x, inrange x /\ mem_s1 i x.
Proof.
  destruct i as [lo hi]. intros Hv E. open_valid. s1_unfold. reflectR E.
  exists (rank lo). split; [lra|]. unfold mem_s1. cbn [s1_Interval_Lo s1_Interval_Hi].
  destruct (normR_cases (rank lo)) as [[? ->]|[? ->]]; unfold memR; lra.
Qed.
Lemma s1_mem_nonempty i x : valid_s1 i -> inrange x -> mem_s1 i x -> s1_Interval_IsEmpty i = false.
Proof.
  intros V Hx Hm. destruct (s1_Interval_IsEmpty i) eqn:E; [|reflexivity].
  exfalso. apply (proj1 (s1_isempty_spec i V) E x Hx Hm).
Qed.
Lemma s1_union_isempty a b : valid_s1 a -> valid_s1 b ->
  s1_Interval_IsEmpty (s1_Interval_Union a b) = s1_Interval_IsEmpty a && s1_Interval_IsEmpty b.
Proof.
  intros Va Vb. pose proof (s1_union_valid a b Va Vb) as Vu.
  destruct (s1_Interval_IsEmpty b) eqn:Eb.
  - unfold s1_Interval_Union. rewrite Eb. rewrite andb_true_r. reflexivity.
  - rewrite andb_false_r. destruct (s1_nonempty_witness b Vb Eb) as [x [Hx Hm]].
    apply (s1_mem_nonempty _ x Vu Hx). apply s1_union_sound; auto.
Qed.
Lemma s1_addpoint_nonempty i p : valid_s1 i -> vpt p ->
  s1_Interval_IsEmpty (s1_Interval_AddPoint i p) = false.
Proof.
  intros V Hp. destruct Hp as [Np Rp].
  apply (s1_mem_nonempty _ (rank p)); [apply s1_addpoint_valid; assumption|assumption|].
  apply s1_addpoint_sound; auto. split; assumption.
Qed.

(** * ContainsLatLng is membership *)
Lemma s2rect_contains_latlng r ll : valid_s2rect r ->
  (s2_Rect_ContainsLatLng r ll = true <->
   valid_ll ll /\ mem_s2rect r (s2_LatLng_Lat ll) (rank (s2_LatLng_Lng ll))).
Proof.
  intros V. pose proof (valid_lat_wf r V) as W. destruct V as [_ [_ [Vl _]]].
  unfold s2_Rect_ContainsLatLng, mem_s2rect, s1_Angle_Radians.
  destruct (s2_LatLng_IsValid ll) eqn:E; simpl.
  - apply s2_latlng_valid_iff in E. destruct E as [[Nl Rl] Hp].
    rewrite andb_true_iff, (contains_mem _ _ W Nl), (s1_contains_mem _ _ Vl Hp).
    unfold mem_s1f, valid_ll, vlat. tauto.
  - split; [discriminate|]. intros [H _]. apply s2_latlng_valid_iff in H. congruence.
Qed.

Lemma s2rect_isempty_spec r : valid_s2rect r ->
  (s2_Rect_IsEmpty r = true <-> forall lat x, vlat lat -> inrange x -> ~ mem_s2rect r lat x).
Proof.
  intros V. pose proof (valid_lat_wf r V) as W. destruct V as [[Nl Rl] [_ [Vl E]]].
  unfold s2_Rect_IsEmpty, mem_s2rect. split.
  - intros H lat x [Nlat _] Hx [M _]. apply (proj1 (isempty_spec _ W) H lat Nlat M).
  - intros Hall. destruct (r1_Interval_IsEmpty (s2_Rect_Lat r)) eqn:Ex; [reflexivity|exfalso].
    destruct (r1_nonempty_witness _ W Ex) as [N0 M0].
    destruct (s1_nonempty_witness _ Vl (eq_sym E)) as [x [Hx Mx]].
    apply (Hall (r1_Interval_Lo (s2_Rect_Lat r)) x); [split; assumption|assumption|].
    split; assumption.
Qed.

(** * Empty / Full *)
Lemma s2rect_empty_valid : valid_s2rect s2_EmptyRect.
Proof. apply s2rect_valid_iff. reflexivity. Qed.
Lemma s2rect_full_valid : valid_s2rect s2_FullRect.
Proof. apply s2rect_valid_iff. reflexivity. Qed.
Lemma s2rect_empty_no_member lat x : nonnan lat -> ~ mem_s2rect s2_EmptyRect lat x.
Proof. intros N [H _]. apply (r1_empty_no_member lat N H). Qed.
Lemma s2rect_full_every_member lat x : vlat lat -> inrange x -> mem_s2rect s2_FullRect lat x.
Proof.
  intros [N R] Hx. split.
  - unfold mem1. simpl. change (-0x1.921fb54442d18p+00)%float with NHPI.
    change (0x1.921fb54442d18p+00)%float with HPI. rewrite rank_NHPI. fold rhp. lra.
  - apply (proj1 (s1_isfull_spec _ s1_full_valid) s1_full_isfull x Hx).
Qed.

(** latitude bounds are preserved by min/max of bounded values *)
Lemma vlat_fmin a b : vlat a -> vlat b -> vlat (go_fmin a b).
Proof.
  intros [Na Ra] [Nb Rb]. destruct (go_fmin_rank a b Na Nb) as [N E]. split; [assumption|].
  rewrite E. unfold Rmin. destruct (Rle_dec (rank a) (rank b)); lra.
Qed.
Lemma vlat_fmax a b : vlat a -> vlat b -> vlat (go_fmax a b).
Proof.
  intros [Na Ra] [Nb Rb]. destruct (go_fmax_rank a b Na Nb) as [N E]. split; [assumption|].
  rewrite E. unfold Rmax. destruct (Rle_dec (rank a) (rank b)); lra.
Qed.

(** * Union *)
Lemma s2rect_union_valid a b : valid_s2rect a -> valid_s2rect b -> valid_s2rect (s2_Rect_Union a b).
Proof.
  intros Va Vb. pose proof (valid_lat_wf a Va) as Wa. pose proof (valid_lat_wf b Vb) as Wb.
  destruct Va as [La [Ha [Vla Ea]]], Vb as [Lb [Hb [Vlb Eb]]].
  unfold s2_Rect_Union, valid_s2rect. cbn [s2_Rect_Lat s2_Rect_Lng].
  rewrite r1_union_isempty, s1_union_isempty, Ea, Eb by assumption.
  repeat split; try (apply s1_union_valid; assumption);
  destruct (s2_Rect_Lat a) as [al ah], (s2_Rect_Lat b) as [bl bh]; unfold r1_Interval_Union;
  cbn [r1_Interval_Lo r1_Interval_Hi] in *;
  destruct (r1_Interval_IsEmpty (mk_r1_Interval al ah)); try apply Lb; try apply Hb;
  destruct (r1_Interval_IsEmpty (mk_r1_Interval bl bh)); cbn [r1_Interval_Lo r1_Interval_Hi];
  try apply La; try apply Ha;
  try (apply (vlat_fmin al bl La Lb)); try (apply (vlat_fmax ah bh Ha Hb)).
Qed.

Lemma s2rect_union_sound a b lat x : valid_s2rect a -> valid_s2rect b -> nonnan lat -> inrange x ->
  mem_s2rect a lat x \/ mem_s2rect b lat x -> mem_s2rect (s2_Rect_Union a b) lat x.
Proof.
  intros Va Vb N Hx H. pose proof (valid_lat_wf a Va) as Wa. pose proof (valid_lat_wf b Vb) as Wb.
  destruct Va as [_ [_ [Vla _]]], Vb as [_ [_ [Vlb _]]].
  unfold s2_Rect_Union, mem_s2rect in *. cbn [s2_Rect_Lat s2_Rect_Lng].
  split; [apply union_sound|apply s1_union_sound]; auto; tauto.
Qed.

(** * Intersection *)
Lemma s2rect_intersection_valid a b : valid_s2rect a -> valid_s2rect b ->
  valid_s2rect (s2_Rect_Intersection a b).
Proof.
  intros Va Vb. pose proof (valid_lat_wf a Va) as Wa. pose proof (valid_lat_wf b Vb) as Wb.
  destruct Va as [La [Ha [Vla Ea]]], Vb as [Lb [Hb [Vlb Eb]]].
  unfold s2_Rect_Intersection.
  destruct (r1_Interval_IsEmpty (r1_Interval_Intersection (s2_Rect_Lat a) (s2_Rect_Lat b))) eqn:Ex;
  [apply s2rect_empty_valid|].
  destruct (s1_Interval_IsEmpty (s1_Interval_Intersection (s2_Rect_Lng a) (s2_Rect_Lng b))) eqn:Ey;
  [apply s2rect_empty_valid|].
  cbn [orb]. unfold valid_s2rect. cbn [s2_Rect_Lat s2_Rect_Lng]. rewrite Ex, Ey.
  repeat split; try (apply s1_intersection_valid; assumption);
  destruct (s2_Rect_Lat a) as [al ah], (s2_Rect_Lat b) as [bl bh]; unfold r1_Interval_Intersection;
  cbn [r1_Interval_Lo r1_Interval_Hi] in *;
  try (apply (vlat_fmin ah bh Ha Hb)); try (apply (vlat_fmax al bl La Lb)).
Qed.

Lemma s2rect_intersection_complete a b lat x : valid_s2rect a -> valid_s2rect b -> nonnan lat -> inrange x ->
  mem_s2rect a lat x -> mem_s2rect b lat x -> mem_s2rect (s2_Rect_Intersection a b) lat x.
Proof.
  intros Va Vb N Hx [Ma1 Ma2] [Mb1 Mb2].
  pose proof (valid_lat_wf a Va) as Wa. pose proof (valid_lat_wf b Vb) as Wb.
  destruct Va as [_ [_ [Vla _]]], Vb as [_ [_ [Vlb _]]].
  assert (M1 : mem1 (r1_Interval_Intersection (s2_Rect_Lat a) (s2_Rect_Lat b)) lat)
    by (apply intersection_exact; auto).
  assert (M2 : mem_s1 (s1_Interval_Intersection (s2_Rect_Lng a) (s2_Rect_Lng b)) x)
    by (apply s1_intersection_complete; auto).
  unfold s2_Rect_Intersection.
  rewrite (r1_mem_nonempty _ lat (intersection_wf _ _ Wa Wb) N M1).
  rewrite (s1_mem_nonempty _ x (s1_intersection_valid _ _ Vla Vlb) Hx M2).
  cbn [orb]. split; assumption.
Qed.

Lemma s2rect_intersection_within a b lat x : valid_s2rect a -> valid_s2rect b -> nonnan lat -> inrange x ->
  mem_s2rect (s2_Rect_Intersection a b) lat x -> mem_s2rect a lat x \/ mem_s2rect b lat x.
Proof.
  intros Va Vb N Hx. pose proof (valid_lat_wf a Va) as Wa. pose proof (valid_lat_wf b Vb) as Wb.
  destruct Va as [_ [_ [Vla _]]], Vb as [_ [_ [Vlb _]]].
  unfold s2_Rect_Intersection.
  destruct (r1_Interval_IsEmpty _ || s1_Interval_IsEmpty _).
  - intros H. exfalso. apply (s2rect_empty_no_member lat x N H).
  - intros [M1 M2]. cbn [s2_Rect_Lat s2_Rect_Lng] in *.
    apply intersection_exact in M1; auto. destruct M1 as [? ?].
    destruct (s1_intersection_within _ _ x Vla Vlb Hx M2); [left|right]; split; assumption.
Qed.

(** the latitude side is always exact *)
Lemma s2rect_intersection_lat_exact a b lat x : valid_s2rect a -> valid_s2rect b -> nonnan lat -> inrange x ->
  mem_s2rect (s2_Rect_Intersection a b) lat x -> mem1 (s2_Rect_Lat a) lat /\ mem1 (s2_Rect_Lat b) lat.
Proof.
  intros Va Vb N Hx. pose proof (valid_lat_wf a Va) as Wa. pose proof (valid_lat_wf b Vb) as Wb.
  unfold s2_Rect_Intersection.
  destruct (r1_Interval_IsEmpty _ || s1_Interval_IsEmpty _).
  - intros H. exfalso. apply (s2rect_empty_no_member lat x N H).
  - intros [M1 _]. cbn [s2_Rect_Lat] in M1. apply intersection_exact in M1; auto.
Qed.

(** * Contains (rect) is the subset relation; Intersects is existence of a common point *)
Lemma s2rect_contains_spec a b : valid_s2rect a -> valid_s2rect b ->
  (s2_Rect_Contains a b = true <->
   forall lat x, nonnan lat -> inrange x -> mem_s2rect b lat x -> mem_s2rect a lat x).
Proof.
  intros Va Vb. pose proof (valid_lat_wf a Va) as Wa. pose proof (valid_lat_wf b Vb) as Wb.
  destruct Va as [_ [_ [Vla _]]], Vb as [_ [_ [Vlb Eb]]].
  unfold s2_Rect_Contains, mem_s2rect. rewrite andb_true_iff.
  rewrite (contains_interval_spec _ _ Wa Wb), (s1_contains_interval_spec _ _ Vla Vlb). split.
  - intros [H1 H2] lat x N Hx [M1 M2]. split; [apply H1|apply H2]; assumption.
  - intros Hall. destruct (r1_Interval_IsEmpty (s2_Rect_Lat b)) eqn:Ex.
    + split.
      * intros p Np Hm. exfalso. apply (proj1 (isempty_spec _ Wb) Ex p Np Hm).
      * intros x Hx Hm. exfalso. apply (proj1 (s1_isempty_spec _ Vlb) (eq_sym Eb) x Hx Hm).
    + destruct (r1_nonempty_witness _ Wb Ex) as [N0 M0].
      destruct (s1_nonempty_witness _ Vlb (eq_sym Eb)) as [x0 [Hx0 Mx0]].
      split.
      * intros p Np Hm. apply (Hall p x0 Np Hx0). split; assumption.
      * intros x Hx Hm. apply (Hall _ x N0 Hx). split; assumption.
Qed.

Lemma s2rect_intersects_spec a b : valid_s2rect a -> valid_s2rect b ->
  (s2_Rect_Intersects a b = true <->
   exists lat x, nonnan lat /\ inrange x /\ mem_s2rect a lat x /\ mem_s2rect b lat x).
Proof.
  intros Va Vb. pose proof (valid_lat_wf a Va) as Wa. pose proof (valid_lat_wf b Vb) as Wb.
  destruct Va as [_ [_ [Vla _]]], Vb as [_ [_ [Vlb _]]].
  unfold s2_Rect_Intersects, mem_s2rect. rewrite andb_true_iff.
  rewrite (intersects_spec _ _ Wa Wb), (s1_intersects_spec _ _ Vla Vlb). split.
  - intros [[p [Np [? ?]]] [x [Hx [? ?]]]]. exists p, x. tauto.
  - intros [p [x [Np [Hx [[? ?] [? ?]]]]]]. split; [exists p|exists x]; tauto.
Qed.

(** * AddPoint *)
Lemma vlat_addpoint i p : vlat (r1_Interval_Lo i) -> vlat (r1_Interval_Hi i) -> vlat p ->
  vlat (r1_Interval_Lo (r1_Interval_AddPoint i p)) /\ vlat (r1_Interval_Hi (r1_Interval_AddPoint i p)).
Proof.
  destruct i as [lo hi]. cbn [r1_Interval_Lo r1_Interval_Hi]. intros L H P.
  unfold r1_Interval_AddPoint, r1_Interval_IsEmpty. cbn [r1_Interval_Lo r1_Interval_Hi].
  destruct (PrimFloat.ltb hi lo); [split; assumption|].
  destruct (PrimFloat.ltb p lo); [split; assumption|].
  destruct (PrimFloat.ltb hi p); split; assumption.
Qed.

Lemma s2rect_addpoint_valid r ll : valid_s2rect r -> valid_s2rect (s2_Rect_AddPoint r ll).
Proof.
  intros V. unfold s2_Rect_AddPoint. destruct (s2_LatLng_IsValid ll) eqn:E; [|exact V].
  apply s2_latlng_valid_iff in E. destruct E as [Hlat Hlng].
  pose proof (valid_lat_wf r V) as W. destruct V as [L [H [Vl _]]].
  cbn [negb]. unfold valid_s2rect, s1_Angle_Radians. cbn [s2_Rect_Lat s2_Rect_Lng].
  rewrite (r1_addpoint_nonempty _ _ W (proj1 Hlat)), (s1_addpoint_nonempty _ _ Vl Hlng).
  destruct (vlat_addpoint _ _ L H Hlat) as [A1 A2].
  split; [exact A1|]. split; [exact A2|]. split; [|reflexivity].
  apply s1_addpoint_valid; [assumption|apply Hlng].
Qed.

Lemma s2rect_addpoint_sound r ll lat x : valid_s2rect r -> valid_ll ll -> nonnan lat -> inrange x ->
  mem_s2rect r lat x \/ (rank lat = rank (s2_LatLng_Lat ll) /\ normR x = normR (rank (s2_LatLng_Lng ll))) ->
  mem_s2rect (s2_Rect_AddPoint r ll) lat x.
Proof.
  intros V Hll N Hx H. pose proof (valid_lat_wf r V) as W. destruct V as [_ [_ [Vl _]]].
  unfold s2_Rect_AddPoint. rewrite (proj2 (s2_latlng_valid_iff ll) Hll). cbn [negb].
  destruct Hll as [[Nlat _] Hlng]. unfold mem_s2rect, s1_Angle_Radians in *. cbn [s2_Rect_Lat s2_Rect_Lng].
  split; [apply addpoint_sound|apply s1_addpoint_sound]; auto; tauto.
Qed.

(** * PolarClosure *)
Lemma s2rect_polar_closure_valid r : valid_s2rect r -> valid_s2rect (s2_Rect_PolarClosure r).
Proof.
  intros V. unfold s2_Rect_PolarClosure.
  destruct (PrimFloat.eqb _ _ || PrimFloat.eqb _ _) eqn:E; [|exact V].
  destruct V as [[Nl Rl] [[Nh Rh] [Vl Ee]]].
  unfold valid_s2rect. cbn [s2_Rect_Lat s2_Rect_Lng].
  split; [split; assumption|]. split; [split; assumption|]. split; [apply s1_full_valid|].
  change (s1_Interval_IsEmpty s1_FullInterval) with false.
  destruct (s2_Rect_Lat r) as [lo hi]. unfold r1_Interval_IsEmpty. cbn [r1_Interval_Lo r1_Interval_Hi] in *.
  fold NHPI in E. fold HPI in E. apply orb_true_iff in E.
  apply ltb_false_iff; [assumption|assumption|].
  destruct E as [E|E]; apply eqb_true_iff in E; try assumption; try reflexivity;
  rewrite ?rank_NHPI in E; fold rhp in E; lra.
Qed.

Lemma s2rect_polar_closure_sound r lat x : valid_s2rect r -> inrange x ->
  mem_s2rect r lat x -> mem_s2rect (s2_Rect_PolarClosure r) lat x.
Proof.
  intros V Hx [M1 M2]. unfold s2_Rect_PolarClosure.
  destruct (PrimFloat.eqb _ _ || PrimFloat.eqb _ _); [|split; assumption].
  split; [exact M1|]. cbn [s2_Rect_Lng].
  apply (proj1 (s1_isfull_spec _ s1_full_valid) s1_full_isfull x Hx).
Qed.

(** hypotheses satisfiable *)
Example ex_s2rect_valid_wrapping :
  valid_s2rect (mk_s2_Rect (mk_r1_Interval (-1)%float HPI) (mk_s1_Interval 3%float (-3)%float)).
Proof. apply s2rect_valid_iff. reflexivity. Qed.
Example ex_s2rect_valid_noncanonical_empty :
  valid_s2rect (mk_s2_Rect (mk_r1_Interval HPI 0%float) s1_EmptyInterval).
Proof. apply s2rect_valid_iff. reflexivity. Qed.
