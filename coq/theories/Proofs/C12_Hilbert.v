(** C12: facts about the level-by-level Hilbert decode (Model/HilbertDecode.v) used by
    [children_direct]: effect of a "0" and of a "2" level, closed form of a run of
    trailing "0" levels, and the decode of a structured id (2K+1)*4^e. *)
From Coq Require Import ZArith List Bool Lia.
From Geo Require Import Base.GoPrim Model.HilbertDecode.
Import ListNotations.
Local Open Scope Z_scope.

Lemma triple_eq {A B C} (a a' : A) (b b' : B) (c c' : C) :
  a = a' -> b = b' -> c = c' -> (a, b, c) = (a', b', c').
Proof. intros; subst; reflexivity. Qed.
Lemma quad_eq {A B C D} (a a' : A) (b b' : B) (c c' : C) (d d' : D) :
  a = a' -> b = b' -> c = c' -> d = d' -> (a, b, c, d) = (a', b', c', d').
Proof. intros; subst; reflexivity. Qed.

Lemma four_cases o : 0 <= o < 4 -> o = 0 \/ o = 1 \/ o = 2 \/ o = 3.
Proof. lia. Qed.

Ltac by_cases o H := destruct (four_cases o H) as [?|[?|[?|?]]]; subst o.

(** ** one level *)
Definition hd_a (o d : Z) : Z := Z.shiftr (nthZ (nthZ hd_posToIJ o []) d 0) 1.
Definition hd_b (o d : Z) : Z := Z.land (nthZ (nthZ hd_posToIJ o []) d 0) 1.
Definition hd_o (o d : Z) : Z := Z.lxor o (nthZ hd_posToOrientation d 0).

Lemma hd_step_eq i j o d : hd_step (i, j, o) d = (2 * i + hd_a o d, 2 * j + hd_b o d, hd_o o d).
Proof. reflexivity. Qed.

(** evaluate the table look-ups once orientation and digit are literals *)
Ltac hd_eval :=
  repeat match goal with
  | |- context [hd_a ?o ?d] => let v := eval vm_compute in (hd_a o d) in change (hd_a o d) with v
  | |- context [hd_b ?o ?d] => let v := eval vm_compute in (hd_b o d) in change (hd_b o d) with v
  | |- context [hd_o ?o ?d] => let v := eval vm_compute in (hd_o o d) in change (hd_o o d) with v
  end.

Lemma hd_step_zero i j o : 0 <= o < 4 ->
  hd_step (i, j, o) 0 = (2 * i + o / 2, 2 * j + o / 2, Z.lxor o 1).
Proof. intros H. rewrite hd_step_eq. by_cases o H; hd_eval; reflexivity. Qed.

Lemma hd_step_two i j o : 0 <= o < 4 ->
  hd_step (i, j, o) 2 = (2 * i + (1 - o / 2), 2 * j + (1 - o / 2), o).
Proof. intros H. rewrite hd_step_eq. by_cases o H; hd_eval; reflexivity. Qed.

Lemma lxor1_div2 o : 0 <= o < 4 -> Z.lxor o 1 / 2 = o / 2 /\ 0 <= Z.lxor o 1 < 4 /\ Z.lxor (Z.lxor o 1) 1 = o.
Proof. intros H. by_cases o H; vm_compute; intuition congruence. Qed.

Definition st_ok (n : nat) (st : Z * Z * Z) : Prop :=
  let '(i, j, o) := st in 0 <= i < 2 ^ Z.of_nat n /\ 0 <= j < 2 ^ Z.of_nat n /\ 0 <= o < 4.

Lemma hd_step_ok n st d : st_ok n st -> 0 <= d < 4 -> st_ok (S n) (hd_step st d).
Proof.
  destruct st as [[i j] o]. intros (Hi & Hj & Ho) Hd.
  assert (E : 2 ^ Z.of_nat (S n) = 2 * 2 ^ Z.of_nat n).
  { rewrite Nat2Z.inj_succ, Z.pow_succ_r by lia. reflexivity. }
  rewrite hd_step_eq. unfold st_ok. rewrite E.
  by_cases o Ho; by_cases d Hd; hd_eval; lia.
Qed.

Lemma land3_range x : 0 <= Z.land x 3 < 4.
Proof. change 3 with (Z.ones 2). rewrite Z.land_ones by lia. apply Z.mod_pos_bound. reflexivity. Qed.

Lemma hd_state_ok n : forall x, st_ok n (hd_state n x).
Proof.
  induction n as [|n IH]; intros x.
  - unfold st_ok, hd_state. change (2 ^ Z.of_nat 0) with 1.
    change (Z.land x 1) with (Z.land x (Z.ones 1)). rewrite Z.land_ones by lia.
    pose proof (Z.mod_pos_bound x (2 ^ 1) eq_refl) as Hm. change (2 ^ 1) with 2 in *. lia.
  - cbn [hd_state]. apply hd_step_ok; [apply IH | apply land3_range].
Qed.

(** ** runs of "0" levels *)
Fixpoint hd_zeros (m : nat) (st : Z * Z * Z) : Z * Z * Z :=
  match m with O => st | S m' => hd_step (hd_zeros m' st) 0 end.

Lemma shiftr2_mul4 y : Z.shiftr (4 * y) 2 = y.
Proof. rewrite Z.shiftr_div_pow2 by lia. change (2 ^ 2) with 4. rewrite Z.mul_comm. apply Z.div_mul. lia. Qed.

Lemma land3_mul4 y d : 0 <= d < 4 -> Z.land (4 * y + d) 3 = d.
Proof.
  intros H. change 3 with (Z.ones 2). rewrite Z.land_ones by lia. change (2 ^ 2) with 4.
  rewrite Z.add_comm, Z.mul_comm, Z.mod_add by lia. apply Z.mod_small. lia.
Qed.

Lemma shiftr2_mul4_add y d : 0 <= d < 4 -> Z.shiftr (4 * y + d) 2 = y.
Proof.
  intros H. rewrite Z.shiftr_div_pow2 by lia. change (2 ^ 2) with 4.
  rewrite Z.add_comm, Z.mul_comm, Z.div_add by lia. rewrite Z.div_small by lia. lia.
Qed.

Lemma hd_state_digit n y d : 0 <= d < 4 ->
  hd_state (S n) (4 * y + d) = hd_step (hd_state n y) d.
Proof. intros H. cbn [hd_state]. rewrite shiftr2_mul4_add, land3_mul4 by assumption. reflexivity. Qed.

Lemma hd_state_zeros m : forall n x,
  hd_state (m + n) (x * 4 ^ Z.of_nat m) = hd_zeros m (hd_state n x).
Proof.
  induction m as [|m IH]; intros n x.
  - cbn. rewrite Z.mul_1_r. reflexivity.
  - rewrite Nat2Z.inj_succ, Z.pow_succ_r by lia.
    replace (x * (4 * 4 ^ Z.of_nat m)) with (4 * (x * 4 ^ Z.of_nat m) + 0) by ring.
    change (S m + n)%nat with (S (m + n)).
    rewrite hd_state_digit by lia. rewrite IH. reflexivity.
Qed.

Lemma hd_zeros_closed m : forall i j o, 0 <= o < 4 ->
  hd_zeros m (i, j, o) =
  (i * 2 ^ Z.of_nat m + (o / 2) * (2 ^ Z.of_nat m - 1),
   j * 2 ^ Z.of_nat m + (o / 2) * (2 ^ Z.of_nat m - 1),
   if Nat.even m then o else Z.lxor o 1).
Proof.
  induction m as [|m IH]; intros i j o Ho.
  - cbn [hd_zeros Nat.even]. change (2 ^ Z.of_nat 0) with 1. apply triple_eq; ring.
  - cbn [hd_zeros]. rewrite IH by assumption.
    rewrite Nat2Z.inj_succ, Z.pow_succ_r by lia.
    destruct (lxor1_div2 o Ho) as (E1 & R1 & E2).
    rewrite Nat.even_succ, <- Nat.negb_even.
    destruct (Nat.even m); cbn [negb].
    + rewrite hd_step_zero by assumption. apply triple_eq; ring.
    + rewrite hd_step_zero by assumption. rewrite E1, E2. apply triple_eq; ring.
Qed.

(** ** lowest set bit *)
Lemma land_opp_odd K : Z.land (2 * K + 1) (- (2 * K + 1)) = 1.
Proof.
  replace (- (2 * K + 1)) with (Z.lnot (2 * K)) by (unfold Z.lnot; lia).
  rewrite <- Z.ldiff_land. apply Z.bits_inj'. intros n Hn.
  rewrite Z.ldiff_spec.
  destruct (Z.eq_dec n 0) as [->|Hn0].
  - rewrite Z.testbit_odd_0, Z.testbit_even_0. reflexivity.
  - replace n with (Z.succ (n - 1)) by lia.
    rewrite Z.testbit_odd_succ, Z.testbit_even_succ by lia.
    assert (E : Z.testbit 1 (Z.succ (n - 1)) = false).
    { change (Z.testbit 1) with (Z.testbit (2 * 0 + 1)). rewrite Z.testbit_odd_succ by lia. apply Z.testbit_0_l. }
    rewrite E. apply andb_negb_r.
Qed.

Lemma land_opp_pow2 (t : nat) K :
  Z.land ((2 * K + 1) * 2 ^ Z.of_nat t) (- ((2 * K + 1) * 2 ^ Z.of_nat t)) = 2 ^ Z.of_nat t.
Proof.
  rewrite <- Z.mul_opp_l, <- !Z.shiftl_mul_pow2 by lia.
  rewrite <- Z.shiftl_land, land_opp_odd. rewrite Z.shiftl_mul_pow2 by lia. lia.
Qed.

Lemma pow4_pow2 (e : nat) : 4 ^ Z.of_nat e = 2 ^ Z.of_nat (2 * e).
Proof.
  rewrite Nat2Z.inj_mul. change (Z.of_nat 2) with 2. rewrite Z.pow_mul_r by lia. reflexivity.
Qed.

Lemma lsb_struct (e : nat) K :
  Z.land ((2 * K + 1) * 4 ^ Z.of_nat e) (- ((2 * K + 1) * 4 ^ Z.of_nat e)) = 4 ^ Z.of_nat e.
Proof. rewrite pow4_pow2. apply land_opp_pow2. Qed.

(** the orientation fix-up of faceIJOrientation fires exactly for even e >= 2 *)
Lemma fixup_mask (e : nat) : (e <= 30)%nat ->
  Z.eqb (Z.land (4 ^ Z.of_nat e) 1229782938247303440) 0 = (Nat.eqb e 0 || Nat.odd e).
Proof.
  intros H. do 31 (destruct e as [|e]; [vm_compute; reflexivity|]). lia.
Qed.

(** ** decode of a structured id c = (2K+1) * 4^e  (level 30 - e) *)
Lemma shiftr1_struct (e : nat) K :
  Z.shiftr ((2 * K + 1) * 4 ^ Z.of_nat (S e)) 1 = (4 * K + 2) * 4 ^ Z.of_nat e.
Proof.
  rewrite Z.shiftr_div_pow2 by lia. change (2 ^ 1) with 2.
  rewrite Nat2Z.inj_succ, Z.pow_succ_r by lia.
  replace ((2 * K + 1) * (4 * 4 ^ Z.of_nat e)) with (((4 * K + 2) * 4 ^ Z.of_nat e) * 2) by ring.
  apply Z.div_mul. lia.
Qed.

Lemma shiftr1_leaf K : Z.shiftr ((2 * K + 1) * 4 ^ Z.of_nat 0) 1 = K.
Proof.
  change (4 ^ Z.of_nat 0) with 1. rewrite Z.mul_1_r, Z.shiftr_div_pow2 by lia. change (2 ^ 1) with 2.
  rewrite Z.add_comm, Z.mul_comm, Z.div_add by lia. reflexivity.
Qed.

(** prefix state: the (i,j,orientation) of the cell itself, at its own level n = 30 - e *)
Definition cell_state (n : nat) (K : Z) : Z * Z * Z := hd_state n K.

Lemma cell_state_child n K p : 0 <= p < 4 ->
  cell_state (S n) (4 * K + p) = hd_step (cell_state n K) p.
Proof. apply hd_state_digit. Qed.

Theorem decode_nonleaf (n e : nat) K : (e + S n = 30)%nat ->
  let c := (2 * K + 1) * 4 ^ Z.of_nat (S e) in
  let '(ci, cj, co) := cell_state n K in
  hd_faceIJOrientation c =
    (Z.shiftr c 61, (2 * ci + 1) * 2 ^ Z.of_nat e - co / 2, (2 * cj + 1) * 2 ^ Z.of_nat e - co / 2, co).
Proof.
  intros Hn c. pose proof (hd_state_ok n K) as Hok. unfold cell_state.
  destruct (hd_state n K) as [[ci cj] co] eqn:ES. destruct Hok as (Hci & Hcj & Hco).
  unfold hd_faceIJOrientation. subst c.
  rewrite shiftr1_struct, lsb_struct.
  replace 30%nat with (e + S n)%nat by lia.
  rewrite hd_state_zeros.
  replace (4 * K + 2) with (4 * K + 2) by reflexivity.
  rewrite hd_state_digit by lia. rewrite ES, hd_step_two by assumption.
  rewrite hd_zeros_closed by assumption.
  rewrite fixup_mask by lia. cbn [Nat.eqb orb].
  rewrite Nat.odd_succ.
  destruct (lxor1_div2 co Hco) as (_ & _ & E2).
  destruct (Nat.even e); [|rewrite E2]; apply quad_eq; ring.
Qed.

Theorem decode_leaf K :
  let c := (2 * K + 1) * 4 ^ Z.of_nat 0 in
  let '(ci, cj, co) := cell_state 30 K in
  hd_faceIJOrientation c = (Z.shiftr c 61, ci, cj, co).
Proof.
  intros c. unfold cell_state. destruct (hd_state 30 K) as [[ci cj] co] eqn:ES.
  unfold hd_faceIJOrientation. subst c.
  rewrite shiftr1_leaf, ES. rewrite (lsb_struct 0). reflexivity.
Qed.
