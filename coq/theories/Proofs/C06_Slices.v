(** C06 — slice indexing facts and small tactics shared by the C06 proof files. *)
From Coq Require Import ZArith List Bool Lia.
From Geo Require Import Base.GoPrim Gen.CellIDCov Model.Shapes.
Import ListNotations.
Local Open Scope Z_scope.

(** * Slices *)
Lemma len_nonneg {A} (l : list A) : 0 <= len l.
Proof. unfold len; lia. Qed.

Lemma idx_ok {A} (l : list A) (i : Z) (d : A) :
  0 <= i < len l -> idx l i = Ok (nth (Z.to_nat i) l d).
Proof.
  intros H. unfold idx, len in *.
  destruct (i <? 0) eqn:E; [lia|].
  destruct (nth_error l (Z.to_nat i)) eqn:N.
  - f_equal. symmetry. apply nth_error_nth. exact N.
  - apply nth_error_None in N. lia.
Qed.

Lemma idx_panic {A} (l : list A) (i : Z) : ~ (0 <= i < len l) -> idx l i = Panic.
Proof.
  intros H. unfold idx, len in *.
  destruct (i <? 0) eqn:E; [reflexivity|].
  destruct (nth_error l (Z.to_nat i)) eqn:N; [|reflexivity].
  assert (nth_error l (Z.to_nat i) <> None) as N' by congruence.
  apply nth_error_Some in N'. lia.
Qed.

Lemma minInt1 (n : Z) : s2_minInt 1 [n] = if n <? 1 then n else 1.
Proof. reflexivity. Qed.
Lemma maxInt0 (n : Z) : s2_maxInt 0 [n] = if 0 <? n then n else 0.
Proof. reflexivity. Qed.

Ltac zb :=
  repeat match goal with
  | |- context [?a =? ?b] => let E := fresh "E" in destruct (a =? b) eqn:E; [apply Z.eqb_eq in E | apply Z.eqb_neq in E]
  | |- context [?a <? ?b] => let E := fresh "E" in destruct (a <? b) eqn:E; [apply Z.ltb_lt in E | apply Z.ltb_ge in E]
  | |- context [?a <=? ?b] => let E := fresh "E" in destruct (a <=? b) eqn:E; [apply Z.leb_le in E | apply Z.leb_gt in E]
  | |- context [?a >=? ?b] => let E := fresh "E" in destruct (a >=? b) eqn:E; [apply Z.geb_le in E | rewrite Z.geb_leb in E; apply Z.leb_gt in E]
  | |- context [?a >? ?b] => let E := fresh "E" in destruct (a >? b) eqn:E; [apply Z.gtb_lt in E | rewrite Z.gtb_ltb in E; apply Z.ltb_ge in E]
  end.

Ltac inv_ok :=
  repeat match goal with
  | H : Ok _ = Ok _ |- _ => inversion H; clear H; subst
  end.
Ltac ops_cbn := cbn [numEdges numChains edgeAt chainAt chainEdge chainPosition].

