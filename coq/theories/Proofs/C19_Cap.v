(** C19, s2.Cap.  A cap is a centre (three floats) and a squared-chord radius.
    The code's point test  ContainsPoint c p  is  |c - p|^2 (rounded, clamped to 4) <= radius;
    theorems that hold for that float predicate exactly are closed; soundness of
    Contains / Intersects / AddCap / Expanded / Complement against it depends on the rounding
    of ChordAngle.Add/Sub and on a triangle inequality for rounded squared chords, which is
    carried as the named hypothesis [H_CAPARITH eps] (facts about float expressions only). *)
From Coq Require Import ZArith Reals Floats Lra Bool List.
From Geo Require Import Base.GoPrim Base.F64 Gen.S1 Gen.S2Rect Gen.S2Cap Proofs.C19_Arith Proofs.C19_S1.
Local Open Scope R_scope.

Definition F4 : PrimFloat.float := (0x1p+02)%float.
Definition r4 : R := rank F4.
Lemma r4_pos : 0 < r4.
Proof.
  assert (H : PrimFloat.ltb 0%float F4 = true) by reflexivity.
  apply ltb_true_iff in H; try reflexivity. rewrite rank_zero in H. exact H.
Qed.

Notation vec := s2_Point_Vector.
Notation cabp := s2_ChordAngleBetweenPoints.
Notation cadd := s1_ChordAngle_Add.
Notation csub := s1_ChordAngle_Sub.

(** the squared distance of two points evaluates to a number (always so for finite,
    non-overflowing coordinates) *)
Definition dist_ok (a b : s2_Point) : Prop := nonnan (r3_Vector_Norm2 (r3_Vector_Sub (vec a) (vec b))).

Lemma norm2_nonneg v : nonnan (r3_Vector_Norm2 v) -> 0 <= rank (r3_Vector_Norm2 v).
Proof.
  unfold r3_Vector_Norm2, r3_Vector_Dot. intros N.
  destruct (nonnan_add_inv _ _ N) as [N1 N3]. destruct (nonnan_add_inv _ _ N1) as [Nx Ny].
  apply rank_add_nonneg; [assumption| |apply rank_sqr_nonneg; assumption].
  apply rank_add_nonneg; [assumption| |]; apply rank_sqr_nonneg; assumption.
Qed.

Lemma cabp_range a b : dist_ok a b -> nonnan (cabp a b) /\ 0 <= rank (cabp a b) <= r4.
Proof.
  unfold dist_ok, s2_ChordAngleBetweenPoints. intros N. fold F4.
  destruct (go_fmin_rank F4 _ ltac:(reflexivity) N) as [N' E]. split; [exact N'|].
  rewrite E. fold r4. pose proof (norm2_nonneg _ N). pose proof r4_pos.
  unfold Rmin. destruct (Rle_dec r4 _); lra.
Qed.

(** * Closed theorems about the float predicate ContainsPoint *)

(** a full cap contains every point, an empty cap none *)
Lemma cap_full_contains_all c p : s2_Cap_IsFull c = true -> nonnan (s2_Cap_radius c) ->
  dist_ok (s2_Cap_center c) p -> s2_Cap_ContainsPoint c p = true.
Proof.
  unfold s2_Cap_IsFull, s2_Cap_ContainsPoint. fold F4. intros E Nr D.
  destruct (cabp_range _ _ D) as [N [_ H]].
  apply eqb_true_iff in E; [|assumption|reflexivity]. fold r4 in E.
  apply leb_true_iff; [assumption|assumption|lra].
Qed.

Lemma ltb_nan_l x y : go_isnan x = true -> PrimFloat.ltb x y = false.
Proof.
  rewrite go_isnan_equiv, Flocq.IEEE754.PrimFloat.ltb_equiv.
  destruct (Flocq.IEEE754.PrimFloat.Prim2B x); try discriminate. reflexivity.
Qed.
Lemma eqb_nan_l x y : go_isnan x = true -> PrimFloat.eqb x y = false.
Proof.
  rewrite go_isnan_equiv, Flocq.IEEE754.PrimFloat.eqb_equiv.
  destruct (Flocq.IEEE754.PrimFloat.Prim2B x); try discriminate. reflexivity.
Qed.
Lemma fmin4_nan y : go_isnan y = true -> go_isnan (go_fmin F4 y) = true.
Proof.
  intros N. unfold go_fmin. rewrite (eqb_nan_l y neg_infinity N), N.
  change (PrimFloat.eqb F4 neg_infinity) with false. change (go_isnan F4) with false.
  simpl. reflexivity.
Qed.
Lemma cabp_nonnan_dist_ok a b : nonnan (cabp a b) -> dist_ok a b.
Proof.
  unfold dist_ok, nonnan, s2_ChordAngleBetweenPoints. fold F4. intros N.
  destruct (go_isnan (r3_Vector_Norm2 (r3_Vector_Sub (vec a) (vec b)))) eqn:Nn; [|reflexivity].
  rewrite (fmin4_nan _ Nn) in N. discriminate.
Qed.

Lemma cap_empty_contains_none c p : s2_Cap_IsEmpty c = true -> s2_Cap_ContainsPoint c p = false.
Proof.
  unfold s2_Cap_IsEmpty, s2_Cap_ContainsPoint. intros E.
  destruct (go_isnan (s2_Cap_radius c)) eqn:Nr.
  { rewrite (ltb_nan_l _ _ Nr) in E. discriminate. }
  destruct (go_isnan (cabp (s2_Cap_center c) p)) eqn:Nd.
  { apply leb_nan_l. exact Nd. }
  destruct (cabp_range _ _ (cabp_nonnan_dist_ok _ _ Nd)) as [N [H0 _]].
  apply ltb_true_iff in E; [|exact Nr|reflexivity]. rewrite rank_zero in E.
  apply leb_false_iff; [exact N|exact Nr|lra].
Qed.

(** the distance of a point with finite coordinates to itself is zero *)
Definition fin_pt (p : s2_Point) : Prop :=
  fin (r3_Vector_X (vec p)) /\ fin (r3_Vector_Y (vec p)) /\ fin (r3_Vector_Z (vec p)).
Lemma cabp_self p : fin_pt p -> nonnan (cabp p p) /\ rank (cabp p p) = 0.
Proof.
  intros [Fx [Fy Fz]]. unfold s2_ChordAngleBetweenPoints, r3_Vector_Norm2, r3_Vector_Dot, r3_Vector_Sub.
  cbn [r3_Vector_X r3_Vector_Y r3_Vector_Z].
  pose proof (sub_self_isz _ Fx) as Zx. pose proof (sub_self_isz _ Fy) as Zy. pose proof (sub_self_isz _ Fz) as Zz.
  pose proof (add_isz _ _ (add_isz _ _ (mul_isz _ _ Zx Zx) (mul_isz _ _ Zy Zy)) (mul_isz _ _ Zz Zz)) as Z.
  destruct (isz_rank _ Z) as [N E]. fold F4.
  destruct (go_fmin_rank F4 _ ltac:(reflexivity) N) as [N' E']. split; [exact N'|].
  rewrite E', E. fold r4. pose proof r4_pos. unfold Rmin. destruct (Rle_dec r4 0); lra.
Qed.

(** * AddPoint: the added point is contained, and no point is lost *)
Lemma cap_addpoint_contains_point c p : nonnan (s2_Cap_radius c) ->
  (s2_Cap_IsEmpty c = true -> fin_pt p) ->
  (s2_Cap_IsEmpty c = false -> dist_ok (s2_Cap_center c) p) ->
  s2_Cap_ContainsPoint (s2_Cap_AddPoint c p) p = true.
Proof.
  intros Nr He Hne. unfold s2_Cap_AddPoint.
  destruct (s2_Cap_IsEmpty c) eqn:E.
  - unfold s2_Cap_ContainsPoint, set_s2_Cap_radius, set_s2_Cap_center. cbn [s2_Cap_center s2_Cap_radius].
    destruct (cabp_self p (He eq_refl)) as [N Z].
    apply leb_true_iff; [exact N|reflexivity|]. rewrite Z, rank_zero. lra.
  - destruct (cabp_range _ _ (Hne eq_refl)) as [N _].
    unfold s2_Cap_ContainsPoint.
    destruct (PrimFloat.ltb (s2_Cap_radius c) (cabp (s2_Cap_center c) p)) eqn:L;
    unfold set_s2_Cap_radius; cbn [s2_Cap_center s2_Cap_radius].
    + apply leb_true_iff; [exact N|exact N|lra].
    + apply ltb_false_iff in L; [|exact Nr|exact N]. apply leb_true_iff; [exact N|exact Nr|lra].
Qed.

Lemma cap_addpoint_keeps_points c p q : nonnan (s2_Cap_radius c) ->
  (s2_Cap_IsEmpty c = false -> dist_ok (s2_Cap_center c) p) ->
  s2_Cap_ContainsPoint c q = true -> s2_Cap_ContainsPoint (s2_Cap_AddPoint c p) q = true.
Proof.
  intros Nr Hne Hq. unfold s2_Cap_AddPoint.
  destruct (s2_Cap_IsEmpty c) eqn:E.
  - rewrite (cap_empty_contains_none c q E) in Hq. discriminate.
  - destruct (cabp_range _ _ (Hne eq_refl)) as [N _].
    destruct (PrimFloat.ltb (s2_Cap_radius c) (cabp (s2_Cap_center c) p)) eqn:L; [|exact Hq].
    unfold s2_Cap_ContainsPoint, set_s2_Cap_radius in *. cbn [s2_Cap_center s2_Cap_radius].
    destruct (go_isnan (cabp (s2_Cap_center c) q)) eqn:Nq.
    { rewrite (leb_nan_l _ _ Nq) in Hq. discriminate. }
    apply leb_true_iff in Hq; [|exact Nq|exact Nr]. apply ltb_true_iff in L; [|exact Nr|exact N].
    apply leb_true_iff; [exact Nq|exact N|lra].
Qed.

(** * Complement of the two special caps *)
Lemma cap_complement_full c : s2_Cap_IsFull c = true -> s2_Cap_Complement c = s2_EmptyCap.
Proof. intros E. unfold s2_Cap_Complement. rewrite E. reflexivity. Qed.
Lemma cap_complement_empty c : s2_Cap_IsEmpty c = true -> s2_Cap_Complement c = s2_FullCap.
Proof.
  intros E. unfold s2_Cap_Complement. rewrite E.
  destruct (s2_Cap_IsFull c) eqn:F; [|reflexivity].
  (* a radius cannot be both < 0 and = 4 *)
  exfalso. unfold s2_Cap_IsFull, s2_Cap_IsEmpty in *. fold F4 in F.
  destruct (go_isnan (s2_Cap_radius c)) eqn:Nr.
  { rewrite (ltb_nan_l _ _ Nr) in E. discriminate. }
  apply eqb_true_iff in F; [|exact Nr|reflexivity]. apply ltb_true_iff in E; [|exact Nr|reflexivity].
  rewrite rank_zero in E. fold r4 in F. pose proof r4_pos. lra.
Qed.
Lemma cap_empty_is_empty : s2_Cap_IsEmpty s2_EmptyCap = true /\ s2_Cap_IsValid s2_EmptyCap = true.
Proof. split; reflexivity. Qed.
Lemma cap_full_is_full : s2_Cap_IsFull s2_FullCap = true /\ s2_Cap_IsValid s2_FullCap = true.
Proof. split; reflexivity. Qed.
(** every point is in a cap or in its complement, for the two special caps *)
Lemma cap_complement_special_covers c p : nonnan (s2_Cap_radius c) ->
  s2_Cap_IsEmpty c = true \/ s2_Cap_IsFull c = true ->
  dist_ok (s2_Cap_center c) p -> dist_ok s2_centerPoint p ->
  s2_Cap_ContainsPoint c p = true \/ s2_Cap_ContainsPoint (s2_Cap_Complement c) p = true.
Proof.
  intros Nr [E|F] D D0.
  - right. rewrite (cap_complement_empty c E). apply cap_full_contains_all; [reflexivity|reflexivity|exact D0].
  - left. apply cap_full_contains_all; assumption.
Qed.

(** * Contains / Intersects with empty or full operands *)
Lemma cap_contains_full_or_empty c o :
  s2_Cap_IsFull c = true \/ s2_Cap_IsEmpty o = true -> s2_Cap_Contains c o = true.
Proof.
  intros H. unfold s2_Cap_Contains.
  destruct H as [H|H]; rewrite H; [reflexivity|rewrite orb_true_r; reflexivity].
Qed.
(** ... and in those cases the answer is right for every point *)
Lemma cap_contains_special_sound c o p : nonnan (s2_Cap_radius c) ->
  s2_Cap_IsFull c = true \/ s2_Cap_IsEmpty o = true -> dist_ok (s2_Cap_center c) p ->
  s2_Cap_ContainsPoint o p = true -> s2_Cap_ContainsPoint c p = true.
Proof.
  intros Nr [F|E] D Ho.
  - apply cap_full_contains_all; assumption.
  - rewrite (cap_empty_contains_none o p E) in Ho. discriminate.
Qed.
Lemma cap_intersects_empty c o :
  s2_Cap_IsEmpty c = true \/ s2_Cap_IsEmpty o = true -> s2_Cap_Intersects c o = false.
Proof.
  intros H. unfold s2_Cap_Intersects.
  destruct H as [H|H]; rewrite H; [reflexivity|rewrite orb_true_r; reflexivity].
Qed.
Lemma cap_intersects_empty_sound c o p :
  s2_Cap_IsEmpty c = true \/ s2_Cap_IsEmpty o = true ->
  ~ (s2_Cap_ContainsPoint c p = true /\ s2_Cap_ContainsPoint o p = true).
Proof.
  intros [E|E] [H1 H2].
  - rewrite (cap_empty_contains_none c p E) in H1. discriminate.
  - rewrite (cap_empty_contains_none o p E) in H2. discriminate.
Qed.
Lemma cap_expanded_empty c d : s2_Cap_IsEmpty c = true -> s2_Cap_Expanded c d = s2_EmptyCap.
Proof. intros E. unfold s2_Cap_Expanded. rewrite E. reflexivity. Qed.

(** * Radius comparisons: AddCap never shrinks the receiver, and keeps its centre *)
Lemma cap_addcap_keeps_first c o q : nonnan (s2_Cap_radius c) ->
  s2_Cap_ContainsPoint c q = true -> s2_Cap_ContainsPoint (s2_Cap_AddCap c o) q = true.
Proof.
  intros Nr Hq. unfold s2_Cap_AddCap.
  destruct (s2_Cap_IsEmpty c) eqn:E.
  { rewrite (cap_empty_contains_none c q E) in Hq. discriminate. }
  destruct (s2_Cap_IsEmpty o) eqn:Eo; [exact Hq|].
  set (newRad := s1_ChordAngle_Expanded _ _).
  destruct (PrimFloat.ltb (s2_Cap_radius c) newRad) eqn:L; [|exact Hq].
  unfold s2_Cap_ContainsPoint, set_s2_Cap_radius in *. cbn [s2_Cap_center s2_Cap_radius].
  destruct (go_isnan (cabp (s2_Cap_center c) q)) eqn:Nq.
  { rewrite (leb_nan_l _ _ Nq) in Hq. discriminate. }
  destruct (go_isnan newRad) eqn:Nn.
  { assert (PrimFloat.ltb (s2_Cap_radius c) newRad = false).
    { rewrite Flocq.IEEE754.PrimFloat.ltb_equiv. rewrite go_isnan_equiv in Nn.
      destruct (Flocq.IEEE754.PrimFloat.Prim2B newRad); try discriminate.
      destruct (Flocq.IEEE754.PrimFloat.Prim2B (s2_Cap_radius c)) as [?|[|]| |? ? ? ?]; reflexivity. }
    congruence. }
  apply leb_true_iff in Hq; [|exact Nq|exact Nr]. apply ltb_true_iff in L; [|exact Nr|exact Nn].
  apply leb_true_iff; [exact Nq|exact Nn|lra].
Qed.

(** * Facts about the shape of ChordAngle.Add and ChordAngle.Expanded (no rounding analysis) *)
Lemma cadd_le4 a b : nonnan (cadd a b) -> nonnan a -> rank a <= r4 -> rank (cadd a b) <= r4.
Proof.
  intros N Na Ha. unfold nonnan, s1_ChordAngle_Add in *. fold F4 in *.
  destruct (PrimFloat.eqb b 0%float); [exact Ha|].
  destruct (PrimFloat.leb F4 (PrimFloat.add a b)); [unfold r4; lra|].
  match goal with |- rank (go_fmin F4 ?e) <= _ =>
    destruct (go_isnan e) eqn:Ne;
    [rewrite (fmin4_nan e Ne) in N; discriminate|
     destruct (go_fmin_rank F4 e ltac:(reflexivity) Ne) as [_ E]; rewrite E; fold r4; apply Rmin_l] end.
Qed.

Definition EPSF : PrimFloat.float := (0x1p-52)%float.
Lemma cexp_ge d : nonnan d -> rank d <= r4 ->
  let r := s1_ChordAngle_Expanded d (PrimFloat.mul EPSF d) in nonnan r /\ rank d <= rank r.
Proof.
  intros Nd Hd. unfold s1_ChordAngle_Expanded, s1_ChordAngle_isSpecial, s1_ChordAngle_IsInfinity, go_isinf.
  cbn [Z.leb Z.compare andb orb]. simpl.
  destruct (PrimFloat.ltb d 0%float) eqn:L; [simpl; split; [exact Nd|lra]|].
  destruct (PrimFloat.eqb d infinity) eqn:I; [simpl; split; [exact Nd|lra]|].
  simpl. apply ltb_false_iff in L; [|exact Nd|reflexivity]. rewrite rank_zero in L.
  pose proof r4_pos as P4.
  assert (T4 : r4 < top).
  { assert (Q : PrimFloat.ltb F4 infinity = true) by reflexivity.
    apply ltb_true_iff in Q; try reflexivity. rewrite rank_infinity in Q. exact Q. }
  pose proof top_pos as Tp.
  assert (Fd : fin d) by (apply rank_fin; [exact Nd|lra]).
  assert (Fe : fin EPSF) by reflexivity.
  pose proof (mul_nonnan_fin EPSF d Fe Fd) as Nm.
  assert (He : 0 <= rank (PrimFloat.mul EPSF d)).
  { apply rank_mul_nonneg; [exact Nm| |exact L].
    assert (Q : PrimFloat.ltb 0%float EPSF = true) by reflexivity.
    apply ltb_true_iff in Q; try reflexivity. rewrite rank_zero in Q. lra. }
  set (e := PrimFloat.mul EPSF d) in *.
  destruct (Rlt_dec (rank e) top) as [Lt|Ge].
  - assert (Fe2 : fin e) by (apply rank_fin; [exact Nm|lra]).
    pose proof (add_nonnan_fin d e Fd Fe2) as Ns.
    pose proof (rank_add_ge d e Nd Nm He Ns) as Hs.
    destruct (go_fmin_rank F4 _ ltac:(reflexivity) Ns) as [Nmin Emin]. fold F4.
    destruct (go_fmax_rank 0%float _ ltac:(reflexivity) Nmin) as [Nmax Emax].
    split; [exact Nmax|]. rewrite Emax, Emin. fold r4.
    apply Rle_trans with (Rmin r4 (rank (PrimFloat.add d e))); [|apply Rmax_r].
    apply Rmin_glb; lra.
  - (* e overflowed to +inf: d + inf = inf *)
    assert (Ei : rank e = top) by (pose proof (rank_bounds e); lra).
    assert (Ns : nonnan (PrimFloat.add d e)) by (apply add_fin_inf; [exact Fd|apply rank_top_inf; assumption]).
    pose proof (rank_add_ge d e Nd Nm He Ns) as Hs.
    destruct (go_fmin_rank F4 _ ltac:(reflexivity) Ns) as [Nmin Emin]. fold F4.
    destruct (go_fmax_rank 0%float _ ltac:(reflexivity) Nmin) as [Nmax Emax].
    split; [exact Nmax|]. rewrite Emax, Emin. fold r4.
    apply Rle_trans with (Rmin r4 (rank (PrimFloat.add d e))); [|apply Rmax_r].
    apply Rmin_glb; lra.
Qed.

(** * The named hypothesis: rounded chord-angle arithmetic obeys the triangle inequality up to [eps]
    (a statement about float expressions only; attacked on every run by the observer) *)
Definition unitp (p : s2_Point) : Prop := r3_Vector_IsUnit (vec p) = true.
Definition radius_ok (r : PrimFloat.float) : Prop := nonnan r /\ 0 <= rank r <= r4.
Definition antipode (a : s2_Point) : s2_Point := mk_s2_Point (r3_Vector_Mul (vec a) (-0x1p+00)%float).

Definition H_CAPARITH (eps : R) : Prop :=
  0 <= eps /\
  (forall a b p r, unitp a -> unitp b -> unitp p -> radius_ok r ->
     PrimFloat.leb (cabp b p) r = true ->
     nonnan (cabp a p) /\ nonnan (cadd (cabp a b) r) /\
     rank (cabp a p) <= rank (cadd (cabp a b) r) + eps) /\
  (forall a b p r1 r2, unitp a -> unitp b -> unitp p -> radius_ok r1 -> radius_ok r2 ->
     PrimFloat.leb (cabp a p) r1 = true -> PrimFloat.leb (cabp b p) r2 = true ->
     nonnan (cabp a b) /\ nonnan (cadd r1 r2) /\ rank (cabp a b) <= rank (cadd r1 r2) + eps) /\
  (forall r e, radius_ok r -> radius_ok e ->
     nonnan (cadd r e) /\ rank r <= rank (cadd r e) + eps) /\
  (forall a p r, unitp a -> unitp p -> radius_ok r -> PrimFloat.leb (cabp a p) r = false ->
     nonnan (cabp (antipode a) p) /\ nonnan (csub F4 r) /\
     rank (cabp (antipode a) p) <= rank (csub F4 r) + eps).

(** a valid non-empty cap has a radius in [0,4] *)
Lemma valid_radius_ok c : s2_Cap_IsValid c = true -> s2_Cap_IsEmpty c = false -> radius_ok (s2_Cap_radius c).
Proof.
  unfold s2_Cap_IsValid, s2_Cap_IsEmpty, radius_ok. fold F4. intros V E.
  apply andb_true_iff in V. destruct V as [_ V].
  destruct (go_isnan (s2_Cap_radius c)) eqn:N.
  { rewrite (leb_nan_l _ _ N) in V. discriminate. }
  apply leb_true_iff in V; [|exact N|reflexivity]. apply ltb_false_iff in E; [|exact N|reflexivity].
  rewrite rank_zero in E. fold r4 in V. split; [exact N|lra].
Qed.
Lemma valid_unit c : s2_Cap_IsValid c = true -> unitp (s2_Cap_center c).
Proof. unfold s2_Cap_IsValid, unitp. intros V. apply andb_true_iff in V. tauto. Qed.
Lemma contains_nonempty c p : s2_Cap_ContainsPoint c p = true -> s2_Cap_IsEmpty c = false.
Proof.
  intros H. destruct (s2_Cap_IsEmpty c) eqn:E; [|reflexivity].
  rewrite (cap_empty_contains_none c p E) in H. discriminate.
Qed.

Section UnderH.
Variable eps : R.
Hypothesis H : H_CAPARITH eps.

(** Contains: every point of the contained cap is within eps (in squared chord) of the container *)
Theorem cap_contains_sound_under_H c o p :
  s2_Cap_IsValid c = true -> s2_Cap_IsValid o = true -> unitp p -> dist_ok (s2_Cap_center c) p ->
  s2_Cap_Contains c o = true -> s2_Cap_ContainsPoint o p = true ->
  rank (cabp (s2_Cap_center c) p) <= rank (s2_Cap_radius c) + eps.
Proof.
  destruct H as [He [Htri _]]. intros Vc Vo Up D Hc Hp.
  pose proof (contains_nonempty o p Hp) as Eo.
  unfold s2_Cap_Contains in Hc. rewrite Eo, orb_false_r in Hc.
  destruct (s2_Cap_IsFull c) eqn:F.
  - destruct (cabp_range _ _ D) as [_ [_ R]]. unfold s2_Cap_IsFull in F. fold F4 in F.
    assert (Nr : nonnan (s2_Cap_radius c)).
    { destruct (go_isnan (s2_Cap_radius c)) eqn:N; [|exact N]. rewrite (eqb_nan_l _ _ N) in F. discriminate. }
    apply eqb_true_iff in F; [|exact Nr|reflexivity]. fold r4 in F. lra.
  - destruct (Htri (s2_Cap_center c) (s2_Cap_center o) p (s2_Cap_radius o)
               (valid_unit c Vc) (valid_unit o Vo) Up (valid_radius_ok o Vo Eo) Hp) as [N1 [N2 R]].
    assert (Nr : nonnan (s2_Cap_radius c)).
    { unfold s2_Cap_IsValid in Vc. apply andb_true_iff in Vc. destruct Vc as [_ Vc]. fold F4 in Vc.
      destruct (go_isnan (s2_Cap_radius c)) eqn:N; [|exact N].
      pose proof (Flocq.IEEE754.PrimFloat.leb_equiv (s2_Cap_radius c) F4) as Q. rewrite Vc in Q.
      rewrite go_isnan_equiv in N. destruct (Flocq.IEEE754.PrimFloat.Prim2B (s2_Cap_radius c)); discriminate. }
    apply leb_true_iff in Hc; [|exact N2|exact Nr]. lra.
Qed.

(** Intersects: if it answers false, any common point is a near miss of at most eps *)
Theorem cap_intersects_sound_under_H c o p :
  s2_Cap_IsValid c = true -> s2_Cap_IsValid o = true -> unitp p ->
  s2_Cap_ContainsPoint c p = true -> s2_Cap_ContainsPoint o p = true ->
  s2_Cap_Intersects c o = true \/
  rank (cabp (s2_Cap_center c) (s2_Cap_center o)) <= rank (cadd (s2_Cap_radius c) (s2_Cap_radius o)) + eps.
Proof.
  destruct H as [He [_ [Htri2 _]]]. intros Vc Vo Up Hc Ho. right.
  pose proof (contains_nonempty c p Hc) as Ec. pose proof (contains_nonempty o p Ho) as Eo.
  destruct (Htri2 _ _ p _ _ (valid_unit c Vc) (valid_unit o Vo) Up
              (valid_radius_ok c Vc Ec) (valid_radius_ok o Vo Eo) Hc Ho) as [_ [_ R]]. exact R.
Qed.

(** AddCap: the points of the added cap end up within eps of the result *)
Theorem cap_addcap_sound_under_H c o p :
  s2_Cap_IsValid c = true -> s2_Cap_IsValid o = true -> unitp p ->
  s2_Cap_IsEmpty c = false -> s2_Cap_ContainsPoint o p = true ->
  let u := s2_Cap_AddCap c o in
  s2_Cap_center u = s2_Cap_center c /\
  rank (cabp (s2_Cap_center c) p) <= rank (s2_Cap_radius u) + eps.
Proof.
  destruct H as [He [Htri _]]. intros Vc Vo Up Ec Hp.
  pose proof (contains_nonempty o p Hp) as Eo.
  destruct (valid_radius_ok c Vc Ec) as [Nr Rr].
  unfold s2_Cap_AddCap. rewrite Ec, Eo.
  destruct (Htri (s2_Cap_center c) (s2_Cap_center o) p (s2_Cap_radius o)
             (valid_unit c Vc) (valid_unit o Vo) Up (valid_radius_ok o Vo Eo) Hp) as [N1 [N2 R]].
  set (dist := cadd (cabp (s2_Cap_center c) (s2_Cap_center o)) (s2_Cap_radius o)) in *.
  assert (D4 : rank dist <= r4).
  { apply cadd_le4; [exact N2| |].
    - destruct (go_isnan (cabp (s2_Cap_center c) (s2_Cap_center o))) eqn:Nn; [|exact Nn].
      exfalso. unfold dist, s1_ChordAngle_Add in N2. unfold nonnan in N2.
      (* a NaN distance makes the sum NaN or leaves it *)
      destruct (PrimFloat.eqb (s2_Cap_radius o) 0%float); [congruence|].
      assert (Q : PrimFloat.leb F4 (PrimFloat.add (cabp (s2_Cap_center c) (s2_Cap_center o)) (s2_Cap_radius o)) = false).
      { rewrite Flocq.IEEE754.PrimFloat.leb_equiv, Flocq.IEEE754.PrimFloat.add_equiv. rewrite go_isnan_equiv in Nn.
        destruct (Flocq.IEEE754.PrimFloat.Prim2B (cabp (s2_Cap_center c) (s2_Cap_center o))); try discriminate.
        reflexivity. }
      fold F4 in N2. rewrite Q in N2.
      match type of N2 with go_isnan (go_fmin F4 ?e) = false =>
        assert (Ne : go_isnan e = true) end.
      { rewrite go_isnan_equiv, !Flocq.IEEE754.PrimFloat.add_equiv, !Flocq.IEEE754.PrimFloat.mul_equiv.
        rewrite go_isnan_equiv in Nn.
        destruct (Flocq.IEEE754.PrimFloat.Prim2B (cabp (s2_Cap_center c) (s2_Cap_center o))); try discriminate.
        reflexivity. }
      rewrite (fmin4_nan _ Ne) in N2. discriminate.
    - apply cabp_range. apply cabp_nonnan_dist_ok.
      destruct (go_isnan (cabp (s2_Cap_center c) (s2_Cap_center o))) eqn:Nn; [|exact Nn].
      exfalso. unfold dist, s1_ChordAngle_Add in N2. unfold nonnan in N2.
      destruct (PrimFloat.eqb (s2_Cap_radius o) 0%float); [congruence|].
      assert (Q : PrimFloat.leb F4 (PrimFloat.add (cabp (s2_Cap_center c) (s2_Cap_center o)) (s2_Cap_radius o)) = false).
      { rewrite Flocq.IEEE754.PrimFloat.leb_equiv, Flocq.IEEE754.PrimFloat.add_equiv. rewrite go_isnan_equiv in Nn.
        destruct (Flocq.IEEE754.PrimFloat.Prim2B (cabp (s2_Cap_center c) (s2_Cap_center o))); try discriminate.
        reflexivity. }
      fold F4 in N2. rewrite Q in N2.
      match type of N2 with go_isnan (go_fmin F4 ?e) = false =>
        assert (Ne : go_isnan e = true) end.
      { rewrite go_isnan_equiv, !Flocq.IEEE754.PrimFloat.add_equiv, !Flocq.IEEE754.PrimFloat.mul_equiv.
        rewrite go_isnan_equiv in Nn.
        destruct (Flocq.IEEE754.PrimFloat.Prim2B (cabp (s2_Cap_center c) (s2_Cap_center o))); try discriminate.
        reflexivity. }
      rewrite (fmin4_nan _ Ne) in N2. discriminate. }
  destruct (cexp_ge dist N2 D4) as [Ne Ge]. fold EPSF.
  set (newRad := s1_ChordAngle_Expanded dist (PrimFloat.mul EPSF dist)) in *.
  destruct (PrimFloat.ltb (s2_Cap_radius c) newRad) eqn:L;
  unfold set_s2_Cap_radius; cbn [s2_Cap_center s2_Cap_radius]; (split; [reflexivity|]).
  - lra.
  - apply ltb_false_iff in L; [|exact Nr|exact Ne]. lra.
Qed.

(** Expanded by a non-negative angle keeps every point, up to eps *)
Theorem cap_expanded_sound_under_H c d p :
  s2_Cap_IsValid c = true -> radius_ok (s1_ChordAngleFromAngle d) ->
  s2_Cap_ContainsPoint c p = true ->
  let e := s2_Cap_Expanded c d in
  s2_Cap_center e = s2_Cap_center c /\
  rank (cabp (s2_Cap_center c) p) <= rank (s2_Cap_radius e) + eps.
Proof.
  destruct H as [He [_ [_ [Hadd _]]]]. intros Vc Rd Hp.
  pose proof (contains_nonempty c p Hp) as Ec.
  destruct (valid_radius_ok c Vc Ec) as [Nr Rr].
  unfold s2_Cap_Expanded. rewrite Ec. unfold s2_CapFromCenterChordAngle. cbn [s2_Cap_center s2_Cap_radius].
  split; [reflexivity|].
  destruct (Hadd _ _ (conj Nr Rr) Rd) as [Na Ra].
  unfold s2_Cap_ContainsPoint in Hp.
  destruct (go_isnan (cabp (s2_Cap_center c) p)) eqn:Np.
  { rewrite (leb_nan_l _ _ Np) in Hp. discriminate. }
  apply leb_true_iff in Hp; [|exact Np|exact Nr]. lra.
Qed.

(** Complement: a point outside a proper cap is within eps of its complement *)
Theorem cap_complement_covers_under_H c p :
  s2_Cap_IsValid c = true -> s2_Cap_IsEmpty c = false -> s2_Cap_IsFull c = false -> unitp p ->
  s2_Cap_ContainsPoint c p = true \/
  (let k := s2_Cap_Complement c in
   rank (cabp (s2_Cap_center k) p) <= rank (s2_Cap_radius k) + eps).
Proof.
  destruct H as [He [_ [_ [_ Hc]]]]. intros Vc Ec Fc Up.
  destruct (s2_Cap_ContainsPoint c p) eqn:Hp; [left; reflexivity|right].
  unfold s2_Cap_Complement. rewrite Ec, Fc. unfold s2_CapFromCenterChordAngle. cbn [s2_Cap_center s2_Cap_radius].
  destruct (Hc _ p _ (valid_unit c Vc) Up (valid_radius_ok c Vc Ec) Hp) as [_ [_ R]]. exact R.
Qed.
End UnderH.

(** * FINDING: "all results are valid values" is false of Cap.Union as it is — two valid caps
    with nearly antipodal centres and a subnormal coordinate: the tangent used by
    InterpolateAtDistance has a squared norm that underflows to 0, the division gives Inf and
    the centre of the union is NaN. *)
Lemma cap_union_valid_refuted : exists a b,
  s2_Cap_IsValid a = true /\ s2_Cap_IsValid b = true /\ s2_Cap_IsValid (s2_Cap_Union a b) = false.
Proof.
  exists (mk_s2_Cap (mk_s2_Point (mk_r3_Vector (-0x1.0000000000003p+0)%float 0%float (-0x0.0000000000001p-1022)%float)) (0x1.0000000000001p+1)%float),
         (mk_s2_Cap (mk_s2_Point (mk_r3_Vector (0x1.0000000000006p+0)%float 0%float 0%float)) 1%float).
  vm_compute. repeat split; reflexivity.
Qed.
