(** stToUV (s2/stuv.go, translated in Gen/StUV.v) is weakly monotone on float64 values in [0,1],
    maps them into [-1,1], is <= 0 below 1/2 and >= 0 from 1/2 on.  Only the monotonicity of
    IEEE rounding is used (no rounding-error analysis).  Consumed by C01 (ancestors' uv-rectangles
    contain the leaf's) and C12 (id range => ContainsPoint). *)
From Coq Require Import ZArith Reals Floats Lra Bool Psatz.
From Flocq Require Import Core.Core IEEE754.BinarySingleNaN IEEE754.PrimFloat.
From Geo Require Import Base.GoPrim Base.F64 Base.F64Arith Gen.StUV.
Local Open Scope R_scope.

Definition c13 : PrimFloat.float := (0x1.5555555555555p-02)%float.
Definition C13 : R := RV c13.

Lemma c13_fin : fin c13. Proof. exact (lit_fin c13 _ _ _ eq_refl). Qed.
Lemma C13_range : 0 < C13 <= 1 / 2.
Proof.
  unfold C13. rewrite (lit_RV c13 _ _ _ eq_refl). unfold F2R. simpl.
  repeat match goal with
  | |- context [Z.pow_pos ?a ?b] =>
      let v := eval vm_compute in (Z.pow_pos a b) in change (Z.pow_pos a b) with v
  end. lra.
Qed.
Lemma four_fin : fin 4%float. Proof. exact (lit_fin 4%float _ _ _ eq_refl). Qed.
Lemma four_RV : RV 4%float = 4. Proof. lit_value. Qed.
Lemma one_fin : fin 1%float. Proof. exact (lit_fin 1%float _ _ _ eq_refl). Qed.
Lemma one_RV : RV 1%float = 1. Proof. lit_value. Qed.
Lemma half_fin : fin (0x1p-01)%float. Proof. exact (lit_fin (0x1p-01)%float _ _ _ eq_refl). Qed.
Lemma half_RV : RV (0x1p-01)%float = 1 / 2. Proof. lit_value. Qed.

Lemma ok8 : okbound 8. Proof. apply (okbound_IZR 8). lia. Qed.
Lemma repr_small (z : Z) : (Z.abs z < 2 ^ 53)%Z -> repr (IZR z). Proof. apply repr_IZR. Qed.
Lemma repr_half : repr (1 / 2).
Proof.
  replace (1 / 2) with (F2R (Float radix2 1 (-1))) by (unfold F2R; simpl; lra).
  apply repr_F2R; lia.
Qed.

(** real-valued mirrors of the two branches *)
Definition Uhi (r : R) : R := rnd (C13 * rnd (rnd (rnd (4 * r) * r) - 1)).
Definition Ulo (r : R) : R := rnd (C13 * rnd (1 - rnd (rnd (4 * rnd (1 - r)) * rnd (1 - r)))).

Ltac rnd_between lo hi :=
  split; [ rewrite <- (rnd_repr lo) by (first [apply repr_0 | apply repr_half | apply (repr_small _); simpl; lia]); apply rnd_le; try lra; try nra
         | rewrite <- (rnd_repr hi) by (first [apply repr_0 | apply repr_half | apply (repr_small _); simpl; lia]); apply rnd_le; try lra; try nra ].

Lemma rnd_range lo hi r : repr lo -> repr hi -> lo <= r <= hi -> lo <= rnd r <= hi.
Proof.
  intros Hl Hh [H1 H2]. split.
  - rewrite <- (rnd_repr lo) by exact Hl. apply rnd_le. exact H1.
  - rewrite <- (rnd_repr hi) by exact Hh. apply rnd_le. exact H2.
Qed.

Lemma repr1 : repr 1. Proof. apply (repr_small 1). simpl. lia. Qed.
Lemma repr2 : repr 2. Proof. apply (repr_small 2). simpl. lia. Qed.
Lemma repr3 : repr 3. Proof. apply (repr_small 3). simpl. lia. Qed.
Lemma repr4 : repr 4. Proof. apply (repr_small 4). simpl. lia. Qed.
Lemma reprm3 : repr (-3). Proof. apply (repr_small (-3)). simpl. lia. Qed.
Lemma reprm1 : repr (-1). Proof. apply (repr_small (-1)). simpl. lia. Qed.

(** upper branch: s in [1/2, 1] *)
Lemma hi_steps r : 1 / 2 <= r <= 1 ->
  2 <= rnd (4 * r) <= 4 /\
  1 <= rnd (rnd (4 * r) * r) <= 4 /\
  0 <= rnd (rnd (rnd (4 * r) * r) - 1) <= 3 /\
  0 <= Uhi r <= 1.
Proof.
  intros Hr. pose proof C13_range as HC.
  assert (A : 2 <= rnd (4 * r) <= 4) by (apply rnd_range; [apply repr2|apply repr4|lra]).
  assert (B : 1 <= rnd (rnd (4 * r) * r) <= 4) by (apply rnd_range; [apply repr1|apply repr4|nra]).
  assert (D : 0 <= rnd (rnd (rnd (4 * r) * r) - 1) <= 3) by (apply rnd_range; [apply repr_0|apply repr3|lra]).
  assert (HC3 : C13 * 3 <= 1).
  { clear. unfold C13. rewrite (lit_RV c13 _ _ _ eq_refl). unfold F2R. simpl.
    repeat match goal with
    | |- context [Z.pow_pos ?a ?b] =>
        let v := eval vm_compute in (Z.pow_pos a b) in change (Z.pow_pos a b) with v
    end. lra. }
  repeat split; try tauto; unfold Uhi;
  apply (rnd_range 0 1); try apply repr_0; try apply repr1; split.
  - apply Rmult_le_pos; lra.
  - apply Rle_trans with (C13 * 3); [apply Rmult_le_compat_l; lra | exact HC3].
  - apply Rmult_le_pos; lra.
  - apply Rle_trans with (C13 * 3); [apply Rmult_le_compat_l; lra | exact HC3].
Qed.

Lemma Uhi_mono r r' : 1 / 2 <= r -> r <= r' -> r' <= 1 -> Uhi r <= Uhi r'.
Proof.
  intros H1 H2 H3. pose proof C13_range as HC.
  destruct (hi_steps r) as [A [B [D _]]]; [lra|].
  destruct (hi_steps r') as [A' [B' [D' _]]]; [lra|].
  assert (L1 : rnd (4 * r) <= rnd (4 * r')) by (apply rnd_le; lra).
  assert (L2 : rnd (rnd (4 * r) * r) <= rnd (rnd (4 * r') * r')) by (apply rnd_le; nra).
  assert (L3 : rnd (rnd (rnd (4 * r) * r) - 1) <= rnd (rnd (rnd (4 * r') * r') - 1)) by (apply rnd_le; lra).
  unfold Uhi. apply rnd_le. apply Rmult_le_compat_l; lra.
Qed.

(** lower branch: s in [0, 1/2) *)
Lemma lo_steps r : 0 <= r <= 1 / 2 ->
  1 / 2 <= rnd (1 - r) <= 1 /\
  2 <= rnd (4 * rnd (1 - r)) <= 4 /\
  1 <= rnd (rnd (4 * rnd (1 - r)) * rnd (1 - r)) <= 4 /\
  -3 <= rnd (1 - rnd (rnd (4 * rnd (1 - r)) * rnd (1 - r))) <= 0 /\
  -1 <= Ulo r <= 0.
Proof.
  intros Hr. pose proof C13_range as HC.
  assert (T : 1 / 2 <= rnd (1 - r) <= 1) by (apply rnd_range; [apply repr_half|apply repr1|lra]).
  assert (A : 2 <= rnd (4 * rnd (1 - r)) <= 4) by (apply rnd_range; [apply repr2|apply repr4|lra]).
  assert (B : 1 <= rnd (rnd (4 * rnd (1 - r)) * rnd (1 - r)) <= 4) by (apply rnd_range; [apply repr1|apply repr4|nra]).
  assert (D : -3 <= rnd (1 - rnd (rnd (4 * rnd (1 - r)) * rnd (1 - r))) <= 0) by (apply rnd_range; [apply reprm3|apply repr_0|lra]).
  assert (HC3 : C13 * 3 <= 1).
  { clear. unfold C13. rewrite (lit_RV c13 _ _ _ eq_refl). unfold F2R. simpl.
    repeat match goal with
    | |- context [Z.pow_pos ?a ?b] =>
        let v := eval vm_compute in (Z.pow_pos a b) in change (Z.pow_pos a b) with v
    end. lra. }
  repeat split; try tauto; unfold Ulo;
  apply (rnd_range (-1) 0); try apply repr_0; try apply reprm1; split.
  - apply Rle_trans with (C13 * (-3)); [lra | apply Rmult_le_compat_l; lra].
  - replace 0 with (C13 * 0) by ring. apply Rmult_le_compat_l; lra.
  - apply Rle_trans with (C13 * (-3)); [lra | apply Rmult_le_compat_l; lra].
  - replace 0 with (C13 * 0) by ring. apply Rmult_le_compat_l; lra.
Qed.

Lemma Ulo_mono r r' : 0 <= r -> r <= r' -> r' <= 1 / 2 -> Ulo r <= Ulo r'.
Proof.
  intros H1 H2 H3. pose proof C13_range as HC.
  destruct (lo_steps r) as [T [A [B [D _]]]]; [lra|].
  destruct (lo_steps r') as [T' [A' [B' [D' _]]]]; [lra|].
  assert (L0 : rnd (1 - r') <= rnd (1 - r)) by (apply rnd_le; lra).
  assert (L1 : rnd (4 * rnd (1 - r')) <= rnd (4 * rnd (1 - r))) by (apply rnd_le; lra).
  assert (L2 : rnd (rnd (4 * rnd (1 - r')) * rnd (1 - r')) <= rnd (rnd (4 * rnd (1 - r)) * rnd (1 - r))) by (apply rnd_le; nra).
  assert (L3 : rnd (1 - rnd (rnd (4 * rnd (1 - r)) * rnd (1 - r))) <= rnd (1 - rnd (rnd (4 * rnd (1 - r')) * rnd (1 - r')))) by (apply rnd_le; lra).
  unfold Ulo. apply rnd_le. apply Rmult_le_compat_l; lra.
Qed.

(** the translated function computes these mirrors *)
Lemma abs_le_8 r : -8 <= r <= 8 -> Rabs r <= 8.
Proof. intros H. apply Rabs_le. lra. Qed.

Lemma stToUV_hi x : fin x -> 1 / 2 <= RV x <= 1 ->
  fin (s2_stToUV x) /\ RV (s2_stToUV x) = Uhi (RV x).
Proof.
  intros Fx Hx. pose proof C13_range as HC. pose proof ok8 as H8.
  destruct (hi_steps (RV x) Hx) as [A [B [D _]]].
  unfold s2_stToUV.
  assert (E : PrimFloat.leb (0x1p-01)%float x = true).
  { apply fle_leb. split; [apply half_fin|split; [exact Fx|rewrite half_RV; lra]]. }
  rewrite E.
  destruct (mul_inR 8 4%float x H8 four_fin Fx) as [F1 [E1 _]].
  { rewrite four_RV. apply abs_le_8. lra. }
  rewrite four_RV in E1.
  destruct (mul_inR 8 _ x H8 F1 Fx) as [F2 [E2 _]].
  { rewrite E1. apply abs_le_8. nra. }
  rewrite E1 in E2.
  destruct (sub_inR 8 _ 1%float H8 F2 one_fin) as [F3 [E3 _]].
  { rewrite E2, one_RV. apply abs_le_8. lra. }
  rewrite E2, one_RV in E3.
  destruct (mul_inR 8 c13 _ H8 c13_fin F3) as [F4 [E4 _]].
  { rewrite E3. fold C13. apply abs_le_8. nra. }
  rewrite E3 in E4. fold C13 in E4.
  split; [exact F4|exact E4].
Qed.

Lemma stToUV_lo x : fin x -> 0 <= RV x < 1 / 2 ->
  fin (s2_stToUV x) /\ RV (s2_stToUV x) = Ulo (RV x).
Proof.
  intros Fx Hx. pose proof C13_range as HC. pose proof ok8 as H8.
  destruct (lo_steps (RV x)) as [T [A [B [D _]]]]; [lra|].
  unfold s2_stToUV.
  assert (E : PrimFloat.leb (0x1p-01)%float x = false).
  { apply leb_false_iff; auto using fin_nonnan, half_fin.
    rewrite !rank_fin by auto using half_fin. rewrite half_RV. lra. }
  rewrite E.
  destruct (sub_inR 8 1%float x H8 one_fin Fx) as [F0 [E0 _]].
  { rewrite one_RV. apply abs_le_8. lra. }
  rewrite one_RV in E0.
  destruct (mul_inR 8 4%float _ H8 four_fin F0) as [F1 [E1 _]].
  { rewrite four_RV, E0. apply abs_le_8. lra. }
  rewrite four_RV, E0 in E1.
  destruct (mul_inR 8 _ _ H8 F1 F0) as [F2 [E2 _]].
  { rewrite E1, E0. apply abs_le_8. nra. }
  rewrite E1, E0 in E2.
  destruct (sub_inR 8 1%float _ H8 one_fin F2) as [F3 [E3 _]].
  { rewrite one_RV, E2. apply abs_le_8. lra. }
  rewrite one_RV, E2 in E3.
  destruct (mul_inR 8 c13 _ H8 c13_fin F3) as [F4 [E4 _]].
  { rewrite E3. fold C13. apply abs_le_8. nra. }
  rewrite E3 in E4. fold C13 in E4.
  split; [exact F4|exact E4].
Qed.

(** * Main results *)
Theorem stToUV_range x : inR 0 1 x -> inR (-1) 1 (s2_stToUV x).
Proof.
  intros [Fx Hx]. destruct (Rlt_le_dec (RV x) (1 / 2)) as [L|G].
  - destruct (stToUV_lo x Fx) as [F E]; [lra|]. destruct (lo_steps (RV x)) as [_ [_ [_ [_ R]]]]; [lra|].
    split; [exact F|rewrite E; lra].
  - destruct (stToUV_hi x Fx) as [F E]; [lra|]. destruct (hi_steps (RV x)) as [_ [_ [_ R]]]; [lra|].
    split; [exact F|rewrite E; lra].
Qed.

Theorem stToUV_mono x y : inR 0 1 x -> inR 0 1 y -> RV x <= RV y ->
  fle (s2_stToUV x) (s2_stToUV y).
Proof.
  intros [Fx Hx] [Fy Hy] Hxy.
  destruct (Rlt_le_dec (RV x) (1 / 2)) as [Lx|Gx]; destruct (Rlt_le_dec (RV y) (1 / 2)) as [Ly|Gy].
  - destruct (stToUV_lo x Fx) as [F1 E1]; [lra|]. destruct (stToUV_lo y Fy) as [F2 E2]; [lra|].
    split; [exact F1|split; [exact F2|]]. rewrite E1, E2. apply Ulo_mono; lra.
  - destruct (stToUV_lo x Fx) as [F1 E1]; [lra|]. destruct (stToUV_hi y Fy) as [F2 E2]; [lra|].
    split; [exact F1|split; [exact F2|]]. rewrite E1, E2.
    destruct (lo_steps (RV x)) as [_ [_ [_ [_ R1]]]]; [lra|].
    destruct (hi_steps (RV y)) as [_ [_ [_ R2]]]; [lra|]. lra.
  - lra.
  - destruct (stToUV_hi x Fx) as [F1 E1]; [lra|]. destruct (stToUV_hi y Fy) as [F2 E2]; [lra|].
    split; [exact F1|split; [exact F2|]]. rewrite E1, E2. apply Uhi_mono; lra.
Qed.

(** in terms of Go's comparison operators *)
Corollary stToUV_mono_leb x y : inR 0 1 x -> inR 0 1 y -> PrimFloat.leb x y = true ->
  PrimFloat.leb (s2_stToUV x) (s2_stToUV y) = true.
Proof.
  intros Hx Hy H. apply fle_leb. apply stToUV_mono; auto.
  destruct (leb_fle x y (proj1 Hx) (proj1 Hy) H) as [_ [_ L]]. exact L.
Qed.

Example stToUV_mono_nonvacuous : inR 0 1 (0x1p-02)%float /\ inR 0 1 (0x1.8p-01)%float.
Proof.
  split.
  - split; [exact (lit_fin (0x1p-02)%float _ _ _ eq_refl)|].
    assert (E : RV (0x1p-02)%float = 1 / 4) by lit_value. rewrite E. lra.
  - split; [exact (lit_fin (0x1.8p-01)%float _ _ _ eq_refl)|].
    assert (E : RV (0x1.8p-01)%float = 3 / 4) by lit_value. rewrite E. lra.
Qed.
