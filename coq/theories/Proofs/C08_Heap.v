(** C08 — the transcription of container/heap used by queryQueue satisfies [HeapSpec]:
    pushes and pops keep the binary-heap order, a pop returns a minimal entry and the
    remaining entries are exactly the others. *)
From Coq Require Import ZArith List Bool Lia PeanoNat.
From Coq Require Import ZifyNat ZifyBool.
From Geo Require Import Model.EdgeQuery Proofs.C08_Post Proofs.C08_Opt.
Import ListNotations.
Ltac Zify.zify_post_hook ::= Z.div_mod_to_equations.

(** what the search needs from the priority queue *)
Definition HeapSpec (D : Type) (ops : dist_ops D) : Prop := exists HI : list (qentry D) -> Prop,
  HI [] /\
  (forall q a, HI q -> HI (heap_push D ops q a) /\ forall b, In b (heap_push D ops q a) <-> b = a \/ In b q) /\
  (forall q en q', HI q -> heap_pop D ops q = Some (en, q') ->
     HI q' /\ In en q /\ (forall b, In b q -> b = en \/ In b q') /\ (forall b, In b q' -> In b q) /\
     (forall b, In b q' -> d_less ops (q_dist b) (q_dist en) = false)).

Section Heap.
  Variable D : Type.
  Variable ops : dist_ops D.
  Hypothesis OK : DistOK ops.
  Notation qe := (qentry D).
  Notation get := (qnth D ops).
  Notation swap := (qswap D ops).
  Notation qlt := (qless D ops).

  (** a <= b on keys *)
  Definition kle (a b : qe) : Prop := qlt b a = false.
  Lemma kle_refl a : kle a a.
  Proof. unfold kle, qless. apply (less_irrefl _ OK). Qed.
  Lemma kle_trans a b c : kle a b -> kle b c -> kle a c.
  Proof. unfold kle, qless. intros H1 H2. eapply (le_trans _ _ OK); eauto. Qed.
  Lemma qlt_kle a b : qlt a b = true -> kle a b.
  Proof. unfold kle, qless. apply (less_asym _ _ OK). Qed.

  (** *** lists as arrays *)
  Lemma set_nth_length {A} (l : list A) i v : length (set_nth l i v) = length l.
  Proof. revert i. induction l as [|a l IH]; intros [|i]; cbn; auto. Qed.

  Lemma nth_set_nth {A} (l : list A) i v k d : i < length l ->
    nth k (set_nth l i v) d = if k =? i then v else nth k l d.
  Proof.
    revert i k. induction l as [|a l IH]; intros i k H; cbn in H; [lia|].
    destruct i as [|i], k as [|k]; cbn; auto. apply IH. lia.
  Qed.

  Lemma swap_length l i j : length (swap l i j) = length l.
  Proof. unfold qswap. rewrite !set_nth_length. reflexivity. Qed.

  Lemma get_swap l i j k : i < length l -> j < length l ->
    get (swap l i j) k = if k =? j then get l i else if k =? i then get l j else get l k.
  Proof.
    intros Hi Hj. unfold qswap, qnth. rewrite nth_set_nth by (rewrite set_nth_length; exact Hj).
    destruct (k =? j); [reflexivity|]. rewrite nth_set_nth by exact Hi. reflexivity.
  Qed.

  Lemma in_get l b : In b l <-> exists k, k < length l /\ get l k = b.
  Proof.
    unfold qnth. split.
    - intros H. destruct (In_nth l b (qdummy D ops) H) as (k & Hk & Ek). exists k. auto.
    - intros (k & Hk & <-). apply nth_In. exact Hk.
  Qed.

  Lemma swap_in l i j b : i < length l -> j < length l -> (In b (swap l i j) <-> In b l).
  Proof.
    intros Hi Hj. rewrite !in_get. rewrite swap_length. split; intros (k & Hk & E).
    - rewrite get_swap in E by assumption.
      destruct (k =? j) eqn:E1; [exists i; auto|]. destruct (k =? i) eqn:E2; [exists j; auto|]. exists k; auto.
    - destruct (Nat.eq_dec k i) as [->|Ni].
      + exists j. split; [exact Hj|]. rewrite get_swap by assumption. rewrite Nat.eqb_refl. exact E.
      + destruct (Nat.eq_dec k j) as [->|Nj].
        * exists i. split; [exact Hi|]. rewrite get_swap by assumption.
          destruct (i =? j) eqn:E1; [apply Nat.eqb_eq in E1; rewrite E1; exact E|]. rewrite Nat.eqb_refl. exact E.
        * exists k. split; [exact Hk|]. rewrite get_swap by assumption.
          apply Nat.eqb_neq in Ni, Nj. rewrite Nj, Ni. exact E.
  Qed.

  (** *** heap order on the first [n] positions *)
  Definition par (k : nat) : nat := (k - 1) / 2.
  Definition heap_lt (l : list qe) (n : nat) : Prop := forall k, 0 < k < n -> kle (get l (par k)) (get l k).
  Definition HI (l : list qe) : Prop := heap_lt l (length l).

  Lemma root_min l n : heap_lt l n -> forall k, k < n -> kle (get l 0) (get l k).
  Proof.
    intros H k. induction k as [k IH] using (well_founded_induction Wf_nat.lt_wf). intros Hk.
    destruct k as [|k]; [apply kle_refl|].
    eapply kle_trans; [apply IH; unfold par; [|]|apply H; lia]; unfold par; lia.
  Qed.

  Ltac eqb_solve :=
    repeat match goal with
    | |- context [?a =? ?b] =>
      (replace (a =? b) with true by (symmetry; apply Nat.eqb_eq; unfold par in *; lia)) ||
      (replace (a =? b) with false by (symmetry; apply Nat.eqb_neq; unfold par in *; lia))
    end.

  (** *** sift-up *)
  Definition up_pre (l : list qe) (j : nat) : Prop :=
    (forall k, 0 < k < length l -> k <> j -> kle (get l (par k)) (get l k)) /\
    (forall k, 0 < k < length l -> par k = j -> 0 < j -> kle (get l (par j)) (get l k)).

  Lemma heap_up_spec fuel : forall l j, j < fuel -> j < length l -> up_pre l j ->
    HI (heap_up D ops fuel l j) /\ length (heap_up D ops fuel l j) = length l /\
    forall b, In b (heap_up D ops fuel l j) <-> In b l.
  Proof.
    induction fuel as [|f IH]; intros l j Hf Hj [P1 P2]; [lia|].
    cbn [heap_up]. fold (par j).
    destruct ((par j =? j) || negb (qlt (get l j) (get l (par j)))) eqn:C.
    - split; [|split; [reflexivity|tauto]].
      intros k Hk. destruct (Nat.eq_dec k j) as [->|N]; [|apply P1; assumption].
      apply orb_prop in C. destruct C as [C|C].
      + apply Nat.eqb_eq in C. unfold par in C. lia.
      + apply negb_true_iff in C. exact C.
    - apply orb_false_iff in C. destruct C as [C1 C2]. apply Nat.eqb_neq in C1. apply negb_false_iff in C2.
      assert (J0 : 0 < j) by (unfold par in C1; lia).
      assert (Hi : par j < length l) by (unfold par; lia).
      destruct (IH (swap l (par j) j) (par j)) as (H & L & M).
      + unfold par. lia.
      + rewrite swap_length. exact Hi.
      + split.
        * intros k Hk Nk. rewrite swap_length in Hk. rewrite !get_swap by assumption.
          destruct (Nat.eq_dec k j) as [->|Nj].
          { eqb_solve. apply qlt_kle. exact C2. }
          destruct (Nat.eq_dec (par k) j) as [Ej|Nej].
          { eqb_solve. apply P2; [exact Hk|exact Ej|exact J0]. }
          destruct (Nat.eq_dec (par k) (par j)) as [Ei|Nei].
          { eqb_solve.
            eapply kle_trans; [apply qlt_kle; exact C2|]. rewrite <- Ei. apply P1; assumption. }
          eqb_solve. apply P1; assumption.
        * intros k Hk Ek I0. rewrite swap_length in Hk. rewrite !get_swap by assumption.
          assert (Epi : kle (get l (par (par j))) (get l (par j))) by (apply P1; unfold par in *; lia).
          destruct (Nat.eq_dec k j) as [->|Nj].
          { eqb_solve. exact Epi. }
          eqb_solve. eapply kle_trans; [exact Epi|]. rewrite <- Ek. apply P1; [exact Hk|exact Nj].
      + split; [exact H|]. split; [rewrite L; apply swap_length|].
        intros b. rewrite M. apply swap_in; assumption.
  Qed.

  (** Push *)
  Lemma get_app_l (l : list qe) a k : k < length l -> get (l ++ [a]) k = get l k.
  Proof. intros H. unfold qnth. apply app_nth1. exact H. Qed.

  Lemma heap_push_spec q a : HI q ->
    HI (heap_push D ops q a) /\ forall b, In b (heap_push D ops q a) <-> b = a \/ In b q.
  Proof.
    intros H. unfold heap_push.
    assert (Len : length (q ++ [a]) = S (length q)) by (rewrite app_length; cbn; lia).
    destruct (heap_up_spec (length (q ++ [a])) (q ++ [a]) (length (q ++ [a]) - 1)) as (H' & _ & M).
    - lia.
    - lia.
    - rewrite Len. replace (S (length q) - 1) with (length q) by lia. split.
      + intros k Hk Nk. rewrite Len in Hk. rewrite !get_app_l by (unfold par; lia). apply H. lia.
      + intros k Hk Ek _. rewrite Len in Hk. unfold par in Ek. lia.
    - split; [exact H'|]. intros b. rewrite M. rewrite in_app_iff. cbn. intuition congruence.
  Qed.

  (** *** sift-down *)
  Definition down_pre (l : list qe) (i n : nat) : Prop :=
    (forall k, 0 < k < n -> par k <> i -> kle (get l (par k)) (get l k)) /\
    (forall k, 0 < k < n -> par k = i -> 0 < i -> kle (get l (par i)) (get l k)).

  (** one step: position [i] has children; [j] is the smaller child and is smaller than [i] *)
  Lemma down_step l i j n : n <= length l -> i < n -> j < n -> par j = i -> 0 < j ->
    down_pre l i n -> qlt (get l j) (get l i) = true ->
    (forall s, 0 < s < n -> par s = i -> s <> j -> kle (get l j) (get l s)) ->
    down_pre (swap l i j) j n.
  Proof.
    intros Hn Hi Hj Pj J0 [P1 P2] Lt Sib.
    assert (Li : i < length l) by lia. assert (Lj : j < length l) by lia.
    split.
    - intros k Hk Nk. rewrite !get_swap by assumption.
      destruct (Nat.eq_dec k j) as [->|Nj].
      { eqb_solve. apply qlt_kle. exact Lt. }
      destruct (Nat.eq_dec k i) as [->|Ni].
      { eqb_solve. apply (P2 j); [lia|exact Pj|lia]. }
      destruct (Nat.eq_dec (par k) i) as [Ei|Nei].
      { eqb_solve. apply Sib; assumption. }
      eqb_solve. apply P1; assumption.
    - intros k Hk Ek _. rewrite !get_swap by assumption. eqb_solve.
      rewrite <- Ek. apply P1; [exact Hk|unfold par in *; lia].
  Qed.

  Lemma heap_down_spec fuel : forall l i n, n <= length l -> n <= fuel + i -> down_pre l i n ->
    heap_lt (heap_down D ops fuel l i n) n /\ length (heap_down D ops fuel l i n) = length l /\
    (forall b, In b (heap_down D ops fuel l i n) <-> In b l) /\
    (forall k, n <= k -> get (heap_down D ops fuel l i n) k = get l k).
  Proof.
    induction fuel as [|f IH]; intros l i n Hn Hf [P1 P2].
    { cbn. split; [|split; [reflexivity|split; [tauto|reflexivity]]].
      intros k Hk. apply P1; [exact Hk|unfold par; lia]. }
    cbn [heap_down].
    destruct (Nat.leb n (2 * i + 1)) eqn:C0.
    { apply Nat.leb_le in C0. split; [|split; [reflexivity|split; [tauto|reflexivity]]].
      intros k Hk. apply P1; [exact Hk|unfold par; lia]. }
    apply Nat.leb_gt in C0.
    set (j1 := 2 * i + 1) in *. set (j2 := S j1).
    set (j := if Nat.ltb j2 n && qlt (get l j2) (get l j1) then j2 else j1).
    assert (Hj : (j = j2 /\ j2 < n /\ qlt (get l j2) (get l j1) = true) \/
                 (j = j1 /\ (j2 < n -> qlt (get l j2) (get l j1) = false))).
    { subst j. destruct (Nat.ltb j2 n && qlt (get l j2) (get l j1)) eqn:C1.
      - left. apply andb_prop in C1. destruct C1 as [A B]. apply Nat.ltb_lt in A. auto.
      - right. split; [reflexivity|]. intros A. apply andb_false_iff in C1. destruct C1 as [B|B]; [|exact B].
        apply Nat.ltb_ge in B. lia. }
    clearbody j.
    assert (Jn : j < n) by (destruct Hj as [(-> & A & _)|(-> & _)]; subst j2 j1; lia).
    assert (Pj : par j = i) by (destruct Hj as [(-> & _)|(-> & _)]; subst j2 j1; unfold par; lia).
    assert (Sib : forall s, 0 < s < n -> par s = i -> s <> j -> kle (get l j) (get l s)).
    { intros s Hs Es Ns. destruct Hj as [(-> & A & B)|(-> & B)].
      - assert (s = j1) by (subst j2 j1; unfold par in Es; lia). subst s. apply qlt_kle. exact B.
      - assert (s = j2) by (subst j2 j1; unfold par in Es; lia). subst s. apply B. lia. }
    destruct (negb (qlt (get l j) (get l i))) eqn:C2.
    { apply negb_true_iff in C2. split; [|split; [reflexivity|split; [tauto|reflexivity]]].
      intros k Hk. destruct (Nat.eq_dec (par k) i) as [Ei|Nei]; [|apply P1; assumption].
      rewrite Ei. destruct (Nat.eq_dec k j) as [->|Nj]; [exact C2|].
      eapply kle_trans; [exact C2|apply Sib; assumption]. }
    apply negb_false_iff in C2.
    assert (J0 : 0 < j) by (unfold par in Pj; destruct Hj as [(-> & _)|(-> & _)]; subst j2 j1; lia).
    assert (Hi : i < n) by (unfold par in Pj; lia).
    destruct (IH (swap l i j) j n) as (H & L & M & O).
    - rewrite swap_length. exact Hn.
    - unfold par in Pj. lia.
    - apply down_step; try assumption. split; assumption.
    - split; [exact H|]. split; [rewrite L; apply swap_length|]. split.
      + intros b. rewrite M. apply swap_in; lia.
      + intros k Hk. rewrite (O k Hk). rewrite get_swap by lia. eqb_solve. reflexivity.
  Qed.

  (** *** Pop *)
  Lemma get_firstn (l : list qe) n k : k < n -> get (firstn n l) k = get l k.
  Proof.
    unfold qnth. revert n k. induction l as [|a l IH]; intros n k H; destruct n; cbn; try lia; [destruct k; reflexivity|].
    destruct k; [reflexivity|]. apply IH. lia.
  Qed.

  Lemma heap_pop_spec q en q' : HI q -> heap_pop D ops q = Some (en, q') ->
    HI q' /\ In en q /\ (forall b, In b q -> b = en \/ In b q') /\ (forall b, In b q' -> In b q) /\
    (forall b, In b q' -> d_less ops (q_dist b) (q_dist en) = false).
  Proof.
    intros H E. unfold heap_pop in E. destruct q as [|a0 t0] eqn:Eq; [discriminate|]. rewrite <- Eq in *.
    assert (Len : 0 < length q) by (rewrite Eq; cbn; lia). clear Eq a0 t0.
    set (n := length q - 1) in *.
    set (l1 := swap q 0 n) in *.
    assert (L1 : length l1 = length q) by apply swap_length.
    destruct (heap_down_spec (length q) l1 0 n) as (Hd & L2 & M2 & O2).
    - lia.
    - lia.
    - split; [|intros; lia]. intros k Hk Nk. subst l1. rewrite !get_swap by lia. eqb_solve.
      apply H. lia.
    - set (l2 := heap_down D ops (length q) l1 0 n) in *.
      injection E as <- <-.
      assert (En : get l2 n = get q 0).
      { rewrite (O2 n (le_n n)). subst l1. rewrite get_swap by lia. rewrite Nat.eqb_refl. reflexivity. }
      assert (Lq' : length (firstn n l2) = n) by (rewrite firstn_length; lia).
      assert (Min : forall b, In b q -> kle (get q 0) b).
      { intros b Hb. apply in_get in Hb. destruct Hb as (k & Hk & <-). apply (root_min q (length q) H). exact Hk. }
      assert (Mem : forall b, In b l2 <-> In b q).
      { intros b. rewrite M2. subst l1. apply swap_in; lia. }
      split; [|split; [|split; [|split]]].
      + intros k Hk. rewrite Lq' in Hk. rewrite !get_firstn by (unfold par; lia). apply Hd. exact Hk.
      + rewrite En. apply in_get. exists 0. split; [exact Len|reflexivity].
      + intros b Hb. apply Mem in Hb. apply in_get in Hb. destruct Hb as (k & Hk & Ek).
        destruct (Nat.eq_dec k n) as [->|Nk]; [left; symmetry; exact Ek|].
        right. apply in_get. exists k. rewrite Lq'. split; [lia|]. rewrite get_firstn by lia. exact Ek.
      + intros b Hb. apply Mem. apply in_get in Hb. destruct Hb as (k & Hk & Ek). rewrite Lq' in Hk.
        rewrite get_firstn in Ek by exact Hk. apply in_get. exists k. split; [lia|exact Ek].
      + intros b Hb. rewrite En.
        assert (Hq : In b q).
        { apply Mem. apply in_get in Hb. destruct Hb as (k & Hk & Ek). rewrite Lq' in Hk.
          rewrite get_firstn in Ek by exact Hk. apply in_get. exists k. split; [lia|exact Ek]. }
        exact (Min b Hq).
  Qed.

  Theorem heap_spec : HeapSpec D ops.
  Proof.
    exists HI. split; [|split].
    - intros k Hk. cbn in Hk. lia.
    - intros q a H. apply heap_push_spec. exact H.
    - intros q en q' H E. apply heap_pop_spec; assumption.
  Qed.

  (** *** any weighted sum over the queue is kept by the heap operations (nothing is lost or duplicated) *)
  Section Sum.
    Variable w : qe -> Z.
    Fixpoint sumw (l : list qe) : Z := match l with [] => 0%Z | a :: t => (w a + sumw t)%Z end.

    Lemma sumw_app l1 l2 : sumw (l1 ++ l2) = (sumw l1 + sumw l2)%Z.
    Proof. induction l1 as [|a l IH]; cbn; [reflexivity|]. rewrite IH. lia. Qed.

    Lemma sumw_set_nth l i v : i < length l -> sumw (set_nth l i v) = (sumw l - w (get l i) + w v)%Z.
    Proof.
      unfold qnth. revert i. induction l as [|a l IH]; intros i H; cbn in H; [lia|].
      destruct i as [|i]; cbn; [lia|]. rewrite IH by lia. lia.
    Qed.

    Lemma sumw_swap l i j : i < length l -> j < length l -> sumw (swap l i j) = sumw l.
    Proof.
      intros Hi Hj. unfold qswap. rewrite sumw_set_nth by (rewrite set_nth_length; exact Hj).
      rewrite sumw_set_nth by exact Hi.
      assert (E : get (set_nth l i (get l j)) j = if j =? i then get l j else get l j).
      { unfold qnth at 1. rewrite nth_set_nth by exact Hi. destruct (j =? i); reflexivity. }
      rewrite E. destruct (j =? i); lia.
    Qed.

    Lemma sumw_up fuel : forall l j, j < length l -> sumw (heap_up D ops fuel l j) = sumw l.
    Proof.
      induction fuel as [|f IH]; intros l j Hj; [reflexivity|]. cbn [heap_up]. fold (par j).
      destruct ((par j =? j) || negb (qlt (get l j) (get l (par j)))); [reflexivity|].
      assert (Hi : par j < length l) by (unfold par; lia).
      rewrite IH by (rewrite swap_length; exact Hi). apply sumw_swap; assumption.
    Qed.

    Lemma sumw_down fuel : forall l i n, n <= length l -> sumw (heap_down D ops fuel l i n) = sumw l.
    Proof.
      induction fuel as [|f IH]; intros l i n Hn; [reflexivity|]. cbn [heap_down].
      destruct (Nat.leb n (2 * i + 1)) eqn:C0; [reflexivity|]. apply Nat.leb_gt in C0.
      set (j := if Nat.ltb (S (2 * i + 1)) n && qlt (get l (S (2 * i + 1))) (get l (2 * i + 1)) then S (2 * i + 1) else 2 * i + 1).
      assert (Jn : j < n).
      { subst j. destruct (Nat.ltb (S (2 * i + 1)) n && qlt (get l (S (2 * i + 1))) (get l (2 * i + 1))) eqn:C1; [|lia].
        apply andb_prop in C1. destruct C1 as [A _]. apply Nat.ltb_lt in A. exact A. }
      clearbody j.
      destruct (negb (qlt (get l j) (get l i))); [reflexivity|].
      rewrite IH by (rewrite swap_length; exact Hn). apply sumw_swap; lia.
    Qed.

    Lemma heap_down_length fuel : forall l i n, length (heap_down D ops fuel l i n) = length l.
    Proof.
      induction fuel as [|f IH]; intros l i n; [reflexivity|]. cbn [heap_down].
      destruct (Nat.leb n (2 * i + 1)); [reflexivity|].
      match goal with |- context [negb (qlt (get l ?j) (get l i))] => destruct (negb (qlt (get l j) (get l i))) end; [reflexivity|].
      rewrite IH. apply swap_length.
    Qed.

    Lemma sumw_push q a : sumw (heap_push D ops q a) = (w a + sumw q)%Z.
    Proof.
      unfold heap_push. assert (Len : length (q ++ [a]) = S (length q)) by (rewrite app_length; cbn; lia).
      rewrite sumw_up by lia. rewrite sumw_app. cbn. lia.
    Qed.

    Lemma sumw_firstn_last l n : length l = S n -> sumw l = (sumw (firstn n l) + w (get l n))%Z.
    Proof.
      intros H. rewrite <- (firstn_skipn n l) at 1. rewrite sumw_app. f_equal.
      unfold qnth. rewrite <- (firstn_skipn n l) at 2. rewrite app_nth2 by (rewrite firstn_length; lia).
      rewrite firstn_length. replace (n - Nat.min n (length l)) with 0 by lia.
      destruct (skipn n l) as [|b t] eqn:E.
      - exfalso. assert (length (skipn n l) = 1) by (rewrite skipn_length; lia). rewrite E in H0. discriminate.
      - assert (length (skipn n l) = 1) by (rewrite skipn_length; lia). rewrite E in H0. destruct t; [|discriminate]. cbn. lia.
    Qed.

    Lemma sumw_pop q en q' : heap_pop D ops q = Some (en, q') -> sumw q = (w en + sumw q')%Z.
    Proof.
      intros E. unfold heap_pop in E. destruct q as [|a0 t0] eqn:Eq; [discriminate|]. rewrite <- Eq in *.
      assert (Len : 0 < length q) by (rewrite Eq; cbn; lia). clear Eq a0 t0.
      injection E as <- <-.
      set (n := length q - 1). set (l1 := swap q 0 n). set (l2 := heap_down D ops (length q) l1 0 n).
      assert (L1 : length l1 = length q) by apply swap_length.
      assert (S2 : sumw l2 = sumw q).
      { subst l2. rewrite sumw_down by lia. subst l1. apply sumw_swap; lia. }
      assert (L2 : length l2 = S n) by (subst l2; rewrite heap_down_length, L1; lia).
      rewrite <- S2. rewrite (sumw_firstn_last l2 n L2). lia.
    Qed.
  End Sum.
End Heap.
