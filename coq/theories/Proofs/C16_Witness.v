(** C16: witnesses, all by evaluation of the model ([vm_compute]).
    - the variants of the code before the repairs in /repo (15c67df, 6031b18) violate the
      property ([_old_refuted]); the repaired model does not on the same inputs;
    - the hemisphere sentence is false of the current code for edges within ~1e-7 rad of
      180 degrees ([hemisphere_refuted], KNOWN_FINDINGS kind Intersection.antipode);
    - compareEdges is not antisymmetric on edges that share their smaller endpoint. *)
From Coq Require Import ZArith Floats Bool List.
From Geo Require Import Base.GoPrim Gen.R3 Gen.S2Point Gen.Isect Model.IsectExact.
Local Open Scope float_scope.

Definition P3 (x y z : float) : s2_Point := mk_s2_Point (mk_r3_Vector x y z).

(** ** long edges whose planes differ by d = 1e-170 (resp. 1e-160) radians *)
Definition d170 := 0x1.3529ba7d19eafp-565.
Definition d160 := 0x1.67e9c127b6e74p-532.
Definition u_a0 := P3 1 0 0.
Definition u_a1 := P3 0 1 0.
Definition u_b0 d := P3 1 0 (- d).
Definition u_b1 d := P3 0 1 d.

(** before 15c67df the exact vector (d,d,0) was rounded to float64 before normalising, its
    squared norm underflowed, the zero vector was taken for "collinear" and the endpoint
    (0,1,0) came back, 45 degrees from the crossing point (1,1,0)/sqrt 2 *)
Theorem exact_underflow_old_refuted :
  s2_Point_eqb (s2_intersectionExact_old_vector u_a0 u_a1 (u_b0 d170) (u_b1 d170)) (P3 0 1 0) = true /\
  isect_exact_collinear u_a0 u_a1 (u_b0 d170) (u_b1 d170) = false /\
  s2_Point_eqb (s2_Intersection u_a0 u_a1 (u_b0 d170) (u_b1 d170))
               (P3 0x1.6a09e667f3bccp-1 0x1.6a09e667f3bccp-1 0) = true.
Proof. vm_compute. repeat split. Qed.

(** since e2243a8 the stable path refuses a vector it cannot normalise *)
Theorem stable_underflow_rejected :
  snd (s2_intersectionStable u_a0 u_a1 (u_b0 d160) (u_b1 d160)) = false /\
  s2_Point_eqb (s2_Intersection u_a0 u_a1 (u_b0 d160) (u_b1 d160))
               (P3 0x1.6a09e667f3bcdp-1 0x1.6a09e667f3bcdp-1 0) = true.
Proof. vm_compute. repeat split. Qed.

(** ** zero signs: before 6031b18 the result was == but not bit-identical across orders *)
Definition z_a0 := P3 1 (-0x1.9b604aaaca626p-200) 0.
Definition z_a1 := P3 1 0x1.9b604aaaca626p-200 0.
Definition z_b0 := P3 1 0 (-0x1.9b604aaaca626p-200).
Definition z_b1 := P3 1 0x1.9b604aaaca626p-201 0x1.9b604aaaca626p-200.

Theorem zero_sign_old_refuted :
  s2_Point_eqb (s2_Intersection_old_signed z_a0 z_a1 z_b0 z_b1) (s2_Intersection_old_signed z_b0 z_b1 z_a0 z_a1) = true /\
  s2_Point_eqbits (s2_Intersection_old_signed z_a0 z_a1 z_b0 z_b1) (s2_Intersection_old_signed z_b0 z_b1 z_a0 z_a1) = false /\
  s2_Point_eqbits (s2_Intersection z_a0 z_a1 z_b0 z_b1) (s2_Intersection z_b0 z_b1 z_a0 z_a1) = true.
Proof. vm_compute. repeat split. Qed.

(** ** hemisphere: edges within ~1e-12 rad of 180 degrees *)
Definition h_A := P3 0x1.95909c3e8f0fep-01 (-0x1.f2a763749576p-02) (-0x1.78d0655c03954p-02).
Definition h_B := P3 (-0x1.95909c3e9063dp-01) 0x1.f2a76374960d6p-02 0x1.78d0655bfd158p-02.
Definition h_C := P3 0x1.95909c3e859d8p-01 (-0x1.f2a76374bc30ep-02) (-0x1.78d0655bf9001p-02).
Definition h_D := P3 (-0x1.95909c3e85a31p-01) 0x1.f2a76374bc336p-02 0x1.78d0655bf8e4cp-02.

(** [crossing_sign a0 a1 b0 b1] = s <> 0 when the four exact orientations ACB, CBD, BDA, DAC
    all equal s: the edges cross at s * (a0 x a1) x (b0 x b1) (Proofs/C16_Exact.v) *)
Definition crossing_sign (a0 a1 b0 b1 : s2_Point) : Z :=
  let s := sign_exact a0 b0 a1 in
  if (Z.eqb (sign_exact b0 a1 b1) s && Z.eqb (sign_exact a1 b1 a0) s && Z.eqb (sign_exact b1 a0 b0) s)%bool then s else 0%Z.

(** sign of (result . s * exact crossing direction): 1 = on the side of the crossing point *)
Definition side_of_crossing (r a0 a1 b0 b1 : s2_Point) : Z :=
  (crossing_sign a0 a1 b0 b1 *
   bigf_sgn (pvec_dot (pvec_of_vector (s2_Point_Vector r)) (isect_xP a0 a1 b0 b1)))%Z.

Theorem hemisphere_refuted :
  crossing_sign h_A h_B h_C h_D = 1%Z /\
  side_of_crossing (s2_Intersection h_A h_B h_C h_D) h_A h_B h_C h_D = (-1)%Z.
Proof. vm_compute. split; reflexivity. Qed.

(** on the other witnesses the result is on the correct side *)
Example hemisphere_ok_example :
  side_of_crossing (s2_Intersection z_a0 z_a1 z_b0 z_b1) z_a0 z_a1 z_b0 z_b1 = 1%Z /\
  side_of_crossing (s2_Intersection u_a0 u_a1 (u_b0 d170) (u_b1 d170)) u_a0 u_a1 (u_b0 d170) (u_b1 d170) = 1%Z.
Proof. vm_compute. split; reflexivity. Qed.

(** ** compareEdges: "a total ordering on edges" except when the smaller endpoints coincide *)
Theorem compareEdges_shared_min_not_antisymmetric :
  let o := P3 0 0 1 in let p := P3 0 1 0 in let q := P3 1 0 0 in
  s2_compareEdges o p o q = true /\ s2_compareEdges o q o p = true.
Proof. vm_compute. split; reflexivity. Qed.

(** ** the acceptance threshold of the stable path (intersectionError = 8 * dblError): one crossing
    pair whose estimated error is 9.25 * dblError (rejected) and one with 7.10 * dblError
    (accepted).  Re-checked against the regenerated translation on every run, so a change of
    the constant in the Go source breaks this obligation. *)
Definition t_rej : s2_Point * s2_Point * s2_Point * s2_Point :=
  (P3 (-0x1.cf12b00871e7ap-01) (-0x1.0a5a922fb81aap-02) (-0x1.5a3e9718142dep-02),
   P3 (-0x1.1b1a2d5ef2ff3p-01) (-0x1.823bfec4d882bp-01) (0x1.6a5399efba4f5p-02),
   P3 (-0x1.ad84c3aae6182p-01) (-0x1.13cb0de1eb61p-01) (-0x1.3f96944803428p-04),
   P3 (-0x1.6d87778935d1ap-01) (-0x1.34f99f1216938p-01) (0x1.6baf8b33bfe12p-02)).
Definition t_acc : s2_Point * s2_Point * s2_Point * s2_Point :=
  (P3 (0x1.3a8c03da51524p-01) (-0x1.42b789ab981f4p-03) (-0x1.8bd8e8d9b6c1ep-01),
   P3 (0x1.482e554909908p-05) (-0x1.c4c1d2ed11cp-01) (-0x1.dc610f8cea30ep-02),
   P3 (0x1.5eacda8de04d2p-01) (-0x1.8747bd3f35196p-02) (-0x1.3da41c6fc48f6p-01),
   P3 (0x1.4a7756ac3e9f8p-05) (-0x1.1129f31ffc401p-01) (-0x1.b08c9fd66e72cp-01)).
Definition stable4 (q : s2_Point * s2_Point * s2_Point * s2_Point) :=
  let '(a0, a1, b0, b1) := q in s2_intersectionStable a0 a1 b0 b1.

Theorem stable_threshold_witness : snd (stable4 t_rej) = false /\ snd (stable4 t_acc) = true.
Proof. vm_compute. split; reflexivity. Qed.
