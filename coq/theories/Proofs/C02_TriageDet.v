(** C02. H-TRIAGE-DET DISCHARGED: triageSign never returns a wrong non-zero sign on unit-length
    inputs ([triage_sound], closed). The float evaluation of (A x B) . C by r3.Vector.Cross / Dot
    is connected, operation by operation (Proofs/C02_RelErr.v, Flocq), to the real-number error
    bound [triage_real] (Proofs/C02_TriageReal.v); the last addition is handled by monotonicity
    of rounding ([fadd_gt] / [fadd_lt]), so no error term is paid for it. The constant of the Go
    source enters only through the closed inequality [triage_const_ok] (K_TRIAGE <= the literal). *)
From Coq Require Import ZArith Reals Floats Lra Lia Bool Psatz.
From Flocq Require Import Core.Core.
From Geo Require Import Base.GoPrim Base.F64 Base.Exact Gen.R3 Gen.S2Pred Model.Pred
  Proofs.C02_Exact Proofs.C02_Float Proofs.C02_RelErr Proofs.C02_TriageReal.
Local Open Scope R_scope.

Definition eta : R := bpow radix2 (-1075).
Definition theta : R := / 2 ^ 44.
(** dyadic stand-ins: S3^2 >= 4/3 (1+theta)^3, N3^2 >= (1+theta)^3 *)
Definition S3 : R := 40627413393514 / 2 ^ 45.
Definition N3 : R := 1 + / 2 ^ 43.

Lemma eta_bounds : 0 <= eta /\ eta <= u * u.
Proof. split; [apply bpow_ge_0|apply eta_le_uu]. Qed.

Lemma u_tiny : u <= / 1000000.
Proof. rewrite u_val. lra. Qed.

Notation nearF := (near u eta).

Lemma err_near z d h : Rabs d <= u -> Rabs h <= eta -> nearF (z * (1 + d) + h) z.
Proof.
  intros Hd Hh. unfold near. replace (z * (1 + d) + h - z) with (z * d + h) by ring.
  eapply Rle_trans; [apply Rabs_triang|]. rewrite Rabs_mult.
  assert (Rabs z * Rabs d <= Rabs z * u) by (apply Rmult_le_compat_l; [apply Rabs_pos|exact Hd]). lra.
Qed.

Lemma near_abs x e B : nearF x e -> Rabs e <= B -> B <= 1000000 -> Rabs x <= B + 1.
Proof.
  unfold near. intros H He HB. pose proof u_small as Hu. pose proof u_tiny as Ut. destruct eta_bounds as [E0 E1].
  assert (u * u <= / 1000) by nra.
  assert (Rabs x <= Rabs e + Rabs (x - e)).
  { replace x with (e + (x - e)) at 1 by ring. apply Rabs_triang. }
  assert (U9 : u <= / 1000000000) by (rewrite u_val; lra).
  pose proof (Rabs_pos e). assert (u * Rabs e <= / 1000000000 * 1000000) by (apply Rmult_le_compat; lra). lra.
Qed.

Lemma ok1000 z : Rabs z <= 1000000 -> Rabs z <= bpow radix2 1023.
Proof.
  intros H. eapply Rle_trans; [exact H|]. apply Rle_trans with (bpow radix2 20); [simpl; lra|apply bpow_le; lia].
Qed.

Lemma mul_step x y B1 B2 : ffinite x = true -> ffinite y = true -> Rabs (FR x) <= B1 -> Rabs (FR y) <= B2 ->
  B1 * B2 <= 1000000 ->
  ffinite (x * y)%float = true /\ nearF (FR (x * y)%float) (FR x * FR y) /\ Rabs (FR (x * y)%float) <= B1 * B2 + 1.
Proof.
  intros Fx Fy Hx Hy HB.
  assert (Hp : Rabs (FR x * FR y) <= B1 * B2).
  { rewrite Rabs_mult. apply Rmult_le_compat; try apply Rabs_pos; assumption. }
  destruct (fmul_err x y Fx Fy) as (F & d & h & Hd & Hh & E); [apply ok1000; lra|].
  split; [exact F|]. assert (N : nearF (FR (x * y)%float) (FR x * FR y)) by (rewrite E; now apply err_near).
  split; [exact N|]. now apply (near_abs _ _ _ N).
Qed.

Lemma sub_step x y B1 B2 : ffinite x = true -> ffinite y = true -> Rabs (FR x) <= B1 -> Rabs (FR y) <= B2 ->
  B1 + B2 <= 1000000 ->
  ffinite (x - y)%float = true /\ nearF (FR (x - y)%float) (FR x - FR y) /\ Rabs (FR (x - y)%float) <= B1 + B2 + 1.
Proof.
  intros Fx Fy Hx Hy HB.
  assert (Hp : Rabs (FR x - FR y) <= B1 + B2).
  { unfold Rminus. eapply Rle_trans; [apply Rabs_triang|]. rewrite Rabs_Ropp. lra. }
  destruct (fsub_err x y Fx Fy) as (F & d & h & Hd & Hh & E); [apply ok1000; lra|].
  split; [exact F|]. assert (N : nearF (FR (x - y)%float) (FR x - FR y)) by (rewrite E; now apply err_near).
  split; [exact N|]. now apply (near_abs _ _ _ N).
Qed.

Lemma add_step x y B1 B2 : ffinite x = true -> ffinite y = true -> Rabs (FR x) <= B1 -> Rabs (FR y) <= B2 ->
  B1 + B2 <= 1000000 ->
  ffinite (x + y)%float = true /\ nearF (FR (x + y)%float) (FR x + FR y) /\ Rabs (FR (x + y)%float) <= B1 + B2 + 1.
Proof.
  intros Fx Fy Hx Hy HB.
  assert (Hp : Rabs (FR x + FR y) <= B1 + B2) by (eapply Rle_trans; [apply Rabs_triang|]; lra).
  destruct (fadd_err x y Fx Fy) as (F & d & h & Hd & Hh & E); [apply ok1000; lra|].
  split; [exact F|]. assert (N : nearF (FR (x + y)%float) (FR x + FR y)) by (rewrite E; now apply err_near).
  split; [exact N|]. now apply (near_abs _ _ _ N).
Qed.

(** closed numeric facts *)
Lemma theta_ok : 0 <= theta /\ theta <= / 1000000.
Proof. unfold theta. split; lra. Qed.
Lemma S3_ok : 0 <= S3 /\ 4 / 3 * ((1 + theta) * (1 + theta)) * (1 + theta) <= S3 * S3.
Proof. unfold S3, theta. split; lra. Qed.
Lemma N3_ok : 0 <= N3 /\ (1 + theta) * (1 + theta) * (1 + theta) <= N3 * N3.
Proof. unfold N3, theta. split; lra. Qed.
Lemma SN_le2 : S3 <= 2 /\ N3 <= 2.
Proof. unfold S3, N3. split; lra. Qed.

(** the error budget is below K_TRIAGE *)
Definition E0 : R := u * (S3 + 5 / 2 * N3) + 60 * (u * u) + 30 * eta.
Lemma E0_le_K : E0 <= D2R K_TRIAGE.
Proof.
  unfold E0. destruct eta_bounds as [H0 H1].
  assert (Hk : D2R K_TRIAGE = 958083 / 2 ^ 18 * u).
  { unfold D2R, K_TRIAGE, u. cbn [dm de]. replace (-71)%Z with (-53 + -18)%Z by lia. rewrite bpow_plus.
    simpl (bpow radix2 (-18)). lra. }
  rewrite Hk. apply Rle_trans with (u * (S3 + 5 / 2 * N3) + 90 * (u * u)); [lra|].
  unfold S3, N3. rewrite u_val. lra.
Qed.

Section Det.
  Variables a b c : s2_Point.
  Hypothesis Ua : unit_pt a.
  Hypothesis Ub : unit_pt b.
  Hypothesis Uc : unit_pt c.

  Let a1 := PX a. Let a2 := PY a. Let a3 := PZ a.
  Let b1 := PX b. Let b2 := PY b. Let b3 := PZ b.
  Let c1 := PX c. Let c2 := PY c. Let c3 := PZ c.

  Lemma unit_norm_le p : unit_pt p -> (PX p)^2 + (PY p)^2 + (PZ p)^2 <= 1 + theta.
  Proof.
    intros [_ H]. apply Rabs_le_inv in H. unfold norm2R, dotR, theta in *. lra.
  Qed.

  Lemma unit_coords p : unit_pt p ->
    ffinite (r3_Vector_X (s2_Point_Vector p)) = true /\ ffinite (r3_Vector_Y (s2_Point_Vector p)) = true /\
    ffinite (r3_Vector_Z (s2_Point_Vector p)) = true /\
    Rabs (PX p) <= 3 / 2 /\ Rabs (PY p) <= 3 / 2 /\ Rabs (PZ p) <= 3 / 2.
  Proof.
    intros U. pose proof (unit_norm_le p U) as N. destruct U as [F _].
    unfold finite, finite_pt, finite_vec in F. apply andb_true_iff in F. destruct F as [F Fz].
    apply andb_true_iff in F. destruct F as [Fx Fy]. repeat split; auto.
    all: destruct theta_ok as [T0 T1]; apply Rabs_le; simpl in N; nra.
  Qed.

  (** the exact sum whose rounding is the float determinant, and its distance to the determinant *)
  Theorem triage_det_core : exists x y,
    ffinite x = true /\ ffinite y = true /\ Rabs (FR x + FR y) <= 1000 /\
    fdet a b c = (x + y)%float /\
    Rabs (FR x + FR y - detR a b c) <= E0 + u / 2 * Rabs (detR a b c).
  Proof.
    destruct (unit_coords a Ua) as (Fa1 & Fa2 & Fa3 & Ba1 & Ba2 & Ba3).
    destruct (unit_coords b Ub) as (Fb1 & Fb2 & Fb3 & Bb1 & Bb2 & Bb3).
    destruct (unit_coords c Uc) as (Fc1 & Fc2 & Fc3 & Bc1 & Bc2 & Bc3).
    pose proof (unit_norm_le a Ua) as NA. pose proof (unit_norm_le b Ub) as NB. pose proof (unit_norm_le c Uc) as NC.
    destruct a as [[ax ay az]], b as [[bx by_ bz]], c as [[cx cy cz]].
    unfold PX, PY, PZ in *. cbn [s2_Point_Vector r3_Vector_X r3_Vector_Y r3_Vector_Z] in *.
    unfold fdet, r3_Vector_Dot, r3_Vector_Cross. cbn [s2_Point_Vector r3_Vector_X r3_Vector_Y r3_Vector_Z].
    (* six products *)
    destruct (mul_step ay bz _ _ Fa2 Fb3 Ba2 Bb3 ltac:(lra)) as (F23 & N23 & M23).
    destruct (mul_step az by_ _ _ Fa3 Fb2 Ba3 Bb2 ltac:(lra)) as (F32 & N32 & M32).
    destruct (mul_step az bx _ _ Fa3 Fb1 Ba3 Bb1 ltac:(lra)) as (F31 & N31 & M31).
    destruct (mul_step ax bz _ _ Fa1 Fb3 Ba1 Bb3 ltac:(lra)) as (F13 & N13 & M13).
    destruct (mul_step ax by_ _ _ Fa1 Fb2 Ba1 Bb2 ltac:(lra)) as (F12 & N12 & M12).
    destruct (mul_step ay bx _ _ Fa2 Fb1 Ba2 Bb1 ltac:(lra)) as (F21 & N21 & M21).
    (* three differences *)
    destruct (sub_step _ _ _ _ F23 F32 M23 M32 ltac:(lra)) as (Fp1 & Np1 & Mp1).
    destruct (sub_step _ _ _ _ F31 F13 M31 M13 ltac:(lra)) as (Fp2 & Np2 & Mp2).
    destruct (sub_step _ _ _ _ F12 F21 M12 M21 ltac:(lra)) as (Fp3 & Np3 & Mp3).
    (* three products with c *)
    destruct (mul_step _ cx _ _ Fp1 Fc1 Mp1 Bc1 ltac:(lra)) as (Fq1 & Nq1 & Mq1).
    destruct (mul_step _ cy _ _ Fp2 Fc2 Mp2 Bc2 ltac:(lra)) as (Fq2 & Nq2 & Mq2).
    destruct (mul_step _ cz _ _ Fp3 Fc3 Mp3 Bc3 ltac:(lra)) as (Fq3 & Nq3 & Mq3).
    (* first addition *)
    destruct (add_step _ _ _ _ Fq1 Fq2 Mq1 Mq2 ltac:(lra)) as (Fs & Ns & Ms).
    eexists. eexists. split; [exact Fs|]. split; [exact Fq3|]. split.
    { eapply Rle_trans; [apply Rabs_triang|]. lra. }
    split; [reflexivity|].
    pose proof theta_ok as [T0 T1]. pose proof u_small as [U0 U1]. destruct eta_bounds as [Et0 Et1].
    pose proof u_tiny as Ut.
    assert (Et2 : eta <= / 1000000) by nra.
    pose proof (triage_real u eta theta U0 Ut Et0 Et2 T0 T1
      (FR ax) (FR ay) (FR az) (FR bx) (FR by_) (FR bz) (FR cx) (FR cy) (FR cz) NA NB NC
      S3 N3 S3_ok N3_ok (proj1 SN_le2) (proj2 SN_le2)
      _ _ _ _ _ _ _ _ _ _ _ _ _ N23 N32 N31 N13 N12 N21 Np1 Np2 Np3 Nq1 Nq2 Nq3 Ns) as H.
    unfold T, det, P1, P2, P3 in H. unfold detR, det3, E0, PX, PY, PZ.
    cbn [s2_Point_Vector r3_Vector_X r3_Vector_Y r3_Vector_Z].
    replace (FR ax * (FR by_ * FR cz - FR bz * FR cy) + FR ay * (FR bz * FR cx - FR bx * FR cz) +
             FR az * (FR bx * FR cy - FR by_ * FR cx))
      with ((FR ay * FR bz - FR az * FR by_) * FR cx + (FR az * FR bx - FR ax * FR bz) * FR cy +
            (FR ax * FR by_ - FR ay * FR bx) * FR cz) by ring.
    unfold Rdiv in *. lra.
  Qed.
End Det.

(** TRIAGE IS SOUND — closed *)
Theorem triage_sound_closed a b c : unit_pt a -> unit_pt b -> unit_pt c ->
  s2_triageSign a b c <> 0%Z -> s2_triageSign a b c = sgnR (detR a b c).
Proof.
  intros Ua Ub Uc. rewrite triage_is. unfold triage_with. cbv zeta.
  destruct (triage_det_core a b c Ua Ub Uc) as (x & y & Fx & Fy & Bxy & E & Herr). rewrite E.
  destruct triage_const_ok as (FK & FKn & LK & EKn).
  pose proof E0_le_K as HE. pose proof u_small as [U0 U1].
  apply Rabs_le_inv in Herr. pose proof (Rabs_pos (detR a b c)) as Dp.
  assert (Hu2 : u / 2 * Rabs (detR a b c) <= / 2 * Rabs (detR a b c)).
  { unfold Rdiv. rewrite (Rmult_comm u), Rmult_assoc. apply Rmult_le_compat_l; [lra|].
    replace (Rabs (detR a b c)) with (1 * Rabs (detR a b c)) at 2 by ring. apply Rmult_le_compat_r; lra. }
  destruct (PrimFloat.ltb maxDetErr (x + y)%float) eqn:E1.
  - intros _. apply fadd_gt in E1; auto; [|apply ok1000; lra].
    symmetry. apply sgnR_pos.
    destruct (Rle_or_lt (detR a b c) 0) as [Hn|Hp]; [|exact Hp]. exfalso.
    rewrite (Rabs_left1 _ Hn) in *. lra.
  - destruct (PrimFloat.ltb (x + y)%float maxDetErrNeg) eqn:E2.
    + intros _. apply fadd_lt in E2; auto; [|apply ok1000; lra]. rewrite EKn in E2.
      symmetry. apply sgnR_neg.
      destruct (Rle_or_lt 0 (detR a b c)) as [Hn|Hp]; [|exact Hp]. exfalso.
      rewrite (Rabs_pos_eq _ Hn) in *. lra.
    + intros H0. contradiction.
Qed.
