(** C02, exact stages: exactSign (sort + permutation sign + exact determinant + table),
    expensiveSign's identical-points rule, exactCompareDistance(s), symbolicCompareDistances,
    exact SignDotProd.  All statements are about the real numbers the float64 coordinates
    denote ([FR], through Flocq's [B2R]); no hypotheses. *)
From Coq Require Import ZArith Reals Floats Lra Lia Bool List Psatz.
From Geo Require Import Base.GoPrim Base.F64 Base.Exact Gen.R3 Gen.S2Pred Model.Pred.
Local Open Scope R_scope.

(** * Real coordinates of a point *)
Definition PX (p : s2_Point) : R := FR (r3_Vector_X (s2_Point_Vector p)).
Definition PY (p : s2_Point) : R := FR (r3_Vector_Y (s2_Point_Vector p)).
Definition PZ (p : s2_Point) : R := FR (r3_Vector_Z (s2_Point_Vector p)).

Definition det3 (ax ay az bx by_ bz cx cy cz : R) : R :=
  ax * (by_ * cz - bz * cy) + ay * (bz * cx - bx * cz) + az * (bx * cy - by_ * cx).
(** the exact 3x3 determinant of the rows a, b, c = a . (b x c) *)
Definition detR (a b c : s2_Point) : R :=
  det3 (PX a) (PY a) (PZ a) (PX b) (PY b) (PZ b) (PX c) (PY c) (PZ c).
Definition dotR (a b : s2_Point) : R := PX a * PX b + PY a * PY b + PZ a * PZ b.
Definition norm2R (a : s2_Point) : R := dotR a a.

(** same real coordinates (Go's == on Points for finite coordinates: +0 == -0) *)
Definition peq (p q : s2_Point) : Prop := PX p = PX q /\ PY p = PY q /\ PZ p = PZ q.
(** lexicographic order of r3.Vector.Cmp *)
Definition lexlt (p q : s2_Point) : Prop :=
  PX p < PX q \/ (PX p = PX q /\ (PY p < PY q \/ (PY p = PY q /\ PZ p < PZ q))).
Definition finite (p : s2_Point) : Prop := finite_pt p = true.
Definition distinct3 (a b c : s2_Point) : Prop := ~ peq a b /\ ~ peq b c /\ ~ peq a c.

Lemma detR_swap12 a b c : detR b a c = - detR a b c.
Proof. unfold detR, det3. ring. Qed.
Lemma detR_swap23 a b c : detR a c b = - detR a b c.
Proof. unfold detR, det3. ring. Qed.
Lemma detR_swap13 a b c : detR c b a = - detR a b c.
Proof. unfold detR, det3. ring. Qed.
Lemma detR_rot a b c : detR b c a = detR a b c.
Proof. unfold detR, det3. ring. Qed.
Lemma detR_peq12 a b c : peq a b -> detR a b c = 0.
Proof. intros (H1 & H2 & H3). unfold detR, det3. rewrite H1, H2, H3. ring. Qed.

(** * The dyadic computations denote the real ones *)
Lemma pv_dot_correct a b : D2R (pv_dot (pv_of_point a) (pv_of_point b)) = dotR a b.
Proof. unfold pv_dot, pv_of_point, pv_of_vector, dotR, PX, PY, PZ. cbn [pv_X pv_Y pv_Z]. d2r. ring. Qed.

Lemma pv_norm2_correct a : D2R (pv_norm2 (pv_of_point a)) = norm2R a.
Proof. apply pv_dot_correct. Qed.

Lemma pv_det_correct a b c :
  D2R (pv_dot (pv_of_point a) (pv_cross (pv_of_point b) (pv_of_point c))) = detR a b c.
Proof.
  unfold pv_dot, pv_cross, pv_of_point, pv_of_vector, detR, det3, PX, PY, PZ.
  cbn [pv_X pv_Y pv_Z]. d2r. ring.
Qed.

(** * r3.Vector.Cmp is the lexicographic order on finite points *)
Lemma finite_coords p : finite p ->
  (nonnan (r3_Vector_X (s2_Point_Vector p)) /\ rank (r3_Vector_X (s2_Point_Vector p)) = PX p) /\
  (nonnan (r3_Vector_Y (s2_Point_Vector p)) /\ rank (r3_Vector_Y (s2_Point_Vector p)) = PY p) /\
  (nonnan (r3_Vector_Z (s2_Point_Vector p)) /\ rank (r3_Vector_Z (s2_Point_Vector p)) = PZ p).
Proof.
  unfold finite, finite_pt, finite_vec, PX, PY, PZ. intros H.
  apply andb_true_iff in H. destruct H as [H Hz]. apply andb_true_iff in H. destruct H as [Hx Hy].
  repeat split; now apply ffinite_rank.
Qed.

Ltac split_ifs :=
  repeat match goal with
  | |- context [if ?c then _ else _] => destruct c eqn:?
  | H : context [if ?c then _ else _] |- _ => destruct c eqn:?
  end.

Lemma lex_trichotomy p q : lexlt p q \/ peq p q \/ lexlt q p.
Proof. unfold lexlt, peq. lra. Qed.

Lemma cmp_spec p q : finite p -> finite q ->
  (lexlt p q /\ r3_Vector_Cmp (s2_Point_Vector p) (s2_Point_Vector q) = (-1)%Z) \/
  (peq p q /\ r3_Vector_Cmp (s2_Point_Vector p) (s2_Point_Vector q) = 0%Z) \/
  (lexlt q p /\ r3_Vector_Cmp (s2_Point_Vector p) (s2_Point_Vector q) = 1%Z).
Proof.
  intros Hp Hq.
  destruct (finite_coords p Hp) as ((Npx & Epx) & (Npy & Epy) & (Npz & Epz)).
  destruct (finite_coords q Hq) as ((Nqx & Eqx) & (Nqy & Eqy) & (Nqz & Eqz)).
  unfold r3_Vector_Cmp, lexlt, peq. rewrite <- Epx, <- Epy, <- Epz, <- Eqx, <- Eqy, <- Eqz.
  split_ifs; float_cmp_to_R;
  first [ left; split; [lra | reflexivity] | right; left; split; [lra | reflexivity]
        | right; right; split; [lra | reflexivity] ].
Qed.

Lemma cmp_gt_iff p q : finite p -> finite q -> (cmp_gt p q = true <-> lexlt q p).
Proof.
  intros Hp Hq. unfold cmp_gt.
  destruct (cmp_spec p q Hp Hq) as [[H E]|[[H E]|[H E]]]; rewrite E; simpl;
  unfold lexlt, peq in *; split; intros; try discriminate; try reflexivity; lra.
Qed.

Lemma eqb_iff p q : finite p -> finite q -> (s2_Point_eqb p q = true <-> peq p q).
Proof.
  intros Hp Hq.
  destruct (finite_coords p Hp) as ((Npx & Epx) & (Npy & Epy) & (Npz & Epz)).
  destruct (finite_coords q Hq) as ((Nqx & Eqx) & (Nqy & Eqy) & (Nqz & Eqz)).
  unfold s2_Point_eqb, r3_Vector_eqb, peq. rewrite <- Epx, <- Epy, <- Epz, <- Eqx, <- Eqy, <- Eqz.
  rewrite !andb_true_iff. rewrite !eqb_true_iff by assumption. tauto.
Qed.

Lemma cmp_gt_flip p q : finite p -> finite q -> ~ peq p q -> cmp_gt q p = negb (cmp_gt p q).
Proof.
  intros Hp Hq Hn.
  destruct (cmp_gt p q) eqn:E1; destruct (cmp_gt q p) eqn:E2; try reflexivity; exfalso.
  - apply cmp_gt_iff in E1; auto. apply cmp_gt_iff in E2; auto. unfold lexlt in *. lra.
  - destruct (lex_trichotomy p q) as [H|[H|H]]; auto.
    + apply (cmp_gt_iff q p) in H; auto. congruence.
    + apply (cmp_gt_iff p q) in H; auto. congruence.
Qed.

Lemma cmp_gt_trans p q r : finite p -> finite q -> finite r ->
  cmp_gt p q = true -> cmp_gt q r = true -> cmp_gt p r = true.
Proof.
  intros Hp Hq Hr H1 H2. apply cmp_gt_iff in H1; auto. apply cmp_gt_iff in H2; auto.
  apply cmp_gt_iff; auto. unfold lexlt in *. lra.
Qed.

Lemma cmp_gt_peq p q : finite p -> finite q -> peq p q -> cmp_gt p q = false.
Proof.
  intros Hp Hq He. destruct (cmp_gt p q) eqn:E; auto.
  apply cmp_gt_iff in E; auto. unfold lexlt, peq in *. lra.
Qed.

Lemma peq_sym p q : peq p q -> peq q p.
Proof. unfold peq. intuition. Qed.

Ltac six_cases a b c Fa Fb Fc D :=
    let Dab := fresh "Dab" in let Dbc := fresh "Dbc" in let Dac := fresh "Dac" in
    destruct D as (Dab & Dbc & Dac);
    assert (Dba : ~ peq b a) by (intro; apply Dab; now apply peq_sym);
    assert (Dcb : ~ peq c b) by (intro; apply Dbc; now apply peq_sym);
    assert (Dca : ~ peq c a) by (intro; apply Dac; now apply peq_sym);
    pose proof (cmp_gt_flip a b Fa Fb Dab) as Hba;
    pose proof (cmp_gt_flip b c Fb Fc Dbc) as Hcb;
    pose proof (cmp_gt_flip a c Fa Fc Dac) as Hca;
    destruct (cmp_gt a b) eqn:Hab; destruct (cmp_gt b c) eqn:Hbc; destruct (cmp_gt a c) eqn:Hac;
    simpl in Hba, Hcb, Hca;
    try (exfalso; pose proof (cmp_gt_trans a b c Fa Fb Fc Hab Hbc); congruence);
    try (exfalso; pose proof (cmp_gt_trans c b a Fc Fb Fa Hcb Hba); congruence).

Ltac run_sort :=
    unfold sort3;
    repeat (match goal with H : cmp_gt ?p ?q = _ |- context [cmp_gt ?p ?q] => rewrite H end;
            cbn beta iota zeta).

(** * The sort of exactSign on three distinct points: one sorted triple, sign of the permutation *)
Section Sort.
  Variables a b c : s2_Point.
  Hypothesis Fa : finite a.
  Hypothesis Fb : finite b.
  Hypothesis Fc : finite c.
  Hypothesis D : distinct3 a b c.

  Lemma sort3_rotate : sort3 b c a = sort3 a b c.
  Proof. six_cases a b c Fa Fb Fc D; run_sort; reflexivity. Qed.

  Lemma sort3_swap13 :
    sort3 c b a = (let '(pa, pb, pc, s) := sort3 a b c in (pa, pb, pc, (- s)%Z)).
  Proof. six_cases a b c Fa Fb Fc D; run_sort; reflexivity. Qed.

  Lemma sort3_swap12 :
    sort3 b a c = (let '(pa, pb, pc, s) := sort3 a b c in (pa, pb, pc, (- s)%Z)).
  Proof. six_cases a b c Fa Fb Fc D; run_sort; reflexivity. Qed.

  Lemma sort3_swap23 :
    sort3 a c b = (let '(pa, pb, pc, s) := sort3 a b c in (pa, pb, pc, (- s)%Z)).
  Proof. six_cases a b c Fa Fb Fc D; run_sort; reflexivity. Qed.

  (** the result is sorted strictly increasingly *)
  Lemma sort3_sorted : let '(pa, pb, pc, s) := sort3 a b c in
    cmp_gt pb pa = true /\ cmp_gt pc pb = true /\ (s = 1 \/ s = -1)%Z.
  Proof. six_cases a b c Fa Fb Fc D; run_sort; repeat split; auto. Qed.
End Sort.

Theorem exact_sign_rotate a b c p : finite a -> finite b -> finite c -> distinct3 a b c ->
  exact_sign_gen b c a p = exact_sign_gen a b c p.
Proof.
  intros Fa Fb Fc D. unfold exact_sign_gen. now rewrite (sort3_rotate a b c Fa Fb Fc D).
Qed.

Theorem exact_sign_swap13 a b c p : finite a -> finite b -> finite c -> distinct3 a b c ->
  exact_sign_gen c b a p = (- exact_sign_gen a b c p)%Z.
Proof.
  intros Fa Fb Fc D. unfold exact_sign_gen. rewrite (sort3_swap13 a b c Fa Fb Fc D).
  destruct (sort3 a b c) as [[[pa pb] pc] s]. lia.
Qed.

Theorem exact_sign_swap12 a b c p : finite a -> finite b -> finite c -> distinct3 a b c ->
  exact_sign_gen b a c p = (- exact_sign_gen a b c p)%Z.
Proof.
  intros Fa Fb Fc D. unfold exact_sign_gen. rewrite (sort3_swap12 a b c Fa Fb Fc D).
  destruct (sort3 a b c) as [[[pa pb] pc] s]. lia.
Qed.

Theorem exact_sign_swap23 a b c p : finite a -> finite b -> finite c -> distinct3 a b c ->
  exact_sign_gen a c b p = (- exact_sign_gen a b c p)%Z.
Proof.
  intros Fa Fb Fc D. unfold exact_sign_gen. rewrite (sort3_swap23 a b c Fa Fb Fc D).
  destruct (sort3 a b c) as [[[pa pb] pc] s]. lia.
Qed.

(** * The exact determinant sign: for ALL finite inputs (ties included) *)
Lemma sorted_sign_false a b c : sorted_sign false a b c = sgnR (detR a b c).
Proof.
  unfold sorted_sign. cbv zeta. rewrite andb_false_r. rewrite dsgn_correct, pv_det_correct. reflexivity.
Qed.

Lemma sgnR_Zopp_mul x : (-1 * sgnR (- x))%Z = sgnR x.
Proof. rewrite sgnR_opp. lia. Qed.

Theorem exact_det_sign_correct a b c : exact_det_sign a b c = sgnR (detR a b c).
Proof.
  unfold exact_det_sign, exact_sign_gen, sort3.
  destruct (cmp_gt a b); destruct (cmp_gt _ c) eqn:E2; cbn beta iota zeta;
  match goal with |- context [cmp_gt ?p ?q] => destruct (cmp_gt p q) end;
  rewrite sorted_sign_false;
  unfold detR, det3;
  match goal with |- (?s * sgnR ?x)%Z = sgnR ?y =>
    first [ replace x with y by ring; lia
          | replace x with (- y) by ring; rewrite sgnR_opp; lia ] end.
Qed.

(** * symbolicallyPerturbedSign never answers 0, and answers a sign *)
Lemma dsgn_range d : (dsgn d = -1 \/ dsgn d = 0 \/ dsgn d = 1)%Z.
Proof. unfold dsgn. destruct (dm d); simpl; auto. Qed.

Lemma try_pm1 (s k : Z) : (s = -1 \/ s = 0 \/ s = 1)%Z -> (k = 1 \/ k = -1)%Z ->
  ((let x := s in if Z.eqb x 0 then k else x) = 1 \/ (let x := s in if Z.eqb x 0 then k else x) = -1)%Z.
Proof. intros [H|[H|H]] Hk; subst; simpl; auto. Qed.

Lemma dsgn_opp_range d : (- dsgn d = -1 \/ - dsgn d = 0 \/ - dsgn d = 1)%Z.
Proof. destruct (dsgn_range d) as [H|[H|H]]; rewrite H; auto. Qed.

Lemma sym_perturbed_sign_pm1 a b c bxc :
  (sym_perturbed_sign a b c bxc = 1 \/ sym_perturbed_sign a b c bxc = -1)%Z.
Proof.
  unfold sym_perturbed_sign.
  repeat (apply try_pm1; [first [apply dsgn_range | apply dsgn_opp_range]|]). auto.
Qed.

Lemma sorted_sign_true_pm1 a b c : (sorted_sign true a b c = 1 \/ sorted_sign true a b c = -1)%Z.
Proof.
  unfold sorted_sign. cbv zeta. rewrite andb_true_r.
  destruct (Z.eqb_spec (dsgn (pv_dot (pv_of_point a) (pv_cross (pv_of_point b) (pv_of_point c)))) 0) as [E|E].
  - apply sym_perturbed_sign_pm1.
  - destruct (dsgn_range (pv_dot (pv_of_point a) (pv_cross (pv_of_point b) (pv_of_point c)))) as [H|[H|H]]; auto; contradiction.
Qed.

Lemma sort3_sign a b c : let '(pa, pb, pc, s) := sort3 a b c in (s = 1 \/ s = -1)%Z.
Proof.
  unfold sort3. destruct (cmp_gt a b); destruct (cmp_gt _ c); cbn beta iota zeta;
  match goal with |- context [cmp_gt ?p ?q] => destruct (cmp_gt p q) end; auto.
Qed.

(** exactSign (with perturbation) is never Indeterminate — for any three inputs whatsoever *)
Theorem exact_sign_pm1 a b c : (exact_sign a b c = 1 \/ exact_sign a b c = -1)%Z.
Proof.
  unfold exact_sign, exact_sign_gen. pose proof (sort3_sign a b c) as Hs.
  destruct (sort3 a b c) as [[[pa pb] pc] s].
  destruct (sorted_sign_true_pm1 pa pb pc) as [H|H]; rewrite H; lia.
Qed.

Corollary exact_sign_nonzero a b c : exact_sign a b c <> 0%Z.
Proof. destruct (exact_sign_pm1 a b c); lia. Qed.

(** when the exact determinant is non-zero the perturbation is not consulted *)
Lemma sorted_sign_det_nonzero p a b c : detR a b c <> 0 -> sorted_sign p a b c = sgnR (detR a b c).
Proof.
  intros H. unfold sorted_sign. cbv zeta. rewrite dsgn_correct, pv_det_correct.
  destruct (Z.eqb_spec (sgnR (detR a b c)) 0) as [E|E].
  - apply sgnR_zero_iff in E. contradiction.
  - reflexivity.
Qed.

Theorem exact_sign_det a b c : detR a b c <> 0 -> exact_sign a b c = sgnR (detR a b c).
Proof.
  intros Hd. rewrite <- exact_det_sign_correct.
  unfold exact_sign, exact_det_sign, exact_sign_gen.
  assert (Hs : forall pa pb pc, detR pa pb pc <> 0 -> sorted_sign true pa pb pc = sorted_sign false pa pb pc).
  { intros. now rewrite !sorted_sign_det_nonzero. }
  assert (Hinv : let '(pa, pb, pc, s) := sort3 a b c in detR pa pb pc <> 0).
  { unfold sort3. destruct (cmp_gt a b); destruct (cmp_gt _ c); cbn beta iota zeta;
    match goal with |- context [cmp_gt ?p ?q] => destruct (cmp_gt p q) end;
    intro E; apply Hd; revert E; unfold detR, det3; intro E; lra. }
  destruct (sort3 a b c) as [[[pa pb] pc] s]. now rewrite Hs.
Qed.

(** * expensiveSign: Indeterminate iff two arguments are identical (Go ==) *)
Definition identical2 (a b c : s2_Point) : bool :=
  s2_Point_eqb a b || s2_Point_eqb b c || s2_Point_eqb c a.

Theorem expensive_sign_zero_iff a b c : expensive_sign a b c = 0%Z <-> identical2 a b c = true.
Proof.
  unfold expensive_sign, identical2.
  destruct (s2_Point_eqb a b || s2_Point_eqb b c || s2_Point_eqb c a); [tauto|].
  cbv zeta. destruct (Z.eqb_spec (s2_stableSign a b c) 0) as [E|E]; simpl.
  - split; [|discriminate]. intros H. exfalso. now apply (exact_sign_nonzero a b c).
  - split; [|discriminate]. intros H. contradiction.
Qed.

(** * Distances *)
Lemma sgnR_sub_anti x y : sgnR (x - y) = (- sgnR (y - x))%Z.
Proof. rewrite <- sgnR_opp. f_equal. ring. Qed.

(** exactCompareDistances is antisymmetric in (a, b): pure algebra, any inputs *)
Theorem exact_compare_distances_antisym x a b :
  exact_compare_distances x b a = (- exact_compare_distances x a b)%Z.
Proof.
  unfold exact_compare_distances. cbv zeta.
  set (u := pv_dot x a). set (v := pv_dot x b).
  assert (HT : dsgn (dsub (dmul (dmul u u) (pv_norm2 b)) (dmul (dmul v v) (pv_norm2 a)))
             = (- dsgn (dsub (dmul (dmul v v) (pv_norm2 a)) (dmul (dmul u u) (pv_norm2 b))))%Z).
  { rewrite !dsgn_correct, !D2R_sub. apply sgnR_sub_anti. }
  rewrite HT. generalize (dsgn (dsub (dmul (dmul v v) (pv_norm2 a)) (dmul (dmul u u) (pv_norm2 b)))). intros S.
  destruct (dsgn_range u) as [Hu|[Hu|Hu]]; destruct (dsgn_range v) as [Hv|[Hv|Hv]];
  rewrite Hu, Hv; destruct S; reflexivity.
Qed.

(** cos(AX) vs cos(BX) for the points projected on the sphere, cleared of the (positive) factor |x||a||b| *)
Definition cmp_distances_R (x a b : s2_Point) : Z :=
  sgnR (dotR x b * R_sqrt.sqrt (norm2R a) - dotR x a * R_sqrt.sqrt (norm2R b)).

Lemma sgn_scaled_compare u v p q : 0 < p -> 0 < q ->
  sgnR (v * R_sqrt.sqrt p - u * R_sqrt.sqrt q) =
  (if negb (sgnR u =? sgnR v)%Z then (if (sgnR v <? sgnR u)%Z then -1 else 1)
   else sgnR u * sgnR (v * v * p - u * u * q))%Z.
Proof.
  intros Hp Hq.
  pose proof (sqrt_lt_R0 p Hp) as Sp. pose proof (sqrt_lt_R0 q Hq) as Sq.
  pose proof (sqrt_sqrt p (Rlt_le _ _ Hp)) as Ep. pose proof (sqrt_sqrt q (Rlt_le _ _ Hq)) as Eq.
  remember (R_sqrt.sqrt p) as P eqn:HP. remember (R_sqrt.sqrt q) as Q eqn:HQ. clear HP HQ.
  assert (F : v * v * p - u * u * q = (v * P - u * Q) * (v * P + u * Q)) by (rewrite <- Ep, <- Eq; ring).
  rewrite F, sgnR_mult.
  destruct (sgnR_cases u) as [[Hu Eu]|[[Hu Eu]|[Hu Eu]]];
  destruct (sgnR_cases v) as [[Hv Ev]|[[Hv Ev]|[Hv Ev]]]; rewrite Eu, Ev; simpl.
  - (* both negative *) rewrite (sgnR_neg (v * P + u * Q)) by nra.
    destruct (sgnR_cases (v * P - u * Q)) as [[_ E]|[[_ E]|[_ E]]]; rewrite E; reflexivity.
  - apply sgnR_pos. subst. nra.
  - apply sgnR_pos. nra.
  - apply sgnR_neg. subst. nra.
  - subst. replace (0 * P - 0 * Q) with 0 by ring. rewrite sgnR_0. reflexivity.
  - apply sgnR_pos. subst. nra.
  - apply sgnR_neg. nra.
  - apply sgnR_neg. subst. nra.
  - rewrite (sgnR_pos (v * P + u * Q)) by nra.
    destruct (sgnR_cases (v * P - u * Q)) as [[_ E]|[[_ E]|[_ E]]]; rewrite E; reflexivity.
Qed.

Theorem exact_compare_distances_spec x a b : 0 < norm2R a -> 0 < norm2R b ->
  exact_compare_distances (pv_of_point x) (pv_of_point a) (pv_of_point b) = cmp_distances_R x a b.
Proof.
  intros Ha Hb. unfold cmp_distances_R. rewrite (sgn_scaled_compare (dotR x a) (dotR x b)) by assumption.
  unfold exact_compare_distances. cbv zeta.
  rewrite !dsgn_correct, !D2R_sub, !D2R_mul, !pv_dot_correct, !pv_norm2_correct. reflexivity.
Qed.

(** symbolicCompareDistances: reversed lexicographic order of a and b *)
Lemma symbolic_spec x a b : finite a -> finite b ->
  (lexlt a b /\ s2_symbolicCompareDistances x a b = 1%Z) \/
  (peq a b /\ s2_symbolicCompareDistances x a b = 0%Z) \/
  (lexlt b a /\ s2_symbolicCompareDistances x a b = (-1)%Z).
Proof.
  intros Fa Fb. unfold s2_symbolicCompareDistances. cbv zeta.
  destruct (cmp_spec a b Fa Fb) as [[H E]|[[H E]|[H E]]]; rewrite E; simpl; auto.
Qed.

Theorem symbolic_compare_antisym x a b : finite a -> finite b ->
  s2_symbolicCompareDistances x b a = (- s2_symbolicCompareDistances x a b)%Z.
Proof.
  intros Fa Fb.
  destruct (symbolic_spec x a b Fa Fb) as [[H E]|[[H E]|[H E]]];
  destruct (symbolic_spec x b a Fb Fa) as [[H' E']|[[H' E']|[H' E']]]; rewrite E, E'; try reflexivity;
  exfalso; unfold lexlt, peq in *; lra.
Qed.

Theorem symbolic_compare_zero_iff x a b : finite a -> finite b ->
  (s2_symbolicCompareDistances x a b = 0%Z <-> peq a b).
Proof.
  intros Fa Fb.
  destruct (symbolic_spec x a b Fa Fb) as [[H E]|[[H E]|[H E]]]; rewrite E; split; intros; try lia; auto;
  exfalso; unfold lexlt, peq in *; lra.
Qed.

(** the exact tail of CompareDistances (exact comparison, then symbolic tie-break) *)
Theorem exact_compare_full_antisym x a b : finite a -> finite b ->
  exact_compare_distances_full x b a = (- exact_compare_distances_full x a b)%Z.
Proof.
  intros Fa Fb. unfold exact_compare_distances_full. cbv zeta.
  rewrite exact_compare_distances_antisym, symbolic_compare_antisym by assumption.
  destruct (Z.eqb_spec (exact_compare_distances (pv_of_point x) (pv_of_point a) (pv_of_point b)) 0) as [E|E].
  - rewrite E. reflexivity.
  - destruct (Z.eqb_spec (- exact_compare_distances (pv_of_point x) (pv_of_point a) (pv_of_point b)) 0); [lia|reflexivity].
Qed.

Lemma exact_compare_distances_peq x a b : peq a b ->
  exact_compare_distances (pv_of_point x) (pv_of_point a) (pv_of_point b) = 0%Z.
Proof.
  intros (H1 & H2 & H3).
  assert (Ed : dotR x a = dotR x b) by (unfold dotR; now rewrite H1, H2, H3).
  assert (En : norm2R a = norm2R b) by (unfold norm2R, dotR; now rewrite H1, H2, H3).
  unfold exact_compare_distances. cbv zeta.
  rewrite !dsgn_correct, !D2R_sub, !D2R_mul, !pv_dot_correct, !pv_norm2_correct.
  rewrite Ed, En, Z.eqb_refl. simpl.
  replace (dotR x b * dotR x b * norm2R b - dotR x b * dotR x b * norm2R b) with 0 by ring.
  rewrite sgnR_0. lia.
Qed.

Theorem exact_compare_full_zero_iff x a b : finite a -> finite b ->
  (exact_compare_distances_full x a b = 0%Z <-> peq a b).
Proof.
  intros Fa Fb. unfold exact_compare_distances_full. cbv zeta.
  destruct (Z.eqb_spec (exact_compare_distances (pv_of_point x) (pv_of_point a) (pv_of_point b)) 0) as [E|E]; simpl.
  - now apply symbolic_compare_zero_iff.
  - split; intros H; [contradiction|]. exfalso. apply E. now apply exact_compare_distances_peq.
Qed.

(** exactCompareDistance: cos(XY) against cos r = 1 - r2/2, cleared of |x||y| *)
Definition cmp_distance_R (x y : s2_Point) (r2 : PrimFloat.float) : Z :=
  sgnR ((1 - / 2 * FR r2) * R_sqrt.sqrt (norm2R x * norm2R y) - dotR x y).

Theorem exact_compare_distance_spec x y r2 : 0 < norm2R x -> 0 < norm2R y ->
  exact_compare_distance (pv_of_point x) (pv_of_point y) (of_float r2) = cmp_distance_R x y r2.
Proof.
  intros Hx Hy. unfold cmp_distance_R.
  assert (Hp : 0 < norm2R x * norm2R y) by nra.
  pose proof (sgn_scaled_compare (dotR x y) (1 - / 2 * FR r2) (norm2R x * norm2R y) 1 Hp Rlt_0_1) as H.
  rewrite sqrt_1, Rmult_1_r in H. rewrite H. clear H.
  unfold exact_compare_distance. cbv zeta.
  rewrite !dsgn_correct, !D2R_sub, !D2R_mul, !D2R_sub, !D2R_mul, D2R_one, D2R_half, !pv_dot_correct, !pv_norm2_correct, <- !of_float_correct.
  replace ((1 - / 2 * FR r2) * (1 - / 2 * FR r2) * (norm2R x * norm2R y) - dotR x y * dotR x y * 1)
    with ((1 - / 2 * FR r2) * (1 - / 2 * FR r2) * (norm2R x * norm2R y) - dotR x y * dotR x y) by ring.
  reflexivity.
Qed.

(** exact SignDotProd *)
Theorem exact_sign_dot_prod_spec a b : exact_sign_dot_prod a b = sgnR (dotR a b).
Proof. unfold exact_sign_dot_prod. now rewrite dsgn_correct, pv_dot_correct. Qed.
