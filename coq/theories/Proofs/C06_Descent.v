(** C06 — CrossingEdgeQuery's cell descent visits every index cell whose (unpadded) square the
    query edge meets, for any clipping that is sound in the sense of [descent_sound] (H-CLIP for the
    query edge). The tree facts come from C11 (children tile their parent, ranges are laminar). *)
From Coq Require Import ZArith List Bool Lia.
From Geo Require Import Base.GoPrim Gen.CellID Model.Index
  Proofs.C11_Bits Proofs.C11_Cells Proofs.C06_Index Proofs.C06_IndexOk.
Import ListNotations.
Local Open Scope Z_scope.

(** * A cell strictly inside a non-leaf cell lies inside one of its four children *)
Lemma range_size c s : cellform c s -> rmax c - rmin c = 2 * 4 ^ s - 2.
Proof. intros H. rewrite (rangemin_form _ _ H), (rangemax_form _ _ H). lia. Qed.

Lemma nested_height x sx p sp : cellform x sx -> cellform p sp -> nested_in x p -> sx <= sp.
Proof.
  intros Hx Hp [H1 H2]. pose proof (range_size _ _ Hx). pose proof (range_size _ _ Hp).
  destruct (Z_le_gt_dec sx sp); [assumption|exfalso].
  destruct Hx as (Hsx & _), Hp as (Hsp & _).
  assert (4 ^ sp < 4 ^ sx) by (apply Z.pow_lt_mono_r; lia). lia.
Qed.

Lemma proper_descendant_in_child x p : valid x -> valid p -> nested_in x p -> x <> p ->
  ~ leaf p /\ exists k, In k (s2_CellID_Children p) /\ valid k /\ nested_in x k.
Proof.
  intros Vx Vp Hn Hne.
  assert (~ leaf p) as NL.
  { intros L. destruct (leaf_cell _ Vp L) as [E1 E2]. destruct Hn as [H1 H2].
    pose proof (valid_range x Vx) as (_ & Hb & _). apply Hne. lia. }
  split; [exact NL|].
  destruct (children_spec p Vp NL) as (a & b & c & d & Ech & T & _).
  destruct (valid_cellform _ Vx) as [sx Hx]. destruct (valid_cellform _ Vp) as [sp Hp].
  assert (0 < sp) as Hsp.
  { destruct (Z_lt_le_dec 0 sp); [assumption|exfalso]. apply NL. apply (leaf_cellform_0 _ _ Hp).
    destruct Hp as (Hs & _). lia. }
  assert (forall k, In k (s2_CellID_Children p) -> cellform k (sp - 1)) as Hkf by (apply children_cellform; assumption).
  pose proof (valid_range x Vx) as (_ & Hbx & _ & Lmin & _).
  pose proof T as [Va Vb Vc Vd Emin Eab Ebc Ecd Emax _ _ _ _ _].
  pose proof (valid_range a Va) as (_ & Hba & _ & _ & La). pose proof (valid_range b Vb) as (_ & Hbb & _ & Lb0 & Lb).
  pose proof (valid_range c Vc) as (_ & Hbc & _ & Lc0 & Lc). pose proof (valid_range d Vd) as (_ & Hbd & _ & Ld0 & _).
  destruct Hn as [Hn1 Hn2].
  (* rmin x is an odd id in [rmin p, rmax p]: it lies in the range of one child *)
  assert (exists k, In k [a; b; c; d] /\ valid k /\ rmin k <= rmin x <= rmax k) as (k & Hk & Vk & Hin).
  { unfold leaf in *.
    destruct (Z_le_gt_dec (rmin x) (rmax a)); [exists a; cbn; intuition lia|].
    destruct (Z_le_gt_dec (rmin x) (rmax b)); [exists b; split; [cbn; tauto|split; [assumption|]]|].
    { split; [|lia]. destruct (Z.eq_dec (rmin x) (rmax a + 1)) as [E|]; [|lia].
      rewrite E in Lmin. replace (rmax a + 1) with (rmax a + 1 * 1) in Lmin by ring.
      Z.div_mod_to_equations. lia. }
    destruct (Z_le_gt_dec (rmin x) (rmax c)); [exists c; split; [cbn; tauto|split; [assumption|]]|].
    { split; [|lia]. destruct (Z.eq_dec (rmin x) (rmax b + 1)) as [E|]; [|lia].
      rewrite E in Lmin. Z.div_mod_to_equations. lia. }
    exists d. split; [cbn; tauto|split; [assumption|]].
    split; [|lia]. destruct (Z.eq_dec (rmin x) (rmax c + 1)) as [E|]; [|lia].
    rewrite E in Lmin. Z.div_mod_to_equations. lia. }
  rewrite <- Ech in Hk. exists k. split; [exact Hk|]. split; [exact Vk|].
  pose proof (Hkf k Hk) as Hkform.
  destruct (C11_Cells.laminar x k Vx Vk) as [H|[H|[H|H]]]; [exact H| |lia|lia].
  (* k inside x: then x has the height of k (x = k) or of p (x = p) *)
  pose proof (nested_height _ _ _ _ Hkform Hx H) as Hh1.
  pose proof (nested_height _ _ _ _ Hx Hp (conj Hn1 Hn2)) as Hh2.
  destruct (Z.eq_dec sx (sp - 1)) as [E|E].
  - subst sx. pose proof (range_size _ _ Hkform) as Rk. pose proof (range_size _ _ Hx) as Rx.
    destruct H as [Hk1 Hk2]. split; lia.
  - assert (sx = sp) by lia. subst sx. exfalso. apply Hne.
    pose proof (range_size _ _ Hp) as Rp. pose proof (range_size _ _ Hx) as Rx.
    apply same_range; [assumption|assumption|lia|lia].
Qed.

Section Descent.
  Variable B : Type.
  Variables left_only right_only lower_only upper_only : Z -> B -> bool.
  Variables split_u split_v : Z -> B -> B * B.
  Variable child_ij : Z -> Z -> Z -> Z.
  Variable cells : list Z.

  (** specification side *)
  Variable meets : Z -> Prop.          (* the query edge meets the (unpadded) square of the cell *)
  Variable I : Z -> B -> Prop.         (* b is a correct bound of the part of the edge inside the cell *)
  Variable Iu : Z -> Z -> B -> Prop.   (* ... inside the left (0) / right (1) half of the cell *)

  Notation compute := (compute_cells B left_only right_only lower_only upper_only split_u split_v child_ij cells).
  Notation clipv := (clip_v_axis B lower_only upper_only split_v child_ij).

  (** H-CLIP for the descent: whenever a child is skipped the edge does not meet it, and the bounds
      handed down stay correct *)
  Record descent_sound : Prop := {
    ds_left : forall c b, I c b -> left_only c b = true ->
      Iu c 0 b /\ ~ meets (child_ij c 1 0) /\ ~ meets (child_ij c 1 1);
    ds_right : forall c b, I c b -> left_only c b = false -> right_only c b = true ->
      Iu c 1 b /\ ~ meets (child_ij c 0 0) /\ ~ meets (child_ij c 0 1);
    ds_lower : forall c b, I c b -> left_only c b = false -> right_only c b = false -> lower_only c b = true ->
      I (child_ij c 0 0) (fst (split_u c b)) /\ I (child_ij c 1 0) (snd (split_u c b)) /\
      ~ meets (child_ij c 0 1) /\ ~ meets (child_ij c 1 1);
    ds_upper : forall c b, I c b -> left_only c b = false -> right_only c b = false -> lower_only c b = false ->
      upper_only c b = true ->
      I (child_ij c 0 1) (fst (split_u c b)) /\ I (child_ij c 1 1) (snd (split_u c b)) /\
      ~ meets (child_ij c 0 0) /\ ~ meets (child_ij c 1 0);
    ds_all : forall c b, I c b -> left_only c b = false -> right_only c b = false -> lower_only c b = false ->
      upper_only c b = false -> Iu c 0 (fst (split_u c b)) /\ Iu c 1 (snd (split_u c b));
    dv_lower : forall c i b, (i = 0 \/ i = 1) -> Iu c i b -> lower_only c b = true ->
      I (child_ij c i 0) b /\ ~ meets (child_ij c i 1);
    dv_upper : forall c i b, (i = 0 \/ i = 1) -> Iu c i b -> lower_only c b = false -> upper_only c b = true ->
      I (child_ij c i 1) b /\ ~ meets (child_ij c i 0);
    dv_both : forall c i b, (i = 0 \/ i = 1) -> Iu c i b -> lower_only c b = false -> upper_only c b = false ->
      I (child_ij c i 0) (fst (split_v c b)) /\ I (child_ij c i 1) (snd (split_v c b)) }.

  Hypothesis Hsound : descent_sound.
  (** every child id is one of the four (i, j) children *)
  Hypothesis Hchild : forall c k, valid c -> In k (s2_CellID_Children c) ->
    exists i j, (i = 0 \/ i = 1) /\ (j = 0 \/ j = 1) /\ k = child_ij c i j.
  (** meeting a cell means meeting every cell around it *)
  Hypothesis Hmono : forall x d, valid x -> valid d -> nested_in x d -> meets x -> meets d.
  (** the index cells: valid, increasing, pairwise disjoint (what [index_okb] establishes) *)
  Hypothesis Hvalid : forall k, 0 <= k < lenZ cells -> valid (nthZ cells k 0).
  Hypothesis Hcells : cells_ok cells.

  Lemma clipv_step (rec : Z -> B -> list Z) c i b k d : (i = 0 \/ i = 1) -> Iu c i b ->
    (forall j b', (j = 0 \/ j = 1) -> I (child_ij c i j) b' -> d = child_ij c i j -> In k (rec (child_ij c i j) b')) ->
    (exists j, (j = 0 \/ j = 1) /\ d = child_ij c i j) -> meets d -> In k (clipv rec c i b).
  Proof.
    intros Hi HI Hrec (j & Hj & Hd) Hm. unfold clip_v_axis.
    destruct (lower_only c b) eqn:El.
    - destruct (dv_lower Hsound c i b Hi HI El) as (H0 & Hn1).
      destruct Hj as [-> | ->]; [apply (Hrec 0); auto|subst d; contradiction].
    - destruct (upper_only c b) eqn:Eu.
      + destruct (dv_upper Hsound c i b Hi HI El Eu) as (H1 & Hn0).
        destruct Hj as [-> | ->]; [subst d; contradiction|apply (Hrec 1); auto].
      + destruct (dv_both Hsound c i b Hi HI El Eu) as (H0 & H1).
        destruct (split_v c b) as [b0 b1]. cbn [fst snd] in *. apply in_or_app.
        destruct Hj as [-> | ->]; [left; apply (Hrec 0); auto|right; apply (Hrec 1); auto].
  Qed.

  (** computeCellsIntersected is complete below [c] *)
  Theorem compute_complete : forall (fuel : nat) c s b k,
    cellform c s -> s <= Z.of_nat fuel -> I c b ->
    0 <= k < lenZ cells -> nested_in (nthZ cells k 0) c -> meets (nthZ cells k 0) ->
    In k (compute fuel c b).
  Proof.
    induction fuel as [|fu IH]; intros c s b k Hc Hs HI Hk Hn Hm.
    all: pose proof (cellform_valid _ _ Hc) as Vc; pose proof (Hvalid k Hk) as Vx;
      set (x := nthZ cells k 0) in *;
      destruct (valid_ranges c Vc) as (Ecmin & Ecmax);
      pose proof (seek_spec cells (range_min c) Hcells) as Hs0; cbv zeta in Hs0;
      destruct Hs0 as (Hpos & Hlow & Hhigh);
      pose proof (valid_range x Vx) as (_ & Hbx & _); pose proof (valid_range c Vc) as (_ & Hbc & _);
      destruct Hn as [Hn1 Hn2]; pose proof Hcells as (Hv & Hd).
    all: cbn [compute_cells]; set (pos := seek cells (range_min c)) in *.
    all: assert (pos <= k) as Hpk
        by (destruct (Z_lt_le_dec k pos) as [L|L]; [specialize (Hlow k ltac:(lia)); fold x in Hlow; lia|exact L]).
    all: unfold id_at; destruct (pos <? lenZ cells) eqn:E1; [|apply Z.ltb_ge in E1; lia];
      apply Z.ltb_lt in E1;
      assert (nthZ cells pos 0 <= x) as Hpx
        by (destruct (Z.eq_dec pos k) as [->|Hne]; [subst x; lia|
            pose proof (cells_ok_sorted cells pos k Hcells ltac:(lia) ltac:(lia)); fold x in H; lia]);
      destruct (nthZ cells pos 0 =? sentinel) eqn:E2; [apply Z.eqb_eq in E2; specialize (Hv pos ltac:(lia)); lia|];
      destruct (nthZ cells pos 0 >? range_max c) eqn:E3; [rewrite Z.gtb_ltb in E3; apply Z.ltb_lt in E3; lia|];
      cbn [orb]; destruct (nthZ cells pos 0 =? c) eqn:E4.
    1, 3: (* the index holds c itself: the cell met is c *)
      apply Z.eqb_eq in E4; left;
      destruct (Z.eq_dec pos k) as [E|Hne]; [exact E|exfalso];
      specialize (Hd pos k ltac:(lia) ltac:(lia)); fold x in Hd; rewrite E4 in Hd;
      destruct (valid_ranges x Vx) as (Exmin & Exmax); lia.
    all: apply Z.eqb_neq in E4.
    all: assert (x <> c) as Hxc
        by (intros E; destruct (Z.eq_dec pos k) as [Ek|Hne]; [rewrite Ek in E4; apply E4; exact E|];
            specialize (Hd pos k ltac:(lia) ltac:(lia)); fold x in Hd;
            specialize (Hhigh pos ltac:(lia)); pose proof (Hv pos ltac:(lia)) as Hvp;
            pose proof (range_bounds _ (proj1 Hvp)); rewrite E in Hd; lia).
    all: destruct (proper_descendant_in_child x c Vx Vc (conj Hn1 Hn2) Hxc) as (NL & d & Hdin & Vd & Hnd).
    - (* no fuel: c is a leaf *)
      exfalso. apply NL. apply (leaf_cellform_0 _ _ Hc). destruct Hc as (Hs0 & _). lia.
    - (* descend *)
      assert (0 < s) as Hspos.
      { destruct (Z_lt_le_dec 0 s); [assumption|exfalso]. apply NL. apply (leaf_cellform_0 _ _ Hc).
        destruct Hc as (Hs0 & _). lia. }
      pose proof (children_cellform c s Hc Hspos d Hdin) as Hdform.
      pose proof (Hmono x d Vx Vd Hnd Hm) as Hmd.
      destruct (Hchild c d Vc Hdin) as (i & j & Hi & Hj & Ed).
      assert (forall b', I d b' -> In k (compute fu d b')) as Hrec.
      { intros b' HI'. apply (IH d (s - 1) b' k); try assumption; try lia. }
      assert (forall i0, (i0 = 0 \/ i0 = 1) -> i0 = i -> forall b', Iu c i0 b' -> In k (clipv (compute fu) c i0 b')) as Hclip.
      { intros i0 Hi0 Ei b' HIu. subst i0. apply (clipv_step (compute fu) c i b' k d Hi HIu).
        - intros j0 b'' Hj0 HI'' Ed'. rewrite <- Ed'. apply Hrec. rewrite Ed'. exact HI''.
        - exists j. split; assumption.
        - exact Hmd. }
      destruct (left_only c b) eqn:EL.
      + destruct (ds_left Hsound c b HI EL) as (HIu & N0 & N1).
        destruct Hi as [-> | ->]; [apply Hclip; auto|].
        exfalso. destruct Hj as [-> | ->]; subst d; contradiction.
      + destruct (right_only c b) eqn:ER.
        * destruct (ds_right Hsound c b HI EL ER) as (HIu & N0 & N1).
          destruct Hi as [-> | ->]; [|apply Hclip; auto].
          exfalso. destruct Hj as [-> | ->]; subst d; contradiction.
        * destruct (lower_only c b) eqn:ELo.
          -- destruct (ds_lower Hsound c b HI EL ER ELo) as (H00 & H10 & N01 & N11).
             destruct (split_u c b) as [b0 b1]. cbn [fst snd] in *. apply in_or_app.
             destruct Hi as [-> | ->]; destruct Hj as [-> | ->]; subst d;
               try contradiction; [left|right]; apply Hrec; assumption.
          -- destruct (upper_only c b) eqn:EUp.
             ++ destruct (ds_upper Hsound c b HI EL ER ELo EUp) as (H01 & H11 & N00 & N10).
                destruct (split_u c b) as [b0 b1]. cbn [fst snd] in *. apply in_or_app.
                destruct Hi as [-> | ->]; destruct Hj as [-> | ->]; subst d;
                  try contradiction; [left|right]; apply Hrec; assumption.
             ++ destruct (ds_all Hsound c b HI EL ER ELo EUp) as (HIu0 & HIu1).
                destruct (split_u c b) as [b0 b1]. cbn [fst snd] in *. apply in_or_app.
                destruct Hi as [Ei | Ei]; [left|right]; apply Hclip; auto.
  Qed.

  Notation segment := (cells_for_segment B left_only right_only lower_only upper_only split_u split_v child_ij cells).

  (** one face segment of getCellsForEdge: every index cell met by the edge that is comparable with
      the edge root (the edge lies inside the root cell) is visited *)
  Theorem segment_complete root sr b k :
    cellform root sr -> I root b -> 0 <= k < lenZ cells ->
    meets (nthZ cells k 0) ->
    (nested_in (nthZ cells k 0) root \/ nested_in root (nthZ cells k 0)) ->
    In k (segment root b).
  Proof.
    intros Hr HI Hk Hm Hrel. pose proof (cellform_valid _ _ Hr) as Vr. pose proof (Hvalid k Hk) as Vx.
    set (x := nthZ cells k 0) in *.
    pose proof (valid_range root Vr) as (Hr0 & Hbr & _). pose proof (valid_range x Vx) as (_ & Hbx & _).
    destruct (valid_ranges root Vr) as (Ermin & Ermax). destruct (valid_ranges x Vx) as (Exmin & Exmax).
    pose proof (locate_cellid_spec cells root Hcells ltac:(lia)) as Hs.
    pose proof Hcells as (Hv & Hd).
    unfold cells_for_segment. unfold nested_in in Hrel.
    destruct (locate_cellid cells root) as [pos|pos|].
    - (* Indexed: the cell holding the root is the only one the edge can meet *)
      destruct Hs as (Hpos & Hlo & Hhi). left.
      destruct (Z.lt_trichotomy pos k) as [L|[E|L]]; [exfalso|exact E|exfalso].
      + specialize (Hd pos k ltac:(lia) ltac:(lia)). fold x in Hd. lia.
      + specialize (Hd k pos ltac:(lia) ltac:(lia)). fold x in Hd. lia.
    - destruct Hs as (Hpos & Hlo & Hhi & Hne & Hfirst).
      destruct Hr as (Hsr & Hr'). assert (cellform root sr) as Hr by (split; assumption).
      apply (compute_complete 31 root sr b k); try assumption; [cbn; lia|].
      destruct Hrel as [Hrel|Hrel]; [exact Hrel|exfalso].
      (* x contains the root, hence the index cell at pos: x is that cell, and equals the root *)
      subst x.
      assert (k = pos) as Ek.
      { destruct (Z.lt_trichotomy pos k) as [L|[E|L]]; [exfalso|symmetry; exact E|exfalso].
        - specialize (Hd pos k ltac:(lia) ltac:(lia)).
          pose proof (Hv pos Hpos) as Hvp. pose proof (range_bounds _ (proj1 Hvp)). lia.
        - specialize (Hd k pos ltac:(lia) ltac:(lia)).
          pose proof (Hv pos Hpos) as Hvp. pose proof (range_bounds _ (proj1 Hvp)). lia. }
      subst k. apply Hne. apply same_range; [assumption|assumption|lia|lia].
    - exfalso. specialize (Hs k Hk). fold x in Hs. lia.
  Qed.

  (** getCellsForEdge: the visited cells contain every index cell met by the edge, provided each such
      cell is comparable with the root of one of the face segments *)
  Theorem edge_complete (segments : list (Z * B)) k :
    0 <= k < lenZ cells -> meets (nthZ cells k 0) ->
    (exists root b sr, In (root, b) segments /\ cellform root sr /\ I root b /\
       (nested_in (nthZ cells k 0) root \/ nested_in root (nthZ cells k 0))) ->
    In k (cells_for_edge B left_only right_only lower_only upper_only split_u split_v child_ij cells segments).
  Proof.
    intros Hk Hm (root & b & sr & Hin & Hr & HI & Hrel). unfold cells_for_edge.
    apply in_flat_map. exists (root, b). split; [exact Hin|]. cbn [fst snd].
    apply (segment_complete root sr b k); assumption.
  Qed.
End Descent.

(** [descent_sound] is satisfiable: the clipping that never prunes (every guard false) with the
    trivial invariants *)
Example descent_sound_inhabited :
  descent_sound unit (fun _ _ => false) (fun _ _ => false) (fun _ _ => false) (fun _ _ => false)
                (fun _ b => (b, b)) (fun _ b => (b, b)) (fun c i j => 4 * c + 2 * i + j)
                (fun _ => True) (fun _ _ => True) (fun _ _ _ => True).
Proof. constructor; intros; try discriminate; auto. Qed.
