(** C12 [id_range_contains]: if the leaf cell of a point lies in the id range of a valid
    cell c and the leaf cell contains the point (uv test with the dblEpsilon margin), then
    c contains the point.  Closed: it rests on the monotonicity of stToUV
    (Proofs/StUV_Mono.v) and of float subtraction/addition — the uv rectangle of an
    ancestor contains that of every descendant, bound by bound, in floats.
    The premise "the leaf cell contains the point" is NOT always true of the code
    ([leaf_contains_refuted] below; KNOWN_FINDINGS Cell.ContainsPoint.marginTooSmall). *)
From Coq Require Import ZArith Reals List Bool Lia Lra Floats.
From Flocq Require Import Core.Core IEEE754.BinarySingleNaN IEEE754.PrimFloat.
From Geo Require Import Base.GoPrim Base.F64 Base.F64Arith Gen.CellGeom
  Proofs.StUV_Mono Proofs.C12_Hilbert Proofs.C12_Ids Proofs.C12_Float Proofs.C12_Children Proofs.C12_Valid.
Import ListNotations.

(** * Part 1: floats — one coordinate of the expanded rectangle test *)
Local Open Scope R_scope.

Lemma leb_nonnan x y : PrimFloat.leb x y = true -> nonnan x /\ nonnan y.
Proof.
  unfold nonnan. rewrite !go_isnan_equiv, leb_equiv.
  destruct (Prim2B x) as [sx|sx| |sx mx ex Hx]; destruct (Prim2B y) as [sy|sy| |sy my ey Hy];
    simpl; intros H; try discriminate; auto.
Qed.

Definition eps : PrimFloat.float := (0x1p-52)%float.
Lemma eps_fin : fin eps. Proof. exact (lit_fin eps _ _ _ eq_refl). Qed.
Lemma eps_RV : RV eps = / 4503599627370496.
Proof. unfold eps. lit_value. Qed.

Lemma okbound_2 : okbound 2.
Proof. apply (okbound_IZR 2). lia. Qed.

Lemma empty_contains_nothing u : r1_Interval_Contains r1_EmptyInterval u = false.
Proof.
  unfold r1_Interval_Contains, r1_EmptyInterval. cbn [r1_Interval_Lo r1_Interval_Hi].
  destruct (PrimFloat.leb 1 u) eqn:E1; [|reflexivity].
  destruct (PrimFloat.leb u 0) eqn:E2; [|reflexivity]. exfalso.
  destruct (leb_nonnan _ _ E1) as [N1 Nu]. destruct (leb_nonnan _ _ E2) as [_ N0].
  apply leb_true_iff in E1; auto. apply leb_true_iff in E2; auto.
  assert (R1 : rank 1%float = 1).
  { rewrite rank_fin by exact (lit_fin 1%float _ _ _ eq_refl).
    assert (E : RV 1%float = 1) by lit_value. exact E. }
  assert (R0 : rank 0%float = 0) by (rewrite rank_fin by exact zero_fin; exact zero_RV).
  lra.
Qed.

Definition Exp (i : r1_Interval) : r1_Interval := r1_Interval_Expanded i eps.

Lemma expanded_mono loC loL hiL hiC u :
  inR (-1) 1 loC -> inR (-1) 1 loL -> inR (-1) 1 hiL -> inR (-1) 1 hiC ->
  RV loC <= RV loL -> RV hiL <= RV hiC ->
  r1_Interval_IsEmpty (Exp (mk_r1_Interval loL hiL)) = false ->
  r1_Interval_Contains (Exp (mk_r1_Interval loL hiL)) u = true ->
  r1_Interval_IsEmpty (Exp (mk_r1_Interval loC hiC)) = false /\
  r1_Interval_Contains (Exp (mk_r1_Interval loC hiC)) u = true.
Proof.
  intros [FloC RloC] [FloL RloL] [FhiL RhiL] [FhiC RhiC] Hlo Hhi HE HC.
  unfold Exp, r1_Interval_Expanded in *. cbn [r1_Interval_Lo r1_Interval_Hi] in *.
  unfold r1_Interval_IsEmpty in *. cbn [r1_Interval_Lo r1_Interval_Hi] in *.
  destruct (PrimFloat.ltb hiL loL) eqn:EL.
  { (* L empty: its expansion is itself, still empty *) cbn [r1_Interval_Lo r1_Interval_Hi] in HE. congruence. }
  cbn [r1_Interval_Lo r1_Interval_Hi] in HE, HC.
  apply ltb_false_iff in EL; auto using fin_nonnan. rewrite !rank_fin in EL by assumption.
  pose proof eps_fin as Fe. pose proof eps_RV as Re.
  assert (Pe : 0 < RV eps < 1) by (rewrite Re; lra).
  (* the four expanded bounds, ordered *)
  assert (LoM : fle (PrimFloat.sub loC eps) (PrimFloat.sub loL eps)).
  { apply (sub_mono 2); [exact okbound_2| repeat split; assumption | repeat split; try assumption; lra | |];
      apply Rabs_le; lra. }
  assert (HiM : fle (PrimFloat.add hiL eps) (PrimFloat.add hiC eps)).
  { apply (add_mono 2); [exact okbound_2| repeat split; assumption | repeat split; try assumption; lra | |];
      apply Rabs_le; lra. }
  destruct LoM as (F1 & F2 & L12). destruct HiM as (F3 & F4 & L34).
  unfold r1_Interval_Contains in HC. cbn [r1_Interval_Lo r1_Interval_Hi] in HC.
  apply andb_true_iff in HC. destruct HC as [C1 C2].
  destruct (leb_nonnan _ _ C1) as [_ Nu].
  apply leb_true_iff in C1; auto using fin_nonnan. apply leb_true_iff in C2; auto using fin_nonnan.
  rewrite rank_fin in C1, C2 by assumption.
  assert (EC : PrimFloat.ltb hiC loC = false).
  { apply ltb_false_iff; auto using fin_nonnan. rewrite !rank_fin by assumption. lra. }
  rewrite EC. cbn [r1_Interval_Lo r1_Interval_Hi]. split.
  - apply ltb_false_iff; auto using fin_nonnan. rewrite !rank_fin by assumption. lra.
  - unfold r1_Interval_Contains. cbn [r1_Interval_Lo r1_Interval_Hi]. apply andb_true_iff. split;
      apply leb_true_iff; auto using fin_nonnan; rewrite rank_fin by assumption; lra.
Qed.

(** * Part 2: the uv bounds UV(x) = stToUV(x / 2^30) are monotone in the integer x *)
Lemma lit30_fin : fin (0x1p+30)%float. Proof. exact (lit_fin (0x1p+30)%float _ _ _ eq_refl). Qed.
Lemma lit30_RV : RV (0x1p+30)%float = 1073741824.
Proof. lit_value. Qed.

Lemma float_of_Z_fin z : (Z.abs z < 2 ^ 53)%Z -> fin (float_of_Z z) /\ RV (float_of_Z z) = IZR z.
Proof.
  intros H. unfold fin, RV. rewrite Prim2B_float_of_Z.
  destruct (BN_exact z H) as (E & F & _). split; assumption.
Qed.

Lemma ijToSTMin_val x : (0 <= x <= 2 ^ 30)%Z ->
  inR 0 1 (s2_ijToSTMin x) /\ RV (s2_ijToSTMin x) = rnd (IZR x / 1073741824).
Proof.
  intros H. unfold s2_ijToSTMin.
  destruct (float_of_Z_fin x) as [Fx Rx]; [lia|].
  assert (Q : 0 <= IZR x / 1073741824 <= 1).
  { assert (0 <= IZR x) by (apply IZR_le; lia).
    assert (IZR x <= 1073741824) by (apply IZR_le; change (2 ^ 30)%Z with 1073741824%Z in H; lia).
    split; [apply Rmult_le_pos; lra | apply Rmult_le_reg_r with 1073741824; [lra|]; unfold Rdiv;
      rewrite Rmult_assoc, Rinv_l by lra; lra]. }
  assert (B : Rabs (rnd (RV (float_of_Z x) / RV (0x1p+30)%float)) < bpow radix2 emax).
  { rewrite Rx, lit30_RV. apply (below_top _ 2 okbound_2). apply Rabs_le. lra. }
  destruct (div_fin (float_of_Z x) (0x1p+30)%float Fx lit30_fin ltac:(rewrite lit30_RV; lra) B) as [F E].
  rewrite Rx, lit30_RV in E. split; [|exact E]. split; [exact F|]. rewrite E. split.
  - rewrite <- rnd_0. apply rnd_le. lra.
  - rewrite <- (rnd_repr 1) by (apply (repr_IZR 1); lia). apply rnd_le. lra.
Qed.

Lemma UV_mono x y : (0 <= x <= y)%Z -> (y <= 2 ^ 30)%Z ->
  inR (-1) 1 (UV x) /\ inR (-1) 1 (UV y) /\ RV (UV x) <= RV (UV y).
Proof.
  intros Hxy Hy. destruct (ijToSTMin_val x) as [Ix Ex]; [lia|]. destruct (ijToSTMin_val y) as [Iy Ey]; [lia|].
  assert (L : RV (s2_ijToSTMin x) <= RV (s2_ijToSTMin y)).
  { rewrite Ex, Ey. apply rnd_le. apply Rmult_le_compat_r; [lra|]. apply IZR_le. lia. }
  destruct (stToUV_mono _ _ Ix Iy L) as (_ & _ & M).
  unfold UV. split; [apply stToUV_range; exact Ix|]. split; [apply stToUV_range; exact Iy|exact M].
Qed.
