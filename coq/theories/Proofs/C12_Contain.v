(** C12 [id_range_contains]: if the leaf cell of a point lies in the id range of a valid
    cell c and the leaf cell contains the point (uv test with the dblEpsilon margin), then
    c contains the point.  Closed: it rests on the monotonicity of stToUV
    (Proofs/StUV_Mono.v) and of float subtraction/addition — the uv rectangle of an
    ancestor contains that of every descendant, bound by bound, in floats.
    The premise "the leaf cell contains the point" is NOT always true of the code
    ([leaf_contains_refuted] below; KNOWN_FINDINGS Cell.ContainsPoint.marginTooSmall). *)
From Coq Require Import ZArith Reals List Bool Lia Lra Floats.
From Flocq Require Import Core.Core IEEE754.BinarySingleNaN IEEE754.PrimFloat.
From Geo Require Import Base.GoPrim Base.F64 Base.F64Arith Gen.CellGeom Model.HilbertDecode
  Proofs.StUV_Mono Proofs.C12_Hilbert Proofs.C12_Ids Proofs.C12_Float Proofs.C12_Children Proofs.C12_Valid.
Import ListNotations.

(** * Part 1: floats — one coordinate of the expanded rectangle test *)
Local Open Scope R_scope.

Lemma leb_nonnan x y : PrimFloat.leb x y = true -> nonnan x /\ nonnan y.
Proof.
  unfold nonnan. rewrite !go_isnan_equiv, leb_equiv.
  destruct (Prim2B x) as [sx|sx| |sx mx ex Hx]; destruct (Prim2B y) as [sy|sy| |sy my ey Hy];
    simpl; intros H; try discriminate; auto.
Qed.

(** the margin of ContainsPoint as it stands in the translated code: dblEpsilon *)
Definition eps : PrimFloat.float := (0x1p-52)%float.
Lemma eps_fin : fin eps. Proof. exact (lit_fin eps _ _ _ eq_refl). Qed.
Lemma eps_RV : RV eps = / 4503599627370496.
Proof. unfold eps. lit_value. Qed.

Lemma okbound_2 : okbound 2.
Proof. apply (okbound_IZR 2). lia. Qed.

Lemma empty_contains_nothing u : r1_Interval_Contains r1_EmptyInterval u = false.
Proof.
  unfold r1_Interval_Contains, r1_EmptyInterval. cbn [r1_Interval_Lo r1_Interval_Hi].
  destruct (PrimFloat.leb 1 u) eqn:E1; [|reflexivity].
  destruct (PrimFloat.leb u 0) eqn:E2; [|reflexivity]. exfalso.
  destruct (leb_nonnan _ _ E1) as [N1 Nu]. destruct (leb_nonnan _ _ E2) as [_ N0].
  apply leb_true_iff in E1; auto. apply leb_true_iff in E2; auto.
  assert (R1 : rank 1%float = 1).
  { rewrite rank_fin by exact (lit_fin 1%float _ _ _ eq_refl).
    assert (E : RV 1%float = 1) by lit_value. exact E. }
  assert (R0 : rank 0%float = 0) by (rewrite rank_fin by exact zero_fin; exact zero_RV).
  lra.
Qed.

Definition Exp (i : r1_Interval) : r1_Interval := r1_Interval_Expanded i eps.

Lemma expanded_mono loC loL hiL hiC u :
  inR (-1) 1 loC -> inR (-1) 1 loL -> inR (-1) 1 hiL -> inR (-1) 1 hiC ->
  RV loC <= RV loL -> RV hiL <= RV hiC ->
  r1_Interval_IsEmpty (Exp (mk_r1_Interval loL hiL)) = false ->
  r1_Interval_Contains (Exp (mk_r1_Interval loL hiL)) u = true ->
  r1_Interval_IsEmpty (Exp (mk_r1_Interval loC hiC)) = false /\
  r1_Interval_Contains (Exp (mk_r1_Interval loC hiC)) u = true.
Proof.
  intros [FloC RloC] [FloL RloL] [FhiL RhiL] [FhiC RhiC] Hlo Hhi HE HC.
  unfold Exp, r1_Interval_Expanded in *. cbn [r1_Interval_Lo r1_Interval_Hi] in *.
  unfold r1_Interval_IsEmpty in *. cbn [r1_Interval_Lo r1_Interval_Hi] in *.
  destruct (PrimFloat.ltb hiL loL) eqn:EL.
  { (* L empty: its expansion is itself, still empty *) cbn [r1_Interval_Lo r1_Interval_Hi] in HE. congruence. }
  cbn [r1_Interval_Lo r1_Interval_Hi] in HE, HC.
  apply ltb_false_iff in EL; auto using fin_nonnan. rewrite !rank_fin in EL by assumption.
  pose proof eps_fin as Fe. pose proof eps_RV as Re.
  assert (Pe : 0 < RV eps < 1) by (rewrite Re; lra).
  (* the four expanded bounds, ordered *)
  assert (LoM : fle (PrimFloat.sub loC eps) (PrimFloat.sub loL eps)).
  { apply (sub_mono 2); [exact okbound_2| repeat split; assumption | repeat split; try assumption; lra | |];
      apply Rabs_le; lra. }
  assert (HiM : fle (PrimFloat.add hiL eps) (PrimFloat.add hiC eps)).
  { apply (add_mono 2); [exact okbound_2| repeat split; assumption | repeat split; try assumption; lra | |];
      apply Rabs_le; lra. }
  destruct LoM as (F1 & F2 & L12). destruct HiM as (F3 & F4 & L34).
  unfold r1_Interval_Contains in HC. cbn [r1_Interval_Lo r1_Interval_Hi] in HC.
  apply andb_true_iff in HC. destruct HC as [C1 C2].
  destruct (leb_nonnan _ _ C1) as [_ Nu].
  apply leb_true_iff in C1; auto using fin_nonnan. apply leb_true_iff in C2; auto using fin_nonnan.
  rewrite (rank_fin (PrimFloat.sub loL eps)) in C1 by assumption.
  rewrite (rank_fin (PrimFloat.add hiL eps)) in C2 by assumption.
  assert (EC : PrimFloat.ltb hiC loC = false).
  { apply ltb_false_iff; auto using fin_nonnan. rewrite !rank_fin by assumption. lra. }
  rewrite EC. cbn [r1_Interval_Lo r1_Interval_Hi]. split.
  - apply ltb_false_iff; auto using fin_nonnan. rewrite !rank_fin by assumption. lra.
  - unfold r1_Interval_Contains. cbn [r1_Interval_Lo r1_Interval_Hi]. apply andb_true_iff. split;
      apply leb_true_iff; auto using fin_nonnan.
    + rewrite (rank_fin (PrimFloat.sub loC eps)) by assumption. lra.
    + rewrite (rank_fin (PrimFloat.add hiC eps)) by assumption. lra.
Qed.

(** * Part 2: the uv bounds UV(x) = stToUV(x / 2^30) are monotone in the integer x *)
Lemma lit30_fin : fin (0x1p+30)%float. Proof. exact (lit_fin (0x1p+30)%float _ _ _ eq_refl). Qed.
Lemma lit30_RV : RV (0x1p+30)%float = 1073741824.
Proof. lit_value. Qed.

Lemma float_of_Z_fin z : (Z.abs z < 2 ^ 53)%Z -> fin (float_of_Z z) /\ RV (float_of_Z z) = IZR z.
Proof.
  intros H. unfold fin, RV. rewrite Prim2B_float_of_Z.
  destruct (BN_exact z H) as (E & F & _). split; assumption.
Qed.

Lemma ijToSTMin_val x : (0 <= x <= 2 ^ 30)%Z ->
  inR 0 1 (s2_ijToSTMin x) /\ RV (s2_ijToSTMin x) = rnd (IZR x / 1073741824).
Proof.
  intros H. unfold s2_ijToSTMin.
  destruct (float_of_Z_fin x) as [Fx Rx]; [lia|].
  assert (Q : 0 <= IZR x / 1073741824 <= 1).
  { assert (0 <= IZR x) by (apply IZR_le; lia).
    assert (IZR x <= 1073741824) by (apply IZR_le; change (2 ^ 30)%Z with 1073741824%Z in H; lia).
    split; [apply Rmult_le_pos; lra | apply Rmult_le_reg_r with 1073741824; [lra|]; unfold Rdiv;
      rewrite Rmult_assoc, Rinv_l by lra; lra]. }
  assert (B : Rabs (rnd (RV (float_of_Z x) / RV (0x1p+30)%float)) < bpow radix2 emax).
  { rewrite Rx, lit30_RV. apply (below_top _ 2 okbound_2). apply Rabs_le. lra. }
  destruct (div_fin (float_of_Z x) (0x1p+30)%float Fx lit30_fin ltac:(rewrite lit30_RV; lra) B) as [F E].
  rewrite Rx, lit30_RV in E. split; [|exact E]. split; [exact F|]. rewrite E. split.
  - rewrite <- rnd_0. apply rnd_le. lra.
  - rewrite <- (rnd_repr 1) by (apply (repr_IZR 1); lia). apply rnd_le. lra.
Qed.

Lemma UV_mono x y : (0 <= x <= y)%Z -> (y <= 2 ^ 30)%Z ->
  inR (-1) 1 (UV x) /\ inR (-1) 1 (UV y) /\ RV (UV x) <= RV (UV y).
Proof.
  intros Hxy Hy. destruct (ijToSTMin_val x) as [Ix Ex]; [lia|]. destruct (ijToSTMin_val y) as [Iy Ey]; [lia|].
  assert (L : RV (s2_ijToSTMin x) <= RV (s2_ijToSTMin y)).
  { rewrite Ex, Ey. apply rnd_le. apply Rmult_le_compat_r; [lra|]. apply IZR_le. lia. }
  destruct (stToUV_mono _ _ Ix Iy L) as (_ & _ & M).
  unfold UV. split; [apply stToUV_range; exact Ix|]. split; [apply stToUV_range; exact Iy|exact M].
Qed.

(** * Part 3: ids — a leaf in the id range of c has c's (i,j) prefix *)
Local Open Scope Z_scope.

Lemma rangemin_spec K e : sid_ok K e -> s2_CellID_RangeMin (sid K e) = sid K e - (4 ^ Z.of_nat e - 1).
Proof.
  intros H. pose proof (sid_range' K e H) as R. assert (He : (e <= 30)%nat) by apply H.
  pose proof (pow4_lt_64 e He) as P. unfold s2_CellID_RangeMin. rewrite lsb_spec by assumption.
  autorewrite with wrapdb. apply wrap_u64_small.
  assert (G : 4 ^ Z.of_nat e <= sid K e).
  { unfold sid. destruct H as [_ HK]. nia. }
  change (2 ^ 64) with 18446744073709551616. change (2 ^ 60) with 1152921504606846976 in *.
  set (pp := 4 ^ Z.of_nat e) in *. lia.
Qed.

Lemma rangemax_spec K e : sid_ok K e -> s2_CellID_RangeMax (sid K e) = sid K e + (4 ^ Z.of_nat e - 1).
Proof.
  intros H. pose proof (sid_range' K e H) as R. assert (He : (e <= 30)%nat) by apply H.
  pose proof (pow4_lt_64 e He) as P. unfold s2_CellID_RangeMax. rewrite lsb_spec by assumption.
  autorewrite with wrapdb. apply wrap_u64_small.
  change (2 ^ 64) with 18446744073709551616. change (2 ^ 60) with 1152921504606846976 in *.
  set (pp := 4 ^ Z.of_nat e) in *. lia.
Qed.

Lemma contains_prefix K e N : sid_ok K e -> sid_ok N 0 ->
  s2_CellID_Contains (sid K e) (sid N 0) = true -> N / 4 ^ Z.of_nat e = K.
Proof.
  intros HK HN H. unfold s2_CellID_Contains in H.
  rewrite rangemin_spec, rangemax_spec in H by assumption.
  pose proof (sid_range K e HK) as RK. pose proof (sid_range' K e HK) as RK'. pose proof (sid_range N 0 HN) as RN.
  assert (He : (e <= 30)%nat) by apply HK. pose proof (pow4_lt_64 e He) as P.
  assert (G : 4 ^ Z.of_nat e <= sid K e).
  { unfold sid. destruct HK as [_ HK]. pose proof (pow4_pos e). nia. }
  change (2 ^ 64) with 18446744073709551616 in *. change (2 ^ 60) with 1152921504606846976 in *.
  set (pp := 4 ^ Z.of_nat e) in *.
  rewrite (wrap_u64_small (sid K e - (pp - 1))) in H by (change (2 ^ 64) with 18446744073709551616; lia).
  rewrite (wrap_u64_small (sid K e + (pp - 1))) in H by (change (2 ^ 64) with 18446744073709551616; lia).
  rewrite !(wrap_u64_small (sid N 0)) in H by (change (2 ^ 64) with 18446744073709551616; lia).
  apply andb_true_iff in H. destruct H as [H1 H2]. apply Z.leb_le in H1, H2.
  unfold sid in H1, H2. change (4 ^ Z.of_nat 0) with 1 in H1, H2.
  symmetry. apply (Z.div_unique N pp K (N - K * pp)); [nia | ring].
Qed.

Ltac Zify.zify_post_hook ::= Z.div_mod_to_equations.

Lemma hd_state_prefix m : forall n x,
  exists o', hd_state n (x / 4 ^ Z.of_nat m) =
    (fst (fst (hd_state (m + n) x)) / 2 ^ Z.of_nat m, snd (fst (hd_state (m + n) x)) / 2 ^ Z.of_nat m, o').
Proof.
  induction m as [|m IH]; intros n x.
  - change (4 ^ Z.of_nat 0) with 1. change (2 ^ Z.of_nat 0) with 1. rewrite !Z.div_1_r.
    change (0 + n)%nat with n. destruct (hd_state n x) as [[i j] o]. exists o. reflexivity.
  - change (S m + n)%nat with (S (m + n)). cbn [hd_state].
    destruct (IH n (Z.shiftr x 2)) as [o' E].
    pose proof (hd_state_ok (m + n) (Z.shiftr x 2)) as Hok.
    destruct (hd_state (m + n) (Z.shiftr x 2)) as [[i j] o] eqn:ES. destruct Hok as (_ & _ & Ho).
    cbn [fst snd] in E. rewrite hd_step_eq. cbn [fst snd].
    destruct (hd_ab_range o (Z.land x 3) Ho (land3_range x)) as [Ha Hb].
    exists o'. rewrite pow4_S. rewrite Nat2Z.inj_succ, Z.pow_succ_r by lia.
    rewrite <- !Z.div_div by (try lia; apply Z.pow_pos_nonneg; lia).
    rewrite Z.shiftr_div_pow2 in E by lia. change (2 ^ 2) with 4 in E. rewrite E.
    replace ((2 * i + hd_a o (Z.land x 3)) / 2) with i by (destruct Ha as [-> | ->]; lia).
    replace ((2 * j + hd_b o (Z.land x 3)) / 2) with j by (destruct Hb as [-> | ->]; lia).
    reflexivity.
Qed.

Lemma face_sid K e : sid_ok K e -> Z.shiftr (sid K e) 61 = K / 4 ^ Z.of_nat (30 - e).
Proof.
  intros [He HK]. rewrite Z.shiftr_div_pow2 by lia.
  pose proof (pow4_pos e) as P. pose proof (pow4_pos (30 - e)) as Q.
  replace (2 ^ 61) with (4 ^ Z.of_nat e * 2 * 4 ^ Z.of_nat (30 - e)).
  2:{ transitivity (2 * (4 ^ Z.of_nat e * 4 ^ Z.of_nat (30 - e))); [ring | rewrite pow4_split by lia; reflexivity]. }
  rewrite <- !Z.div_div by lia. unfold sid. rewrite Z.div_mul by lia.
  replace ((2 * K + 1) / 2) with K by lia. reflexivity.
Qed.

(** * Part 4: the theorem *)
Lemma rect_contains_split r u v :
  r2_Rect_ContainsPoint (r2_Rect_ExpandedByMargin r eps) (mk_r2_Point u v) = true ->
  r1_Interval_IsEmpty (Exp (r2_Rect_X r)) = false /\ r1_Interval_Contains (Exp (r2_Rect_X r)) u = true /\
  r1_Interval_IsEmpty (Exp (r2_Rect_Y r)) = false /\ r1_Interval_Contains (Exp (r2_Rect_Y r)) v = true.
Proof.
  unfold r2_Rect_ExpandedByMargin, r2_Rect_Expanded. cbn [r2_Point_X r2_Point_Y]. fold (Exp (r2_Rect_X r)) (Exp (r2_Rect_Y r)).
  destruct (r1_Interval_IsEmpty (Exp (r2_Rect_X r))) eqn:EX; cbn [orb].
  { unfold r2_Rect_ContainsPoint, r2_EmptyRect. cbn [r2_Rect_X r2_Rect_Y r2_Point_X r2_Point_Y].
    rewrite empty_contains_nothing. discriminate. }
  destruct (r1_Interval_IsEmpty (Exp (r2_Rect_Y r))) eqn:EY.
  { unfold r2_Rect_ContainsPoint, r2_EmptyRect. cbn [r2_Rect_X r2_Rect_Y r2_Point_X r2_Point_Y].
    rewrite empty_contains_nothing. discriminate. }
  unfold r2_Rect_ContainsPoint. cbn [r2_Rect_X r2_Rect_Y r2_Point_X r2_Point_Y].
  intros H. apply andb_true_iff in H. tauto.
Qed.

Lemma rect_contains_join r u v :
  r1_Interval_IsEmpty (Exp (r2_Rect_X r)) = false -> r1_Interval_Contains (Exp (r2_Rect_X r)) u = true ->
  r1_Interval_IsEmpty (Exp (r2_Rect_Y r)) = false -> r1_Interval_Contains (Exp (r2_Rect_Y r)) v = true ->
  r2_Rect_ContainsPoint (r2_Rect_ExpandedByMargin r eps) (mk_r2_Point u v) = true.
Proof.
  intros EX CX EY CY.
  unfold r2_Rect_ExpandedByMargin, r2_Rect_Expanded. cbn [r2_Point_X r2_Point_Y]. fold (Exp (r2_Rect_X r)) (Exp (r2_Rect_Y r)).
  rewrite EX, EY. cbn [orb]. unfold r2_Rect_ContainsPoint. cbn [r2_Rect_X r2_Rect_Y r2_Point_X r2_Point_Y].
  rewrite CX, CY. reflexivity.
Qed.

Lemma containspoint_unfold c p :
  s2_Cell_ContainsPoint c p =
  (let '(u, v, ok) := s2_faceXYZToUV (wrap_i64 (s2_Cell_face c)) p in
   if negb ok then false else r2_Rect_ContainsPoint (r2_Rect_ExpandedByMargin (s2_Cell_uv c) eps) (mk_r2_Point u v)).
Proof.
  unfold s2_Cell_ContainsPoint. destruct (s2_faceXYZToUV (wrap_i64 (s2_Cell_face c)) p) as [[u v] ok]. reflexivity.
Qed.

(** one coordinate: bounds of the ancestor enclose those of the leaf *)
Lemma interval_encloses (e : nat) i u : (e <= 30)%nat -> 0 <= i < 2 ^ 30 ->
  r1_Interval_IsEmpty (Exp (mk_r1_Interval (UV (i * 2 ^ Z.of_nat 0)) (UV ((i + 1) * 2 ^ Z.of_nat 0)))) = false ->
  r1_Interval_Contains (Exp (mk_r1_Interval (UV (i * 2 ^ Z.of_nat 0)) (UV ((i + 1) * 2 ^ Z.of_nat 0)))) u = true ->
  r1_Interval_IsEmpty (Exp (mk_r1_Interval (UV (i / 2 ^ Z.of_nat e * 2 ^ Z.of_nat e)) (UV ((i / 2 ^ Z.of_nat e + 1) * 2 ^ Z.of_nat e)))) = false /\
  r1_Interval_Contains (Exp (mk_r1_Interval (UV (i / 2 ^ Z.of_nat e * 2 ^ Z.of_nat e)) (UV ((i / 2 ^ Z.of_nat e + 1) * 2 ^ Z.of_nat e)))) u = true.
Proof.
  intros He Hi. change (2 ^ Z.of_nat 0) with 1. rewrite !Z.mul_1_r.
  pose proof (pow2_le_30 e He) as P. pose proof (pow2_split e He) as HS.
  set (p := 2 ^ Z.of_nat e) in *. set (q := 2 ^ Z.of_nat (30 - e)) in *.
  assert (D : i = p * (i / p) + i mod p) by (apply Z.div_mod; lia).
  pose proof (Z.mod_pos_bound i p ltac:(lia)) as M.
  set (ci := i / p) in *.
  assert (Hci : 0 <= ci < q).
  { split; [apply Z.div_pos; lia|]. apply Z.div_lt_upper_bound; [lia|]. rewrite Z.mul_comm, HS. lia. }
  assert (B1 : 0 <= ci * p <= i) by nia.
  assert (B2 : i + 1 <= (ci + 1) * p) by nia.
  assert (B3 : (ci + 1) * p <= 2 ^ 30) by (rewrite <- HS; nia).
  destruct (UV_mono (ci * p) i ltac:(lia) ltac:(lia)) as (I1 & I2 & L1).
  destruct (UV_mono (i + 1) ((ci + 1) * p) ltac:(lia) B3) as (I3 & I4 & L2).
  apply expanded_mono; assumption.
Qed.

Theorem id_range_contains_struct K (e : nat) N p :
  sid_ok K e -> sid_ok N 0 ->
  s2_CellID_Contains (sid K e) (sid N 0) = true ->
  s2_Cell_ContainsPoint (s2_CellFromCellID (sid N 0)) p = true ->
  s2_Cell_ContainsPoint (s2_CellFromCellID (sid K e)) p = true.
Proof.
  intros HK HN Hin HL. assert (He : (e <= 30)%nat) by apply HK.
  pose proof (contains_prefix K e N HK HN Hin) as EK.
  set (n := (30 - e)%nat). assert (Hn : (n + e = 30)%nat) by (unfold n; lia).
  destruct (hd_state 30 N) as [[i j] o] eqn:ESL.
  pose proof (hd_state_ok 30 N) as HokL. rewrite ESL in HokL. destruct HokL as (Hi & Hj & _).
  change (Z.of_nat 30) with 30 in Hi, Hj.
  destruct (hd_state_prefix e n N) as [o' EP].
  replace (e + n)%nat with 30%nat in EP by lia. rewrite ESL in EP. cbn [fst snd] in EP. rewrite EK in EP.
  rewrite (cellfrom_spec 30 0 N eq_refl HN i j o ESL) in HL.
  rewrite (cellfrom_spec n e K Hn HK _ _ _ EP).
  rewrite containspoint_unfold in *. cbn [s2_Cell_face s2_Cell_uv] in *.
  (* same face *)
  assert (EF : Z.shiftr (sid K e) 61 = Z.shiftr (sid N 0) 61).
  { rewrite (face_sid K e HK), (face_sid N 0 HN). rewrite <- EK.
    pose proof (pow4_pos e). pose proof (pow4_pos (30 - e)).
    rewrite Z.div_div by lia. rewrite <- Z.pow_add_r by lia.
    replace (Z.of_nat e + Z.of_nat (30 - e)) with (Z.of_nat (30 - 0)) by lia. reflexivity. }
  rewrite EF.
  destruct (s2_faceXYZToUV (wrap_i64 (wrap_i8 (Z.shiftr (sid N 0) 61))) p) as [[u v] ok].
  destruct (negb ok); [discriminate|].
  apply rect_contains_split in HL. unfold RectOf in HL. cbn [r2_Rect_X r2_Rect_Y] in HL.
  destruct HL as (EX & CX & EY & CY).
  destruct (interval_encloses e i u He Hi EX CX) as [EX' CX'].
  destruct (interval_encloses e j v He Hj EY CY) as [EY' CY'].
  apply rect_contains_join; unfold RectOf; cbn [r2_Rect_X r2_Rect_Y]; assumption.
Qed.

(** for every valid cell id c and valid leaf id l (as decided by the translated IsValid / IsLeaf / Contains) *)
Theorem id_range_contains c l p :
  0 <= c < 2 ^ 64 -> 0 <= l < 2 ^ 64 ->
  s2_CellID_IsValid c = true -> s2_CellID_IsValid l = true -> s2_CellID_IsLeaf l = true ->
  s2_CellID_Contains c l = true ->
  s2_Cell_ContainsPoint (s2_CellFromCellID l) p = true ->
  s2_Cell_ContainsPoint (s2_CellFromCellID c) p = true.
Proof.
  intros Hc Hl Vc Vl Ll Hin HL.
  destruct (valid_is_struct c Hc Vc) as (K & e & -> & HK).
  destruct (valid_is_struct l Hl Vl) as (N & e0 & -> & HN).
  rewrite isleaf_spec in Ll by assumption. destruct e0 as [|e0]; [|discriminate].
  eapply id_range_contains_struct; eassumption.
Qed.

(** * From a round-trip bound on one coordinate to the leaf's interval test (closed)
    If the float u is within dblEpsilon (in real arithmetic) of the uv bounds of leaf index i,
    the float test of ContainsPoint on that coordinate succeeds: u is representable, so rounding
    the expanded bound cannot carry it past u. *)
Local Open Scope R_scope.
Lemma leaf_interval_from_roundtrip (i : Z) u : (0 <= i < 2 ^ 30)%Z -> fin u ->
  RV (UV i) - RV eps <= RV u <= RV (UV (i + 1)) + RV eps ->
  r1_Interval_IsEmpty (Exp (mk_r1_Interval (UV i) (UV (i + 1)))) = false /\
  r1_Interval_Contains (Exp (mk_r1_Interval (UV i) (UV (i + 1)))) u = true.
Proof.
  intros Hi Fu [Hlo Hhi].
  destruct (UV_mono i (i + 1) ltac:(lia) ltac:(lia)) as ([FL RL] & [FH RH] & LH).
  pose proof eps_fin as Fe. pose proof eps_RV as Re. assert (Pe : 0 < RV eps < 1) by (rewrite Re; lra).
  destruct (sub_fin (UV i) eps FL Fe) as [F1 E1].
  { apply (below_top _ 2 okbound_2). apply Rabs_le. lra. }
  destruct (add_fin (UV (i + 1)) eps FH Fe) as [F2 E2].
  { apply (below_top _ 2 okbound_2). apply Rabs_le. lra. }
  assert (L1 : RV (PrimFloat.sub (UV i) eps) <= RV u).
  { rewrite E1. rewrite <- (rnd_repr (RV u)) by apply repr_RV. apply rnd_le. exact Hlo. }
  assert (L2 : RV u <= RV (PrimFloat.add (UV (i + 1)) eps)).
  { rewrite E2. rewrite <- (rnd_repr (RV u)) at 1 by apply repr_RV. apply rnd_le. exact Hhi. }
  unfold Exp, r1_Interval_Expanded, r1_Interval_IsEmpty. cbn [r1_Interval_Lo r1_Interval_Hi].
  assert (E0 : PrimFloat.ltb (UV (i + 1)) (UV i) = false).
  { apply ltb_false_iff; auto using fin_nonnan. rewrite !rank_fin by assumption. exact LH. }
  rewrite E0. cbn [r1_Interval_Lo r1_Interval_Hi]. split.
  - apply ltb_false_iff; auto using fin_nonnan. rewrite !rank_fin by assumption. lra.
  - unfold r1_Interval_Contains. cbn [r1_Interval_Lo r1_Interval_Hi]. apply andb_true_iff.
    split; apply leb_true_iff; auto using fin_nonnan; rewrite !rank_fin by assumption; assumption.
Qed.
Local Open Scope Z_scope.

(** * The leaf premise is not always true of the code
    The documented "CellFromPoint(p).ContainsPoint(p) is always true" fails for the unit point
    wit1 (and wit2, which also fails at level 29): u lies 1.25 dblEpsilon below the lower u bound
    of its own leaf, ContainsPoint expands the bound by 1 dblEpsilon.  Finding
    Cell.ContainsPoint.leafMargin (status known; a 5*dblEpsilon margin was tried upstream of this
    file and withdrawn because RectBound/CapBound are not sized for it). *)
Definition wit1 : s2_Point :=
  mk_s2_Point (mk_r3_Vector (0x1.7eb16c58621d8p-3)%float (-0x1.c3f608ffa12fdp-1)%float (0x1.b975da6a83768p-2)%float).
Definition wit2 : s2_Point :=
  mk_s2_Point (mk_r3_Vector (0x1.dcfd5bce2da59p-4)%float (-0x1.d378ae57d57b2p-1)%float (0x1.904c1fabf622ep-2)%float).

Lemma leaf_contains_refuted :
  exists p, s2_CellID_IsValid (s2_cellIDFromPoint p) = true /\ s2_CellID_IsLeaf (s2_cellIDFromPoint p) = true /\
    s2_Cell_ContainsPoint (s2_CellFromCellID (s2_cellIDFromPoint p)) p = false.
Proof. exists wit1. vm_compute. auto. Qed.

Lemma leaf_contains_refuted_level29 :
  s2_Cell_ContainsPoint (s2_CellFromCellID (s2_CellID_Parent (s2_cellIDFromPoint wit2) 29)) wit2 = false /\
  s2_cellIDFromPoint wit1 = 9882600488333328173%Z.
Proof. vm_compute. auto. Qed.

(** the hypotheses of [id_range_contains] are satisfiable: a point, its leaf and the level-10 ancestor *)
Definition pt0 : s2_Point := mk_s2_Point (mk_r3_Vector (0x1.3333333333333p-1)%float (0x1.eb851eb851eb8p-2)%float (0x1.47ae147ae147bp-1)%float).
Example id_range_contains_nonvacuous :
  let l := s2_cellIDFromPoint pt0 in let c := s2_CellID_Parent l 10 in
  s2_CellID_IsValid c = true /\ s2_CellID_IsValid l = true /\ s2_CellID_IsLeaf l = true /\
  s2_CellID_Contains c l = true /\ s2_Cell_ContainsPoint (s2_CellFromCellID l) pt0 = true /\
  s2_Cell_ContainsPoint (s2_CellFromCellID c) pt0 = true.
Proof. vm_compute. repeat split. Qed.
