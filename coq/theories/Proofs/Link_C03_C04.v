(** Discharges the two interface laws that the C04 containment theorems require of
    EdgeOrVertexCrossing (eov_sym_cd_law, eov_degenerate_cd_law) from the C03 theorems about
    the edge crosser, so that C04's complement theorems rest directly on the laws of the
    orientation predicate (C02) instead of on unproved premises about the crosser. *)
From Coq Require Import ZArith Bool.
From Geo Require Import Model.Crosser Model.Contain Proofs.C03_Crosser Proofs.C03_Vertex Proofs.C04_Brute.

Section Link.
  Variable point : Type.
  Variable peq : point -> point -> bool.
  Variables sign triage : point -> point -> point -> Z.
  Variable tangent : point -> point -> point -> point -> bool.
  Variable refdir : point -> point.

  Hypothesis peq_refl : forall a, peq a a = true.
  Hypothesis peq_sym : forall a b, peq a b = peq b a.
  Hypothesis peq_trans : forall a b c, peq a b = true -> peq b c = true -> peq a c = true.
  Hypothesis sign_rotate : forall a b c, sign b c a = sign a b c.
  Hypothesis sign_swap : forall a b c, sign c b a = Z.opp (sign a b c).
  Hypothesis sign_zero_iff : forall a b c,
    sign a b c = 0%Z <-> peq a b = true \/ peq b c = true \/ peq c a = true.
  Hypothesis triage_sound : forall a b c, triage a b c <> 0%Z -> triage a b c = sign a b c.
  Hypothesis tangent_sound : forall a b c d, tangent a b c d = true ->
    shared point peq a b c d = false /\ four_agree point sign a b c d = false.

  (** the real crosser's EdgeOrVertexCrossing (stateless form; by C03's crosser_refines every
      chained/restarted use of an EdgeCrosser answers the same) *)
  Definition eov := edge_or_vertex_crossing point peq sign triage tangent refdir.

  Lemma eov_is_spec a b c d : eov a b c d = eov_spec point peq sign refdir a b c d.
  Proof.
    unfold eov. apply eov_stateless_eq; assumption.
  Qed.

  Lemma eov_sym_cd : eov_sym_cd_law point eov.
  Proof.
    intros a b c d. rewrite !eov_is_spec. unfold eov_spec.
    destruct (crossing_spec_sym point peq sign peq_sym sign_rotate sign_swap a b c d) as [_ [H _]].
    rewrite H.
    rewrite (vc_reverse_cd point peq sign refdir peq_sym peq_trans a b c d).
    reflexivity.
  Qed.

  Lemma eov_degenerate_cd : eov_degenerate_cd_law point eov.
  Proof.
    intros a b c. rewrite eov_is_spec. unfold eov_spec, crossing_spec.
    rewrite (vc_degenerate_cd point peq sign refdir peq_refl a b c).
    destruct (shared point peq a b c c); [reflexivity|].
    unfold degenerate. rewrite (peq_refl c), orb_true_r. reflexivity.
  Qed.

  (** C04's complement theorem for the real crossing predicate *)
  Theorem invert_complement_from_orientation_laws origin emptyPt fullPt zeroPt :
    forall (L : Contain.loop point) (p : point),
      Contain.brute_contains point eov origin zeroPt (Contain.invert point emptyPt fullPt L) p =
      negb (Contain.brute_contains point eov origin zeroPt L p).
  Proof.
    apply invert_complement; [exact eov_sym_cd | exact eov_degenerate_cd].
  Qed.
End Link.
