(** C18 — assembly: the closed loop-level theorems with the validity guard of the property
    (non-NaN, pairwise different vertices), and the magnitude sentences under the named
    hypothesis H_AREA (which includes the libm accuracy H_LIBM of tan/atan/atan2). *)
From Coq Require Import ZArith Reals List Bool Floats Lia Lra.
From Geo Require Import Base.GoPrim Base.F64 Gen.Area Model.LoopMeasures.
From Geo Require Import Proofs.C18_Cyclic Proofs.C18_Float Proofs.C18_Order Proofs.C18_Area.
Import ListNotations.

(** Vertex lists of valid loops: what Loop.Validate guarantees and the theorems use. *)
Definition valid_vertices (vs : list s2_Point) : Prop :=
  (3 <= length vs)%nat /\ (forall p, In p vs -> pt_nonnan p) /\
  (forall i j : nat, (i < j < length vs)%nat -> s2_Point_eqb (nth i vs zero_point) (nth j vs zero_point) = false).

Lemma valid_distinct vs : valid_vertices vs -> distinct_ordered vs.
Proof. intros (_ & Hn & Hd). apply valid_vertices_distinct_ordered; assumption. Qed.

Local Open Scope Z_scope.

Theorem canonical_first_vertex_rotate_valid : forall vs k, valid_vertices vs -> (k <= length vs)%nat ->
  let n := Z.of_nat (length vs) in
  fst (CanonicalFirstVertex (rot k vs)) mod n = (fst (CanonicalFirstVertex vs) - Z.of_nat k) mod n
  /\ snd (CanonicalFirstVertex (rot k vs)) = snd (CanonicalFirstVertex vs).
Proof. intros vs k Hv Hk. apply canonical_first_vertex_rotate; [apply Hv | exact Hk | apply valid_distinct; exact Hv]. Qed.

Theorem canonical_first_vertex_invert_valid : forall vs, valid_vertices vs ->
  let n := Z.of_nat (length vs) in
  fst (CanonicalFirstVertex (rev vs)) mod n = (n - 1 - fst (CanonicalFirstVertex vs)) mod n
  /\ snd (CanonicalFirstVertex (rev vs)) = - snd (CanonicalFirstVertex vs).
Proof. intros vs Hv. apply canonical_first_vertex_invert; [apply Hv | apply valid_distinct; exact Hv]. Qed.

(** TurningAngle is bit-identical for every rotation of the vertex order ... *)
Theorem turning_angle_rotate_valid : forall rs l k, valid_vertices (lp_vs l) -> (k <= length (lp_vs l))%nat ->
  TurningAngle rs (mk_loop (rot k (lp_vs l)) (lp_origin_inside l) (lp_depth l) (lp_lng_len l)) = TurningAngle rs l.
Proof. intros rs l k Hv Hk. apply turning_angle_rotate; [apply Hv | exact Hk | apply valid_distinct; exact Hv]. Qed.

(** ... and exactly negated by Invert — for valid loops and for the empty and full loops.
    No property of the orientation predicate [rs] is needed: the inverted loop evaluates the very
    same TurnAngle calls in the same order and only the final factor [float64(dir)] changes sign. *)
Theorem turning_angle_invert : forall rs l x,
  valid_vertices (lp_vs l) \/ length (lp_vs l) = 1%nat ->
  TurningAngle rs (Invert x l) = PrimFloat.opp (TurningAngle rs l).
Proof.
  intros rs l x [Hv | H1].
  - apply turning_angle_invert_gen; [apply Hv | apply valid_distinct; exact Hv | exact curvature_clamp_opp].
  - apply turning_angle_invert_special. exact H1.
Qed.

Example valid_vertices_ex : valid_vertices ex_vs.
Proof.
  split; [|split].
  - cbn. lia.
  - intros p [<- | [<- | [<- | []]]]; repeat split; reflexivity.
  - intros i j Hij. cbn [ex_vs length] in Hij.
    assert (i = 0 /\ j = 1 \/ i = 0 /\ j = 2 \/ i = 1 /\ j = 2)%nat as [[-> ->] | [[-> ->] | [-> ->]]] by lia;
    reflexivity.
Qed.

(** * Magnitudes under H_AREA *)
Local Open Scope R_scope.

(** Real-arithmetic core of the algorithm: a value [a] in [0,P4] that approximates the true
    area [A] modulo P4 (= 4*pi) within [err], corrected by a sign oracle [nz] that is right
    whenever the true area is at least [err] beyond the thresholds [E] (low) and [T] (high, the
    rounded 4*pi - maxError) used by the code, is within [err] of [A] itself — provided the real
    error stays below the ambiguity band of the code. *)
Lemma decide_accuracy (A a E T err P4 : R) (nz : bool) (r : R) :
  0 <= a <= P4 -> 0 <= A <= P4 -> 0 <= err < E -> T < P4 -> err < P4 - T ->
  ((- err <= a - A <= err) \/ (- err <= a - (A + P4) <= err) \/ (- err <= a - (A - P4) <= err)) ->
  (nz = true -> A <= T - err) -> (nz = false -> E + err <= A) ->
  ((a < E /\ nz = false /\ r = P4) \/ (T < a /\ nz = true /\ r = 0) \/
   (r = a /\ ~ (a < E /\ nz = false) /\ ~ (T < a /\ nz = true))) ->
  - err <= r - A <= err.
Proof.
  intros Ha HA He HT HeT Hmod Hn Hnn Hr.
  destruct nz.
  - specialize (Hn eq_refl). clear Hnn.
    destruct Hr as [(_ & F & _) | [(H1 & _ & ->) | (-> & _ & H2)]]; [discriminate | |].
    + destruct Hmod as [H | [H | H]]; lra.
    + assert (a <= T) by (destruct (Rle_dec a T); [assumption | exfalso; apply H2; split; [lra | reflexivity]]).
      destruct Hmod as [H' | [H' | H']]; lra.
  - specialize (Hnn eq_refl). clear Hn.
    destruct Hr as [(H1 & _ & ->) | [(_ & F & _) | (-> & H2 & _)]]; [| discriminate |].
    + destruct Hmod as [H | [H | H]]; lra.
    + assert (E <= a) by (destruct (Rle_dec E a); [assumption | exfalso; apply H2; split; [lra | reflexivity]]).
      destruct Hmod as [H' | [H' | H']]; lra.
Qed.

Lemma rank_zero : rank 0%float = 0.
Proof.
  unfold rank. change 0%float with PrimFloat.zero.
  rewrite Flocq.IEEE754.PrimFloat.zero_equiv, Flocq.IEEE754.PrimFloat.Prim2B_B2Prim. reflexivity.
Qed.

Section UnderH.
Variable rs : sign_fn.
(** the mathematical area of the region to the left of the loop, in units where the sphere
    has area [rank pi4]; [valid] = the loops the property quantifies over; [err] = the true
    error of the triangle-fan integral for that loop *)
Variable areaR : loop -> R.
Variable valid : loop -> Prop.
Variable err : loop -> R.

(** H_AREA: error models of PointArea/GirardArea/SignedArea summed over the triangle fan (this is
    where the accuracy of math.Tan/Atan/Atan2 — H_LIBM — enters), and of TurnAngle summed by
    TurningAngle:
    (1) the wrapped raw integral approximates the true area modulo 4*pi within [err l], and
        [err l] is below the ambiguity thresholds turningAngleMaxError / 4*pi - turningAngleMaxError
        used by the code;
    (2) the Gauss-Bonnet sign is right: IsNormalized answers correctly whenever the true area
        is not within [err l] of the threshold at the end it would be confused with. *)
Definition H_AREA : Prop := forall l, valid l ->
  let raw := surfaceIntegralFloat64 (SignedArea rs) l in
  let a := rank (area_clamped raw) in let E := rank (turningAngleMaxError l) in
  let T := rank (PrimFloat.sub pi4 (turningAngleMaxError l)) in let P4 := rank pi4 in
  is_empty_or_full l = false /\ nonnan raw /\ nonnan (turningAngleMaxError l) /\
  nonnan (PrimFloat.sub pi4 (turningAngleMaxError l)) /\
  0 <= areaR l <= P4 /\ 0 <= err l < E /\ T < P4 /\ err l < P4 - T /\
  ((- err l <= a - areaR l <= err l) \/ (- err l <= a - (areaR l + P4) <= err l) \/ (- err l <= a - (areaR l - P4) <= err l)) /\
  (IsNormalized rs l = true -> areaR l <= T - err l) /\
  (IsNormalized rs l = false -> E + err l <= areaR l).

Hypothesis H : H_AREA.

(** Loop.Area is within the error of the raw integral of the true area: the sign decision never
    turns a small error of the triangle sum into an error of 4*pi. *)
Theorem area_accuracy_under_H : forall l, valid l ->
  - err l <= rank (Area rs l) - areaR l <= err l.
Proof.
  intros l Hv. destruct (H l Hv) as (Hne & Nr & Ne & Ns & HA & He & HT & HeT & Hmod & Hn & Hnn). cbv zeta in *.
  pose proof (area_clamped_range _ Nr) as (Na & Ra). rewrite rank_zero in Ra.
  unfold Area, Area_branch. rewrite Hne. rewrite area_decide_unfold. cbv zeta.
  set (ac := area_clamped (surfaceIntegralFloat64 (SignedArea rs) l)) in *.
  apply (decide_accuracy (areaR l) (rank ac) (rank (turningAngleMaxError l))
           (rank (PrimFloat.sub pi4 (turningAngleMaxError l))) (err l) (rank pi4) (IsNormalized rs l)); try assumption.
  destruct (PrimFloat.ltb ac (turningAngleMaxError l)) eqn:A1;
  destruct (PrimFloat.ltb (PrimFloat.sub pi4 (turningAngleMaxError l)) ac) eqn:A2;
  destruct (IsNormalized rs l) eqn:Nz; cbn [andb negb fst]; float_cmp_to_R.
  - right; left. rewrite rank_zero. auto.
  - left. auto.
  - right; right. repeat split; auto; intros (? & ?); try discriminate; lra.
  - left. auto.
  - right; left. rewrite rank_zero. auto.
  - right; right. repeat split; auto; intros (? & ?); try discriminate; lra.
  - right; right. repeat split; auto; intros (? & ?); try discriminate; lra.
  - right; right. repeat split; auto; intros (? & ?); try discriminate; lra.
Qed.

(** ** The three magnitude sentences of the property *)
(** area of a loop and of its inverse sum to the area of the sphere *)
Theorem area_complement_under_H : forall l x, valid l -> valid (Invert x l) ->
  areaR (Invert x l) = rank pi4 - areaR l ->
  - (err l + err (Invert x l)) <= rank (Area rs l) + rank (Area rs (Invert x l)) - rank pi4 <= err l + err (Invert x l).
Proof.
  intros l x Hv Hv' HA. pose proof (area_accuracy_under_H l Hv). pose proof (area_accuracy_under_H _ Hv'). lra.
Qed.

(** area is independent of the starting vertex *)
Theorem area_rotate_under_H : forall l l', valid l -> valid l' -> areaR l' = areaR l ->
  - (err l + err l') <= rank (Area rs l') - rank (Area rs l) <= err l + err l'.
Proof.
  intros l l' Hv Hv' HA. pose proof (area_accuracy_under_H l Hv). pose proof (area_accuracy_under_H _ Hv'). lra.
Qed.

(** area equals the sum of the areas of any triangulation: [tri] are triangles whose true areas
    add up to the true area of the loop and whose computed PointArea values are each within
    [terr] of the true triangle area *)
Theorem area_triangulation_under_H : forall l (tri : list (s2_Point * s2_Point * s2_Point)) (triR : s2_Point * s2_Point * s2_Point -> R) (terr : R),
  valid l ->
  fold_right (fun t acc => triR t + acc) 0 tri = areaR l ->
  (forall t, In t tri -> let '(a, b, c) := t in - terr <= rank (PointArea a b c) - triR t <= terr) ->
  - (err l + terr * INR (length tri)) <=
    rank (Area rs l) - fold_right (fun t acc => (let '(a, b, c) := t in rank (PointArea a b c)) + acc) 0 tri
  <= err l + terr * INR (length tri).
Proof.
  intros l tri triR terr Hv Hsum Htri. pose proof (area_accuracy_under_H l Hv) as HA. rewrite <- Hsum in HA.
  assert (S : - (terr * INR (length tri)) <=
              fold_right (fun t acc => (let '(a, b, c) := t in rank (PointArea a b c)) + acc) 0 tri
              - fold_right (fun t acc => triR t + acc) 0 tri <= terr * INR (length tri)).
  { clear HA Hsum. induction tri as [|t tri IH].
    - simpl. lra.
    - cbn [fold_right length]. rewrite S_INR.
      pose proof (Htri t (or_introl eq_refl)) as Ht. destruct t as [[a b] c].
      assert (IH' := IH (fun t' Hin => Htri t' (or_intror Hin))). lra. }
  lra.
Qed.
End UnderH.

(** H_AREA is satisfiable (non-vacuously): the octant triangle with its computed area taken as the true one *)
Definition ex_loop : loop := mk_loop ex_vs false 0 1%float.
Definition ex_rs : sign_fn := fun _ _ _ => 1%Z.
Example H_AREA_ex :
  let ac := area_clamped (surfaceIntegralFloat64 (SignedArea ex_rs) ex_loop) in
  H_AREA ex_rs (fun _ => rank ac) (fun l => l = ex_loop) (fun _ => 0) /\ (fun l => l = ex_loop) ex_loop.
Proof.
  cbv zeta. split; [|reflexivity]. intros l ->. cbv zeta.
  set (raw := surfaceIntegralFloat64 (SignedArea ex_rs) ex_loop).
  assert (Nr : nonnan raw) by (vm_compute; reflexivity).
  assert (NE : nonnan (turningAngleMaxError ex_loop)) by (vm_compute; reflexivity).
  assert (NT : nonnan (PrimFloat.sub pi4 (turningAngleMaxError ex_loop))) by (vm_compute; reflexivity).
  pose proof (area_clamped_range raw Nr) as (Na & Ra). rewrite rank_zero in Ra.
  assert (E0 : rank 0%float < rank (turningAngleMaxError ex_loop)).
  { apply (proj1 (ltb_true_iff _ _ nn0 NE)). vm_compute. reflexivity. }
  rewrite rank_zero in E0.
  assert (TP : rank (PrimFloat.sub pi4 (turningAngleMaxError ex_loop)) < rank pi4).
  { apply (proj1 (ltb_true_iff _ _ NT nnpi4)). vm_compute. reflexivity. }
  assert (AT : rank (area_clamped raw) <= rank (PrimFloat.sub pi4 (turningAngleMaxError ex_loop))).
  { apply (proj1 (leb_true_iff _ _ Na NT)). vm_compute. reflexivity. }
  assert (IN : IsNormalized ex_rs ex_loop = true) by (vm_compute; reflexivity).
  split; [vm_compute; reflexivity|]. split; [exact Nr|]. split; [exact NE|]. split; [exact NT|].
  split; [lra|]. split; [lra|]. split; [lra|]. split; [lra|]. split; [left; lra|].
  split; [intros _; lra | rewrite IN; discriminate].
Qed.
