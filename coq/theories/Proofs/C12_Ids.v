(** C12: the translated integer functions of cellid.go on structured ids.
    A valid id of level 30 - e is  sid K e = (2K+1) * 4^e  with 0 <= K < 6 * 4^(30-e)
    (K = face * 4^level + position-at-level).  Closed forms of lsb, Level, IsLeaf,
    ChildBegin, Next, Children, RangeMin/RangeMax, and IsValid -> structured. *)
From Coq Require Import ZArith List Bool Lia Floats.
From Geo Require Import Base.GoPrim Gen.CellGeom Proofs.C12_Hilbert.
Import ListNotations.
Local Open Scope Z_scope.

Definition sid (K : Z) (e : nat) : Z := (2 * K + 1) * 4 ^ Z.of_nat e.
Definition sid_ok (K : Z) (e : nat) : Prop :=
  (e <= 30)%nat /\ 0 <= K < 6 * 4 ^ Z.of_nat (30 - e).

(** ** wraps *)
Lemma wrap_u64_small x : 0 <= x < 2 ^ 64 -> wrap_u64 x = x.
Proof. intros H. unfold wrap_u64, wrap_u. apply Z.mod_small. exact H. Qed.

Lemma wrap_u32_small x : 0 <= x < 2 ^ 32 -> wrap_u32 x = x.
Proof. intros H. unfold wrap_u32, wrap_u. apply Z.mod_small. exact H. Qed.

Lemma wrap_u64_idem x : wrap_u64 (wrap_u64 x) = wrap_u64 x.
Proof. unfold wrap_u64, wrap_u. apply Z.mod_mod. lia. Qed.
Lemma wrap_u64_add_l a b : wrap_u64 (wrap_u64 a + b) = wrap_u64 (a + b).
Proof. unfold wrap_u64, wrap_u. apply Z.add_mod_idemp_l. lia. Qed.
Lemma wrap_u64_add_r a b : wrap_u64 (a + wrap_u64 b) = wrap_u64 (a + b).
Proof. unfold wrap_u64, wrap_u. apply Z.add_mod_idemp_r. lia. Qed.
Lemma wrap_u64_sub_l a b : wrap_u64 (wrap_u64 a - b) = wrap_u64 (a - b).
Proof. unfold wrap_u64, wrap_u. apply Zminus_mod_idemp_l. Qed.
Lemma wrap_u64_sub_r a b : wrap_u64 (a - wrap_u64 b) = wrap_u64 (a - b).
Proof. unfold wrap_u64, wrap_u. apply Zminus_mod_idemp_r. Qed.
#[global] Hint Rewrite wrap_u64_idem wrap_u64_add_l wrap_u64_add_r wrap_u64_sub_l wrap_u64_sub_r : wrapdb.

Lemma wrap_i_small bits x : 0 < bits -> - 2 ^ (bits - 1) <= x < 2 ^ (bits - 1) -> wrap_i bits x = x.
Proof.
  intros Hb H. unfold wrap_i.
  assert (E : 2 ^ bits = 2 * 2 ^ (bits - 1)).
  { replace bits with (Z.succ (bits - 1)) at 1 by lia. apply Z.pow_succ_r. lia. }
  rewrite E. set (h := 2 ^ (bits - 1)) in *. assert (0 < h) by (apply Z.pow_pos_nonneg; lia).
  cbv zeta.
  destruct (Z_lt_le_dec x 0) as [N|P].
  - assert (Em : x mod (2 * h) = x + 2 * h).
    { symmetry. apply Z.mod_unique with (-1); lia. }
    rewrite Em. destruct (Z.ltb_spec (x + 2 * h) h); lia.
  - rewrite Z.mod_small by lia. destruct (Z.ltb_spec x h); lia.
Qed.

Lemma wrap_i64_small x : - 2 ^ 63 <= x < 2 ^ 63 -> wrap_i64 x = x.
Proof. intros H. apply wrap_i_small; [lia | exact H]. Qed.
Lemma wrap_i8_small x : - 128 <= x < 128 -> wrap_i8 x = x.
Proof. intros H. apply wrap_i_small; [lia | exact H]. Qed.

(** ** powers *)
Lemma pow4_pos (e : nat) : 0 < 4 ^ Z.of_nat e.
Proof. apply Z.pow_pos_nonneg; lia. Qed.

Lemma pow4_split (e : nat) : (e <= 30)%nat -> 4 ^ Z.of_nat e * 4 ^ Z.of_nat (30 - e) = 2 ^ 60.
Proof.
  intros H. rewrite <- Z.pow_add_r by lia. replace (Z.of_nat e + Z.of_nat (30 - e)) with 30 by lia.
  reflexivity.
Qed.

Lemma pow4_S (e : nat) : 4 ^ Z.of_nat (S e) = 4 * 4 ^ Z.of_nat e.
Proof. rewrite Nat2Z.inj_succ, Z.pow_succ_r by lia. reflexivity. Qed.

Lemma sid_range K e : sid_ok K e -> 0 < sid K e < 2 ^ 64.
Proof.
  intros [He HK]. unfold sid. pose proof (pow4_split e He) as E.
  pose proof (pow4_pos e) as P. pose proof (pow4_pos (30 - e)) as Q.
  set (p := 4 ^ Z.of_nat e) in *. set (q := 4 ^ Z.of_nat (30 - e)) in *.
  change (2 ^ 64) with (16 * 2 ^ 60). change (2 ^ 60) with 1152921504606846976 in *. nia.
Qed.

Lemma sid_range' K e : sid_ok K e -> 0 < sid K e <= 12 * 2 ^ 60 - 4 ^ Z.of_nat e.
Proof.
  intros [He HK]. unfold sid. pose proof (pow4_split e He) as E.
  pose proof (pow4_pos e) as P. pose proof (pow4_pos (30 - e)) as Q.
  set (p := 4 ^ Z.of_nat e) in *. set (q := 4 ^ Z.of_nat (30 - e)) in *.
  change (2 ^ 60) with 1152921504606846976 in *. nia.
Qed.

Lemma sid_ok_child K e p : sid_ok K (S e) -> 0 <= p < 4 -> sid_ok (4 * K + p) e.
Proof.
  intros [He HK] Hp. split; [lia|].
  replace (30 - e)%nat with (S (30 - S e)) by lia. rewrite pow4_S. lia.
Qed.

(** ** lsb *)
Lemma land_wrap_opp x : 0 < x < 2 ^ 64 -> Z.land x (wrap_u64 (Z.opp x)) = Z.land x (- x).
Proof.
  intros H. unfold wrap_u64, wrap_u. rewrite <- Z.land_ones by lia.
  rewrite (Z.land_comm (- x)), Z.land_assoc.
  rewrite (Z.land_ones x) by lia. rewrite Z.mod_small by lia. reflexivity.
Qed.

Lemma lsb_spec K e : sid_ok K e -> s2_CellID_lsb (sid K e) = 4 ^ Z.of_nat e.
Proof.
  intros H. pose proof (sid_range K e H) as R. unfold s2_CellID_lsb.
  rewrite !(wrap_u64_small (sid K e)) by lia. rewrite land_wrap_opp by lia. apply lsb_struct.
Qed.

Lemma pow4_lt_64 (e : nat) : (e <= 30)%nat -> 0 < 4 ^ Z.of_nat e <= 2 ^ 60.
Proof.
  intros H. split; [apply pow4_pos|]. rewrite <- (pow4_split e H).
  pose proof (pow4_pos (30 - e)). pose proof (pow4_pos e). nia.
Qed.

(** ** Level / IsLeaf *)
Lemma level_table (e : nat) : (e <= 30)%nat ->
  wrap_i64 (30 - go_shr (wrap_i64 (nthZ s2_deBruijn64Lookup
     (go_shr (wrap_u64 (4 ^ Z.of_nat e * 285870213051353865)) 58) 0)) 1) = 30 - Z.of_nat e.
Proof. intros H. do 31 (destruct e as [|e]; [vm_compute; reflexivity|]). lia. Qed.

Lemma level_spec K e : sid_ok K e -> s2_CellID_Level (sid K e) = 30 - Z.of_nat e.
Proof.
  intros H. pose proof (sid_range K e H) as R. destruct H as [He HK].
  unfold s2_CellID_Level, s2_findLSBSetNonZero64.
  rewrite !(wrap_u64_small (sid K e)) by lia. rewrite land_wrap_opp by lia. unfold sid. rewrite lsb_struct.
  apply level_table. exact He.
Qed.

Lemma isleaf_spec K e : sid_ok K e -> s2_CellID_IsLeaf (sid K e) = Nat.eqb e 0.
Proof.
  intros H. pose proof (sid_range K e H) as R. unfold s2_CellID_IsLeaf.
  rewrite wrap_u64_small by lia. change 1 with (Z.ones 1). rewrite Z.land_ones by lia.
  change (2 ^ 1) with 2. unfold sid. destruct e as [|e].
  - change (4 ^ Z.of_nat 0) with 1. rewrite Z.mul_1_r.
    rewrite Z.add_comm, Z.mul_comm, Z.mod_add by lia. reflexivity.
  - rewrite pow4_S. replace ((2 * K + 1) * (4 * 4 ^ Z.of_nat e)) with (((2 * K + 1) * 2 * 4 ^ Z.of_nat e) * 2) by ring.
    rewrite Z.mod_mul by lia. reflexivity.
Qed.

(** ** children ids *)
Lemma sid_child K e p : sid (4 * K + p) e = sid K (S e) - 4 ^ Z.of_nat (S e) + 4 ^ Z.of_nat e + p * (2 * 4 ^ Z.of_nat e).
Proof. unfold sid. rewrite pow4_S. ring. Qed.

Lemma shr_pow4 (e : nat) k : (k <= 2 * e)%nat -> go_shr (4 ^ Z.of_nat e) (Z.of_nat k) = 2 ^ (Z.of_nat (2 * e) - Z.of_nat k).
Proof.
  intros H. unfold go_shr. destruct (Z.ltb_spec (Z.of_nat k) 0); [lia|].
  rewrite pow4_pow2, Z.shiftr_div_pow2 by lia.
  rewrite <- Z.pow_sub_r by lia. reflexivity.
Qed.

Lemma shr2_pow4S (e : nat) : go_shr (4 ^ Z.of_nat (S e)) 2 = 4 ^ Z.of_nat e.
Proof.
  change 2 with (Z.of_nat 2). rewrite shr_pow4 by lia.
  replace (Z.of_nat (2 * S e) - Z.of_nat 2) with (Z.of_nat (2 * e)) by lia. symmetry. apply pow4_pow2.
Qed.
Lemma shr1_pow4S (e : nat) : go_shr (4 ^ Z.of_nat (S e)) 1 = 2 * 4 ^ Z.of_nat e.
Proof.
  change 1 with (Z.of_nat 1). rewrite shr_pow4 by lia.
  replace (Z.of_nat (2 * S e) - Z.of_nat 1) with (Z.succ (Z.of_nat (2 * e))) by lia.
  rewrite Z.pow_succ_r by lia. rewrite <- pow4_pow2. reflexivity.
Qed.

Lemma childbegin_spec K e : sid_ok K (S e) -> s2_CellID_ChildBegin (sid K (S e)) = sid (4 * K) e.
Proof.
  intros H. pose proof (sid_range' K (S e) H) as R.
  assert (P0 : 0 <= 0 < 4) by lia.
  pose proof (sid_range (4 * K + 0) e (sid_ok_child K e 0 H P0)) as R3. rewrite Z.add_0_r in R3.
  unfold s2_CellID_ChildBegin. rewrite lsb_spec by assumption. rewrite shr2_pow4S.
  autorewrite with wrapdb.
  replace (sid K (S e) - 4 ^ Z.of_nat (S e) + 4 ^ Z.of_nat e) with (sid (4 * K) e)
    by (unfold sid; rewrite pow4_S; ring).
  apply wrap_u64_small. lia.
Qed.

Lemma next_spec K e : sid_ok K e -> s2_CellID_Next (sid K e) = sid (K + 1) e.
Proof.
  intros H. pose proof (sid_range' K e H) as R. destruct H as [He HK]. pose proof (pow4_lt_64 e He) as P.
  unfold s2_CellID_Next. rewrite lsb_spec by (split; assumption).
  unfold go_shl. destruct (Z.ltb_spec 1 0); [lia|]. rewrite Z.shiftl_mul_pow2 by lia. change (2 ^ 1) with 2.
  autorewrite with wrapdb.
  replace (sid K e + 4 ^ Z.of_nat e * 2) with (sid (K + 1) e) by (unfold sid; ring).
  apply wrap_u64_small. unfold sid in *. change (2 ^ 64) with (16 * 2 ^ 60). lia.
Qed.

Lemma children_ids_unfold ci :
  s2_CellID_Children ci =
  (let lsb := wrap_u64 (s2_CellID_lsb ci) in
   let c0 := wrap_u64 (Z.add (wrap_u64 (Z.sub ci lsb)) (go_shr lsb 2)) in
   let h := go_shr lsb 1 in
   let c1 := wrap_u64 (Z.add c0 h) in
   let c2 := wrap_u64 (Z.add c1 h) in
   let c3 := wrap_u64 (Z.add c2 h) in
   [c0; c1; c2; c3]).
Proof. reflexivity. Qed.

Lemma children_ids_spec K e : sid_ok K (S e) ->
  s2_CellID_Children (sid K (S e)) = [sid (4 * K) e; sid (4 * K + 1) e; sid (4 * K + 2) e; sid (4 * K + 3) e].
Proof.
  intros H.
  assert (P0 : 0 <= 0 < 4) by lia. assert (P1 : 0 <= 1 < 4) by lia.
  assert (P2 : 0 <= 2 < 4) by lia. assert (P3 : 0 <= 3 < 4) by lia.
  pose proof (sid_range (4 * K + 0) e (sid_ok_child K e 0 H P0)) as R0.
  pose proof (sid_range (4 * K + 1) e (sid_ok_child K e 1 H P1)) as R1.
  pose proof (sid_range (4 * K + 2) e (sid_ok_child K e 2 H P2)) as R2.
  pose proof (sid_range (4 * K + 3) e (sid_ok_child K e 3 H P3)) as R3.
  assert (He : (S e <= 30)%nat) by apply H.
  pose proof (pow4_lt_64 (S e) He) as P.
  rewrite children_ids_unfold. cbv zeta. rewrite lsb_spec by assumption.
  rewrite (wrap_u64_small (4 ^ Z.of_nat (S e))) by lia.
  rewrite shr2_pow4S, shr1_pow4S.
  autorewrite with wrapdb.
  replace (sid K (S e) - 4 ^ Z.of_nat (S e) + 4 ^ Z.of_nat e) with (sid (4 * K + 0) e)
    by (unfold sid; rewrite pow4_S; ring).
  rewrite (wrap_u64_small (sid (4 * K + 0) e)) by lia.
  replace (sid (4 * K + 0) e + 2 * 4 ^ Z.of_nat e) with (sid (4 * K + 1) e) by (unfold sid; ring).
  rewrite (wrap_u64_small (sid (4 * K + 1) e)) by lia.
  replace (sid (4 * K + 1) e + 2 * 4 ^ Z.of_nat e) with (sid (4 * K + 2) e) by (unfold sid; ring).
  rewrite (wrap_u64_small (sid (4 * K + 2) e)) by lia.
  replace (sid (4 * K + 2) e + 2 * 4 ^ Z.of_nat e) with (sid (4 * K + 3) e) by (unfold sid; ring).
  rewrite (wrap_u64_small (sid (4 * K + 3) e)) by lia.
  rewrite Z.add_0_r. reflexivity.
Qed.
