(** C03 / H-TANGENT, geometric core (exact, closed).
    If some linear functional T separates {c, d} (strictly positive) from {a, b} (non-positive),
    and a, b are not antiparallel (some w is positive on both), then no vertex is shared and the
    four orientations ACB, CBD, BDA, DAC of the REAL predicate RobustSign — symbolic perturbation
    included — do not agree: [separation_no_crossing].
    Proof: by C02's [sos_consistent] the four signs are the signs of determinants of perturbed real
    vectors; four equal non-zero signs give  alpha C + beta D = gamma A + delta B  with all
    coefficients of one sign (Cramer); applying T and w to it contradicts the separation once the
    perturbation is small. *)
From Coq Require Import ZArith Reals Floats Lra Lia Bool List Psatz.
From Flocq Require Import Core.Raux.
From Geo Require Import Base.GoPrim Base.F64 Base.Exact Gen.R3 Gen.S2Pred Model.Pred Model.Crosser
  Proofs.C02_Exact Proofs.C02_Float Proofs.C02_SoS Proofs.C02_SoSGlobal Proofs.C02_Robust.
Import ListNotations.
Local Open Scope R_scope.

(** * The real-number contradiction *)
Lemma no_positive_combo al be ga de CT DT AT BT Cw Dw Aw Bw m om ke W :
  0 < al -> 0 < be -> 0 < ga -> 0 < de ->
  al * CT + be * DT = ga * AT + de * BT ->
  al * Cw + be * Dw = ga * Aw + de * Bw ->
  0 < m -> 0 < om -> 0 <= ke -> 0 <= W ->
  m / 2 <= CT -> m / 2 <= DT -> AT <= ke -> BT <= ke ->
  om / 2 <= Aw -> om / 2 <= Bw -> Cw <= W -> Dw <= W ->
  ke * W <= m * om / 8 -> False.
Proof.
  intros A0 B0 G0 D0 E1 E2 M0 O0 K0 W0 HC HD HA HB HAw HBw HCw HDw HK.
  set (S1 := al + be). set (S2 := ga + de).
  assert (S1p : 0 < S1) by (unfold S1; lra). assert (S2p : 0 < S2) by (unfold S2; lra).
  assert (L1 : S1 * (m / 2) <= S2 * ke).
  { assert (al * (m / 2) <= al * CT) by (apply Rmult_le_compat_l; lra).
    assert (be * (m / 2) <= be * DT) by (apply Rmult_le_compat_l; lra).
    assert (ga * AT <= ga * ke) by (apply Rmult_le_compat_l; lra).
    assert (de * BT <= de * ke) by (apply Rmult_le_compat_l; lra).
    unfold S1, S2. lra. }
  assert (L2 : S2 * (om / 2) <= S1 * W).
  { assert (ga * (om / 2) <= ga * Aw) by (apply Rmult_le_compat_l; lra).
    assert (de * (om / 2) <= de * Bw) by (apply Rmult_le_compat_l; lra).
    assert (al * Cw <= al * W) by (apply Rmult_le_compat_l; lra).
    assert (be * Dw <= be * W) by (apply Rmult_le_compat_l; lra).
    unfold S1, S2. lra. }
  assert (L3 : S1 * (m / 2) * (om / 2) <= S2 * ke * (om / 2)) by (apply Rmult_le_compat_r; lra).
  assert (L4 : ke * (S2 * (om / 2)) <= ke * (S1 * W)) by (apply Rmult_le_compat_l; lra).
  assert (L5 : S1 * (m * om / 4) <= S1 * (ke * W)).
  { replace (S1 * (m * om / 4)) with (S1 * (m / 2) * (om / 2)) by field.
    replace (S1 * (ke * W)) with (ke * (S1 * W)) by ring.
    replace (S2 * ke * (om / 2)) with (ke * (S2 * (om / 2))) in L3 by ring. lra. }
  apply Rmult_le_reg_l in L5; [|exact S1p].
  assert (0 < m * om) by (apply Rmult_lt_0_compat; assumption). lra.
Qed.

(** * Sorting a few points lexicographically (to apply [sos_consistent]) *)
Fixpoint pins (p : s2_Point) (l : list s2_Point) : list s2_Point :=
  match l with
  | [] => [p]
  | q :: t => if cmp_gt p q then q :: pins p t else p :: q :: t
  end.
Fixpoint ssorted (l : list s2_Point) : Prop :=
  match l with
  | [] => True
  | q :: t => (forall r, In r t -> cmp_gt r q = true) /\ ssorted t
  end.

Lemma pins_In p l r : In r (pins p l) <-> r = p \/ In r l.
Proof.
  induction l as [|q t IH]; simpl.
  - intuition.
  - destruct (cmp_gt p q); simpl; rewrite ?IH; intuition.
Qed.

Lemma pins_sorted p l : finite p -> (forall q, In q l -> finite q /\ ~ peq p q) -> ssorted l ->
  ssorted (pins p l).
Proof.
  intros Fp. induction l as [|q t IH]; simpl; intros Hl Hs.
  - split; [intros r []|exact I].
  - destruct Hs as [Hq Ht]. destruct (Hl q (or_introl eq_refl)) as [Fq Nq].
    destruct (cmp_gt p q) eqn:E.
    + simpl. split.
      * intros r Hr. apply pins_In in Hr. destruct Hr as [->|Hr]; [exact E|now apply Hq].
      * apply IH; [|exact Ht]. intros r Hr. apply Hl. now right.
    + simpl. assert (Eq : cmp_gt q p = true) by (rewrite (cmp_gt_flip p q Fp Fq Nq), E; reflexivity).
      split; [|split; assumption].
      intros r [->|Hr]; [exact Eq|].
      destruct (Hl r (or_intror Hr)) as [Fr _].
      apply (cmp_gt_trans r q p Fr Fq Fp); [now apply Hq|exact Eq].
Qed.

Lemma ssorted_index l : ssorted l -> forall i j, (i < j)%nat -> (j < length l)%nat ->
  cmp_gt (nth j l dummy_pt) (nth i l dummy_pt) = true.
Proof.
  induction l as [|q t IH]; simpl; intros Hs i j Hij Hj; [lia|].
  destruct Hs as [Hq Ht]. destruct j as [|j]; [lia|]. destruct i as [|i].
  - apply Hq. apply nth_In. lia.
  - apply IH; [exact Ht|lia|lia].
Qed.

(** * Perturbations are small *)
Lemma pow_le_self e n : 0 <= e <= 1 -> (1 <= n)%nat -> 0 <= e ^ n <= e.
Proof.
  intros He Hn. destruct n as [|n]; [lia|]. simpl. pose proof (pow_le_1 e n He) as [P0 P1].
  split; [apply Rmult_le_pos; lra|]. apply Rle_trans with (e * 1); [apply Rmult_le_compat_l; lra|lra].
Qed.
Lemma pow8_ge1 k : (1 <= 8 ^ k)%nat.
Proof. pose proof (Nat.pow_nonzero 8 k). lia. Qed.
Lemma dXYZ_small k e : 0 < e < 1 ->
  0 <= dX k e <= e /\ 0 <= dY k e <= e /\ 0 <= dZ k e <= e.
Proof.
  intros He. pose proof (pow8_ge1 k). unfold dX, dY, dZ.
  repeat split; apply pow_le_self; try lra; lia.
Qed.

Definition dotv (p : s2_Point) (t1 t2 t3 : R) : R := PX p * t1 + PY p * t2 + PZ p * t3.
Definition abs1 (t1 t2 t3 : R) : R := Rabs t1 + Rabs t2 + Rabs t3.

Lemma pert_dot p k e t1 t2 t3 : 0 < e < 1 ->
  Rabs ((PX p + dX k e) * t1 + (PY p + dY k e) * t2 + (PZ p + dZ k e) * t3 - dotv p t1 t2 t3)
  <= e * abs1 t1 t2 t3.
Proof.
  intros He. destruct (dXYZ_small k e He) as ((X0 & X1) & (Y0 & Y1) & (Z0 & Z1)).
  unfold dotv, abs1.
  replace ((PX p + dX k e) * t1 + (PY p + dY k e) * t2 + (PZ p + dZ k e) * t3 - (PX p * t1 + PY p * t2 + PZ p * t3))
    with (dX k e * t1 + dY k e * t2 + dZ k e * t3) by ring.
  eapply Rle_trans; [apply Rabs_triang|]. eapply Rle_trans; [apply Rplus_le_compat_r, Rabs_triang|].
  rewrite !Rabs_mult, (Rabs_pos_eq (dX k e)), (Rabs_pos_eq (dY k e)), (Rabs_pos_eq (dZ k e)) by assumption.
  pose proof (Rabs_pos t1). pose proof (Rabs_pos t2). pose proof (Rabs_pos t3).
  assert (dX k e * Rabs t1 <= e * Rabs t1) by (apply Rmult_le_compat_r; lra).
  assert (dY k e * Rabs t2 <= e * Rabs t2) by (apply Rmult_le_compat_r; lra).
  assert (dZ k e * Rabs t3 <= e * Rabs t3) by (apply Rmult_le_compat_r; lra).
  lra.
Qed.

(** * Four points of a sorted set *)
Section Perturbed.
  Variable pts : list s2_Point.
  Hypothesis Fin : forall i, (i < plen pts)%nat -> finite (prow pts i).
  Hypothesis Sorted : forall i j, (i < j)%nat -> (j < plen pts)%nat -> cmp_gt (prow pts j) (prow pts i) = true.
  Variables ia ib ic id : nat.
  Hypothesis La : (ia < plen pts)%nat.
  Hypothesis Lb : (ib < plen pts)%nat.
  Hypothesis Lc : (ic < plen pts)%nat.
  Hypothesis Ld : (id < plen pts)%nat.
  Hypothesis Dab : ia <> ib.  Hypothesis Dac : ia <> ic.  Hypothesis Dad : ia <> id.
  Hypothesis Dbc : ib <> ic.  Hypothesis Dbd : ib <> id.  Hypothesis Dcd : ic <> id.
  Variables t1 t2 t3 w1 w2 w3 : R.
  Hypothesis TA : dotv (prow pts ia) t1 t2 t3 <= 0.
  Hypothesis TB : dotv (prow pts ib) t1 t2 t3 <= 0.
  Hypothesis TC : 0 < dotv (prow pts ic) t1 t2 t3.
  Hypothesis TD : 0 < dotv (prow pts id) t1 t2 t3.
  Hypothesis WA : 0 < dotv (prow pts ia) w1 w2 w3.
  Hypothesis WB : 0 < dotv (prow pts ib) w1 w2 w3.

  Let X (p q r : nat) : Z := exact_sign (prow pts p) (prow pts q) (prow pts r).

  Theorem separated_not_four_agree :
    ~ (X ia ic ib = X ic ib id /\ X ia ic ib = X ib id ia /\ X ia ic ib = X id ia ic /\ X ia ic ib <> 0%Z).
  Proof.
    intros (E2 & E3 & E4 & NZ).
    set (cT := dotv (prow pts ic) t1 t2 t3) in *. set (dT := dotv (prow pts id) t1 t2 t3) in *.
    set (aw := dotv (prow pts ia) w1 w2 w3) in *. set (bw := dotv (prow pts ib) w1 w2 w3) in *.
    set (m := Rmin cT dT). set (om := Rmin aw bw).
    assert (m0 : 0 < m) by (unfold m; apply Rmin_pos; assumption).
    assert (om0 : 0 < om) by (unfold om; apply Rmin_pos; assumption).
    set (ka := abs1 t1 t2 t3). set (kw := abs1 w1 w2 w3).
    assert (ka0 : 0 <= ka) by (unfold ka, abs1; pose proof (Rabs_pos t1); pose proof (Rabs_pos t2); pose proof (Rabs_pos t3); lra).
    assert (kw0 : 0 <= kw) by (unfold kw, abs1; pose proof (Rabs_pos w1); pose proof (Rabs_pos w2); pose proof (Rabs_pos w3); lra).
    set (W := Rabs (dotv (prow pts ic) w1 w2 w3) + Rabs (dotv (prow pts id) w1 w2 w3) + kw).
    assert (W0 : 0 <= W).
    { unfold W. pose proof (Rabs_pos (dotv (prow pts ic) w1 w2 w3)). pose proof (Rabs_pos (dotv (prow pts id) w1 w2 w3)). lra. }
    (* how small eps has to be *)
    set (e1 := m / (2 * ka + 1)). set (e2 := om / (2 * kw + 1)). set (e3 := m * om / (8 * (ka * W + 1))).
    assert (e1p : 0 < e1) by (unfold e1; apply Rdiv_lt_0_compat; lra).
    assert (e2p : 0 < e2) by (unfold e2; apply Rdiv_lt_0_compat; lra).
    assert (kW0 : 0 <= ka * W) by (apply Rmult_le_pos; assumption).
    assert (e3p : 0 < e3).
    { unfold e3. apply Rdiv_lt_0_compat; [apply Rmult_lt_0_compat; assumption|lra]. }
    set (es := Rmin (/ 2) (Rmin e1 (Rmin e2 e3))).
    assert (esp : 0 < es) by (unfold es; repeat apply Rmin_pos; lra).
    assert (Ev : eventually (fun e => e < es)).
    { exists es. split; [exact esp|]. intros e He. lra. }
    destruct (eventually_and _ _ (sos_consistent pts Fin Sorted) Ev) as (e0 & e0p & He0).
    assert (Hh : 0 < e0 / 2 < e0) by lra. destruct (He0 (e0 / 2) Hh) as [HS Hes]. clear He0.
    set (e := e0 / 2) in *. assert (ep : 0 < e) by (unfold e; lra).
    assert (Le1 : e < / 2 /\ e < e1 /\ e < e2 /\ e < e3).
    { unfold es in Hes. pose proof (Rmin_l (/ 2) (Rmin e1 (Rmin e2 e3))). pose proof (Rmin_r (/ 2) (Rmin e1 (Rmin e2 e3))).
      pose proof (Rmin_l e1 (Rmin e2 e3)). pose proof (Rmin_r e1 (Rmin e2 e3)).
      pose proof (Rmin_l e2 e3). pose proof (Rmin_r e2 e3). lra. }
    destruct Le1 as (Lh & L1 & L2 & L3). assert (e01 : 0 < e < 1) by lra.
    (* the four signs are determinant signs of the perturbed vectors *)
    destruct (HS ia ic ib La Lc Lb Dac (not_eq_sym Dbc) Dab) as [S1 N1].
    destruct (HS ic ib id Lc Lb Ld (not_eq_sym Dbc) Dbd Dcd) as [S2 N2].
    destruct (HS ib id ia Lb Ld La Dbd (not_eq_sym Dad) (not_eq_sym Dab)) as [S3 N3].
    destruct (HS id ia ic Ld La Lc (not_eq_sym Dad) Dac (not_eq_sym Dcd)) as [S4 N4].
    unfold X in *. rewrite S1 in *. rewrite S2 in E2. rewrite S3 in E3. rewrite S4 in E4.
    (* perturbed coordinates *)
    unfold gdet in *.
    set (A1 := PX (prow pts ia) + dX ia e) in *. set (A2 := PY (prow pts ia) + dY ia e) in *. set (A3 := PZ (prow pts ia) + dZ ia e) in *.
    set (B1 := PX (prow pts ib) + dX ib e) in *. set (B2 := PY (prow pts ib) + dY ib e) in *. set (B3 := PZ (prow pts ib) + dZ ib e) in *.
    set (C1 := PX (prow pts ic) + dX ic e) in *. set (C2 := PY (prow pts ic) + dY ic e) in *. set (C3 := PZ (prow pts ic) + dZ ic e) in *.
    set (D1 := PX (prow pts id) + dX id e) in *. set (D2 := PY (prow pts id) + dY id e) in *. set (D3 := PZ (prow pts id) + dZ id e) in *.
    set (G1 := det3 A1 A2 A3 C1 C2 C3 B1 B2 B3) in *.
    set (G2 := det3 C1 C2 C3 B1 B2 B3 D1 D2 D3) in *.
    set (G3 := det3 B1 B2 B3 D1 D2 D3 A1 A2 A3) in *.
    set (G4 := det3 D1 D2 D3 A1 A2 A3 C1 C2 C3) in *.
    (* Cramer: G3 C + G1 D = G2 A + G4 B, applied to T and to w *)
    assert (IT : G3 * (C1 * t1 + C2 * t2 + C3 * t3) + G1 * (D1 * t1 + D2 * t2 + D3 * t3)
               = G2 * (A1 * t1 + A2 * t2 + A3 * t3) + G4 * (B1 * t1 + B2 * t2 + B3 * t3))
      by (unfold G1, G2, G3, G4, det3; ring).
    assert (IW : G3 * (C1 * w1 + C2 * w2 + C3 * w3) + G1 * (D1 * w1 + D2 * w2 + D3 * w3)
               = G2 * (A1 * w1 + A2 * w2 + A3 * w3) + G4 * (B1 * w1 + B2 * w2 + B3 * w3))
      by (unfold G1, G2, G3, G4, det3; ring).
    (* the functionals on the perturbed vectors *)
    pose proof (pert_dot (prow pts ia) ia e t1 t2 t3 e01) as PAT. pose proof (pert_dot (prow pts ib) ib e t1 t2 t3 e01) as PBT.
    pose proof (pert_dot (prow pts ic) ic e t1 t2 t3 e01) as PCT. pose proof (pert_dot (prow pts id) id e t1 t2 t3 e01) as PDT.
    pose proof (pert_dot (prow pts ia) ia e w1 w2 w3 e01) as PAW. pose proof (pert_dot (prow pts ib) ib e w1 w2 w3 e01) as PBW.
    pose proof (pert_dot (prow pts ic) ic e w1 w2 w3 e01) as PCW. pose proof (pert_dot (prow pts id) id e w1 w2 w3 e01) as PDW.
    fold A1 A2 A3 in PAT, PAW. fold B1 B2 B3 in PBT, PBW. fold C1 C2 C3 in PCT, PCW. fold D1 D2 D3 in PDT, PDW.
    fold ka in PAT, PBT, PCT, PDT. fold kw in PAW, PBW, PCW, PDW. fold cT in PCT. fold dT in PDT. fold aw in PAW. fold bw in PBW.
    apply Rabs_le_inv in PAT, PBT, PCT, PDT, PAW, PBW, PCW, PDW.
    assert (Hke : e * ka <= m / 2).
    { assert (e * (2 * ka + 1) <= m).
      { apply Rlt_le in L1. unfold e1 in L1. apply (Rmult_le_compat_r (2 * ka + 1)) in L1; [|lra].
        unfold Rdiv in L1. rewrite Rmult_assoc, Rinv_l, Rmult_1_r in L1 by lra. exact L1. }
      lra. }
    assert (Hkw : e * kw <= om / 2).
    { assert (e * (2 * kw + 1) <= om).
      { apply Rlt_le in L2. unfold e2 in L2. apply (Rmult_le_compat_r (2 * kw + 1)) in L2; [|lra].
        unfold Rdiv in L2. rewrite Rmult_assoc, Rinv_l, Rmult_1_r in L2 by lra. exact L2. }
      lra. }
    assert (HkW : e * ka * W <= m * om / 8).
    { assert (e * (8 * (ka * W + 1)) <= m * om).
      { apply Rlt_le in L3. unfold e3 in L3. apply (Rmult_le_compat_r (8 * (ka * W + 1))) in L3; [|lra].
        unfold Rdiv in L3. rewrite Rmult_assoc, Rinv_l, Rmult_1_r in L3 by lra. exact L3. }
      lra. }
    pose proof (Rmin_l cT dT) as Ml. pose proof (Rmin_r cT dT) as Mr. fold m in Ml, Mr.
    pose proof (Rmin_l aw bw) as Ol. pose proof (Rmin_r aw bw) as Or. fold om in Ol, Or.
    assert (eka0 : 0 <= e * ka) by (apply Rmult_le_pos; lra).
    assert (HCw : C1 * w1 + C2 * w2 + C3 * w3 <= W).
    { unfold W. pose proof (Rle_abs (dotv (prow pts ic) w1 w2 w3)). pose proof (Rabs_pos (dotv (prow pts id) w1 w2 w3)).
      assert (e * kw <= kw) by (replace kw with (1 * kw) at 2 by ring; apply Rmult_le_compat_r; lra). lra. }
    assert (HDw : D1 * w1 + D2 * w2 + D3 * w3 <= W).
    { unfold W. pose proof (Rle_abs (dotv (prow pts id) w1 w2 w3)). pose proof (Rabs_pos (dotv (prow pts ic) w1 w2 w3)).
      assert (e * kw <= kw) by (replace kw with (1 * kw) at 2 by ring; apply Rmult_le_compat_r; lra). lra. }
    (* sign cases *)
    set (cTe := C1 * t1 + C2 * t2 + C3 * t3) in *. set (dTe := D1 * t1 + D2 * t2 + D3 * t3) in *.
    set (aTe := A1 * t1 + A2 * t2 + A3 * t3) in *. set (bTe := B1 * t1 + B2 * t2 + B3 * t3) in *.
    set (cWe := C1 * w1 + C2 * w2 + C3 * w3) in *. set (dWe := D1 * w1 + D2 * w2 + D3 * w3) in *.
    set (aWe := A1 * w1 + A2 * w2 + A3 * w3) in *. set (bWe := B1 * w1 + B2 * w2 + B3 * w3) in *.
    assert (HkW' : e * ka * W <= m * om / 8) by exact HkW.
    destruct (sgnR_cases G1) as [[Gn Eg]|[[Gz Eg]|[Gp Eg]]].
    - (* all negative: negate the identity *)
      rewrite Eg in E2, E3, E4. symmetry in E2, E3, E4.
      apply sgnR_neg_iff in E2, E3, E4.
      assert (IT' : - G3 * cTe + - G1 * dTe = - G2 * aTe + - G4 * bTe) by lra.
      assert (IW' : - G3 * cWe + - G1 * dWe = - G2 * aWe + - G4 * bWe) by lra.
      apply (no_positive_combo (- G3) (- G1) (- G2) (- G4) cTe dTe aTe bTe cWe dWe aWe bWe m om (e * ka) W); try lra.
    - contradiction.
    - rewrite Eg in E2, E3, E4. symmetry in E2, E3, E4.
      apply sgnR_pos_iff in E2, E3, E4.
      apply (no_positive_combo G3 G1 G2 G4 cTe dTe aTe bTe cWe dWe aWe bWe m om (e * ka) W); try lra.
  Qed.
End Perturbed.

(** * The statement on four unit points *)
Lemma neq_eqb p q : finite p -> finite q -> ~ peq p q -> s2_Point_eqb p q = false.
Proof.
  intros Fp Fq N. destruct (s2_Point_eqb p q) eqn:E; [|reflexivity].
  exfalso. apply N. now apply eqb_iff.
Qed.
Lemma peq_dotv p q t1 t2 t3 : peq p q -> dotv p t1 t2 t3 = dotv q t1 t2 t3.
Proof. intros (H1 & H2 & H3). unfold dotv. now rewrite H1, H2, H3. Qed.

Lemma In_index (l : list s2_Point) p : In p l -> exists i, (i < length l)%nat /\ nth i l dummy_pt = p.
Proof. intros H. destruct (In_nth l p dummy_pt H) as (i & Hi & E). now exists i. Qed.

Theorem separation_no_crossing a b c d t1 t2 t3 w1 w2 w3 :
  unit_pt a -> unit_pt b -> unit_pt c -> unit_pt d ->
  dotv a t1 t2 t3 <= 0 -> dotv b t1 t2 t3 <= 0 -> 0 < dotv c t1 t2 t3 -> 0 < dotv d t1 t2 t3 ->
  0 < dotv a w1 w2 w3 -> 0 < dotv b w1 w2 w3 ->
  shared s2_Point s2_Point_eqb a b c d = false /\ four_agree s2_Point robust_sign a b c d = false.
Proof.
  intros Ua Ub Uc Ud TA TB TC TD WA WB.
  assert (Fa : finite a) by apply Ua. assert (Fb : finite b) by apply Ub.
  assert (Fc : finite c) by apply Uc. assert (Fd : finite d) by apply Ud.
  assert (Nac : ~ peq a c) by (intros E; rewrite (peq_dotv a c _ _ _ E) in TA; lra).
  assert (Nad : ~ peq a d) by (intros E; rewrite (peq_dotv a d _ _ _ E) in TA; lra).
  assert (Nbc : ~ peq b c) by (intros E; rewrite (peq_dotv b c _ _ _ E) in TB; lra).
  assert (Nbd : ~ peq b d) by (intros E; rewrite (peq_dotv b d _ _ _ E) in TB; lra).
  split.
  { unfold shared. rewrite (neq_eqb a c), (neq_eqb a d), (neq_eqb b c), (neq_eqb b d); auto. }
  destruct (four_agree s2_Point robust_sign a b c d) eqn:FA; [exfalso|reflexivity].
  unfold four_agree in FA. cbv zeta in FA.
  apply andb_true_iff in FA. destruct FA as [FA NZ]. apply andb_true_iff in FA. destruct FA as [FA E4].
  apply andb_true_iff in FA. destruct FA as [E2 E3].
  apply Z.eqb_eq in E2, E3, E4. apply negb_true_iff in NZ. apply Z.eqb_neq in NZ.
  (* degenerate edges *)
  destruct (s2_Point_eqb a b) eqn:Eab.
  { apply NZ. apply (robust_sign_zero_iff a c b Ua Uc Ub). unfold identical2.
    rewrite (eqb_sym b a Fb Fa), Eab. now rewrite !orb_true_r. }
  destruct (s2_Point_eqb c d) eqn:Ecd.
  { apply NZ. rewrite E2. apply (robust_sign_zero_iff c b d Uc Ub Ud). unfold identical2.
    rewrite (eqb_sym d c Fd Fc), Ecd. now rewrite !orb_true_r. }
  assert (Nab : ~ peq a b) by (intros E; apply (eqb_iff a b Fa Fb) in E; congruence).
  assert (Ncd : ~ peq c d) by (intros E; apply (eqb_iff c d Fc Fd) in E; congruence).
  (* the four signs are exact signs *)
  assert (RS : forall p q r, unit_pt p -> unit_pt q -> unit_pt r -> ~ peq p q -> ~ peq q r -> ~ peq r p ->
            robust_sign p q r = exact_sign p q r).
  { intros p q r Up Uq Ur N1 N2 N3. rewrite (robust_sign_spec p q r Up Uq Ur). unfold identical2.
    rewrite (neq_eqb p q), (neq_eqb q r), (neq_eqb r p); auto; try apply Up; try apply Uq; try apply Ur. }
  assert (PS : forall p q, ~ peq p q -> ~ peq q p) by (intros p q N E; apply N; now apply peq_sym).
  rewrite (RS a c b) in *; auto. rewrite (RS c b d) in E2; auto. rewrite (RS b d a) in E3; auto.
  rewrite (RS d a c) in E4; auto.
  (* a sorted list holding the four points *)
  set (l := pins a (pins b (pins c [d]))).
  assert (S1 : ssorted (pins c [d])).
  { apply pins_sorted; [exact Fc| |simpl; split; [intros r []|exact I]].
    intros q [<-|[]]. split; [exact Fd|exact Ncd]. }
  assert (S2 : ssorted (pins b (pins c [d]))).
  { apply pins_sorted; [exact Fb| |exact S1].
    intros q Hq. apply pins_In in Hq. destruct Hq as [->|[<-|[]]]; split; auto. }
  assert (S3 : ssorted l).
  { apply pins_sorted; [exact Fa| |exact S2].
    intros q Hq. apply pins_In in Hq. destruct Hq as [->|Hq]; [split; auto|].
    apply pins_In in Hq. destruct Hq as [->|[<-|[]]]; split; auto. }
  assert (Ia : In a l) by (apply pins_In; now left).
  assert (Ib : In b l) by (apply pins_In; right; apply pins_In; now left).
  assert (Ic : In c l) by (apply pins_In; right; apply pins_In; right; apply pins_In; now left).
  assert (Id : In d l) by (apply pins_In; right; apply pins_In; right; apply pins_In; right; now left).
  assert (Fl : forall i, (i < plen l)%nat -> finite (prow l i)).
  { intros i Hi. unfold prow, plen in *. pose proof (nth_In l dummy_pt Hi) as H.
    apply pins_In in H. destruct H as [->|H]; [exact Fa|].
    apply pins_In in H. destruct H as [->|H]; [exact Fb|].
    apply pins_In in H. destruct H as [->|[<-|[]]]; assumption. }
  assert (Sl : forall i j, (i < j)%nat -> (j < plen l)%nat -> cmp_gt (prow l j) (prow l i) = true).
  { intros i j Hij Hj. unfold prow, plen in *. now apply ssorted_index. }
  destruct (In_index l a Ia) as (ia & La & Ea). destruct (In_index l b Ib) as (ib & Lb & Eb).
  destruct (In_index l c Ic) as (ic & Lc & Ec). destruct (In_index l d Id) as (id & Ld & Ed).
  assert (PR : forall p, peq p p) by (intros p; unfold peq; auto).
  assert (Dab : ia <> ib) by (intros E; apply Nab; rewrite <- Ea, <- Eb, E; apply PR).
  assert (Dac : ia <> ic) by (intros E; apply Nac; rewrite <- Ea, <- Ec, E; apply PR).
  assert (Dad : ia <> id) by (intros E; apply Nad; rewrite <- Ea, <- Ed, E; apply PR).
  assert (Dbc : ib <> ic) by (intros E; apply Nbc; rewrite <- Eb, <- Ec, E; apply PR).
  assert (Dbd : ib <> id) by (intros E; apply Nbd; rewrite <- Eb, <- Ed, E; apply PR).
  assert (Dcd : ic <> id) by (intros E; apply Ncd; rewrite <- Ec, <- Ed, E; apply PR).
  apply (separated_not_four_agree l Fl Sl ia ib ic id La Lb Lc Ld Dab Dac Dad Dbc Dbd Dcd t1 t2 t3 w1 w2 w3);
    unfold prow; rewrite ?Ea, ?Eb, ?Ec, ?Ed; auto.
Qed.
